/-
  C02 — largest remainder: whole quotas first, then the largest exact remainders; caps; over-award policies;
  textbook quota values.  Property theorems only (helper lemmas: VotelibProofs/Lemmas/QuotaDist.lean).

  Reading (DESIGN "### C02").  `q = quota(V, n) > 0`; `wholeQ q ae v = ⌊v / q⌋`, except `0` for a party exactly on
  the quota when `accept_equal` is off; `capQ` holds the whole quotas at the party's cap (`max_seats`);
  `wholeAward = max (capQ (wholeQ) − prev) 0`.  The model is `VL.QD.quotaDistribute` / `VL.QD.largestRemainder`
  (VotelibModel/QuotaDist.lean), which is what the driver runs; it mirrors the code after the repairs 9571110
  (caps), 24bad1e (constant-quota error message) and eca6e34 (a non-positive quota is refused).  All theorems hold for every well-formed request — there is
  no cap-related side condition any more.  The defects the two repairs removed stay recorded as
  `prefix_*_witness` theorems about the pre-repair model `VL.QDPre` (VotelibModel/QuotaDistPreFix.lean).
-/
import VotelibModel.QuotaDistPreFix
import VotelibProofs.Lemmas.QuotaDist
namespace VL.C02
open VL VL.QD

/-! ## 1. the named quota functions return their textbook values -/

theorem quota_textbook_hare (V : Rat) (n : Nat) : Gen.Quota.hare V n = V / n := rfl

theorem quota_textbook_hagenbach_bischoff (V : Rat) (n : Nat) :
    Gen.Quota.hagenbach_bischoff V n = V / (n + 1) := by
  unfold Gen.Quota.hagenbach_bischoff; push_cast; rfl

theorem quota_textbook_imperiali (V : Rat) (n : Nat) : Gen.Quota.imperiali V n = V / (n + 2) := by
  unfold Gen.Quota.imperiali; push_cast; rfl

/-- Droop: `⌊V / (n+1)⌋ + 1` (Python's `int()` truncates toward zero, which is the floor for `V ≥ 0`) -/
theorem quota_textbook_droop (V : Rat) (n : Nat) (hV : 0 ≤ V) :
    Gen.Quota.droop V n = ((⌊V / (n + 1)⌋ + 1 : Int) : Rat) := by
  unfold Gen.Quota.droop
  have h : (0 : Rat) ≤ V / (((n + 1 : Nat)) : Rat) := div_nonneg hV (by positivity)
  rw [pyInt_nonneg h]
  push_cast; rfl

theorem quota_textbook_hagenbach_bischoff_ceil (V : Rat) (n : Nat) :
    Gen.Quota.hagenbach_bischoff_ceil V n = ((⌈V / (n + 1)⌉ : Int) : Rat) := by
  unfold Gen.Quota.hagenbach_bischoff_ceil
  rw [pyCeil_eq]; push_cast; rfl

/-- `_round_half_up` is rounding to the nearest integer with halves up: `⌊x + 1/2⌋` -/
theorem quota_round_half_up (x : Rat) : Gen.Quota.round_half_up x = ⌊x + 1 / 2⌋ := round_half_up_eq x

theorem quota_textbook_hare_rounded (V : Rat) (n : Nat) :
    Gen.Quota.hare_rounded V n = ((⌊V / n + 1 / 2⌋ : Int) : Rat) := by
  unfold Gen.Quota.hare_rounded
  rw [round_half_up_eq]

theorem quota_textbook_hagenbach_bischoff_rounded (V : Rat) (n : Nat) :
    Gen.Quota.hagenbach_bischoff_rounded V n = ((⌊V / (n + 1) + 1 / 2⌋ : Int) : Rat) := by
  unfold Gen.Quota.hagenbach_bischoff_rounded
  rw [round_half_up_eq]; push_cast; rfl

/-- the Droop quota is positive for every non-negative total: it can never divide by zero -/
theorem quota_droop_pos (V : Rat) (n : Nat) (hV : 0 ≤ V) : 0 < Gen.Quota.droop V n := by
  rw [quota_textbook_droop V n hV]
  have : 0 ≤ ⌊V / ((n : Rat) + 1)⌋ := Int.floor_nonneg.mpr (div_nonneg hV (by positivity))
  exact_mod_cast (by omega : 0 < ⌊V / ((n : Rat) + 1)⌋ + 1)

/-- Droop is the smallest integer strictly above `V / (n+1)` -/
theorem quota_droop_least (V : Rat) (n : Nat) (hV : 0 ≤ V) :
    V / (n + 1) < Gen.Quota.droop V n ∧ Gen.Quota.droop V n - 1 ≤ V / (n + 1) := by
  rw [quota_textbook_droop V n hV]
  push_cast
  exact ⟨Int.lt_floor_add_one _, by linarith [Int.floor_le (V / ((n : Rat) + 1))]⟩

example : Gen.Quota.droop 100 3 = 26 := by decide +kernel
example : Gen.Quota.hare_rounded 7 2 = 4 := by decide +kernel          -- 3.5 rounds up
example : Gen.Quota.hagenbach_bischoff_rounded 5 1 = 3 := by decide +kernel   -- 2.5 rounds up (not to even)
example : Gen.Quota.hagenbach_bischoff_ceil 100 2 = 34 := by decide +kernel

/-! ## 2. QuotaDistributor: whole quotas and the over-award policies -/

/-- well-formed request: Python dicts have distinct keys; vote counts and previous gains are non-negative -/
def WF (votes : Votes) (prev : IMap) : Prop :=
  (votes.map (·.1)).Nodup ∧ (∀ p ∈ votes, 0 ≤ p.2) ∧ (prev.map (·.1)).Nodup ∧ (∀ x ∈ prev, 0 ≤ x.2)

instance (votes : Votes) (prev : IMap) : Decidable (WF votes prev) := by unfold WF; infer_instance

theorem WF.keys_nodup {votes : Votes} {prev : IMap} (h : WF votes prev) : (votes.map (·.1)).Nodup := h.1
theorem WF.votes_nonneg {votes : Votes} {prev : IMap} (h : WF votes prev) : ∀ p ∈ votes, 0 ≤ p.2 := h.2.1
theorem WF.prev_nodup {votes : Votes} {prev : IMap} (h : WF votes prev) : (prev.map (·.1)).Nodup := h.2.2.1
theorem WF.prev_nonneg {votes : Votes} {prev : IMap} (h : WF votes prev) : ∀ c, 0 ≤ getI prev c 0 := by
  intro c
  unfold getI
  cases hf : prev.find? (fun p => p.1 = c) with
  | none => exact le_refl _
  | some x => exact h.2.2.2 x (List.mem_of_find?_eq_some hf)

/-- seats handed out so far, previous gains of all parties included (the code's `total_awarded`, L238) -/
def totalAwarded (q : Rat) (ae : Bool) (prev maxS : IMap) (votes : Votes) : Int :=
  sumK (wholeSel q ae prev maxS votes) + sumI prev

/-- **Whole quotas.**  `QuotaDistributor.evaluate` is the over-award policy applied to the dict of whole-quota
    awards `max (min(⌊v/q⌋, cap) − prev) 0` (with the `accept_equal` edge), positive entries only, in the order
    of `votes`. -/
theorem qd_whole_quotas (cfg : Cfg) (votes : Votes) (n : Nat) (prev maxS : IMap) (hwf : WF votes prev)
    (hq : 0 < cfg.quota (sumVals votes) n) :
    quotaDistribute cfg votes n prev maxS =
      applyPolicy cfg votes n prev (wholeSel (cfg.quota (sumVals votes) n) cfg.acceptEqual prev maxS votes) := by
  rw [quotaDistribute_eq cfg votes n prev maxS hq hwf.keys_nodup,
    filterMap_awardOf_eq hq cfg.acceptEqual prev maxS votes hwf.votes_nonneg hwf.prev_nonneg]

/-- the value of the whole-quota dict at a party: `max (capQ (wholeQ) − prev) 0`; without a cap on the party this
    is `max (⌊v/q⌋ − prev) 0` -/
theorem wholeSel_get (q : Rat) (ae : Bool) (prev maxS : IMap) (votes : Votes) (hnd : (votes.map (·.1)).Nodup)
    (p : Cand × Rat) (hp : p ∈ votes) :
    getK (wholeSel q ae prev maxS votes) (.cand p.1) 0 =
        max (capQ maxS p.1 (wholeQ q ae p.2) - getI prev p.1 0) 0 ∧
      (getCap maxS p.1 = none →
        getK (wholeSel q ae prev maxS votes) (.cand p.1) 0 = max (wholeQ q ae p.2 - getI prev p.1 0) 0) := by
  refine ⟨getK_wholeSel q ae prev maxS votes hnd p hp, ?_⟩
  intro hn
  rw [getK_wholeSel q ae prev maxS votes hnd p hp]
  unfold wholeAward capQ
  rw [hn]

/-- no over-award: the whole quotas are returned as they are -/
theorem qd_no_overaward (cfg : Cfg) (votes : Votes) (n : Nat) (prev maxS : IMap) (hwf : WF votes prev)
    (hq : 0 < cfg.quota (sumVals votes) n)
    (hle : totalAwarded (cfg.quota (sumVals votes) n) cfg.acceptEqual prev maxS votes ≤ n) :
    quotaDistribute cfg votes n prev maxS =
      .ok (wholeSel (cfg.quota (sumVals votes) n) cfg.acceptEqual prev maxS votes) := by
  rw [qd_whole_quotas cfg votes n prev maxS hwf hq]
  unfold applyPolicy
  simp only
  rw [if_neg (by unfold totalAwarded at hle; omega)]

/-- policy `'error'`: `VotingSystemError` exactly when the whole quotas (with previous gains) exceed the house —
    for every quota callable, also `quota.constant` (repair 24bad1e) -/
theorem qd_policy_error (cfg : Cfg) (votes : Votes) (n : Nat) (prev maxS : IMap) (hwf : WF votes prev)
    (hq : 0 < cfg.quota (sumVals votes) n) (hpol : cfg.onOver = .error)
    (hgt : (n : Int) < totalAwarded (cfg.quota (sumVals votes) n) cfg.acceptEqual prev maxS votes) :
    quotaDistribute cfg votes n prev maxS = .error .votingSystemError := by
  rw [qd_whole_quotas cfg votes n prev maxS hwf hq]
  unfold applyPolicy
  simp only
  rw [if_pos (by unfold totalAwarded at hgt; omega), hpol]

/-- policy `'ignore'`: the surplus is kept, the whole quotas are returned unchanged -/
theorem qd_policy_ignore (cfg : Cfg) (votes : Votes) (n : Nat) (prev maxS : IMap) (hwf : WF votes prev)
    (hq : 0 < cfg.quota (sumVals votes) n) (hpol : cfg.onOver = .ignore) :
    quotaDistribute cfg votes n prev maxS =
      .ok (wholeSel (cfg.quota (sumVals votes) n) cfg.acceptEqual prev maxS votes) := by
  rw [qd_whole_quotas cfg votes n prev maxS hwf hq]
  unfold applyPolicy
  simp only
  split
  · rw [hpol]
  · rfl

/-- policy `'subtract'`: whenever it returns, exactly the surplus has been withdrawn — the total with previous
    gains is the house size -/
theorem qd_policy_subtract_total (cfg : Cfg) (votes : Votes) (n : Nat) (prev maxS : IMap) (hwf : WF votes prev)
    (hq : 0 < cfg.quota (sumVals votes) n) (hpol : cfg.onOver = .subtract)
    (hgt : (n : Int) < totalAwarded (cfg.quota (sumVals votes) n) cfg.acceptEqual prev maxS votes)
    (r : Sel) (hr : quotaDistribute cfg votes n prev maxS = .ok r) :
    sumK r + sumI prev = n := by
  rw [qd_whole_quotas cfg votes n prev maxS hwf hq] at hr
  unfold applyPolicy at hr
  simp only at hr
  rw [if_pos (by unfold totalAwarded at hgt; omega), hpol] at hr
  simp only [subtractOveraward] at hr
  obtain ⟨h1, _⟩ := subtractLoop_sum votes _ prev _ _ r (KNodup_wholeSel _ _ _ _ _ hwf.keys_nodup) hr
  unfold totalAwarded at hgt
  rw [h1]
  omega

/-- **The configured policy is honoured exactly, for every well-formed request** (whatever the caps, and also when
    a single party's whole quotas exceed the house): no over-award ⇒ the whole quotas; over-award ⇒
    `VotingSystemError` / the whole quotas unchanged / a result that totals `n`. -/
theorem qd_policy_honoured (cfg : Cfg) (votes : Votes) (n : Nat) (prev maxS : IMap) (hwf : WF votes prev)
    (hq : 0 < cfg.quota (sumVals votes) n) :
    let W := wholeSel (cfg.quota (sumVals votes) n) cfg.acceptEqual prev maxS votes
    let T := totalAwarded (cfg.quota (sumVals votes) n) cfg.acceptEqual prev maxS votes
    (T ≤ n → quotaDistribute cfg votes n prev maxS = .ok W) ∧
    ((n : Int) < T → cfg.onOver = .error → quotaDistribute cfg votes n prev maxS = .error .votingSystemError) ∧
    ((n : Int) < T → cfg.onOver = .ignore → quotaDistribute cfg votes n prev maxS = .ok W) ∧
    ((n : Int) < T → cfg.onOver = .subtract →
      ∀ r, quotaDistribute cfg votes n prev maxS = .ok r → sumK r + sumI prev = n) :=
  ⟨qd_no_overaward cfg votes n prev maxS hwf hq,
   fun hgt hpol => qd_policy_error cfg votes n prev maxS hwf hq hpol hgt,
   fun _ hpol => qd_policy_ignore cfg votes n prev maxS hwf hq hpol,
   fun hgt hpol r hr => qd_policy_subtract_total cfg votes n prev maxS hwf hq hpol hgt r hr⟩

/-- **A non-positive quota is refused** with the declared `VotingSystemError` before anything is divided
    (repair eca6e34; e.g. the rounded quotas round to 0 when the votes are fewer than half the seats) -/
theorem qd_refuses_nonpositive_quota (cfg : Cfg) (votes : Votes) (n : Nat) (prev maxS : IMap)
    (hq : cfg.quota (sumVals votes) n ≤ 0) :
    quotaDistribute cfg votes n prev maxS = .error .votingSystemError ∧
    largestRemainder cfg votes n prev maxS = .error .votingSystemError := by
  have h := quotaDistribute_nonpos cfg votes n prev maxS hq
  refine ⟨h, ?_⟩
  unfold largestRemainder
  rw [h]

/-- **The refusal set, for EVERY quota callable and every input** (no hypothesis at all): the only exceptions
    that can escape `QuotaDistributor.evaluate` are the declared `VotingSystemError` (non-positive quota, or policy
    `'error'`) and, from the withdrawal loop, `IndexError` (nobody left to withdraw from).  `ZeroDivisionError` is
    unreachable.  (`Model:NestedTie` is the model's own marker for the one unmodelled shape.) -/
theorem qd_errors (cfg : Cfg) (votes : Votes) (n : Nat) (prev maxS : IMap) (e : Err)
    (he : quotaDistribute cfg votes n prev maxS = .error e) :
    e = .votingSystemError ∨ e = indexErr ∨ e = nestedTie :=
  quotaDistribute_err he

/-- the same for `LargestRemainder.evaluate`: its own `Fraction(n_votes, quota_number)` is only reached after its
    `QuotaDistributor` has accepted the quota as positive -/
theorem lr_errors (cfg : Cfg) (votes : Votes) (n : Nat) (prev maxS : IMap) (e : Err)
    (he : largestRemainder cfg votes n prev maxS = .error e) :
    e = .votingSystemError ∨ e = indexErr ∨ e = nestedTie := by
  unfold largestRemainder at he
  split at he
  · rename_i e' hqd
    injection he with he
    rw [← he]; exact quotaDistribute_err hqd
  · rename_i r hqd
    have hpos := quotaDistribute_ok_pos hqd
    simp only at he
    rw [if_neg (fun hh => (ne_of_gt hpos) hh.1)] at he
    cases he

/-- `VotingSystemError` is raised exactly for a non-positive quota or an over-award under policy `'error'` -/
theorem qd_error_iff (cfg : Cfg) (votes : Votes) (n : Nat) (prev maxS : IMap) (hwf : WF votes prev) :
    quotaDistribute cfg votes n prev maxS = .error .votingSystemError ↔
      (cfg.quota (sumVals votes) n ≤ 0 ∨
        (cfg.onOver = .error ∧
          (n : Int) < totalAwarded (cfg.quota (sumVals votes) n) cfg.acceptEqual prev maxS votes)) := by
  constructor
  · intro h
    by_cases hq : cfg.quota (sumVals votes) n ≤ 0
    · exact Or.inl hq
    · right
      have hq' : 0 < cfg.quota (sumVals votes) n := not_le.mp hq
      rw [qd_whole_quotas cfg votes n prev maxS hwf hq'] at h
      unfold applyPolicy at h
      simp only at h
      split at h
      · rename_i hgt
        cases hpol : cfg.onOver with
        | ignore => rw [hpol] at h; cases h
        | error => exact ⟨rfl, by unfold totalAwarded; omega⟩
        | subtract =>
          rw [hpol] at h
          simp only [subtractOveraward] at h
          rcases subtractLoop_err _ _ h with h' | h' <;> cases h'
      · cases h
  · rintro (hq | ⟨hpol, hgt⟩)
    · exact (qd_refuses_nonpositive_quota cfg votes n prev maxS hq).1
    · by_cases hq : cfg.quota (sumVals votes) n ≤ 0
      · exact (qd_refuses_nonpositive_quota cfg votes n prev maxS hq).1
      · exact qd_policy_error cfg votes n prev maxS hwf (not_le.mp hq) hpol hgt

/-- **Policy `'subtract'`, one withdrawal.**  Every successful pass of the withdrawal loop looks at the margins
    `v − q·(seats + prev)` of the current holders, finds the smallest margin `m`, and
    * if exactly one holder has it, takes one seat from that holder (its entry disappears when it drops to 0);
    * if several holders share it, takes one seat from each of them and hands `k − 1` seats to a `Tie` object
      naming them — or, if that `Tie` already holds seats, takes one seat from the `Tie`.
    `L` is the list of positions in `selected` of the entries with the smallest margin (`qd_subtract_level`). -/
theorem qd_subtract_step (votes : Votes) (q : Rat) (prev : IMap) (sel sel' : Sel)
    (h : subtractStep votes q prev sel = .ok sel') :
    ∃ m, (∃ e ∈ sel, margin votes q prev e = m) ∧ (∀ e ∈ sel, m ≤ margin votes q prev e) ∧
      (∀ i, i ∈ level (subRemainders votes q prev sel) (-m) ↔
          ∃ e, sel[i]? = some e ∧ margin votes q prev e = m) ∧
      ((level (subRemainders votes q prev sel) (-m)).length = 1 →
          ∃ i, level (subRemainders votes q prev sel) (-m) = [i] ∧ sel' = decK sel (keyAt sel i)) ∧
      ((level (subRemainders votes q prev sel) (-m)).length ≠ 1 →
          ∃ cs, (level (subRemainders votes q prev sel) (-m)).map (keyAt sel) = cs.map Key.cand ∧
            sel' = if hasK sel (mkTie cs) then decK sel (mkTie cs)
              else setK (cs.foldl (fun acc c => decK acc (.cand c)) sel) (mkTie cs)
                (getK (cs.foldl (fun acc c => decK acc (.cand c)) sel) (mkTie cs) 0 + (cs.length : Int) - 1)) := by
  have hne : sel ≠ [] := by
    intro he; subst he
    have : subtractStep votes q prev [] = .error indexErr := rfl
    rw [this] at h; cases h
  obtain ⟨t, ⟨x, hx, hxt⟩, hall, hbest⟩ := getNBest_one (subRemainders votes q prev sel) (subRemainders_ne_nil hne)
  refine ⟨-t, ?_, ?_, ?_, ?_, ?_⟩
  · obtain ⟨e, he, hxe⟩ := mem_subRemainders.mp hx
    refine ⟨e, List.mem_of_getElem? he, ?_⟩
    rw [← hxt, hxe]; ring
  · intro e he
    obtain ⟨i, hi, hie⟩ := List.mem_iff_getElem.mp he
    have hm : (i, - margin votes q prev e) ∈ subRemainders votes q prev sel :=
      mem_subRemainders.mpr ⟨e, by rw [← hie]; exact List.getElem?_eq_getElem hi, rfl⟩
    have := hall _ hm
    simp only at this
    linarith
  · intro i
    rw [neg_neg]
    unfold level
    simp only [List.mem_map, List.mem_filter, decide_eq_true_eq]
    constructor
    · rintro ⟨y, ⟨hy, hyt⟩, rfl⟩
      obtain ⟨e, he, hye⟩ := mem_subRemainders.mp hy
      exact ⟨e, he, by rw [← hyt, hye]; ring⟩
    · rintro ⟨e, he, hme⟩
      refine ⟨(i, - margin votes q prev e), ⟨mem_subRemainders.mpr ⟨e, he, rfl⟩, ?_⟩, rfl⟩
      simp only; rw [hme]; ring
  · rw [neg_neg]
    intro hl
    unfold subtractStep at h
    rw [hbest, if_pos hl] at h
    obtain ⟨i, hi⟩ := List.length_eq_one_iff.mp hl
    rw [hi] at h
    simp only [List.map_cons, List.map_nil] at h
    injection h with h
    exact ⟨i, hi, h.symm⟩
  · rw [neg_neg]
    intro hl
    unfold subtractStep at h
    rw [hbest, if_neg hl] at h
    simp only at h
    split at h
    · cases h
    · rename_i cs hcs
      refine ⟨cs, mapM_candOfKey_some _ _ hcs, ?_⟩
      split at h
      · rename_i hk; injection h with h; rw [if_pos hk]; exact h.symm
      · rename_i hk; injection h with h; rw [if_neg hk]; exact h.symm

/-- the withdrawal loop stops with `IndexError` exactly when nobody holds a seat any more
    (`get_n_best({}, 1)[0]`; only reachable when the previous gains alone exceed the house) -/
theorem qd_subtract_empty (votes : Votes) (q : Rat) (prev : IMap) :
    subtractStep votes q prev [] = .error indexErr := rfl

/-! ## 3. LargestRemainder: whole quotas, then the largest exact remainders -/

/-- the standing hypotheses of the remainder stage: a well-formed request, a positive quota, and whole quotas
    (held at the caps) that do not over-fill the house -/
structure Plain (cfg : Cfg) (votes : Votes) (n : Nat) (prev maxS : IMap) : Prop where
  wf : WF votes prev
  quota_pos : 0 < cfg.quota (sumVals votes) n
  no_over : totalAwarded (cfg.quota (sumVals votes) n) cfg.acceptEqual prev maxS votes ≤ n

/-- seats left for the remainder stage -/
def remSeats (q : Rat) (ae : Bool) (n : Nat) (prev maxS : IMap) (votes : Votes) : Int :=
  (n : Int) - totalAwarded q ae prev maxS votes

/-- the winners of the remainder stage: `get_n_best` over the exact remainders `v/q − gained` of the parties
    still below their cap -/
def lrBest (q : Rat) (ae : Bool) (n : Nat) (prev maxS : IMap) (votes : Votes) : List Slot :=
  getNBest (lrRems q ae prev maxS votes) (remSeats q ae n prev maxS votes).toNat

/-- **Structure of the result.**  `LargestRemainder.evaluate` = the whole-quota dict, plus one seat for every
    place of `get_n_best(remainders, n − awarded)`. -/
theorem lr_whole_then_remainders (cfg : Cfg) (votes : Votes) (n : Nat) (prev maxS : IMap)
    (h : Plain cfg votes n prev maxS) :
    largestRemainder cfg votes n prev maxS =
      .ok ((lrBest (cfg.quota (sumVals votes) n) cfg.acceptEqual n prev maxS votes).foldl
            (fun acc s => incK acc (slotKey s))
            (wholeSel (cfg.quota (sumVals votes) n) cfg.acceptEqual prev maxS votes)) := by
  unfold largestRemainder
  rw [qd_no_overaward cfg votes n prev maxS h.wf h.quota_pos h.no_over]
  simp only
  rw [lrRemainders_eq _ _ _ _ _ h.wf.keys_nodup h.wf.prev_nodup, sumK_addDict, sumK_prevAsSel]
  rw [if_neg (fun hh => (ne_of_gt h.quota_pos) hh.1)]
  rfl

/-- **Whole quotas plus at most one.**  Every party ends with its whole-quota award, plus exactly one seat if
    it is an individual winner of the remainder stage, and nothing else. -/
theorem lr_floor_plus_01 (cfg : Cfg) (votes : Votes) (n : Nat) (prev maxS : IMap) (h : Plain cfg votes n prev maxS)
    (res : Sel) (hres : largestRemainder cfg votes n prev maxS = .ok res) (p : Cand × Rat) (hp : p ∈ votes) :
    getK res (.cand p.1) 0 = wholeAward (cfg.quota (sumVals votes) n) cfg.acceptEqual prev maxS p +
      (if Slot.cand p.1 ∈ lrBest (cfg.quota (sumVals votes) n) cfg.acceptEqual n prev maxS votes then 1 else 0) := by
  rw [lr_whole_then_remainders cfg votes n prev maxS h] at hres
  injection hres with hres
  subst hres
  rw [getK_foldl_incK, getK_wholeSel _ _ _ _ _ h.wf.keys_nodup p hp, count_slotKey_cand]
  have hle := count_cand_getNBest_le_one (lrRems (cfg.quota (sumVals votes) n) cfg.acceptEqual prev maxS votes)
    (List.Nodup.sublist (keys_lrRems_sublist _ _ _ _ _) h.wf.keys_nodup)
    (remSeats (cfg.quota (sumVals votes) n) cfg.acceptEqual n prev maxS votes).toNat p.1
  unfold lrBest
  split
  · rename_i hm
    have := List.count_pos_iff.mpr hm
    have e : List.count (Slot.cand p.1) (getNBest (lrRems (cfg.quota (sumVals votes) n) cfg.acceptEqual prev maxS votes)
      (remSeats (cfg.quota (sumVals votes) n) cfg.acceptEqual n prev maxS votes).toNat) = 1 := by omega
    rw [e]; rfl
  · rename_i hm
    rw [List.count_eq_zero.mpr hm]; rfl

/-- a remainder seat only goes to a party of the election that is still below its cap -/
theorem lr_extra_only_eligible (cfg : Cfg) (votes : Votes) (n : Nat) (prev maxS : IMap) (c : Cand)
    (hc : Slot.cand c ∈ lrBest (cfg.quota (sumVals votes) n) cfg.acceptEqual n prev maxS votes) :
    ∃ p ∈ votes, p.1 = c ∧ eligible (cfg.quota (sumVals votes) n) cfg.acceptEqual prev maxS p = true := by
  obtain ⟨e, he, hec⟩ := cand_mem_getNBest _ _ _ hc
  obtain ⟨p, hp, hel, rfl⟩ := mem_lrRems he
  exact ⟨p, hp, hec, hel⟩

/-- **Largest remainders.**  If an eligible party `p` wins a remainder seat and an eligible party `p'` does not,
    then the exact remainder of `p'` is not larger than that of `p`. -/
theorem lr_largest_remainders (cfg : Cfg) (votes : Votes) (n : Nat) (prev maxS : IMap)
    (hnd : (votes.map (·.1)).Nodup) (p p' : Cand × Rat) (hp : p ∈ votes) (hp' : p' ∈ votes)
    (hel : eligible (cfg.quota (sumVals votes) n) cfg.acceptEqual prev maxS p = true)
    (hel' : eligible (cfg.quota (sumVals votes) n) cfg.acceptEqual prev maxS p' = true)
    (hwin : Slot.cand p.1 ∈ lrBest (cfg.quota (sumVals votes) n) cfg.acceptEqual n prev maxS votes)
    (hlose : Slot.cand p'.1 ∉ lrBest (cfg.quota (sumVals votes) n) cfg.acceptEqual n prev maxS votes) :
    p'.2 / cfg.quota (sumVals votes) n - (gainedQ (cfg.quota (sumVals votes) n) cfg.acceptEqual prev maxS p' : Rat) ≤
      p.2 / cfg.quota (sumVals votes) n - (gainedQ (cfg.quota (sumVals votes) n) cfg.acceptEqual prev maxS p : Rat) :=
  elected_ge_unelected _ (List.Nodup.sublist (keys_lrRems_sublist _ _ _ _ _) hnd) _ _ _
    (mem_lrRems_of hp hel) (mem_lrRems_of hp' hel') hwin hlose

/-- **Ties at the cut.**  A tie among the remainder winners names exactly the parties whose remainder equals the
    cut value `t` (the `r`-th largest remainder), it is reported only when they do not all fit, and it occupies
    exactly the places that the parties strictly above the cut leave over. -/
theorem lr_tie_shape (cfg : Cfg) (votes : Votes) (n : Nat) (prev maxS : IMap) (T : List Cand)
    (hT : Slot.tie T ∈ lrBest (cfg.quota (sumVals votes) n) cfg.acceptEqual n prev maxS votes) :
    let rems := lrRems (cfg.quota (sumVals votes) n) cfg.acceptEqual prev maxS votes
    let r := (remSeats (cfg.quota (sumVals votes) n) cfg.acceptEqual n prev maxS votes).toNat
    ∃ t, IsNth rems r t ∧ r < cntGe rems t ∧ T = level rems t ∧
      (lrBest (cfg.quota (sumVals votes) n) cfg.acceptEqual n prev maxS votes).count (Slot.tie T) = r - cntGt rems t :=
  tie_mem_getNBest _ _ _ hT

/-- … and in the returned dict the `Tie` object (a frozenset: its members in canonical order) holds exactly those
    places. -/
theorem lr_tie_seats (cfg : Cfg) (votes : Votes) (n : Nat) (prev maxS : IMap) (h : Plain cfg votes n prev maxS)
    (res : Sel) (hres : largestRemainder cfg votes n prev maxS = .ok res) (T : List Cand)
    (hT : Slot.tie T ∈ lrBest (cfg.quota (sumVals votes) n) cfg.acceptEqual n prev maxS votes) :
    getK res (mkTie T) 0 =
      ((lrBest (cfg.quota (sumVals votes) n) cfg.acceptEqual n prev maxS votes).count (Slot.tie T) : Int) := by
  rw [lr_whole_then_remainders cfg votes n prev maxS h] at hres
  injection hres with hres
  subst hres
  rw [getK_foldl_incK]
  unfold mkTie
  rw [getK_wholeSel_tie]
  have := count_slotKey_tie _ _ T hT
  unfold mkTie at this
  unfold lrBest
  rw [this]; simp

/-- **Total.**  If the remainder seats do not outnumber the eligible parties, the result together with the
    previous gains fills the house exactly. -/
theorem lr_total (cfg : Cfg) (votes : Votes) (n : Nat) (prev maxS : IMap) (h : Plain cfg votes n prev maxS)
    (hrem : (remSeats (cfg.quota (sumVals votes) n) cfg.acceptEqual n prev maxS votes).toNat ≤
      (lrRems (cfg.quota (sumVals votes) n) cfg.acceptEqual prev maxS votes).length)
    (res : Sel) (hres : largestRemainder cfg votes n prev maxS = .ok res) :
    sumK res + sumI prev = n := by
  rw [lr_whole_then_remainders cfg votes n prev maxS h] at hres
  injection hres with hres
  subst hres
  rw [sumK_foldl_incK]
  unfold lrBest
  rw [getNBest_length_eq _ _ hrem]
  have := h.no_over
  unfold remSeats
  unfold totalAwarded at this ⊢
  omega

/-- **Fewer eligible parties than open seats.**  Outside the hypothesis of `lr_total` every eligible party takes
    exactly one remainder seat and the house stays short: the total is `awarded + #eligible`. -/
theorem lr_short (cfg : Cfg) (votes : Votes) (n : Nat) (prev maxS : IMap) (h : Plain cfg votes n prev maxS)
    (hshort : (lrRems (cfg.quota (sumVals votes) n) cfg.acceptEqual prev maxS votes).length ≤
      (remSeats (cfg.quota (sumVals votes) n) cfg.acceptEqual n prev maxS votes).toNat)
    (res : Sel) (hres : largestRemainder cfg votes n prev maxS = .ok res) :
    sumK res + sumI prev = totalAwarded (cfg.quota (sumVals votes) n) cfg.acceptEqual prev maxS votes +
        (lrRems (cfg.quota (sumVals votes) n) cfg.acceptEqual prev maxS votes).length ∧
      ∀ p ∈ votes, eligible (cfg.quota (sumVals votes) n) cfg.acceptEqual prev maxS p = true →
        Slot.cand p.1 ∈ lrBest (cfg.quota (sumVals votes) n) cfg.acceptEqual n prev maxS votes := by
  have hbest : lrBest (cfg.quota (sumVals votes) n) cfg.acceptEqual n prev maxS votes =
      (sortDesc (lrRems (cfg.quota (sumVals votes) n) cfg.acceptEqual prev maxS votes)).map
        (fun p => Slot.cand p.1) := getNBest_all _ _ hshort
  constructor
  · rw [lr_whole_then_remainders cfg votes n prev maxS h] at hres
    injection hres with hres
    subst hres
    rw [sumK_foldl_incK, hbest, List.length_map, sortDesc_length]
    unfold totalAwarded
    omega
  · intro p hp hel
    rw [hbest]
    exact List.mem_map.mpr ⟨_, mem_sortDesc.mpr (mem_lrRems_of hp hel), rfl⟩

/-- when the whole-quota stage already fills (or over-fills) the house, `LargestRemainder` adds nothing:
    it never asks `get_n_best` for a negative number of places (repair 6adacaa) -/
theorem lr_no_remainder_seats (cfg : Cfg) (votes : Votes) (n : Nat) (prev maxS : IMap) (r : Sel)
    (hq : cfg.quota (sumVals votes) n ≠ 0)
    (hqd : quotaDistribute cfg votes n prev maxS = .ok r) (hfull : (n : Int) ≤ sumK r + sumI prev) :
    largestRemainder cfg votes n prev maxS = .ok r := by
  unfold largestRemainder
  rw [hqd]
  simp only
  rw [if_neg (fun hh => hq hh.1), sumK_addDict, sumK_prevAsSel]
  have : ((n : Int) - (sumK r + sumI prev)).toNat = 0 := by omega
  rw [this, getNBest_zero]
  rfl

/-- **Over-award policies carry over to `LargestRemainder`**: `'error'` raises … -/
theorem lr_policy_error (cfg : Cfg) (votes : Votes) (n : Nat) (prev maxS : IMap) (hwf : WF votes prev)
    (hq : 0 < cfg.quota (sumVals votes) n)
    (hpol : cfg.onOver = .error)
    (hgt : (n : Int) < totalAwarded (cfg.quota (sumVals votes) n) cfg.acceptEqual prev maxS votes) :
    largestRemainder cfg votes n prev maxS = .error .votingSystemError := by
  unfold largestRemainder
  rw [qd_policy_error cfg votes n prev maxS hwf hq hpol hgt]

/-- … `'ignore'` keeps the surplus: exactly the whole quotas, and no remainder seat on top … -/
theorem lr_policy_ignore (cfg : Cfg) (votes : Votes) (n : Nat) (prev maxS : IMap) (hwf : WF votes prev)
    (hq : 0 < cfg.quota (sumVals votes) n)
    (hpol : cfg.onOver = .ignore)
    (hgt : (n : Int) < totalAwarded (cfg.quota (sumVals votes) n) cfg.acceptEqual prev maxS votes) :
    largestRemainder cfg votes n prev maxS =
      .ok (wholeSel (cfg.quota (sumVals votes) n) cfg.acceptEqual prev maxS votes) :=
  lr_no_remainder_seats cfg votes n prev maxS _ (ne_of_gt hq)
    (qd_policy_ignore cfg votes n prev maxS hwf hq hpol) (by unfold totalAwarded at hgt; omega)

/-- … and `'subtract'` returns what its `QuotaDistributor` returns, which totals `n`. -/
theorem lr_policy_subtract (cfg : Cfg) (votes : Votes) (n : Nat) (prev maxS : IMap) (hwf : WF votes prev)
    (hq : 0 < cfg.quota (sumVals votes) n)
    (hpol : cfg.onOver = .subtract)
    (hgt : (n : Int) < totalAwarded (cfg.quota (sumVals votes) n) cfg.acceptEqual prev maxS votes) :
    largestRemainder cfg votes n prev maxS = quotaDistribute cfg votes n prev maxS ∧
      ∀ res, largestRemainder cfg votes n prev maxS = .ok res → sumK res + sumI prev = n := by
  have key : largestRemainder cfg votes n prev maxS = quotaDistribute cfg votes n prev maxS := by
    cases hqd : quotaDistribute cfg votes n prev maxS with
    | error e => unfold largestRemainder; rw [hqd]
    | ok r =>
      have := qd_policy_subtract_total cfg votes n prev maxS hwf hq hpol hgt r hqd
      exact lr_no_remainder_seats cfg votes n prev maxS r (ne_of_gt hq) hqd (by omega)
  refine ⟨key, ?_⟩
  intro res hres
  rw [key] at hres
  exact qd_policy_subtract_total cfg votes n prev maxS hwf hq hpol hgt res hres

/-! ## 4. exact quotas fill the house; the Hare quota rule -/

/-- **Total for exact quotas, proved rather than assumed.**  For a quota of the form `V / (n + k)` there are
    never more remainder seats than parties, so a plain election (no previous gains, no caps) whose whole-quota
    stage is plain fills the house exactly. -/
theorem lr_total_exact (cfg : Cfg) (k : Nat) (hquota : ∀ V n, cfg.quota V n = V / ((n : Rat) + k))
    (votes : Votes) (n : Nat) (hwf : WF votes []) (hV : 0 < sumVals votes) (hn : 1 ≤ n)
    (hle : totalAwarded (cfg.quota (sumVals votes) n) cfg.acceptEqual [] [] votes ≤ n)
    (res : Sel) (hres : largestRemainder cfg votes n [] [] = .ok res) : sumK res = n := by
  obtain ⟨hq, _, _, _, hlen⟩ := exact_quota_facts (cfg.quota (sumVals votes) n) cfg.acceptEqual k votes n
    (hquota _ _) hwf.votes_nonneg hV hn
  have hplain : Plain cfg votes n [] [] := ⟨hwf, hq, hle⟩
  have := lr_total cfg votes n [] [] hplain (by
    rw [lrRems_plain hq _ _ hwf.votes_nonneg, List.length_map]
    unfold remSeats totalAwarded
    rw [totalAwarded_plain_aux hq _ _ hwf.votes_nonneg]
    have : sumI [] = 0 := rfl
    omega) res hres
  have h0 : sumI [] = 0 := rfl
  omega

/-- **Hare.**  With the Hare quota a plain election always succeeds and fills exactly `n` seats: no hypothesis on
    the whole quotas is needed (they never exceed the house, and never over-award). -/
theorem lr_total_hare (ae : Bool) (pol : OnOver) (votes : Votes) (n : Nat) (hwf : WF votes [])
    (hV : 0 < sumVals votes) (hn : 1 ≤ n) :
    ∃ res, largestRemainder ⟨Gen.Quota.hare, ae, pol⟩ votes n [] [] = .ok res ∧ sumK res = n := by
  have hquota : ∀ (V : Rat) (m : Nat), Gen.Quota.hare V m = V / ((m : Rat) + (0 : Nat)) := by
    intro V m; rw [quota_textbook_hare]; simp
  obtain ⟨hq, _, hsum, hmem, _⟩ := exact_quota_facts (Gen.Quota.hare (sumVals votes) n) ae 0 votes n
    (hquota _ _) hwf.votes_nonneg hV hn
  have hle : totalAwarded (Gen.Quota.hare (sumVals votes) n) ae [] [] votes ≤ n := by
    unfold totalAwarded
    rw [totalAwarded_plain_aux hq _ _ hwf.votes_nonneg]
    have : sumI [] = 0 := rfl
    simp only [Nat.cast_zero, add_zero] at hsum
    omega
  have hplain : Plain ⟨Gen.Quota.hare, ae, pol⟩ votes n [] [] := ⟨hwf, hq, hle⟩
  refine ⟨_, lr_whole_then_remainders _ votes n [] [] hplain, ?_⟩
  exact lr_total_exact ⟨Gen.Quota.hare, ae, pol⟩ 0 hquota votes n hwf hV hn hle _
    (lr_whole_then_remainders _ votes n [] [] hplain)

/-- **Hare quota rule.**  In a plain Hare election every party receives its exact share `v·n/V` rounded down or
    rounded up — also on the `accept_equal = False` edge, where a party exactly on the quota loses its whole
    quota but is then first in line for a remainder seat. -/
theorem hare_quota_rule (ae : Bool) (pol : OnOver) (votes : Votes) (n : Nat) (hwf : WF votes [])
    (hV : 0 < sumVals votes) (hn : 1 ≤ n)
    (res : Sel) (hres : largestRemainder ⟨Gen.Quota.hare, ae, pol⟩ votes n [] [] = .ok res)
    (p : Cand × Rat) (hp : p ∈ votes) :
    ⌊p.2 * n / sumVals votes⌋ ≤ getK res (.cand p.1) 0 ∧ getK res (.cand p.1) 0 ≤ ⌈p.2 * n / sumVals votes⌉ := by
  have hquota : ∀ (V : Rat) (m : Nat), Gen.Quota.hare V m = V / ((m : Rat) + (0 : Nat)) := by
    intro V m; rw [quota_textbook_hare]; simp
  obtain ⟨hq, hVq, hsum, hmem, _⟩ := exact_quota_facts (Gen.Quota.hare (sumVals votes) n) ae 0 votes n
    (hquota _ _) hwf.votes_nonneg hV hn
  simp only [Nat.cast_zero, add_zero] at hVq hsum hmem
  have h0 : sumI [] = 0 := rfl
  have hle : totalAwarded (Gen.Quota.hare (sumVals votes) n) ae [] [] votes ≤ n := by
    unfold totalAwarded
    rw [totalAwarded_plain_aux hq _ _ hwf.votes_nonneg]; omega
  have hplain : Plain ⟨Gen.Quota.hare, ae, pol⟩ votes n [] [] := ⟨hwf, hq, hle⟩
  have hseats := lr_floor_plus_01 _ votes n [] [] hplain res hres p hp
  simp only at hseats
  rw [wholeAward_nil hq ae p (hwf.votes_nonneg p hp)] at hseats
  have hshare : p.2 * n / sumVals votes = p.2 / Gen.Quota.hare (sumVals votes) n := by
    rw [quota_textbook_hare]
    have hn0 : (n : Rat) ≠ 0 := by positivity
    have hV0 : sumVals votes ≠ 0 := ne_of_gt hV
    field_simp
  rw [hshare]
  -- r = Σ remainders
  have hr0 : 0 ≤ remSeats (Gen.Quota.hare (sumVals votes) n) ae n [] [] votes := by
    unfold remSeats totalAwarded
    rw [totalAwarded_plain_aux hq _ _ hwf.votes_nonneg, h0]; omega
  have hrnat : (((remSeats (Gen.Quota.hare (sumVals votes) n) ae n [] [] votes).toNat : Nat) : Rat) =
      ((lrRems (Gen.Quota.hare (sumVals votes) n) ae [] [] votes).map (·.2)).sum := by
    have hremvals : (lrRems (Gen.Quota.hare (sumVals votes) n) ae [] [] votes).map (·.2) =
        votes.map (fun p => p.2 / Gen.Quota.hare (sumVals votes) n -
          (wholeQ (Gen.Quota.hare (sumVals votes) n) ae p.2 : Rat)) := by
      rw [lrRems_plain hq ae votes hwf.votes_nonneg, List.map_map]; rfl
    have hr : ((remSeats (Gen.Quota.hare (sumVals votes) n) ae n [] [] votes : Int) : Rat) =
        ((lrRems (Gen.Quota.hare (sumVals votes) n) ae [] [] votes).map (·.2)).sum := by
      rw [hremvals, sum_rems, hVq]
      unfold remSeats totalAwarded
      rw [totalAwarded_plain_aux hq _ _ hwf.votes_nonneg, h0]
      push_cast; ring
    rw [← hr]
    have : (((remSeats (Gen.Quota.hare (sumVals votes) n) ae n [] [] votes).toNat : Nat) : Int) =
        remSeats (Gen.Quota.hare (sumVals votes) n) ae n [] [] votes := Int.toNat_of_nonneg hr0
    exact_mod_cast congrArg (fun z : Int => (z : Rat)) this
  exact quota_rule_aux _ ae votes hwf.keys_nodup hwf.votes_nonneg hq _ hrnat p hp _ hseats

/-- **Droop never over-awards.**  With the Droop quota (or any quota `q > V/(n+1)`) the whole quotas of a plain
    election never exceed the house, so none of the over-award policies is ever consulted. -/
theorem lr_plain_of_quota_gt (cfg : Cfg) (votes : Votes) (n : Nat) (hwf : WF votes [])
    (hq : sumVals votes / ((n : Rat) + 1) < cfg.quota (sumVals votes) n) (hV : 0 ≤ sumVals votes) :
    Plain cfg votes n [] [] := by
  have hn1 : (0 : Rat) < (n : Rat) + 1 := by positivity
  have hq0 : 0 < cfg.quota (sumVals votes) n := lt_of_le_of_lt (div_nonneg hV (le_of_lt hn1)) hq
  generalize hqd : cfg.quota (sumVals votes) n = q at *
  have hVq : (votes.map (·.2)).sum / q < (n : Rat) + 1 := by
    rw [← sumVals_eq, div_lt_iff₀ hq0]
    rw [div_lt_iff₀ hn1] at hq
    linarith
  have hs := sum_rems q cfg.acceptEqual votes
  have hb := sum_unit_bounds (votes.map (fun p => p.2 / q - (wholeQ q cfg.acceptEqual p.2 : Rat)))
    (by
      intro x hx
      obtain ⟨p, _, rfl⟩ := List.mem_map.mp hx
      exact rem_bounds hq0 cfg.acceptEqual)
  rw [hs] at hb
  have hsum : (votes.map (fun p => wholeQ q cfg.acceptEqual p.2)).sum ≤ (n : Int) := by
    have : (((votes.map (fun p => wholeQ q cfg.acceptEqual p.2)).sum : Int) : Rat) < (((n : Int) + 1 : Int) : Rat) := by
      push_cast; linarith [hb.1]
    have : (votes.map (fun p => wholeQ q cfg.acceptEqual p.2)).sum < (n : Int) + 1 := by exact_mod_cast this
    omega
  have h0 : sumI [] = 0 := rfl
  have key : totalAwarded q cfg.acceptEqual [] [] votes ≤ n := by
    unfold totalAwarded
    rw [totalAwarded_plain_aux hq0 _ _ hwf.votes_nonneg, h0]
    omega
  subst hqd
  exact ⟨hwf, hq0, key⟩

theorem lr_plain_droop (ae : Bool) (pol : OnOver) (votes : Votes) (n : Nat) (hwf : WF votes [])
    (hV : 0 ≤ sumVals votes) : Plain ⟨Gen.Quota.droop, ae, pol⟩ votes n [] [] :=
  lr_plain_of_quota_gt _ votes n hwf (quota_droop_least (sumVals votes) n hV).1 hV

/-- **Hagenbach-Bischoff**: the total is `n` whenever the whole-quota stage is plain -/
theorem lr_total_hagenbach_bischoff (ae : Bool) (pol : OnOver) (votes : Votes) (n : Nat) (hwf : WF votes [])
    (hV : 0 < sumVals votes) (hn : 1 ≤ n)
    (hle : totalAwarded (Gen.Quota.hagenbach_bischoff (sumVals votes) n) ae [] [] votes ≤ n)
    (res : Sel) (hres : largestRemainder ⟨Gen.Quota.hagenbach_bischoff, ae, pol⟩ votes n [] [] = .ok res) :
    sumK res = n :=
  lr_total_exact ⟨Gen.Quota.hagenbach_bischoff, ae, pol⟩ 1
    (by intro V m; show Gen.Quota.hagenbach_bischoff V m = _; rw [quota_textbook_hagenbach_bischoff]; simp) votes n hwf hV hn hle res hres

/-- **Imperiali**: the total is `n` whenever the whole-quota stage is plain -/
theorem lr_total_imperiali (ae : Bool) (pol : OnOver) (votes : Votes) (n : Nat) (hwf : WF votes [])
    (hV : 0 < sumVals votes) (hn : 1 ≤ n)
    (hle : totalAwarded (Gen.Quota.imperiali (sumVals votes) n) ae [] [] votes ≤ n)
    (res : Sel) (hres : largestRemainder ⟨Gen.Quota.imperiali, ae, pol⟩ votes n [] [] = .ok res) :
    sumK res = n :=
  lr_total_exact ⟨Gen.Quota.imperiali, ae, pol⟩ 2
    (by intro V m; show Gen.Quota.imperiali V m = _; rw [quota_textbook_imperiali]; simp) votes n hwf hV hn hle res hres

/-! ## 5. caps (`max_seats`): full statements, no side condition -/

/-- the cap sentence of the property for one party (a party whose previous gains already exceed its cap is
    outside the statement): with a cap `m` — the total `seats + prev` never exceeds `m`, it is exactly `m` when the
    whole quotas reach the cap, and it is at least the whole quotas when they do not; without a cap — at least the
    whole quotas -/
def capOK (q : Rat) (ae : Bool) (prev maxS : IMap) (res : Sel) (p : Cand × Rat) : Prop :=
  match getCap maxS p.1 with
  | some m => getI prev p.1 0 ≤ m →
      getK res (.cand p.1) 0 + getI prev p.1 0 ≤ m ∧
      (m ≤ wholeQ q ae p.2 → getK res (.cand p.1) 0 + getI prev p.1 0 = m) ∧
      (wholeQ q ae p.2 ≤ m → wholeQ q ae p.2 ≤ getK res (.cand p.1) 0 + getI prev p.1 0)
  | none => wholeQ q ae p.2 ≤ getK res (.cand p.1) 0 + getI prev p.1 0

instance (q : Rat) (ae : Bool) (prev maxS : IMap) (res : Sel) (p : Cand × Rat) :
    Decidable (capOK q ae prev maxS res p) := by
  unfold capOK
  split <;> infer_instance

def CapsRespected (q : Rat) (ae : Bool) (prev maxS : IMap) (votes : Votes) (res : Sel) : Prop :=
  ∀ p ∈ votes, capOK q ae prev maxS res p

instance (q : Rat) (ae : Bool) (prev maxS : IMap) (votes : Votes) (res : Sel) :
    Decidable (CapsRespected q ae prev maxS votes res) := by
  unfold CapsRespected; infer_instance

private theorem capOK_of_award {q : Rat} {ae : Bool} {prev maxS : IMap} {res : Sel} {p : Cand × Rat}
    (extra : Int) (h0 : 0 ≤ extra) (h1 : extra ≤ 1)
    (hseats : getK res (.cand p.1) 0 = wholeAward q ae prev maxS p + extra)
    (hel : extra = 1 → eligible q ae prev maxS p = true) : capOK q ae prev maxS res p := by
  unfold capOK
  unfold eligible gainedQ at hel
  unfold wholeAward capQ at hseats hel
  cases hc : getCap maxS p.1 with
  | none =>
    rw [hc] at hseats
    simp only at hseats ⊢
    omega
  | some m =>
    rw [hc] at hseats hel
    simp only at hseats hel ⊢
    intro hpm
    by_cases he : extra = 1
    · have := hel he
      simp only [decide_eq_true_eq] at this
      refine ⟨by omega, fun _ => by omega, fun _ => by omega⟩
    · have : extra = 0 := by omega
      refine ⟨by omega, fun _ => by omega, fun _ => by omega⟩

/-- **Caps (QuotaDistributor).**  Whenever the whole quotas are returned (no over-award, or policy `'ignore'`),
    no party exceeds its cap, a party whose whole quotas reach its cap sits exactly on it, and every other party
    receives at least its whole quotas. -/
theorem qd_cap (cfg : Cfg) (votes : Votes) (n : Nat) (prev maxS : IMap) (hwf : WF votes prev)
    (hq : 0 < cfg.quota (sumVals votes) n)
    (hpol : totalAwarded (cfg.quota (sumVals votes) n) cfg.acceptEqual prev maxS votes ≤ n ∨ cfg.onOver = .ignore)
    (res : Sel) (hres : quotaDistribute cfg votes n prev maxS = .ok res) :
    CapsRespected (cfg.quota (sumVals votes) n) cfg.acceptEqual prev maxS votes res := by
  have hr : res = wholeSel (cfg.quota (sumVals votes) n) cfg.acceptEqual prev maxS votes := by
    rcases hpol with h | h
    · rw [qd_no_overaward cfg votes n prev maxS hwf hq h] at hres; injection hres with e; exact e.symm
    · rw [qd_policy_ignore cfg votes n prev maxS hwf hq h] at hres; injection hres with e; exact e.symm
  subst hr
  intro p hp
  exact capOK_of_award 0 (le_refl 0) (by omega)
    (by rw [getK_wholeSel _ _ _ _ _ hwf.keys_nodup p hp]; ring) (by intro h; omega)

/-- **Caps (LargestRemainder).**  The same for the final result: the whole-quota stage holds every party at its
    cap and a party on its cap takes no remainder seat. -/
theorem lr_cap (cfg : Cfg) (votes : Votes) (n : Nat) (prev maxS : IMap) (h : Plain cfg votes n prev maxS)
    (res : Sel) (hres : largestRemainder cfg votes n prev maxS = .ok res) :
    CapsRespected (cfg.quota (sumVals votes) n) cfg.acceptEqual prev maxS votes res := by
  intro p hp
  have hseats := lr_floor_plus_01 cfg votes n prev maxS h res hres p hp
  by_cases hel : Slot.cand p.1 ∈ lrBest (cfg.quota (sumVals votes) n) cfg.acceptEqual n prev maxS votes
  · rw [if_pos hel] at hseats
    obtain ⟨p', hp', he, helig⟩ := lr_extra_only_eligible cfg votes n prev maxS p.1 hel
    have hpp : p' = p := List.inj_on_of_nodup_map h.wf.keys_nodup hp' hp he
    subst hpp
    exact capOK_of_award 1 (by omega) (le_refl 1) hseats (fun _ => helig)
  · rw [if_neg hel] at hseats
    exact capOK_of_award 0 (le_refl 0) (by omega) hseats (by intro h; omega)

/-- **Caps leave the total unchanged.**  With caps in force the result still fills the house exactly, provided the
    open seats do not outnumber the parties below their cap (outside that hypothesis "at most one further seat"
    and "total = n" are jointly unsatisfiable; `lr_short` gives the total there). -/
theorem lr_cap_total (cfg : Cfg) (votes : Votes) (n : Nat) (prev maxS : IMap) (h : Plain cfg votes n prev maxS)
    (hrem : (remSeats (cfg.quota (sumVals votes) n) cfg.acceptEqual n prev maxS votes).toNat ≤
      ((votes.filter (fun p => eligible (cfg.quota (sumVals votes) n) cfg.acceptEqual prev maxS p)).length))
    (res : Sel) (hres : largestRemainder cfg votes n prev maxS = .ok res) :
    sumK res + sumI prev = n := by
  refine lr_total cfg votes n prev maxS h ?_ res hres
  rw [length_lrRems]; exact hrem

/-- under policy `'subtract'` seats are only withdrawn from parties, so the caps stay respected as upper bounds -/
theorem qd_cap_subtract (cfg : Cfg) (votes : Votes) (n : Nat) (prev maxS : IMap) (hwf : WF votes prev)
    (hq : 0 < cfg.quota (sumVals votes) n) (res : Sel)
    (hres : quotaDistribute cfg votes n prev maxS = .ok res) (p : Cand × Rat) (hp : p ∈ votes) :
    getK res (.cand p.1) 0 ≤ wholeAward (cfg.quota (sumVals votes) n) cfg.acceptEqual prev maxS p := by
  rw [qd_whole_quotas cfg votes n prev maxS hwf hq] at hres
  rw [← getK_wholeSel _ _ _ _ _ hwf.keys_nodup p hp]
  unfold applyPolicy at hres
  simp only at hres
  split at hres
  · cases hpol : cfg.onOver with
    | ignore => rw [hpol] at hres; injection hres with e; rw [← e]
    | error => rw [hpol] at hres; cases hres
    | subtract =>
      rw [hpol] at hres
      simp only [subtractOveraward] at hres
      exact subtractLoop_cand_le _ _ _ _ _ _ _ hres
  · injection hres with e; rw [← e]

/-! ### the defects the repairs removed, as theorems about the pre-repair model `VL.QDPre` -/

/-- **9571110^, finding C02-a.**  `QuotaDistributor('hare').evaluate({A:60,B:30,C:10}, 10, max_seats={A:4})`
    returned `A:0` (the capped party lost its whole entitlement); the repaired model returns `A:4`. -/
theorem prefix_qd_cap_witness :
    (∃ res, QDPre.quotaDistribute ⟨Gen.Quota.hare, true, .error, true⟩ [(0, 60), (1, 30), (2, 10)] 10 [] [(0, 4)]
        = .ok res ∧ res = [(.cand 0, 0), (.cand 1, 4), (.cand 2, 1)] ∧
      ¬ CapsRespected (Gen.Quota.hare 100 10) true [] [(0, 4)] [(0, 60), (1, 30), (2, 10)] res) ∧
    quotaDistribute ⟨Gen.Quota.hare, true, .error⟩ [(0, 60), (1, 30), (2, 10)] 10 [] [(0, 4)]
      = .ok [(.cand 0, 4), (.cand 1, 3), (.cand 2, 1)] :=
  ⟨⟨_, by decide +kernel, rfl, by decide +kernel⟩, by decide +kernel⟩

/-- … with `prev_gains={A:1}` the award was negative. -/
theorem prefix_qd_cap_negative_witness :
    QDPre.quotaDistribute ⟨Gen.Quota.hare, true, .error, true⟩ [(0, 60), (1, 30), (2, 10)] 10 [(0, 1)] [(0, 4)] =
      .ok [(.cand 0, -1), (.cand 1, 4), (.cand 2, 1)] ∧
    quotaDistribute ⟨Gen.Quota.hare, true, .error⟩ [(0, 60), (1, 30), (2, 10)] 10 [(0, 1)] [(0, 4)] =
      .ok [(.cand 0, 3), (.cand 1, 3), (.cand 2, 1)] := by
  constructor <;> decide +kernel

/-- **9571110^, finding C02-b.**  `LargestRemainder('hare').evaluate({A:60,B:30,C:10}, 10, max_seats={A:4})`
    returned `A:6`; now `{A:4,B:4,C:2}`. -/
theorem prefix_lr_cap_witness :
    (∃ res, QDPre.largestRemainder ⟨Gen.Quota.hare, true, .error, true⟩ [(0, 60), (1, 30), (2, 10)] 10 [] [(0, 4)]
        = .ok res ∧ res = [(.cand 0, 6), (.cand 1, 3), (.cand 2, 1)] ∧
      ¬ CapsRespected (Gen.Quota.hare 100 10) true [] [(0, 4)] [(0, 60), (1, 30), (2, 10)] res) ∧
    largestRemainder ⟨Gen.Quota.hare, true, .error⟩ [(0, 60), (1, 30), (2, 10)] 10 [] [(0, 4)]
      = .ok [(.cand 0, 4), (.cand 1, 4), (.cand 2, 2)] :=
  ⟨⟨_, by decide +kernel, rfl, by decide +kernel⟩, by decide +kernel⟩

/-- **9571110^, finding C02-d.**  Without any `max_seats`, a party whose whole quotas exceed the house entered the
    overshoot branch through the default cap `n_seats`: `'ignore'` returned `{A:0,B:3,C:3}` instead of keeping the
    surplus `{A:4}` (`{A:90,B:10,C:10}`, 3 seats, Imperiali), and `'subtract'` died with `ZeroDivisionError`
    (`{a:5,b:0}`, 2 seats). -/
theorem prefix_qd_house_witness :
    QDPre.quotaDistribute ⟨Gen.Quota.imperiali, true, .ignore, true⟩ [(0, 90), (1, 10), (2, 10)] 3 [] [] =
        .ok [(.cand 0, 0), (.cand 1, 3), (.cand 2, 3)] ∧
    quotaDistribute ⟨Gen.Quota.imperiali, true, .ignore⟩ [(0, 90), (1, 10), (2, 10)] 3 [] [] = .ok [(.cand 0, 4)] ∧
    QDPre.quotaDistribute ⟨Gen.Quota.imperiali, true, .subtract, true⟩ [(0, 5), (1, 0)] 2 [] [] =
        .error QDPre.zeroDiv ∧
    QDPre.largestRemainder ⟨Gen.Quota.imperiali, true, .subtract, true⟩ [(0, 5), (1, 0)] 2 [] [] =
        .error QDPre.zeroDiv ∧
    quotaDistribute ⟨Gen.Quota.imperiali, true, .subtract⟩ [(0, 5), (1, 0)] 2 [] [] = .ok [(.cand 0, 2)] := by
  refine ⟨?_, ?_, ?_, ?_, ?_⟩ <;> decide +kernel

/-- **24bad1e^, finding C02-e.**  Policy `'error'` with a `quota.constant` instance (no `__name__`) raised
    `AttributeError`, not `VotingSystemError`. -/
theorem prefix_qd_policy_error_unnamed_witness :
    QDPre.quotaDistribute ⟨fun _ _ => 30, true, .error, false⟩ [(0, 60), (1, 40)] 2 [] [] = .error QDPre.attrErr ∧
    quotaDistribute ⟨fun _ _ => 30, true, .error⟩ [(0, 60), (1, 40)] 2 [] [] = .error .votingSystemError := by
  constructor <;> decide +kernel

/-! ## non-vacuity: concrete inputs meeting the hypotheses -/

-- Droop, {A:47, B:16, C:37}, 10 seats: whole quotas 4,1,3 (q = 10)
example : Plain ⟨Gen.Quota.droop, true, .error⟩ [(0, 47), (1, 16), (2, 37)] 10 [] [] :=
  ⟨by decide +kernel, by decide +kernel, by decide +kernel⟩
-- Hare with previous gains and a cap that BINDS on the whole quotas (A: 6 quotas, cap 4)
example : Plain ⟨Gen.Quota.hare, true, .error⟩ [(0, 60), (1, 30), (2, 10)] 10 [(1, 1)] [(0, 4)] :=
  ⟨by decide +kernel, by decide +kernel, by decide +kernel⟩
example : largestRemainder ⟨Gen.Quota.hare, true, .error⟩ [(0, 60), (1, 30), (2, 10)] 10 [(1, 1)] [(0, 4)] =
    .ok [(.cand 0, 4), (.cand 1, 3), (.cand 2, 2)] := by decide +kernel
-- a cap that matters only for the remainder seat
example : largestRemainder ⟨Gen.Quota.hare, true, .error⟩ [(0, 55), (1, 35), (2, 10)] 10 [(1, 1)] [(0, 5)] =
    .ok [(.cand 0, 5), (.cand 1, 3), (.cand 2, 1)] := by decide +kernel
-- fewer eligible parties than open seats (lr_short): cap A:1 frees five seats, two parties can take one each
example : largestRemainder ⟨Gen.Quota.hare, true, .error⟩ [(0, 60), (1, 30), (2, 10)] 10 [] [(0, 1)] =
    .ok [(.cand 0, 1), (.cand 1, 4), (.cand 2, 2)] := by decide +kernel
-- a tie at the cut: three equal parties, four seats
example : largestRemainder ⟨Gen.Quota.hare, true, .error⟩ [(0, 10), (1, 10), (2, 10)] 4 [] [] =
    .ok [(.cand 0, 1), (.cand 1, 1), (.cand 2, 1), (.tie [0, 1, 2], 1)] := by decide +kernel
-- over-award (Imperiali, {A:50,B:30,C:20}, q = 100/6): total 5 > 4
example : (4 : Int) < totalAwarded (Gen.Quota.imperiali 100 4) true [] [] [(0, 50), (1, 30), (2, 20)] := by
  decide +kernel
example : quotaDistribute ⟨Gen.Quota.imperiali, true, .subtract⟩ [(0, 50), (1, 30), (2, 20)] 4 [] [] =
    .ok [(.cand 0, 2), (.cand 1, 1), (.cand 2, 1)] := by decide +kernel
-- over-award by a single party beyond the house: the policy applies (finding d, repaired)
example : quotaDistribute ⟨Gen.Quota.imperiali, true, .subtract⟩ [(0, 90), (1, 10), (2, 10)] 3 [] [] =
    .ok [(.cand 0, 3)] := by decide +kernel
-- a quota that rounds to zero (2 votes, 9 seats, hare_rounded): refused, not divided by
example : Gen.Quota.hare_rounded 2 9 = 0 := by decide +kernel
example : largestRemainder ⟨Gen.Quota.hare_rounded, true, .error⟩ [(0, 2)] 9 [] [] = .error .votingSystemError := by
  decide +kernel
-- subtract with a tie for the smallest margin
example : quotaDistribute ⟨Gen.Quota.imperiali, true, .subtract⟩ [(0, 50), (1, 50), (2, 50)] 4 [] [] =
    .ok [(.cand 0, 1), (.cand 1, 1), (.cand 2, 1), (.tie [0, 1, 2], 1)] := by decide +kernel
-- the accept_equal edge: a party exactly on the Hare quota
example : wholeQ (Gen.Quota.hare 60 6) false 10 = 0 ∧ wholeQ (Gen.Quota.hare 60 6) true 10 = 1 := by
  constructor <;> decide +kernel
example : largestRemainder ⟨Gen.Quota.hare, false, .error⟩ [(0, 10), (1, 20), (2, 30)] 6 [] [] =
    .ok [(.cand 1, 2), (.cand 2, 3), (.cand 0, 1)] := by decide +kernel

end VL.C02
