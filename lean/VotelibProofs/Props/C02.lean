/-
  C02 — largest remainder and quota distribution (stub; theorems follow)
-/
import VotelibModel.QuotaDist
import VotelibModel.Gen.Quota
namespace VL.C02
end VL.C02
