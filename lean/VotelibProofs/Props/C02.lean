/-
  C02 — largest remainder: whole quotas first, then the largest exact remainders; over-award policies;
  textbook quota values.  Property theorems only (helper lemmas: VotelibProofs/Lemmas/QuotaDist.lean).

  Reading (DESIGN "### C02").  `q = quota(V, n) > 0`; `wholeQ q ae v = ⌊v / q⌋`, except `0` for a party exactly on
  the quota when `accept_equal` is off; `wholeAward = max (wholeQ − prev) 0`.  The model is
  `VL.QD.quotaDistribute` / `VL.QD.largestRemainder` (VotelibModel/QuotaDist.lean), which is what the driver runs.

  The cap / overshoot branch of the code (proportional.py L236-257) is defective on the current tree (known
  findings C02-a, C02-b, C02-d); the theorems about whole quotas, policies and remainders therefore carry the
  decidable hypothesis `NoCapBinds` (no explicit cap and not the default cap `n_seats` binds on any party's whole
  quotas), the cap theorems are `_partial`, and the failing shapes are proved as `_witness` theorems.
-/
import VotelibProofs.Lemmas.QuotaDist
namespace VL.C02
open VL VL.QD

/-! ## 1. the named quota functions return their textbook values -/

theorem quota_textbook_hare (V : Rat) (n : Nat) : Gen.Quota.hare V n = V / n := rfl

theorem quota_textbook_hagenbach_bischoff (V : Rat) (n : Nat) :
    Gen.Quota.hagenbach_bischoff V n = V / (n + 1) := by
  unfold Gen.Quota.hagenbach_bischoff; push_cast; rfl

theorem quota_textbook_imperiali (V : Rat) (n : Nat) : Gen.Quota.imperiali V n = V / (n + 2) := by
  unfold Gen.Quota.imperiali; push_cast; rfl

/-- Droop: `⌊V / (n+1)⌋ + 1` (Python's `int()` truncates toward zero, which is the floor for `V ≥ 0`) -/
theorem quota_textbook_droop (V : Rat) (n : Nat) (hV : 0 ≤ V) :
    Gen.Quota.droop V n = ((⌊V / (n + 1)⌋ + 1 : Int) : Rat) := by
  unfold Gen.Quota.droop
  have h : (0 : Rat) ≤ V / (((n + 1 : Nat)) : Rat) := div_nonneg hV (by positivity)
  rw [pyInt_nonneg h]
  push_cast; rfl

theorem quota_textbook_hagenbach_bischoff_ceil (V : Rat) (n : Nat) :
    Gen.Quota.hagenbach_bischoff_ceil V n = ((⌈V / (n + 1)⌉ : Int) : Rat) := by
  unfold Gen.Quota.hagenbach_bischoff_ceil
  rw [pyCeil_eq]; push_cast; rfl

/-- `_round_half_up` is rounding to the nearest integer with halves up: `⌊x + 1/2⌋` -/
theorem quota_round_half_up (x : Rat) : Gen.Quota.round_half_up x = ⌊x + 1 / 2⌋ := round_half_up_eq x

theorem quota_textbook_hare_rounded (V : Rat) (n : Nat) :
    Gen.Quota.hare_rounded V n = ((⌊V / n + 1 / 2⌋ : Int) : Rat) := by
  unfold Gen.Quota.hare_rounded
  rw [round_half_up_eq]

theorem quota_textbook_hagenbach_bischoff_rounded (V : Rat) (n : Nat) :
    Gen.Quota.hagenbach_bischoff_rounded V n = ((⌊V / (n + 1) + 1 / 2⌋ : Int) : Rat) := by
  unfold Gen.Quota.hagenbach_bischoff_rounded
  rw [round_half_up_eq]; push_cast; rfl

/-- the Droop quota is positive for every non-negative total: it can never divide by zero -/
theorem quota_droop_pos (V : Rat) (n : Nat) (hV : 0 ≤ V) : 0 < Gen.Quota.droop V n := by
  rw [quota_textbook_droop V n hV]
  have : 0 ≤ ⌊V / ((n : Rat) + 1)⌋ := Int.floor_nonneg.mpr (div_nonneg hV (by positivity))
  exact_mod_cast (by omega : 0 < ⌊V / ((n : Rat) + 1)⌋ + 1)

/-- Droop is the smallest integer strictly above `V / (n+1)` -/
theorem quota_droop_least (V : Rat) (n : Nat) (hV : 0 ≤ V) :
    V / (n + 1) < Gen.Quota.droop V n ∧ Gen.Quota.droop V n - 1 ≤ V / (n + 1) := by
  rw [quota_textbook_droop V n hV]
  push_cast
  exact ⟨Int.lt_floor_add_one _, by linarith [Int.floor_le (V / ((n : Rat) + 1))]⟩

example : Gen.Quota.droop 100 3 = 26 := by decide +kernel
example : Gen.Quota.hare_rounded 7 2 = 4 := by decide +kernel          -- 3.5 rounds up
example : Gen.Quota.hagenbach_bischoff_rounded 5 1 = 3 := by decide +kernel   -- 2.5 rounds up (not to even)
example : Gen.Quota.hagenbach_bischoff_ceil 100 2 = 34 := by decide +kernel

/-! ## 2. QuotaDistributor: whole quotas and the over-award policies -/

/-- well-formed request: Python dicts have distinct keys; vote counts and previous gains are non-negative -/
def WF (votes : Votes) (prev : IMap) : Prop :=
  (votes.map (·.1)).Nodup ∧ (∀ p ∈ votes, 0 ≤ p.2) ∧ (prev.map (·.1)).Nodup ∧ (∀ x ∈ prev, 0 ≤ x.2)

instance (votes : Votes) (prev : IMap) : Decidable (WF votes prev) := by unfold WF; infer_instance

theorem WF.keys_nodup {votes : Votes} {prev : IMap} (h : WF votes prev) : (votes.map (·.1)).Nodup := h.1
theorem WF.votes_nonneg {votes : Votes} {prev : IMap} (h : WF votes prev) : ∀ p ∈ votes, 0 ≤ p.2 := h.2.1
theorem WF.prev_nodup {votes : Votes} {prev : IMap} (h : WF votes prev) : (prev.map (·.1)).Nodup := h.2.2.1
theorem WF.prev_nonneg {votes : Votes} {prev : IMap} (h : WF votes prev) : ∀ c, 0 ≤ getI prev c 0 := by
  intro c
  unfold getI
  cases hf : prev.find? (fun p => p.1 = c) with
  | none => exact le_refl _
  | some x => exact h.2.2.2 x (List.mem_of_find?_eq_some hf)

/-- no cap binds on the whole quotas: every party's whole quotas are within its cap (`max_seats`, by default
    the house size `n`, as the code has it at L236) or already covered by previous gains -/
def NoCapBinds (q : Rat) (ae : Bool) (n : Nat) (prev maxS : IMap) (votes : Votes) : Prop :=
  ∀ p ∈ votes, wholeQ q ae p.2 ≤ getI maxS p.1 n ∨ wholeQ q ae p.2 ≤ getI prev p.1 0

instance (q : Rat) (ae : Bool) (n : Nat) (prev maxS : IMap) (votes : Votes) :
    Decidable (NoCapBinds q ae n prev maxS votes) := by unfold NoCapBinds; infer_instance

/-- seats handed out so far, previous gains of all parties included (the code's `total_awarded`, L258) -/
def totalAwarded (q : Rat) (ae : Bool) (prev : IMap) (votes : Votes) : Int :=
  sumK (wholeSel q ae prev votes) + sumI prev

private theorem noBindCode_of {q : Rat} (hq : 0 < q) {ae : Bool} {n : Nat} {prev maxS : IMap} {votes : Votes}
    (hv : ∀ p ∈ votes, 0 ≤ p.2) (h : NoCapBinds q ae n prev maxS votes) :
    ∀ p ∈ votes, NoBindCode q ae (n : Int) prev maxS p := by
  intro p hp hf hpos
  rw [pyInt_eq_wholeQ hq (hv p hp) hf] at hpos ⊢
  rcases h p hp with h1 | h2
  · exact h1
  · omega

/-- **Whole quotas.**  When no cap binds, `QuotaDistributor.evaluate` is the over-award policy applied to
    the dict of whole-quota awards `max (⌊v/q⌋ − prev) 0` (with the `accept_equal` edge), positive entries only,
    in the order of `votes`. -/
theorem qd_whole_quotas (cfg : Cfg) (votes : Votes) (n : Nat) (prev maxS : IMap) (hwf : WF votes prev)
    (hq : 0 < cfg.quota (sumVals votes) n)
    (hnb : NoCapBinds (cfg.quota (sumVals votes) n) cfg.acceptEqual n prev maxS votes) :
    quotaDistribute cfg votes n prev maxS =
      applyPolicy cfg votes n prev (wholeSel (cfg.quota (sumVals votes) n) cfg.acceptEqual prev votes) := by
  rw [quotaDistribute_noBind cfg votes n prev maxS (ne_of_gt hq)
    (noBindCode_of hq hwf.votes_nonneg hnb) hwf.keys_nodup,
    filterMap_awardOf_eq hq cfg.acceptEqual prev votes hwf.votes_nonneg hwf.prev_nonneg]

/-- the value of the whole-quota dict at a party: `max (wholeQ − prev) 0` -/
theorem wholeSel_get (q : Rat) (ae : Bool) (prev : IMap) (votes : Votes) (hnd : (votes.map (·.1)).Nodup)
    (p : Cand × Rat) (hp : p ∈ votes) :
    getK (wholeSel q ae prev votes) (.cand p.1) 0 = max (wholeQ q ae p.2 - getI prev p.1 0) 0 :=
  getK_wholeSel q ae prev votes hnd p hp

/-- no over-award: the whole quotas are returned as they are -/
theorem qd_no_overaward (cfg : Cfg) (votes : Votes) (n : Nat) (prev maxS : IMap) (hwf : WF votes prev)
    (hq : 0 < cfg.quota (sumVals votes) n)
    (hnb : NoCapBinds (cfg.quota (sumVals votes) n) cfg.acceptEqual n prev maxS votes)
    (hle : totalAwarded (cfg.quota (sumVals votes) n) cfg.acceptEqual prev votes ≤ n) :
    quotaDistribute cfg votes n prev maxS =
      .ok (wholeSel (cfg.quota (sumVals votes) n) cfg.acceptEqual prev votes) := by
  rw [qd_whole_quotas cfg votes n prev maxS hwf hq hnb]
  unfold applyPolicy
  simp only
  rw [if_neg (by unfold totalAwarded at hle; omega)]

/-- policy `'error'`: `VotingSystemError` exactly when the whole quotas (with previous gains) exceed the house -/
theorem qd_policy_error (cfg : Cfg) (votes : Votes) (n : Nat) (prev maxS : IMap) (hwf : WF votes prev)
    (hq : 0 < cfg.quota (sumVals votes) n)
    (hnb : NoCapBinds (cfg.quota (sumVals votes) n) cfg.acceptEqual n prev maxS votes)
    (hpol : cfg.onOver = .error) (hname : cfg.named = true)
    (hgt : (n : Int) < totalAwarded (cfg.quota (sumVals votes) n) cfg.acceptEqual prev votes) :
    quotaDistribute cfg votes n prev maxS = .error .votingSystemError := by
  rw [qd_whole_quotas cfg votes n prev maxS hwf hq hnb]
  unfold applyPolicy
  simp only
  rw [if_pos (by unfold totalAwarded at hgt; omega), hpol]
  simp [hname]

/-- policy `'ignore'`: the surplus is kept, the whole quotas are returned unchanged -/
theorem qd_policy_ignore (cfg : Cfg) (votes : Votes) (n : Nat) (prev maxS : IMap) (hwf : WF votes prev)
    (hq : 0 < cfg.quota (sumVals votes) n)
    (hnb : NoCapBinds (cfg.quota (sumVals votes) n) cfg.acceptEqual n prev maxS votes)
    (hpol : cfg.onOver = .ignore) :
    quotaDistribute cfg votes n prev maxS =
      .ok (wholeSel (cfg.quota (sumVals votes) n) cfg.acceptEqual prev votes) := by
  rw [qd_whole_quotas cfg votes n prev maxS hwf hq hnb]
  unfold applyPolicy
  simp only
  split
  · rw [hpol]
  · rfl

/-- policy `'subtract'`: whenever it returns, exactly the surplus has been withdrawn — the total with previous
    gains is the house size -/
theorem qd_policy_subtract_total (cfg : Cfg) (votes : Votes) (n : Nat) (prev maxS : IMap) (hwf : WF votes prev)
    (hq : 0 < cfg.quota (sumVals votes) n)
    (hnb : NoCapBinds (cfg.quota (sumVals votes) n) cfg.acceptEqual n prev maxS votes)
    (hpol : cfg.onOver = .subtract)
    (hgt : (n : Int) < totalAwarded (cfg.quota (sumVals votes) n) cfg.acceptEqual prev votes)
    (r : Sel) (hr : quotaDistribute cfg votes n prev maxS = .ok r) :
    sumK r + sumI prev = n := by
  rw [qd_whole_quotas cfg votes n prev maxS hwf hq hnb] at hr
  unfold applyPolicy at hr
  simp only at hr
  rw [if_pos (by unfold totalAwarded at hgt; omega), hpol] at hr
  simp only [subtractOveraward] at hr
  obtain ⟨h1, _⟩ := subtractLoop_sum votes _ prev _ _ r (KNodup_wholeSel _ _ _ _ hwf.keys_nodup) hr
  unfold totalAwarded at hgt
  rw [h1]
  omega

/-- **Policy `'subtract'`, one withdrawal.**  Every successful pass of the withdrawal loop looks at the margins
    `v − q·(seats + prev)` of the current holders, finds the smallest margin `m`, and
    * if exactly one holder has it, takes one seat from that holder (its entry disappears when it drops to 0);
    * if several holders share it, takes one seat from each of them and hands `k − 1` seats to a `Tie` object
      naming them — or, if that `Tie` already holds seats, takes one seat from the `Tie`.
    `L` is the list of positions in `selected` of the entries with the smallest margin (`qd_subtract_level`). -/
theorem qd_subtract_step (votes : Votes) (q : Rat) (prev : IMap) (sel sel' : Sel)
    (h : subtractStep votes q prev sel = .ok sel') :
    ∃ m, (∃ e ∈ sel, margin votes q prev e = m) ∧ (∀ e ∈ sel, m ≤ margin votes q prev e) ∧
      (∀ i, i ∈ level (subRemainders votes q prev sel) (-m) ↔
          ∃ e, sel[i]? = some e ∧ margin votes q prev e = m) ∧
      ((level (subRemainders votes q prev sel) (-m)).length = 1 →
          ∃ i, level (subRemainders votes q prev sel) (-m) = [i] ∧ sel' = decK sel (keyAt sel i)) ∧
      ((level (subRemainders votes q prev sel) (-m)).length ≠ 1 →
          ∃ cs, (level (subRemainders votes q prev sel) (-m)).map (keyAt sel) = cs.map Key.cand ∧
            sel' = if hasK sel (mkTie cs) then decK sel (mkTie cs)
              else setK (cs.foldl (fun acc c => decK acc (.cand c)) sel) (mkTie cs)
                (getK (cs.foldl (fun acc c => decK acc (.cand c)) sel) (mkTie cs) 0 + (cs.length : Int) - 1)) := by
  have hne : sel ≠ [] := by
    intro he; subst he
    have : subtractStep votes q prev [] = .error indexErr := rfl
    rw [this] at h; cases h
  obtain ⟨t, ⟨x, hx, hxt⟩, hall, hbest⟩ := getNBest_one (subRemainders votes q prev sel) (subRemainders_ne_nil hne)
  refine ⟨-t, ?_, ?_, ?_, ?_, ?_⟩
  · obtain ⟨e, he, hxe⟩ := mem_subRemainders.mp hx
    refine ⟨e, List.mem_of_getElem? he, ?_⟩
    rw [← hxt, hxe]; ring
  · intro e he
    obtain ⟨i, hi, hie⟩ := List.mem_iff_getElem.mp he
    have hm : (i, - margin votes q prev e) ∈ subRemainders votes q prev sel :=
      mem_subRemainders.mpr ⟨e, by rw [← hie]; exact List.getElem?_eq_getElem hi, rfl⟩
    have := hall _ hm
    simp only at this
    linarith
  · intro i
    rw [neg_neg]
    unfold level
    simp only [List.mem_map, List.mem_filter, decide_eq_true_eq]
    constructor
    · rintro ⟨y, ⟨hy, hyt⟩, rfl⟩
      obtain ⟨e, he, hye⟩ := mem_subRemainders.mp hy
      exact ⟨e, he, by rw [← hyt, hye]; ring⟩
    · rintro ⟨e, he, hme⟩
      refine ⟨(i, - margin votes q prev e), ⟨mem_subRemainders.mpr ⟨e, he, rfl⟩, ?_⟩, rfl⟩
      simp only; rw [hme]; ring
  · rw [neg_neg]
    intro hl
    unfold subtractStep at h
    rw [hbest, if_pos hl] at h
    obtain ⟨i, hi⟩ := List.length_eq_one_iff.mp hl
    rw [hi] at h
    simp only [List.map_cons, List.map_nil] at h
    injection h with h
    exact ⟨i, hi, h.symm⟩
  · rw [neg_neg]
    intro hl
    unfold subtractStep at h
    rw [hbest, if_neg hl] at h
    simp only at h
    split at h
    · cases h
    · rename_i cs hcs
      refine ⟨cs, mapM_candOfKey_some _ _ hcs, ?_⟩
      split at h
      · rename_i hk; injection h with h; rw [if_pos hk]; exact h.symm
      · rename_i hk; injection h with h; rw [if_neg hk]; exact h.symm

/-- the withdrawal loop stops with `IndexError` exactly when nobody holds a seat any more
    (`get_n_best({}, 1)[0]`; only reachable when the previous gains alone exceed the house) -/
theorem qd_subtract_empty (votes : Votes) (q : Rat) (prev : IMap) :
    subtractStep votes q prev [] = .error indexErr := rfl

/-! ## 3. LargestRemainder: whole quotas, then the largest exact remainders -/

/-- the hypotheses under which the whole-quota stage of `LargestRemainder` is plain: a positive quota, no party's
    whole quotas beyond the house (the default cap of its `QuotaDistributor`; `max_seats` is not passed on) and
    no over-award -/
structure Plain (cfg : Cfg) (votes : Votes) (n : Nat) (prev : IMap) : Prop where
  wf : WF votes prev
  quota_pos : 0 < cfg.quota (sumVals votes) n
  no_bind : NoCapBinds (cfg.quota (sumVals votes) n) cfg.acceptEqual n prev [] votes
  no_over : totalAwarded (cfg.quota (sumVals votes) n) cfg.acceptEqual prev votes ≤ n

/-- seats left for the remainder stage -/
def remSeats (q : Rat) (ae : Bool) (n : Nat) (prev : IMap) (votes : Votes) : Int :=
  (n : Int) - totalAwarded q ae prev votes

/-- the winners of the remainder stage: `get_n_best` over the exact remainders `v/q − gained` of the parties
    still below their cap -/
def lrBest (q : Rat) (ae : Bool) (n : Nat) (prev maxS : IMap) (votes : Votes) : List Slot :=
  getNBest (lrRems q ae prev maxS votes) (remSeats q ae n prev votes).toNat

/-- **Structure of the result.**  `LargestRemainder.evaluate` = the whole-quota dict, plus one seat for every
    place of `get_n_best(remainders, n − awarded)`. -/
theorem lr_whole_then_remainders (cfg : Cfg) (votes : Votes) (n : Nat) (prev maxS : IMap)
    (h : Plain cfg votes n prev) :
    largestRemainder cfg votes n prev maxS =
      .ok ((lrBest (cfg.quota (sumVals votes) n) cfg.acceptEqual n prev maxS votes).foldl
            (fun acc s => incK acc (slotKey s))
            (wholeSel (cfg.quota (sumVals votes) n) cfg.acceptEqual prev votes)) := by
  unfold largestRemainder
  rw [qd_no_overaward cfg votes n prev [] h.wf h.quota_pos h.no_bind h.no_over]
  simp only
  rw [lrRemainders_eq _ _ _ _ _ h.wf.keys_nodup h.wf.prev_nodup, sumK_addDict, sumK_prevAsSel]
  rw [if_neg (fun hh => (ne_of_gt h.quota_pos) hh.1)]
  rfl

/-- **Whole quotas plus at most one.**  Every party ends with its whole-quota award, plus exactly one seat if
    it is an individual winner of the remainder stage, and nothing else. -/
theorem lr_floor_plus_01 (cfg : Cfg) (votes : Votes) (n : Nat) (prev maxS : IMap) (h : Plain cfg votes n prev)
    (res : Sel) (hres : largestRemainder cfg votes n prev maxS = .ok res) (p : Cand × Rat) (hp : p ∈ votes) :
    getK res (.cand p.1) 0 = wholeAward (cfg.quota (sumVals votes) n) cfg.acceptEqual prev p +
      (if Slot.cand p.1 ∈ lrBest (cfg.quota (sumVals votes) n) cfg.acceptEqual n prev maxS votes then 1 else 0) := by
  rw [lr_whole_then_remainders cfg votes n prev maxS h] at hres
  injection hres with hres
  subst hres
  rw [getK_foldl_incK, getK_wholeSel _ _ _ _ h.wf.keys_nodup p hp, count_slotKey_cand]
  have hle := count_cand_getNBest_le_one (lrRems (cfg.quota (sumVals votes) n) cfg.acceptEqual prev maxS votes)
    (List.Nodup.sublist (keys_lrRems_sublist _ _ _ _ _) h.wf.keys_nodup)
    (remSeats (cfg.quota (sumVals votes) n) cfg.acceptEqual n prev votes).toNat p.1
  unfold lrBest
  split
  · rename_i hm
    have := List.count_pos_iff.mpr hm
    have e : List.count (Slot.cand p.1) (getNBest (lrRems (cfg.quota (sumVals votes) n) cfg.acceptEqual prev maxS votes)
      (remSeats (cfg.quota (sumVals votes) n) cfg.acceptEqual n prev votes).toNat) = 1 := by omega
    rw [e]; rfl
  · rename_i hm
    rw [List.count_eq_zero.mpr hm]; rfl

/-- a remainder seat only goes to a party of the election that is still below its cap -/
theorem lr_extra_only_eligible (cfg : Cfg) (votes : Votes) (n : Nat) (prev maxS : IMap) (c : Cand)
    (hc : Slot.cand c ∈ lrBest (cfg.quota (sumVals votes) n) cfg.acceptEqual n prev maxS votes) :
    ∃ p ∈ votes, p.1 = c ∧ eligible (cfg.quota (sumVals votes) n) cfg.acceptEqual prev maxS p = true := by
  obtain ⟨e, he, hec⟩ := cand_mem_getNBest _ _ _ hc
  obtain ⟨p, hp, hel, rfl⟩ := mem_lrRems he
  exact ⟨p, hp, hec, hel⟩

/-- **Largest remainders.**  If an eligible party `p` wins a remainder seat and an eligible party `p'` does not,
    then the exact remainder of `p'` is not larger than that of `p`. -/
theorem lr_largest_remainders (cfg : Cfg) (votes : Votes) (n : Nat) (prev maxS : IMap)
    (hnd : (votes.map (·.1)).Nodup) (p p' : Cand × Rat) (hp : p ∈ votes) (hp' : p' ∈ votes)
    (hel : eligible (cfg.quota (sumVals votes) n) cfg.acceptEqual prev maxS p = true)
    (hel' : eligible (cfg.quota (sumVals votes) n) cfg.acceptEqual prev maxS p' = true)
    (hwin : Slot.cand p.1 ∈ lrBest (cfg.quota (sumVals votes) n) cfg.acceptEqual n prev maxS votes)
    (hlose : Slot.cand p'.1 ∉ lrBest (cfg.quota (sumVals votes) n) cfg.acceptEqual n prev maxS votes) :
    p'.2 / cfg.quota (sumVals votes) n - (gainedQ (cfg.quota (sumVals votes) n) cfg.acceptEqual prev p' : Rat) ≤
      p.2 / cfg.quota (sumVals votes) n - (gainedQ (cfg.quota (sumVals votes) n) cfg.acceptEqual prev p : Rat) :=
  elected_ge_unelected _ (List.Nodup.sublist (keys_lrRems_sublist _ _ _ _ _) hnd) _ _ _
    (mem_lrRems_of hp hel) (mem_lrRems_of hp' hel') hwin hlose

/-- **Ties at the cut.**  A tie among the remainder winners names exactly the parties whose remainder equals the
    cut value `t` (the `r`-th largest remainder), it is reported only when they do not all fit, and it occupies
    exactly the places that the parties strictly above the cut leave over. -/
theorem lr_tie_shape (cfg : Cfg) (votes : Votes) (n : Nat) (prev maxS : IMap) (T : List Cand)
    (hT : Slot.tie T ∈ lrBest (cfg.quota (sumVals votes) n) cfg.acceptEqual n prev maxS votes) :
    let rems := lrRems (cfg.quota (sumVals votes) n) cfg.acceptEqual prev maxS votes
    let r := (remSeats (cfg.quota (sumVals votes) n) cfg.acceptEqual n prev votes).toNat
    ∃ t, IsNth rems r t ∧ r < cntGe rems t ∧ T = level rems t ∧
      (lrBest (cfg.quota (sumVals votes) n) cfg.acceptEqual n prev maxS votes).count (Slot.tie T) = r - cntGt rems t :=
  tie_mem_getNBest _ _ _ hT

/-- … and in the returned dict the `Tie` object (a frozenset: its members in canonical order) holds exactly those
    places. -/
theorem lr_tie_seats (cfg : Cfg) (votes : Votes) (n : Nat) (prev maxS : IMap) (h : Plain cfg votes n prev)
    (res : Sel) (hres : largestRemainder cfg votes n prev maxS = .ok res) (T : List Cand)
    (hT : Slot.tie T ∈ lrBest (cfg.quota (sumVals votes) n) cfg.acceptEqual n prev maxS votes) :
    getK res (mkTie T) 0 =
      ((lrBest (cfg.quota (sumVals votes) n) cfg.acceptEqual n prev maxS votes).count (Slot.tie T) : Int) := by
  rw [lr_whole_then_remainders cfg votes n prev maxS h] at hres
  injection hres with hres
  subst hres
  rw [getK_foldl_incK]
  unfold mkTie
  rw [getK_wholeSel_tie]
  have := count_slotKey_tie _ _ T hT
  unfold mkTie at this
  unfold lrBest
  rw [this]; simp

/-- **Total.**  If the remainder seats do not outnumber the eligible parties, the result together with the
    previous gains fills the house exactly. -/
theorem lr_total (cfg : Cfg) (votes : Votes) (n : Nat) (prev maxS : IMap) (h : Plain cfg votes n prev)
    (hrem : (remSeats (cfg.quota (sumVals votes) n) cfg.acceptEqual n prev votes).toNat ≤
      (lrRems (cfg.quota (sumVals votes) n) cfg.acceptEqual prev maxS votes).length)
    (res : Sel) (hres : largestRemainder cfg votes n prev maxS = .ok res) :
    sumK res + sumI prev = n := by
  rw [lr_whole_then_remainders cfg votes n prev maxS h] at hres
  injection hres with hres
  subst hres
  rw [sumK_foldl_incK]
  unfold lrBest
  rw [getNBest_length_eq _ _ hrem]
  have := h.no_over
  unfold remSeats
  unfold totalAwarded at this ⊢
  omega

/-- **Fewer eligible parties than open seats.**  Outside the hypothesis of `lr_total` every eligible party takes
    exactly one remainder seat and the house stays short: the total is `awarded + #eligible`. -/
theorem lr_short (cfg : Cfg) (votes : Votes) (n : Nat) (prev maxS : IMap) (h : Plain cfg votes n prev)
    (hshort : (lrRems (cfg.quota (sumVals votes) n) cfg.acceptEqual prev maxS votes).length ≤
      (remSeats (cfg.quota (sumVals votes) n) cfg.acceptEqual n prev votes).toNat)
    (res : Sel) (hres : largestRemainder cfg votes n prev maxS = .ok res) :
    sumK res + sumI prev = totalAwarded (cfg.quota (sumVals votes) n) cfg.acceptEqual prev votes +
        (lrRems (cfg.quota (sumVals votes) n) cfg.acceptEqual prev maxS votes).length ∧
      ∀ p ∈ votes, eligible (cfg.quota (sumVals votes) n) cfg.acceptEqual prev maxS p = true →
        Slot.cand p.1 ∈ lrBest (cfg.quota (sumVals votes) n) cfg.acceptEqual n prev maxS votes := by
  have hbest : lrBest (cfg.quota (sumVals votes) n) cfg.acceptEqual n prev maxS votes =
      (sortDesc (lrRems (cfg.quota (sumVals votes) n) cfg.acceptEqual prev maxS votes)).map
        (fun p => Slot.cand p.1) := getNBest_all _ _ hshort
  constructor
  · rw [lr_whole_then_remainders cfg votes n prev maxS h] at hres
    injection hres with hres
    subst hres
    rw [sumK_foldl_incK, hbest, List.length_map, sortDesc_length]
    unfold totalAwarded
    omega
  · intro p hp hel
    rw [hbest]
    exact List.mem_map.mpr ⟨_, mem_sortDesc.mpr (mem_lrRems_of hp hel), rfl⟩

/-- when the whole-quota stage already fills (or over-fills) the house, `LargestRemainder` adds nothing:
    it never asks `get_n_best` for a negative number of places (repair 6adacaa) -/
theorem lr_no_remainder_seats (cfg : Cfg) (votes : Votes) (n : Nat) (prev maxS : IMap) (r : Sel)
    (hq : cfg.quota (sumVals votes) n ≠ 0)
    (hqd : quotaDistribute cfg votes n prev [] = .ok r) (hfull : (n : Int) ≤ sumK r + sumI prev) :
    largestRemainder cfg votes n prev maxS = .ok r := by
  unfold largestRemainder
  rw [hqd]
  simp only
  rw [if_neg (fun hh => hq hh.1), sumK_addDict, sumK_prevAsSel]
  have : ((n : Int) - (sumK r + sumI prev)).toNat = 0 := by omega
  rw [this, getNBest_zero]
  rfl

/-- **Over-award policies carry over to `LargestRemainder`**: `'error'` raises … -/
theorem lr_policy_error (cfg : Cfg) (votes : Votes) (n : Nat) (prev maxS : IMap) (hwf : WF votes prev)
    (hq : 0 < cfg.quota (sumVals votes) n)
    (hnb : NoCapBinds (cfg.quota (sumVals votes) n) cfg.acceptEqual n prev [] votes)
    (hpol : cfg.onOver = .error) (hname : cfg.named = true)
    (hgt : (n : Int) < totalAwarded (cfg.quota (sumVals votes) n) cfg.acceptEqual prev votes) :
    largestRemainder cfg votes n prev maxS = .error .votingSystemError := by
  unfold largestRemainder
  rw [qd_policy_error cfg votes n prev [] hwf hq hnb hpol hname hgt]

/-- … `'ignore'` keeps the surplus: exactly the whole quotas, and no remainder seat on top … -/
theorem lr_policy_ignore (cfg : Cfg) (votes : Votes) (n : Nat) (prev maxS : IMap) (hwf : WF votes prev)
    (hq : 0 < cfg.quota (sumVals votes) n)
    (hnb : NoCapBinds (cfg.quota (sumVals votes) n) cfg.acceptEqual n prev [] votes)
    (hpol : cfg.onOver = .ignore)
    (hgt : (n : Int) < totalAwarded (cfg.quota (sumVals votes) n) cfg.acceptEqual prev votes) :
    largestRemainder cfg votes n prev maxS =
      .ok (wholeSel (cfg.quota (sumVals votes) n) cfg.acceptEqual prev votes) :=
  lr_no_remainder_seats cfg votes n prev maxS _ (ne_of_gt hq)
    (qd_policy_ignore cfg votes n prev [] hwf hq hnb hpol) (by unfold totalAwarded at hgt; omega)

/-- … and `'subtract'` returns what its `QuotaDistributor` returns, which totals `n`. -/
theorem lr_policy_subtract (cfg : Cfg) (votes : Votes) (n : Nat) (prev maxS : IMap) (hwf : WF votes prev)
    (hq : 0 < cfg.quota (sumVals votes) n)
    (hnb : NoCapBinds (cfg.quota (sumVals votes) n) cfg.acceptEqual n prev [] votes)
    (hpol : cfg.onOver = .subtract)
    (hgt : (n : Int) < totalAwarded (cfg.quota (sumVals votes) n) cfg.acceptEqual prev votes) :
    largestRemainder cfg votes n prev maxS = quotaDistribute cfg votes n prev [] ∧
      ∀ res, largestRemainder cfg votes n prev maxS = .ok res → sumK res + sumI prev = n := by
  have key : largestRemainder cfg votes n prev maxS = quotaDistribute cfg votes n prev [] := by
    cases hqd : quotaDistribute cfg votes n prev [] with
    | error e => unfold largestRemainder; rw [hqd]
    | ok r =>
      have := qd_policy_subtract_total cfg votes n prev [] hwf hq hnb hpol hgt r hqd
      exact lr_no_remainder_seats cfg votes n prev maxS r (ne_of_gt hq) hqd (by omega)
  refine ⟨key, ?_⟩
  intro res hres
  rw [key] at hres
  exact qd_policy_subtract_total cfg votes n prev [] hwf hq hnb hpol hgt res hres

/-! ## 4. exact quotas fill the house; the Hare quota rule -/

/-- **Total for exact quotas, proved rather than assumed.**  For a quota of the form `V / (n + k)` there are
    never more remainder seats than parties, so a plain election (no previous gains, no caps) whose whole-quota
    stage is plain fills the house exactly. -/
theorem lr_total_exact (cfg : Cfg) (k : Nat) (hquota : ∀ V n, cfg.quota V n = V / ((n : Rat) + k))
    (votes : Votes) (n : Nat) (hwf : WF votes []) (hV : 0 < sumVals votes) (hn : 1 ≤ n)
    (hnb : NoCapBinds (cfg.quota (sumVals votes) n) cfg.acceptEqual n [] [] votes)
    (hle : totalAwarded (cfg.quota (sumVals votes) n) cfg.acceptEqual [] votes ≤ n)
    (res : Sel) (hres : largestRemainder cfg votes n [] [] = .ok res) : sumK res = n := by
  obtain ⟨hq, _, _, _, hlen⟩ := exact_quota_facts (cfg.quota (sumVals votes) n) cfg.acceptEqual k votes n
    (hquota _ _) hwf.votes_nonneg hV hn
  have hplain : Plain cfg votes n [] := ⟨hwf, hq, hnb, hle⟩
  have := lr_total cfg votes n [] [] hplain (by
    rw [lrRems_plain hq _ _ hwf.votes_nonneg, List.length_map]
    unfold remSeats totalAwarded
    rw [totalAwarded_plain_aux hq _ _ hwf.votes_nonneg]
    have : sumI [] = 0 := rfl
    omega) res hres
  have h0 : sumI [] = 0 := rfl
  omega

/-- **Hare.**  With the Hare quota a plain election always succeeds and fills exactly `n` seats: no hypothesis on
    the whole quotas is needed (they never exceed the house, and never over-award). -/
theorem lr_total_hare (ae : Bool) (pol : OnOver) (votes : Votes) (n : Nat) (hwf : WF votes [])
    (hV : 0 < sumVals votes) (hn : 1 ≤ n) :
    ∃ res, largestRemainder ⟨Gen.Quota.hare, ae, pol, true⟩ votes n [] [] = .ok res ∧ sumK res = n := by
  have hquota : ∀ (V : Rat) (m : Nat), Gen.Quota.hare V m = V / ((m : Rat) + (0 : Nat)) := by
    intro V m; rw [quota_textbook_hare]; simp
  obtain ⟨hq, _, hsum, hmem, _⟩ := exact_quota_facts (Gen.Quota.hare (sumVals votes) n) ae 0 votes n
    (hquota _ _) hwf.votes_nonneg hV hn
  have hnb : NoCapBinds (Gen.Quota.hare (sumVals votes) n) ae n [] [] votes := by
    intro p hp
    left
    have := hmem p hp
    rw [getI_nil]
    simpa using this
  have hle : totalAwarded (Gen.Quota.hare (sumVals votes) n) ae [] votes ≤ n := by
    unfold totalAwarded
    rw [totalAwarded_plain_aux hq _ _ hwf.votes_nonneg]
    have : sumI [] = 0 := rfl
    simp only [Nat.cast_zero, add_zero] at hsum
    omega
  have hplain : Plain ⟨Gen.Quota.hare, ae, pol, true⟩ votes n [] := ⟨hwf, hq, hnb, hle⟩
  refine ⟨_, lr_whole_then_remainders _ votes n [] [] hplain, ?_⟩
  exact lr_total_exact ⟨Gen.Quota.hare, ae, pol, true⟩ 0 hquota votes n hwf hV hn hnb hle _
    (lr_whole_then_remainders _ votes n [] [] hplain)

/-- **Hare quota rule.**  In a plain Hare election every party receives its exact share `v·n/V` rounded down or
    rounded up — also on the `accept_equal = False` edge, where a party exactly on the quota loses its whole
    quota but is then first in line for a remainder seat. -/
theorem hare_quota_rule (ae : Bool) (pol : OnOver) (votes : Votes) (n : Nat) (hwf : WF votes [])
    (hV : 0 < sumVals votes) (hn : 1 ≤ n)
    (res : Sel) (hres : largestRemainder ⟨Gen.Quota.hare, ae, pol, true⟩ votes n [] [] = .ok res)
    (p : Cand × Rat) (hp : p ∈ votes) :
    ⌊p.2 * n / sumVals votes⌋ ≤ getK res (.cand p.1) 0 ∧ getK res (.cand p.1) 0 ≤ ⌈p.2 * n / sumVals votes⌉ := by
  have hquota : ∀ (V : Rat) (m : Nat), Gen.Quota.hare V m = V / ((m : Rat) + (0 : Nat)) := by
    intro V m; rw [quota_textbook_hare]; simp
  obtain ⟨hq, hVq, hsum, hmem, _⟩ := exact_quota_facts (Gen.Quota.hare (sumVals votes) n) ae 0 votes n
    (hquota _ _) hwf.votes_nonneg hV hn
  simp only [Nat.cast_zero, add_zero] at hVq hsum hmem
  have hnb : NoCapBinds (Gen.Quota.hare (sumVals votes) n) ae n [] [] votes := by
    intro p hp; left; rw [getI_nil]; exact hmem p hp
  have h0 : sumI [] = 0 := rfl
  have hle : totalAwarded (Gen.Quota.hare (sumVals votes) n) ae [] votes ≤ n := by
    unfold totalAwarded
    rw [totalAwarded_plain_aux hq _ _ hwf.votes_nonneg]; omega
  have hplain : Plain ⟨Gen.Quota.hare, ae, pol, true⟩ votes n [] := ⟨hwf, hq, hnb, hle⟩
  have hseats := lr_floor_plus_01 _ votes n [] [] hplain res hres p hp
  simp only at hseats
  rw [wholeAward_nil hq ae p (hwf.votes_nonneg p hp)] at hseats
  have hshare : p.2 * n / sumVals votes = p.2 / Gen.Quota.hare (sumVals votes) n := by
    rw [quota_textbook_hare]
    have hn0 : (n : Rat) ≠ 0 := by positivity
    have hV0 : sumVals votes ≠ 0 := ne_of_gt hV
    field_simp
  rw [hshare]
  -- r = Σ remainders
  have hr0 : 0 ≤ remSeats (Gen.Quota.hare (sumVals votes) n) ae n [] votes := by
    unfold remSeats totalAwarded
    rw [totalAwarded_plain_aux hq _ _ hwf.votes_nonneg, h0]; omega
  have hrnat : (((remSeats (Gen.Quota.hare (sumVals votes) n) ae n [] votes).toNat : Nat) : Rat) =
      ((lrRems (Gen.Quota.hare (sumVals votes) n) ae [] [] votes).map (·.2)).sum := by
    have hremvals : (lrRems (Gen.Quota.hare (sumVals votes) n) ae [] [] votes).map (·.2) =
        votes.map (fun p => p.2 / Gen.Quota.hare (sumVals votes) n -
          (wholeQ (Gen.Quota.hare (sumVals votes) n) ae p.2 : Rat)) := by
      rw [lrRems_plain hq ae votes hwf.votes_nonneg, List.map_map]; rfl
    have hr : ((remSeats (Gen.Quota.hare (sumVals votes) n) ae n [] votes : Int) : Rat) =
        ((lrRems (Gen.Quota.hare (sumVals votes) n) ae [] [] votes).map (·.2)).sum := by
      rw [hremvals, sum_rems, hVq]
      unfold remSeats totalAwarded
      rw [totalAwarded_plain_aux hq _ _ hwf.votes_nonneg, h0]
      push_cast; ring
    rw [← hr]
    have : (((remSeats (Gen.Quota.hare (sumVals votes) n) ae n [] votes).toNat : Nat) : Int) =
        remSeats (Gen.Quota.hare (sumVals votes) n) ae n [] votes := Int.toNat_of_nonneg hr0
    exact_mod_cast congrArg (fun z : Int => (z : Rat)) this
  exact quota_rule_aux _ ae votes hwf.keys_nodup hwf.votes_nonneg hq _ hrnat p hp _ hseats

/-- **Droop never over-awards.**  With the Droop quota (or any quota `q > V/(n+1)`) a plain election always has a
    plain whole-quota stage: no party's whole quotas exceed the house and their sum does not either, so none of
    the over-award policies is ever consulted. -/
theorem lr_plain_of_quota_gt (cfg : Cfg) (votes : Votes) (n : Nat) (hwf : WF votes [])
    (hq : sumVals votes / ((n : Rat) + 1) < cfg.quota (sumVals votes) n) (hV : 0 ≤ sumVals votes) :
    Plain cfg votes n [] := by
  have hn1 : (0 : Rat) < (n : Rat) + 1 := by positivity
  have hq0 : 0 < cfg.quota (sumVals votes) n := lt_of_le_of_lt (div_nonneg hV (le_of_lt hn1)) hq
  generalize hqd : cfg.quota (sumVals votes) n = q at *
  have hVq : (votes.map (·.2)).sum / q < (n : Rat) + 1 := by
    rw [← sumVals_eq, div_lt_iff₀ hq0]
    rw [div_lt_iff₀ hn1] at hq
    linarith
  have hs := sum_rems q cfg.acceptEqual votes
  have hb := sum_unit_bounds (votes.map (fun p => p.2 / q - (wholeQ q cfg.acceptEqual p.2 : Rat)))
    (by
      intro x hx
      obtain ⟨p, _, rfl⟩ := List.mem_map.mp hx
      exact rem_bounds hq0 cfg.acceptEqual)
  rw [hs] at hb
  have hsum : (votes.map (fun p => wholeQ q cfg.acceptEqual p.2)).sum ≤ (n : Int) := by
    have : (((votes.map (fun p => wholeQ q cfg.acceptEqual p.2)).sum : Int) : Rat) < (((n : Int) + 1 : Int) : Rat) := by
      push_cast; linarith [hb.1]
    have : (votes.map (fun p => wholeQ q cfg.acceptEqual p.2)).sum < (n : Int) + 1 := by exact_mod_cast this
    omega
  have h0 : sumI [] = 0 := rfl
  have key : NoCapBinds q cfg.acceptEqual n [] [] votes ∧ totalAwarded q cfg.acceptEqual [] votes ≤ n := by
    refine ⟨?_, ?_⟩
    · intro p hp
      left
      rw [getI_nil]
      have h1 : p.2 / q ≤ (votes.map (fun p => p.2 / q)).sum :=
        mem_le_sum _ (by
          intro x hx
          obtain ⟨p', hp', rfl⟩ := List.mem_map.mp hx
          exact div_nonneg (hwf.votes_nonneg p' hp') (le_of_lt hq0)) _ (List.mem_map.mpr ⟨p, hp, rfl⟩)
      rw [sum_map_div] at h1
      have h2 := (rem_bounds (v := p.2) hq0 cfg.acceptEqual).1
      have : ((wholeQ q cfg.acceptEqual p.2 : Int) : Rat) < (((n : Int) + 1 : Int) : Rat) := by push_cast; linarith
      have : wholeQ q cfg.acceptEqual p.2 < (n : Int) + 1 := by exact_mod_cast this
      omega
    · unfold totalAwarded
      rw [totalAwarded_plain_aux hq0 _ _ hwf.votes_nonneg, h0]
      omega
  subst hqd
  exact ⟨hwf, hq0, key.1, key.2⟩

theorem lr_plain_droop (ae : Bool) (pol : OnOver) (votes : Votes) (n : Nat) (hwf : WF votes [])
    (hV : 0 ≤ sumVals votes) : Plain ⟨Gen.Quota.droop, ae, pol, true⟩ votes n [] :=
  lr_plain_of_quota_gt _ votes n hwf (quota_droop_least (sumVals votes) n hV).1 hV

/-- **Hagenbach-Bischoff**: the total is `n` whenever the whole-quota stage is plain -/
theorem lr_total_hagenbach_bischoff (ae : Bool) (pol : OnOver) (votes : Votes) (n : Nat) (hwf : WF votes [])
    (hV : 0 < sumVals votes) (hn : 1 ≤ n)
    (hnb : NoCapBinds (Gen.Quota.hagenbach_bischoff (sumVals votes) n) ae n [] [] votes)
    (hle : totalAwarded (Gen.Quota.hagenbach_bischoff (sumVals votes) n) ae [] votes ≤ n)
    (res : Sel) (hres : largestRemainder ⟨Gen.Quota.hagenbach_bischoff, ae, pol, true⟩ votes n [] [] = .ok res) :
    sumK res = n :=
  lr_total_exact ⟨Gen.Quota.hagenbach_bischoff, ae, pol, true⟩ 1
    (by intro V m; show Gen.Quota.hagenbach_bischoff V m = _; rw [quota_textbook_hagenbach_bischoff]; simp) votes n hwf hV hn hnb hle res hres

/-- **Imperiali**: the total is `n` whenever the whole-quota stage is plain -/
theorem lr_total_imperiali (ae : Bool) (pol : OnOver) (votes : Votes) (n : Nat) (hwf : WF votes [])
    (hV : 0 < sumVals votes) (hn : 1 ≤ n)
    (hnb : NoCapBinds (Gen.Quota.imperiali (sumVals votes) n) ae n [] [] votes)
    (hle : totalAwarded (Gen.Quota.imperiali (sumVals votes) n) ae [] votes ≤ n)
    (res : Sel) (hres : largestRemainder ⟨Gen.Quota.imperiali, ae, pol, true⟩ votes n [] [] = .ok res) :
    sumK res = n :=
  lr_total_exact ⟨Gen.Quota.imperiali, ae, pol, true⟩ 2
    (by intro V m; show Gen.Quota.imperiali V m = _; rw [quota_textbook_imperiali]; simp) votes n hwf hV hn hnb hle res hres

/-! ## 5. caps (`max_seats`)

  Full statements, NOT provable for the code as it stands (open findings C02-a, C02-b, C02-d):

    theorem qd_cap  : WF votes prev → 0 < q → quotaDistribute cfg votes n prev maxS = .ok res →
                        CapsRespected q ae prev maxS votes res
    theorem lr_cap  : WF votes prev → 0 < q → largestRemainder cfg votes n prev maxS = .ok res →
                        CapsRespected q ae prev maxS votes res
    theorem lr_cap_total : … → sumK res + sumI prev = n        (when the caps leave room)
    theorem qd_policy_honoured : the three policy theorems of section 2 without the `n_seats` part of `NoCapBinds`

  Proved here: the `_partial` versions (no cap binds on the whole quotas), and `_witness` theorems showing the
  model — which mirrors the code — violating each full statement on a concrete input.
-/

/-- a capped party never exceeds its cap, and sits exactly at the cap when its whole quotas reach it
    (a party whose previous gains already exceed the cap is outside the statement) -/
def capOK (q : Rat) (ae : Bool) (prev maxS : IMap) (res : Sel) (p : Cand × Rat) : Prop :=
  match getCap maxS p.1 with
  | some m => getI prev p.1 0 ≤ m →
      getK res (.cand p.1) 0 + getI prev p.1 0 ≤ m ∧
      (m ≤ wholeQ q ae p.2 → getK res (.cand p.1) 0 + getI prev p.1 0 = m)
  | none => True

instance (q : Rat) (ae : Bool) (prev maxS : IMap) (res : Sel) (p : Cand × Rat) :
    Decidable (capOK q ae prev maxS res p) := by
  unfold capOK
  split <;> infer_instance

def CapsRespected (q : Rat) (ae : Bool) (prev maxS : IMap) (votes : Votes) (res : Sel) : Prop :=
  ∀ p ∈ votes, capOK q ae prev maxS res p

instance (q : Rat) (ae : Bool) (prev maxS : IMap) (votes : Votes) (res : Sel) :
    Decidable (CapsRespected q ae prev maxS votes res) := by
  unfold CapsRespected; infer_instance

/-- **Caps, partial (QuotaDistributor).**  When no cap binds on the whole quotas and the whole quotas are returned
    (no over-award, or policy `'ignore'`), every cap is respected and a party whose whole quotas reach its cap
    sits exactly on it. -/
theorem qd_cap_partial (cfg : Cfg) (votes : Votes) (n : Nat) (prev maxS : IMap) (hwf : WF votes prev)
    (hq : 0 < cfg.quota (sumVals votes) n)
    (hnb : NoCapBinds (cfg.quota (sumVals votes) n) cfg.acceptEqual n prev maxS votes)
    (hpol : totalAwarded (cfg.quota (sumVals votes) n) cfg.acceptEqual prev votes ≤ n ∨ cfg.onOver = .ignore)
    (res : Sel) (hres : quotaDistribute cfg votes n prev maxS = .ok res) :
    CapsRespected (cfg.quota (sumVals votes) n) cfg.acceptEqual prev maxS votes res := by
  have hr : res = wholeSel (cfg.quota (sumVals votes) n) cfg.acceptEqual prev votes := by
    rcases hpol with h | h
    · rw [qd_no_overaward cfg votes n prev maxS hwf hq hnb h] at hres; injection hres with e; exact e.symm
    · rw [qd_policy_ignore cfg votes n prev maxS hwf hq hnb h] at hres; injection hres with e; exact e.symm
  subst hr
  intro p hp
  unfold capOK
  split
  · rename_i m hm
    intro hpm
    rw [getK_wholeSel _ _ _ _ hwf.keys_nodup p hp]
    unfold wholeAward
    have hb := hnb p hp
    rw [getI_of_getCap hm] at hb
    constructor
    · rcases hb with h | h <;> omega
    · intro hge; rcases hb with h | h <;> omega
  · trivial

/-- **Caps, partial (LargestRemainder).**  When the whole-quota stage is plain and no explicit cap binds on the
    whole quotas, the remainder stage respects every cap: a party on its cap takes no remainder seat. -/
theorem lr_cap_partial (cfg : Cfg) (votes : Votes) (n : Nat) (prev maxS : IMap) (h : Plain cfg votes n prev)
    (hcap : ∀ p ∈ votes, ∀ m, getCap maxS p.1 = some m →
      wholeQ (cfg.quota (sumVals votes) n) cfg.acceptEqual p.2 ≤ m)
    (res : Sel) (hres : largestRemainder cfg votes n prev maxS = .ok res) :
    CapsRespected (cfg.quota (sumVals votes) n) cfg.acceptEqual prev maxS votes res := by
  intro p hp
  unfold capOK
  split
  · rename_i m hm
    intro hpm
    have hseats := lr_floor_plus_01 cfg votes n prev maxS h res hres p hp
    have hw := hcap p hp m hm
    have hg : gainedQ (cfg.quota (sumVals votes) n) cfg.acceptEqual prev p ≤ m := by
      unfold gainedQ wholeAward; omega
    by_cases hel : Slot.cand p.1 ∈ lrBest (cfg.quota (sumVals votes) n) cfg.acceptEqual n prev maxS votes
    · obtain ⟨p', hp', he, helig⟩ := lr_extra_only_eligible cfg votes n prev maxS p.1 hel
      have hpp : p' = p := List.inj_on_of_nodup_map h.wf.keys_nodup hp' hp he
      subst hpp
      unfold eligible at helig
      rw [hm] at helig
      simp only [decide_eq_true_eq] at helig
      rw [if_pos hel] at hseats
      unfold gainedQ wholeAward at helig hg
      unfold wholeAward at hseats
      constructor
      · omega
      · intro hge; omega
    · rw [if_neg hel] at hseats
      unfold gainedQ wholeAward at hg
      unfold wholeAward at hseats
      constructor
      · omega
      · intro hge; omega
  · trivial

/-- **Witness (finding C02-a).**  `QuotaDistributor('hare').evaluate({A:60,B:30,C:10}, 10, max_seats={A:4})`:
    the model, like the code, returns `A:0` — the capped party loses its whole entitlement. -/
theorem qd_cap_witness :
    ∃ res, quotaDistribute ⟨Gen.Quota.hare, true, .error, true⟩ [(0, 60), (1, 30), (2, 10)] 10 [] [(0, 4)] = .ok res ∧
      res = [(.cand 0, 0), (.cand 1, 4), (.cand 2, 1)] ∧
      ¬ CapsRespected (Gen.Quota.hare 100 10) true [] [(0, 4)] [(0, 60), (1, 30), (2, 10)] res :=
  ⟨_, by decide +kernel, rfl, by decide +kernel⟩

/-- … and with `prev_gains={A:1}` the award is negative. -/
theorem qd_cap_negative_witness :
    quotaDistribute ⟨Gen.Quota.hare, true, .error, true⟩ [(0, 60), (1, 30), (2, 10)] 10 [(0, 1)] [(0, 4)] =
      .ok [(.cand 0, -1), (.cand 1, 4), (.cand 2, 1)] := by decide +kernel

/-- **Witness (finding C02-b).**  `LargestRemainder('hare').evaluate({A:60,B:30,C:10}, 10, max_seats={A:4})`
    returns `A:6`: `max_seats` never reaches the whole-quota stage. -/
theorem lr_cap_witness :
    ∃ res, largestRemainder ⟨Gen.Quota.hare, true, .error, true⟩ [(0, 60), (1, 30), (2, 10)] 10 [] [(0, 4)] = .ok res ∧
      res = [(.cand 0, 6), (.cand 1, 3), (.cand 2, 1)] ∧
      ¬ CapsRespected (Gen.Quota.hare 100 10) true [] [(0, 4)] [(0, 60), (1, 30), (2, 10)] res :=
  ⟨_, by decide +kernel, rfl, by decide +kernel⟩

/-- **Witness (finding C02-d).**  Without any `max_seats`, a party whose whole quotas exceed the house enters the
    overshoot branch through the default cap `n_seats`: policy `'ignore'` does not keep the surplus
    (`{A:90,B:10,C:10}`, 3 seats, Imperiali: whole quotas `{A:4}`, returned `{A:0,B:3,C:3}`) … -/
theorem qd_house_witness :
    quotaDistribute ⟨Gen.Quota.imperiali, true, .ignore, true⟩ [(0, 90), (1, 10), (2, 10)] 3 [] [] =
        .ok [(.cand 0, 0), (.cand 1, 3), (.cand 2, 3)] ∧
      wholeSel (Gen.Quota.imperiali 110 3) true [] [(0, 90), (1, 10), (2, 10)] = [(.cand 0, 4)] := by
  constructor <;> decide +kernel

/-- … and policy `'subtract'` dies with `ZeroDivisionError` in the recursive call (`{a:5,b:0}`, 2 seats). -/
theorem qd_house_zero_division_witness :
    quotaDistribute ⟨Gen.Quota.imperiali, true, .subtract, true⟩ [(0, 5), (1, 0)] 2 [] [] = .error zeroDiv ∧
    largestRemainder ⟨Gen.Quota.imperiali, true, .subtract, true⟩ [(0, 5), (1, 0)] 2 [] [] = .error zeroDiv := by
  constructor <;> decide +kernel

/-- **Witness (finding C02-e).**  Policy `'error'` with a `quota.constant` instance (no `__name__`) raises
    `AttributeError`, not `VotingSystemError`: `QuotaDistributor(constant(30), on_overaward='error')` on
    `{A:60,B:40}`, 2 seats. -/
theorem qd_policy_error_unnamed_witness :
    quotaDistribute ⟨fun _ _ => 30, true, .error, false⟩ [(0, 60), (1, 40)] 2 [] [] = .error attrErr := by
  decide +kernel

/-! ## 6. the model's recursion fuel -/

/-- the overshoot recursion drops at least one party per call, so the fuel `len(votes)` given by
    `quotaDistribute` is never exhausted: the model never answers `Model:Fuel`, for any input whatsoever -/
theorem qd_fuel_suffices (cfg : Cfg) (votes : Votes) (n : Nat) (prev maxS : IMap) :
    quotaDistribute cfg votes n prev maxS ≠ .error fuelErr :=
  qdEval_no_fuel cfg _ votes n prev maxS (le_refl _)

theorem lr_fuel_suffices (cfg : Cfg) (votes : Votes) (n : Nat) (prev maxS : IMap) :
    largestRemainder cfg votes n prev maxS ≠ .error fuelErr := by
  unfold largestRemainder
  split
  · rename_i e he
    intro h; injection h with h
    rw [h] at he
    exact qd_fuel_suffices cfg votes n prev [] he
  · simp only
    split
    · intro h; injection h with h; exact fuelErr_ne.1 h.symm
    · simp

/-! ## non-vacuity: concrete inputs meeting the hypotheses -/

-- Droop, {A:47, B:16, C:37}, 10 seats: whole quotas 5,1,4 (q = 10), no remainder seat left
example : Plain ⟨Gen.Quota.droop, true, .error, true⟩ [(0, 47), (1, 16), (2, 37)] 10 [] :=
  ⟨by decide +kernel, by decide +kernel, by decide +kernel, by decide +kernel⟩
-- Hare with previous gains and a cap that matters only for the remainder seat
example : Plain ⟨Gen.Quota.hare, true, .error, true⟩ [(0, 55), (1, 35), (2, 10)] 10 [(1, 1)] :=
  ⟨by decide +kernel, by decide +kernel, by decide +kernel, by decide +kernel⟩
example : largestRemainder ⟨Gen.Quota.hare, true, .error, true⟩ [(0, 55), (1, 35), (2, 10)] 10 [(1, 1)] [(0, 5)] =
    .ok [(.cand 0, 5), (.cand 1, 3), (.cand 2, 1)] := by decide +kernel
-- a tie at the cut: three equal parties, four seats
example : largestRemainder ⟨Gen.Quota.hare, true, .error, true⟩ [(0, 10), (1, 10), (2, 10)] 4 [] [] =
    .ok [(.cand 0, 1), (.cand 1, 1), (.cand 2, 1), (.tie [0, 1, 2], 1)] := by decide +kernel
-- over-award inside the house (Imperiali, {A:50,B:30,C:20}... q = 100/6): NoCapBinds holds, total 5 > 4
example : NoCapBinds (Gen.Quota.imperiali 100 4) true 4 [] [] [(0, 50), (1, 30), (2, 20)] ∧
    (4 : Int) < totalAwarded (Gen.Quota.imperiali 100 4) true [] [(0, 50), (1, 30), (2, 20)] := by
  constructor <;> decide +kernel
example : quotaDistribute ⟨Gen.Quota.imperiali, true, .subtract, true⟩ [(0, 50), (1, 30), (2, 20)] 4 [] [] =
    .ok [(.cand 0, 2), (.cand 1, 1), (.cand 2, 1)] := by decide +kernel
-- subtract with a tie for the smallest margin
example : quotaDistribute ⟨Gen.Quota.imperiali, true, .subtract, true⟩ [(0, 50), (1, 50), (2, 50)] 4 [] [] =
    .ok [(.cand 0, 1), (.cand 1, 1), (.cand 2, 1), (.tie [0, 1, 2], 1)] := by decide +kernel
-- the accept_equal edge: a party exactly on the Hare quota
example : wholeQ (Gen.Quota.hare 60 6) false 10 = 0 ∧ wholeQ (Gen.Quota.hare 60 6) true 10 = 1 := by
  constructor <;> decide +kernel
example : largestRemainder ⟨Gen.Quota.hare, false, .error, true⟩ [(0, 10), (1, 20), (2, 30)] 6 [] [] =
    .ok [(.cand 1, 2), (.cand 2, 3), (.cand 0, 1)] := by decide +kernel

end VL.C02
