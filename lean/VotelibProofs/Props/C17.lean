/-
  C17 — Monotone rules stay monotone: more support or more seats never hurts.
  Property theorems only.  Models: VotelibModel/HighestAverages.lean (divisor rules) and VotelibModel/Mono.lean
  (one-seat winner rules and the moves).  Helper lemmas: VotelibProofs/Lemmas/HAMono.lean, Mono*.lean.

  Reading (DESIGN 7/C17).  Divisor rules: no tie-freeness; `haSeats cfg c` are the seats awarded to `c`
  individually, seats inside an unresolved `Tie` are counted for nobody.
-/
import VotelibProofs.Lemmas.HAMonoFull
import VotelibProofs.Props.C01
import VotelibProofs.Lemmas.MonoScorers
import VotelibProofs.Lemmas.MonoAdditive
import VotelibProofs.Lemmas.MonoBucklin
import VotelibProofs.Lemmas.MonoBucklinCoef
import VotelibProofs.Lemmas.MonoMinimax
import VotelibProofs.Lemmas.MonoBridge
import VotelibProofs.Lemmas.MonoRules
import VotelibProofs.Lemmas.MonoApprovalSplit
import VotelibProofs.Lemmas.MonoSchulze
import VotelibProofs.Lemmas.MonoNewFull
namespace VL.C17
open VL HACfg Gen.Divisor VL.Convert VL.Mono

/-! ## divisor rules -/

/-- the five built-in divisor functions of `component/divisor.py` -/
def builtinDivisors : List (Nat → Rat) := [d_hondt, sainte_lague, imperiali, danish, macau]

theorem builtin_ok {d : Nat → Rat} (h : d ∈ builtinDivisors) : (∀ k, 0 < d k) ∧ StrictMono d := by
  simp only [builtinDivisors, List.mem_cons, List.not_mem_nil, or_false] at h
  rcases h with rfl | rfl | rfl | rfl | rfl
  exacts [C01.d_hondt_ok, C01.sainte_lague_ok, C01.imperiali_ok, C01.danish_ok, C01.macau_ok]

/-- input well-formedness of `HighestAverages.evaluate`: non-negative votes, a dict (distinct keys) -/
def VotesOK (cfg : HACfg) : Prop := (∀ p ∈ cfg.votes, 0 ≤ p.2) ∧ (keys cfg.votes).Nodup

instance (cfg : HACfg) : Decidable (VotesOK cfg) := by unfold VotesOK; infer_instance

/-- **House monotonicity.**  Under every built-in divisor rule — for all vote vectors, previous gains and caps,
    tie or no tie — adding a seat to the house never costs any party an individually awarded seat. -/
theorem ha_house_monotone (cfg : HACfg) (hd : cfg.div ∈ builtinDivisors) (hv : VotesOK cfg) (c : Cand) :
    haSeats cfg c ≤ haSeats cfg.succHouse c :=
  haSeats_succHouse cfg (C01.cfgOK_of_divisor cfg (builtin_ok hd) hv.1 hv.2) c

/-- the same for every positive, non-decreasing divisor sequence (covers `modified_first_coef` wrappers) -/
theorem ha_house_monotone_general (cfg : HACfg) (h : CfgOK cfg) (c : Cand) :
    haSeats cfg c ≤ haSeats cfg.succHouse c := haSeats_succHouse cfg h c

/-- **Vote monotonicity.**  Under every built-in divisor rule — for all vote vectors, previous gains and caps (at
    least the previous gains), tie or no tie in either election — giving one party more votes while the others keep
    theirs never lowers its individually awarded seats. -/
theorem ha_vote_monotone (cfg cfg' : HACfg) (c : Cand) (hd : cfg.div ∈ builtinDivisors)
    (hv : VotesOK cfg) (hv' : VotesOK cfg') (hm : MoreVotes cfg cfg' c)
    (hcaps : ∀ e, cfg.prevOf e ≤ cfg.capOf e) :
    haSeats cfg c ≤ haSeats cfg' c :=
  haSeats_more_votes_full cfg cfg' c (C01.cfgOK_of_divisor cfg (builtin_ok hd) hv.1 hv.2)
    (C01.cfgOK_of_divisor cfg' (by rw [hm.div]; exact builtin_ok hd) hv'.1 hv'.2) hm hcaps

/-- the same for every positive, non-decreasing divisor sequence -/
theorem ha_vote_monotone_general (cfg cfg' : HACfg) (c : Cand) (h : CfgOK cfg) (h' : CfgOK cfg') (hm : MoreVotes cfg cfg' c)
    (hcaps : ∀ e, cfg.prevOf e ≤ cfg.capOf e) : haSeats cfg c ≤ haSeats cfg' c :=
  haSeats_more_votes_full cfg cfg' c h h' hm hcaps

/-! ### non-vacuity -/

def exCfg : HACfg :=
  { div := sainte_lague, votes := [(0, 10), (1, 6), (2, 1)], n := 4, prev := [(1, 1)], caps := [(0, 2)] }
def exCfg' : HACfg := { exCfg with votes := [(0, 10), (1, 6), (2, 4)] }

example : exCfg.div ∈ builtinDivisors := by simp [builtinDivisors, exCfg]
example : VotesOK exCfg := by decide +kernel
example : (haRun exCfg').tie = none ∧ haSeats exCfg 2 = 0 ∧ haSeats exCfg' 2 = 1 := by decide +kernel
example : haSeats exCfg 1 = 1 ∧ haSeats exCfg.succHouse 1 = 2 := by decide +kernel

/-- a base election that ends in a tie (6, 3, 3 votes, three seats under D'Hondt): all three parties tie for the last two seats -/
def exTie : HACfg := { div := d_hondt, votes := [(0, 6), (1, 3), (2, 3)], n := 3, prev := [], caps := [] }
example : (haRun exTie).tie = some ([1, 2, 0], 2) ∧ haSeats exTie 0 = 1 ∧ haSeats exTie.succHouse 1 = 1 := by decide +kernel

/-! ## winner rules: the generic additive argument

  Reading.  "Sole winner" = the evaluator's one-seat result is `[w]` (`[Slot.cand w]`).  A single ballot improvement
  replaces ONE unit of weight of ballot `b` by ballot `b'` (`replaceUnit p b b'`); a new ballot is `addTo p nb 1`.
  The candidates of the election are fixed: `b'` names the candidates of `b` (and `w`), a new ballot names
  candidates that stand already. -/

/-- **Generic additive monotonicity** (scores are sums over ballots of weight × per-ballot image; the changed
    ballot moves nobody's image up by more than `w`'s): a strict sole winner stays the strict sole winner. -/
theorem additive_winner_monotone {β : Type} [DecidableEq β] {items : β × Rat → List (Cand × Rat)}
    {img : β → Cand → Rat} {supp : β → List Cand} (h : Additive items img supp) (p : Dict β) (b b' : β) (w : Cand)
    (hb : b ∈ dkeys p) (hs : ∀ k, k ∈ supp b' ↔ k = w ∨ k ∈ supp b)
    (hδ : ∀ y, y ≠ w → img b' y - img b y ≤ img b' w - img b w)
    (hsole : getNBest (accum items p []) 1 = [Slot.cand w]) :
    getNBest (accum items (replaceUnit p b b') []) 1 = [Slot.cand w] :=
  additive_replace h p b b' w hb hs hδ hsole

/-- the same for a new ballot that gives nobody more than it gives `w` -/
theorem additive_winner_monotone_new {β : Type} [DecidableEq β] {items : β × Rat → List (Cand × Rat)}
    {img : β → Cand → Rat} {supp : β → List Cand} (h : Additive items img supp) (p : Dict β) (nb : β) (w : Cand)
    (hsub : ∀ k ∈ supp nb, k ∈ keys (accum items p []))
    (hδ : ∀ y, img nb y ≤ img nb w)
    (hsole : getNBest (accum items p []) 1 = [Slot.cand w]) :
    getNBest (accum items (addTo p nb 1) []) 1 = [Slot.cand w] :=
  additive_new h p nb w hsub hδ hsole

/-! ### plurality -/

/-- **Plurality**: one voter of `x` switches to the sole winner `w` — `w` stays the sole winner. -/
theorem plurality_monotone_switch (votes : Votes) (hn : (keys votes).Nodup) (x w : Cand)
    (h : evalPlurality votes = [Slot.cand w]) : evalPlurality (switchVote votes x w) = [Slot.cand w] := by
  unfold evalPlurality switchVote at *
  apply sole_map votes hn w _ ?_ h
  intro e _ e' _ hew he'w
  simp only [hew, he'w, ↓reduceIte]
  split <;> split <;> norm_num

/-- **Plurality**: one more vote for the sole winner. -/
theorem plurality_monotone_new (votes : Votes) (hn : (keys votes).Nodup) (w : Cand)
    (h : evalPlurality votes = [Slot.cand w]) : evalPlurality (oneMore votes w) = [Slot.cand w] := by
  unfold evalPlurality oneMore at *
  apply sole_map votes hn w _ ?_ h
  intro e _ e' _ hew he'w
  simp [hew, he'w]

/-! ### positional rules (Borda, Dowdall, Geometric, ModifiedBorda, FixedTop) -/

/-- the rank scorers covered: the five generated ones with their documented parameter ranges
    (Borda base ≥ 0, geometric base ≥ 1, SequenceBased with a non-increasing non-negative sequence) -/
def ScorerOK : Scorer → Prop
  | .borda base => 0 ≤ base
  | .geometric base => 1 ≤ base
  | .sequence seq => SeqOK seq
  | _ => True

/-- the generated score lists are non-increasing, non-negative and compatible with a ballot growing by one place -/
theorem scorer_monotone (sc : Scorer) (h : ScorerOK sc) :
    Accepts sc ∧ ∀ nC, ScorerMono (scorerFn sc nC) nC := by
  cases sc with
  | borda base => exact ⟨accepts_of _ (by simp), fun nC => borda_mono base h nC⟩
  | dowdall => exact ⟨accepts_of _ (by simp), fun nC => dowdall_mono nC nC⟩
  | geometric base =>
    have hb : 1 ≤ base := h
    exact ⟨accepts_of _ (by simp; omega), fun nC => geometric_mono base nC nC hb⟩
  | modifiedBorda => exact ⟨accepts_of _ (by simp), fun nC => modifiedBorda_mono nC nC⟩
  | fixedTop top => exact ⟨accepts_of _ (by simp), fun nC => fixedTop_mono top nC nC⟩
  | sequence seq => exact ⟨accepts_of _ (by simp), fun nC => sequence_mono seq h nC nC⟩

/-- **Positional rules, single ballot improvement.**  For every profile of well-formed ballots: if `w` is the sole
    winner and one unit of weight of ballot `b` is replaced by `b` with `w` lifted, `w` is still the sole winner. -/
theorem positional_monotone_lift (sc : Scorer) (hsc : ScorerOK sc) (p : RProfile) (w : Cand) (i : Nat) (b : Ballot)
    (hwf : ∀ x ∈ dkeys p, BallotOK x) (hb : b ∈ dkeys p) (hok : liftOK w i b = true)
    (h : evalPositional sc p = .ok [Slot.cand w]) :
    evalPositional sc (replaceUnit p b (lift w i b)) = .ok [Slot.cand w] := by
  obtain ⟨hacc, hS⟩ := scorer_monotone sc hsc
  -- w is a candidate of the election
  have hw : w ∈ allRankedCandidates p := by
    obtain ⟨d, hd, hk, hn, _⟩ := positional_spec hacc p hwf
    unfold evalPositional at h
    rw [hd] at h
    simp only [Except.ok.injEq] at h
    rw [sole_iff d hn, soleMax_iff d hn] at h
    exact (hk w).mp h.1
  have hU := arc_replaceUnit p b (lift w i b) w hb hw (fun c => mem_ballotCands_lift)
  have hwf' : ∀ x ∈ dkeys (replaceUnit p b (lift w i b)), BallotOK x := by
    intro x hx
    rcases mem_dkeys_replaceUnit hx with hx | rfl
    · exact hwf x hx
    · exact (hwf b hb).lift w i
  apply positional_core hacc p _ w hwf hwf' hU
    (fun k => bscore (scorerFn sc (allRankedCandidates p).length) (lift w i b) k
      - bscore (scorerFn sc (allRankedCandidates p).length) b k) ?_ ?_ h
  · intro k; rw [wsum_replaceUnit _ _ _ _ hb]; ring
  · intro y hy
    apply lift_delta (hS _) w i b (hwf b hb).1 hok ?_ y hy
    apply ((hwf b hb).lift w i).length_le
    intro c hc
    rcases mem_ballotCands_lift.mp hc with rfl | hc
    · exact hw
    · exact (mem_arc p c).mpr ⟨b, hb, hc⟩

/-- **Positional rules, new ballot.**  A new ballot with `w` alone at the top and any other candidates of the
    election below keeps `w` the sole winner. -/
theorem positional_monotone_new (sc : Scorer) (hsc : ScorerOK sc) (p : RProfile) (w : Cand) (rest : Ballot)
    (hwf : ∀ x ∈ dkeys p, BallotOK x) (hnb : BallotOK (RankItem.one w :: rest))
    (hsub : ∀ c ∈ ballotCands (RankItem.one w :: rest), c ∈ allRankedCandidates p)
    (h : evalPositional sc p = .ok [Slot.cand w]) :
    evalPositional sc (addTo p (RankItem.one w :: rest) 1) = .ok [Slot.cand w] := by
  obtain ⟨hacc, hS⟩ := scorer_monotone sc hsc
  have hU := arc_addTo p _ hsub
  have hwf' : ∀ x ∈ dkeys (addTo p (RankItem.one w :: rest) 1), BallotOK x := by
    intro x hx
    rcases (mem_dkeys_addTo p _ 1 x).mp hx with hx | rfl
    · exact hwf x hx
    · exact hnb
  apply positional_core hacc p _ w hwf hwf' hU
    (fun k => bscore (scorerFn sc (allRankedCandidates p).length) (RankItem.one w :: rest) k) ?_ ?_ h
  · intro k; rw [wsum_addTo]; ring
  · intro y _
    exact new_ballot_delta (hS _) w rest hnb.1 y

/-! ### approval voting -/

/-- **Approval, single ballot improvement**: one voter who did not approve the sole winner `w` now does. -/
theorem approval_monotone_approve (p : AProfile) (b : Approval) (w : Cand) (hb : b ∈ dkeys p) (hw : w ∉ b)
    (h : evalApproval p = .ok [Slot.cand w]) :
    evalApproval (replaceUnit p b (approve w b)) = .ok [Slot.cand w] := by
  rw [evalApproval_eq] at h ⊢
  simp only [Except.ok.injEq] at h ⊢
  apply additive_winner_monotone approval_additive p b (approve w b) w hb (mem_approve w b) ?_ h
  intro y hy
  rw [cnt_approve w b y hw, cnt_approve w b w hw, if_neg (fun h => hy h.symm), if_pos rfl]
  linarith

/-- **Approval, new ballot**: a new ballot approving `w` (and any other candidates of the election). -/
theorem approval_monotone_new (p : AProfile) (nb : Approval) (w : Cand) (hnd : nb.Nodup) (hw : w ∈ nb)
    (hsub : ∀ c ∈ nb, ∃ b ∈ dkeys p, c ∈ b)
    (h : evalApproval p = .ok [Slot.cand w]) :
    evalApproval (addTo p nb 1) = .ok [Slot.cand w] := by
  rw [evalApproval_eq] at h ⊢
  simp only [Except.ok.injEq] at h ⊢
  apply additive_winner_monotone_new approval_additive p nb w ?_ ?_ h
  · intro k hk; exact (approval_additive.mem_keys p k).mpr (hsub k hk)
  · intro y
    rw [cnt_of_nodup hnd w, if_pos hw]
    exact cnt_le_one hnd y

/-- **Satisfaction approval (`ApprovalToSimpleVotes(split=True)`), single ballot improvement**: one voter who did not
    approve the sole winner `w` now does.  Every candidate the ballot approved before loses part of its share
    (`1/k` becomes `1/(k+1)`), `w` gains `1/(k+1)`. -/
theorem approval_split_monotone_approve (p : AProfile) (b : Approval) (w : Cand) (hb : b ∈ dkeys p) (hw : w ∉ b)
    (h : evalApprovalSplit p = .ok [Slot.cand w]) :
    evalApprovalSplit (replaceUnit p b (approve w b)) = .ok [Slot.cand w] := by
  have hne := nonempty_of_evalApprovalSplit_ok h
  have hne' : ∀ bw ∈ replaceUnit p b (approve w b), bw.1 ≠ [] := by
    intro bw hbw
    rcases mem_replaceUnit_fst hbw with hx | hx
    · simp only [dkeys, List.mem_map] at hx
      obtain ⟨bw', hbw', he⟩ := hx
      rw [← he]; exact hne bw' hbw'
    · rw [hx]; exact approve_ne_nil w b
  rw [evalApprovalSplit_eq p hne] at h
  rw [evalApprovalSplit_eq _ hne']
  simp only [Except.ok.injEq] at h ⊢
  apply additive_winner_monotone approvalSplit_additive p b (approve w b) w hb (mem_approve w b) ?_ h
  intro y hy
  try beta_reduce
  rw [cnt_approve w b y hw, cnt_approve w b w hw, if_neg (fun h => hy h.symm), if_pos rfl, length_approve w b hw,
    cnt_eq_zero hw]
  have hc := cnt_nonneg b y
  have hL : (0 : Rat) ≤ (b.length : Rat) := Nat.cast_nonneg _
  have h1 : (cnt b y + 0) / ((b.length + 1 : Nat) : Rat) ≤ cnt b y / (b.length : Rat) := by
    rw [add_zero]
    apply div_le_div_of_nonneg_left hc ?_ (by push_cast; linarith)
    · rcases Nat.eq_zero_or_pos b.length with h0 | h0
      · exfalso
        have : b = [] := List.length_eq_zero_iff.mp h0
        simp only [dkeys, List.mem_map] at hb
        obtain ⟨bw, hbw, he⟩ := hb
        exact hne bw hbw (by rw [he, this])
      · exact_mod_cast h0
  have h2 : (0 : Rat) ≤ (0 + 1) / ((b.length + 1 : Nat) : Rat) - 0 / (b.length : Rat) := by
    rw [zero_div, sub_zero]; positivity
  linarith

/-- **Satisfaction approval, new ballot**: a new ballot approving `w` (and any other candidates of the election)
    gives everybody it approves the same share. -/
theorem approval_split_monotone_new (p : AProfile) (nb : Approval) (w : Cand) (hnd : nb.Nodup) (hw : w ∈ nb)
    (hsub : ∀ c ∈ nb, ∃ b ∈ dkeys p, c ∈ b)
    (h : evalApprovalSplit p = .ok [Slot.cand w]) :
    evalApprovalSplit (addTo p nb 1) = .ok [Slot.cand w] := by
  have hne := nonempty_of_evalApprovalSplit_ok h
  have hne' : ∀ bw ∈ addTo p nb 1, bw.1 ≠ [] := by
    intro bw hbw
    have : bw.1 ∈ dkeys (addTo p nb 1) := by simp only [dkeys, List.mem_map]; exact ⟨bw, hbw, rfl⟩
    rcases (mem_dkeys_addTo p nb 1 bw.1).mp this with hx | hx
    · simp only [dkeys, List.mem_map] at hx
      obtain ⟨bw', hbw', he⟩ := hx
      rw [← he]; exact hne bw' hbw'
    · rw [hx]; exact List.ne_nil_of_mem hw
  rw [evalApprovalSplit_eq p hne] at h
  rw [evalApprovalSplit_eq _ hne']
  simp only [Except.ok.injEq] at h ⊢
  apply additive_winner_monotone_new approvalSplit_additive p nb w ?_ ?_ h
  · intro k hk; exact (approvalSplit_additive.mem_keys p k).mpr (hsub k hk)
  · intro y
    try beta_reduce
    rw [cnt_of_nodup hnd w, if_pos hw]
    exact div_le_div_of_nonneg_right (cnt_le_one hnd y) (Nat.cast_nonneg _)

/-- the hypotheses of the satisfaction-approval theorems are satisfiable, and the move matters: the share of the
    ballot's other candidate drops from 1/1 to 1/2 -/
example : evalApprovalSplit [([1], 2), ([2], 1), ([1, 2], 1)] = .ok [Slot.cand 1]
    ∧ evalApprovalSplit (replaceUnit [([1], 2), ([2], 1), ([1, 2], 1)] [2] (approve 1 [2])) = .ok [Slot.cand 1] := by
  decide +kernel

/-! ### score voting with sum aggregation -/

/-- **Score-sum, single ballot improvement**: on one ballot the score of the sole winner `w` is raised (an
    unscored `w`, which the sum treats as 0, gets a non-negative score). -/
theorem score_sum_monotone_raise (p : SProfile) (b : ScoreBallot) (w : Cand) (s : Rat) (hb : b ∈ dkeys p)
    (hok : ScoreBallotOK b) (hs : toFun b w ≤ s)
    (h : evalScoreSum p = [Slot.cand w]) :
    evalScoreSum (replaceUnit p b (raiseScore w s b)) = [Slot.cand w] := by
  rw [evalScoreSum_eq] at h ⊢
  apply additive_winner_monotone score_additive p b (raiseScore w s b) w hb (mem_dkeys_raiseScore w s b) ?_ h
  intro y hy
  rw [toFun_raiseScore w s b hok y, toFun_raiseScore w s b hok w, if_neg hy, if_pos rfl]
  linarith

/-- **Score-sum, new ballot**: a new ballot on which nobody is scored above `w` (an unscored candidate counts 0). -/
theorem score_sum_monotone_new (p : SProfile) (nb : ScoreBallot) (w : Cand)
    (hsub : ∀ c ∈ dkeys nb, ∃ b ∈ dkeys p, c ∈ dkeys b)
    (htop : ∀ y, toFun nb y ≤ toFun nb w)
    (h : evalScoreSum p = [Slot.cand w]) :
    evalScoreSum (addTo p nb 1) = [Slot.cand w] := by
  rw [evalScoreSum_eq] at h ⊢
  apply additive_winner_monotone_new score_additive p nb w ?_ htop h
  intro k hk; exact (score_additive.mem_keys p k).mpr (hsub k hk)

/-! ### score voting with sum aggregation and a numeric `unscored_value` (a ballot that does not score a candidate
    counts as `u` for it; `valU u b c` is what ballot `b` counts for `c`) -/

/-- **Score-sum with a fill-in value, single ballot improvement**: on one ballot the sole winner `w` gets a score at
    least as large as what the ballot counted for it before (its old score, or `u` when it was not scored). -/
theorem score_sum_unscored_monotone_raise (u : Rat) (p : SProfile) (b : ScoreBallot) (w : Cand) (s : Rat)
    (hp : ScoreProfileOK p) (hb : b ∈ dkeys p) (hs : valU u b w ≤ s)
    (h : evalScoreSumU u p = [Slot.cand w]) :
    evalScoreSumU u (replaceUnit p b (raiseScore w s b)) = [Slot.cand w] := by
  unfold evalScoreSumU at h ⊢
  have hok := hp b hb
  have hp' : ScoreProfileOK (replaceUnit p b (raiseScore w s b)) := by
    intro x hx
    rcases mem_dkeys_replaceUnit hx with hx | rfl
    · exact hp x hx
    · exact scoreBallotOK_raiseScore w s b hok
  have hn : (keys (scoreSumU u p)).Nodup := by rw [keys_scoreSumU]; exact nodup_scoreSum p
  have hn' : (keys (scoreSumU u (replaceUnit p b (raiseScore w s b)))).Nodup := by
    rw [keys_scoreSumU]; exact nodup_scoreSum _
  have hwd : w ∈ keys (scoreSum p) := by
    have := h; rw [sole_iff _ hn, soleMax_iff _ hn, keys_scoreSumU] at this; exact this.1
  have hsub : ∀ c ∈ keys (scoreSum (replaceUnit p b (raiseScore w s b))), c ∈ keys (scoreSum p) := by
    intro c hc
    rw [mem_keys_scoreSum] at hc ⊢
    obtain ⟨x, hx, hcx⟩ := hc
    rcases mem_dkeys_replaceUnit hx with hx | rfl
    · exact ⟨x, hx, hcx⟩
    · rcases (mem_dkeys_raiseScore w s b c).mp hcx with rfl | hcb
      · exact (mem_keys_scoreSum p c).mp hwd
      · exact ⟨b, hb, hcb⟩
  have hw' : w ∈ keys (scoreSum (replaceUnit p b (raiseScore w s b))) :=
    (mem_keys_scoreSum _ w).mpr ⟨_, new_mem_dkeys_replaceUnit p b _, (mem_dkeys_raiseScore w s b w).mpr (Or.inl rfl)⟩
  apply additive_sole _ _ hn hn' w ?_ ?_ ?_ h
  · intro c hc; rw [keys_scoreSumU] at hc ⊢; exact hsub c hc
  · rw [keys_scoreSumU]; exact hw'
  · intro c hc hcw
    rw [keys_scoreSumU] at hc
    rw [toFun_scoreSumU u _ hp' c hc, toFun_scoreSumU u p hp c (hsub c hc), toFun_scoreSumU u _ hp' w hw',
      toFun_scoreSumU u p hp w hwd, wsum_replaceUnit _ _ _ _ hb, wsum_replaceUnit _ _ _ _ hb,
      valU_raiseScore_other u w s b hok c hcw, valU_raiseScore_self u w s b hok]
    linarith

/-- **Score-sum with a fill-in value, new ballot**: a new ballot (over candidates of the election) that counts for
    nobody more than for `w`, unscored candidates counting `u`. -/
theorem score_sum_unscored_monotone_new (u : Rat) (p : SProfile) (nb : ScoreBallot) (w : Cand)
    (hp : ScoreProfileOK p) (hnb : ScoreBallotOK nb) (hsub : ∀ c ∈ dkeys nb, ∃ b ∈ dkeys p, c ∈ dkeys b)
    (htop : ∀ y, valU u nb y ≤ valU u nb w)
    (h : evalScoreSumU u p = [Slot.cand w]) :
    evalScoreSumU u (addTo p nb 1) = [Slot.cand w] := by
  unfold evalScoreSumU at h ⊢
  have hp' : ScoreProfileOK (addTo p nb 1) := by
    intro x hx
    rcases (mem_dkeys_addTo p nb 1 x).mp hx with hx | rfl
    · exact hp x hx
    · exact hnb
  have hn : (keys (scoreSumU u p)).Nodup := by rw [keys_scoreSumU]; exact nodup_scoreSum p
  have hn' : (keys (scoreSumU u (addTo p nb 1))).Nodup := by rw [keys_scoreSumU]; exact nodup_scoreSum _
  have hwd : w ∈ keys (scoreSum p) := by
    have := h; rw [sole_iff _ hn, soleMax_iff _ hn, keys_scoreSumU] at this; exact this.1
  have hsub' : ∀ c ∈ keys (scoreSum (addTo p nb 1)), c ∈ keys (scoreSum p) := by
    intro c hc
    rw [mem_keys_scoreSum] at hc ⊢
    obtain ⟨x, hx, hcx⟩ := hc
    rcases (mem_dkeys_addTo p nb 1 x).mp hx with hx | rfl
    · exact ⟨x, hx, hcx⟩
    · exact hsub c hcx
  have hw' : w ∈ keys (scoreSum (addTo p nb 1)) := by
    rw [mem_keys_scoreSum] at hwd ⊢
    obtain ⟨x, hx, hwx⟩ := hwd
    exact ⟨x, (mem_dkeys_addTo p nb 1 x).mpr (Or.inl hx), hwx⟩
  apply additive_sole _ _ hn hn' w ?_ ?_ ?_ h
  · intro c hc; rw [keys_scoreSumU] at hc ⊢; exact hsub' c hc
  · rw [keys_scoreSumU]; exact hw'
  · intro c hc _
    rw [keys_scoreSumU] at hc
    rw [toFun_scoreSumU u _ hp' c hc, toFun_scoreSumU u p hp c (hsub' c hc), toFun_scoreSumU u _ hp' w hw',
      toFun_scoreSumU u p hp w hwd, wsum_addTo, wsum_addTo]
    have := htop c
    linarith

/-! ### Bucklin (`PreferenceAddition()`; shared ranks counted in full, i.e. `split_equal_rankings=False`, which
    coincides with the default on profiles without shared ranks) -/

/-- **Bucklin, single ballot improvement.**  Non-negative weights, ballots without repeated candidates: if `w` is
    the sole winner and one unit of ballot `b` is replaced by `b` with `w` lifted, `w` is still the sole winner. -/
theorem bucklin_monotone_lift (p : RProfile) (w : Cand) (i : Nat) (b : Ballot)
    (hpos : ∀ bw ∈ p, 0 ≤ bw.2) (hb : b ∈ dkeys p) (hnd : (ballotCands b).Nodup) (hok : liftOK w i b = true)
    (h : evalBucklin p = .ok [Slot.cand w]) :
    evalBucklin (replaceUnit p b (lift w i b)) = .ok [Slot.cand w] := by
  rw [evalBucklin_eq p (ne_nil_of_mem_dkeys hb)] at h
  rw [evalBucklin_eq _ (show replaceUnit p b (lift w i b) ≠ [] from addTo_ne_nil _ _ _)]
  simp only [Except.ok.injEq] at h ⊢
  have hq : sumValues (replaceUnit p b (lift w i b)) = sumValues p := by
    rw [sumValues_eq_wsum, sumValues_eq_wsum, wsum_replaceUnit _ _ _ _ hb]; ring
  rw [hq]
  have hq0 : 0 ≤ sumValues p / 2 := by have := sumValues_nonneg p hpos; linarith
  have hT : ∀ j k, toFun (cum (replaceUnit p b (lift w i b)) j) k
      = toFun (cum p j) k - rankScore (indLe j) 0 b k + rankScore (indLe j) 0 (lift w i b) k := by
    intro j k; rw [toFun_cum, toFun_cum, wsum_replaceUnit _ _ _ _ hb]
  apply loopA_mono (cum p) _ _ _ w (nodup_cum p) (nodup_cum _) hq0 hq0 ?_ ?_ ?_ (maxLen p) _ 0 ?_ h
  · intro j y hy hlt
    have := (lift_cum j w i b hnd hok y hy).1
    rw [hT] at hlt; linarith
  · intro j hlt
    obtain ⟨y, hy⟩ : ∃ y : Cand, y ≠ w := ⟨w + 1, Nat.succ_ne_self w⟩
    have := (lift_cum j w i b hnd hok y hy).2
    rw [hT]; linarith
  · intro j y hy _ hlt
    have h1 := (lift_cum j w i b hnd hok y hy).1
    have h2 := (lift_cum j w i b hnd hok y hy).2
    rw [hT, hT]; linarith
  · apply maxLen_le
    intro x hx
    rcases mem_dkeys_replaceUnit_of_mem (b := b) (b' := lift w i b) hx with rfl | hx'
    · exact le_trans (length_le_lift hnd hok) (le_maxLen (new_mem_dkeys_replaceUnit p x _))
    · exact le_maxLen hx'

/-- **Bucklin, new ballot.**  A new bullet ballot for the sole winner `w` (the quota rises by one half, `w`'s totals
    by one) keeps `w` the sole winner. -/
theorem bucklin_monotone_bullet (p : RProfile) (w : Cand) (hpos : ∀ bw ∈ p, 0 ≤ bw.2) (hp : p ≠ [])
    (h : evalBucklin p = .ok [Slot.cand w]) :
    evalBucklin (addTo p [RankItem.one w] 1) = .ok [Slot.cand w] := by
  rw [evalBucklin_eq p hp] at h
  rw [evalBucklin_eq _ (addTo_ne_nil _ _ _)]
  simp only [Except.ok.injEq] at h ⊢
  have hq : sumValues (addTo p [RankItem.one w] 1) = sumValues p + 1 := by
    rw [sumValues_eq_wsum, sumValues_eq_wsum, wsum_addTo]; ring
  rw [hq]
  have hs0 := sumValues_nonneg p hpos
  have hT : ∀ j k, toFun (cum (addTo p [RankItem.one w] 1) j) k
      = toFun (cum p j) k + (if w = k then 1 else 0) := by
    intro j k
    rw [toFun_cum, toFun_cum, wsum_addTo]
    simp only [rankScore, RankItem.cands, indLe, Nat.zero_le, ↓reduceIte, one_mul, add_zero, cnt_cons, cnt_nil]
  apply loopA_mono (cum p) _ _ _ w (nodup_cum p) (nodup_cum _) (by linarith) (by linarith) ?_ ?_ ?_ (maxLen p) _ 0 ?_ h
  · intro j y hy hlt
    rw [hT, if_neg (fun h => hy h.symm)] at hlt; linarith
  · intro j hlt
    rw [hT, if_pos rfl]; linarith
  · intro j y hy _ hlt
    rw [hT, hT, if_neg (fun h => hy h.symm), if_pos rfl]; linarith
  · apply maxLen_le
    intro x hx
    exact le_maxLen ((mem_dkeys_addTo p _ 1 x).mpr (Or.inl hx))

/-- **Bucklin as shipped (`PreferenceAddition()`, shared ranks split), single ballot improvement**, for profiles
    without shared ranks (on which the splitting step is the identity; the lifted ballot has no shared rank either). -/
theorem bucklin_default_monotone_lift (p : RProfile) (w : Cand) (i : Nat) (b : Ballot) (hs : Strict p)
    (hpos : ∀ bw ∈ p, 0 ≤ bw.2) (hb : b ∈ dkeys p) (hnd : (ballotCands b).Nodup) (hok : liftOK w i b = true)
    (h : evalBucklinSplit p = .ok [Slot.cand w]) :
    evalBucklinSplit (replaceUnit p b (lift w i b)) = .ok [Slot.cand w] := by
  unfold evalBucklinSplit at h ⊢
  rw [decouple_of_strict p hs] at h
  rw [decouple_of_strict _ (strict_replaceUnit hs hb)]
  exact bucklin_monotone_lift p w i b hpos hb hnd hok h

/-- **Bucklin as shipped, new bullet ballot**, for profiles without shared ranks. -/
theorem bucklin_default_monotone_bullet (p : RProfile) (w : Cand) (hs : Strict p) (hpos : ∀ bw ∈ p, 0 ≤ bw.2) (hp : p ≠ [])
    (h : evalBucklinSplit p = .ok [Slot.cand w]) :
    evalBucklinSplit (addTo p [RankItem.one w] 1) = .ok [Slot.cand w] := by
  unfold evalBucklinSplit at h ⊢
  rw [decouple_of_strict p hs] at h
  rw [decouple_of_strict _ (strict_bullet w hs)]
  exact bucklin_monotone_bullet p w hpos hp h

/-! ### the Bucklin family: `PreferenceAddition(coefficients, …)` with any coefficient function that is never negative
    and never increases (`CoefOK`: Bucklin `[1]`, Oklahoma `1, 1/2, 1/3, …` as a callable or as a list, every
    non-increasing list — beyond its end the last entry is used, `coefOfList`) -/

/-- non-increasing, non-negative coefficient lists give admissible coefficient functions -/
theorem coef_list_ok (l : List Rat) (h : l.Pairwise (fun a b => b ≤ a)) (hnn : ∀ x ∈ l, 0 ≤ x) : CoefOK (coefOfList l) :=
  coefOfList_ok l h hnn

/-- **PreferenceAddition, single ballot improvement**, for every admissible coefficient function (shared ranks counted
    in full, `split_equal_rankings=False`). -/
theorem preference_addition_monotone_lift (coef : Nat → Rat) (hc : CoefOK coef) (p : RProfile) (w : Cand) (i : Nat) (b : Ballot)
    (hpos : ∀ bw ∈ p, 0 ≤ bw.2) (hb : b ∈ dkeys p) (hnd : (ballotCands b).Nodup) (hok : liftOK w i b = true)
    (h : evalPA coef p = .ok [Slot.cand w]) :
    evalPA coef (replaceUnit p b (lift w i b)) = .ok [Slot.cand w] := by
  rw [evalPA_eq coef p (ne_nil_of_mem_dkeys hb)] at h
  rw [evalPA_eq coef _ (show replaceUnit p b (lift w i b) ≠ [] from addTo_ne_nil _ _ _)]
  simp only [Except.ok.injEq] at h ⊢
  have hq : sumValues (replaceUnit p b (lift w i b)) = sumValues p := by
    rw [sumValues_eq_wsum, sumValues_eq_wsum, wsum_replaceUnit _ _ _ _ hb]; ring
  rw [hq]
  have hq0 : 0 ≤ sumValues p / 2 := by have := sumValues_nonneg p hpos; linarith
  have hT : ∀ j k, toFun (cumC coef (replaceUnit p b (lift w i b)) j) k
      = toFun (cumC coef p j) k - rankScore (coefLe coef j) 0 b k + rankScore (coefLe coef j) 0 (lift w i b) k := by
    intro j k; rw [toFun_cumC, toFun_cumC, wsum_replaceUnit _ _ _ _ hb]
  apply loopA_mono (cumC coef p) _ _ _ w (nodup_cumC coef p) (nodup_cumC coef _) hq0 hq0 ?_ ?_ ?_ (maxLen p) _ 0 ?_ h
  · intro j y hy hlt
    have := (lift_cumC hc j w i b hnd hok y hy).1
    rw [hT] at hlt; linarith
  · intro j hlt
    obtain ⟨y, hy⟩ : ∃ y : Cand, y ≠ w := ⟨w + 1, Nat.succ_ne_self w⟩
    have := (lift_cumC hc j w i b hnd hok y hy).2
    rw [hT]; linarith
  · intro j y hy _ hlt
    have h1 := (lift_cumC hc j w i b hnd hok y hy).1
    have h2 := (lift_cumC hc j w i b hnd hok y hy).2
    rw [hT, hT]; linarith
  · apply maxLen_le
    intro x hx
    rcases mem_dkeys_replaceUnit_of_mem (b := b) (b' := lift w i b) hx with rfl | hx'
    · exact le_trans (length_le_lift hnd hok) (le_maxLen (new_mem_dkeys_replaceUnit p x _))
    · exact le_maxLen hx'

/-- **PreferenceAddition, new bullet ballot**: the quota rises by one half, `w`'s totals by the first coefficient, which
    is at least one half (it is 1 in every documented system). -/
theorem preference_addition_monotone_bullet (coef : Nat → Rat) (h0 : 1 / 2 ≤ coef 0) (p : RProfile) (w : Cand)
    (hpos : ∀ bw ∈ p, 0 ≤ bw.2) (hp : p ≠ []) (h : evalPA coef p = .ok [Slot.cand w]) :
    evalPA coef (addTo p [RankItem.one w] 1) = .ok [Slot.cand w] := by
  rw [evalPA_eq coef p hp] at h
  rw [evalPA_eq coef _ (addTo_ne_nil _ _ _)]
  simp only [Except.ok.injEq] at h ⊢
  have hq : sumValues (addTo p [RankItem.one w] 1) = sumValues p + 1 := by
    rw [sumValues_eq_wsum, sumValues_eq_wsum, wsum_addTo]; ring
  rw [hq]
  have hs0 := sumValues_nonneg p hpos
  have hT : ∀ j k, toFun (cumC coef (addTo p [RankItem.one w] 1) j) k
      = toFun (cumC coef p j) k + (if w = k then coef 0 else 0) := by
    intro j k
    rw [toFun_cumC, toFun_cumC, wsum_addTo]
    simp only [rankScore, RankItem.cands, coefLe, Nat.zero_le, ↓reduceIte, one_mul, add_zero, cnt_cons, cnt_nil]
    split <;> ring
  apply loopA_mono (cumC coef p) _ _ _ w (nodup_cumC coef p) (nodup_cumC coef _) (by linarith) (by linarith) ?_ ?_ ?_
    (maxLen p) _ 0 ?_ h
  · intro j y hy hlt
    rw [hT, if_neg (fun h => hy h.symm)] at hlt; linarith
  · intro j hlt
    rw [hT, if_pos rfl]; linarith
  · intro j y hy _ hlt
    rw [hT, hT, if_neg (fun h => hy h.symm), if_pos rfl]; linarith
  · apply maxLen_le
    intro x hx
    exact le_maxLen ((mem_dkeys_addTo p _ 1 x).mpr (Or.inl hx))

/-- **PreferenceAddition as shipped (shared ranks split), single ballot improvement**, on profiles without shared ranks. -/
theorem preference_addition_default_monotone_lift (coef : Nat → Rat) (hc : CoefOK coef) (p : RProfile) (w : Cand) (i : Nat)
    (b : Ballot) (hs : Strict p) (hpos : ∀ bw ∈ p, 0 ≤ bw.2) (hb : b ∈ dkeys p) (hnd : (ballotCands b).Nodup)
    (hok : liftOK w i b = true) (h : evalPASplit coef p = .ok [Slot.cand w]) :
    evalPASplit coef (replaceUnit p b (lift w i b)) = .ok [Slot.cand w] := by
  unfold evalPASplit at h ⊢
  rw [decouple_of_strict p hs] at h
  rw [decouple_of_strict _ (strict_replaceUnit hs hb)]
  exact preference_addition_monotone_lift coef hc p w i b hpos hb hnd hok h

/-! ### Copeland and minimax, on the level of the pairwise matrix

  `Raised v v' w`: compared with `v`, in `v'` only the entries `d(w, ·)` rise and `d(·, w)` fall (what moving `w`
  upwards on ballots, or a bullet ballot for `w`, does to the matrix).  `WF` = a dict of non-negative counts without
  self-pairs; no candidate is new in `v'`. -/

open VL.Condorcet in
/-- **Copeland.**  If `w` is the strict Copeland maximum of `v` (the first-order one-seat result is `[w]`), then for
    every `Raised` matrix `v'` over the same candidates the Copeland result — with or without second-order
    tie-breaking — is `[w]`. -/
theorem copeland_monotone (v v' : Pairwise) (w : Cand) (secondOrder : Bool) (hwf : Condorcet.WF v) (hwf' : Condorcet.WF v')
    (hr : Raised v v' w) (hc : ∀ c ∈ candidates v', c ∈ candidates v) (hw : w ∈ candidates v')
    (h : copeland false v 1 = [Slot.cand w]) : copeland secondOrder v' 1 = [Slot.cand w] := by
  have h0 : getNBest (seededScores v (copelandScoresRaw (pairwiseWins v false))) 1 = [Slot.cand w] := by
    unfold copeland at h; simpa using h
  apply copeland_no_tie
  obtain ⟨h1, h2⟩ := cscore_mono hwf hwf' hr
  apply additive_sole _ _ (by rw [keys_seeded]; exact nodup_candidates v) (by rw [keys_seeded]; exact nodup_candidates v') w
    ?_ ?_ ?_ h0
  · intro c hcc; rw [keys_seeded] at hcc ⊢; exact hc c hcc
  · rw [keys_seeded]; exact hw
  · intro c hcc hcw
    rw [keys_seeded] at hcc
    rw [toFun_seeded v' c hcc, toFun_seeded v c (hc c hcc), toFun_seeded v' w hw, toFun_seeded v w (hc w hw)]
    have := h1 c hcw
    linarith

open VL.Condorcet in
/-- **Minimax** (winning votes, margins, pairwise opposition; every ordered pair of candidates is scored, an unranked
    pair counting zero against zero).  If `w`'s worst pairwise defeat in `v` is strictly smaller than everybody
    else's (the one-seat result is `[w]`), the same holds in every `Raised` matrix `v'` over the same candidates. -/
theorem minimax_monotone (sc : Condorcet.Scorer) (v v' : Pairwise) (w : Cand) (hwf : Condorcet.WF v) (hwf' : Condorcet.WF v')
    (hr : Raised v v' w) (hc : ∀ c, c ∈ candidates v' ↔ c ∈ candidates v)
    (h : minimax sc v 1 = [Slot.cand w]) : minimax sc v' 1 = [Slot.cand w] := by
  rw [minimax_eq_worst sc v hwf] at h
  rw [minimax_eq_worst sc v' hwf']
  have hn : (keys ((candidates v).map (fun c => (c, -(worstDefeat sc v c))))).Nodup := by
    rw [keys_worstTable]; exact nodup_candidates v
  have hn' : (keys ((candidates v').map (fun c => (c, -(worstDefeat sc v' c))))).Nodup := by
    rw [keys_worstTable]; exact nodup_candidates v'
  have hw : w ∈ candidates v := by
    have := h
    rw [sole_iff _ hn, soleMax_iff _ hn, keys_worstTable] at this
    exact this.1
  apply additive_sole _ _ hn hn' w ?_ ?_ ?_ h
  · intro c hcc; rw [keys_worstTable] at hcc ⊢; exact (hc c).mp hcc
  · rw [keys_worstTable]; exact (hc w).mpr hw
  · intro c hcc hcw
    rw [keys_worstTable] at hcc
    have hcv := (hc c).mp hcc
    rw [toFun_map_fn _ (nodup_candidates v') _ c hcc, toFun_map_fn _ (nodup_candidates v) _ c hcv,
      toFun_map_fn _ (nodup_candidates v') _ w ((hc w).mpr hw), toFun_map_fn _ (nodup_candidates v) _ w hw]
    have h1 := worstDefeat_w_le sc hwf hwf' hr hc hw
    have h2 := worstDefeat_y_ge sc hwf hwf' hr hc hcv hcw
    linarith

/-! ### Copeland and minimax, on the level of the ballots

  `ProfileOK p`: ballots without repeated candidates, positive weights, and every candidate occurs in some counted
  pair (false only for the degenerate profiles whose every ballot puts all candidates into one shared rank, on which
  these evaluators return `[]`).  "One unit of weight": the changed ballot has weight at least 1. -/

/-- **Copeland, single ballot improvement.**  If `w` is the strict Copeland maximum and one unit of ballot `b` is
    replaced by `b` with `w` lifted, the Copeland result (with or without second-order tie-breaking) is `[w]`. -/
theorem copeland_monotone_lift (p : RProfile) (w : Cand) (i : Nat) (b : Ballot) (secondOrder : Bool)
    (hp : ProfileOK p) (hb : b ∈ dkeys p) (hunit : ∀ bw ∈ p, bw.1 = b → 1 ≤ bw.2) (hok : liftOK w i b = true)
    (h : evalCopeland false p = [Slot.cand w]) :
    evalCopeland secondOrder (replaceUnit p b (lift w i b)) = [Slot.cand w] := by
  have hw := mem_candidates_of_copeland h
  have f := matrixFacts_lift p w i b hp hb hunit hok hw
  exact copeland_monotone _ _ w secondOrder f.wf f.wf' f.raised f.cands (mem_candidates_lift p w i b hp hb hok hw) h

/-- **Copeland, new ballot**: a bullet ballot for the strict Copeland maximum `w`. -/
theorem copeland_monotone_bullet (p : RProfile) (w : Cand) (secondOrder : Bool) (hp : ProfileOK p)
    (h : evalCopeland false p = [Slot.cand w]) :
    evalCopeland secondOrder (addTo p [RankItem.one w] 1) = [Slot.cand w] := by
  have hw := mem_candidates_of_copeland h
  have f := matrixFacts_bullet p w hp hw
  exact copeland_monotone _ _ w secondOrder f.wf f.wf' f.raised f.cands (mem_candidates_bullet p w hp hw) h

/-- **Minimax (winning votes / margins / pairwise opposition), single ballot improvement.** -/
theorem minimax_monotone_lift (sc : Condorcet.Scorer) (p : RProfile) (w : Cand) (i : Nat) (b : Ballot)
    (hp : ProfileOK p) (hb : b ∈ dkeys p) (hunit : ∀ bw ∈ p, bw.1 = b → 1 ≤ bw.2) (hok : liftOK w i b = true)
    (h : evalMinimax sc p = [Slot.cand w]) :
    evalMinimax sc (replaceUnit p b (lift w i b)) = [Slot.cand w] := by
  have hw := mem_candidates_of_minimax hp h
  have f := matrixFacts_lift p w i b hp hb hunit hok hw
  exact minimax_monotone sc _ _ w f.wf f.wf' f.raised
    (fun c => ⟨f.cands c, candidates_lift_superset p w i b hp hb hok hw c⟩) h

/-- **Minimax, new ballot**: a bullet ballot for the sole winner `w`. -/
theorem minimax_monotone_bullet (sc : Condorcet.Scorer) (p : RProfile) (w : Cand) (hp : ProfileOK p)
    (h : evalMinimax sc p = [Slot.cand w]) :
    evalMinimax sc (addTo p [RankItem.one w] 1) = [Slot.cand w] := by
  have hw := mem_candidates_of_minimax hp h
  have f := matrixFacts_bullet p w hp hw
  exact minimax_monotone sc _ _ w f.wf f.wf' f.raised
    (fun c => ⟨f.cands c, candidates_bullet_superset p w (candidates_sub_arc p w hw) c⟩) h

/-! ### Schulze

  `BeatsAll v w`: `w` is a candidate and wins the strongest-path comparison against every other candidate
  (`P[w,x] > P[x,w]`, `P = widest_paths(v)`) — the "strict beat-path win over everybody" of the reading; it makes `w`
  the sole Schulze winner (`schulze_of_beatsAll`). -/

open VL.Condorcet in
/-- **Schulze, matrix level.**  If `w` beats everybody on strongest paths in `v`, then in every `Raised` matrix `v'` over
    the same candidates it still does, and the Schulze result is `[w]` (in `v` and in `v'`). -/
theorem schulze_monotone (v v' : Pairwise) (w : Cand) (hwf : Condorcet.WF v) (hwf' : Condorcet.WF v')
    (hr : Raised v v' w) (hc : ∀ c, c ∈ candidates v' ↔ c ∈ candidates v) (hb : BeatsAll v w) :
    schulze v 1 = [Slot.cand w] ∧ BeatsAll v' w ∧ schulze v' 1 = [Slot.cand w] :=
  ⟨schulze_of_beatsAll hwf hb, beatsAll_raised hwf hwf' hr hc hb,
    schulze_of_beatsAll hwf' (beatsAll_raised hwf hwf' hr hc hb)⟩

/-- **Schulze, single ballot improvement.** -/
theorem schulze_monotone_lift (p : RProfile) (w : Cand) (i : Nat) (b : Ballot)
    (hp : ProfileOK p) (hb : b ∈ dkeys p) (hunit : ∀ bw ∈ p, bw.1 = b → 1 ≤ bw.2) (hok : liftOK w i b = true)
    (h : BeatsAll (pairwiseOf p) w) :
    evalSchulze (replaceUnit p b (lift w i b)) = [Slot.cand w] := by
  have f := matrixFacts_lift p w i b hp hb hunit hok h.1
  exact (schulze_monotone _ _ w f.wf f.wf' f.raised
    (fun c => ⟨f.cands c, candidates_lift_superset p w i b hp hb hok h.1 c⟩) h).2.2

/-- **Schulze, new ballot**: a bullet ballot for `w`. -/
theorem schulze_monotone_bullet (p : RProfile) (w : Cand) (hp : ProfileOK p) (h : BeatsAll (pairwiseOf p) w) :
    evalSchulze (addTo p [RankItem.one w] 1) = [Slot.cand w] := by
  have f := matrixFacts_bullet p w hp h.1
  exact (schulze_monotone _ _ w f.wf f.wf' f.raised
    (fun c => ⟨f.cands c, candidates_bullet_superset p w (candidates_sub_arc p w h.1) c⟩) h).2.2

/-! ### the wider reading of "adding a new ballot that ranks the winner first": `w` first, other candidates below it

  For the additive rules this is `positional_monotone_new` etc. above.  For Bucklin, Copeland, minimax and Schulze the
  bullet ballot is proved harmless (`…_monotone_bullet`); a new ballot `w > a > b …` is harmless under minimax with
  margins or pairwise opposition (`minimax_monotone_new_full`), and it can cost `w` the seat under Bucklin, Copeland,
  minimax with winning votes and Schulze — as a property of these voting rules themselves, shown by the
  `…_new_full_witness` theorems on the models (the same inputs are open known findings on the implementation). -/

open VL.Condorcet in
/-- **Minimax with margins or pairwise opposition, matrix level**: a new ballot with `w` first (`Added`). -/
theorem minimax_monotone_added (sc : Condorcet.Scorer) (hs : sc ≠ .winningVotes) (v v' : Pairwise) (w : Cand)
    (hwf : Condorcet.WF v) (hwf' : Condorcet.WF v') (ha : Added v v' w) (hc : ∀ c, c ∈ candidates v' ↔ c ∈ candidates v)
    (h : minimax sc v 1 = [Slot.cand w]) : minimax sc v' 1 = [Slot.cand w] := by
  cases sc with
  | winningVotes => exact absurd rfl hs
  | margins => exact minimax_added (δ := 1) rfl v v' w hwf hwf' ha hc h
  | pairwiseOpposition => exact minimax_added (δ := 0) rfl v v' w hwf hwf' ha hc h

/-- **Minimax with margins or pairwise opposition, new ballot `w > …`**: any new ballot with `w` alone at the top and
    any other candidates of the election below it (strict or shared ranks) keeps `w` the sole winner. -/
theorem minimax_monotone_new_full (sc : Condorcet.Scorer) (hs : sc ≠ .winningVotes) (p : RProfile) (w : Cand) (rest : Ballot)
    (hp : ProfileOK p) (hnb : (ballotCands (RankItem.one w :: rest)).Nodup)
    (hsub : ∀ c ∈ ballotCands (RankItem.one w :: rest), c ∈ allRankedCandidates p)
    (h : evalMinimax sc p = [Slot.cand w]) :
    evalMinimax sc (addTo p (RankItem.one w :: rest) 1) = [Slot.cand w] :=
  minimax_monotone_added sc hs _ _ w (wf_pairwiseOf p hp).1 (wf_added p _ hp hnb)
    (added_new_full p w rest hp.nodup hnb hsub) (candidates_added_iff p _ hp hsub) h

/-- Bucklin (`split_equal_rankings=False`): ballots (0,2), (3,1,2) elect 2 in the second round; the new ballot (2,0)
    lets 0 reach the raised quota together with 2 -/
theorem bucklin_new_full_witness :
    ¬ ∀ (p : RProfile) (w : Cand) (rest : Ballot), (∀ bw ∈ p, 0 ≤ bw.2) → p ≠ [] → BallotOK (RankItem.one w :: rest) →
      (∀ c ∈ ballotCands rest, c ∈ allRankedCandidates p) → evalBucklin p = .ok [Slot.cand w] →
      evalBucklin (addTo p (RankItem.one w :: rest) 1) = .ok [Slot.cand w] := by
  intro h
  have := h [([.one 0, .one 2], 1), ([.one 3, .one 1, .one 2], 1)] 2 [.one 0]
    (by decide +kernel) (by decide) (by decide +kernel) (by decide +kernel) (by decide +kernel)
  revert this; decide +kernel

/-- Bucklin as shipped (`PreferenceAddition()`): ballots (2,0,1), (3,1) elect 1; the new ballot (1,2) makes it a tie -/
theorem bucklin_default_new_full_witness :
    ¬ ∀ (p : RProfile) (w : Cand) (rest : Ballot), Strict p → (∀ bw ∈ p, 0 ≤ bw.2) → p ≠ [] →
      BallotOK (RankItem.one w :: rest) → (∀ c ∈ ballotCands rest, c ∈ allRankedCandidates p) →
      evalBucklinSplit p = .ok [Slot.cand w] →
      evalBucklinSplit (addTo p (RankItem.one w :: rest) 1) = .ok [Slot.cand w] := by
  intro h
  have := h [([.one 2, .one 0, .one 1], 1), ([.one 3, .one 1], 1)] 1 [.one 2]
    (by decide +kernel) (by decide +kernel) (by decide) (by decide +kernel) (by decide +kernel) (by decide +kernel)
  revert this; decide +kernel

/-- the Copeland witness: a 3-cycle 2 > 4 > 3 > 0 > 1 > 2 … with a bullet ballot for 1 -/
def exCopelandNF : RProfile :=
  [([.one 4, .one 3, .one 0, .one 1, .one 2], 1), ([.one 1, .one 2, .one 4, .one 3, .one 0], 1),
   ([.one 2, .one 4, .one 3, .one 0, .one 1], 1), ([.one 1], 1)]

/-- Copeland (first and second order): 2 is the strict Copeland maximum; the new ballot (2,4,1,3,0) turns pairwise
    ties of 1 and 4 into wins -/
theorem copeland_new_full_witness :
    ¬ ∀ (p : RProfile) (w : Cand) (rest : Ballot) (secondOrder : Bool), ProfileOK p → BallotOK (RankItem.one w :: rest) →
      (∀ c ∈ ballotCands rest, c ∈ allRankedCandidates p) → evalCopeland false p = [Slot.cand w] →
      evalCopeland secondOrder (addTo p (RankItem.one w :: rest) 1) = [Slot.cand w] := by
  intro h
  have := h exCopelandNF 2 [.one 4, .one 1, .one 3, .one 0] true
    ⟨by decide +kernel, by decide +kernel, by decide +kernel⟩ (by decide +kernel) (by decide +kernel) (by decide +kernel)
  revert this; decide +kernel

/-- minimax with winning votes: ballots 2×(1,2), 2×(0), (2,0): worst defeats 0:3, 1:3, 2:2; the new ballot (2,1) turns
    both 1 ≻ 2 (2:1) and 0 ≻ 1 (3:2) into pairwise ties, which count 0 -/
theorem minimax_wv_new_full_witness :
    ¬ ∀ (p : RProfile) (w : Cand) (rest : Ballot), ProfileOK p → BallotOK (RankItem.one w :: rest) →
      (∀ c ∈ ballotCands rest, c ∈ allRankedCandidates p) → evalMinimax .winningVotes p = [Slot.cand w] →
      evalMinimax .winningVotes (addTo p (RankItem.one w :: rest) 1) = [Slot.cand w] := by
  intro h
  have := h [([.one 1, .one 2], 2), ([.one 0], 2), ([.one 2, .one 0], 1)] 2 [.one 1]
    ⟨by decide +kernel, by decide +kernel, by decide +kernel⟩ (by decide +kernel) (by decide +kernel) (by decide +kernel)
  revert this; decide +kernel

/-- Schulze: ballots 2×(2), (1,2), 2×(0,3,1,2): 1 beats everybody on strongest paths; the new ballot (1,0,3)
    strengthens 0's path so that 0 and 1 tie on path wins -/
theorem schulze_new_full_witness :
    ¬ ∀ (p : RProfile) (w : Cand) (rest : Ballot), ProfileOK p → BallotOK (RankItem.one w :: rest) →
      (∀ c ∈ ballotCands rest, c ∈ allRankedCandidates p) → BeatsAll (pairwiseOf p) w →
      evalSchulze (addTo p (RankItem.one w :: rest) 1) = [Slot.cand w] := by
  intro h
  have := h [([.one 2], 2), ([.one 1, .one 2], 1), ([.one 0, .one 3, .one 1, .one 2], 2)] 1 [.one 0, .one 3]
    ⟨by decide +kernel, by decide +kernel, by decide +kernel⟩ (by decide +kernel) (by decide +kernel) (by decide +kernel)
  revert this; decide +kernel

/-! ### the move "`w` joins the rank directly above it" (`joinAbove`: a tie with the former superior)

  The move is generated for every ranked rule and checked by the correspondence and the oracle.  It is harmless on the
  implementation for every positional rule with a convex score sequence, for Copeland, minimax and Schulze, and for
  `PreferenceAddition` with the default splitting of shared ranks (no theorem yet: listed as unproved).  With UNSPLIT shared
  ranks (`split_equal_rankings=False`) the ballot becomes one place shorter, every candidate below `w` is counted one round
  earlier, and the rule itself lets `w` lose: -/

/-- Bucklin with unsplit shared ranks: ballots (1,2), (0,2,1) elect 2 in the second round; after (0,2,1) → ({0,2},1)
    candidate 1 is counted in the second round too and ties with 2 -/
theorem bucklin_whole_join_witness :
    ¬ ∀ (p : RProfile) (w : Cand) (b : Ballot), (∀ bw ∈ p, 0 ≤ bw.2) → b ∈ dkeys p → (ballotCands b).Nodup →
      evalBucklin p = .ok [Slot.cand w] → evalBucklin (replaceUnit p b (joinAbove w b)) = .ok [Slot.cand w] := by
  intro h
  have := h [([.one 1, .one 2], 1), ([.one 0, .one 2, .one 1], 1)] 2 [.one 0, .one 2, .one 1]
    (by decide +kernel) (by decide +kernel) (by decide +kernel) (by decide +kernel)
  revert this; decide +kernel

/-- the same with the coefficient list [1, 3/4, 1/2, 1/4]: ballots (1,2,0), (0,2) elect 2; after (1,2,0) → ({1,2},0) -/
theorem preference_addition_whole_join_witness :
    ¬ ∀ (coef : Nat → Rat) (p : RProfile) (w : Cand) (b : Ballot), CoefOK coef → (∀ bw ∈ p, 0 ≤ bw.2) → b ∈ dkeys p →
      (ballotCands b).Nodup → evalPA coef p = .ok [Slot.cand w] →
      evalPA coef (replaceUnit p b (joinAbove w b)) = .ok [Slot.cand w] := by
  intro h
  have := h (coefOfList [1, 3 / 4, 1 / 2, 1 / 4]) [([.one 1, .one 2, .one 0], 1), ([.one 0, .one 2], 1)] 2 [.one 1, .one 2, .one 0]
    (coef_list_ok _ (by decide +kernel) (by decide +kernel)) (by decide +kernel) (by decide +kernel) (by decide +kernel)
    (by decide +kernel)
  revert this; decide +kernel

-- with the default splitting the same move is harmless on this input: the split ballots keep three places
example : evalBucklinSplit [([.one 1, .one 2], 1), ([.one 0, .one 2, .one 1], 1)] = .ok [Slot.cand 2] ∧
    joinAbove 2 [.one 0, .one 2, .one 1] = [.shared [0, 2], .one 1] ∧
    evalBucklinSplit (replaceUnit [([.one 1, .one 2], 1), ([.one 0, .one 2, .one 1], 1)] [.one 0, .one 2, .one 1]
      (joinAbove 2 [.one 0, .one 2, .one 1])) = .ok [Slot.cand 2] := by decide +kernel

/-! ## non-vacuity: concrete inputs that meet the hypotheses of the conditional theorems -/

section examples
open VL.Condorcet

/-- three candidates, truncated ballots, a shared rank -/
def exProfile : RProfile :=
  [([.one 0, .one 1, .one 2], 4), ([.one 1, .one 0, .one 2], 2), ([.one 2, .one 0, .one 1], 1),
   ([.one 1, .shared [0, 2]], 1), ([.one 2, .one 1], 1)]

example : ∀ x ∈ dkeys exProfile, BallotOK x := by decide +kernel
example : ScorerOK (.borda 1) ∧ ScorerOK .dowdall ∧ ScorerOK (.geometric 2) ∧ ScorerOK .modifiedBorda ∧
    ScorerOK (.fixedTop 2) := by simp [ScorerOK]
example : ScorerOK (.sequence [10, 4, 4, 1]) := by unfold ScorerOK SeqOK; decide +kernel
example : evalPositional .dowdall exProfile = .ok [Slot.cand 0] := by decide +kernel
example : evalPositional .modifiedBorda exProfile = .ok [Slot.cand 0] := by decide +kernel
-- the shared-rank ballot (1, {0,2}): lifting 0 to the top gives (0, 1, 2), one place more
example : liftOK 0 0 [.one 1, .shared [0, 2]] = true ∧ lift 0 0 [.one 1, .shared [0, 2]] = [.one 0, .one 1, .one 2] := by
  decide +kernel
example : evalPositional .modifiedBorda (replaceUnit exProfile [.one 1, .shared [0, 2]] (lift 0 0 [.one 1, .shared [0, 2]]))
    = .ok [Slot.cand 0] := by decide +kernel
-- the truncated ballot (2, 1): ranking the unranked winner
example : liftOK 0 1 [.one 2, .one 1] = true ∧ lift 0 1 [.one 2, .one 1] = [.one 2, .one 0, .one 1] := by decide +kernel

/-- Oklahoma coefficients as a list shorter than the ballots: beyond its end the last entry 1/3 is used -/
example : CoefOK (coefOfList [1, 1 / 2, 1 / 3]) ∧ coefOfList [1, 1 / 2, 1 / 3] 4 = 1 / 3 := by
  refine ⟨coef_list_ok _ (by decide +kernel) (by decide +kernel), by decide +kernel⟩
example : evalPA (coefOfList [1, 1 / 2, 1 / 3])
    [([.one 0, .one 1, .one 2], 4), ([.one 3, .one 2, .one 1, .one 4, .one 0], 4), ([.one 2, .one 4, .one 3, .one 0], 1)]
    = .ok [Slot.cand 0] := by decide +kernel

/-- Bucklin: decided in the second round -/
def exBucklin : RProfile := [([.one 1, .one 0], 2), ([.one 2, .one 0], 2), ([.one 0, .one 1], 1)]
example : evalBucklin exBucklin = .ok [Slot.cand 0] ∧ (∀ bw ∈ exBucklin, 0 ≤ bw.2) ∧ Strict exBucklin ∧
    evalBucklinSplit exBucklin = .ok [Slot.cand 0] := by decide +kernel
example : evalBucklin (addTo exBucklin [.one 0] 1) = .ok [Slot.cand 0] := by decide +kernel

def exApproval : AProfile := [([0, 1], 2), ([1, 2], 1), ([0], 2), ([2], 1)]
example : evalApproval exApproval = .ok [Slot.cand 0] ∧ (0 : Cand) ∉ ([1, 2] : Approval) := by decide +kernel

def exScore : SProfile := [([(0, 3), (1, 1)], 2), ([(1, 3), (2, 2)], 1)]
example : evalScoreSum exScore = [Slot.cand 0] ∧ ScoreBallotOK [(1, 3), (2, 2)] := by
  unfold ScoreBallotOK; decide +kernel

example : evalPlurality [(0, 5), (1, 3), (2, 4)] = [Slot.cand 0] := by decide +kernel

/-- unscored_value = 5: W = 0 has 9 + 4 + 4 + 5 = 22, X = 1 has 7 + 6 + 3 + 4 = 20; the second voter raises W from 4 to
    exactly the fill-in value 5 -/
def exUnscored : SProfile := [([(0, 9), (1, 7)], 1), ([(0, 4), (1, 6)], 1), ([(0, 4), (1, 3)], 1), ([(1, 4)], 1)]
example : evalScoreSumU 5 exUnscored = [Slot.cand 0] ∧ scoreSumU 5 exUnscored = [(0, 22), (1, 20)] := by decide +kernel
example : ScoreProfileOK exUnscored := by unfold ScoreProfileOK ScoreBallotOK; decide +kernel
example : valU 5 [(0, 4), (1, 6)] 0 ≤ 5 ∧
    scoreSumU 5 (replaceUnit exUnscored [(0, 4), (1, 6)] (raiseScore 0 5 [(0, 4), (1, 6)])) = [(0, 23), (1, 20)] := by
  decide +kernel

/-- the pairwise matrix of the witness of fix 20ca103 and of its perturbation (c = 0 lifted to the top of (a,d,b,c)) -/
def exBase : RProfile :=
  [([.one 0, .one 1], 3), ([.one 2, .one 3, .one 1, .one 0], 1), ([.one 0, .one 1, .one 2, .one 3], 1), ([.one 0], 2)]
def exPert : RProfile := replaceUnit exBase [.one 2, .one 3, .one 1, .one 0] (lift 0 0 [.one 2, .one 3, .one 1, .one 0])

example : Condorcet.WF (pairwiseOf exBase) ∧ Condorcet.WF (pairwiseOf exPert) ∧ Positive (pairwiseOf exBase) ∧
    Positive (pairwiseOf exPert) := by decide +kernel
example : minimax .winningVotes (pairwiseOf exBase) 1 = [Slot.cand 0] ∧ copeland false (pairwiseOf exBase) 1 = [Slot.cand 0] := by
  decide +kernel
example : minimax .winningVotes (pairwiseOf exPert) 1 = [Slot.cand 0] := by decide +kernel
example : ProfileOK exBase := ⟨by decide +kernel, by decide +kernel, by decide +kernel⟩
example : BeatsAll (pairwiseOf exBase) 0 ∧ evalSchulze exBase = [Slot.cand 0] := by decide +kernel
-- a new full ballot 0 > 2 > 1 under minimax with margins
example : evalMinimax .margins exBase = [Slot.cand 0] ∧ (ballotCands [RankItem.one 0, .one 2, .one 1]).Nodup ∧
    evalMinimax .margins (addTo exBase [.one 0, .one 2, .one 1] 1) = [Slot.cand 0] := by decide +kernel
example : evalMinimax .winningVotes exBase = [Slot.cand 0] ∧ evalCopeland false exBase = [Slot.cand 0] ∧
    liftOK 0 0 [.one 2, .one 3, .one 1, .one 0] = true := by decide +kernel
example : (candidates (pairwiseOf exPert)).all (fun c => (candidates (pairwiseOf exBase)).contains c) = true := by
  decide +kernel
-- `Raised` on this pair, checked entry by entry over the four candidates
example : ([0, 1, 2, 3] : List Cand).all (fun y =>
    decide (pget (pairwiseOf exBase) (0, y) ≤ pget (pairwiseOf exPert) (0, y)) &&
    decide (pget (pairwiseOf exPert) (y, 0) ≤ pget (pairwiseOf exBase) (y, 0)) &&
    ([1, 2, 3] : List Cand).all (fun x => y = 0 || decide (pget (pairwiseOf exPert) (x, y) = pget (pairwiseOf exBase) (x, y)))) = true := by
  decide +kernel

/-- vote monotonicity: party 2 goes from 1 to 4 votes -/
example : MoreVotes exCfg exCfg' 2 := by
  refine ⟨rfl, rfl, rfl, rfl, rfl, ?_, ?_⟩
  · decide +kernel
  · intro e he
    have h2 : ¬ (2 : Cand) = e := fun h' => he h'.symm
    simp only [HACfg.vote, exCfg', exCfg, getD, Condorcet.lookup_cons, h2, if_false]

end examples

end VL.C17
