/-
  C17 — Monotone rules stay monotone: more support or more seats never hurts.
  Property theorems only.  Models: VotelibModel/HighestAverages.lean (divisor rules) and VotelibModel/Mono.lean
  (one-seat winner rules and the moves).  Helper lemmas: VotelibProofs/Lemmas/HAMono.lean, Mono*.lean.

  Reading (DESIGN 7/C17).  Divisor rules: no tie-freeness; `haSeats cfg c` are the seats awarded to `c`
  individually, seats inside an unresolved `Tie` are counted for nobody.
-/
import VotelibProofs.Lemmas.HAMono
import VotelibProofs.Props.C01
namespace VL.C17
open VL HACfg Gen.Divisor

/-! ## divisor rules -/

/-- the five built-in divisor functions of `component/divisor.py` -/
def builtinDivisors : List (Nat → Rat) := [d_hondt, sainte_lague, imperiali, danish, macau]

theorem builtin_ok {d : Nat → Rat} (h : d ∈ builtinDivisors) : (∀ k, 0 < d k) ∧ StrictMono d := by
  simp only [builtinDivisors, List.mem_cons, List.not_mem_nil, or_false] at h
  rcases h with rfl | rfl | rfl | rfl | rfl
  exacts [C01.d_hondt_ok, C01.sainte_lague_ok, C01.imperiali_ok, C01.danish_ok, C01.macau_ok]

/-- input well-formedness of `HighestAverages.evaluate`: non-negative votes, a dict (distinct keys) -/
def VotesOK (cfg : HACfg) : Prop := (∀ p ∈ cfg.votes, 0 ≤ p.2) ∧ (keys cfg.votes).Nodup

instance (cfg : HACfg) : Decidable (VotesOK cfg) := by unfold VotesOK; infer_instance

/-- **House monotonicity.**  Under every built-in divisor rule — for all vote vectors, previous gains and caps,
    tie or no tie — adding a seat to the house never costs any party an individually awarded seat. -/
theorem ha_house_monotone (cfg : HACfg) (hd : cfg.div ∈ builtinDivisors) (hv : VotesOK cfg) (c : Cand) :
    haSeats cfg c ≤ haSeats cfg.succHouse c :=
  haSeats_succHouse cfg (C01.cfgOK_of_divisor cfg (builtin_ok hd) hv.1 hv.2) c

/-- the same for every positive, non-decreasing divisor sequence (covers `modified_first_coef` wrappers) -/
theorem ha_house_monotone_general (cfg : HACfg) (h : CfgOK cfg) (c : Cand) :
    haSeats cfg c ≤ haSeats cfg.succHouse c := haSeats_succHouse cfg h c

/-- **Vote monotonicity, tie-free form.**  Giving one party more votes while the others keep theirs never lowers
    its individually awarded seats, provided the election with more votes reports no tie.
    Full statement (no premise on ties): `ha_vote_monotone`, listed as unproved. -/
theorem ha_vote_monotone_partial (cfg cfg' : HACfg) (c : Cand) (hd : cfg.div ∈ builtinDivisors)
    (hv : VotesOK cfg) (hv' : VotesOK cfg') (hm : MoreVotes cfg cfg' c)
    (hcaps : ∀ e, cfg.prevOf e ≤ cfg.capOf e) (hnotie : (haRun cfg').tie = none) :
    haSeats cfg c ≤ haSeats cfg' c :=
  haSeats_more_votes cfg cfg' c (C01.cfgOK_of_divisor cfg (builtin_ok hd) hv.1 hv.2)
    (C01.cfgOK_of_divisor cfg' (by rw [hm.div]; exact builtin_ok hd) hv'.1 hv'.2) hm hcaps hnotie

/-! ### non-vacuity -/

def exCfg : HACfg :=
  { div := sainte_lague, votes := [(0, 10), (1, 6), (2, 1)], n := 4, prev := [(1, 1)], caps := [(0, 2)] }
def exCfg' : HACfg := { exCfg with votes := [(0, 10), (1, 6), (2, 4)] }

example : exCfg.div ∈ builtinDivisors := by simp [builtinDivisors, exCfg]
example : VotesOK exCfg := by decide +kernel
example : (haRun exCfg').tie = none ∧ haSeats exCfg 2 = 0 ∧ haSeats exCfg' 2 = 1 := by decide +kernel
example : haSeats exCfg 1 = 1 ∧ haSeats exCfg.succHouse 1 = 2 := by decide +kernel

end VL.C17
