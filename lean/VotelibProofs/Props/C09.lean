/-
  C09 — Plurality ranks by exact votes and reports boundary ties as ties.
  Property theorems only (helper lemmas live in VotelibProofs/Lemmas).  Namespace VL.C09.

  Reading: `votes` is a Python dict candidate -> exact number (Rat covers int/Fraction/Decimal),
  `n ≥ 1`.  `IsNth votes n t` is the order-free definition of "the n-th highest total".
-/
import VotelibProofs.Lemmas.NBest
import VotelibProofs.Lemmas.SortAsc
import VotelibModel.Simple
namespace VL.C09
open VL

/-- well-formed dict: keys are distinct -/
def WF (votes : Votes) : Prop := (keys votes).Nodup

private theorem split_cases (votes : Votes) (n : Nat) (h1 : 1 ≤ n) (hlen : n < votes.length)
    (t : Rat) (ht : IsNth votes n t) :
    let s := sortDesc votes
    ∃ (hn1 : n - 1 < s.length) (hn : n < s.length), (s[n-1]).2 = t ∧
      ((s[n]).2 = t → n < cntGe votes t) ∧
      ((s[n]).2 ≠ t → s.take n = s.filter (fun p => decide (t ≤ p.2))) := by
  intro s
  have hn : n < s.length := by simp only [s]; rw [sortDesc_length]; exact hlen
  have hn1 : n - 1 < s.length := by omega
  have hd := sortDesc_desc votes
  have hta : (s[n-1]).2 = t := nth_unique (isNth_sorted votes n h1 hn1) ht
  refine ⟨hn1, hn, hta, ?_, ?_⟩
  · intro he
    have := desc_cntGe_ge hd hn
    rw [show ((sortDesc votes)[n]).2 = t from he, cntGe_sort] at this
    omega
  · intro hne
    have hlt : (s[n]).2 < t := by
      have : (s[n]).2 ≤ (s[n-1]).2 := by
        have hmem : s[n] ∈ s.drop (n-1) := by
          rw [List.mem_drop_iff_getElem]
          exact ⟨1, by omega, by congr 1; omega⟩
        exact desc_drop_le hd hn1 _ hmem
      rw [hta] at this
      exact lt_of_le_of_ne this hne
    have hsplit : s.filter (fun p => decide (t ≤ p.2)) =
        (s.take n).filter (fun p => decide (t ≤ p.2)) ++ (s.drop n).filter (fun p => decide (t ≤ p.2)) := by
      rw [← List.filter_append, List.take_append_drop]
    have hnil : (s.drop n).filter (fun p => decide (t ≤ p.2)) = [] := by
      rw [List.filter_eq_nil_iff]
      intro b hb
      simp only [decide_eq_true_eq, not_le]
      exact lt_of_le_of_lt (desc_drop_le hd hn b hb) hlt
    have hall : (s.take n).filter (fun p => decide (t ≤ p.2)) = s.take n := by
      rw [List.filter_eq_self]
      intro a ha
      simp only [decide_eq_true_eq]
      have := desc_take_ge hd hn1 a (by rwa [show n - 1 + 1 = n by omega])
      rwa [hta] at this
    rw [hsplit, hnil, hall, List.append_nil]

/-- **Boundary tie.**  If the candidates level with the n-th total do not all fit, every candidate strictly
    above is elected (by non-increasing votes) and each remaining seat carries one tie object naming
    exactly the level candidates. -/
theorem getNBest_tie (votes : Votes) (n : Nat) (h1 : 1 ≤ n) (hlen : n < votes.length)
    (t : Rat) (ht : IsNth votes n t) (hno : n < cntGe votes t) :
    getNBest votes n = (aboveSorted votes t).map (fun p => Slot.cand p.1)
      ++ List.replicate (n - cntGt votes t) (Slot.tie (level votes t)) := by
  obtain ⟨hn1, hn, hta, hc1, hc2⟩ := split_cases votes n h1 hlen t ht
  obtain ⟨_, _, hex⟩ := getNBest_explicit votes n h1 hlen
  rw [hex]
  by_cases he : ((sortDesc votes)[n]).2 = t
  · rw [if_pos (by rw [hta]; exact he), hta, cntGt_sort, sortDesc_filter_eq]
    rfl
  · exfalso
    have h := hc2 he
    have hl : cntGe votes t = n := by
      rw [← cntGe_sort]; unfold cntGe; rw [← h, List.length_take]; omega
    omega

/-- **Level set fits.**  If the candidates level with the n-th total fit into the remaining seats they are
    all elected, after all candidates strictly above; nobody else is. -/
theorem getNBest_fits (votes : Votes) (n : Nat) (h1 : 1 ≤ n) (hlen : n < votes.length)
    (t : Rat) (ht : IsNth votes n t) (hfit : cntGe votes t ≤ n) :
    getNBest votes n = (aboveSorted votes t).map (fun p => Slot.cand p.1)
      ++ (level votes t).map Slot.cand := by
  obtain ⟨hn1, hn, hta, hc1, hc2⟩ := split_cases votes n h1 hlen t ht
  obtain ⟨_, _, hex⟩ := getNBest_explicit votes n h1 hlen
  rw [hex]
  by_cases he : ((sortDesc votes)[n]).2 = t
  · exfalso; have := hc1 he; omega
  · rw [if_neg (by rw [hta]; exact he), hc2 he, desc_filter_ge_split (sortDesc_desc votes) t,
      List.map_append, sortDesc_filter_eq]
    simp [aboveSorted, level, List.map_map, Function.comp_def]

/-- With at most `n` candidates everybody is elected, by non-increasing votes. -/
theorem getNBest_everyone (votes : Votes) (n : Nat) (h : votes.length ≤ n) :
    getNBest votes n = (sortDesc votes).map (fun p => Slot.cand p.1) := getNBest_all votes n h

/-- the elected prefix is ordered by non-increasing votes -/
theorem aboveSorted_desc (votes : Votes) (t : Rat) : Desc (aboveSorted votes t) :=
  List.Pairwise.sublist List.filter_sublist (sortDesc_desc votes)

theorem mem_aboveSorted {votes : Votes} {t : Rat} {p : Cand × Rat} :
    p ∈ aboveSorted votes t ↔ p ∈ votes ∧ t < p.2 := by
  simp [aboveSorted, List.mem_filter, mem_sortDesc]

/-- the result always has exactly `n` places when at least `n` candidates stand -/
theorem getNBest_length (votes : Votes) (n : Nat) (h1 : 1 ≤ n) (hlen : n ≤ votes.length) :
    (getNBest votes n).length = n := by
  rcases Nat.lt_or_ge n votes.length with hlt | hge
  · obtain ⟨t, ht⟩ := nth_exists votes n h1 hlen
    have habove : (aboveSorted votes t).length = cntGt votes t := by
      unfold aboveSorted; exact sortDesc_filter_length votes _
    rcases Nat.lt_or_ge n (cntGe votes t) with hno | hfit
    · rw [getNBest_tie votes n h1 hlt t ht hno]
      simp only [List.length_append, List.length_map, List.length_replicate, habove]
      have := ht.2.1; omega
    · rw [getNBest_fits votes n h1 hlt t ht hfit]
      simp only [List.length_append, List.length_map, habove]
      have hsplit := congrArg List.length (desc_filter_ge_split (sortDesc_desc votes) t)
      rw [List.length_append] at hsplit
      have e1 : (List.filter (fun p => decide (t ≤ p.2)) (sortDesc votes)).length = cntGe votes t :=
        sortDesc_filter_length votes _
      have e2 : (List.filter (fun p => decide (t < p.2)) (sortDesc votes)).length = cntGt votes t :=
        sortDesc_filter_length votes _
      have e3 : (List.filter (fun p => decide (p.2 = t)) (sortDesc votes)).length = (level votes t).length := by
        rw [sortDesc_filter_eq]; simp [level]
      have := ht.2.2
      omega
  · rw [getNBest_all votes n (by omega), List.length_map, sortDesc_length]; omega

/-- every candidate with strictly more votes than the n-th total is elected -/
theorem strictly_above_elected (votes : Votes) (n : Nat) (h1 : 1 ≤ n) (hlen : n ≤ votes.length)
    (t : Rat) (ht : IsNth votes n t) (p : Cand × Rat) (hp : p ∈ votes) (hgt : t < p.2) :
    Slot.cand p.1 ∈ getNBest votes n := by
  have hmem : Slot.cand p.1 ∈ (aboveSorted votes t).map (fun p => Slot.cand p.1) :=
    List.mem_map.mpr ⟨p, mem_aboveSorted.mpr ⟨hp, hgt⟩, rfl⟩
  rcases Nat.lt_or_ge n votes.length with hlt | hge
  · rcases Nat.lt_or_ge n (cntGe votes t) with hno | hfit
    · rw [getNBest_tie votes n h1 hlt t ht hno]; exact List.mem_append_left _ hmem
    · rw [getNBest_fits votes n h1 hlt t ht hfit]; exact List.mem_append_left _ hmem
  · rw [getNBest_all votes n hge]
    exact List.mem_map.mpr ⟨p, mem_sortDesc.mpr hp, rfl⟩

/-- candidates level with the n-th total: all elected when they fit -/
theorem level_all_elected (votes : Votes) (n : Nat) (h1 : 1 ≤ n) (hlen : n < votes.length)
    (t : Rat) (ht : IsNth votes n t) (hfit : cntGe votes t ≤ n) (p : Cand × Rat) (hp : p ∈ votes)
    (he : p.2 = t) : Slot.cand p.1 ∈ getNBest votes n := by
  rw [getNBest_fits votes n h1 hlen t ht hfit]
  apply List.mem_append_right
  simp only [level, List.map_map, List.mem_map, List.mem_filter, decide_eq_true_eq, Function.comp]
  exact ⟨p, ⟨hp, he⟩, rfl⟩

/-- ... and none of them individually when they do not: under distinct keys, a level candidate never appears
    as an individual winner in the tie case, and neither does any candidate below the n-th total, in any case -/
theorem not_above_not_elected_in_tie (votes : Votes) (hwf : WF votes) (n : Nat) (h1 : 1 ≤ n)
    (hlen : n < votes.length) (t : Rat) (ht : IsNth votes n t) (hno : n < cntGe votes t)
    (p : Cand × Rat) (hp : p ∈ votes) (hle : p.2 ≤ t) : Slot.cand p.1 ∉ getNBest votes n := by
  rw [getNBest_tie votes n h1 hlen t ht hno]
  intro hmem
  rcases List.mem_append.mp hmem with h | h
  · obtain ⟨q, hq, hqe⟩ := List.mem_map.mp h
    have hq' := mem_aboveSorted.mp hq
    have hkey : q.1 = p.1 := by injection hqe
    have : q = p := by
      have hinj := List.inj_on_of_nodup_map hwf hq'.1 hp
      exact hinj hkey
    rw [this] at hq'
    exact absurd hq'.2 (not_lt.mpr hle)
  · have := (List.mem_replicate.mp h).2
    cases this

theorem below_never_elected (votes : Votes) (hwf : WF votes) (n : Nat) (h1 : 1 ≤ n)
    (hlen : n < votes.length) (t : Rat) (ht : IsNth votes n t)
    (p : Cand × Rat) (hp : p ∈ votes) (hlt : p.2 < t) :
    Slot.cand p.1 ∉ getNBest votes n ∧ ∀ T, Slot.tie T ∈ getNBest votes n → p.1 ∉ T := by
  have hkeyinj : ∀ q ∈ votes, q.1 = p.1 → q = p := fun q hq hk =>
    List.inj_on_of_nodup_map hwf hq hp hk
  rcases Nat.lt_or_ge n (cntGe votes t) with hno | hfit
  · refine ⟨not_above_not_elected_in_tie votes hwf n h1 hlen t ht hno p hp (le_of_lt hlt), ?_⟩
    intro T hT
    rw [getNBest_tie votes n h1 hlen t ht hno] at hT
    rcases List.mem_append.mp hT with h | h
    · obtain ⟨q, _, hqe⟩ := List.mem_map.mp h; cases hqe
    · have hTe : T = level votes t := by
        have := (List.mem_replicate.mp h).2; injection this
      rw [hTe]
      intro hmem
      simp only [level, List.mem_map, List.mem_filter, decide_eq_true_eq] at hmem
      obtain ⟨q, ⟨hq, hqt⟩, hqk⟩ := hmem
      have := hkeyinj q hq hqk
      rw [this] at hqt
      exact absurd hqt (ne_of_lt hlt)
  · rw [getNBest_fits votes n h1 hlen t ht hfit]
    refine ⟨?_, ?_⟩
    · intro hmem
      rcases List.mem_append.mp hmem with h | h
      · obtain ⟨q, hq, hqe⟩ := List.mem_map.mp h
        have hq' := mem_aboveSorted.mp hq
        have hkey : q.1 = p.1 := by injection hqe
        have := hkeyinj q hq'.1 hkey
        rw [this] at hq'
        exact absurd (lt_trans hlt hq'.2) (lt_irrefl _)
      · simp only [level, List.map_map, List.mem_map, List.mem_filter, decide_eq_true_eq,
          Function.comp] at h
        obtain ⟨q, ⟨hq, hqt⟩, hqk⟩ := h
        have hkey : q.1 = p.1 := by injection hqk
        have := hkeyinj q hq hkey
        rw [this] at hqt
        exact absurd hqt (ne_of_lt hlt)
    · intro T hT
      rcases List.mem_append.mp hT with h | h
      · obtain ⟨q, _, hqe⟩ := List.mem_map.mp h; cases hqe
      · obtain ⟨q, _, hqe⟩ := List.mem_map.mp h; cases hqe

/-- `sortDesc` and hence `getNBest` see values only through their order: any strictly monotone
    re-valuation (scaling by a positive factor, shifting, ...) leaves the result unchanged. -/
theorem getNBest_strictMono_map (f : Rat → Rat) (hf : StrictMono f) (votes : Votes) (n : Nat) :
    getNBest (votes.map (fun p => (p.1, f p.2))) n = getNBest votes n := by
  have hins : ∀ (x : Cand × Rat) (l : Votes),
      insertDesc (x.1, f x.2) (l.map (fun p => (p.1, f p.2))) = (insertDesc x l).map (fun p => (p.1, f p.2)) := by
    intro x l
    induction l with
    | nil => simp [insertDesc]
    | cons y ys ih =>
      simp only [List.map_cons, insertDesc]
      by_cases hlt : x.2 < y.2
      · rw [if_pos (hf hlt), if_pos hlt, ih]; rfl
      · rw [if_neg (fun h => hlt (hf.lt_iff_lt.mp h)), if_neg hlt]; rfl
  have hsort : ∀ l : Votes, sortDesc (l.map (fun p => (p.1, f p.2))) = (sortDesc l).map (fun p => (p.1, f p.2)) := by
    intro l
    induction l with
    | nil => rfl
    | cons x xs ih => simp only [List.map_cons, sortDesc]; rw [ih, hins]
  have hinj : ∀ a b : Rat, f a = f b ↔ a = b := fun a b => hf.injective.eq_iff
  unfold getNBest
  simp only [hsort, List.length_map, List.getElem?_map]
  split
  · cases h1 : (sortDesc votes)[n-1]? <;> cases h2 : (sortDesc votes)[n]? <;> simp only [Option.map]
    rename_i a b
    simp only [hinj]
    split
    · simp only [List.filter_map, List.takeWhile_map, List.map_map, List.length_map, ← List.map_take,
        Function.comp_def, hinj, ne_eq]
    · simp only [← List.map_take, List.map_map, Function.comp_def]
  · simp only [List.map_map, Function.comp_def]

/-- an individually elected candidate stands in the votes with a total of at least the n-th total; and exactly the n-th
    total only when the level set fits -/
private theorem elected_form (votes : Votes) (n : Nat) (h1 : 1 ≤ n) (hlen : n < votes.length)
    (t : Rat) (ht : IsNth votes n t) (c : Cand) (hc : Slot.cand c ∈ getNBest votes n) :
    ∃ p ∈ votes, p.1 = c ∧ (t < p.2 ∨ (p.2 = t ∧ cntGe votes t ≤ n)) := by
  rcases Nat.lt_or_ge n (cntGe votes t) with hno | hfit
  · rw [getNBest_tie votes n h1 hlen t ht hno] at hc
    rcases List.mem_append.mp hc with h | h
    · obtain ⟨q, hq, hqe⟩ := List.mem_map.mp h
      have hq' := mem_aboveSorted.mp hq
      exact ⟨q, hq'.1, by injection hqe, Or.inl hq'.2⟩
    · have := (List.mem_replicate.mp h).2; cases this
  · rw [getNBest_fits votes n h1 hlen t ht hfit] at hc
    rcases List.mem_append.mp hc with h | h
    · obtain ⟨q, hq, hqe⟩ := List.mem_map.mp h
      have hq' := mem_aboveSorted.mp hq
      exact ⟨q, hq'.1, by injection hqe, Or.inl hq'.2⟩
    · simp only [level, List.map_map, List.mem_map, List.mem_filter, decide_eq_true_eq, Function.comp] at h
      obtain ⟨q, ⟨hq, hqt⟩, hqk⟩ := h
      exact ⟨q, hq, by injection hqk, Or.inr ⟨hqt, hfit⟩⟩

private theorem cntGe_le_cntGt_of_lt (votes : Votes) {t t' : Rat} (h : t < t') : cntGe votes t' ≤ cntGt votes t := by
  unfold cntGe cntGt
  induction votes with
  | nil => simp
  | cons x xs ih =>
    simp only [List.filter_cons]
    by_cases h1 : t' ≤ x.2
    · have h2 : t < x.2 := lt_of_lt_of_le h h1
      simp only [h1, h2, decide_true, if_true, List.length_cons]; omega
    · by_cases h2 : t < x.2
      · simp only [h1, h2, decide_true, decide_false, if_true, List.length_cons]; simp; omega
      · simp only [h1, h2, decide_false]; simpa using ih

/-- **Filling one more seat never unseats anybody**: a candidate elected individually for `n` seats is elected individually
    for `n + 1` seats (ties can only dissolve into elected candidates, never the other way round). -/
theorem elected_stays_elected (votes : Votes) (n : Nat) (h1 : 1 ≤ n) (c : Cand)
    (hc : Slot.cand c ∈ getNBest votes n) : Slot.cand c ∈ getNBest votes (n + 1) := by
  rcases Nat.lt_or_ge n votes.length with hlt | hge
  · obtain ⟨t, ht⟩ := nth_exists votes n h1 (le_of_lt hlt)
    obtain ⟨p, hp, hpc, hcase⟩ := elected_form votes n h1 hlt t ht c hc
    rcases Nat.lt_or_ge (n + 1) votes.length with hlt' | hge'
    · obtain ⟨t', ht'⟩ := nth_exists votes (n + 1) (by omega) (le_of_lt hlt')
      have htt : t' ≤ t := by
        by_contra hcon
        have hlt2 : t < t' := not_le.mp hcon
        have := cntGe_le_cntGt_of_lt votes hlt2
        have h3 := ht.2.1
        have h4 := ht'.2.2
        omega
      have hgt : t' < p.2 := by
        rcases hcase with hgt | ⟨heq, hfit⟩
        · exact lt_of_le_of_lt htt hgt
        · rcases lt_or_eq_of_le htt with hlt3 | heq3
          · rw [heq]; exact hlt3
          · exfalso
            have h4 := ht'.2.2
            rw [heq3] at h4
            omega
      have := strictly_above_elected votes (n + 1) (by omega) (le_of_lt hlt') t' ht' p hp hgt
      rwa [hpc] at this
    · rw [getNBest_all votes (n + 1) hge']
      exact List.mem_map.mpr ⟨p, mem_sortDesc.mpr hp, by rw [hpc]⟩
  · rw [getNBest_all votes n hge] at hc
    rw [getNBest_all votes (n + 1) (by omega)]
    exact hc

example : Slot.cand 1 ∈ getNBest [(1,5),(2,3),(3,3),(4,1)] 2 ∧ getNBest [(1,5),(2,3),(3,3),(4,1)] 3 = [Slot.cand 1, Slot.cand 2, Slot.cand 3] := by
  decide +kernel

/-- **`util.sorted_votes`, descending** (what every evaluator ranks by): the result is a rearrangement of the dictionary's items,
    non-increasing in the exact value, and STABLE - items with one and the same value keep their insertion order. -/
theorem sorted_votes_desc_spec (votes : Votes) :
    (sortDesc votes).Perm votes ∧ Desc (sortDesc votes) ∧
    ∀ t : Rat, (sortDesc votes).filter (fun p => p.2 = t) = votes.filter (fun p => p.2 = t) :=
  ⟨sortDesc_perm votes, sortDesc_desc votes, sortDesc_filter_eq votes⟩

/-- **`util.sorted_votes(descending=False)`**: rearrangement, non-decreasing, stable. -/
theorem sorted_votes_asc_spec (votes : Votes) :
    (sortAsc votes).Perm votes ∧ Asc (sortAsc votes) ∧
    ∀ t : Rat, (sortAsc votes).filter (fun p => p.2 = t) = votes.filter (fun p => p.2 = t) :=
  ⟨sortAsc_perm votes, sortAsc_asc votes, sortAsc_filter_eq votes⟩

/-- The two orders list the same items and agree inside every level set (both keep insertion order there) - so the ascending
    order is NOT the reverse of the descending one when values repeat. -/
theorem sorted_votes_level_sets_agree (votes : Votes) (t : Rat) :
    (sortAsc votes).filter (fun p => p.2 = t) = (sortDesc votes).filter (fun p => p.2 = t) := by
  rw [sortAsc_filter_eq, sortDesc_filter_eq]

example : sortAsc [(1,2),(2,1),(3,2)] = [(2,1),(1,2),(3,2)] ∧ sortDesc [(1,2),(2,1),(3,2)] = [(1,2),(3,2),(2,1)] := by
  decide +kernel

/-- Plurality is `get_n_best` -/
theorem plurality_eq (votes : Votes) (n : Nat) : plurality votes n = getNBest votes n := rfl

/-- QuotaSelector: what is returned is `get_n_best` over exactly the candidates over the quota -/
theorem quotaSelector_ok (quota : Rat → Nat → Rat) (eq : Bool) (om : OnMore) (votes : Votes) (n : Nat)
    (r : List Slot) (h : quotaSelector quota eq om votes n = .ok r) :
    r = getNBest (votes.filter (fun p =>
          decide (p.2 > quota (sumVals votes) n) || (eq && decide (p.2 = quota (sumVals votes) n)))) n := by
  unfold quotaSelector at h
  simp only at h
  split at h
  · cases om <;> simp at h
    exact h.symm
  · simp at h; exact h.symm

/-- non-vacuity: a concrete non-trivial input meeting the hypotheses, and the tie it produces -/
example : IsNth [(1,5),(2,3),(3,3),(4,1)] 2 3 := by
  refine ⟨⟨(2,3), by simp, rfl⟩, ?_, ?_⟩ <;> decide +kernel
example : getNBest [(1,5),(2,3),(3,3),(4,1)] 2 = [Slot.cand 1, Slot.tie [2,3]] := by decide +kernel
example : getNBest [(1,(7:Rat)/2),(2,3),(3,(14:Rat)/4)] 1 = [Slot.tie [1,3]] := by decide +kernel

end VL.C09
