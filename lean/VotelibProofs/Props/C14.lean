/-
  C14 — composition wrappers equal the explicit composition of their parts.

  `eval`    (VotelibModel/Wrappers.lean)    the wrapper classes of core.py, INCLUDING the signature-based
            dispatch `acceptsSeats` / `acceptsPrevGains` and Python's strict argument binding
  `…Law`    (VotelibModel/WrapperLaws.lean) the explicit composition of the parts, no dispatch flags,
            every part is handed everything and takes what it takes (`tol`)
  `denote`  the laws composed along the tree

  Leaves are ABSTRACT (`Ev.leaf sig f`, `f` any function): every theorem below holds for arbitrary leaf
  evaluators, converters, open-list evaluators and quota functions.
-/
import VotelibProofs.Lemmas.Wrappers
import VotelibModel.WrapperLeaves
namespace VL.C14
open VL

/-! ## 1. the dispatch flags: where `inspect.signature` tells the truth

  Since commit e582ee8 `accepts_seats`, `accepts_prev_gains` and the new `accepts_max_seats` look through
  the pass-through wrappers and through PartyListEvaluator.  `acceptsSeats_faithful`,
  `acceptsPrevGains_faithful`, `acceptsMaxSeats_faithful` (Lemmas/Wrappers.lean) prove, by structural
  induction over ALL trees, that each flag equals what the tree takes.  -/

/-- every tree, of any nesting, over any leaves: the three flags of core.py are the truth -/
theorem dispatchFaithful_all (e : Ev) : DispatchFaithful e = true := by
  simp [DispatchFaithful, acceptsSeats_faithful, acceptsPrevGains_faithful, acceptsMaxSeats_faithful]

/-! ## 2. one law per wrapper: the wrapper with arbitrary sub-trees equals the composition of the sub-trees
       called by hand (`tol`); hypotheses are local to the node and decidable -/

theorem agree_tol (s : Sig) (P : Sem) : Agree s P (tol s P) := fun _ => rfl

/-- a fixed seat count equals passing that count -/
theorem fixedSeatCount_law (e : Ev) (n : V) (a : Args) (hs : (takes e).seats = true)
    (hfit : a.fits (takes (.fixedSeatCount e n)) = true) :
    eval (.fixedSeatCount e n) a = fixedSeatCountLaw n (tol (takes e) (eval e)) a := by
  have := (agree_fixed n (agree_tol (takes e) (eval e)) hs).onFits a (by simpa [takes] using hfit)
  simpa [eval] using this

/-- conditioning equals evaluating on the votes restricted to the candidates the eliminator passed
    (no hypothesis on the sub-trees any more: the dispatch is faithful for every tree) -/
theorem conditioned_law (elim e : Ev) (d : Nat) (a : Args)
    (hfit : a.fits (takes (.conditioned elim e d)) = true) :
    eval (.conditioned elim e d) a
      = conditionedLaw (needsSeats e) (tol (takes elim) (eval elim)) (tol (takes e) (eval e)) d a := by
  have := (agree_conditioned d (needsSeats e) (seatsOptional e) (agree_tol (takes elim) (eval elim))
    (agree_tol (takes e) (eval e)) (seatsOptional_faithful e)).onFits a (by simpa [takes] using hfit)
  simpa [eval, acceptsPrevGains_faithful, acceptsSeats_faithful] using this

/-- pre-conversion equals converting, then evaluating -/
theorem preConverted_law (c : Conv) (e : Ev) (a : Args) (hfit : a.fits (takes e) = true) :
    eval (.preConverted c e) a = preConvertedLaw c.run (tol (takes e) (eval e)) a := by
  have := (agree_preConverted c.run (agree_tol (takes e) (eval e))).onFits a hfit
  simpa [eval] using this

/-- post-conversion equals evaluating, then converting -/
theorem postConverted_law (e : Ev) (c : Conv) (a : Args) (hfit : a.fits (takes e) = true) :
    eval (.postConverted e c) a = postConvertedLaw (tol (takes e) (eval e)) c.run a := by
  have := (agree_postConverted c.run (agree_tol (takes e) (eval e))).onFits a hfit
  simpa [eval] using this

/-- a VotingSystem is its evaluator -/
theorem votingSystem_law (e : Ev) (a : Args) : eval (.votingSystem e) a = eval e a := by
  simp [eval]

/-- per-constituency evaluation equals evaluating each constituency separately with its apportioned seats
    (the district evaluator takes a seat count; an apportioner given as evaluator takes one) -/
theorem byConstituency_law (e : Ev) (app : App Ev) (pre : Option Ev) (a : Args)
    (hs : (takes e).seats = true)
    (happ : ∀ ap, app = .ev ap → (takes ap).seats = true)
    (hfit : a.fits allSig = true) :
    eval (.byConstituency e app pre) a
      = byConstituencyLaw (match pre with | some p => needsSeats p | Option.none => false)
          (tol (takes e) (eval e)) (appMap (fun x => tol (takes x) (eval x)) app)
          (pre.map (fun x => tol (takes x) (eval x))) a := by
  rw [eval_byConstituency, acceptsPrevGains_faithful, acceptsMaxSeats_faithful]
  refine (agree_byConstituency (agree_tol (takes e) (eval e)) hs ?_ ?_).onFits a hfit
  · cases app with
    | none => exact .none
    | int k => exact .int k
    | dict d => exact .dict d
    | ev ap => exact .ev (agree_tol (takes ap) (eval ap)) (happ ap rfl)
  · cases pre with
    | none => exact .none _ _ _
    | some p =>
      simp only [acceptsSeats_faithful, Option.map]
      exact .some _ _ (agree_tol (takes p) (eval p)) (seatsOptional_faithful p)

/-- pre-apportionment equals apportioning, then evaluating with the table of seats -/
theorem preApportioned_law (e : Ev) (app : App Ev) (a : Args) (hall : takesAll e = true)
    (happ : ∀ ap, app = .ev ap → (takes ap).seats = true) (hfit : a.fits allSig = true) :
    eval (.preApportioned e app) a
      = preApportionedLaw (tol (takes e) (eval e)) (appMap (fun x => tol (takes x) (eval x)) app) a := by
  simp only [takesAll, Bool.and_eq_true] at hall
  rw [eval_preApportioned]
  refine (agree_preApportioned (agree_tol (takes e) (eval e)) hall.1.1 hall.1.2 hall.2 ?_).onFits a hfit
  cases app with
  | none => exact .none
  | int k => exact .int k
  | dict d => exact .dict d
  | ev ap => exact .ev (agree_tol (takes ap) (eval ap)) (happ ap rfl)

/-- removing the apportionment equals evaluating with the total of the table -/
theorem removedApportionment_law (e : Ev) (a : Args) (hall : takesAll e = true) (hfit : a.fits allSig = true) :
    eval (.removedApportionment e) a = removedApportionmentLaw (tol (takes e) (eval e)) a := by
  simp only [takesAll, Bool.and_eq_true] at hall
  have := (agree_removedApportionment (agree_tol (takes e) (eval e)) hall.1.1 hall.1.2 hall.2).onFits a hfit
  simpa [eval] using this

/-- ByParty: overall result on the totals (a seatless overall evaluator is not handed the seat count), each
    party's seats allocated over the constituencies; the allocator takes seats, previous gains and caps -/
theorem byParty_law (o al : Ev) (a : Args) (hall : takesAll al = true) (hfit : a.fits allSig = true) :
    eval (.byParty o (some al)) a
      = byPartyLaw (needsSeats o) (tol (takes o) (eval o)) (tol (takes al) (eval al)) a := by
  simp only [takesAll, Bool.and_eq_true] at hall
  have := (agree_byParty (needsSeats o) (seatsOptional o) (agree_tol (takes o) (eval o))
    (agree_tol (takes al) (eval al)) (seatsOptional_faithful o) hall.1.1 hall.1.2 hall.2).onFits a hfit
  simpa [eval, acceptsPrevGains_faithful, acceptsSeats_faithful, acceptsMaxSeats_faithful] using this

/-- the same for an allocator that takes only part of (prev_gains, max_seats) — possible since 5bf2df2, each
    is handed over only where accepted — on every call whose gains have a column for every party -/
theorem byParty_law_columns (o al : Ev) (a : Args) (hs : (takes al).seats = true)
    (hp : ∀ k, ∃ x, partyColumn (a.prev.getD (.dict [])) k = .ok x)
    (hm : ∀ k, ∃ x, partyColumn (a.max.getD (.dict [])) k = .ok x)
    (hfit : a.fits allSig = true) :
    eval (.byParty o (some al)) a
      = byPartyLaw (needsSeats o) (tol (takes o) (eval o)) (tol (takes al) (eval al)) a := by
  have := byParty_eq_of_columns (needsSeats o) (seatsOptional o) (agree_tol (takes o) (eval o))
    (agree_tol (takes al) (eval al)) (seatsOptional_faithful o) hs a hp hm
  rw [Args.restrict_of_fits a allSig hfit] at this
  simpa [eval, acceptsPrevGains_faithful, acceptsSeats_faithful, acceptsMaxSeats_faithful] using this

theorem evalList_eq_map (rs : List Ev) : evalList rs = rs.map eval := by
  induction rs with
  | nil => rfl
  | cons e es ih => simp [evalList, ih]

theorem agreeStages_tol (g : Bool) : ∀ (rs : List Ev),
    (∀ e ∈ rs, (takes e).seats = true ∧ (g = true → (takes e).prev = true ∧ (takes e).max = true)) →
    AgreeStages g (evalList rs) (rs.map (fun x => tol (takes x) (eval x)))
  | [], _ => by simpa [evalList] using AgreeStages.nil
  | e :: es, h => by
      simp only [evalList, List.map]
      exact .cons (agree_tol (takes e) (eval e)) (h e (by simp)).1 (h e (by simp)).2
        (agreeStages_tol g es (fun x hx => h x (by simp [hx])))

/-- multi-stage distribution equals chaining the stages with accumulated previous gains -/
theorem multistage_law (rs : List Ev) (d : Nat) (a : Args) (hall : ∀ e ∈ rs, takesAll e = true)
    (hfit : a.fits allSig = true) :
    eval (.multistage rs d) a = multistageLaw (rs.map (fun x => tol (takes x) (eval x))) d a := by
  have hst := agreeStages_tol true rs (fun e he => by
    have := hall e he
    simp only [takesAll, Bool.and_eq_true] at this
    exact ⟨this.1.1, fun _ => ⟨this.1.2, this.2⟩⟩)
  have := (agree_multistage hst d).onFits a hfit
  simpa [eval] using this

/-- the same for the unused-votes variant (stages on the votes not yet used, seats not yet filled) -/
theorem unusedVotes_law (rs : List Ev) (qs : List QuotaFn) (d : Nat) (a : Args)
    (hall : ∀ e ∈ rs, (takes e).seats = true) (hfit : a.fits allSig = true) :
    eval (.unusedVotes rs qs d) a = unusedVotesLaw (rs.map (fun x => tol (takes x) (eval x))) qs d a := by
  have hst := agreeStages_tol false rs (fun e he => ⟨hall e he, fun h => by cases h⟩)
  have := (agree_unusedVotes hst qs d).onFits a hfit
  simpa [eval] using this

/-- tie-breaking: the main result with every tie replaced by the tiebreaker's choice among the tied -/
theorem tieBreaking_law (m t : Ev) (a : Args) (hs : (takes t).seats = true) (hfit : a.fits (takes m) = true) :
    eval (.tieBreaking m t) a = tieBreakingLaw (tol (takes m) (eval m)) (tol (takes t) (eval t)) a := by
  have := (agree_tieBreaking (agree_tol (takes m) (eval m)) (agree_tol (takes t) (eval t)) hs).onFits a hfit
  simpa [eval] using this

/-- party-list evaluation: the party result decides how many candidates of each list are seated -/
theorem partyList_law (p : Ev) (le : Option ListSem) (c : Option Conv) (a : Args) (hs : (takes p).seats = true)
    (hfit : a.fits (takes (.partyList p le c)) = true) :
    eval (.partyList p le c) a = partyListLaw (tol (takes p) (eval p)) le (c.map Conv.run) a := by
  have := (agree_partyList (agree_tol (takes p) (eval p)) hs le (c.map Conv.run)).onFits a
    (by simpa [takes] using hfit)
  simpa [eval] using this

/-! ## 3. arbitrary nesting -/

/-- the laws compose: a well-formed tree of any depth, over ANY leaves, evaluates to the composition of
    its parts -/
theorem laws_compose (t : Ev) (a : Args) (hwf : WellFormed t = true) (hfit : a.fits (takes t) = true) :
    eval t a = denote t a :=
  (agree_tree t hwf).onFits a hfit

/-- the same for any call: what the tree does not take is dropped by hand -/
theorem laws_compose_restrict (t : Ev) (a : Args) (hwf : WellFormed t = true) :
    eval t (a.restrict (takes t)) = denote t a :=
  agree_tree t hwf a

/-- the composition never looks at an argument the tree does not take -/
theorem denote_tolerant (t : Ev) (a : Args) (hwf : WellFormed t = true) :
    denote t (a.restrict (takes t)) = denote t a :=
  (agree_tree t hwf).tolerant a

/-! ## 4. "no seat count" stays no seat count -/

theorem seatsForm_given (needs : Bool) (v : V) (h : isNone v = false) : seatsForm needs v = some v := by
  simp [seatsForm, h]

theorem seatsForm_none_optional : seatsForm false .none = Option.none := rfl

theorem seatsForm_none_required : seatsForm true .none = some .none := rfl

/-- a call without seat count (omitted, or the wrapper's default None) reaches a main evaluator that can be
    called without one WITHOUT seat count: exactly evaluating the part on the restricted votes, by hand -/
theorem conditioned_omitted_stays_omitted (E P : Sem) (d : Nat) (a : Args)
    (h : a.n = Option.none ∨ a.n = some .none) :
    conditionedLaw false E P d a = (do
      let prev := a.prev.getD (.dict [])
      let totals ← sumParty d a.votes
      let prevTotals ← sumParty d prev
      let passed ← E { votes := totals, prev := some prevTotals }
      let restricted ← elimParty d a.votes passed
      P { a with votes := restricted, n := Option.none, prev := some prev }) := by
  rcases h with h | h <;> simp [conditionedLaw, h, seatsForm, isNone]

/-- … a main evaluator whose seat count is a required argument is told None (as before the repair) … -/
theorem conditioned_required_gets_none (E P : Sem) (d : Nat) (a : Args)
    (h : a.n = Option.none ∨ a.n = some .none) :
    conditionedLaw true E P d a = (do
      let prev := a.prev.getD (.dict [])
      let totals ← sumParty d a.votes
      let prevTotals ← sumParty d prev
      let passed ← E { votes := totals, prev := some prevTotals }
      let restricted ← elimParty d a.votes passed
      P { a with votes := restricted, n := some .none, prev := some prev }) := by
  rcases h with h | h <;> simp [conditionedLaw, h, seatsForm, isNone]

/-- … and a given seat count is handed on unchanged -/
theorem conditioned_given_seats (needs : Bool) (E P : Sem) (d : Nat) (a : Args) (v : V) (h : a.n = some v)
    (hv : isNone v = false) :
    conditionedLaw needs E P d a = (do
      let prev := a.prev.getD (.dict [])
      let totals ← sumParty d a.votes
      let prevTotals ← sumParty d prev
      let passed ← E { votes := totals, prev := some prevTotals }
      let restricted ← elimParty d a.votes passed
      P { a with votes := restricted, n := some v, prev := some prev }) := by
  simp [conditionedLaw, h, seatsForm, hv]

/-! ### concrete trees (non-vacuity and witnesses) -/

def dHondt (k : Nat) : Rat := (k : Rat) + 1
def haT : Ev := .leaf haSig (haLeaf dHondt)
def plurT : Ev := .leaf pluralitySig pluralityLeaf
def inputOrderT : Ev := .leaf pluralitySig inputOrderLeaf
def thrT (t : Rat) : Ev := .leaf seatlessSig (absThresholdLeaf t true)
def sv (l : List (Nat × Rat)) : V := .dict (l.map (fun p => (Key.cand p.1, V.num p.2)))

/-- the tree of fix 904ccca: Conditioned(AbsoluteThreshold(0), TieBreaking(HighestAverages(), Plurality())) -/
def tree904 : Ev := .conditioned (thrT 0) (.tieBreaking haT plurT) 1
def args904 : Args := { votes := sv [(0, 10), (1, 6)], n := some (.num 4), prev := some (sv [(0, 2)]) }

example : WellFormed tree904 = true ∧ args904.fits (takes tree904) = true := by decide +kernel

/-- with the repaired flags the wrapper gives the hand composition {A:1, B:1} … -/
theorem fix_904ccca_now : eval tree904 args904 = .ok (sv [(0, 1), (1, 1)])
    ∧ denote tree904 args904 = .ok (sv [(0, 1), (1, 1)]) := by decide +kernel

/-- … with the flags as they were (`'prev_gains' in signature.parameters`) it gave {A:3, B:1}:
    the previous gains were silently dropped -/
theorem fix_904ccca_before_witness :
    acceptsPrevGainsOld (.tieBreaking haT plurT) ≠ (takes (.tieBreaking haT plurT)).prev
    ∧ conditionedImplOld (acceptsPrevGainsOld (thrT 0)) (acceptsSeats (.tieBreaking haT plurT))
        (acceptsPrevGainsOld (.tieBreaking haT plurT)) (eval (thrT 0)) (eval (.tieBreaking haT plurT)) 1 args904
      = .ok (sv [(0, 3), (1, 1)]) := by decide +kernel

/-- repaired by e582ee8: the look-through now reaches `party_eval`; Conditioned over a PartyListEvaluator
    hands on the previous gains (1 + 1 list candidates seated) … -/
def treePlist : Ev := .conditioned (thrT 0) (.partyList haT Option.none Option.none) 1
def argsPlist : Args :=
  { votes := sv [(0, 10), (1, 6)], n := some (.num 4), prev := some (sv [(0, 2)])
    pl := some (.dict [(.cand 0, .list [.cand 200, .cand 201, .cand 202, .cand 203]),
                       (.cand 1, .list [.cand 210, .cand 211, .cand 212])]) }

theorem fix_e582ee8_partyList_now :
    WellFormed treePlist = true ∧ argsPlist.fits (takes treePlist) = true
    ∧ eval treePlist argsPlist = .ok (.dict [(.cand 0, .list [.cand 200]), (.cand 1, .list [.cand 210])])
    ∧ denote treePlist argsPlist = .ok (.dict [(.cand 0, .list [.cand 200]), (.cand 1, .list [.cand 210])]) := by
  decide +kernel

/-- … with the flag as it was it seated 3 + 1 -/
theorem fix_e582ee8_partyList_before_witness :
    acceptsPrevGains904 (.partyList haT Option.none Option.none) ≠ (takes (.partyList haT Option.none Option.none)).prev
    ∧ conditionedImplOld (acceptsPrevGains904 (thrT 0)) (acceptsSeatsOld (.partyList haT Option.none Option.none))
        (acceptsPrevGains904 (.partyList haT Option.none Option.none)) (eval (thrT 0))
        (eval (.partyList haT Option.none Option.none)) 1 argsPlist
      = .ok (.dict [(.cand 0, .list [.cand 200, .cand 201, .cand 202]), (.cand 1, .list [.cand 210])]) := by
  decide +kernel

/-- repaired by e582ee8: `accepts_seats` asks the wrapped evaluator; a seatless evaluator behind a
    pass-through wrapper is no longer handed a seat count … -/
def treeGeneric : Ev := .conditioned (thrT 2) (.votingSystem (.fixedSeatCount plurT (.num 1))) 1
def argsGeneric : Args := { votes := sv [(0, 10), (1, 6)] }

theorem fix_e582ee8_generic_now :
    WellFormed treeGeneric = true ∧ argsGeneric.fits (takes treeGeneric) = true
    ∧ eval treeGeneric argsGeneric = .ok (.list [.cand 0])
    ∧ denote treeGeneric argsGeneric = .ok (.list [.cand 0]) := by decide +kernel

/-- … with `'n_seats' in params or _has_generic(params)` the call failed -/
theorem fix_e582ee8_generic_before_witness :
    acceptsSeatsOld (.votingSystem (.fixedSeatCount plurT (.num 1)))
      ≠ (takes (.votingSystem (.fixedSeatCount plurT (.num 1)))).seats
    ∧ conditionedImplOld (acceptsPrevGains (thrT 2)) (acceptsSeatsOld (.votingSystem (.fixedSeatCount plurT (.num 1))))
        (acceptsPrevGains (.votingSystem (.fixedSeatCount plurT (.num 1)))) (eval (thrT 2))
        (eval (.votingSystem (.fixedSeatCount plurT (.num 1)))) 1 argsGeneric = .error eType := by
  decide +kernel

/-- repaired (notes/fix_C14_cond_none_seats.diff): Conditioned hands `n_seats` on only if it is not None; a
    call without seat count reaches Plurality without one (default 1) … -/
def treeNone : Ev := .conditioned (thrT 2) plurT 1

theorem fix_cond_none_seats_now :
    WellFormed treeNone = true ∧ argsGeneric.fits (takes treeNone) = true
    ∧ eval treeNone argsGeneric = .ok (.list [.cand 0])
    ∧ denote treeNone argsGeneric = .ok (.list [.cand 0]) := by
  decide +kernel

/-- a main evaluator whose `n_seats` is a required parameter still gets the None, so that what worked before
    the repair still works: Conditioned over a MultistageDistributor of constituencies with a fixed table -/
example :
    let t : Ev := .conditioned (thrT 2) (.multistage [.byConstituency haT (.int 2) Option.none] 2) 2
    let a : Args := { votes := .dict [(.cand 100, sv [(0, 5), (1, 1)]), (.cand 101, sv [(0, 3), (1, 4)])] }
    WellFormed t = true ∧ a.fits (takes t) = true
    ∧ eval t a = .ok (.dict [(.cand 100, sv [(0, 2)]), (.cand 101, sv [(0, 1), (1, 1)])])
    ∧ denote t a = .ok (.dict [(.cand 100, sv [(0, 2)]), (.cand 101, sv [(0, 1), (1, 1)])]) := by
  decide +kernel

/-- … the default None used to be forwarded positionally -/
theorem fix_cond_none_seats_before_witness :
    conditionedImplOld (acceptsPrevGains (thrT 2)) (acceptsSeats plurT) (acceptsPrevGains plurT)
      (eval (thrT 2)) (eval plurT) 1 argsGeneric = .error eType := by
  decide +kernel

/-! ### per-constituency and per-party: before and after 9f4a9df / e582ee8 -/

def nested (l : List (Nat × List (Nat × Rat))) : V := .dict (l.map (fun p => (Key.cand p.1, sv p.2)))

/-- non-vacuity: two constituencies, seats by table, one of them without seats; wrapper = composition -/
def treeByCon : Ev := .byConstituency haT .none Option.none
def argsByCon : Args :=
  { votes := nested [(100, [(0, 5), (1, 1)]), (101, [(0, 3), (1, 4)])], n := some (sv [(100, 2), (101, 0)])
    prev := some (nested [(100, [(1, 1)])]) }

example : WellFormed treeByCon = true ∧ argsByCon.fits (takes treeByCon) = true
    ∧ eval treeByCon argsByCon = .ok (.dict [(.cand 100, sv [(0, 1)]), (.cand 101, .dict [])])
    ∧ denote treeByCon argsByCon = .ok (.dict [(.cand 100, sv [(0, 1)]), (.cand 101, .dict [])]) := by
  decide +kernel

/-- non-vacuity of `laws_compose` at depth 4 with a distributor apportioner, a preselector, tie-breaking
    and multi-stage accumulation -/
def treeDeep : Ev :=
  .votingSystem (.multistage [
    .byConstituency (.tieBreaking haT inputOrderT) (.ev haT) (some (thrT 3)),
    .preApportioned (.byConstituency (.conditioned (thrT 1) haT 1) .none Option.none) (.int 5)] 2)
def argsDeep : Args :=
  { votes := nested [(100, [(0, 6), (1, 3), (2, 1)]), (101, [(0, 4), (1, 4)])], n := some (.num 4)
    prev := some (nested [(101, [(1, 1)])]) }

def isOk : Except Err V → Bool
  | .ok _ => true
  | .error _ => false

example : WellFormed treeDeep = true ∧ argsDeep.fits (takes treeDeep) = true
    ∧ isOk (eval treeDeep argsDeep) = true ∧ eval treeDeep argsDeep = denote treeDeep argsDeep := by
  decide +kernel

def argsAllZero : Args := { votes := nested [(100, [(0, 1)])], n := some (sv [(100, 0)]) }

/-- repaired by 9f4a9df: no constituency evaluated (all have zero seats) gives empty results … -/
theorem fix_9f4a9df_all_zero_now :
    eval (.byConstituency haT .none Option.none) argsAllZero = .ok (.dict [(.cand 100, .dict [])])
    ∧ denote (.byConstituency haT .none Option.none) argsAllZero = .ok (.dict [(.cand 100, .dict [])]) := by
  decide +kernel

/-- … it was StopIteration -/
theorem fix_9f4a9df_all_zero_before_witness :
    byConstituencyImplOld (acceptsPrevGains haT) false (eval haT) .none Option.none argsAllZero = .error eStop := by
  decide +kernel

def argsMissing : Args :=
  { votes := nested [(100, [(0, 50), (1, 10)]), (101, [(0, 3), (1, 4)])], n := some (.num 2) }

/-- repaired by 9f4a9df: a constituency the apportioner gave no seat has no seats … -/
theorem fix_9f4a9df_missing_district_now :
    WellFormed (.byConstituency haT (.ev haT) Option.none) = true
    ∧ eval (.byConstituency haT (.ev haT) Option.none) argsMissing
        = .ok (.dict [(.cand 100, sv [(0, 2)]), (.cand 101, .dict [])])
    ∧ denote (.byConstituency haT (.ev haT) Option.none) argsMissing
        = .ok (.dict [(.cand 100, sv [(0, 2)]), (.cand 101, .dict [])]) := by
  decide +kernel

/-- … it was handed `n_seats=None` -/
theorem fix_9f4a9df_missing_district_before_witness :
    byConstituencyImplOld (acceptsPrevGains haT) false (eval haT) (.ev (eval haT)) Option.none argsMissing
      = .error eType := by
  decide +kernel

def treeMaxForced : Ev := .byConstituency (.conditioned (thrT 2) plurT 1) .none Option.none
def argsMaxForced : Args :=
  { votes := nested [(100, [(0, 5), (1, 1)]), (101, [(0, 3), (1, 4)])], n := some (.num 1) }

/-- repaired by e582ee8: ByConstituency hands `max_seats` only to an evaluator that accepts it … -/
theorem fix_e582ee8_max_seats_now :
    WellFormed treeMaxForced = true ∧ argsMaxForced.fits (takes treeMaxForced) = true
    ∧ eval treeMaxForced argsMaxForced = .ok (.dict [(.cand 100, .list [.cand 0]), (.cand 101, .list [.cand 1])])
    ∧ denote treeMaxForced argsMaxForced
        = .ok (.dict [(.cand 100, .list [.cand 0]), (.cand 101, .list [.cand 1])]) := by
  decide +kernel

/-- … it went with `prev_gains` to every evaluator accepting those (Plurality got `max_seats`) -/
theorem fix_e582ee8_max_seats_before_witness :
    byConstituencyImplOld (acceptsPrevGains904 (.conditioned (thrT 2) plurT 1)) false
        (eval (.conditioned (thrT 2) plurT 1)) .none Option.none argsMaxForced = .error eType := by
  decide +kernel

def treeByPartyNone : Ev := .byParty (.fixedSeatCount haT (.num 3)) (some haT)
def argsByPartyNone : Args := { votes := nested [(100, [(0, 5), (1, 1)]), (101, [(0, 3), (1, 4)])] }

/-- repaired by e582ee8: ByParty hands `n_seats` only to an overall evaluator that takes it … -/
theorem fix_e582ee8_byParty_seatless_now :
    WellFormed treeByPartyNone = true ∧ argsByPartyNone.fits (takes treeByPartyNone) = true
    ∧ eval treeByPartyNone argsByPartyNone
        = .ok (.dict [(.cand 100, sv [(0, 1)]), (.cand 101, sv [(0, 1), (1, 1)])])
    ∧ denote treeByPartyNone argsByPartyNone
        = .ok (.dict [(.cand 100, sv [(0, 1)]), (.cand 101, sv [(0, 1), (1, 1)])]) := by
  decide +kernel

/-- … it always did (`overallSeats := true`) -/
theorem fix_e582ee8_byParty_seatless_before_witness :
    byPartyImplOld true (acceptsPrevGains haT) (eval (.fixedSeatCount haT (.num 3))) (eval haT) argsByPartyNone
      = .error eType := by
  decide +kernel

/-- the same slip in ByParty (overall evaluator with a default seat count) and in ByConstituency's
    preselector, repaired by the same patch -/
def s2d1 : Conv := .selectionToDistribution (.num 1)
def treeByPartyDefault : Ev := .byParty (.postConverted plurT s2d1) (some haT)

theorem fix_cond_none_seats_byParty_now :
    WellFormed treeByPartyDefault = true ∧ argsByPartyNone.fits (takes treeByPartyDefault) = true
    ∧ eval treeByPartyDefault argsByPartyNone = .ok (.dict [(.cand 100, sv [(0, 1)]), (.cand 101, .dict [])])
    ∧ denote treeByPartyDefault argsByPartyNone
        = .ok (.dict [(.cand 100, sv [(0, 1)]), (.cand 101, .dict [])]) := by
  decide +kernel

theorem fix_cond_none_seats_byParty_before_witness :
    byPartyImplOld (acceptsSeats (.postConverted plurT s2d1)) (acceptsPrevGains haT)
      (eval (.postConverted plurT s2d1)) (eval haT) argsByPartyNone = .error eType := by
  decide +kernel

def treePreselDefault : Ev := .byConstituency haT (.int 2) (some plurT)

theorem fix_cond_none_seats_preselector_now :
    WellFormed treePreselDefault = true ∧ argsByPartyNone.fits (takes treePreselDefault) = true
    ∧ eval treePreselDefault argsByPartyNone = .ok (.dict [(.cand 100, sv [(0, 2)]), (.cand 101, sv [(0, 2)])])
    ∧ denote treePreselDefault argsByPartyNone
        = .ok (.dict [(.cand 100, sv [(0, 2)]), (.cand 101, sv [(0, 2)])]) := by
  decide +kernel

theorem fix_cond_none_seats_preselector_before_witness :
    byConstituencyImplOld (acceptsPrevGains haT) (acceptsSeats plurT) (eval haT) (.int 2) (some (eval plurT))
      argsByPartyNone = .error eType := by
  decide +kernel

/-- repaired by 5bf2df2: ByParty hands `max_seats` to its allocator only if the allocator accepts it (here
    the allocator accepts `prev_gains`, through Conditioned, but not `max_seats`); the tree is outside
    `WellFormed` (the allocator is not a full distributor), the call is covered by `byParty_law_columns` … -/
def treeByPartyMax : Ev :=
  .byParty haT (some (.postConverted (.conditioned (thrT 0) plurT 1) (.selectionToDistribution (.num 1))))
def argsByPartyMax : Args :=
  { votes := nested [(100, [(0, 5), (1, 1)]), (101, [(0, 3), (1, 4)])], n := some (.num 2) }

theorem fix_5bf2df2_byParty_max_seats_now :
    argsByPartyMax.fits (takes treeByPartyMax) = true
    ∧ eval treeByPartyMax argsByPartyMax = .ok (.dict [(.cand 100, sv [(0, 1)]), (.cand 101, sv [(1, 1)])])
    ∧ denote treeByPartyMax argsByPartyMax = .ok (.dict [(.cand 100, sv [(0, 1)]), (.cand 101, sv [(1, 1)])]) := by
  decide +kernel

/-- non-vacuity of the column hypotheses of `byParty_law_columns` for this call -/
example : (takes (.postConverted (.conditioned (thrT 0) plurT 1) (.selectionToDistribution (.num 1)))).seats = true
    ∧ (∀ k, ∃ x, partyColumn (argsByPartyMax.prev.getD (.dict [])) k = .ok x)
    ∧ (∀ k, ∃ x, partyColumn (argsByPartyMax.max.getD (.dict [])) k = .ok x) :=
  ⟨by decide +kernel, fun k => partyColumn_ok_of_nested [] (by simp) k,
   fun k => partyColumn_ok_of_nested [] (by simp) k⟩

/-- … it went with `prev_gains` (Plurality got `max_seats`) -/
theorem fix_5bf2df2_byParty_max_seats_before_witness :
    byPartyImplOld (acceptsSeats haT)
        (acceptsPrevGains (.postConverted (.conditioned (thrT 0) plurT 1) (.selectionToDistribution (.num 1))))
        (eval haT) (eval (.postConverted (.conditioned (thrT 0) plurT 1) (.selectionToDistribution (.num 1))))
        argsByPartyMax = .error eType := by
  decide +kernel

/-- non-vacuity of `byParty_law`: overall D'Hondt on the totals, each party's seats split over the constituencies -/
example :
    let t : Ev := .byParty haT (some haT)
    let a : Args := { votes := nested [(100, [(0, 5), (1, 1)]), (101, [(0, 3), (1, 4)])], n := some (.num 3) }
    WellFormed t = true ∧ a.fits (takes t) = true
    ∧ eval t a = .ok (.dict [(.cand 100, sv [(0, 1)]), (.cand 101, sv [(0, 1), (1, 1)])]) := by
  decide +kernel

/-! ## 5. what the laws say, spelled out -/

/-- per-constituency evaluation never fails for lack of an evaluated constituency (9f4a9df): whenever the
    apportionment, the preselection and every single constituency evaluate, the composition is a value -/
theorem byConstituency_total (preNeeds : Bool) (P : Sem) (app : App Sem) (pre : Option Sem) (a : Args) (seats : V)
    (allowed : Option V) (kvs : D) (rs : List (Key × Option V))
    (h1 : apportionLaw app a.votes (a.n.getD .none) = .ok seats)
    (h2 : allowedLaw preNeeds pre a.votes (a.n.getD .none) = .ok allowed)
    (h3 : a.votes = .dict kvs)
    (h4 : districtsLaw P allowed seats (a.prev.getD (.dict [])) (a.max.getD (.dict [])) (.num 0) kvs = .ok rs) :
    ∃ kind, byConstituencyLaw preNeeds P app pre a = .ok (assemble rs kind) := by
  refine ⟨(match rs.findSome? (·.2) with
    | some first => emptyLike first
    | Option.none => .dict []), ?_⟩
  have h3' : a.votes.items = .ok kvs := by rw [h3]; rfl
  simp only [byConstituencyLaw, h1, h2, h3', ok_bind, h4]
  rfl

/-- each constituency separately: in the composition, the entry of a constituency that is evaluated is
    exactly the part's result on that constituency's (preselected) votes with that constituency's seats,
    previous gains and caps -/
theorem byConstituency_pointwise (P : Sem) (allowed : Option V) (seats prev max missing : V) (kvs : D)
    (rs : List (Key × Option V)) (h : districtsLaw P allowed seats prev max missing kvs = .ok rs) :
    Pointwise (fun (p : Key × V) (q : Key × Option V) =>
      q.1 = p.1 ∧ ∃ sd pd md, seats = .dict sd ∧ prev = .dict pd ∧ max = .dict md ∧
        districtLaw P allowed p.2 ((D.get? sd p.1).getD missing) ((D.get? pd p.1).getD (.dict []))
          ((D.get? md p.1).getD (.dict [])) = .ok q.2) kvs rs := by
  unfold districtsLaw at h
  have hp := mapM_ok_forall₂ h
  clear h
  induction hp with
  | nil => exact .nil
  | @cons x y xs ys hxy _ ih =>
    refine .cons ?_ ih
    cases seats with
    | dict sd =>
      cases prev with
      | dict pd =>
        cases max with
        | dict md =>
          simp only [V.items, ok_bind] at hxy
          cases hd : districtLaw P allowed x.2 ((D.get? sd x.1).getD missing) ((D.get? pd x.1).getD (.dict []))
              ((D.get? md x.1).getD (.dict [])) with
          | error e => rw [hd] at hxy; cases hxy
          | ok o =>
            rw [hd] at hxy
            have : y = (x.1, o) := by cases hxy; rfl
            subst this
            exact ⟨rfl, sd, pd, md, rfl, rfl, rfl, hd⟩
        | num _ => cases hxy
        | cand _ => cases hxy
        | tie _ => cases hxy
        | none => cases hxy
        | list _ => cases hxy
      | num _ => cases hxy
      | cand _ => cases hxy
      | tie _ => cases hxy
      | none => cases hxy
      | list _ => cases hxy
    | num _ => cases hxy
    | cand _ => cases hxy
    | tie _ => cases hxy
    | none => cases hxy
    | list _ => cases hxy

/-- … and a constituency is evaluated exactly when its seat entry is not zero: its value is the part's
    result, or nothing when the part returns None -/
theorem district_evaluated (P : Sem) (allowed : Option V) (dv seats pv mx : V) (hz : isZero seats = false) :
    districtLaw P allowed dv seats pv mx
      = (do let dv' ← (match allowed with
                        | some ps => subsetVotes dv ps
                        | Option.none => pure dv)
            let r ← P { votes := dv', n := some seats, prev := some pv, max := some mx }
            pure (if isNone r then Option.none else some r)) := by
  cases allowed <;> simp [districtLaw, hz] <;> rfl

theorem district_without_seats (P : Sem) (allowed : Option V) (dv seats pv mx : V) (hz : isZero seats = true) :
    districtLaw P allowed dv seats pv mx = .ok Option.none := by
  simp [districtLaw, hz]; rfl



/-- multi-stage = chaining: the first stage runs on the previous gains, the remaining stages on the previous
    gains plus what the first stage awarded -/
theorem multistage_chain (depth : Nat) (n mx : V) (st : Sem) (sv' : V) (rest : List (Sem × V)) (acc : V) :
    chainStages depth n mx ((st, sv') :: rest) acc
      = (do let r ← st { votes := sv', n := some n, prev := some acc, max := some mx }
            let acc' ← addStage depth acc r
            chainStages depth n mx rest acc') := rfl

/-- the unused-votes chain: the next stage runs on the votes left after the quota of THIS stage's seats and
    on the seats left after THIS stage's seats (not the running total) -/
theorem unused_chain (depth : Nat) (st : Sem) (q : QuotaFn) (rest : List (Sem × Option QuotaFn)) (votes n acc : V) :
    chainUnused depth ((st, some q) :: rest) votes n acc
      = (do let r ← st { votes := votes, n := some n }
            let acc' ← addStage depth acc r
            let votes' ← useVotes q depth votes r n
            let n' ← subtractGained depth n r
            chainUnused depth rest votes' n' acc') := rfl

theorem unused_chain_last (depth : Nat) (st : Sem) (rest : List (Sem × Option QuotaFn)) (votes n acc : V) :
    chainUnused depth ((st, Option.none) :: rest) votes n acc
      = (do let r ← st { votes := votes, n := some n }
            let acc' ← addStage depth acc r
            chainUnused depth rest votes n acc') := rfl

/-- non-vacuity with whole-quota first rounds (QuotaDistributor leaves) and previous gains: three rounds,
    Hare quota, 8 seats, C already holds one: wrapper = composition = {C:2, A:4, B:3} -/
def hareQ : QuotaFn := fun tot n =>
  if n.den = 1 ∧ 0 < n.num then .ok (tot / n) else .error eZeroDiv
def qdHare : Ev := .leaf haSig (quotaLeaf false ⟨fun v k => v / (k : Rat), true, .error⟩
  (fun v n => if n = 0 then .error eZeroDiv else .ok (v / (n : Rat))) true)

example :
    let t : Ev := .unusedVotes [qdHare, qdHare, haT] [hareQ, hareQ] 1
    let a : Args := { votes := sv [(0, 4700), (1, 3400), (2, 1900)], n := some (.num 8), prev := some (sv [(2, 1)]) }
    WellFormed t = true ∧ a.fits (takes t) = true
    ∧ eval t a = .ok (sv [(2, 2), (0, 4), (1, 3)]) ∧ denote t a = .ok (sv [(2, 2), (0, 4), (1, 3)]) := by
  decide +kernel

/-- no stage: the previous gains unchanged -/
theorem multistage_nil (depth : Nat) (n mx acc : V) : chainStages depth n mx [] acc = .ok acc := rfl

/-- tie-breaking changes nothing when the main result has no tie (selection) -/
theorem tieBreaking_noTie_sel (main tb : Sem) (a : Args) (l : List V)
    (hm : main a = .ok (.list l)) (hno : ∀ x ∈ l, x.isTie = false) :
    tieBreakingLaw main tb a = .ok (.list l) := by
  have hc : collectSel l = [] := by
    unfold collectSel
    suffices h : ∀ (acc : List (List Cand × Nat)) (l : List V), (∀ x ∈ l, x.isTie = false) →
        l.foldl (fun acc x => match x with | .tie cs => bumpTie cs acc | _ => acc) acc = acc from h [] l hno
    intro acc l
    induction l generalizing acc with
    | nil => intro _; rfl
    | cons x xs ih =>
      intro h
      have hx := h x (by simp)
      cases x <;> simp_all [V.isTie]
  simp [tieBreakingLaw, hm, hc]
  rfl

/-- … and when a distribution has no Tie key -/
theorem tieBreaking_noTie_dist (main tb : Sem) (a : Args) (d : D)
    (hm : main a = .ok (.dict d)) (hno : d.any (fun p => keyIsTie p.1) = false) :
    tieBreakingLaw main tb a = .ok (.dict d) := by
  simp [tieBreakingLaw, hm, collectDist_noTie d hno]
  rfl

/-- tie-breaking replaces each tie by the tiebreaker's choice and changes nothing else: the places of a tie
    are filled IN ORDER with the chosen candidates and every other place is kept (`fillTie`).  This is what
    the code's `result[result.index(tie)] = cand` loop does as long as no answer of a tiebreaker contains
    the very tie it was asked to break. -/
theorem tieBreaking_ideal (main tb : Sem) (a : Args)
    (hclean : ∀ l, main a = .ok (.list l) → choicesClean tb a.votes l = true) :
    tieBreakingLaw main tb a = tieBreakingIdeal main tb a := by
  simp only [tieBreakingLaw, tieBreakingIdeal]
  cases hm : main a with
  | error e => rfl
  | ok r =>
    cases r with
    | list l =>
      simp only [ok_bind]
      have hc := hclean l hm
      simp only [choicesClean, List.all_eq_true] at hc
      have : (collectSel l).foldlM (fun res t => do
              let chosen ← tieChoice tb a.votes t.1 t.2
              replaceSel res t.1 chosen) l
           = (collectSel l).foldlM (fun res t => do
              let chosen ← tieChoice tb a.votes t.1 t.2
              match fillTie t.1 res chosen with
              | some r => pure r
              | Option.none => throw .valueError) l := by
        apply foldlM_congr_mem
        intro acc t ht
        have := hc t ht
        cases hch : tieChoice tb a.votes t.1 t.2 with
        | error e => rfl
        | ok chosen =>
          rw [hch] at this
          simp only [ok_bind]
          rw [replaceSel_eq_fill t.1 chosen acc (by simpa [List.all_eq_true] using this)]
          cases fillTie t.1 acc chosen <;> rfl
      rw [this]
      rfl
    | dict d => rfl
    | num _ => rfl
    | cand _ => rfl
    | tie _ => rfl
    | none => rfl

/-- non-vacuity of `tieBreaking_ideal`: Plurality ties B and C for the second seat, the input order picks B -/
example :
    let a : Args := { votes := sv [(0, 5), (1, 3), (2, 3)], n := some (.num 2) }
    denote plurT a = .ok (.list [.cand 0, .tie [1, 2]])
    ∧ choicesClean (denote inputOrderT) a.votes [.cand 0, .tie [1, 2]] = true
    ∧ tieBreakingIdeal (denote plurT) (denote inputOrderT) a = .ok (.list [.cand 0, .cand 1])
    ∧ eval (.tieBreaking plurT inputOrderT) a = .ok (.list [.cand 0, .cand 1]) := by decide +kernel

/-- number of places recorded for tie `t` -/
def countOf (t : List Cand) (acc : List (List Cand × Nat)) : Nat :=
  match acc.find? (fun p => p.1 = t) with
  | some p => p.2
  | Option.none => 0

theorem countOf_bumpTie (t cs : List Cand) : ∀ acc : List (List Cand × Nat),
    countOf t (bumpTie cs acc) = countOf t acc + (if cs = t then 1 else 0)
  | [] => by
      by_cases h : cs = t <;> simp [bumpTie, countOf, h]
  | p :: ps => by
      by_cases hp : p.1 = cs
      · by_cases h : cs = t
        · subst h; simp [bumpTie, countOf, hp]
        · have : ¬ p.1 = t := fun e => h (hp ▸ e)
          have ih := countOf_bumpTie t cs ps
          simp [bumpTie, countOf, hp, h, this] at ih ⊢
      · have ih := countOf_bumpTie t cs ps
        by_cases hpt : p.1 = t
        · have : ¬ cs = t := fun e => hp (e ▸ hpt)
          have hne : ¬ t = cs := fun e => this e.symm
          subst hpt
          simp [bumpTie, countOf, hne, this]
        · simp only [bumpTie, hp, if_false, countOf, List.find?_cons, hpt, decide_false] at ih ⊢
          simpa [countOf] using ih

theorem countOf_foldl (t : List Cand) : ∀ (l : List V) (acc : List (List Cand × Nat)),
    countOf t (l.foldl (fun acc x => match x with
      | .tie cs => bumpTie cs acc
      | _ => acc) acc) = countOf t acc + tiePlaces t l
  | [], acc => by simp [tiePlaces]
  | x :: xs, acc => by
      simp only [List.foldl_cons]
      rw [countOf_foldl t xs]
      cases x with
      | tie cs =>
        simp only [countOf_bumpTie, tiePlaces, List.filter_cons]
        by_cases h : cs = t <;> simp [h] <;> omega
      | num _ => simp [tiePlaces]
      | cand _ => simp [tiePlaces]
      | none => simp [tiePlaces]
      | list _ => simp [tiePlaces]
      | dict _ => simp [tiePlaces]

/-- every tie is put to the tiebreaker with exactly its number of places in the main result -/
theorem collectSel_count (t : List Cand) (l : List V) : countOf t (collectSel l) = tiePlaces t l := by
  have := countOf_foldl t l []
  simp only [countOf, List.find?_nil, Nat.zero_add] at this
  unfold collectSel countOf
  exact this

def keysOf (acc : List (List Cand × Nat)) : List (List Cand) := acc.map (·.1)

theorem keysOf_bumpTie (cs : List Cand) : ∀ acc : List (List Cand × Nat),
    keysOf (bumpTie cs acc) = if cs ∈ keysOf acc then keysOf acc else keysOf acc ++ [cs]
  | [] => by simp [bumpTie, keysOf]
  | p :: ps => by
      have ih := keysOf_bumpTie cs ps
      by_cases hp : p.1 = cs
      · simp [bumpTie, keysOf, hp]
      · have hne : ¬ cs = p.1 := fun e => hp e.symm
        simp only [keysOf] at ih
        by_cases hm : cs ∈ ps.map (·.1)
        · simp [bumpTie, keysOf, hp, hne, hm, ih]
        · simp [bumpTie, keysOf, hp, hne, hm, ih]

theorem keysOf_foldl : ∀ (l : List V) (acc : List (List Cand × Nat)),
    keysOf (l.foldl (fun acc x => match x with
      | .tie cs => bumpTie cs acc
      | _ => acc) acc) = keysOf acc ++ (distinctTies l).filter (fun t => decide (t ∉ keysOf acc))
  | [], acc => by simp [distinctTies]
  | x :: xs, acc => by
      simp only [List.foldl_cons]
      rw [keysOf_foldl xs]
      cases x with
      | tie t =>
        simp only [keysOf_bumpTie, distinctTies]
        by_cases hm : t ∈ keysOf acc
        · simp only [hm, if_true, List.filter_cons, decide_not, not_true_eq_false, decide_false,
            Bool.not_true, Bool.false_eq_true, if_false, List.filter_filter]
          congr 1
          apply List.filter_congr
          intro u _
          by_cases hu : u ∈ keysOf acc
          · simp [hu]
          · have : u ≠ t := fun e => hu (e ▸ hm)
            simp [hu, this]
        · simp only [hm, if_false, List.filter_cons, decide_not, decide_true, Bool.not_false, if_true,
            List.append_assoc, List.singleton_append, List.filter_filter]
          congr 2
          apply List.filter_congr
          intro u _
          by_cases hu : u ∈ keysOf acc <;> by_cases hut : u = t <;> simp [hu, hut]
      | num _ => simp [distinctTies]
      | cand _ => simp [distinctTies]
      | none => simp [distinctTies]
      | list _ => simp [distinctTies]
      | dict _ => simp [distinctTies]

/-- the ties reach the tiebreaker in the order of their first appearance in the main result, each once -/
theorem collectSel_keys (l : List V) : keysOf (collectSel l) = distinctTies l := by
  have := keysOf_foldl l []
  simp only [keysOf, List.map_nil, List.not_mem_nil, not_false_eq_true, decide_true, List.nil_append] at this
  have hf : (distinctTies l).filter (fun _ => true) = distinctTies l := List.filter_eq_self.mpr (fun _ _ => rfl)
  rw [hf] at this
  unfold collectSel keysOf
  exact this

theorem mem_distinctTies (t : List Cand) : ∀ (l : List V), t ∈ distinctTies l ↔ V.tie t ∈ l
  | [] => by simp [distinctTies]
  | x :: xs => by
      have ih := mem_distinctTies t xs
      cases x with
      | tie u =>
        simp only [distinctTies, List.mem_cons, List.mem_filter, V.tie.injEq]
        constructor
        · rintro (h | ⟨h, _⟩)
          · exact Or.inl h
          · exact Or.inr (ih.mp h)
        · rintro (h | h)
          · exact Or.inl h
          · by_cases htu : t = u
            · exact Or.inl htu
            · exact Or.inr ⟨ih.mpr h, by simpa using htu⟩
      | num _ => simpa [distinctTies] using ih
      | cand _ => simpa [distinctTies] using ih
      | none => simpa [distinctTies] using ih
      | list _ => simpa [distinctTies] using ih
      | dict _ => simpa [distinctTies] using ih

theorem distinctTies_nodup : ∀ (l : List V), (distinctTies l).Nodup
  | [] => by simp [distinctTies]
  | x :: xs => by
      have ih := distinctTies_nodup xs
      cases x with
      | tie u =>
        simp only [distinctTies, List.nodup_cons, List.mem_filter]
        exact ⟨by simp, ih.filter _⟩
      | num _ => simpa [distinctTies] using ih
      | cand _ => simpa [distinctTies] using ih
      | none => simpa [distinctTies] using ih
      | list _ => simpa [distinctTies] using ih
      | dict _ => simpa [distinctTies] using ih

theorem countOf_of_mem_nodup : ∀ (acc : List (List Cand × Nat)) (p : List Cand × Nat),
    (keysOf acc).Nodup → p ∈ acc → countOf p.1 acc = p.2
  | [], _, _, h => by cases h
  | q :: qs, p, hnd, h => by
      simp only [keysOf, List.map_cons, List.nodup_cons] at hnd
      simp only [List.mem_cons] at h
      rcases h with h | h
      · subst h; simp [countOf]
      · have hne : ¬ q.1 = p.1 := by
          intro e
          exact hnd.1 (e ▸ List.mem_map.mpr ⟨p, h, rfl⟩)
        have := countOf_of_mem_nodup qs p hnd.2 h
        simp only [countOf, List.find?_cons, hne, decide_false] at this ⊢
        exact this

theorem eq_map_of_values {f : List Cand → Nat} : ∀ (acc : List (List Cand × Nat)),
    (∀ p ∈ acc, p.2 = f p.1) → acc = (keysOf acc).map (fun t => (t, f t))
  | [], _ => rfl
  | q :: qs, h => by
      have hq := h q (by simp)
      have := eq_map_of_values (f := f) qs (fun p hp => h p (by simp [hp]))
      simp only [keysOf, List.map_cons, List.map_map] at this ⊢
      rw [← hq]
      congr 1

/-- **collectSel_order.**  What `TieBreaking._collect_ties` hands to the loop over the ties is: every distinct tie
    of the main result, in order of first appearance, exactly once, with exactly its number of places -/
theorem collectSel_order (l : List V) :
    collectSel l = (distinctTies l).map (fun t => (t, tiePlaces t l)) := by
  have hk := collectSel_keys l
  have hnd : (keysOf (collectSel l)).Nodup := hk ▸ distinctTies_nodup l
  have := eq_map_of_values (f := fun t => tiePlaces t l) (collectSel l) (fun p hp => by
    rw [← collectSel_count p.1 l, countOf_of_mem_nodup _ p hnd hp])
  rw [hk] at this
  exact this


/-- `fillTie` changes nothing else: every place that does not hold the tie keeps its entry … -/
theorem fillTie_other_places (t : List Cand) : ∀ (res chosen out : List V), fillTie t res chosen = some out →
    ∀ (i : Nat) (x : V), res[i]? = some x → notTie t x = true → out[i]? = some x
  | res, [], out, h, i, x, hi, _ => by simp [fillTie] at h; subst h; exact hi
  | [], _ :: _, out, h, _, _, _, _ => by simp [fillTie] at h
  | y :: ys, c :: cs, out, h, i, x, hi, hx => by
      by_cases hy : notTie t y = true
      · rw [fillTie_cons_other t y hy] at h
        cases hf : fillTie t ys (c :: cs) with
        | none => simp [hf] at h
        | some o =>
          simp [hf] at h; subst h
          cases i with
          | zero => simpa using hi
          | succ j =>
            simp only [List.getElem?_cons_succ] at hi ⊢
            exact fillTie_other_places t ys (c :: cs) o hf j x hi hx
      · have hyt : y = .tie t := by cases y <;> simp_all [notTie]
        subst hyt
        simp only [fillTie, if_true] at h
        cases hf : fillTie t ys cs with
        | none => simp [hf] at h
        | some o =>
          simp [hf] at h; subst h
          cases i with
          | zero =>
            simp at hi; subst hi
            simp [notTie] at hx
          | succ j =>
            simp only [List.getElem?_cons_succ] at hi ⊢
            exact fillTie_other_places t ys cs o hf j x hi hx

/-- … and never changes the number of places -/
theorem fillTie_length (t : List Cand) : ∀ (res chosen out : List V), fillTie t res chosen = some out →
    out.length = res.length
  | res, [], out, h => by simp [fillTie] at h; subst h; rfl
  | [], _ :: _, out, h => by simp [fillTie] at h
  | x :: xs, c :: cs, out, h => by
      by_cases hx : notTie t x = true
      · rw [fillTie_cons_other t x hx] at h
        cases hf : fillTie t xs (c :: cs) with
        | none => simp [hf] at h
        | some o => simp [hf] at h; subst h; simp [fillTie_length t xs (c :: cs) o hf]
      · have hxt : x = .tie t := by cases x <;> simp_all [notTie]
        subst hxt
        simp only [fillTie, if_true] at h
        cases hf : fillTie t xs cs with
        | none => simp [hf] at h
        | some o => simp [hf] at h; subst h; simp [fillTie_length t xs cs o hf]

theorem mem_takeWhile_holds {α : Type} (p : α → Bool) : ∀ (l : List α) (x : α), x ∈ l.takeWhile p → p x = true
  | [], _, h => by cases h
  | y :: ys, x, h => by
      by_cases hy : p y = true
      · simp only [List.takeWhile_cons, hy, if_true, List.mem_cons] at h
        rcases h with h | h
        · subst h; exact hy
        · exact mem_takeWhile_holds p ys x h
      · simp [List.takeWhile_cons, hy] at h

theorem notTie_false_iff (t : List Cand) (x : V) : notTie t x = false ↔ x = .tie t := by
  cases x <;> simp [notTie]

theorem replaceFirst_self (t : List Cand) : ∀ (r : List V), 1 ≤ tiePlaces t r → replaceFirst t (.tie t) r = some r
  | [], h => by simp [tiePlaces] at h
  | x :: xs, h => by
      by_cases hx : notTie t x = true
      · rw [replaceFirst_cons_other t x _ hx]
        have : 1 ≤ tiePlaces t xs := by
          cases x <;> simp_all [tiePlaces, notTie, List.filter_cons]
        simp [replaceFirst_self t xs this]
      · have hxt : x = .tie t := (notTie_false_iff t x).mp (by simpa using hx)
        subst hxt
        simp [replaceFirst]

theorem replaceSel_all_tie (t : List Cand) (r : List V) : ∀ (ts : List V), (∀ x ∈ ts, x = V.tie t) →
    (ts = [] ∨ 1 ≤ tiePlaces t r) → replaceSel r t ts = .ok r
  | [], _, _ => rfl
  | x :: xs, hall, hp => by
      have hx := hall x (by simp)
      subst hx
      have h1 : 1 ≤ tiePlaces t r := by
        rcases hp with h | h
        · cases h
        · exact h
      simp only [replaceSel, List.foldlM_cons, replaceFirst_self t r h1, ok_bind]
      exact replaceSel_all_tie t r xs (fun y hy => hall y (by simp [hy])) (Or.inr h1)

theorem tiePlaces_cons_tie (t : List Cand) (xs : List V) : tiePlaces t (V.tie t :: xs) = tiePlaces t xs + 1 := by
  simp [tiePlaces, List.filter_cons]

theorem tiePlaces_cons_other (t : List Cand) (x : V) (hx : notTie t x = true) (xs : List V) :
    tiePlaces t (x :: xs) = tiePlaces t xs := by
  cases x <;> simp_all [tiePlaces, notTie, List.filter_cons]

theorem fillTie_all_tie (t : List Cand) : ∀ (r ts : List V), (∀ x ∈ ts, x = V.tie t) →
    ts.length ≤ tiePlaces t r → fillTie t r ts = some r
  | r, [], _, _ => by simp [fillTie]
  | [], _ :: _, _, h => by simp [tiePlaces] at h
  | x :: xs, c :: cs, hall, h => by
      have hc := hall c (by simp)
      subst hc
      by_cases hx : notTie t x = true
      · rw [fillTie_cons_other t x hx]
        rw [tiePlaces_cons_other t x hx] at h
        simp [fillTie_all_tie t xs (V.tie t :: cs) hall h]
      · have hxt : x = .tie t := (notTie_false_iff t x).mp (by simpa using hx)
        subst hxt
        rw [tiePlaces_cons_tie] at h
        simp only [fillTie, if_true]
        have := fillTie_all_tie t xs cs (fun y hy => hall y (by simp [hy])) (by simpa using h)
        simp [this]

theorem fillTie_some (t : List Cand) : ∀ (res cs : List V), cs.length ≤ tiePlaces t res →
    ∃ r, fillTie t res cs = some r
  | res, [], _ => ⟨res, by simp [fillTie]⟩
  | [], _ :: _, h => by simp [tiePlaces] at h
  | x :: xs, c :: cs, h => by
      by_cases hx : notTie t x = true
      · rw [fillTie_cons_other t x hx]
        rw [tiePlaces_cons_other t x hx] at h
        obtain ⟨r, hr⟩ := fillTie_some t xs (c :: cs) h
        exact ⟨x :: r, by simp [hr]⟩
      · have hxt : x = .tie t := (notTie_false_iff t x).mp (by simpa using hx)
        subst hxt
        rw [tiePlaces_cons_tie] at h
        obtain ⟨r, hr⟩ := fillTie_some t xs cs (by simpa using h)
        exact ⟨c :: r, by simp [fillTie, hr]⟩

theorem tiePlaces_fillTie (t : List Cand) : ∀ (res cs r : List V), cs.all (notTie t) = true →
    fillTie t res cs = some r → tiePlaces t r + cs.length = tiePlaces t res
  | res, [], r, _, h => by simp [fillTie] at h; subst h; simp
  | [], _ :: _, r, _, h => by simp [fillTie] at h
  | x :: xs, c :: cs, r, hall, h => by
      simp only [List.all_cons, Bool.and_eq_true] at hall
      by_cases hx : notTie t x = true
      · rw [fillTie_cons_other t x hx] at h
        cases hf : fillTie t xs (c :: cs) with
        | none => simp [hf] at h
        | some o =>
          simp [hf] at h; subst h
          have := tiePlaces_fillTie t xs (c :: cs) o (by simp [hall.1, hall.2]) hf
          rw [tiePlaces_cons_other t x hx, tiePlaces_cons_other t x hx]
          exact this
      · have hxt : x = .tie t := (notTie_false_iff t x).mp (by simpa using hx)
        subst hxt
        simp only [fillTie, if_true] at h
        cases hf : fillTie t xs cs with
        | none => simp [hf] at h
        | some o =>
          simp [hf] at h; subst h
          have := tiePlaces_fillTie t xs cs o hall.2 hf
          rw [tiePlaces_cons_tie, tiePlaces_cons_other t c hall.1]
          simp only [List.length_cons]
          omega

theorem fillTie_append (t : List Cand) (ts : List V) : ∀ (cs res : List V), cs.all (notTie t) = true →
    fillTie t res (cs ++ ts) = (fillTie t res cs).bind (fun r => fillTie t r ts)
  | [], res, _ => by simp [fillTie]
  | c :: cs, res, hall => by
      simp only [List.all_cons, Bool.and_eq_true] at hall
      rw [List.cons_append, fillTie_step t c hall.1, fillTie_step t c hall.1]
      cases replaceFirst t c res with
      | none => rfl
      | some r => simp [fillTie_append t ts cs r hall.2]

/-- the code's `result[result.index(tie)] = cand` loop and filling the places in order agree for every answer that
    names the tie itself only at the end and is not longer than the tie has places -/
theorem replaceSel_eq_fill_tiesLast (t : List Cand) (chosen res : List V) (hl : tiesLast t chosen = true)
    (hlen : chosen.length ≤ tiePlaces t res) :
    replaceSel res t chosen = (match fillTie t res chosen with
      | some r => .ok r
      | Option.none => .error .valueError) := by
  have hsplit : chosen = chosen.takeWhile (notTie t) ++ chosen.dropWhile (notTie t) :=
    (List.takeWhile_append_dropWhile).symm
  have hcs : (chosen.takeWhile (notTie t)).all (notTie t) = true := by
    rw [List.all_eq_true]; intro x hx; exact mem_takeWhile_holds _ _ x hx
  have hts : ∀ x ∈ chosen.dropWhile (notTie t), x = V.tie t := by
    intro x hx
    have := (List.all_eq_true.mp hl) x hx
    exact (notTie_false_iff t x).mp (by simpa using this)
  have hlen' : (chosen.takeWhile (notTie t)).length + (chosen.dropWhile (notTie t)).length ≤ tiePlaces t res := by
    rw [← List.length_append, ← hsplit]; exact hlen
  obtain ⟨r, hr⟩ := fillTie_some t res (chosen.takeWhile (notTie t)) (by omega)
  have hpl := tiePlaces_fillTie t res _ r hcs hr
  have hfill : fillTie t res chosen = some r := by
    rw [hsplit, fillTie_append t _ _ res hcs, hr]
    exact fillTie_all_tie t r _ hts (by omega)
  have hrep : replaceSel res t chosen = .ok r := by
    rw [hsplit]
    unfold replaceSel
    rw [List.foldlM_append]
    have h1 := replaceSel_eq_fill t (chosen.takeWhile (notTie t)) res hcs
    unfold replaceSel at h1
    rw [h1, hr]
    have h2 := replaceSel_all_tie t r (chosen.dropWhile (notTie t)) hts (by
      by_cases he : chosen.dropWhile (notTie t) = []
      · exact Or.inl he
      · right
        have : 0 < (chosen.dropWhile (notTie t)).length := List.length_pos_iff.mpr he
        omega)
    unfold replaceSel at h2
    exact h2
  rw [hrep, hfill]


theorem tieLoop_eq_fill (tb : Sem) (votes : V) : ∀ (ties : List (List Cand × Nat)) (res : List V),
    answersTiesLast tb votes ties res = true →
    ties.foldlM (fun res t => do
        let chosen ← tieChoice tb votes t.1 t.2
        replaceSel res t.1 chosen) res
      = ties.foldlM (fun res t => do
        let chosen ← tieChoice tb votes t.1 t.2
        match fillTie t.1 res chosen with
        | some r => pure r
        | Option.none => throw .valueError) res
  | [], _, _ => rfl
  | t :: ts, res, h => by
      simp only [List.foldlM_cons]
      unfold answersTiesLast at h
      cases hch : tieChoice tb votes t.1 t.2 with
      | error e => rfl
      | ok chosen =>
        rw [hch] at h
        simp only [Bool.and_eq_true, decide_eq_true_eq] at h
        obtain ⟨⟨hl, hlen⟩, hrest⟩ := h
        simp only [ok_bind]
        have hstep := replaceSel_eq_fill_tiesLast t.1 chosen res hl hlen
        rw [hstep]
        cases hf : fillTie t.1 res chosen with
        | none => rfl
        | some r =>
          rw [hstep, hf] at hrest
          simp only [ok_bind]
          exact tieLoop_eq_fill tb votes ts r hrest

/-- **a tiebreaker that answers with the very tie it was asked to break** (e.g. Plurality tying again on all or on the
    last places).  As long as every answer names that tie only at its END and is not longer than the tie has places,
    the code's loop and the fill-in-order reading agree — the remaining places simply keep the tie. -/
theorem tieBreaking_ideal_tiesLast (main tb : Sem) (a : Args)
    (h : ∀ l, main a = .ok (.list l) → answersTiesLast tb a.votes (collectSel l) l = true) :
    tieBreakingLaw main tb a = tieBreakingIdeal main tb a := by
  simp only [tieBreakingLaw, tieBreakingIdeal]
  cases hm : main a with
  | error e => rfl
  | ok r =>
    cases r with
    | list l =>
      simp only [ok_bind]
      rw [tieLoop_eq_fill tb a.votes (collectSel l) l (h l hm)]
      rfl
    | dict d => rfl
    | num _ => rfl
    | cand _ => rfl
    | tie _ => rfl
    | none => rfl

/-- non-vacuity: Plurality ties A, B, C for two places; the tiebreaker Plurality ties them again on both; the result
    keeps the ties, code = fill-in-order -/
example :
    let a : Args := { votes := sv [(0, 9), (1, 5), (2, 5), (3, 5)], n := some (.num 3) }
    denote plurT a = .ok (.list [.cand 0, .tie [1, 2, 3], .tie [1, 2, 3]])
    ∧ choicesClean (denote plurT) a.votes [.cand 0, .tie [1, 2, 3], .tie [1, 2, 3]] = false
    ∧ answersTiesLast (denote plurT) a.votes (collectSel [.cand 0, .tie [1, 2, 3], .tie [1, 2, 3]])
        [.cand 0, .tie [1, 2, 3], .tie [1, 2, 3]] = true
    ∧ eval (.tieBreaking plurT plurT) a = .ok (.list [.cand 0, .tie [1, 2, 3], .tie [1, 2, 3]])
    ∧ tieBreakingIdeal (denote plurT) (denote plurT) a = .ok (.list [.cand 0, .tie [1, 2, 3], .tie [1, 2, 3]]) := by
  decide +kernel

/-- a tiebreaker that names the tie FIRST and a candidate after it (no selector built on `get_n_best` does) -/
def tieFirstT : Ev := .leaf pluralitySig (fun _ => .ok (.list [.tie [1, 2, 3], .cand 1]))

/-- **where they differ.**  `result[result.index(tie)] = cand` finds the place it has just written the tie into again:
    the code (probed on the live TieBreaking with such a tiebreaker: `['x', 'a', Tie]`) and the interpreter put the
    candidate on the FIRST tied place, filling in order puts it on the second -/
theorem tieBreaking_tie_first_witness :
    let a : Args := { votes := sv [(0, 9), (1, 5), (2, 5), (3, 5)], n := some (.num 3) }
    answersTiesLast (denote tieFirstT) a.votes (collectSel [.cand 0, .tie [1, 2, 3], .tie [1, 2, 3]])
        [.cand 0, .tie [1, 2, 3], .tie [1, 2, 3]] = false
    ∧ eval (.tieBreaking plurT tieFirstT) a = .ok (.list [.cand 0, .cand 1, .tie [1, 2, 3]])
    ∧ tieBreakingLaw (denote plurT) (denote tieFirstT) a = .ok (.list [.cand 0, .cand 1, .tie [1, 2, 3]])
    ∧ tieBreakingIdeal (denote plurT) (denote tieFirstT) a = .ok (.list [.cand 0, .tie [1, 2, 3], .cand 1]) := by
  decide +kernel


/-- the tiebreaker is asked about exactly the tied candidates: every key of the votes it sees is a member of
    the tie -/
theorem tieChoice_among (votes : V) (tie : List Cand) (among : V) (h : subsetVotes votes (.tie tie) = .ok among) :
    ∃ kvs, among = .dict kvs ∧ ∀ p ∈ kvs, ∃ c, p.1 = Key.cand c ∧ c ∈ tie := by
  cases votes with
  | dict vs =>
    simp only [subsetVotes, V.items, ok_bind] at h
    cases hk : vs.filterMapM (fun p => do
        let b ← keyIn p.1 (.tie tie)
        if b then do let _ ← p.2.asNum; pure (some p) else pure Option.none) with
    | error e => rw [hk] at h; cases h
    | ok kept =>
      rw [hk] at h
      have h' : among = .dict kept := by cases h; rfl
      refine ⟨kept, h', ?_⟩
      intro p hp
      obtain ⟨x, _, hx⟩ := filterMapM_ok_mem hk p hp
      obtain ⟨k, v⟩ := x
      cases k with
      | tie cs => simp [keyIn] at hx; cases hx
      | cand c =>
        simp only [keyIn, ok_bind] at hx
        by_cases hc : tie.contains c = true
        · simp only [hc, if_true] at hx
          cases hv : v.asNum with
          | error e => rw [hv] at hx; cases hx
          | ok r =>
            rw [hv] at hx
            have : p = (Key.cand c, v) := by cases hx; rfl
            subst this
            exact ⟨c, rfl, by simpa using hc⟩
        · simp only [Bool.not_eq_true] at hc
          simp only [hc] at hx
          cases hx
  | num _ => simp [subsetVotes, V.items] at h
  | cand _ => simp [subsetVotes, V.items] at h
  | tie _ => simp [subsetVotes, V.items] at h
  | none => simp [subsetVotes, V.items] at h
  | list _ => simp [subsetVotes, V.items] at h

theorem Pointwise.imp {α β : Type} {R S : α → β → Prop} (h : ∀ x y, R x y → S x y) :
    ∀ {l : List α} {r : List β}, Pointwise R l r → Pointwise S l r
  | _, _, .nil => .nil
  | _, _, .cons hxy rest => .cons (h _ _ hxy) (Pointwise.imp h rest)

theorem closedList_ok (pl : V) (x y : Key × V) (h : closedList pl x = .ok y) :
    y.1 = x.1 ∧ ∃ pld lst k, pl = .dict pld ∧ D.get? pld x.1 = some (.list lst) ∧ x.2.asNat = .ok k
      ∧ y.2 = .list (lst.take k) ∧ (lst.take k).length = min k lst.length := by
  unfold closedList at h
  cases pl with
  | dict pld =>
    simp only [pure_bind] at h
    cases hg : D.get? pld x.1 with
    | none => simp [hg] at h; cases h
    | some lv =>
      cases lv with
      | list lst =>
        simp only [hg] at h
        cases hk : x.2.asNat with
        | error e => rw [hk] at h; cases h
        | ok k =>
          rw [hk] at h
          have : y = (x.1, V.list (lst.take k)) := by cases h; rfl
          subst this
          exact ⟨rfl, pld, lst, k, rfl, hg, rfl, rfl, List.length_take⟩
      | num _ => simp [hg] at h; cases h
      | cand _ => simp [hg] at h; cases h
      | tie _ => simp [hg] at h; cases h
      | none => simp [hg] at h; cases h
      | dict _ => simp [hg] at h; cases h
  | num _ => cases h
  | cand _ => cases h
  | tie _ => cases h
  | none => cases h
  | list _ => cases h

/-- party-list evaluation seats exactly as many list candidates as the party won: with closed lists the
    result has one entry per party of the party result, namely the first `k` candidates of the party's
    list, `k` the party's seats (the whole list when it is shorter) -/
theorem partyList_seats_exactly (P : Sem) (c : Option (V → Except Err V)) (a : Args) (r : V)
    (h : partyListLaw P Option.none c a = .ok r) :
    ∃ n pl won rs, a.n = some n ∧ a.pl = some pl
      ∧ P { votes := a.votes, n := some n, prev := a.prev, max := a.max } = .ok (.dict won)
      ∧ r = .dict rs
      ∧ Pointwise (fun (w : Key × V) (q : Key × V) => q.1 = w.1 ∧ ∃ pld lst k, pl = .dict pld
          ∧ D.get? pld w.1 = some (.list lst) ∧ w.2.asNat = .ok k ∧ q.2 = .list (lst.take k)
          ∧ (lst.take k).length = min k lst.length) won rs := by
  simp only [partyListLaw] at h
  cases hn : a.n with
  | none => rw [hn] at h; cases h
  | some n =>
    rw [hn] at h
    cases hpl : a.pl with
    | none => rw [hpl] at h; cases h
    | some pl =>
      rw [hpl] at h
      simp only [pure_bind] at h
      cases hw : P { votes := a.votes, n := some n, prev := a.prev, max := a.max } with
      | error e => rw [hw] at h; cases h
      | ok wv =>
        rw [hw] at h
        simp only [ok_bind] at h
        cases wv with
        | dict won =>
          simp only [V.items, ok_bind] at h
          by_cases hlv : (a.lv.getD V.none).truthy = true
          · simp [hlv] at h
          · simp only [hlv] at h
            cases hm : won.mapM (closedList pl) with
            | error e => simp [hm] at h; cases h
            | ok rs =>
              simp [hm] at h
              exact ⟨n, pl, won, rs, rfl, rfl, hw, (by cases h; rfl),
                Pointwise.imp (closedList_ok pl) (mapM_ok_forall₂ hm)⟩
        | num _ => cases h
        | cand _ => cases h
        | tie _ => cases h
        | none => cases h
        | list _ => cases h

/-- what a list evaluator owes the party-list clause: it answers with exactly `min(n, |list|)` DISTINCT MEMBERS of the
    list it was given.  `VL.C16.openlist_length_distinct` (Props/C16.lean) proves this of ThresholdOpenList for every
    configuration, for a duplicate-free list containing everybody who received votes and `n ≤ |list|`. -/
def ListEvalExact (le : ListSem) : Prop :=
  ∀ pv k lst out, le pv k lst = .ok out →
    ∃ (n : Nat) (members sel : List V), k.asNat = .ok n ∧ lst = .list members ∧ out = .list sel
      ∧ sel.length = min n members.length ∧ sel.Nodup ∧ ∀ x ∈ sel, x ∈ members

theorem openList_ok (le : ListSem) (hle : ListEvalExact le) (lv pl : V) (x y : Key × V)
    (h : openList le lv pl x = .ok y) :
    y.1 = x.1 ∧ ∃ pld members k sel, pl = .dict pld ∧ D.get? pld x.1 = some (.list members) ∧ x.2.asNat = .ok k
      ∧ y.2 = .list sel ∧ sel.length = min k members.length ∧ sel.Nodup ∧ ∀ c ∈ sel, c ∈ members := by
  unfold openList at h
  cases lv with
  | dict lvd =>
    simp only [pure_bind] at h
    cases hpv : D.get? lvd x.1 with
    | none => simp [hpv] at h; cases h
    | some pv =>
      simp only [hpv, pure_bind] at h
      cases pl with
      | dict pld =>
        simp only [pure_bind] at h
        cases hl : D.get? pld x.1 with
        | none => simp [hl] at h; cases h
        | some lst =>
          simp only [hl, pure_bind] at h
          cases hx : le pv x.2 lst with
          | error e => rw [hx] at h; cases h
          | ok out =>
            rw [hx] at h
            have hy : y = (x.1, out) := by cases h; rfl
            subst hy
            obtain ⟨n, members, sel, hk, hlst, hout, hlen, hnd, hsub⟩ := hle pv x.2 lst out hx
            subst hlst; subst hout
            exact ⟨rfl, pld, members, n, sel, rfl, hl, hk, rfl, hlen, hnd, hsub⟩
      | num _ => cases h
      | cand _ => cases h
      | tie _ => cases h
      | none => cases h
      | list _ => cases h
  | num _ => cases h
  | cand _ => cases h
  | tie _ => cases h
  | none => cases h
  | list _ => cases h

/-- party-list evaluation with OPEN lists seats exactly as many list candidates as the party won: for any list
    evaluator that answers with exactly `min(n, |list|)` distinct members of the list (`ListEvalExact`), the result has
    one entry per party of the party result — that many distinct members of the party's own list -/
theorem partyList_open_seats_exactly (P : Sem) (le : ListSem) (hle : ListEvalExact le)
    (c : Option (V → Except Err V)) (a : Args) (r : V)
    (h : partyListLaw P (some le) c a = .ok r) :
    ∃ n pl won rs, a.n = some n ∧ a.pl = some pl
      ∧ P { votes := a.votes, n := some n, prev := a.prev, max := a.max } = .ok (.dict won)
      ∧ r = .dict rs
      ∧ Pointwise (fun (w : Key × V) (q : Key × V) => q.1 = w.1 ∧ ∃ pld members k sel, pl = .dict pld
          ∧ D.get? pld w.1 = some (.list members) ∧ w.2.asNat = .ok k ∧ q.2 = .list sel
          ∧ sel.length = min k members.length ∧ sel.Nodup ∧ ∀ x ∈ sel, x ∈ members) won rs := by
  simp only [partyListLaw] at h
  cases hn : a.n with
  | none => rw [hn] at h; cases h
  | some n =>
    rw [hn] at h
    cases hpl : a.pl with
    | none => rw [hpl] at h; cases h
    | some pl =>
      rw [hpl] at h
      simp only [pure_bind] at h
      cases hw : P { votes := a.votes, n := some n, prev := a.prev, max := a.max } with
      | error e => rw [hw] at h; cases h
      | ok wv =>
        rw [hw] at h
        simp only [ok_bind] at h
        cases wv with
        | dict won =>
          simp only [V.items, ok_bind] at h
          by_cases hlv : (a.lv.getD V.none).truthy = true
          · simp only [hlv, Bool.not_true, Bool.false_eq_true, if_false] at h
            have fin : ∀ lv', (do let r ← List.mapM (openList le lv' pl) won; pure (V.dict r)) = Except.ok r →
                ∃ rs, r = .dict rs ∧ Pointwise (fun (w : Key × V) (q : Key × V) => q.1 = w.1 ∧ ∃ pld members k sel,
                  pl = .dict pld ∧ D.get? pld w.1 = some (.list members) ∧ w.2.asNat = .ok k ∧ q.2 = .list sel
                  ∧ sel.length = min k members.length ∧ sel.Nodup ∧ ∀ x ∈ sel, x ∈ members) won rs := by
              intro lv' h'
              cases hm : won.mapM (openList le lv' pl) with
              | error e => rw [hm] at h'; cases h'
              | ok rs =>
                rw [hm] at h'
                exact ⟨rs, (by cases h'; rfl), Pointwise.imp (openList_ok le hle lv' pl) (mapM_ok_forall₂ hm)⟩
            cases c with
            | none =>
              obtain ⟨rs, hr, hp⟩ := fin _ h
              exact ⟨n, pl, won, rs, rfl, rfl, hw, hr, hp⟩
            | some cf =>
              simp only at h
              cases hc : cf (a.lv.getD V.none) with
              | error e => rw [hc] at h; cases h
              | ok lv' =>
                rw [hc] at h
                obtain ⟨rs, hr, hp⟩ := fin lv' h
                exact ⟨n, pl, won, rs, rfl, rfl, hw, hr, hp⟩
          · simp [hlv] at h
        | num _ => cases h
        | cand _ => cases h
        | tie _ => cases h
        | none => cases h
        | list _ => cases h


/-- non-vacuity of `ListEvalExact`: the closed-list rule on duplicate-free lists is such an evaluator -/
def takeFromTop : ListSem := fun _ k lst =>
  match lst, k.asNat with
  | .list m, .ok n => if m.Nodup then .ok (.list (m.take n)) else .error .valueError
  | _, _ => .error eType

theorem listEvalExact_takeFromTop : ListEvalExact takeFromTop := by
  intro pv k lst out h
  unfold takeFromTop at h
  cases lst with
  | list m =>
    cases hk : k.asNat with
    | error e => simp [hk] at h
    | ok n =>
      simp only [hk] at h
      by_cases hnd : m.Nodup
      · simp only [hnd, if_true] at h
        have : out = .list (m.take n) := by cases h; rfl
        subst this
        exact ⟨n, m, m.take n, rfl, rfl, rfl, List.length_take, hnd.sublist (List.take_sublist _ _),
          fun x hx => List.mem_of_mem_take hx⟩
      · simp [hnd] at h
  | num _ => simp at h
  | cand _ => simp at h
  | tie _ => simp at h
  | none => simp at h
  | dict _ => simp at h


/-! ### ByParty, cell by cell -/

theorem D.get?_nil (k : Key) : D.get? [] k = Option.none := rfl

theorem D.get?_cons (p : Key × V) (d : D) (k : Key) :
    D.get? (p :: d) k = if p.1 = k then some p.2 else D.get? d k := by
  unfold D.get?
  by_cases h : p.1 = k <;> simp [List.find?_cons, h]

theorem D.has_cons (p : Key × V) (d : D) (k : Key) : D.has (p :: d) k = (decide (p.1 = k) || D.has d k) := by
  simp [D.has]

theorem D.get?_none_of_not_has (d : D) (k : Key) (h : D.has d k = false) : D.get? d k = Option.none := by
  induction d with
  | nil => rfl
  | cons p ps ih =>
    rw [D.has_cons, Bool.or_eq_false_iff] at h
    rw [D.get?_cons]
    have hp : ¬ p.1 = k := by simpa using h.1
    simp [hp, ih h.2]

theorem D.get?_map_set (k : Key) (v : V) (k' : Key) : ∀ (d : D),
    D.get? (d.map (fun p => if p.1 = k then (k, v) else p)) k'
      = if k' = k then (if D.has d k then some v else Option.none) else D.get? d k'
  | [] => by by_cases h : k' = k <;> simp [D.get?_nil, D.has, h]
  | p :: ps => by
      have ih := D.get?_map_set k v k' ps
      simp only [List.map_cons, D.get?_cons, D.has_cons]
      by_cases hp : p.1 = k
      · by_cases hk : k' = k
        · subst hk; simp [hp]
        · have : ¬ k = k' := fun e => hk e.symm
          simp [hp, hk, this, ih]
      · by_cases hk : k' = k
        · subst hk
          simp [hp, ih]
        · by_cases hpk : p.1 = k'
          · simp [hp, hk, hpk]
          · simp [hp, hk, hpk, ih]

theorem D.get?_append (d e : D) (k : Key) :
    D.get? (d ++ e) k = (match D.get? d k with | some x => some x | Option.none => D.get? e k) := by
  induction d with
  | nil => simp [D.get?_nil]
  | cons p ps ih =>
    simp only [List.cons_append, D.get?_cons]
    by_cases h : p.1 = k <;> simp [h, ih]

theorem D.get?_set (d : D) (k : Key) (v : V) (k' : Key) :
    D.get? (D.set d k v) k' = if k' = k then some v else D.get? d k' := by
  unfold D.set
  by_cases hh : D.has d k = true
  · simp only [hh, if_true, D.get?_map_set]
  · simp only [Bool.not_eq_true] at hh
    simp only [hh, Bool.false_eq_true, if_false, D.get?_append]
    by_cases hk : k' = k
    · subst hk
      simp [D.get?_none_of_not_has d k' hh, D.get?_cons, D.get?_nil]
    · have : ¬ k = k' := fun e => hk e.symm
      cases hg : D.get? d k' <;> simp [hk, D.get?_cons, D.get?_nil, this]


/-- the seats of `party` in constituency `c` in a table constituency -> party -> seats -/
def look (res : D) (c party : Key) : Option V :=
  match D.get? res c with
  | some (.dict inner) => D.get? inner party
  | _ => Option.none

/-- every entry of the table is a dict -/
def AllDicts (res : D) : Prop := ∀ q ∈ res, ∃ d, q.2 = V.dict d

theorem D.get?_mem (d : D) (k : Key) (v : V) (h : D.get? d k = some v) : (k, v) ∈ d := by
  induction d with
  | nil => simp [D.get?_nil] at h
  | cons p ps ih =>
    rw [D.get?_cons] at h
    by_cases hp : p.1 = k
    · simp only [hp, if_true, Option.some.injEq] at h
      have : p = (k, v) := by cases p; simp_all
      simp [this]
    · simp only [hp, if_false] at h
      exact List.mem_cons_of_mem _ (ih h)

theorem D.mem_set (d : D) (k : Key) (v : V) (q : Key × V) (h : q ∈ D.set d k v) : q ∈ d ∨ q = (k, v) := by
  unfold D.set at h
  by_cases hh : D.has d k = true
  · simp only [hh, if_true, List.mem_map] at h
    obtain ⟨p, hp, hq⟩ := h
    by_cases hpk : p.1 = k
    · simp only [hpk, if_true] at hq; exact Or.inr hq.symm
    · simp only [hpk, if_false] at hq; exact Or.inl (hq ▸ hp)
  · simp only [hh, Bool.false_eq_true, if_false, List.mem_append, List.mem_singleton] at h
    exact h

/-- `results[constituency][party] = seats` touches exactly that cell -/
theorem setNested_look (res : D) (hres : AllDicts res) (c party : Key) (s : V) :
    ∃ res', setNested res c party s = .ok res' ∧ AllDicts res'
      ∧ ∀ c' p', look res' c' p' = if c' = c ∧ p' = party then some s else look res c' p' := by
  have hinner : ∃ inner, ((D.get? res c).getD (.dict [])) = .dict inner ∧
      (D.get? res c = some (.dict inner) ∨ (D.get? res c = Option.none ∧ inner = [])) := by
    cases hg : D.get? res c with
    | none => exact ⟨[], rfl, Or.inr ⟨rfl, rfl⟩⟩
    | some x =>
      obtain ⟨d, hd⟩ := hres (c, x) (D.get?_mem res c x hg)
      simp only at hd
      subst hd
      exact ⟨d, rfl, Or.inl rfl⟩
  obtain ⟨inner, hin, hcase⟩ := hinner
  refine ⟨D.set res c (.dict (D.set inner party s)), ?_, ?_, ?_⟩
  · simp [setNested, hin, V.items]; rfl
  · intro q hq
    rcases D.mem_set _ _ _ q hq with h | h
    · exact hres q h
    · exact ⟨_, by rw [h]⟩
  · intro c' p'
    unfold look
    rw [D.get?_set]
    by_cases hc : c' = c
    · subst hc
      simp only [if_true, true_and, D.get?_set]
      by_cases hp : p' = party
      · simp [hp]
      · simp only [hp, if_false]
        rcases hcase with h | ⟨h, he⟩
        · simp [h]
        · simp [h, he, D.get?_nil]
    · simp [hc]

/-- a party's allocation touches only that party's column: afterwards the cell (c, party) holds what the allocation
    says for c (the last entry, if the allocation lists c twice), every other cell is unchanged -/
theorem enterAllocation_look (party : Key) : ∀ (ad : D) (res : D), AllDicts res →
    ∃ res', enterAllocation party res ad = .ok res' ∧ AllDicts res'
      ∧ ∀ c' p', look res' c' p' = if p' = party then
            (match D.get? ad.reverse c' with | some s => some s | Option.none => look res c' p')
          else look res c' p'
  | [], res, hres => ⟨res, rfl, hres, by intro c' p'; by_cases h : p' = party <;> simp [h, D.get?_nil]⟩
  | cs :: rest, res, hres => by
      obtain ⟨r1, h1, hd1, hl1⟩ := setNested_look res hres cs.1 party cs.2
      obtain ⟨r2, h2, hd2, hl2⟩ := enterAllocation_look party rest r1 hd1
      refine ⟨r2, ?_, hd2, ?_⟩
      · unfold enterAllocation at h2 ⊢
        simp only [List.foldlM_cons, h1, ok_bind]
        exact h2
      · intro c' p'
        rw [hl2 c' p', hl1 c' p']
        by_cases hp : p' = party
        · simp only [hp, if_true, and_true, List.reverse_cons, D.get?_append, D.get?_cons, D.get?_nil]
          cases hg : D.get? rest.reverse c' with
          | some s => simp
          | none =>
            by_cases hc : c' = cs.1
            · have : cs.1 = c' := hc.symm
              simp [hc]
            · have : ¬ cs.1 = c' := fun e => hc e.symm
              simp [hc, this]
        · simp [hp]

theorem look_fillEmpty (kvs : D) : ∀ (res : D) (c p : Key), look (fillEmpty kvs res) c p = look res c p := by
  unfold fillEmpty
  induction kvs with
  | nil => intro res c p; rfl
  | cons q qs ih =>
    intro res c p
    simp only [List.foldl_cons]
    rw [ih]
    by_cases hh : D.has res q.1 = true
    · simp [hh]
    · simp only [hh, Bool.false_eq_true, if_false]
      unfold look
      rw [D.get?_append]
      cases hg : D.get? res c with
      | some x => rfl
      | none =>
        simp only [D.get?_cons, D.get?_nil]
        by_cases hq : q.1 = c <;> simp [hq, D.get?_nil]


theorem has_fillEmpty_mono (kvs : D) : ∀ (res : D) (k : Key), D.has res k = true → D.has (fillEmpty kvs res) k = true := by
  unfold fillEmpty
  induction kvs with
  | nil => intro res k h; exact h
  | cons q qs ih =>
    intro res k h
    simp only [List.foldl_cons]
    apply ih
    by_cases hh : D.has res q.1 = true
    · simp [hh, h]
    · simp only [hh, Bool.false_eq_true, if_false]
      simp only [D.has, List.any_append, Bool.or_eq_true] at h ⊢
      exact Or.inl h

theorem has_fillEmpty (kvs : D) : ∀ (res : D) (q : Key × V), q ∈ kvs → D.has (fillEmpty kvs res) q.1 = true := by
  induction kvs with
  | nil => intro res q hq; cases hq
  | cons p ps ih =>
    intro res q hq
    simp only [List.mem_cons] at hq
    have hstep : fillEmpty (p :: ps) res
        = fillEmpty ps (if D.has res p.1 then res else res ++ [(p.1, V.dict [])]) := by
      simp [fillEmpty]
    rw [hstep]
    rcases hq with hq | hq
    · subst hq
      apply has_fillEmpty_mono
      by_cases hh : D.has res q.1 = true
      · simp [hh]
      · simp only [hh, Bool.false_eq_true, if_false]
        simp [D.has]
    · exact ih _ q hq

theorem look_nil (c p : Key) : look [] c p = Option.none := rfl

theorem allDicts_nil : AllDicts [] := by intro q hq; cases hq

/-- the loop over the parties of the overall result: every party's column holds that party's own allocation, no party
    touches another party's column -/
theorem byParty_fold_look (A : Sem) (kvs : D) (prev max : V) : ∀ (od res R : D), AllDicts res →
    od.foldlM (fun (res : D) pk => do
        let ad ← partyAllocation A kvs prev max pk
        enterAllocation pk.1 res ad) res = .ok R →
    (od.map (·.1)).Nodup →
    AllDicts R
    ∧ (∀ pk ∈ od, ∃ ad, partyAllocation A kvs prev max pk = .ok ad ∧ ∀ c, look R c pk.1 =
        (match D.get? ad.reverse c with | some s => some s | Option.none => look res c pk.1))
    ∧ (∀ p, p ∉ od.map (·.1) → ∀ c, look R c p = look res c p)
  | [], res, R, hres, h, _ => by
      have : R = res := by cases h; rfl
      subst this
      refine ⟨hres, ?_, ?_⟩
      · intro pk hpk
        cases hpk
      · intro p _ c
        rfl
  | pk :: rest, res, R, hres, h, hnd => by
      simp only [List.foldlM_cons] at h
      simp only [List.map_cons, List.nodup_cons] at hnd
      cases had : partyAllocation A kvs prev max pk with
      | error e => rw [had] at h; cases h
      | ok ad =>
        rw [had] at h
        simp only [ok_bind] at h
        obtain ⟨r1, h1, hd1, hl1⟩ := enterAllocation_look pk.1 ad res hres
        rw [h1] at h
        simp only [ok_bind] at h
        obtain ⟨hdR, hparts, hothers⟩ := byParty_fold_look A kvs prev max rest r1 R hd1 h hnd.2
        refine ⟨hdR, ?_, ?_⟩
        · intro pk' hpk'
          simp only [List.mem_cons] at hpk'
          rcases hpk' with hpk' | hpk'
          · subst hpk'
            refine ⟨ad, had, fun c => ?_⟩
            rw [hothers pk'.1 hnd.1 c, hl1 c pk'.1]
            simp
          · obtain ⟨ad', had', hl'⟩ := hparts pk' hpk'
            refine ⟨ad', had', fun c => ?_⟩
            have hne : ¬ pk'.1 = pk.1 := by
              intro e
              exact hnd.1 (e ▸ List.mem_map.mpr ⟨pk', hpk', rfl⟩)
            rw [hl' c, hl1 c pk'.1]
            simp [hne]
        · intro p hp c
          simp only [List.map_cons, List.mem_cons, not_or] at hp
          rw [hothers p hp.2 c, hl1 c p]
          simp [hp.1]

/-- **ByParty, spelled out.**  In the table the wrapper returns, the seats of party `p` in constituency `c` are what the
    allocator gave `c` when it split `p`'s seats (by `p`'s votes, previous gains and caps in the constituencies); a
    party the overall evaluator did not seat has no entry anywhere; constituencies nobody was seated in are present
    and empty.  (Distinct keys of the overall result: a Python dict.) -/
theorem byParty_pointwise (needs : Bool) (O A : Sem) (a : Args) (R : D)
    (h : byPartyLaw needs O A a = .ok (.dict R))
    (hnd : ∀ od, O { votes := (match voteTotals a.votes with | .ok v => v | .error _ => .none),
                     n := seatsForm needs (a.n.getD .none) } = .ok (.dict od) → (od.map (·.1)).Nodup) :
    ∃ (od kvs : D), a.votes = .dict kvs
      ∧ (∀ pk ∈ od, ∃ ad, partyAllocation A kvs (a.prev.getD (.dict [])) (a.max.getD (.dict [])) pk = .ok ad
          ∧ ∀ c, look R c pk.1 = D.get? ad.reverse c)
      ∧ (∀ p, p ∉ od.map (·.1) → ∀ c, look R c p = Option.none)
      ∧ (∀ q ∈ kvs, D.has R q.1 = true) := by
  simp only [byPartyLaw] at h
  cases hov : voteTotals a.votes with
  | error e => rw [hov] at h; cases h
  | ok ov =>
    rw [hov] at h hnd
    simp only [ok_bind] at h hnd
    cases hO : O { votes := ov, n := seatsForm needs (a.n.getD .none) } with
    | error e => rw [hO] at h; cases h
    | ok ores =>
      rw [hO] at h
      simp only [ok_bind] at h
      cases ores with
      | dict od =>
        simp only [V.items, ok_bind] at h
        cases hv : a.votes with
        | dict kvs =>
          rw [hv] at h
          simp only [ok_bind] at h
          cases hf : od.foldlM (fun (res : D) pk => do
              let ad ← partyAllocation A kvs (a.prev.getD (.dict [])) (a.max.getD (.dict [])) pk
              enterAllocation pk.1 res ad) [] with
          | error e => rw [hf] at h; cases h
          | ok res =>
            rw [hf] at h
            have hR : R = fillEmpty kvs res := by cases h; rfl
            obtain ⟨_, hparts, hothers⟩ := byParty_fold_look A kvs _ _ od [] res allDicts_nil hf (hnd od hO)
            refine ⟨od, kvs, rfl, ?_, ?_, ?_⟩
            · intro pk hpk
              obtain ⟨ad, had, hl⟩ := hparts pk hpk
              refine ⟨ad, had, fun c => ?_⟩
              rw [hR, look_fillEmpty, hl c, look_nil]
              cases D.get? ad.reverse c <;> rfl
            · intro p hp c
              rw [hR, look_fillEmpty, hothers p hp c, look_nil]
            · intro q hq
              rw [hR]
              exact has_fillEmpty kvs res q hq
        | num _ => rw [hv] at h; cases h
        | cand _ => rw [hv] at h; cases h
        | tie _ => rw [hv] at h; cases h
        | none => rw [hv] at h; cases h
        | list _ => rw [hv] at h; cases h
      | num _ => cases h
      | cand _ => cases h
      | tie _ => cases h
      | none => cases h
      | list _ => cases h


/-- non-vacuity: D'Hondt overall and as allocator on two constituencies; party 1's only seat lies in constituency 101 -/
example :
    let a : Args := { votes := nested [(100, [(0, 5), (1, 1)]), (101, [(0, 3), (1, 4)])], n := some (.num 3) }
    ∃ R, byPartyLaw false (denote haT) (denote haT) a = .ok (.dict R)
      ∧ look R (.cand 101) (.cand 1) = some (.num 1) ∧ look R (.cand 100) (.cand 1) = Option.none
      ∧ look R (.cand 100) (.cand 0) = some (.num 1) := by
  refine ⟨[(.cand 100, sv [(0, 1)]), (.cand 101, sv [(0, 1), (1, 1)])], ?_⟩
  decide +kernel

/-! ### converters -/

/-- Chain([c₁, …]) converts by c₁, then by the rest -/
theorem chain_cons (c : Conv) (cs : List Conv) (v : V) :
    (Conv.chain (c :: cs)).run v = (c.run v >>= fun x => (Conv.chain cs).run x) := by
  simp [Conv.run, Conv.runChain]

theorem chain_nil (v : V) : (Conv.chain []).run v = .ok v := by
  simp [Conv.run, Conv.runChain]; rfl

end VL.C14
