/-
  C18 — evaluation is pure: no state carried between calls.  Property theorems only; namespace VL.C18.

  Reading.  A Lean function cannot fail to be pure, so the theorems are about the STATE MACHINES of
  VotelibModel.Purity, which have the state the Python objects have (`step : State → Call → State × Out`, one
  step per `evaluate` / `convert` / `validate` call on one shared instance).  "The outcome for a given input does
  not depend on which other inputs the same object processed before, nor on how often it has been called" is

      ∀ (h : List Call) (c : Call), lastOut step init (h ++ [c]) = lastOut step init [c]

  i.e. the answer to `c` after ANY history `h` on the shared instance is the answer a fresh instance gives.
  Argument non-mutation and empty shared default arguments are facts about Python object identity that no Lean
  model exhibits; they are monitored on the implementation by the harness (clauses `argument_mutated`,
  `shared_default_polluted`) and are not claimed here.
-/
import VotelibProofs.Lemmas.Purity
namespace VL.C18
open VL VL.Purity

/-! ## ProportionalApproval._coefs -/

/-- **The cache invariant.**  After any call history the cache is non-empty and its `k`-th entry is the `k`-th
    harmonic number `1 + 1/2 + … + 1/k` (so the cache is a prefix of the harmonic table). -/
theorem pav_cache_invariant (h : List PavCall) :
    let coefs := (run pavStep pavInit h).1
    1 ≤ coefs.length ∧ ∀ k, k < coefs.length → coefs[k]? = some (harmonic k) :=
  inv_run pavStep PavInv (fun s c hs => pavExtend_inv s c.nSeats hs) pavInit pavInv_init h

/-- the cache after any history IS the table of harmonic numbers of its length -/
theorem pav_cache_contents (h : List PavCall) :
    (run pavStep pavInit h).1 = (List.range (run pavStep pavInit h).1.length).map harmonic := by
  have hi := pav_cache_invariant h
  apply List.ext_getElem?
  intro k
  by_cases hk : k < (run pavStep pavInit h).1.length
  · rw [hi.2 k hk]
    simp [List.getElem?_map, List.getElem?_range hk]
  · have hk' : (run pavStep pavInit h).1.length ≤ k := by omega
    rw [List.getElem?_eq_none hk']
    simp [hk']

/-- the length of the cache after a history: one more than the largest seat count asked for so far (at least 1);
    with `pav_cache_contents` this determines the state completely -/
theorem pav_cache_length (h : List PavCall) :
    (run pavStep pavInit h).1.length = h.foldl (fun m c => max m (c.nSeats + 1)) 1 :=
  pav_run_length h pavInit

/-- **History independence of PAV.**  The answer to a call after any sequence of earlier calls on the same
    evaluator (any profiles, any seat counts, any repetitions) is the answer of a fresh evaluator. -/
theorem history_independent_pav (h : List PavCall) (c : PavCall) :
    lastOut pavStep pavInit (h ++ [c]) = lastOut pavStep pavInit [c] := by
  apply history_independent_of_inv pavStep PavInv pavInit pavInv_init
  · intro s c hs; exact pavExtend_inv s c.nSeats hs
  · intro s c hs
    show pavEval (pavExtend s c.nSeats) c.votes c.nSeats = pavEval (pavExtend pavInit c.nSeats) c.votes c.nSeats
    rw [pavEval_eq_spec _ (pavExtend_inv s c.nSeats hs) _ _ (pavExtend_length_ge s c.nSeats),
        pavEval_eq_spec _ (pavExtend_inv pavInit c.nSeats pavInv_init) _ _ (pavExtend_length_ge pavInit c.nSeats)]

/-- stronger: after any history the cached evaluator computes the cache-free specification (the satisfaction sums
    written with the harmonic numbers themselves); in particular it never raises IndexError from the cache -/
theorem pav_output_is_spec (h : List PavCall) (c : PavCall) :
    lastOut pavStep pavInit (h ++ [c]) = some (pavSpec c.votes c.nSeats) := by
  rw [lastOut_append]
  have hs := inv_run pavStep PavInv (fun s c hs => pavExtend_inv s c.nSeats hs) pavInit pavInv_init h
  show some (pavEval (pavExtend _ c.nSeats) c.votes c.nSeats) = _
  rw [pavEval_eq_spec _ (pavExtend_inv _ c.nSeats hs) _ _ (pavExtend_length_ge _ c.nSeats)]

/-- the profile of the witnesses: 3 voters approve {0,1}, 2 voters approve {0} -/
def wVotes : ApprovalProfile := [([0, 1], 3), ([0], 2)]

/-- non-vacuity: on this profile a call with 2 seats and then a call with 1 seat both return selections, and the
    cache has really changed in between -/
example : (run pavStep pavInit [⟨wVotes, 2⟩, ⟨wVotes, 1⟩]).2 = [.ok [.cand 0, .cand 1], .ok [.cand 0]]
    ∧ (run pavStep pavInit [⟨wVotes, 2⟩]).1 = [0, 1, 3/2] := by decide +kernel

/-- **The condition matters.**  With the cache extended under the pre-c5ab27b condition `len(_coefs) < n_seats`
    the same machine IS history dependent: a fresh evaluator asked for one seat raises IndexError, the same call after
    a two-seat call succeeds. -/
theorem history_dependent_pav_old_witness :
    ¬ (∀ (h : List PavCall) (c : PavCall), lastOut pavStepOld pavInit (h ++ [c]) = lastOut pavStepOld pavInit [c]) := by
  intro hall
  have := hall [⟨wVotes, 2⟩] ⟨wVotes, 1⟩
  revert this
  decide +kernel

example : lastOut pavStepOld pavInit [⟨wVotes, 1⟩] = some (.error (.other "IndexError"))
    ∧ lastOut pavStepOld pavInit [⟨wVotes, 2⟩, ⟨wVotes, 1⟩] = some (.ok [.cand 0]) := by decide +kernel

/-! ## Borda scorer state (RankedToPositionalVotes.convert) -/

/-- **History independence of the positional converter with a Borda scorer**, for every base: `convert` overwrites
    `n_candidates` / `_scores` (set_n_candidates) before every read. -/
theorem history_independent_borda (base : Int) (h : List RankedProfile) (c : RankedProfile) :
    lastOut (bordaStep base) bordaInit (h ++ [c]) = lastOut (bordaStep base) bordaInit [c] :=
  history_independent_of_inv (bordaStep base) (fun _ => True) bordaInit trivial (fun _ _ _ => trivial)
    (fun s c _ => bordaStep_out_indep base s bordaInit c) h c

/-- after any history the converter computes the stateless specification (scores derived from the profile at hand) -/
theorem borda_output_is_spec (base : Int) (h : List RankedProfile) (c : RankedProfile) :
    lastOut (bordaStep base) bordaInit (h ++ [c]) = some (positionalSpec base c) := by
  rw [lastOut_append]
  rfl

/-- the scorer state after a history is the one set for the LAST profile: `n_candidates` = number of distinct
    candidates ranked in it, `_scores` = the generated score list for that number -/
theorem borda_state_after (base : Int) (h : List RankedProfile) (c : RankedProfile) :
    (run (bordaStep base) bordaInit (h ++ [c])).1 =
      ⟨some (allRanked c).length, some (Gen.RankScore.borda_scores base (allRanked c).length)⟩ := by
  rw [run_append]
  rfl

/-- three ballots over 3 candidates / one ballot over 2 candidates -/
def wRanked3 : RankedProfile := [([.one 0, .one 1, .one 2], 2), ([.one 1, .shared [0, 2]], 1)]
def wRanked2 : RankedProfile := [([.one 0, .one 1], 1)]

example : (run (bordaStep 1) bordaInit [wRanked3, wRanked2]).2 =
    [.ok [(0, 8), (1, 7), (2, 4)], .ok [(0, 2), (1, 1)]] := by decide +kernel

/-- a scorer initialised only once (`if self.n_candidates is None`) would make the converter history dependent -/
theorem history_dependent_borda_setOnce_witness :
    ¬ (∀ (h : List RankedProfile) (c : RankedProfile),
        lastOut (bordaStepSetOnce 1) bordaInit (h ++ [c]) = lastOut (bordaStepSetOnce 1) bordaInit [c]) := by
  intro hall
  have := hall [wRanked3] wRanked2
  revert this
  decide +kernel

/-- the scorer used WITHOUT the converter is stateful by its documented protocol (`set_n_candidates` first):
    `scores(2)` raises RuntimeError on a fresh scorer and answers after `set_n_candidates(3)` -/
theorem scorer_raw_protocol_witness :
    lastOut (scorerStep 1) bordaInit [.scores 2] = some (.error (.other "RuntimeError"))
    ∧ lastOut (scorerStep 1) bordaInit [.setN 3, .scores 2] = some (.ok [3, 2]) := by decide +kernel

/-! ## seeded random components on the process-wide generator -/

/-- **Seeded components repeat their choice.**  For ANY generator (state type, reseeding and drawing functions),
    any state `g0` the process-wide generator is in, and any history — calls of seeded components with any seeds and
    arbitrary other uses of the generator in between — the draws of a call that reseeds before every draw are those
    it makes on an untouched generator. -/
theorem history_independent_seeded {G Req Out : Type} (M : RngModel G Req Out) (g0 : G)
    (h : List (RngCall G Req)) (c : RngCall G Req) :
    lastOut (seededStep M) g0 (h ++ [c]) = lastOut (seededStep M) g0 [c] :=
  history_independent_of_inv (seededStep M) (fun _ => True) g0 trivial (fun _ _ _ => trivial)
    (fun s c _ => seededStep_out_indep M s g0 c) h c

/-- the draws are a function of the seed and the requests alone: the same for every two generator states -/
theorem seeded_draws_function_of_seed {G Req Out : Type} (M : RngModel G Req Out) (g0 g1 : G)
    (h h' : List (RngCall G Req)) (seed : Nat) (blocks : List (List Req)) :
    lastOut (seededStep M) g0 (h ++ [.seeded seed blocks]) = lastOut (seededStep M) g1 (h' ++ [.seeded seed blocks]) := by
  rw [lastOut_append, lastOut_append]
  exact congrArg some (seededStep_out_indep M _ _ _)

/-- every block of a reseeding call is the sequence of draws that follows `seed(seed)` on a pristine generator -/
theorem seeded_draws_explicit {G Req Out : Type} (M : RngModel G Req Out) (seed : Nat) (g : G) (blocks : List (List Req)) :
    (blocksReseeding M seed g blocks).2 = blocks.map (fun b => (drawsSeq M (M.reseed seed) b).2) := by
  induction blocks generalizing g with
  | nil => rfl
  | cons r rs ih => simp [blocksReseeding, ih]

/-- without the `random.seed(self.seed)` line the same component is history dependent (linear congruential toy
    generator): the draw after another draw differs from the draw on the initial generator -/
theorem history_dependent_unseeded_witness :
    ¬ (∀ (h : List (RngCall Nat Nat)) (c : RngCall Nat Nat),
        lastOut (unseededStep lcg) 1 (h ++ [c]) = lastOut (unseededStep lcg) 1 [c]) := by
  intro hall
  have := hall [.seeded 7 [[10]]] (.seeded 7 [[10]])
  revert this
  decide +kernel

example : lastOut (seededStep lcg) 1 [.seeded 7 [[10]], .other (fun g => g + 5), .seeded 7 [[10, 10], [10]]]
    = some [[5, 8], [5]] := by decide +kernel

/-! ## validators: defaultdicts of checkers filled in on demand -/


/-- **History independence of RankedVoteValidator**, for every configuration: the checkers that earlier votes
    made the defaultdict materialise never change the verdict on a later vote. -/
theorem history_independent_rankval (cfg : RankValCfg) (h : List Ballot) (c : Ballot) :
    lastOut (rankValStep cfg) cfg.explicit (h ++ [c]) = lastOut (rankValStep cfg) cfg.explicit [c] := by
  apply history_independent_of_inv (rankValStep cfg) (fun st => LookupEq cfg.dflt st cfg.explicit)
  · exact LookupEq.refl _ _
  · intro s c hs
    rw [rankValStep_store]
    exact (rankValLoop_store cfg c s 0 0 []).trans hs
  · intro s c hs
    exact rankValStep_out_congr cfg s cfg.explicit c hs

/-- **History independence of ScoreVoteValidator / RangeVoteValidator / EnumScoreVoteValidator.** -/
theorem history_independent_scoreval (cfg : ScoreValCfg) (h : List ScoreVote) (c : ScoreVote) :
    lastOut (scoreValStep cfg) cfg.explicit (h ++ [c]) = lastOut (scoreValStep cfg) cfg.explicit [c] := by
  apply history_independent_of_inv (scoreValStep cfg) (fun st => LookupEq cfg.dflt st cfg.explicit)
  · exact LookupEq.refl _ _
  · intro s c hs
    exact (scoreValStep_store cfg s c).trans hs
  · intro s c hs
    exact scoreValStep_out_congr cfg s cfg.explicit c hs

/-- the store invariant: after any history every lookup answers what the configured (initial) mapping answers -/
theorem rankval_store_invariant (cfg : RankValCfg) (h : List Ballot) (k : Nat) :
    (ddGet cfg.dflt (run (rankValStep cfg) cfg.explicit h).1 k).2 = (ddGet cfg.dflt cfg.explicit k).2 :=
  inv_run (rankValStep cfg) (fun st => LookupEq cfg.dflt st cfg.explicit)
    (fun s c hs => by rw [rankValStep_store]; exact (rankValLoop_store cfg c s 0 0 []).trans hs)
    cfg.explicit (LookupEq.refl _ _) h k

/-- non-vacuity: the validator state really changes (ranks 1 and 2 are materialised) while the verdicts stay those of
    a fresh validator: bounds (1,1) per rank by default, rank 2 may hold up to two candidates -/
def wCfg : RankValCfg := ⟨⟨none, none⟩, [(2, ⟨some 1, some 2⟩)], ⟨some 1, some 1⟩⟩

example : run (rankValStep wCfg) wCfg.explicit [[.one 0, .shared [1, 2], .one 3], [.shared [0, 1]]]
    = ([(2, ⟨some 1, some 2⟩), (1, ⟨some 1, some 1⟩), (3, ⟨some 1, some 1⟩)],
       [.ok (), .error (.other "VoteMagnitudeError")]) := by decide +kernel

/-- a factory that hands out a checker depending on what is already stored (here: on the number of stored checkers)
    would make the validator history dependent: the theorem rests on the factory returning the same checker -/
def ddGetCounting (st : CheckerStore) (k : Nat) : CheckerStore × Bounds :=
  match st.find? (fun p => p.1 == k) with
  | some p => (st, p.2)
  | none => let b : Bounds := ⟨some 1, some (st.length + 1 : Nat)⟩; (st ++ [(k, b)], b)

def countingStep (st : CheckerStore) (size : Nat × Nat) : CheckerStore × Bool :=
  let r := ddGetCounting st size.1
  (r.1, r.2.valid (size.2 : Rat))

theorem history_dependent_counting_factory_witness :
    ¬ (∀ (h : List (Nat × Nat)) (c : Nat × Nat), lastOut countingStep [] (h ++ [c]) = lastOut countingStep [] [c]) := by
  intro hall
  have := hall [(1, 1)] (2, 2)
  revert this
  decide +kernel

/-! ## evaluator dispatch and module-level state -/

/-- the dispatch of the code keeps no module-level state: what one evaluator is answered never depends on which
    evaluators (of the same or other classes, with other leaves) were asked before -/
theorem history_independent_dispatch (h : List (Ev × Nat)) (q : Ev × Nat) :
    lastOut dispatchStep [] (h ++ [q]) = lastOut dispatchStep [] [q] :=
  history_independent_of_inv dispatchStep (fun _ => True) [] trivial (fun _ _ _ => trivial) (fun _ _ _ => rfl) h q

theorem dispatch_leaves_cache_empty (h : List (Ev × Nat)) : (run dispatchStep [] h).1 = [] :=
  inv_run dispatchStep (fun c => c = []) (fun _ _ hc => hc) [] rfl h

/-- remembering the answer per evaluator class WOULD make the outcome depend on other objects: two instances of the
    same pass-through wrapper class (7) around a selector that takes no prev_gains (class 1) and around a distributor
    that does (class 2, keyword 0): asked second, the latter is answered `false` -/
theorem history_dependent_dispatch_cached_witness :
    ¬ (∀ (h : List (Ev × Nat)) (q : Ev × Nat),
        lastOut dispatchStepCached [] (h ++ [q]) = lastOut dispatchStepCached [] [q]) := by
  intro hall
  have := hall [(.wrap 7 (.leaf 1 []), 0)] (.wrap 7 (.leaf 2 [0, 1]), 0)
  revert this
  decide +kernel

/-- …and it would be sound exactly where the class determines the answer (leaf classes): under that hypothesis the
    cached dispatch answers like the uncached one after every history -/
theorem dispatch_cached_sound_if_class_determines
    (H : ∀ (e e' : Ev) (k : Nat), e.cls = e'.cls → acceptsKw e k = acceptsKw e' k)
    (h : List (Ev × Nat)) (q : Ev × Nat) :
    lastOut dispatchStepCached [] (h ++ [q]) = some (acceptsKw q.1 q.2) := by
  rw [lastOut_append]
  have hinv := inv_run dispatchStepCached KwCacheOK (fun c q hc => dispatchStepCached_inv H c q hc) []
    (by intro p hp; simp at hp) h
  exact congrArg some (dispatchStepCached_out _ q hinv)

/-! ## several objects in one history -/

/-- a PAV evaluator and a Borda positional converter used alternately in one history (any interleaving): every call
    is answered as by a fresh object — the state of one object is not touched by calls on the other -/
theorem history_independent_pav_with_borda (base : Int) (h : List (PavCall ⊕ RankedProfile)) (c : PavCall ⊕ RankedProfile) :
    lastOut (prodStep pavStep (bordaStep base)) (pavInit, bordaInit) (h ++ [c])
      = lastOut (prodStep pavStep (bordaStep base)) (pavInit, bordaInit) [c] := by
  apply history_independent_prod_of_inv pavStep (bordaStep base) PavInv (fun _ => True) pavInit bordaInit pavInv_init trivial
  · intro s c hs; exact pavExtend_inv s c.nSeats hs
  · intros; trivial
  · intro s c hs
    show pavEval (pavExtend s c.nSeats) c.votes c.nSeats = pavEval (pavExtend pavInit c.nSeats) c.votes c.nSeats
    rw [pavEval_eq_spec _ (pavExtend_inv s c.nSeats hs) _ _ (pavExtend_length_ge s c.nSeats),
        pavEval_eq_spec _ (pavExtend_inv pavInit c.nSeats pavInv_init) _ _ (pavExtend_length_ge pavInit c.nSeats)]
  · intro s c _; exact bordaStep_out_indep base s bordaInit c

/-- "nor on how often it has been called": asking the same question again gives the same answer -/
theorem pav_repeated_call (h : List PavCall) (c : PavCall) :
    lastOut pavStep pavInit (h ++ [c] ++ [c]) = lastOut pavStep pavInit (h ++ [c]) := by
  rw [history_independent_pav (h ++ [c]) c, history_independent_pav h c]

end VL.C18
