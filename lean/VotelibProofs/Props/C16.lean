/-
  C16 — thresholds, quota selectors and open-list jumps are exact at the boundary.
  Property theorems only (helper lemmas live in VotelibProofs/Lemmas).  Namespace VL.C16.

  Reading.  A dict of votes is `Votes = List (Cand × Rat)` in insertion order (`Rat` covers int, Fraction and
  Decimal exactly); "share" is `v / sumVals votes`; all comparisons are comparisons of rationals.
-/
import VotelibProofs.Lemmas.NBest
import VotelibProofs.Lemmas.SortBy
import VotelibProofs.Lemmas.Bracket
import VotelibProofs.Lemmas.Threshold
import VotelibProofs.Lemmas.OpenList
import Mathlib.Tactic.Ring
import Mathlib.Algebra.Order.Field.Basic
import VotelibModel.Threshold
import VotelibModel.OpenList
import VotelibModel.Simple
import VotelibModel.Gen.Quota
import VotelibModel.Gen.Threshold
import VotelibModel.Gen.OpenList
import VotelibProofs.Props.C09
namespace VL.C16
open VL

/-- well-formed dict: keys are distinct -/
def WF (votes : Votes) : Prop := (keys votes).Nodup

/-! ## the filter conditions as they stand in the source (Gen/Threshold.lean is regenerated on every run) -/

/-- **The literal condition of `AbsoluteThreshold.evaluate`** is the boundary rule: strictly over the threshold,
    or exactly on it when equality is accepted. -/
theorem abs_condition_exact (t : Rat) (eq : Bool) (v : Rat) :
    Gen.Threshold.abs_threshold_passes t eq v = true ↔ (t < v ∨ (eq = true ∧ v = t)) := by
  simp [Gen.Threshold.abs_threshold_passes]

/-- **The literal condition of `RelativeThreshold.evaluate`** compares the exact share `n_votes / total` with the
    threshold in both branches. -/
theorem rel_condition_exact (t : Rat) (eq : Bool) (total v : Rat) :
    Gen.Threshold.rel_threshold_passes t eq total v = true ↔ (t < v / total ∨ (eq = true ∧ v / total = t)) := by
  simp [Gen.Threshold.rel_threshold_passes]

/-! ## AbsoluteThreshold -/

/-- **abs_threshold_exact.**  A candidate passes iff its count is strictly over the threshold, or exactly on it
    and equality is accepted. -/
theorem abs_threshold_exact (t : Rat) (eq : Bool) (votes : Votes) (c : Cand) :
    c ∈ absoluteThreshold t eq votes ↔ ∃ v, (c, v) ∈ votes ∧ (t < v ∨ (eq = true ∧ v = t)) := by
  unfold absoluteThreshold
  simp only [List.mem_map, List.mem_filter, mem_sortDesc, abs_condition_exact]
  constructor
  · rintro ⟨⟨c', v⟩, ⟨hm, hp⟩, rfl⟩; exact ⟨v, hm, hp⟩
  · rintro ⟨v, hm, hp⟩; exact ⟨(c, v), ⟨hm, hp⟩, rfl⟩

/-- the output keeps the order of `sorted_votes` (non-increasing, equal counts in insertion order) -/
theorem abs_threshold_order (t : Rat) (eq : Bool) (votes : Votes) :
    (absoluteThreshold t eq votes).Sublist ((sortDesc votes).map (·.1)) :=
  List.filter_sublist.map _

/-! ## RelativeThreshold -/

/-- **rel_threshold_exact.**  With a non-zero total the selector answers, and a candidate passes iff its exact
    share of the total is strictly over the threshold, or exactly on it and equality is accepted; the output keeps
    the order of `sorted_votes`. -/
theorem rel_threshold_exact (t : Rat) (eq : Bool) (votes : Votes) (hV : sumVals votes ≠ 0) :
    ∃ r, relativeThreshold t eq votes = .ok r ∧
      (∀ c, c ∈ r ↔ ∃ v, (c, v) ∈ votes ∧ (t < v / sumVals votes ∨ (eq = true ∧ v / sumVals votes = t))) ∧
      r.Sublist ((sortDesc votes).map (·.1)) := by
  have hne : votes.isEmpty = false := by
    cases votes with
    | nil => exact absurd rfl hV
    | cons _ _ => rfl
  refine ⟨_, by unfold relativeThreshold; simp only [hne, if_neg hV]; rfl, ?_, List.filter_sublist.map _⟩
  intro c
  simp only [List.mem_map, List.mem_filter, mem_sortDesc, rel_condition_exact]
  constructor
  · rintro ⟨⟨c', v⟩, ⟨hm, hp⟩, rfl⟩; exact ⟨v, hm, hp⟩
  · rintro ⟨v, hm, hp⟩; exact ⟨(c, v), ⟨hm, hp⟩, rfl⟩

/-- for a positive total the share comparison is the cross-multiplied comparison of the count with `t · V`
    (a party with exactly 5 of 100 votes is exactly on a 5 % threshold) -/
theorem share_boundary (t v V : Rat) (hV : 0 < V) :
    (t < v / V ↔ t * V < v) ∧ (v / V = t ↔ v = t * V) := by
  constructor
  · rw [lt_div_iff₀ hV]
  · rw [div_eq_iff (ne_of_gt hV)]

/-- the same for a positive total, in cross-multiplied form: a candidate passes iff its count is strictly over
    `t · V`, or exactly `t · V` and equality is accepted (no division, hence "exact at the boundary" literally) -/
theorem rel_threshold_exact_pos (t : Rat) (eq : Bool) (votes : Votes) (hV : 0 < sumVals votes) :
    ∃ r, relativeThreshold t eq votes = .ok r ∧
      ∀ c, c ∈ r ↔ ∃ v, (c, v) ∈ votes ∧ (t * sumVals votes < v ∨ (eq = true ∧ v = t * sumVals votes)) := by
  obtain ⟨r, hr, hm, _⟩ := rel_threshold_exact t eq votes (ne_of_gt hV)
  refine ⟨r, hr, fun c => ?_⟩
  rw [hm c]
  constructor
  · rintro ⟨v, hv, h⟩
    refine ⟨v, hv, ?_⟩
    rcases h with h | ⟨he, h⟩
    · exact Or.inl ((share_boundary t v _ hV).1.mp h)
    · exact Or.inr ⟨he, (share_boundary t v _ hV).2.mp h⟩
  · rintro ⟨v, hv, h⟩
    refine ⟨v, hv, ?_⟩
    rcases h with h | ⟨he, h⟩
    · exact Or.inl ((share_boundary t v _ hV).1.mpr h)
    · exact Or.inr ⟨he, (share_boundary t v _ hV).2.mpr h⟩

/-- with a zero total of a non-empty dict the code raises ZeroDivisionError (the share is undefined) -/
theorem rel_threshold_zero_total (t : Rat) (eq : Bool) (votes : Votes) (hne : votes ≠ [])
    (hV : sumVals votes = 0) : relativeThreshold t eq votes = .error (.other "ZeroDivisionError") := by
  unfold relativeThreshold
  cases votes with
  | nil => exact absurd rfl hne
  | cons x xs => simp [hV]

/-! ## AlternativeThresholds -/

/-- the combined result is exactly the union of the partial results -/
theorem alternative_combine_mem (results : List (List Cand)) (c : Cand) :
    c ∈ alternativeCombine results ↔ ∃ r ∈ results, c ∈ r := by
  unfold alternativeCombine
  rw [mem_sortBy, mem_dedupKeep, List.mem_flatten]

theorem alternative_combine_nodup (results : List (List Cand)) : (alternativeCombine results).Nodup :=
  sortBy_nodup (dedupKeep_nodup _)

/-- ordered by mean rank in the partial selections -/
theorem alternative_combine_sorted (results : List (List Cand)) :
    (alternativeCombine results).Pairwise (fun a b => meanRank results a ≤ meanRank results b) :=
  sortBy_sorted (meanRank results) _ (by intro a b; simp) _

/-- **alternative_is_union.**  Whatever the partial selectors are: when `AlternativeThresholds` answers, every
    partial selector answered, and the answer contains exactly the candidates passed by at least one of them,
    each once, ordered by mean rank. -/
theorem alternative_is_union (partials : List Seatless) (votes : Votes) (out : List Cand)
    (h : alternativeThresholds partials votes = .ok out) :
    ∃ results, List.Forall₂ (fun p r => p votes = .ok r) partials results ∧
      out = alternativeCombine results ∧
      (∀ c, c ∈ out ↔ ∃ p ∈ partials, ∃ r, p votes = .ok r ∧ c ∈ r) ∧
      out.Nodup ∧ out.Pairwise (fun a b => meanRank results a ≤ meanRank results b) := by
  unfold alternativeThresholds at h
  cases hm : partials.mapM (fun p => p votes) with
  | error e => rw [hm] at h; cases h
  | ok results =>
    rw [hm] at h
    have hout : out = alternativeCombine results := by cases h; rfl
    have hf := (mapM_except_ok _ _ _).mp hm
    refine ⟨results, hf, hout, ?_, hout ▸ alternative_combine_nodup _, hout ▸ alternative_combine_sorted _⟩
    intro c
    rw [hout, alternative_combine_mem]
    constructor
    · rintro ⟨r, hr, hc⟩
      obtain ⟨i, hi, rfl⟩ := List.getElem_of_mem hr
      have hlen := hf.length_eq
      have := List.forall₂_iff_get.mp hf
      exact ⟨partials[i]'(by omega), List.getElem_mem _, results[i], this.2 i (by omega) hi, hc⟩
    · rintro ⟨p, hp, r, hpr, hc⟩
      obtain ⟨i, hi, rfl⟩ := List.getElem_of_mem hp
      have hlen := hf.length_eq
      have := (List.forall₂_iff_get.mp hf).2 i hi (by omega)
      simp only [List.get_eq_getElem] at this
      rw [hpr] at this
      cases this
      exact ⟨_, List.getElem_mem _, hc⟩

/-- ... and it fails exactly when one of the partial selectors fails -/
theorem alternative_error_iff (partials : List Seatless) (votes : Votes) :
    (∃ e, alternativeThresholds partials votes = .error e) ↔ ∃ p ∈ partials, ∃ e, p votes = .error e := by
  rw [← mapM_except_error]
  unfold alternativeThresholds
  cases hm : partials.mapM (fun p => p votes) with
  | error e => exact ⟨fun _ => ⟨e, rfl⟩, fun _ => ⟨e, rfl⟩⟩
  | ok rs =>
    constructor
    · rintro ⟨e, h⟩; cases h
    · rintro ⟨e, h⟩; cases h

/-! ## bracketers -/

/-- **bracketer_dispatch (coalition size).**  Whatever the partial selectors are: a party is passed iff it is passed
    by the selector of its own bracket — `evaluators.get(n_members, default)` — applied to the whole vote; the
    output keeps the order of `sorted_votes`. -/
theorem coalition_dispatch (members : Cand → Nat) (evs : List (Nat × Seatless)) (dflt : Seatless)
    (votes : Votes) (out : List Cand) (h : coalitionBracketer members evs dflt votes = .ok out) :
    (∀ c, c ∈ out ↔ c ∈ keys votes ∧ ∃ r, (dictGet evs (members c) dflt) votes = .ok r ∧ c ∈ r) ∧
    out.Sublist ((sortDesc votes).map (·.1)) := by
  unfold coalitionBracketer at h
  simp only [bind, Except.bind] at h
  split at h
  · cases h
  · rename_i passed hm
    have hout : out = List.filter (fun c => (dictGet passed (members c) []).contains c)
        ((sortDesc votes).map (·.1)) := by cases h; rfl
    obtain ⟨hp1, hp2⟩ := mapM_pair_ok (f := fun k => dictGet evs k dflt votes) hm
    refine ⟨?_, hout ▸ List.filter_sublist⟩
    intro c
    rw [hout, List.mem_filter, mem_keys_sortDesc]
    constructor
    · rintro ⟨hc, hin⟩
      refine ⟨hc, ?_⟩
      have hv : members c ∈ sortedDistinct (((sortDesc votes).map (·.1)).map members) :=
        mem_sortedDistinct.mpr (List.mem_map.mpr ⟨c, mem_keys_sortDesc.mpr hc, rfl⟩)
      obtain ⟨e, he, hek, hget⟩ := dictGet_mem passed (members c) [] (hp2 _ hv)
      rw [hget] at hin
      exact ⟨e.2, hek ▸ hp1 e he, by simpa using hin⟩
    · rintro ⟨hc, r, hr, hcr⟩
      refine ⟨hc, ?_⟩
      have hv : members c ∈ sortedDistinct (((sortDesc votes).map (·.1)).map members) :=
        mem_sortedDistinct.mpr (List.mem_map.mpr ⟨c, mem_keys_sortDesc.mpr hc, rfl⟩)
      obtain ⟨e, he, hek, hget⟩ := dictGet_mem passed (members c) [] (hp2 _ hv)
      rw [hget]
      have := hp1 e he
      rw [hek, hr] at this
      cases this
      simpa using hcr

/-- the coalition bracketer fails exactly when the selector of a bracket that occurs in the vote fails -/
theorem coalition_error_iff (members : Cand → Nat) (evs : List (Nat × Seatless)) (dflt : Seatless)
    (votes : Votes) :
    (∃ e, coalitionBracketer members evs dflt votes = .error e) ↔
      ∃ c ∈ keys votes, ∃ e, (dictGet evs (members c) dflt) votes = .error e := by
  unfold coalitionBracketer
  simp only [bind, Except.bind]
  constructor
  · rintro ⟨e, h⟩
    split at h
    · rename_i e' hm
      obtain ⟨k, hk, e'', he''⟩ := (mapM_except_error _ _).mp ⟨e', hm⟩
      obtain ⟨c, hc, rfl⟩ := List.mem_map.mp (mem_sortedDistinct.mp hk)
      refine ⟨c, mem_keys_sortDesc.mp hc, e'', ?_⟩
      cases hd : dictGet evs (members c) dflt votes with
      | error e3 => rw [hd] at he''; cases he''; rfl
      | ok r => rw [hd] at he''; cases he''
    · cases h
  · rintro ⟨c, hc, e, he⟩
    have hv : members c ∈ sortedDistinct (((sortDesc votes).map (·.1)).map members) :=
      mem_sortedDistinct.mpr (List.mem_map.mpr ⟨c, mem_keys_sortDesc.mpr hc, rfl⟩)
    obtain ⟨e', he'⟩ := (mapM_except_error (fun k => do
        let r ← (dictGet evs k dflt) votes
        pure (k, r)) _).mpr ⟨members c, hv, e, by simp [he, bind, Except.bind]⟩
    simp only [bind, Except.bind] at he'
    rw [he']
    exact ⟨e', rfl⟩

/-- **bracketer_dispatch (property).**  A candidate is passed iff it is passed by the selector registered for its
    own property value, applied to the whole vote (everybody of a bracket whose selector is `None` passes);
    the output keeps the order of `sorted_votes`. -/
theorem property_dispatch (prop : Cand → Option Nat) (evs : List (Nat × Option Seatless))
    (dflt : Option Seatless) (votes : Votes) (out : List Cand)
    (h : propertyBracketer prop evs dflt votes = .ok out) :
    (∀ c, c ∈ out ↔ c ∈ keys votes ∧ ∃ r, propertyVariant evs dflt votes (prop c) = .ok r ∧ c ∈ r) ∧
    out.Sublist ((sortDesc votes).map (·.1)) := by
  obtain ⟨hs, hm⟩ := propertyLoop_spec prop evs dflt votes _ [] out (by simp) h
  refine ⟨?_, hs⟩
  intro c
  rw [hm c, mem_keys_sortDesc]

/-! ## the selector tree: the combinators above are what `Sel.eval` runs -/

/-- alternative thresholds inside a tree: exactly the union of what the parts pass (each part called with the
    previous gains iff its `evaluate` takes them) -/
theorem sel_alt_is_union (a : Attrs) (f : Nat) (parts : List Sel) (votes : Votes) (prev : Option Votes)
    (out : List Cand) (h : Sel.eval a (f+1) (.alt parts) votes prev = .ok out) (c : Cand) :
    c ∈ out ↔ ∃ p ∈ parts, ∃ r,
      Sel.eval a f p votes (if p.acceptsPrev then some (prev.getD []) else none) = .ok r ∧ c ∈ r := by
  have h' : alternativeThresholds
      (parts.map (fun x v => Sel.eval a f x v (if x.acceptsPrev then some (prev.getD []) else none))) votes
      = .ok out := by cases prev <;> exact h
  obtain ⟨_, _, _, hm, _, _⟩ := alternative_is_union _ _ _ h'
  rw [hm c]
  constructor
  · rintro ⟨p, hp, r, hr, hc⟩
    obtain ⟨x, hx, rfl⟩ := List.mem_map.mp hp
    exact ⟨x, hx, r, hr, hc⟩
  · rintro ⟨x, hx, r, hr, hc⟩
    exact ⟨_, List.mem_map.mpr ⟨x, hx, rfl⟩, r, hr, hc⟩

/-- coalition bracketer inside a tree: a party passes iff the selector of its own bracket passes it -/
theorem sel_coalition_dispatch (a : Attrs) (f : Nat) (evs : List (Nat × Sel)) (d : Sel) (votes : Votes)
    (out : List Cand) (h : Sel.eval a (f+1) (.coalition evs d) votes none = .ok out) (c : Cand) :
    c ∈ out ↔ c ∈ keys votes ∧ ∃ r, Sel.eval a f (dictGet evs (a.members c) d) votes none = .ok r ∧ c ∈ r := by
  have h' : coalitionBracketer a.members (evs.map (fun e => (e.1, (fun x v => Sel.eval a f x v none) e.2)))
      ((fun x v => Sel.eval a f x v none) d) votes = .ok out := h
  rw [(coalition_dispatch _ _ _ _ _ h').1 c, dictGet_map (fun x v => Sel.eval a f x v none)]

/-- property bracketer inside a tree: a candidate passes iff the selector registered for its property value
    (`propSel`: `evaluators.get(value, default)`, the default for candidates without the property) passes it;
    everybody of a bracket whose selector is `None` passes -/
theorem sel_property_dispatch (a : Attrs) (f : Nat) (evs : List (Nat × Option Sel)) (d : Option Sel)
    (votes : Votes) (out : List Cand) (h : Sel.eval a (f+1) (.property evs d) votes none = .ok out) (c : Cand) :
    c ∈ out ↔ c ∈ keys votes ∧
      (match propSel evs d (a.prop c) with
       | some s => ∃ r, Sel.eval a f s votes none = .ok r ∧ c ∈ r
       | none => True) := by
  have h' : propertyBracketer a.prop
      (evs.map (fun e => (e.1, (Option.map (fun x v => Sel.eval a f x v none)) e.2)))
      (Option.map (fun x v => Sel.eval a f x v none) d) votes = .ok out := h
  rw [(property_dispatch _ _ _ _ _ h').1 c]
  apply and_congr_right
  intro hc
  rw [propertyVariant_sel]
  cases propSel evs d (a.prop c) with
  | none => simp [hc]
  | some s => simp

/-- **Fuel is only a technical device.**  `Sel.eval` recurses on a fuel counter bounding the nesting depth of the
    tree; any answer other than the out-of-fuel marker is unchanged by more fuel (the driver runs with fuel 64). -/
theorem sel_eval_fuel_mono (a : Attrs) : ∀ (f : Nat) (s : Sel) (votes : Votes) (prev : Option Votes),
    Sel.eval a f s votes prev ≠ .error (.other "fuel") →
    Sel.eval a (f+1) s votes prev = Sel.eval a f s votes prev := by
  intro f
  induction f with
  | zero => intro s votes prev h; exact absurd rfl h
  | succ f ih =>
    intro s votes prev h
    cases s with
    | abs t eq => cases prev <;> rfl
    | rel t eq => cases prev <;> rfl
    | prevGain inner =>
      cases prev with
      | none => rfl
      | some pg => exact ih inner pg none h
    | alt parts =>
      have e1 : ∀ g, Sel.eval a (g+1) (.alt parts) votes prev = alternativeThresholds
          (parts.map (fun x v => Sel.eval a g x v (if x.acceptsPrev then some (prev.getD []) else none))) votes := by
        intro g; cases prev <;> rfl
      rw [e1 (f+1), e1 f] at *
      unfold alternativeThresholds at h ⊢
      rw [List.mapM_map, List.mapM_map] at *
      have hm := mapM_congr_nonfuel
        (fun x => Sel.eval a f x votes (if x.acceptsPrev then some (prev.getD []) else none))
        (fun x => Sel.eval a (f+1) x votes (if x.acceptsPrev then some (prev.getD []) else none))
        parts (fun x _ hx => ih x votes _ hx)
        (by intro hc; apply h; simp only [Function.comp_def, hc, bind, Except.bind])
      simp only [Function.comp_def] at hm ⊢
      rw [hm]
    | coalition evs d =>
      cases prev with
      | some _ => rfl
      | none =>
        have e1 : ∀ g, Sel.eval a (g+1) (.coalition evs d) votes none = coalitionBracketer a.members
            (evs.map (fun e => (e.1, (fun x v => Sel.eval a g x v none) e.2)))
            ((fun x v => Sel.eval a g x v none) d) votes := fun _ => rfl
        rw [e1 (f+1), e1 f] at *
        apply coalitionBracketer_congr _ _ _ _ _ _ _ h
        intro k hk
        rw [dictGet_map (fun x v => Sel.eval a f x v none)] at hk ⊢
        rw [dictGet_map (fun x v => Sel.eval a (f+1) x v none)]
        exact ih _ votes none hk
    | property evs d =>
      cases prev with
      | some _ => rfl
      | none =>
        have e1 : ∀ g, Sel.eval a (g+1) (.property evs d) votes none = propertyBracketer a.prop
            (evs.map (fun e => (e.1, (Option.map (fun x v => Sel.eval a g x v none)) e.2)))
            (Option.map (fun x v => Sel.eval a g x v none) d) votes := fun _ => rfl
        rw [e1 (f+1), e1 f] at *
        unfold propertyBracketer at h ⊢
        apply propertyLoop_congr _ _ _ _ _ _ _ _ _ h
        intro v hv
        rw [propertyVariant_sel] at hv ⊢
        rw [propertyVariant_sel]
        cases hs : propSel evs d v with
        | none => rfl
        | some s =>
          rw [hs] at hv
          exact ih s votes none hv

/-! ## QuotaSelector -/

/-- **quota_selector_exact.**  When at most `n` candidates reach the quota, the selector returns exactly the
    candidates strictly over the computed quota — or on it when equality is accepted — by non-increasing votes;
    no tie objects. -/
theorem quota_selector_exact (quota : Rat → Nat → Rat) (eq : Bool) (om : OnMore) (votes : Votes) (n : Nat)
    (hfit : (votes.filter (fun p => passes eq (quota (sumVals votes) n) p.2)).length ≤ n) :
    ∃ r : List Cand, quotaSelector quota eq om votes n = .ok (r.map Slot.cand) ∧
      (∀ c, c ∈ r ↔ ∃ v, (c, v) ∈ votes ∧
        (quota (sumVals votes) n < v ∨ (eq = true ∧ v = quota (sumVals votes) n))) ∧
      r.Sublist ((sortDesc votes).map (·.1)) := by
  have hq : quotaSelector quota eq om votes n =
      .ok (getNBest (votes.filter (fun p => passes eq (quota (sumVals votes) n) p.2)) n) := by
    have hfit' : ¬ (List.filter (fun p => decide (p.2 > quota (sumVals votes) n) ||
        (eq && decide (p.2 = quota (sumVals votes) n))) votes).length > n :=
      fun h => absurd hfit (not_le.mpr h)
    unfold quotaSelector
    simp only
    rw [if_neg hfit']
    rfl
  rw [hq, getNBest_all _ _ hfit]
  refine ⟨(sortDesc (votes.filter (fun p => passes eq (quota (sumVals votes) n) p.2))).map (·.1), ?_, ?_, ?_⟩
  · simp [List.map_map, Function.comp_def]
  · intro c
    simp only [List.mem_map, mem_sortDesc, List.mem_filter, passes_iff]
    constructor
    · rintro ⟨⟨c', v⟩, ⟨hm, hp⟩, rfl⟩; exact ⟨v, hm, hp⟩
    · rintro ⟨v, hm, hp⟩; exact ⟨(c, v), ⟨hm, hp⟩, rfl⟩
  · apply List.Sublist.map
    rw [sortDesc_filter_comm (fun v => passes eq (quota (sumVals votes) n) v) votes]
    exact List.filter_sublist

/-- more candidates over the quota than seats, policy 'error' -/
theorem quota_selector_overflow_error (quota : Rat → Nat → Rat) (eq : Bool) (votes : Votes) (n : Nat)
    (hover : n < (votes.filter (fun p => passes eq (quota (sumVals votes) n) p.2)).length) :
    quotaSelector quota eq .error votes n = .error .votingSystemError := by
  have hover' : (List.filter (fun p => decide (p.2 > quota (sumVals votes) n) ||
      (eq && decide (p.2 = quota (sumVals votes) n))) votes).length > n := hover
  unfold quotaSelector
  simp only
  rw [if_pos hover']

/-- ... policy 'select': `get_n_best` among exactly the candidates over the quota (characterised in VL.C09) -/
theorem quota_selector_overflow_select (quota : Rat → Nat → Rat) (eq : Bool) (votes : Votes) (n : Nat) :
    quotaSelector quota eq .select votes n =
      .ok (getNBest (votes.filter (fun p => passes eq (quota (sumVals votes) n) p.2)) n) := by
  unfold quotaSelector
  simp only
  split <;> rfl

/-! ## ThresholdOpenList -/

/-- `c` reaches the jump threshold `thr`: strictly over it, or on it when equality is accepted -/
def IsJumper (eq : Bool) (thr : Rat) (votes : Votes) (c : Cand) : Prop :=
  ∃ v, (c, v) ∈ votes ∧ (thr < v ∨ (eq = true ∧ v = thr))

/-- **The literal jump condition of `ThresholdOpenList.evaluate`** (regenerated from openlist.py on every run) is the
    boundary rule: strictly over the threshold, or exactly on it when equality is accepted. -/
theorem jump_condition_exact (thr : Rat) (eq : Bool) (v : Rat) :
    Gen.OpenList.openlist_jumps thr eq v = true ↔ (thr < v ∨ (eq = true ∧ v = thr)) := by
  simp [Gen.OpenList.openlist_jumps]

theorem mem_jumpers (eq : Bool) (thr : Rat) (votes : Votes) (c : Cand) :
    c ∈ jumpers eq thr votes ↔ IsJumper eq thr votes c := by
  unfold jumpers IsJumper
  simp only [List.mem_map, List.mem_filter, mem_sortDesc, jump_condition_exact]
  constructor
  · rintro ⟨⟨c', v⟩, ⟨hm, hp⟩, rfl⟩; exact ⟨v, hm, hp⟩
  · rintro ⟨v, hm, hp⟩; exact ⟨(c, v), ⟨hm, hp⟩, rfl⟩

/-- **The jump threshold as configured**: the jump fraction of the list total, the quota (multiplied by the quota
    fraction; a fraction of one changes nothing), the lower of the two by default, the higher one with
    `take_higher`; none at all when neither is configured. -/
theorem jump_threshold_spec (cfg : OpenListCfg) (total : Rat) (n : Nat) :
    jumpThreshold cfg total n =
      match cfg.jumpFraction, cfg.quota with
      | none, none => none
      | some jf, none => some (total * jf)
      | none, some q => some (q total n * cfg.quotaFraction)
      | some jf, some q =>
        some (if cfg.takeHigher then max (total * jf) (q total n * cfg.quotaFraction)
              else min (total * jf) (q total n * cfg.quotaFraction)) := by
  have hmax : ∀ a b : Rat, Py.pyMax a b = max a b := by
    intro a b; unfold Py.pyMax
    rcases lt_or_ge a b with h | h
    · rw [if_pos h, max_eq_right (le_of_lt h)]
    · rw [if_neg (not_lt.mpr h), max_eq_left h]
  have hmin : ∀ a b : Rat, pyMin a b = min a b := by
    intro a b; unfold pyMin
    rcases lt_or_ge b a with h | h
    · rw [if_pos h, min_eq_right (le_of_lt h)]
    · rw [if_neg (not_lt.mpr h), min_eq_left h]
  unfold jumpThreshold
  cases hj : cfg.jumpFraction <;> cases hqq : cfg.quota <;> simp [hmax, hmin]

/-- **quota_fraction_scales_quota.**  For every quota function (by name or callable) and every quota fraction, the
    quota part of the jump threshold is `quota(V, n) · quota_fraction`: the fraction scales the QUOTA, never the vote
    total or the seat count.  With only a quota configured this is the threshold itself; together with a jump
    fraction it is the second of the two numbers of which the lower (or, with `take_higher`, the higher) is taken. -/
theorem quota_fraction_scales_quota (cfg : OpenListCfg) (q : Rat → Nat → Rat) (hq : cfg.quota = some q)
    (total : Rat) (n : Nat) :
    (cfg.jumpFraction = none → jumpThreshold cfg total n = some (q total n * cfg.quotaFraction)) ∧
    (∀ jf, cfg.jumpFraction = some jf → jumpThreshold cfg total n =
      some (if cfg.takeHigher then max (total * jf) (q total n * cfg.quotaFraction)
            else min (total * jf) (q total n * cfg.quotaFraction))) := by
  constructor
  · intro hj
    rw [jump_threshold_spec, hj, hq]
  · intro jf hj
    rw [jump_threshold_spec, hj, hq]

/-- no jump fraction and no quota: the first `n` of the list -/
theorem openlist_no_threshold (cfg : OpenListCfg) (votes : Votes) (n : Nat) (clist : List Cand)
    (h : jumpThreshold cfg (sumVals votes) n = none) :
    thresholdOpenList cfg votes n clist = .ok (clist.take n) := by
  unfold thresholdOpenList; rw [h]

/-- **The jumpers fit**: all of them are seated first, in `sorted_votes` order; the seats left go to the list
    members that did not jump, each once, in list order. -/
theorem openlist_fill (cfg : OpenListCfg) (votes : Votes) (n : Nat) (clist : List Cand) (thr : Rat)
    (hthr : jumpThreshold cfg (sumVals votes) n = some thr)
    (hfit : (jumpers cfg.acceptEqual thr votes).length ≤ n) :
    thresholdOpenList cfg votes n clist =
      .ok (jumpers cfg.acceptEqual thr votes ++
        ((dedupKeep clist).filter (fun c => !(jumpers cfg.acceptEqual thr votes).contains c)).take
          (n - (jumpers cfg.acceptEqual thr votes).length)) := by
  unfold thresholdOpenList
  rw [hthr]
  simp only
  rw [if_neg (by omega), fillFromList_eq n clist _ hfit]

/-- more jumpers than seats, votes take precedence: the first `n` jumpers in `sorted_votes` order -/
theorem openlist_overflow_by_votes (cfg : OpenListCfg) (votes : Votes) (n : Nat) (clist : List Cand) (thr : Rat)
    (hthr : jumpThreshold cfg (sumVals votes) n = some thr)
    (hover : n < (jumpers cfg.acceptEqual thr votes).length) (hlp : cfg.listPrecedence = false) :
    thresholdOpenList cfg votes n clist = .ok ((jumpers cfg.acceptEqual thr votes).take n) := by
  unfold thresholdOpenList
  rw [hthr]
  simp only
  rw [if_pos hover, hlp]
  rfl

/-- more jumpers than seats, the list takes precedence: the `n` jumpers highest on the list, re-sorted by votes
    (stable); a jumper that is not on the list makes `list.index` raise ValueError -/
theorem openlist_overflow_by_list (cfg : OpenListCfg) (votes : Votes) (n : Nat) (clist : List Cand) (thr : Rat)
    (hthr : jumpThreshold cfg (sumVals votes) n = some thr)
    (hover : n < (jumpers cfg.acceptEqual thr votes).length) (hlp : cfg.listPrecedence = true) :
    thresholdOpenList cfg votes n clist =
      if ∀ c ∈ jumpers cfg.acceptEqual thr votes, c ∈ clist then
        .ok (sortBy (fun a b => decide (getD votes b 0 < getD votes a 0))
          ((sortBy (fun a b => decide (clist.idxOf a < clist.idxOf b)) (jumpers cfg.acceptEqual thr votes)).take n))
      else .error .valueError := by
  unfold thresholdOpenList
  rw [hthr]
  simp only
  rw [if_pos hover, hlp]
  simp only [if_true, List.all_eq_true, List.contains_iff_mem]

theorem jumpers_nodup (eq : Bool) (thr : Rat) (votes : Votes) (hwf : WF votes) :
    (jumpers eq thr votes).Nodup := by
  have h1 : ((sortDesc votes).map (·.1)).Nodup := ((sortDesc_perm votes).map _).nodup_iff.mpr hwf
  exact h1.sublist (List.filter_sublist.map _)

/-- the jumpers come by non-increasing votes -/
theorem jumpers_sorted (eq : Bool) (thr : Rat) (votes : Votes) (hwf : WF votes) :
    (jumpers eq thr votes).Pairwise (fun a b => getD votes b 0 ≤ getD votes a 0) := by
  unfold jumpers
  rw [List.pairwise_map]
  have hd : Desc ((sortDesc votes).filter (fun p => Gen.OpenList.openlist_jumps thr eq p.2)) :=
    List.Pairwise.sublist List.filter_sublist (sortDesc_desc votes)
  refine (List.Pairwise.and_mem.mp hd).imp ?_
  rintro a b ⟨ha, hb, hab⟩
  have ha' := mem_sortDesc.mp (List.mem_filter.mp ha).1
  have hb' := mem_sortDesc.mp (List.mem_filter.mp hb).1
  rw [getD_of_mem hwf (c := a.1) (v := a.2) ha', getD_of_mem hwf (c := b.1) (v := b.2) hb']
  exact hab

theorem jumpers_sub_keys (eq : Bool) (thr : Rat) (votes : Votes) (c : Cand) (h : c ∈ jumpers eq thr votes) :
    c ∈ keys votes := by
  obtain ⟨v, hv, _⟩ := (mem_jumpers eq thr votes c).mp h
  exact List.mem_map.mpr ⟨(c, v), hv, rfl⟩

/-- **openlist_length_distinct.**  For a duplicate-free list that contains everybody who received votes, and
    `n ≤` its length, the evaluator answers (whatever the configuration) with exactly `n` distinct list members. -/
theorem openlist_length_distinct (cfg : OpenListCfg) (votes : Votes) (n : Nat) (clist : List Cand)
    (hwf : WF votes) (hl : clist.Nodup) (hsub : ∀ c ∈ keys votes, c ∈ clist) (hn : n ≤ clist.length) :
    ∃ r, thresholdOpenList cfg votes n clist = .ok r ∧ r.length = n ∧ r.Nodup ∧ ∀ c ∈ r, c ∈ clist := by
  cases hthr : jumpThreshold cfg (sumVals votes) n with
  | none =>
    refine ⟨_, openlist_no_threshold cfg votes n clist hthr, ?_, hl.sublist (List.take_sublist _ _), ?_⟩
    · rw [List.length_take]; omega
    · intro c hc; exact List.mem_of_mem_take hc
  | some thr =>
    have hJn := jumpers_nodup cfg.acceptEqual thr votes hwf
    have hJs : ∀ c ∈ jumpers cfg.acceptEqual thr votes, c ∈ clist :=
      fun c hc => hsub c (jumpers_sub_keys _ _ _ c hc)
    by_cases hfit : (jumpers cfg.acceptEqual thr votes).length ≤ n
    · refine ⟨_, openlist_fill cfg votes n clist thr hthr hfit, ?_, ?_, ?_⟩
      · rw [List.length_append, List.length_take, dedupKeep_of_nodup hl, length_filter_not_mem hl hJn hJs]
        omega
      · rw [dedupKeep_of_nodup hl]
        refine List.nodup_append.mpr ⟨hJn, (hl.filter _).sublist (List.take_sublist _ _), ?_⟩
        intro a ha b hb hab
        have := (List.mem_filter.mp (List.mem_of_mem_take hb)).2
        subst hab
        simp [ha] at this
      · intro c hc
        rcases List.mem_append.mp hc with h | h
        · exact hJs c h
        · rw [dedupKeep_of_nodup hl] at h
          exact (List.mem_filter.mp (List.mem_of_mem_take h)).1
    · have hover : n < (jumpers cfg.acceptEqual thr votes).length := by omega
      cases hlp : cfg.listPrecedence with
      | false =>
        refine ⟨_, openlist_overflow_by_votes cfg votes n clist thr hthr hover hlp, ?_,
          hJn.sublist (List.take_sublist _ _), fun c hc => hJs c (List.mem_of_mem_take hc)⟩
        rw [List.length_take]; omega
      | true =>
        refine ⟨_, by rw [openlist_overflow_by_list cfg votes n clist thr hthr hover hlp, if_pos hJs], ?_, ?_, ?_⟩
        · rw [sortBy_length, List.length_take, sortBy_length]; omega
        · exact sortBy_nodup ((sortBy_nodup hJn).sublist (List.take_sublist _ _))
        · intro c hc
          exact hJs c (mem_sortBy.mp (List.mem_of_mem_take (mem_sortBy.mp hc)))

/-- **openlist_length_min.**  The same for EVERY seat count, also one larger than the list: the evaluator answers
    with exactly `min(n, |list|)` distinct list members (a party that won more seats than it has list members
    seats its whole list, each member once). -/
theorem openlist_length_min (cfg : OpenListCfg) (votes : Votes) (n : Nat) (clist : List Cand)
    (hwf : WF votes) (hl : clist.Nodup) (hsub : ∀ c ∈ keys votes, c ∈ clist) :
    ∃ r, thresholdOpenList cfg votes n clist = .ok r ∧ r.length = min n clist.length ∧ r.Nodup ∧ ∀ c ∈ r, c ∈ clist := by
  by_cases hn : n ≤ clist.length
  · obtain ⟨r, hr, hlen, hnd, hs⟩ := openlist_length_distinct cfg votes n clist hwf hl hsub hn
    exact ⟨r, hr, by rw [hlen, Nat.min_eq_left hn], hnd, hs⟩
  · have hn' : clist.length < n := by omega
    cases hthr : jumpThreshold cfg (sumVals votes) n with
    | none =>
      refine ⟨_, openlist_no_threshold cfg votes n clist hthr, ?_, hl.sublist (List.take_sublist _ _), ?_⟩
      · rw [List.length_take]
      · intro c hc; exact List.mem_of_mem_take hc
    | some thr =>
      have hJn := jumpers_nodup cfg.acceptEqual thr votes hwf
      have hJs : ∀ c ∈ jumpers cfg.acceptEqual thr votes, c ∈ clist :=
        fun c hc => hsub c (jumpers_sub_keys _ _ _ c hc)
      have hJle : (jumpers cfg.acceptEqual thr votes).length ≤ clist.length :=
        (List.subperm_of_subset hJn hJs).length_le
      have hfit : (jumpers cfg.acceptEqual thr votes).length ≤ n := by omega
      refine ⟨_, openlist_fill cfg votes n clist thr hthr hfit, ?_, ?_, ?_⟩
      · rw [List.length_append, List.length_take, dedupKeep_of_nodup hl, length_filter_not_mem hl hJn hJs]
        omega
      · rw [dedupKeep_of_nodup hl]
        refine List.nodup_append.mpr ⟨hJn, (hl.filter _).sublist (List.take_sublist _ _), ?_⟩
        intro a ha b hb hab
        have := (List.mem_filter.mp (List.mem_of_mem_take hb)).2
        subst hab
        simp [ha] at this
      · intro c hc
        rcases List.mem_append.mp hc with h | h
        · exact hJs c h
        · rw [dedupKeep_of_nodup hl] at h
          exact (List.mem_filter.mp (List.mem_of_mem_take h)).1

/-- more seats than list members: the whole list is seated, each member once -/
example : thresholdOpenList { jumpFraction := some (1/2), quota := none, quotaFraction := 1, takeHigher := false, acceptEqual := true, listPrecedence := false } [(2, 5), (1, 3)] 5 [1, 2, 3]
    = .ok [2, 1, 3] := by decide +kernel

/-- **openlist_order.**  With a jump threshold configured, the seated candidates are: first candidates over the
    threshold, by non-increasing votes; then candidates that did not reach it, all list members, in list order.
    A candidate below the threshold is seated only if every jumper is. -/
theorem openlist_order (cfg : OpenListCfg) (votes : Votes) (n : Nat) (clist : List Cand) (thr : Rat)
    (r : List Cand) (hwf : WF votes) (hthr : jumpThreshold cfg (sumVals votes) n = some thr)
    (h : thresholdOpenList cfg votes n clist = .ok r) :
    ∃ js rest, r = js ++ rest ∧
      (∀ c ∈ js, IsJumper cfg.acceptEqual thr votes c) ∧
      (∀ c ∈ rest, ¬ IsJumper cfg.acceptEqual thr votes c ∧ c ∈ clist) ∧
      js.Pairwise (fun a b => getD votes b 0 ≤ getD votes a 0) ∧
      rest.Pairwise (fun a b => clist.idxOf a < clist.idxOf b) ∧
      (rest ≠ [] → ∀ c, IsJumper cfg.acceptEqual thr votes c → c ∈ js) := by
  have hJsorted := jumpers_sorted cfg.acceptEqual thr votes hwf
  by_cases hfit : (jumpers cfg.acceptEqual thr votes).length ≤ n
  · rw [openlist_fill cfg votes n clist thr hthr hfit] at h
    have hr : r = _ := (Except.ok.inj h).symm
    refine ⟨_, _, hr, fun c hc => (mem_jumpers _ _ _ c).mp hc, ?_, hJsorted, ?_,
      fun _ c hc => (mem_jumpers _ _ _ c).mpr hc⟩
    · intro c hc
      have hm := List.mem_filter.mp (List.mem_of_mem_take hc)
      refine ⟨fun hj => ?_, mem_dedupKeep.mp hm.1⟩
      have := (mem_jumpers _ _ _ c).mpr hj
      simp [this] at hm
    · exact ((dedupKeep_pairwise_idxOf clist).sublist List.filter_sublist).sublist (List.take_sublist _ _)
  · have hover : n < (jumpers cfg.acceptEqual thr votes).length := by omega
    cases hlp : cfg.listPrecedence with
    | false =>
      rw [openlist_overflow_by_votes cfg votes n clist thr hthr hover hlp] at h
      have hr : r = _ := (Except.ok.inj h).symm
      refine ⟨_, [], by rw [hr, List.append_nil],
        fun c hc => (mem_jumpers _ _ _ c).mp (List.mem_of_mem_take hc), by simp,
        hJsorted.sublist (List.take_sublist _ _), List.Pairwise.nil, fun h => absurd rfl h⟩
    | true =>
      rw [openlist_overflow_by_list cfg votes n clist thr hthr hover hlp] at h
      split at h
      · have hr : r = _ := (Except.ok.inj h).symm
        refine ⟨_, [], by rw [hr, List.append_nil],
          fun c hc => (mem_jumpers _ _ _ c).mp (mem_sortBy.mp (List.mem_of_mem_take (mem_sortBy.mp hc))),
          by simp, ?_, List.Pairwise.nil, fun h => absurd rfl h⟩
        have := sortBy_sorted (fun a => - getD votes a 0)
          (fun a b => decide (getD votes b 0 < getD votes a 0)) (by intro a b; simp)
          ((sortBy (fun a b => decide (clist.idxOf a < clist.idxOf b)) (jumpers cfg.acceptEqual thr votes)).take n)
        exact this.imp (fun hab => neg_le_neg_iff.mp hab)
      · cases h

/-- **openlist_no_pass_over.**  Nobody is passed over by a lower-listed colleague who did not reach the threshold:
    if a seated candidate `c` is not a jumper (in particular whenever no threshold is configured), every list
    member standing above `c` on the list is seated too. -/
theorem openlist_no_pass_over (cfg : OpenListCfg) (votes : Votes) (n : Nat) (clist : List Cand) (r : List Cand)
    (h : thresholdOpenList cfg votes n clist = .ok r) (c d : Cand) (hc : c ∈ r)
    (hnj : ∀ thr, jumpThreshold cfg (sumVals votes) n = some thr → ¬ IsJumper cfg.acceptEqual thr votes c)
    (hd : d ∈ clist) (hbefore : clist.idxOf d < clist.idxOf c) : d ∈ r := by
  cases hthr : jumpThreshold cfg (sumVals votes) n with
  | none =>
    rw [openlist_no_threshold cfg votes n clist hthr] at h
    have hr : r = _ := (Except.ok.inj h).symm
    rw [hr] at hc ⊢
    exact mem_take_of_idxOf_lt hd (lt_trans hbefore (idxOf_lt_of_mem_take hc))
  | some thr =>
    have hcj : c ∉ jumpers cfg.acceptEqual thr votes := fun hj => hnj thr hthr ((mem_jumpers _ _ _ c).mp hj)
    by_cases hfit : (jumpers cfg.acceptEqual thr votes).length ≤ n
    · rw [openlist_fill cfg votes n clist thr hthr hfit] at h
      have hr : r = _ := (Except.ok.inj h).symm
      rw [hr] at hc ⊢
      rcases List.mem_append.mp hc with hc' | hc'
      · exact absurd hc' hcj
      · by_cases hdj : d ∈ jumpers cfg.acceptEqual thr votes
        · exact List.mem_append_left _ hdj
        · apply List.mem_append_right
          refine mem_take_of_pairwise (R := fun a b => clist.idxOf a < clist.idxOf b)
            (fun a b hab hba => absurd hab (not_lt.mpr (le_of_lt hba)))
            ((dedupKeep_pairwise_idxOf clist).sublist List.filter_sublist) hc' ?_ hbefore
          exact List.mem_filter.mpr ⟨mem_dedupKeep.mpr hd, by simpa using hdj⟩
    · have hover : n < (jumpers cfg.acceptEqual thr votes).length := by omega
      exfalso
      cases hlp : cfg.listPrecedence with
      | false =>
        rw [openlist_overflow_by_votes cfg votes n clist thr hthr hover hlp] at h
        have hr : r = _ := (Except.ok.inj h).symm
        rw [hr] at hc
        exact hcj (List.mem_of_mem_take hc)
      | true =>
        rw [openlist_overflow_by_list cfg votes n clist thr hthr hover hlp] at h
        split at h
        · have hr : r = _ := (Except.ok.inj h).symm
          rw [hr] at hc
          exact hcj (mem_sortBy.mp (List.mem_of_mem_take (mem_sortBy.mp hc)))
        · cases h

/-- more jumpers than seats, votes take precedence: exactly `n` jumpers are seated and no jumper left out has
    more votes than a seated one -/
theorem openlist_overflow_votes_best (cfg : OpenListCfg) (votes : Votes) (n : Nat) (clist : List Cand) (thr : Rat)
    (r : List Cand) (hwf : WF votes) (hthr : jumpThreshold cfg (sumVals votes) n = some thr)
    (hover : n < (jumpers cfg.acceptEqual thr votes).length) (hlp : cfg.listPrecedence = false)
    (h : thresholdOpenList cfg votes n clist = .ok r) :
    r.length = n ∧ (∀ a ∈ r, IsJumper cfg.acceptEqual thr votes a) ∧
      ∀ a ∈ r, ∀ b, IsJumper cfg.acceptEqual thr votes b → b ∉ r → getD votes b 0 ≤ getD votes a 0 := by
  rw [openlist_overflow_by_votes cfg votes n clist thr hthr hover hlp] at h
  have hr : r = _ := (Except.ok.inj h).symm
  subst hr
  refine ⟨by rw [List.length_take]; omega, fun a ha => (mem_jumpers _ _ _ a).mp (List.mem_of_mem_take ha), ?_⟩
  intro a ha b hb hbr
  have hbJ := (mem_jumpers _ _ _ b).mpr hb
  have hs := jumpers_sorted cfg.acceptEqual thr votes hwf
  rw [← List.take_append_drop n (jumpers cfg.acceptEqual thr votes)] at hs hbJ
  rcases List.mem_append.mp hbJ with h1 | h1
  · exact absurd h1 hbr
  · exact (List.pairwise_append.mp hs).2.2 a ha b h1

/-- more jumpers than seats, the list takes precedence: exactly `n` jumpers are seated and every jumper left out
    stands lower on the list than every seated one -/
theorem openlist_overflow_list_best (cfg : OpenListCfg) (votes : Votes) (n : Nat) (clist : List Cand) (thr : Rat)
    (r : List Cand) (hthr : jumpThreshold cfg (sumVals votes) n = some thr)
    (hover : n < (jumpers cfg.acceptEqual thr votes).length) (hlp : cfg.listPrecedence = true)
    (h : thresholdOpenList cfg votes n clist = .ok r) :
    r.length = n ∧ (∀ a ∈ r, IsJumper cfg.acceptEqual thr votes a) ∧
      ∀ a ∈ r, ∀ b, IsJumper cfg.acceptEqual thr votes b → b ∉ r → clist.idxOf a < clist.idxOf b := by
  rw [openlist_overflow_by_list cfg votes n clist thr hthr hover hlp] at h
  split at h
  · rename_i hall
    have hr : r = _ := (Except.ok.inj h).symm
    subst hr
    refine ⟨by rw [sortBy_length, List.length_take, sortBy_length]; omega,
      fun a ha => (mem_jumpers _ _ _ a).mp (mem_sortBy.mp (List.mem_of_mem_take (mem_sortBy.mp ha))), ?_⟩
    intro a ha b hb hbr
    have ha' := mem_sortBy.mp ha
    have hbJ := (mem_jumpers _ _ _ b).mpr hb
    have hbS : b ∈ sortBy (fun a b => decide (clist.idxOf a < clist.idxOf b)) (jumpers cfg.acceptEqual thr votes) :=
      mem_sortBy.mpr hbJ
    have hs := sortBy_sorted (fun a => clist.idxOf a) (fun a b => decide (clist.idxOf a < clist.idxOf b))
      (by intro a b; simp) (jumpers cfg.acceptEqual thr votes)
    rw [← List.take_append_drop n (sortBy _ (jumpers cfg.acceptEqual thr votes))] at hs hbS
    rcases List.mem_append.mp hbS with h1 | h1
    · exact absurd (mem_sortBy.mpr h1) hbr
    · have hle := (List.pairwise_append.mp hs).2.2 a ha' b h1
      have haJ : a ∈ clist := hall a (mem_sortBy.mp (List.mem_of_mem_take ha'))
      have hne : a ≠ b := fun e => hbr (e ▸ ha)
      exact lt_of_le_of_ne hle (fun e => hne ((List.idxOf_inj haJ).mp e))
  · cases h

/-- ... and the seated jumpers come by non-increasing votes, those with equal votes in list order -/
theorem openlist_overflow_list_order (cfg : OpenListCfg) (votes : Votes) (n : Nat) (clist : List Cand) (thr : Rat)
    (r : List Cand) (hthr : jumpThreshold cfg (sumVals votes) n = some thr)
    (hover : n < (jumpers cfg.acceptEqual thr votes).length) (hlp : cfg.listPrecedence = true)
    (h : thresholdOpenList cfg votes n clist = .ok r) :
    r.Pairwise (fun a b => getD votes b 0 ≤ getD votes a 0 ∧
      (getD votes a 0 = getD votes b 0 → clist.idxOf a ≤ clist.idxOf b)) := by
  rw [openlist_overflow_by_list cfg votes n clist thr hthr hover hlp] at h
  split at h
  · have hr : r = _ := (Except.ok.inj h).symm
    subst hr
    have hs := (sortBy_sorted (fun a => clist.idxOf a) (fun a b => decide (clist.idxOf a < clist.idxOf b))
      (by intro a b; simp) (jumpers cfg.acceptEqual thr votes)).sublist (List.take_sublist n _)
    have := sortBy_stable (fun a => - getD votes a 0) (fun a b => decide (getD votes b 0 < getD votes a 0))
      (by intro a b; simp) (fun a b => clist.idxOf a ≤ clist.idxOf b) _ hs
    exact this.imp (fun hab => ⟨neg_le_neg_iff.mp hab.1, fun e => hab.2 (by rw [e])⟩)
  · cases h

/-! ## ListOrderTieBreaker / Tie.break_by_list -/

/-- **list_tiebreak_only_tied (break_by_list).**  Breaking ties by the list changes nothing but the tie places:
    the result has the same length, an untied place keeps its candidate, and a tie place receives one of the
    candidates tied there (`Resolves`). -/
theorem break_by_list_only_tied (elected : List Slot) (breaker : List Cand) (r : List Cand)
    (h : breakByList elected breaker = .ok r) : List.Forall₂ Resolves elected r :=
  breakLoop_resolves breaker elected [] r (by intro e he; cases he) h

/-- the wrapper: without a tie the inner result is returned as it is; with ties every place is resolved in place -/
theorem list_tiebreak_only_tied (inner : Votes → Nat → Except Err (List Slot)) (votes : Votes) (n : Nat)
    (clist : List Cand) (res out : List Slot) (hi : inner votes n = .ok res)
    (h : listOrderTieBreaker inner votes n clist = .ok out) :
    List.Forall₂ (fun s o => match s with
      | .cand c => o = .cand c
      | .tie t => ∃ c ∈ t, o = .cand c) res out := by
  unfold listOrderTieBreaker at h
  simp only [hi, bind, Except.bind] at h
  split at h
  · rename_i hany0
    split at h
    · cases h
    · rename_i broken hb
      have hout : out = broken.map Slot.cand := by cases h; rfl
      have hf := break_by_list_only_tied res clist broken hb
      rw [hout]
      clear hb h hout hi hany0
      induction hf with
      | nil => exact List.Forall₂.nil
      | @cons s c ss cs h1 _ ih =>
        refine List.Forall₂.cons ?_ ih
        cases s with
        | cand c' => simp only [Resolves] at h1; rw [h1]
        | tie t => exact ⟨c, h1, rfl⟩
  · rename_i hany
    have hout : out = res := by cases h; rfl
    rw [hout]
    clear h hout hi
    induction res with
    | nil => exact List.Forall₂.nil
    | cons s ss ih =>
      have hs : s.isTie = false ∧ ss.any Slot.isTie = false := by
        simpa [List.any_cons] using hany
      refine List.Forall₂.cons ?_ (ih (by simp [hs.2]))
      cases s with
      | cand c => rfl
      | tie t => simp [Slot.isTie] at hs

/-- **The shape selectors produce** (`get_n_best`): untied winners followed by `k` places of one tie.  The tie
    places go to the `k` tied candidates standing highest on the list, in list order; nobody else moves. -/
theorem break_by_list_nbest (pre : List Cand) (t : List Cand) (k : Nat) (breaker : List Cand)
    (hall : ∀ c ∈ t, c ∈ breaker) (hk : k ≤ (dedupKeep t).length) :
    breakByList (pre.map Slot.cand ++ List.replicate k (Slot.tie t)) breaker =
      .ok (pre ++ (sortByIndex breaker t).take k) := by
  unfold breakByList
  rw [breakLoop_cands, breakLoop_replicate_new breaker t k [] rfl hall
    (by unfold sortByIndex; rw [sortBy_length]; exact hk)]

/-- `sorted(tie, key=list.index)`: the tied candidates, each once, by increasing list position -/
theorem sortByIndex_spec (breaker t : List Cand) :
    (sortByIndex breaker t).Perm (dedupKeep t) ∧
    (sortByIndex breaker t).Pairwise (fun a b => breaker.idxOf a ≤ breaker.idxOf b) :=
  ⟨sortBy_perm _ _, sortBy_sorted (fun a => breaker.idxOf a) _ (by intro a b; simp) _⟩

/-- **Plurality with list tie-break, boundary tie.**  When the candidates level with the n-th total do not all
    fit, the result is: everybody strictly above (by votes), then the level candidates standing highest on the
    list, in list order, as many as seats remain.  (Together with VL.C09.getNBest_fits — no tie, nothing changes —
    the list order decides only among tied candidates.) -/
theorem list_tiebreak_plurality_tie (votes : Votes) (n : Nat) (clist : List Cand) (hwf : WF votes)
    (h1 : 1 ≤ n) (hlen : n < votes.length) (t : Rat) (ht : IsNth votes n t) (hno : n < cntGe votes t)
    (hall : ∀ c ∈ level votes t, c ∈ clist) :
    listOrderTieBreaker (fun v k => .ok (plurality v k)) votes n clist =
      .ok (((aboveSorted votes t).map (·.1) ++ (sortByIndex clist (level votes t)).take (n - cntGt votes t)).map
        Slot.cand) := by
  have hres := VL.C09.getNBest_tie votes n h1 hlen t ht hno
  have hpos : 0 < n - cntGt votes t := by have := ht.2.1; omega
  have hlevel_nodup : (level votes t).Nodup := by
    unfold level
    have : (keys votes).Nodup := hwf
    exact (List.Nodup.sublist (List.filter_sublist.map _) this)
  have hk : n - cntGt votes t ≤ (dedupKeep (level votes t)).length := by
    rw [dedupKeep_of_nodup hlevel_nodup]
    have := cntGe_eq_cntGt_add_level votes t
    omega
  unfold listOrderTieBreaker
  simp only [plurality, bind, Except.bind, hres]
  have hany : (List.map (fun p => Slot.cand p.1) (aboveSorted votes t) ++
      List.replicate (n - cntGt votes t) (Slot.tie (level votes t))).any Slot.isTie = true := by
    rw [List.any_append]
    have : (List.replicate (n - cntGt votes t) (Slot.tie (level votes t))).any Slot.isTie = true := by
      obtain ⟨m, hm⟩ := Nat.exists_eq_succ_of_ne_zero (Nat.pos_iff_ne_zero.mp hpos)
      rw [hm, List.replicate_succ, List.any_cons]
      simp [Slot.isTie]
    simp [this]
  rw [if_pos hany]
  have hmap : List.map (fun p => Slot.cand p.1) (aboveSorted votes t) =
      ((aboveSorted votes t).map (·.1)).map Slot.cand := by
    simp [List.map_map, Function.comp_def]
  rw [hmap, break_by_list_nbest _ _ _ clist hall hk]
  rfl

/-- without a tie in the inner result the wrapper returns it unchanged (the list plays no role) -/
theorem list_tiebreak_no_tie (inner : Votes → Nat → Except Err (List Slot)) (votes : Votes) (n : Nat)
    (clist : List Cand) (res : List Slot) (hi : inner votes n = .ok res) (hno : res.any Slot.isTie = false) :
    listOrderTieBreaker inner votes n clist = .ok res := by
  unfold listOrderTieBreaker
  simp [hi, bind, Except.bind, hno, pure, Except.pure]

/-- Plurality with list tie-break when the level set fits: exactly the plurality result of VL.C09.getNBest_fits -/
theorem list_tiebreak_plurality_fits (votes : Votes) (n : Nat) (clist : List Cand)
    (h1 : 1 ≤ n) (hlen : n < votes.length) (t : Rat) (ht : IsNth votes n t) (hfit : cntGe votes t ≤ n) :
    listOrderTieBreaker (fun v k => .ok (plurality v k)) votes n clist =
      .ok ((aboveSorted votes t).map (fun p => Slot.cand p.1) ++ (level votes t).map Slot.cand) := by
  have hres := VL.C09.getNBest_fits votes n h1 hlen t ht hfit
  apply list_tiebreak_no_tie _ _ _ _ _ (by simp only [plurality, hres])
  rw [List.any_append]
  simp [List.any_map, Function.comp_def, Slot.isTie]

/-- QuotaSelector (policy 'select') with list tie-break, more candidates over the quota than seats and a boundary
    tie among them: the list decides only among the candidates over the quota that are level with the n-th of them -/
theorem list_tiebreak_quota_tie (quota : Rat → Nat → Rat) (eq : Bool) (votes : Votes) (n : Nat) (clist : List Cand)
    (hwf : WF votes) (h1 : 1 ≤ n) (t : Rat)
    (hlen : n < (votes.filter (fun p => passes eq (quota (sumVals votes) n) p.2)).length)
    (ht : IsNth (votes.filter (fun p => passes eq (quota (sumVals votes) n) p.2)) n t)
    (hno : n < cntGe (votes.filter (fun p => passes eq (quota (sumVals votes) n) p.2)) t)
    (hall : ∀ c ∈ level (votes.filter (fun p => passes eq (quota (sumVals votes) n) p.2)) t, c ∈ clist) :
    listOrderTieBreaker (quotaSelector quota eq .select) votes n clist =
      .ok (((aboveSorted (votes.filter (fun p => passes eq (quota (sumVals votes) n) p.2)) t).map (·.1) ++
        (sortByIndex clist (level (votes.filter (fun p => passes eq (quota (sumVals votes) n) p.2)) t)).take
          (n - cntGt (votes.filter (fun p => passes eq (quota (sumVals votes) n) p.2)) t)).map Slot.cand) := by
  have hwf' : WF (votes.filter (fun p => passes eq (quota (sumVals votes) n) p.2)) := by
    unfold WF keys at hwf ⊢
    exact hwf.sublist (List.filter_sublist.map _)
  have := list_tiebreak_plurality_tie _ n clist hwf' h1 hlen t ht hno hall
  unfold listOrderTieBreaker at this ⊢
  rw [quota_selector_overflow_select]
  exact this

/-- **Zero seats.**  Asked for no seats the evaluator seats nobody (whenever it answers at all), and with at least one
    seat `thresholdOpenListAt` is `thresholdOpenList`: the ZeroDivisionError of the seat-dividing quota functions is the
    only thing `n_seats = 0` adds. -/
theorem openlist_zero_seats (cfg : OpenListCfg) (votes : Votes) (clist : List Cand) (r : List Cand)
    (h : thresholdOpenList cfg votes 0 clist = .ok r) : r = [] := by
  cases hthr : jumpThreshold cfg (sumVals votes) 0 with
  | none =>
    rw [openlist_no_threshold cfg votes 0 clist hthr] at h
    cases h; rfl
  | some thr =>
    by_cases hfit : (jumpers cfg.acceptEqual thr votes).length ≤ 0
    · rw [openlist_fill cfg votes 0 clist thr hthr hfit] at h
      have : jumpers cfg.acceptEqual thr votes = [] := List.length_eq_zero_iff.mp (by omega)
      cases h; simp [this]
    · have hover : 0 < (jumpers cfg.acceptEqual thr votes).length := by omega
      cases hlp : cfg.listPrecedence with
      | false =>
        rw [openlist_overflow_by_votes cfg votes 0 clist thr hthr hover hlp] at h
        cases h; rfl
      | true =>
        rw [openlist_overflow_by_list cfg votes 0 clist thr hthr hover hlp] at h
        split at h
        · cases h; simp [sortBy]
        · cases h

theorem openlist_at_pos (d : Bool) (cfg : OpenListCfg) (votes : Votes) (n : Nat) (clist : List Cand) (hn : 1 ≤ n) :
    thresholdOpenListAt d cfg votes n clist = thresholdOpenList cfg votes n clist := by
  unfold thresholdOpenListAt
  rw [if_neg (by omega)]

/-- **When the open-list evaluator refuses.**  The only exception is the ValueError of `list.index`: a threshold is
    configured, more candidates jump than there are seats, the list takes precedence, and one of the jumpers is not
    on the list.  In particular it always answers when everybody who received votes is on the list. -/
theorem openlist_error_iff (cfg : OpenListCfg) (votes : Votes) (n : Nat) (clist : List Cand) (e : Err) :
    thresholdOpenList cfg votes n clist = .error e ↔
      e = .valueError ∧ ∃ thr, jumpThreshold cfg (sumVals votes) n = some thr ∧
        n < (jumpers cfg.acceptEqual thr votes).length ∧ cfg.listPrecedence = true ∧
        ∃ c, IsJumper cfg.acceptEqual thr votes c ∧ c ∉ clist := by
  cases hthr : jumpThreshold cfg (sumVals votes) n with
  | none =>
    rw [openlist_no_threshold cfg votes n clist hthr]
    constructor
    · intro h; cases h
    · rintro ⟨_, thr, h, _⟩; cases h
  | some thr =>
    by_cases hfit : (jumpers cfg.acceptEqual thr votes).length ≤ n
    · rw [openlist_fill cfg votes n clist thr hthr hfit]
      constructor
      · intro h; cases h
      · rintro ⟨_, thr', h, hov, _⟩
        cases h; omega
    · have hover : n < (jumpers cfg.acceptEqual thr votes).length := by omega
      cases hlp : cfg.listPrecedence with
      | false =>
        rw [openlist_overflow_by_votes cfg votes n clist thr hthr hover hlp]
        constructor
        · intro h; cases h
        · rintro ⟨_, _, _, _, h, _⟩; cases h
      | true =>
        rw [openlist_overflow_by_list cfg votes n clist thr hthr hover hlp]
        by_cases hall : ∀ c ∈ jumpers cfg.acceptEqual thr votes, c ∈ clist
        · rw [if_pos hall]
          constructor
          · intro h; cases h
          · rintro ⟨_, thr', h, _, _, c, hc, hcn⟩
            cases h
            exact absurd (hall c ((mem_jumpers _ _ _ c).mpr hc)) hcn
        · rw [if_neg hall]
          constructor
          · intro h
            have he : e = .valueError := by cases h; rfl
            refine ⟨he, thr, rfl, hover, rfl, ?_⟩
            push Not at hall
            obtain ⟨c, hc, hcn⟩ := hall
            exact ⟨c, (mem_jumpers _ _ _ c).mp hc, hcn⟩
          · rintro ⟨he, _⟩; rw [he]

/-! ## non-vacuity: concrete boundary inputs meeting the hypotheses, and what the model answers on them -/

-- a party with exactly 5 of 100 votes and a 5 % threshold (the input the repaired defect c511ac9 got wrong)
example : sumVals [(0,5),(1,95)] ≠ 0 := by decide +kernel
example : relativeThreshold (1/20) true [(0,5),(1,95)] = .ok [1, 0] := by decide +kernel
example : relativeThreshold (1/20) false [(0,5),(1,95)] = .ok [1] := by decide +kernel
example : relativeThreshold (1/20) true [(0,(5:Rat)/2),(1,(95:Rat)/2)] = .ok [1, 0] := by decide +kernel
example : relativeThreshold (1/20) true [(0,0),(1,0)] = .error (.other "ZeroDivisionError") := by decide +kernel
example : absoluteThreshold 5 true [(0,5),(1,95),(2,4)] = [1, 0] := by decide +kernel
example : absoluteThreshold 5 false [(0,5),(1,95),(2,4)] = [1] := by decide +kernel
-- alternatives: 5 % of the vote or at least 50 votes
example : alternativeThresholds [fun v => .ok (absoluteThreshold 50 true v), relativeThreshold (1/20) true]
    [(0,5),(1,95),(2,0)] = .ok [1, 0] := by decide +kernel
-- a 10 % bar for two-party coalitions, 5 % for everybody else
example : coalitionBracketer (fun c => if c = 0 then 2 else 1) [(2, relativeThreshold (1/10) true)]
    (relativeThreshold (1/20) true) [(0,5),(1,90),(2,5)] = .ok [1, 2] := by decide +kernel
-- minority parties (property value 1) are exempt
example : propertyBracketer (fun c => if c = 2 then some 1 else none) [(1, none)]
    (some (relativeThreshold (1/20) false)) [(0,5),(1,93),(2,2)] = .ok [1, 2] := by decide +kernel
-- the selector tree runs the same functions
example : Sel.run ⟨fun _ => 1, fun _ => none⟩ 8 (.alt [.abs 50 true, .rel (1/20) true]) [(0,5),(1,95),(2,0)] []
    = .ok [1, 0] := by decide +kernel
-- Hare quota by name with the default quota fraction (the input the repaired defect 699592a crashed on)
example : thresholdOpenList ⟨none, some Gen.Quota.hare, 1, false, false, false⟩ [(0,10),(1,20),(2,70)] 2 [0,1,2]
    = .ok [2, 0] := by decide +kernel
-- the former witness of C16-openlist-decimal-context-rounding (repaired by c90882d): 5 % of 10^30 + 20 votes is
-- 5·10^28 + 1; candidate 0 has exactly that, equality is not accepted, so it does not jump and the second seat goes
-- to the list (candidate 2) — Decimal('0.05') used to round the product to 5.000…E+28 and seat candidate 0
example : thresholdOpenList ⟨some (1/20), none, 1, false, false, false⟩
    [(0, 50000000000000000000000000001), (1, 950000000000000000000000000019), (2, 0)] 2 [1, 2, 0]
    = .ok [1, 2] := by decide +kernel
example : jumpThreshold ⟨some (1/20), none, 1, false, false, false⟩
    (sumVals [(0, 50000000000000000000000000001), (1, 950000000000000000000000000019), (2, 0)]) 2
    = some 50000000000000000000000000001 := by decide +kernel
-- ... and with equality accepted the candidate exactly on the threshold jumps
example : thresholdOpenList ⟨some (1/20), none, 1, false, true, false⟩
    [(0, 50000000000000000000000000001), (1, 950000000000000000000000000019), (2, 0)] 2 [1, 2, 0]
    = .ok [1, 0] := by decide +kernel
-- exactly on half a Hare quota (25 of 100, two seats), equality accepted / not accepted
example : thresholdOpenList ⟨none, some Gen.Quota.hare, 1/2, false, true, false⟩ [(0,10),(1,25),(2,65)] 2 [0,1,2]
    = .ok [2, 1] := by decide +kernel
example : thresholdOpenList ⟨none, some Gen.Quota.hare, 1/2, false, false, false⟩ [(0,10),(1,25),(2,65)] 2 [0,1,2]
    = .ok [2, 0] := by decide +kernel
-- more jumpers than seats: by votes, or by list position
example : thresholdOpenList ⟨some (1/10), none, 1, false, true, false⟩ [(0,20),(1,30),(2,50)] 2 [0,1,2]
    = .ok [2, 1] := by decide +kernel
example : thresholdOpenList ⟨some (1/10), none, 1, false, true, true⟩ [(0,20),(1,30),(2,50)] 2 [0,1,2]
    = .ok [1, 0] := by decide +kernel
-- the hypotheses of openlist_length_distinct / openlist_order on that input
example : WF [(0,10),(1,25),(2,65)] ∧ [0,1,2].Nodup ∧ (∀ c ∈ keys [(0,10),(1,25),(2,65)], c ∈ [0,1,2]) := by
  unfold WF; decide +kernel
example : jumpThreshold ⟨none, some Gen.Quota.hare, 1/2, false, true, false⟩ (sumVals [(0,10),(1,25),(2,65)]) 2
    = some 25 := by decide +kernel
-- quota selector: Droop quota of 100 votes for 2 seats is 34; a candidate exactly on it
example : (List.filter (fun p => passes true (Gen.Quota.droop (sumVals [(0,34),(1,40),(2,26)]) 2) p.2)
    [(0,34),(1,40),(2,26)]).length ≤ 2 := by decide +kernel
example : quotaSelector Gen.Quota.droop true .error [(0,34),(1,40),(2,26)] 2 = .ok [.cand 1, .cand 0] := by
  decide +kernel
example : quotaSelector Gen.Quota.droop false .error [(0,34),(1,40),(2,26)] 2 = .ok [.cand 1] := by
  decide +kernel
-- list tie-break: 2 and 3 are tied for the second seat, 3 stands higher on the list
example : IsNth [(1,5),(2,3),(3,3),(4,1)] 2 3 := by
  refine ⟨⟨(2,3), by simp, rfl⟩, ?_, ?_⟩ <;> decide +kernel
example : WF [(1,5),(2,3),(3,3),(4,1)] ∧ 2 < cntGe [(1,5),(2,3),(3,3),(4,1)] 3 ∧
    (∀ c ∈ level [(1,5),(2,3),(3,3),(4,1)] 3, c ∈ [4,3,2,1]) := by unfold WF; decide +kernel
example : listOrderTieBreaker (fun v k => .ok (plurality v k)) [(1,5),(2,3),(3,3),(4,1)] 2 [4,3,2,1]
    = .ok [.cand 1, .cand 3] := by decide +kernel
example : breakByList [.cand 7, .tie [1,2,3], .tie [3,2,1]] [3,1,2] = .ok [7, 3, 1] := by decide +kernel

end VL.C16
