/-
  C16 — thresholds, quota selectors and open-list jumps are exact at the boundary.
  Property theorems only (helper lemmas live in VotelibProofs/Lemmas).  Namespace VL.C16.

  Reading.  A dict of votes is `Votes = List (Cand × Rat)` in insertion order (`Rat` covers int, Fraction and
  Decimal exactly); "share" is `v / sumVals votes`; all comparisons are comparisons of rationals.
-/
import VotelibProofs.Lemmas.NBest
import VotelibProofs.Lemmas.SortBy
import VotelibProofs.Lemmas.Bracket
import Mathlib.Tactic.Ring
import Mathlib.Algebra.Order.Field.Basic
import VotelibModel.Threshold
import VotelibModel.OpenList
import VotelibModel.Simple
namespace VL.C16
open VL

/-- well-formed dict: keys are distinct -/
def WF (votes : Votes) : Prop := (keys votes).Nodup

/-! ## the boundary rule -/

/-- the comparison used by every threshold: strictly over, or exactly on it when equality is accepted -/
theorem passes_iff (eq : Bool) (t v : Rat) : passes eq t v = true ↔ (t < v ∨ (eq = true ∧ v = t)) := by
  simp [passes]

/-- `sum(votes.values())` -/
theorem sumVals_eq_sum (votes : Votes) : sumVals votes = (votes.map (·.2)).sum := by
  have h : ∀ (l : Votes) (a : Rat), l.foldl (fun acc p => acc + p.2) a = a + (l.map (·.2)).sum := by
    intro l
    induction l with
    | nil => intro a; simp
    | cons x xs ih => intro a; simp only [List.foldl_cons, List.map_cons, List.sum_cons, ih]; ring
  simpa [sumVals] using h votes 0

/-! ## AbsoluteThreshold -/

/-- **abs_threshold_exact.**  A candidate passes iff its count is strictly over the threshold, or exactly on it
    and equality is accepted. -/
theorem abs_threshold_exact (t : Rat) (eq : Bool) (votes : Votes) (c : Cand) :
    c ∈ absoluteThreshold t eq votes ↔ ∃ v, (c, v) ∈ votes ∧ (t < v ∨ (eq = true ∧ v = t)) := by
  unfold absoluteThreshold
  simp only [List.mem_map, List.mem_filter, mem_sortDesc, passes_iff]
  constructor
  · rintro ⟨⟨c', v⟩, ⟨hm, hp⟩, rfl⟩; exact ⟨v, hm, hp⟩
  · rintro ⟨v, hm, hp⟩; exact ⟨(c, v), ⟨hm, hp⟩, rfl⟩

/-- the output keeps the order of `sorted_votes` (non-increasing, equal counts in insertion order) -/
theorem abs_threshold_order (t : Rat) (eq : Bool) (votes : Votes) :
    (absoluteThreshold t eq votes).Sublist ((sortDesc votes).map (·.1)) :=
  List.filter_sublist.map _

/-! ## RelativeThreshold -/

/-- **rel_threshold_exact.**  With a non-zero total the selector answers, and a candidate passes iff its exact
    share of the total is strictly over the threshold, or exactly on it and equality is accepted; the output keeps
    the order of `sorted_votes`. -/
theorem rel_threshold_exact (t : Rat) (eq : Bool) (votes : Votes) (hV : sumVals votes ≠ 0) :
    ∃ r, relativeThreshold t eq votes = .ok r ∧
      (∀ c, c ∈ r ↔ ∃ v, (c, v) ∈ votes ∧ (t < v / sumVals votes ∨ (eq = true ∧ v / sumVals votes = t))) ∧
      r.Sublist ((sortDesc votes).map (·.1)) := by
  have hne : votes.isEmpty = false := by
    cases votes with
    | nil => exact absurd rfl hV
    | cons _ _ => rfl
  refine ⟨_, by unfold relativeThreshold; simp only [hne, if_neg hV]; rfl, ?_, List.filter_sublist.map _⟩
  intro c
  simp only [List.mem_map, List.mem_filter, mem_sortDesc, passes_iff]
  constructor
  · rintro ⟨⟨c', v⟩, ⟨hm, hp⟩, rfl⟩; exact ⟨v, hm, hp⟩
  · rintro ⟨v, hm, hp⟩; exact ⟨(c, v), ⟨hm, hp⟩, rfl⟩

/-- for a positive total the share comparison is the cross-multiplied comparison of the count with `t · V`
    (a party with exactly 5 of 100 votes is exactly on a 5 % threshold) -/
theorem share_boundary (t v V : Rat) (hV : 0 < V) :
    (t < v / V ↔ t * V < v) ∧ (v / V = t ↔ v = t * V) := by
  constructor
  · rw [lt_div_iff₀ hV]
  · rw [div_eq_iff (ne_of_gt hV)]

/-- with a zero total of a non-empty dict the code raises ZeroDivisionError (the share is undefined) -/
theorem rel_threshold_zero_total (t : Rat) (eq : Bool) (votes : Votes) (hne : votes ≠ [])
    (hV : sumVals votes = 0) : relativeThreshold t eq votes = .error (.other "ZeroDivisionError") := by
  unfold relativeThreshold
  cases votes with
  | nil => exact absurd rfl hne
  | cons x xs => simp [hV]

/-! ## AlternativeThresholds -/

/-- the combined result is exactly the union of the partial results -/
theorem alternative_combine_mem (results : List (List Cand)) (c : Cand) :
    c ∈ alternativeCombine results ↔ ∃ r ∈ results, c ∈ r := by
  unfold alternativeCombine
  rw [mem_sortBy, mem_dedupKeep, List.mem_flatten]

theorem alternative_combine_nodup (results : List (List Cand)) : (alternativeCombine results).Nodup :=
  sortBy_nodup (dedupKeep_nodup _)

/-- ordered by mean rank in the partial selections -/
theorem alternative_combine_sorted (results : List (List Cand)) :
    (alternativeCombine results).Pairwise (fun a b => meanRank results a ≤ meanRank results b) :=
  sortBy_sorted (meanRank results) _ (by intro a b; simp) _

/-- **alternative_is_union.**  Whatever the partial selectors are: when `AlternativeThresholds` answers, every
    partial selector answered, and the answer contains exactly the candidates passed by at least one of them,
    each once, ordered by mean rank. -/
theorem alternative_is_union (partials : List Seatless) (votes : Votes) (out : List Cand)
    (h : alternativeThresholds partials votes = .ok out) :
    ∃ results, List.Forall₂ (fun p r => p votes = .ok r) partials results ∧
      out = alternativeCombine results ∧
      (∀ c, c ∈ out ↔ ∃ p ∈ partials, ∃ r, p votes = .ok r ∧ c ∈ r) ∧
      out.Nodup ∧ out.Pairwise (fun a b => meanRank results a ≤ meanRank results b) := by
  unfold alternativeThresholds at h
  cases hm : partials.mapM (fun p => p votes) with
  | error e => rw [hm] at h; cases h
  | ok results =>
    rw [hm] at h
    have hout : out = alternativeCombine results := by cases h; rfl
    have hf := (mapM_except_ok _ _ _).mp hm
    refine ⟨results, hf, hout, ?_, hout ▸ alternative_combine_nodup _, hout ▸ alternative_combine_sorted _⟩
    intro c
    rw [hout, alternative_combine_mem]
    constructor
    · rintro ⟨r, hr, hc⟩
      obtain ⟨i, hi, rfl⟩ := List.getElem_of_mem hr
      have hlen := hf.length_eq
      have := List.forall₂_iff_get.mp hf
      exact ⟨partials[i]'(by omega), List.getElem_mem _, results[i], this.2 i (by omega) hi, hc⟩
    · rintro ⟨p, hp, r, hpr, hc⟩
      obtain ⟨i, hi, rfl⟩ := List.getElem_of_mem hp
      have hlen := hf.length_eq
      have := (List.forall₂_iff_get.mp hf).2 i hi (by omega)
      simp only [List.get_eq_getElem] at this
      rw [hpr] at this
      cases this
      exact ⟨_, List.getElem_mem _, hc⟩

/-- ... and it fails exactly when one of the partial selectors fails -/
theorem alternative_error_iff (partials : List Seatless) (votes : Votes) :
    (∃ e, alternativeThresholds partials votes = .error e) ↔ ∃ p ∈ partials, ∃ e, p votes = .error e := by
  rw [← mapM_except_error]
  unfold alternativeThresholds
  cases hm : partials.mapM (fun p => p votes) with
  | error e => exact ⟨fun _ => ⟨e, rfl⟩, fun _ => ⟨e, rfl⟩⟩
  | ok rs =>
    constructor
    · rintro ⟨e, h⟩; cases h
    · rintro ⟨e, h⟩; cases h

/-! ## bracketers -/

/-- **bracketer_dispatch (coalition size).**  Whatever the partial selectors are: a party is passed iff it is passed
    by the selector of its own bracket — `evaluators.get(n_members, default)` — applied to the whole vote; the
    output keeps the order of `sorted_votes`. -/
theorem coalition_dispatch (members : Cand → Nat) (evs : List (Nat × Seatless)) (dflt : Seatless)
    (votes : Votes) (out : List Cand) (h : coalitionBracketer members evs dflt votes = .ok out) :
    (∀ c, c ∈ out ↔ c ∈ keys votes ∧ ∃ r, (dictGet evs (members c) dflt) votes = .ok r ∧ c ∈ r) ∧
    out.Sublist ((sortDesc votes).map (·.1)) := by
  unfold coalitionBracketer at h
  simp only [bind, Except.bind] at h
  split at h
  · cases h
  · rename_i passed hm
    have hout : out = List.filter (fun c => (dictGet passed (members c) []).contains c)
        ((sortDesc votes).map (·.1)) := by cases h; rfl
    obtain ⟨hp1, hp2⟩ := mapM_pair_ok (f := fun k => dictGet evs k dflt votes) hm
    refine ⟨?_, hout ▸ List.filter_sublist⟩
    intro c
    rw [hout, List.mem_filter, mem_keys_sortDesc]
    constructor
    · rintro ⟨hc, hin⟩
      refine ⟨hc, ?_⟩
      have hv : members c ∈ sortedDistinct (((sortDesc votes).map (·.1)).map members) :=
        mem_sortedDistinct.mpr (List.mem_map.mpr ⟨c, mem_keys_sortDesc.mpr hc, rfl⟩)
      obtain ⟨e, he, hek, hget⟩ := dictGet_mem passed (members c) [] (hp2 _ hv)
      rw [hget] at hin
      exact ⟨e.2, hek ▸ hp1 e he, by simpa using hin⟩
    · rintro ⟨hc, r, hr, hcr⟩
      refine ⟨hc, ?_⟩
      have hv : members c ∈ sortedDistinct (((sortDesc votes).map (·.1)).map members) :=
        mem_sortedDistinct.mpr (List.mem_map.mpr ⟨c, mem_keys_sortDesc.mpr hc, rfl⟩)
      obtain ⟨e, he, hek, hget⟩ := dictGet_mem passed (members c) [] (hp2 _ hv)
      rw [hget]
      have := hp1 e he
      rw [hek, hr] at this
      cases this
      simpa using hcr

/-- the coalition bracketer fails exactly when the selector of a bracket that occurs in the vote fails -/
theorem coalition_error_iff (members : Cand → Nat) (evs : List (Nat × Seatless)) (dflt : Seatless)
    (votes : Votes) :
    (∃ e, coalitionBracketer members evs dflt votes = .error e) ↔
      ∃ c ∈ keys votes, ∃ e, (dictGet evs (members c) dflt) votes = .error e := by
  unfold coalitionBracketer
  simp only [bind, Except.bind]
  constructor
  · rintro ⟨e, h⟩
    split at h
    · rename_i e' hm
      obtain ⟨k, hk, e'', he''⟩ := (mapM_except_error _ _).mp ⟨e', hm⟩
      obtain ⟨c, hc, rfl⟩ := List.mem_map.mp (mem_sortedDistinct.mp hk)
      refine ⟨c, mem_keys_sortDesc.mp hc, e'', ?_⟩
      cases hd : dictGet evs (members c) dflt votes with
      | error e3 => rw [hd] at he''; cases he''; rfl
      | ok r => rw [hd] at he''; cases he''
    · cases h
  · rintro ⟨c, hc, e, he⟩
    have hv : members c ∈ sortedDistinct (((sortDesc votes).map (·.1)).map members) :=
      mem_sortedDistinct.mpr (List.mem_map.mpr ⟨c, mem_keys_sortDesc.mpr hc, rfl⟩)
    obtain ⟨e', he'⟩ := (mapM_except_error (fun k => do
        let r ← (dictGet evs k dflt) votes
        pure (k, r)) _).mpr ⟨members c, hv, e, by simp [he, bind, Except.bind]⟩
    simp only [bind, Except.bind] at he'
    rw [he']
    exact ⟨e', rfl⟩

/-- what `PropertyBracketer` applies to a candidate with property value `v`: the selector registered for `v`
    (the default when there is none, or when the candidate has no such property), and "everybody passes" when
    that selector is `None` -/
theorem property_variant_none (evs : List (Nat × Option Seatless)) (dflt : Option Seatless) (votes : Votes) :
    propertyVariant evs dflt votes none = (match dflt with | some e => e votes | none => .ok (keys votes)) := rfl

theorem property_variant_some (evs : List (Nat × Option Seatless)) (dflt : Option Seatless) (votes : Votes)
    (k : Nat) :
    propertyVariant evs dflt votes (some k) =
      (match dictGet evs k dflt with | some e => e votes | none => .ok (keys votes)) := rfl

private theorem propertyLoop_spec (prop : Cand → Option Nat) (evs : List (Nat × Option Seatless))
    (dflt : Option Seatless) (votes : Votes) :
    ∀ (cs : List Cand) (cache : List (Option Nat × List Cand)) (out : List Cand),
      (∀ e ∈ cache, propertyVariant evs dflt votes e.1 = .ok e.2) →
      propertyLoop prop evs dflt votes cs cache = .ok out →
      out.Sublist cs ∧
      ∀ c, c ∈ out ↔ c ∈ cs ∧ ∃ r, propertyVariant evs dflt votes (prop c) = .ok r ∧ c ∈ r := by
  intro cs
  induction cs with
  | nil =>
    intro cache out _ h
    simp only [propertyLoop] at h
    cases h
    simp
  | cons x xs ih =>
    intro cache out hinv h
    simp only [propertyLoop] at h
    -- common final step
    have fin : ∀ (r rest : List Cand), propertyVariant evs dflt votes (prop x) = .ok r →
        (rest.Sublist xs ∧ ∀ c, c ∈ rest ↔ c ∈ xs ∧ ∃ r, propertyVariant evs dflt votes (prop c) = .ok r ∧ c ∈ r) →
        out = (if r.contains x then x :: rest else rest) →
        out.Sublist (x :: xs) ∧
          ∀ c, c ∈ out ↔ c ∈ x :: xs ∧ ∃ r, propertyVariant evs dflt votes (prop c) = .ok r ∧ c ∈ r := by
      intro r rest hr ⟨hs, hmem⟩ ho
      by_cases hx : r.contains x = true
      · rw [if_pos hx] at ho
        subst ho
        refine ⟨hs.cons_cons x, ?_⟩
        intro c
        simp only [List.mem_cons, hmem]
        constructor
        · rintro (rfl | ⟨h1, h2⟩)
          · exact ⟨Or.inl rfl, r, hr, by simpa using hx⟩
          · exact ⟨Or.inr h1, h2⟩
        · rintro ⟨rfl | h1, h2⟩
          · exact Or.inl rfl
          · exact Or.inr ⟨h1, h2⟩
      · rw [if_neg hx] at ho
        subst ho
        refine ⟨hs.cons x, ?_⟩
        intro c
        simp only [List.mem_cons, hmem]
        constructor
        · rintro ⟨h1, h2⟩; exact ⟨Or.inr h1, h2⟩
        · rintro ⟨rfl | h1, r', hr', hc⟩
          · rw [hr] at hr'; cases hr'
            exact absurd (by simpa using hc) hx
          · exact ⟨h1, r', hr', hc⟩
    split at h
    · rename_i e hfind
      have he := List.mem_of_find?_eq_some hfind
      have hk : e.1 = prop x := by simpa using List.find?_some hfind
      have hr : propertyVariant evs dflt votes (prop x) = .ok e.2 := hk ▸ hinv e he
      simp only [bind, Except.bind] at h
      split at h
      · cases h
      · rename_i rest hrest
        exact fin e.2 rest hr (ih cache rest hinv hrest) (by cases h; rfl)
    · simp only [bind, Except.bind] at h
      split at h
      · cases h
      · rename_i r hr
        split at h
        · cases h
        · rename_i rest hrest
          have hinv' : ∀ e ∈ (prop x, r) :: cache, propertyVariant evs dflt votes e.1 = .ok e.2 := by
            intro e he
            rcases List.mem_cons.mp he with rfl | he'
            · exact hr
            · exact hinv e he'
          exact fin r rest hr (ih _ rest hinv' hrest) (by cases h; rfl)

/-- **bracketer_dispatch (property).**  A candidate is passed iff it is passed by the selector registered for its
    own property value, applied to the whole vote (everybody of a bracket whose selector is `None` passes);
    the output keeps the order of `sorted_votes`. -/
theorem property_dispatch (prop : Cand → Option Nat) (evs : List (Nat × Option Seatless))
    (dflt : Option Seatless) (votes : Votes) (out : List Cand)
    (h : propertyBracketer prop evs dflt votes = .ok out) :
    (∀ c, c ∈ out ↔ c ∈ keys votes ∧ ∃ r, propertyVariant evs dflt votes (prop c) = .ok r ∧ c ∈ r) ∧
    out.Sublist ((sortDesc votes).map (·.1)) := by
  obtain ⟨hs, hm⟩ := propertyLoop_spec prop evs dflt votes _ [] out (by simp) h
  refine ⟨?_, hs⟩
  intro c
  rw [hm c, mem_keys_sortDesc]

end VL.C16
