/-
  C19 — serialised systems and ballot files reload to equivalent objects.
  Property theorems only (helper lemmas: VotelibProofs/Lemmas/Persist.lean, Blt.lean).  Namespace VL.C19.

  Part 1: the dict codec of votelib/persist.py (`VL.Persist.serialize` / `deserialize`, the functions the driver runs).
  Part 2: the BLT writer / parser of votelib/io/blt.py at token level (`VL.Blt.dumpBlt` / `loadBlt`).
  Part 3: the candidate / ballot section of the STV format of votelib/io/stv.py at token level (`VL.StvFile`).

  Reading.  `Env` is the interpreter's name resolution (`get_object`).  "Equivalent object" for the codec is equality
  of values in the algebra `PVal` (class name + constructor parameters for objects); that a class stores each
  constructor parameter under its own name is per-class reflection and is established by the correspondence, not here.
-/
import VotelibProofs.Lemmas.Persist
import VotelibProofs.Lemmas.Blt
import VotelibProofs.Lemmas.StvFile
namespace VL.C19
open VL VL.Persist

/-! ## Part 1 — dict codec -/

/-- **Round trip.**  Every representable value (set / frozenset elements and mapping keys hashable and pairwise
    different, classes and callables resolvable by their dotted name, nothing inside without a dict spelling) is
    written and reloads to itself — plain sets and mappings using the reserved keys included. -/
theorem codec_roundtrip (env : Env) (v : PVal) (h : Representable env v = true) :
    ∃ j, serialize v = .ok j ∧ deserialize env j = .ok v :=
  rt_val env v h

/-- the same through `to_dict` / `from_dict` for an object (the public entry points) -/
theorem to_from_dict_roundtrip (env : Env) (cls : String) (ps : List (String × PVal))
    (h : Representable env (.obj cls ps) = true) :
    ∃ j, toDict (.obj cls ps) = .ok j ∧ fromDict env j = .ok (.obj cls ps) := by
  obtain ⟨j, h1, h2⟩ := rt_val env _ h
  refine ⟨j, h1, ?_⟩
  have hi : isScopedIdent cls = true := by
    simp only [Representable, Bool.and_eq_true] at h
    exact h.1.1.1.1.1
  cases hf : serF ps with
  | error e => simp [serialize, hf] at h1
  | ok fs =>
    simp [serialize, hf] at h1
    subst h1
    simp only [fromDict]
    simp [hasIdent, List.lookup, hi, h2]

/-- **Serialises identically after reload**: `to_dict(from_dict(to_dict(x))) = to_dict(x)` for representable values. -/
theorem codec_reserialize_stable (env : Env) (v : PVal) (h : Representable env v = true) :
    ∃ j, serialize v = .ok j ∧ (deserialize env j >>= serialize) = .ok j := by
  obtain ⟨j, h1, h2⟩ := rt_val env v h
  exact ⟨j, h1, by rw [h2]; exact h1⟩

/-- **Unrepresentable configurations are rejected at save.**  A value containing, at any depth, a callable whose
    dotted name does not resolve back to it (closures, lambdas), a callable object without a name, or an object
    without any dict spelling is refused by `serialize_value`, with ValueError or (nameless callable) AttributeError. -/
theorem codec_rejects (v : PVal) (h : Serializable v = false) :
    ∃ e, serialize v = .error e ∧ (e = Err.valueError ∨ e = Err.other "AttributeError") :=
  ser_err v h

/-- ... and nothing else is refused. -/
theorem codec_accepts (v : PVal) (h : Serializable v = true) : ∃ j, serialize v = .ok j :=
  ser_ok v h

/-- saving succeeds exactly on the `Serializable` values -/
theorem codec_save_ok_iff (v : PVal) : (∃ j, serialize v = .ok j) ↔ Serializable v = true := by
  constructor
  · intro ⟨j, hj⟩
    cases hs : Serializable v with
    | true => rfl
    | false =>
      obtain ⟨e, he, _⟩ := ser_err v hs
      rw [he] at hj
      cases hj
  · exact ser_ok v

/-- representable values are in particular accepted -/
theorem representable_serializable (env : Env) (v : PVal) (h : Representable env v = true) : Serializable v = true := by
  obtain ⟨j, hj, _⟩ := rt_val env v h
  exact (codec_save_ok_iff v).1 ⟨j, hj⟩

/-- **Rejected when saving, or reloads faithfully** (the full statement of the property for the codec).  For every
    in-memory value — `WFval` lists representation invariants of live Python objects, not restrictions on
    configurations — `serialize_value` either raises, or writes a dictionary that `deserialize_value` turns back into
    the same value.  Nothing is silently altered: plain sets come back as sets, mappings with the reserved keys
    `type` / `class` / `callable` come back as the same mappings (since 722783a). -/
theorem codec_save_or_faithful (env : Env) (v : PVal) (hwf : WFval env v = true) :
    (∃ e, serialize v = .error e) ∨ (∃ j, serialize v = .ok j ∧ deserialize env j = .ok v) := by
  cases hs : Serializable v with
  | false => obtain ⟨e, he, _⟩ := ser_err v hs; exact Or.inl ⟨e, he⟩
  | true => exact Or.inr (rt_val env v (wf_ser_repr env v hwf hs))

/-- ... and which of the two happens is decided by `Serializable` alone -/
theorem codec_faithful_iff_serializable (env : Env) (v : PVal) (hwf : WFval env v = true) :
    (∃ j, serialize v = .ok j ∧ deserialize env j = .ok v) ↔ Serializable v = true := by
  constructor
  · intro ⟨j, hj, _⟩; exact (codec_save_ok_iff v).1 ⟨j, hj⟩
  · intro hs; exact rt_val env v (wf_ser_repr env v hwf hs)

def envW : Env := { classes := ["votelib.candidate.Person"], callables := ["builtins.len"], others := [] }

/-- the three configurations that were silently altered / unloadable before 722783a now reload to themselves -/
theorem codec_set_reloads :
    ∃ j, serialize (.set [.atom (.int 1), .atom (.int 2)]) = .ok j
      ∧ deserialize envW j = .ok (.set [.atom (.int 1), .atom (.int 2)]) :=
  codec_roundtrip envW _ (by decide +kernel)

/-- `Person('x', properties={'type': 'independent'})` -/
theorem codec_reserved_key_reloads :
    let v := PVal.obj "votelib.candidate.Person"
      [("name", .atom (.str "x")), ("properties", .dict [(.atom (.str "type"), .atom (.str "independent"))])]
    ∃ j, serialize v = .ok j ∧ deserialize envW j = .ok v :=
  codec_roundtrip envW _ (by decide +kernel)

/-- `{'callable': 'builtins.len'}` stays a mapping of strings -/
theorem codec_reserved_callable_reloads :
    let v := PVal.dict [(.atom (.str "callable"), .atom (.str "builtins.len"))]
    ∃ j, serialize v = .ok j ∧ deserialize envW j = .ok v :=
  codec_roundtrip envW _ (by decide +kernel)

/-- non-vacuity: a nested configuration (object holding a Fraction, a Decimal, a tuple, a frozenset, a dict keyed by
    non-strings, a callable by name, a nested object) meets `Representable` -/
def exEnv : Env := { classes := ["votelib.evaluate.core.Conditioned", "votelib.evaluate.threshold.RelativeThreshold"],
                     callables := ["votelib.component.quota.droop"], others := [] }
def exVal : PVal := .obj "votelib.evaluate.core.Conditioned"
  [("eliminator", .obj "votelib.evaluate.threshold.RelativeThreshold" [("threshold", .dec "0.05"), ("accept_equal", .atom (.bool true))]),
   ("evaluator", .dict [(.atom (.int 1), .frac (7/5)), (.tuple [.atom (.str "a"), .atom .none], .callable "votelib.component.quota.droop" true)]),
   ("subsetter", .fset [.atom (.str "x"), .atom (.int 3)]),
   ("levels", .set [.atom (.int 0), .atom (.int 1)]),
   ("properties", .dict [(.atom (.str "type"), .atom (.str "dict")), (.atom (.str "class"), .atom (.int 1))]),
   ("depth", .tuple [.atom (.int 1), .list [.atom (.float "0.5")], .dict [(.atom (.str "k"), .atom (.str "type"))]])]
example : Representable exEnv exVal = true := by decide +kernel
example : WFval exEnv exVal = true := by decide +kernel
/-- a value that is refused: the invariants hold, saving raises -/
example : WFval exEnv (.list [exVal, .callable "votelib.component.divisor._modified_divisor" false]) = true := by decide +kernel
example : Serializable (.list [.callable "votelib.component.divisor._modified_divisor" false]) = false := by decide +kernel


/-! ## Part 2 — BLT files at token level -/
section BltPart
open VL.Blt

/-- **Round trip.**  A document whose ballots name listed candidates, are pairwise different, and whose weights are
    non-negative (int, Decimal, Fraction — a proper Fraction is written `p/q` and read back by `Fraction()`) is written by `dump_lines` to lines that
    `load_lines` reads back to the same seats, candidate names, withdrawn flags (any subset, any position: line
    `-(i+1)`), ballots with their weights (by value), and title — including the one-candidate and no-candidate
    cases of the candidate/title disambiguation. -/
theorem blt_roundtrip (d : Doc Weight) (h : WFdoc d = true) : loadBlt (dumpBlt d) = .ok (eraseDoc d) :=
  load_dump d h

/-- **Parse error or data, never anything else** (the full statement for the BLT parser).  On ANY token lines —
    items that are not numbers, digits `int()` refuses, NaN weights, candidate numbers outside 1..n, missing
    terminators, misplaced withdrawn lines, wrong string sections — `load_lines` returns a document or raises
    BLTParseError (since b98eeeb). -/
theorem blt_parse_total (ls : List Line) : (∃ d, loadBlt ls = .ok d) ∨ loadBlt ls = .error Err.parseError := by
  cases h : loadBlt ls with
  | ok d => exact Or.inl ⟨d, rfl⟩
  | error e => rw [loadBlt_err ls e h]; exact Or.inr rfl

/-- **No partial or aliased data**: a document that is returned names only candidates of its own candidate list
    (in particular candidate number 0 inside a ballot is no longer read as the last candidate). -/
theorem blt_loaded_indices_valid (ls : List Line) (d : Doc Rat) (h : loadBlt ls = .ok d) :
    ∀ b ∈ d.ballots, ∀ i ∈ b.1, i < d.cands.length :=
  loadBlt_valid ls d h

/-- the four texts that raised foreign exceptions / returned aliased data before b98eeeb: all ParseError now
    (`abc 1 0`, `1 ² 0`, `1 3 0`, `1 0 2 0` after the header `2 1`) -/
theorem blt_former_foreign_errors :
    loadBlt [.toks [.nat 2, .nat 1], .toks [.bad, .nat 1, .nat 0], .toks [.nat 0]] = .error Err.parseError
    ∧ loadBlt [.toks [.nat 2, .nat 1], .toks [.nat 1, .udigit, .nat 0], .toks [.nat 0]] = .error Err.parseError
    ∧ loadBlt [.toks [.nat 2, .nat 1], .toks [.nat 1, .nat 3, .nat 0], .toks [.nat 0]] = .error Err.parseError
    ∧ loadBlt [.toks [.nat 2, .nat 1], .toks [.nat 1, .nat 0, .nat 2, .nat 0], .toks [.nat 0]] = .error Err.parseError := by
  decide +kernel

/-- non-vacuity: withdrawn first and last candidate, empty ballot, Decimal and integral-Fraction weights, title -/
def exDoc : Doc Weight :=
  { nSeats := 2, cands := [("Ann", true), ("J. Smith", false), ("Cy", true)],
    ballots := [([0, 2, 1], .int 3), ([], .decimal (3/2) false), ([1], .fraction 2), ([2, 0], .decimal 7 true),
                ([1, 0], .fraction (1/2))],
    title := some "Council" }
example : WFdoc exDoc = true := by decide +kernel
end BltPart

/-! ## Part 3 — STV files: candidate / ballot section at token level -/
namespace Stv
open VL.StvFile

/-- **Nicknames never collide**: what `_candidate_nicks` assigns (the initials, or base-26 ordinal letters as soon as
    two candidates share initials) is pairwise different for every list of names, of any length. -/
theorem stv_nicks_distinct (initials : List String) : (candidateNicks initials).Nodup :=
  candidateNicks_nodup initials

/-- **Round trip of a whole STV file** (system header + candidates + ballots).  For a system of the shape
    `VotingSystem(title, FixedSeatCount(TieBreaking(TransferableVoteSelector(quota, Gregory, mandatory), tie-breaker), n))`
    with every wrapper optional, quota `droop` or `hare`, the seat count given at most once (wrapper or `n_seats`
    argument), and a candidate / ballot part meeting `wfStv` (non-empty nicknames, ballots naming listed candidates,
    pairwise different, weights with a multiplier spelling, no weight-1 empty ballot, no weight-1 ballot whose only
    nickname is `end`): `dump_lines` writes a text that `load_lines` reads back to a system with the same title, seat
    count, quota, mandatory flag and tie-break setting, the same candidates (names, withdrawn flags, order) and the
    same ballots with their weights. -/
theorem stv_roundtrip (sd : SysDoc) (hs : wfSys sd = true) (d : Doc Weight) (h : wfStv d = true) :
    ∃ hv, dumpStv sd.toSys sd.seatsArg d = .ok hv ∧
      loadStv hv.1 hv.2 = .ok (eraseDoc d, d.cands.map (fun c => (c.1, c.2.1)), sd.summary) :=
  load_dump sd hs d h

/-- the header alone: what `_dump_system` writes, `_create_system` reads back to the same settings -/
theorem stv_header_roundtrip (sd : SysDoc) (hs : wfSys sd = true) :
    ∃ ls, dumpSys sd.toSys = .ok ls ∧
      createSystem (collect (ls ++ (match sd.seatsArg with | some n => [("seats", SVal.num n)] | none => [])) [])
        = .ok sd.summary :=
  sys_rt sd hs

/-- **Exceptions of the reader** on any token lines (header and ballots): STVParseError, NotImplementedError (a method
    other than BC / GPCA2000), a construct outside this model (BLT mode, `order=`), or one of five foreign exceptions —
    ValueError (candidate line without a name, exotic digits), ZeroDivisionError (multiplier `p/0X`), TypeError
    (unknown header key, repeated `seats=`), AttributeError (repeated `random=`, three `quota=` lines), IndexError
    (`quota=mandatory` twice).  The foreign ones are the open findings `stv_text:raises_*`. -/
theorem stv_error_kinds (hs : List HLine) (vs : List VLine) (e : Err) (h : loadStv hs vs = .error e) :
    e = Err.parseError ∨ e = Err.notImplemented ∨ e = StvFile.unmodelled ∨ e = Err.other "ValueError"
      ∨ e = Err.other "ZeroDivisionError" ∨ e = Err.other "TypeError" ∨ e = Err.other "AttributeError"
      ∨ e = Err.other "IndexError" :=
  loadStv_err hs vs e h

/-- the foreign exceptions of the header are attained: `foo=bar` (TypeError), `random=1` twice (AttributeError),
    `quota=mandatory` twice (IndexError) -/
theorem stv_header_foreign_witness :
    createSystem (collect [("method", SVal.word "BC"), ("quota", SVal.word "droop"), ("foo", SVal.word "bar")] [])
        = .error (Err.other "TypeError")
    ∧ createSystem (collect [("method", SVal.word "BC"), ("quota", SVal.word "droop"), ("random", SVal.num 1), ("random", SVal.num 2)] [])
        = .error (Err.other "AttributeError")
    ∧ createSystem (collect [("method", SVal.word "BC"), ("quota", SVal.word "mandatory"), ("quota", SVal.word "mandatory")] [])
        = .error (Err.other "IndexError") := by
  decide +kernel

/-! The two side conditions of `stv_roundtrip` on ballots are needed: both are genuine defects of the format code. -/

def sysW : SysDoc := { title := some (SVal.word "T"), seatsFixed := some 1, seatsArg := none, random := none,
                       quota := "droop", mandatory := false }

/-- a candidate with initials `end` ("Ed N. Dav"): its weight-1 single-candidate ballot is written as the line `end`,
    which the reader takes for the terminator (STVParseError on reload) -/
theorem stv_nick_end_witness :
    let d : Doc Weight := { cands := [("Ed N. Dav", false, "end"), ("Bo", false, "b")],
                            ballots := [([0], ⟨1, true⟩), ([1], ⟨2, true⟩)] }
    ∃ hv, dumpStv sysW.toSys none d = .ok hv ∧ loadStv hv.1 hv.2 = .error Err.parseError := by
  refine ⟨_, rfl, ?_⟩
  decide +kernel

/-- an empty ballot of weight 1 is written as an empty line and silently dropped by the reader -/
theorem stv_empty_ballot_witness :
    let d : Doc Weight := { cands := [("Al", false, "a"), ("Bo", false, "b")], ballots := [([], ⟨1, true⟩), ([1], ⟨2, true⟩)] }
    ∃ hv, dumpStv sysW.toSys none d = .ok hv ∧ loadStv hv.1 hv.2
      = .ok ({ cands := [("Al", false, ""), ("Bo", false, "")], ballots := [([1], 2)] }, [("Al", false), ("Bo", false)],
             sysW.summary) := by
  refine ⟨_, rfl, ?_⟩
  decide +kernel

theorem stv_roundtrip_unconditional_witness :
    ¬ ∀ (sd : SysDoc) (d : Doc Weight), wfSys sd = true → ∃ hv, dumpStv sd.toSys sd.seatsArg d = .ok hv ∧
        loadStv hv.1 hv.2 = .ok (eraseDoc d, d.cands.map (fun c => (c.1, c.2.1)), sd.summary) := by
  intro h
  obtain ⟨hv, h1, h2⟩ := h sysW { cands := [("Ed N. Dav", false, "end"), ("Bo", false, "b")],
                                  ballots := [([0], ⟨1, true⟩), ([1], ⟨2, true⟩)] } (by decide +kernel)
  obtain ⟨hv', h1', h2'⟩ := stv_nick_end_witness
  have e : hv = hv' := by
    have := h1.symm.trans h1'
    exact Except.ok.inj this
  subst e
  rw [h2] at h2'
  cases h2'

/-- non-vacuity: duplicate initials ("Ann Berg", "Al Brown" → ordinal nicknames a, b, c), a withdrawn candidate,
    Fraction and Decimal multipliers, an empty ballot with a multiplier, a weight-1 ballot; a system with title, seats
    argument, mandatory quota and a seeded tie-breaker -/
def exStv : Doc Weight :=
  { cands := [("Ann Berg", false, "ab"), ("Al Brown", true, "ab"), ("J. Smith", false, "js")],
    ballots := [([0, 2], ⟨1, true⟩), ([2, 1, 0], ⟨7/3, true⟩), ([], ⟨3/2, true⟩), ([1], ⟨2, true⟩), ([2], ⟨1/2, true⟩)] }
def exSys : SysDoc := { title := some (SVal.word "Council 2020"), seatsFixed := none, seatsArg := some 3,
                        random := some (some 7), quota := "hare", mandatory := true }
example : wfStv exStv = true := by decide +kernel
example : wfSys exSys = true := by decide +kernel
example : candidateNicks (exStv.cands.map (·.2.2)) = ["a", "b", "c"] := by decide +kernel

end Stv

end VL.C19
