/-
  C19 — serialised systems and ballot files reload to equivalent objects.  (theorems follow)
-/
import VotelibModel.Persist
import VotelibModel.Blt
namespace VL.C19
open VL VL.Persist

end VL.C19
