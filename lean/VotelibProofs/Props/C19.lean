/-
  C19 — serialised systems and ballot files reload to equivalent objects.
  Property theorems only (helper lemmas: VotelibProofs/Lemmas/Persist.lean, Blt.lean).  Namespace VL.C19.

  Part 1: the dict codec of votelib/persist.py (`VL.Persist.serialize` / `deserialize`, the functions the driver runs).
  Part 2: the BLT writer / parser of votelib/io/blt.py at token level (`VL.Blt.dumpBlt` / `loadBlt`).
  Part 3: the candidate / ballot section of the STV format of votelib/io/stv.py at token level (`VL.StvFile`).

  Reading.  `Env` is the interpreter's name resolution (`get_object`).  "Equivalent object" for the codec is equality
  of values in the algebra `PVal` (class name + constructor parameters for objects); that a class stores each
  constructor parameter under its own name is per-class reflection and is established by the correspondence, not here.
-/
import VotelibProofs.Lemmas.Persist
import VotelibProofs.Lemmas.Blt
import VotelibProofs.Lemmas.StvFile
import VotelibProofs.Lemmas.StvSys
namespace VL.C19
open VL VL.Persist

/-! ## Part 1 — dict codec -/

/-- **Round trip.**  Every representable value (set / frozenset elements and mapping keys hashable and pairwise
    different, classes and callables resolvable by their dotted name, nothing inside without a dict spelling) is
    written and reloads to itself — plain sets and mappings using the reserved keys included. -/
theorem codec_roundtrip (env : Env) (v : PVal) (h : Representable env v = true) :
    ∃ j, serialize v = .ok j ∧ deserialize env j = .ok v :=
  rt_val env v h

/-- the same through `to_dict` / `from_dict` for an object (the public entry points) -/
theorem to_from_dict_roundtrip (env : Env) (cls : String) (ps : List (String × PVal))
    (h : Representable env (.obj cls ps) = true) :
    ∃ j, toDict (.obj cls ps) = .ok j ∧ fromDict env j = .ok (.obj cls ps) := by
  obtain ⟨j, h1, h2⟩ := rt_val env _ h
  refine ⟨j, h1, ?_⟩
  have hi : isScopedIdent cls = true := by
    simp only [Representable, Bool.and_eq_true] at h
    exact h.1.1.1.1.1
  cases hf : serF ps with
  | error e => simp [serialize, hf] at h1
  | ok fs =>
    simp [serialize, hf] at h1
    subst h1
    simp only [fromDict]
    simp [hasIdent, List.lookup, hi, h2]

/-- **Serialises identically after reload**: `to_dict(from_dict(to_dict(x))) = to_dict(x)` for representable values. -/
theorem codec_reserialize_stable (env : Env) (v : PVal) (h : Representable env v = true) :
    ∃ j, serialize v = .ok j ∧ (deserialize env j >>= serialize) = .ok j := by
  obtain ⟨j, h1, h2⟩ := rt_val env v h
  exact ⟨j, h1, by rw [h2]; exact h1⟩

/-- **Unrepresentable configurations are rejected at save.**  A value containing, at any depth, a callable whose
    dotted name does not resolve back to it (closures, lambdas), a callable object without a name, or an object
    without any dict spelling is refused by `serialize_value`, with ValueError or (nameless callable) AttributeError. -/
theorem codec_rejects (v : PVal) (h : Serializable v = false) :
    ∃ e, serialize v = .error e ∧ (e = Err.valueError ∨ e = Err.other "AttributeError") :=
  ser_err v h

/-- ... and nothing else is refused. -/
theorem codec_accepts (v : PVal) (h : Serializable v = true) : ∃ j, serialize v = .ok j :=
  ser_ok v h

/-- saving succeeds exactly on the `Serializable` values -/
theorem codec_save_ok_iff (v : PVal) : (∃ j, serialize v = .ok j) ↔ Serializable v = true := by
  constructor
  · intro ⟨j, hj⟩
    cases hs : Serializable v with
    | true => rfl
    | false =>
      obtain ⟨e, he, _⟩ := ser_err v hs
      rw [he] at hj
      cases hj
  · exact ser_ok v

/-- representable values are in particular accepted -/
theorem representable_serializable (env : Env) (v : PVal) (h : Representable env v = true) : Serializable v = true := by
  obtain ⟨j, hj, _⟩ := rt_val env v h
  exact (codec_save_ok_iff v).1 ⟨j, hj⟩

/-- **Rejected when saving, or reloads faithfully** (the full statement of the property for the codec).  For every
    in-memory value — `WFval` lists representation invariants of live Python objects, not restrictions on
    configurations — `serialize_value` either raises, or writes a dictionary that `deserialize_value` turns back into
    the same value.  Nothing is silently altered: plain sets come back as sets, mappings with the reserved keys
    `type` / `class` / `callable` come back as the same mappings (since 722783a). -/
theorem codec_save_or_faithful (env : Env) (v : PVal) (hwf : WFval env v = true) :
    (∃ e, serialize v = .error e) ∨ (∃ j, serialize v = .ok j ∧ deserialize env j = .ok v) := by
  cases hs : Serializable v with
  | false => obtain ⟨e, he, _⟩ := ser_err v hs; exact Or.inl ⟨e, he⟩
  | true => exact Or.inr (rt_val env v (wf_ser_repr env v hwf hs))

/-- ... and which of the two happens is decided by `Serializable` alone -/
theorem codec_faithful_iff_serializable (env : Env) (v : PVal) (hwf : WFval env v = true) :
    (∃ j, serialize v = .ok j ∧ deserialize env j = .ok v) ↔ Serializable v = true := by
  constructor
  · intro ⟨j, hj, _⟩; exact (codec_save_ok_iff v).1 ⟨j, hj⟩
  · intro hs; exact rt_val env v (wf_ser_repr env v hwf hs)

def envW : Env := { classes := ["votelib.candidate.Person"], callables := ["builtins.len"], others := [] }

/-- the three configurations that were silently altered / unloadable before 722783a now reload to themselves -/
theorem codec_set_reloads :
    ∃ j, serialize (.set [.atom (.int 1), .atom (.int 2)]) = .ok j
      ∧ deserialize envW j = .ok (.set [.atom (.int 1), .atom (.int 2)]) :=
  codec_roundtrip envW _ (by decide +kernel)

/-- a key that is not a string anywhere in a mapping: `all(isinstance(key, str) ...)` fails -/
theorem strKeys_none_of_nonstr : ∀ (d : List (PVal × PVal)), (∃ kv ∈ d, ∀ s, kv.1 ≠ .atom (.str s)) → strKeys d = none
  | [], h => by obtain ⟨kv, hm, _⟩ := h; simp at hm
  | (k, v) :: t, h => by
      obtain ⟨kv, hm, hk⟩ := h
      rcases List.mem_cons.1 hm with rfl | hm'
      · cases k with
        | atom a =>
          cases a with
          | str s => exact absurd rfl (hk s)
          | none => rfl
          | bool b => rfl
          | int z => rfl
          | float r => rfl
        | _ => rfl
      · have ih := strKeys_none_of_nonstr t ⟨kv, hm', hk⟩
        cases k with
        | atom a =>
          cases a with
          | str s => simp [strKeys, ih]
          | none => rfl
          | bool b => rfl
          | int z => rfl
          | float r => rfl
        | _ => rfl

/-- **Mixed key types.**  A mapping with ONE key that is not a string — next to any number of string keys, in any
    position — is never written as a plain JSON object (whose keys JSON text would turn into strings): whatever
    `serialize_value` writes for it is the typed form `{'type': 'dict', 'keys': [...], 'values': [...]}`.  (The seeded
    change `any(...)` for `all(...)` in the mapping branch breaks exactly this.)  That it reloads to itself is
    `codec_roundtrip`, whose hypothesis puts no condition on the key types. -/
theorem codec_mixed_keys_typed_form (d : List (PVal × PVal)) (h : ∃ kv ∈ d, ∀ s, kv.1 ≠ .atom (.str s))
    (j : J) (hj : serialize (.dict d) = .ok j) :
    ∃ kj vj, j = .dict [("type", .str "dict"), ("keys", .list kj), ("values", .list vj)] := by
  have hs := strKeys_none_of_nonstr d h
  simp only [serialize, plainKeys, hs] at hj
  cases hk : serK d with
  | error e => rw [hk] at hj; cases hj
  | ok kj =>
    cases hv : serV d with
    | error e => rw [hk, hv] at hj; cases hj
    | ok vj =>
      rw [hk, hv] at hj
      cases hj
      exact ⟨kj, vj, rfl⟩

/-- `{'minority': None, 2: 'ten percent', None: 1, (1, 'x'): True}` inside a Person's properties: typed form, reloads -/
theorem codec_mixed_keys_reload :
    let v := PVal.obj "votelib.candidate.Person"
      [("name", .atom (.str "x")),
       ("properties", .dict [(.atom (.str "minority"), .atom .none), (.atom (.int 2), .atom (.str "ten percent")),
                            (.atom .none, .atom (.int 1)), (.tuple [.atom (.int 1), .atom (.str "x")], .atom (.bool true))])]
    ∃ j, serialize v = .ok j ∧ deserialize envW j = .ok v :=
  codec_roundtrip envW _ (by decide +kernel)

/-- `Person('x', properties={'type': 'independent'})` -/
theorem codec_reserved_key_reloads :
    let v := PVal.obj "votelib.candidate.Person"
      [("name", .atom (.str "x")), ("properties", .dict [(.atom (.str "type"), .atom (.str "independent"))])]
    ∃ j, serialize v = .ok j ∧ deserialize envW j = .ok v :=
  codec_roundtrip envW _ (by decide +kernel)

/-- `{'callable': 'builtins.len'}` stays a mapping of strings -/
theorem codec_reserved_callable_reloads :
    let v := PVal.dict [(.atom (.str "callable"), .atom (.str "builtins.len"))]
    ∃ j, serialize v = .ok j ∧ deserialize envW j = .ok v :=
  codec_roundtrip envW _ (by decide +kernel)

/-- non-vacuity: a nested configuration (object holding a Fraction, a Decimal, a tuple, a frozenset, a dict keyed by
    non-strings, a callable by name, a nested object) meets `Representable` -/
def exEnv : Env := { classes := ["votelib.evaluate.core.Conditioned", "votelib.evaluate.threshold.RelativeThreshold"],
                     callables := ["votelib.component.quota.droop"], others := [] }
def exVal : PVal := .obj "votelib.evaluate.core.Conditioned"
  [("eliminator", .obj "votelib.evaluate.threshold.RelativeThreshold" [("threshold", .dec "0.05"), ("accept_equal", .atom (.bool true))]),
   ("evaluator", .dict [(.atom (.int 1), .frac (7/5)), (.tuple [.atom (.str "a"), .atom .none], .callable "votelib.component.quota.droop" true)]),
   ("subsetter", .fset [.atom (.str "x"), .atom (.int 3)]),
   ("levels", .set [.atom (.int 0), .atom (.int 1)]),
   ("properties", .dict [(.atom (.str "type"), .atom (.str "dict")), (.atom (.str "class"), .atom (.int 1))]),
   ("depth", .tuple [.atom (.int 1), .list [.atom (.float "0.5")], .dict [(.atom (.str "k"), .atom (.str "type"))]])]
example : Representable exEnv exVal = true := by decide +kernel
example : WFval exEnv exVal = true := by decide +kernel
/-- a value that is refused: the invariants hold, saving raises -/
example : WFval exEnv (.list [exVal, .callable "votelib.component.divisor._modified_divisor" false]) = true := by decide +kernel
example : Serializable (.list [.callable "votelib.component.divisor._modified_divisor" false]) = false := by decide +kernel


/-! ## Part 2 — BLT files at token level -/
section BltPart
open VL.Blt

/-- **Round trip.**  A document whose ballots name listed candidates, are pairwise different, and whose weights are
    non-negative (int, Decimal, Fraction — a proper Fraction is written `p/q` and read back by `Fraction()`) is written by `dump_lines` to lines that
    `load_lines` reads back to the same seats, candidate names, withdrawn flags (any subset, any position: line
    `-(i+1)`), ballots with their weights (by value), and title — including the one-candidate and no-candidate
    cases of the candidate/title disambiguation. -/
theorem blt_roundtrip (d : Doc Weight) (h : WFdoc d = true) :
    ∃ ls, dumpBlt d = .ok ls ∧ loadBlt ls = .ok (eraseDoc d) :=
  load_dump d h

/-- **What the writer refuses** (NotSupportedInBLT, the only exception it raises): exactly the elections with a ballot
    of negative weight — a line starting with a negative number marks withdrawn candidates, so such a ballot used to be
    lost or to withdraw somebody on reload (since 7f49a3e) — or with a ballot naming somebody outside the candidate
    list. -/
theorem blt_dump_refuses_iff (d : Doc Weight) :
    dumpBlt d = .error Blt.notSupported ↔ ∃ b ∈ d.ballots, b.2.val < 0 ∨ ∃ i ∈ b.1, d.cands.length ≤ i := by
  unfold dumpBlt
  constructor
  · intro h
    split at h
    · rename_i hany
      simp only [List.any_eq_true, voteRefused, Bool.or_eq_true, decide_eq_true_eq] at hany
      exact hany
    · simp [pure, Except.pure] at h
  · intro h
    have : d.ballots.any (voteRefused d.cands.length) = true := by
      simp only [List.any_eq_true, voteRefused, Bool.or_eq_true, decide_eq_true_eq]
      exact h
    simp [this, throw, throwThe, MonadExceptOf.throw]

/-- **Refused at save, or reloaded unchanged** (the full statement for the BLT writer/reader pair): EVERY election —
    any weights of the three numeric types, negative ones included, any ballots — is either refused by `dump_lines` with
    NotSupportedInBLT, or written to lines that `load_lines` reads back to the same election.  (`WFrepr` only says that
    the ballots are dict keys and that a Decimal printed with digits alone is a whole number.) -/
theorem blt_save_or_faithful (d : Doc Weight) (hr : WFrepr d = true) :
    dumpBlt d = .error Blt.notSupported ∨ ∃ ls, dumpBlt d = .ok ls ∧ loadBlt ls = .ok (eraseDoc d) := by
  cases hany : d.ballots.any (voteRefused d.cands.length) with
  | true => left; simp [dumpBlt, hany, throw, throwThe, MonadExceptOf.throw]
  | false => right; exact load_dump d (wf_of_not_refused d hr hany)

/-- **Parse error or data, never anything else** (the full statement for the BLT parser, with either setting of the
    reader option `oneplus_weights`).  On ANY token lines — items that are not numbers, digits `int()` refuses, NaN
    weights, candidate numbers outside 1..n, missing terminators, misplaced withdrawn lines, wrong string sections, a
    weight below one under `oneplus_weights=True` — `load_lines` returns a document or raises BLTParseError
    (since b98eeeb; for the weight below one since 6e1811c, ValueError before). -/
theorem blt_parse_total (oneplus : Bool) (ls : List Line) :
    (∃ d, loadBltWith oneplus ls = .ok d) ∨ loadBltWith oneplus ls = .error Err.parseError := by
  cases h : loadBltWith oneplus ls with
  | ok d => exact Or.inl ⟨d, rfl⟩
  | error e => rw [loadBltWith_err oneplus ls e h]; exact Or.inr rfl

/-- `loads('2 1\n0.5 1 0\n0\n', oneplus_weights=True)`: BLTParseError (ValueError before 6e1811c); the same text is a
    document without the option -/
theorem blt_oneplus_below_one :
    loadBltWith true [.toks [.nat 2, .nat 1], .toks [.dec (1/2), .nat 1, .nat 0], .toks [.nat 0]] = .error Err.parseError
    ∧ loadBltWith false [.toks [.nat 2, .nat 1], .toks [.dec (1/2), .nat 1, .nat 0], .toks [.nat 0]]
        = .ok { nSeats := 1, cands := [("1", false), ("2", false)], ballots := [([0], 1/2)], title := none } := by
  decide +kernel

/-- **A ballot listed twice counts with the exact sum of its weights** (since 134a849; Decimal addition used to round
    to 28 digits): `2 1 / 6 1 0 / 1E-30 1 0 / 0` gives candidate 1 the weight 6 + 10⁻³⁰, and a Decimal and a Fraction
    line add up (`1.5 2 0` + `1/2 2 0` = 2). -/
theorem blt_repeated_ballot_exact :
    loadBlt [.toks [.nat 2, .nat 1], .toks [.nat 6, .nat 1, .nat 0], .toks [.dec (1/1000000000000000000000000000000), .nat 1, .nat 0],
             .toks [.dec (3/2), .nat 2, .nat 0], .toks [.dec (1/2), .nat 2, .nat 0], .toks [.nat 0]]
      = .ok { nSeats := 1, cands := [("1", false), ("2", false)],
              ballots := [([0], 6000000000000000000000000000001/1000000000000000000000000000000), ([1], 2)], title := none } := by
  decide +kernel

/-- **No partial or aliased data**: a document that is returned names only candidates of its own candidate list
    (in particular candidate number 0 inside a ballot is no longer read as the last candidate). -/
theorem blt_loaded_indices_valid (ls : List Line) (d : Doc Rat) (h : loadBlt ls = .ok d) :
    ∀ b ∈ d.ballots, ∀ i ∈ b.1, i < d.cands.length :=
  loadBlt_valid ls d h

/-- the four texts that raised foreign exceptions / returned aliased data before b98eeeb: all ParseError now
    (`abc 1 0`, `1 ² 0`, `1 3 0`, `1 0 2 0` after the header `2 1`) -/
theorem blt_former_foreign_errors :
    loadBlt [.toks [.nat 2, .nat 1], .toks [.bad, .nat 1, .nat 0], .toks [.nat 0]] = .error Err.parseError
    ∧ loadBlt [.toks [.nat 2, .nat 1], .toks [.nat 1, .udigit, .nat 0], .toks [.nat 0]] = .error Err.parseError
    ∧ loadBlt [.toks [.nat 2, .nat 1], .toks [.nat 1, .nat 3, .nat 0], .toks [.nat 0]] = .error Err.parseError
    ∧ loadBlt [.toks [.nat 2, .nat 1], .toks [.nat 1, .nat 0, .nat 2, .nat 0], .toks [.nat 0]] = .error Err.parseError := by
  decide +kernel

/-- **A written name or title is never taken for a comment.**  `_clean_line` starts a `#` comment at the first hash sign
    at or after the LAST double quote of the line; the line `"<text>"` the writer produces ends with its closing quote,
    so for every text — double quotes and hash signs in any number and order included — it comes through intact. -/
theorem blt_written_string_uncut (text : List Char) : cleanLineL (strLine text) = strLine text :=
  cleanLine_strLine text

/-- where comments do start: after the closing quote of a string line, at the first hash of a number line; a quote
    inside a name followed by a hash (`Ann "#1" Lee`) does not start one -/
theorem blt_comment_start_examples :
    cleanLine "\"Ann\" # first candidate" = "\"Ann\""
    ∧ cleanLine "  3 1 0  # a ballot" = "3 1 0"
    ∧ cleanLine "\"Ann \"#1\" Lee\"" = "\"Ann \"#1\" Lee\""
    ∧ cleanLine "\"Board \"East\" seat #3\"  # title" = "\"Board \"East\" seat #3\"" := by
  decide +kernel

/-- non-vacuity: withdrawn first and last candidate, empty ballot, Decimal and integral-Fraction weights, title -/
def exDoc : Doc Weight :=
  { nSeats := 2, cands := [("Ann", true), ("J. Smith", false), ("Cy", true)],
    ballots := [([0, 2, 1], .int 3), ([], .decimal (3/2) false), ([1], .fraction 2), ([2, 0], .decimal 7 true),
                ([1, 0], .fraction (1/2))],
    title := some "Council" }
example : WFdoc exDoc = true := by decide +kernel
end BltPart

/-! ## Part 3 — STV files: candidate / ballot section at token level -/
namespace Stv
open VL.StvFile

/-- **Nicknames never collide**: what `_candidate_nicks` assigns (the initials, or base-26 ordinal letters as soon as
    some initials are empty or shared) is pairwise different for every list of names, of any length. -/
theorem stv_nicks_distinct (initials : List String) : (candidateNicks initials).Nodup :=
  candidateNicks_nodup initials

/-- ... and never empty, so every candidate line has the shape `candidate=<nick> <name>` -/
theorem stv_nicks_nonempty (initials : List String) : ∀ s ∈ candidateNicks initials, s ≠ "" :=
  candidateNicks_nonempty initials

/-- **Round trip of a whole STV file** (system header + candidates + ballots).  For a system of the shape
    `VotingSystem(title, FixedSeatCount(TieBreaking(TransferableVoteSelector(quota, Gregory, mandatory), tie-breaker), n))`
    with every wrapper optional and the title possibly None, quota `droop` or `hare`, the seat count given at most
    once (wrapper or `n_seats` argument), names and title the format can carry, ballots naming listed candidates,
    pairwise different (the empty ballot, weight 1 or not, and a ballot whose only nickname is `end` included), and
    every multiplier that is written readable (everything but negative ints and non-finite Decimals; Decimals in any
    notation): `dump_lines` writes a text that `load_lines` reads back to a system with the same title, seat count,
    quota, mandatory flag and tie-break setting, the same candidates (names, withdrawn flags, order) and the same
    ballots with their weights. -/
theorem stv_roundtrip (sd : SysDoc) (hs : wfSys sd = true) (d : Doc Weight) (h : wfStv d = true) (cls : String → OItem)
    (bl : List Blt.Line) :
    ∃ hv, dumpStv sd.toSys sd.seatsArg true d = .ok hv ∧
      loadStv cls hv.1 hv.2 bl = .ok (eraseDoc d, d.cands.map (fun c => (c.1, c.2.1)), sd.summary) :=
  load_dump sd hs d h cls bl

/-- **Round trip in BLT mode** (`dumps` without a system: `method=blt`, `ballots=blt`, then BLT content).  For every
    election the BLT round trip holds for (`blt_roundtrip`), the STV writer produces a file the STV reader reads back to
    the same candidates and ballots, the seat count as FixedSeatCount and an UnknownEvaluator system without title. -/
theorem stv_blt_mode_roundtrip (d : Blt.Doc Blt.Weight) (h : Blt.WFdoc d = true) (cls : String → OItem) (vs : List VLine) :
    ∃ hv, dumpStvBlt d = .ok hv ∧
      loadStv cls hv.1 vs hv.2 = .ok ({ cands := d.cands.map (fun c => (c.1, c.2, "")),
                                        ballots := d.ballots.map (fun b => (b.1, b.2.val)) }, d.cands, bltSummary d.nSeats) :=
  load_dump_blt d h cls vs

/-- **A returned ballot names candidates of the returned list** — in the own formats (unordered and ordered) and in BLT mode, whatever the header
    declares (since f06b201: a header with candidate lines followed by BLT content used to return the header's candidate
    list with ballots for the people of the BLT content). -/
theorem stv_loaded_indices_valid (cls : String → OItem) (hs : List HLine) (vs : List VLine) (bl : List Blt.Line)
    (r : Doc Rat × List (String × Bool) × Summary) (h : loadStv cls hs vs bl = .ok r) :
    ∀ b ∈ r.1.ballots, ∀ i ∈ b.1, i < r.2.1.length :=
  loadStv_valid cls hs vs bl r h

/-- `candidate=x Ann / method=blt / ballots=blt / 1 1 / 2 1 0 / 0`: the candidate of the BLT content ("1") is returned
    with the ballot that names it; Ann is dropped -/
theorem stv_blt_mode_header_candidates :
    loadStv (fun _ => .bad) [.cand false "x" "Ann", .other "method" (SVal.word "blt"), .ballotsBlt] []
        [.toks [.nat 1, .nat 1], .toks [.nat 2, .nat 1, .nat 0], .toks [.nat 0]]
      = .ok ({ cands := [("1", false, "")], ballots := [([0], 2)] }, [("1", false)], bltSummary 1) := by
  decide +kernel

/-- a ballot listed twice in the own format: `1.5X a` and `1/2X a` add up to 2 (TypeError before 134a849) -/
theorem stv_repeated_ballot_exact :
    loadStv (fun _ => .bad) [.other "method" (SVal.word "BC"), .other "quota" (SVal.word "droop"), .cand false "a" "A", .ballotsN 2]
        [.items (.mult (3/2)) ["a"], .items (.mult (1/2)) ["a"], .endLine] []
      = .ok ({ cands := [("A", false, "")], ballots := [([0], 2)] }, [("A", false)],
             { title := none, seats := none, quota := Quota.name "droop", mandatory := false, random := none }) := by
  decide +kernel

/-- names the format cannot carry ('#', line breaks, edge whitespace, empty) are refused at save -/
theorem stv_dump_refuses (sys : Sys) (arg : Option Nat) (d : Doc Weight) (ls : List (String × SVal))
    (h : dumpSys sys = .ok ls) : dumpStv sys arg false d = .error notSupported := by
  simp [dumpStv, h, bind, Except.bind, throw, throwThe, MonadExceptOf.throw]

/-- **The STV writer raises nothing but NotSupportedInSTV, and raises it for every negative ballot weight** (since
    7f49a3e; `-3X a b` was unreadable and a negative Fraction changed nothing but is not a count of ballots) -/
theorem stv_dump_refuses_negative (sys : Sys) (arg : Option Nat) (namesOK : Bool) (d : Doc Weight)
    (h : ∃ b ∈ d.ballots, b.2.val < 0) : dumpStv sys arg namesOK d = .error notSupported := by
  obtain ⟨e, he⟩ := dumpStv_negative sys arg namesOK d h
  rw [he, dumpStv_err sys arg namesOK d e he]

/-- the header alone: what `_dump_system` writes, `_load_system` collects and `_create_system` reads back to the
    same settings -/
theorem stv_header_roundtrip (sd : SysDoc) (hs : wfSys sd = true) :
    ∃ ls c, dumpSys sd.toSys = .ok ls ∧
      collect (ls ++ argLines sd.seatsArg) {} = .ok c ∧
      createSystem c = .ok sd.summary :=
  sys_rt sd hs

/-! ### the system header for ARBITRARY evaluator trees

  A system handed to `dump_lines` is a chain of VotingSystem / FixedSeatCount / TieBreaking wrappers, in any order and
  number, around a transferable-vote evaluator or around anything else (`Sys`).  Read off the tree (no writer, no reader
  involved): `sysRefused` — a title the form cannot carry, a tie-breaker or converter `_dump_tiebreaker` does not know, a
  retainer / elimination step / transferer / named quota `_dump_tveval` does not support; `sysReadable` — no setting
  twice and a transferable-vote evaluator with a named quota at the bottom; `lossy` — a setting no line stands for
  (TieBreaking subsetter, Sortitor without seed, accept_quota_equal=False, Distributor class). -/

/-- **What `_dump_system` refuses**: it raises NotSupportedInSTV exactly for the trees `sysRefused` describes; for all
    others it writes the lines `linesOf`. -/
theorem stv_sys_dump_refuses_iff (sys : Sys) :
    (dumpSys sys = .error notSupported ↔ sysRefused sys = true)
    ∧ (dumpSys sys = .ok (linesOf sys) ↔ sysRefused sys = false) := by
  rw [dumpSys_spec]
  cases h : sysRefused sys <;> simp

/-- **Every system falls in exactly one of three classes**, decided by the tree alone: refused at save; written to a
    file the reader refuses with STVParseError (a setting twice — e.g. FixedSeatCount together with the `n_seats`
    argument —, an evaluator other than a transferable-vote one, for which NOTHING is written, a quota function without
    a name); written to a file that reloads to the settings `summaryOf` reads off the tree. -/
theorem stv_sys_classification (sys : Sys) (arg : Option Nat) :
    (sysRefused sys = true ∧ reloadSys sys arg = .error notSupported)
    ∨ (sysRefused sys = false ∧ sysReadable sys arg = false ∧ reloadSys sys arg = .error Err.parseError)
    ∨ (sysRefused sys = false ∧ sysReadable sys arg = true ∧ reloadSys sys arg = .ok (summaryOf sys arg)) := by
  cases h : sysRefused sys with
  | true => exact Or.inl ⟨rfl, (reloadSys_refused sys arg h).2⟩
  | false =>
    cases hr : sysReadable sys arg with
    | false => exact Or.inr (Or.inl ⟨rfl, rfl, reloadSys_unreadable sys arg h hr⟩)
    | true => exact Or.inr (Or.inr ⟨rfl, rfl, reloadSys_readable sys arg h hr⟩)

/-- **Round trip for every tree that is written completely** (not refused, readable, nothing lost — `sysComplete`): the
    whole file — system header, candidates, ballots — reloads to the same settings, candidates and ballots.  This
    extends `stv_roundtrip` from the canonical shape to wrappers in any order, titles of any text the form carries,
    bare or converted tie-breakers. -/
theorem stv_roundtrip_complete_system (sys : Sys) (arg : Option Nat) (hc : sysComplete sys arg = true)
    (d : Doc Weight) (h : wfStv d = true) (cls : String → OItem) (bl : List Blt.Line) :
    (∃ hv, dumpStv sys arg true d = .ok hv ∧
      loadStv cls hv.1 hv.2 bl = .ok (eraseDoc d, d.cands.map (fun c => (c.1, c.2.1)), summaryOf sys arg))
    ∧ Faithful sys arg (summaryOf sys arg) := by
  simp only [sysComplete, Bool.and_eq_true, Bool.not_eq_true'] at hc
  obtain ⟨⟨h1, h2⟩, h3⟩ := hc
  exact ⟨load_dump_sys sys arg h1 h2 d h cls bl, rfl, h3⟩

/-- **For every other tree the dump refuses, or the reload fails, or the reloaded system has lost a setting.** -/
theorem stv_sys_incomplete (sys : Sys) (arg : Option Nat) (hc : sysComplete sys arg = false) :
    reloadSys sys arg = .error notSupported ∨ reloadSys sys arg = .error Err.parseError
      ∨ ∃ s, reloadSys sys arg = .ok s ∧ ¬ Faithful sys arg s := by
  rcases stv_sys_classification sys arg with ⟨_, h⟩ | ⟨_, _, h⟩ | ⟨h1, h2, h⟩
  · exact Or.inl h
  · exact Or.inr (Or.inl h)
  · refine Or.inr (Or.inr ⟨_, h, ?_⟩)
    intro hf
    simp [sysComplete, h1, h2, hf.2] at hc

def tvDroop : Sys := .tv true true true (some "droop") false

/-- **Witnesses** of the files the writer produces without complaint and the reader cannot take back unchanged:
    `VotingSystem('T', Plurality())` → `title=T` alone, no `method=` → STVParseError;
    a quota function without a name (or `None`) → no `quota=` → STVParseError;
    `FixedSeatCount(…, 2)` with `n_seats=3` → `seats=` twice → STVParseError;
    `TieBreaking(…, Sortitor())` without seed → nothing written, the tie-breaker is gone;
    `accept_quota_equal=False`, a TieBreaking subsetter, a TransferableVoteDistributor → written as if default. -/
theorem stv_sys_witnesses :
    reloadSys (.voting (some (SVal.word "T", true)) .other) none = .error Err.parseError
    ∧ reloadSys (.tv true true true none false) none = .error Err.parseError
    ∧ reloadSys (.fixed 2 tvDroop) (some 3) = .error Err.parseError
    ∧ (reloadSys (.tie tvDroop (.sortitor none)) none = reloadSys tvDroop none ∧ lossy (.tie tvDroop (.sortitor none)) = true)
    ∧ (reloadSys (.tv true true true (some "droop") false false true) none = reloadSys tvDroop none
        ∧ lossy (.tv true true true (some "droop") false false true) = true)
    ∧ (reloadSys (.tie tvDroop .order false) none = reloadSys (.tie tvDroop .order) none
        ∧ lossy (.tie tvDroop .order false) = true)
    ∧ (reloadSys (.tv true true true (some "droop") false true false) none = reloadSys tvDroop none
        ∧ lossy (.tv true true true (some "droop") false true false) = true)
    ∧ reloadSys tvDroop none = .ok { title := none, seats := none, quota := Quota.name "droop", mandatory := false, random := none } := by
  refine ⟨by decide +kernel, by decide +kernel, by decide +kernel, ⟨by decide +kernel, by decide +kernel⟩,
    ⟨by decide +kernel, by decide +kernel⟩, ⟨by decide +kernel, by decide +kernel⟩, ⟨by decide +kernel, by decide +kernel⟩,
    by decide +kernel⟩

/-- **Parse error or data** (the full statement for the STV reader: unordered and ordered own format, BLT mode).  On
    ANY token lines — header, ballots, BLT content — and whatever the items of ordered ballot lines look like (`cls`),
    `load_lines` returns the election, or raises STVParseError, or NotImplementedError for a `method=` other than
    BC / GPCA2000 / blt (a declared refusal of a well-formed file).  No other exception is possible. -/
theorem stv_parse_total (cls : String → OItem) (hs : List HLine) (vs : List VLine) (bl : List Blt.Line) :
    (∃ r, loadStv cls hs vs bl = .ok r) ∨ loadStv cls hs vs bl = .error Err.parseError
      ∨ loadStv cls hs vs bl = .error Err.notImplemented := by
  cases h : loadStv cls hs vs bl with
  | ok r => exact Or.inl ⟨r, rfl⟩
  | error e =>
    rcases loadStv_err cls hs vs bl e h with rfl | rfl
    · exact Or.inr (Or.inl rfl)
    · exact Or.inr (Or.inr rfl)

/-- how `isdecimal()` / `int()` / `== '-'` classify the items of the examples below -/
def exCls (s : String) : OItem :=
  if s = "1" then .rank 1 else if s = "2" then .rank 2 else if s = "3" then .rank 3 else if s = "-" then .dash else .bad

def exOrdHdr : List HLine :=
  [.other "method" (SVal.word "BC"), .other "quota" (SVal.word "droop"), .cand false "a" "A", .cand false "b" "B",
   .cand true "c" "C", .order ["c", "a", "b", "c"], .ballotsN 2]

/-- **The ordered ballot format**: after `order=c a b c` (a repeated nickname keeps its first place) the line `2 1 -` ranks
    candidate a first and c second, `3X - - 1` gives b three votes; the candidate list keeps the order of the candidate
    lines.  Refused with STVParseError: an unknown nickname in `order=`, ranks that are not 1..k (`1 3 -`, `1 1 -`), more
    numbers than candidates (`1 2 3 1`), an item that is neither a number nor `-`. -/
theorem stv_ordered_format :
    loadStv exCls exOrdHdr [.items (.word "2") ["1", "-"], .items (.mult 3) ["-", "-", "1"], .endLine] []
      = .ok ({ cands := [("A", false, ""), ("B", false, ""), ("C", true, "")], ballots := [([0, 2], 1), ([1], 3)] },
             [("A", false), ("B", false), ("C", true)],
             { title := none, seats := none, quota := Quota.name "droop", mandatory := false, random := none })
    ∧ loadStv exCls [.other "method" (SVal.word "BC"), .other "quota" (SVal.word "droop"), .cand false "a" "A", .order ["b"],
                     .ballotsN 0] [.endLine] [] = .error Err.parseError
    ∧ loadStv exCls exOrdHdr [.items (.word "1") ["3", "-"], .blank, .endLine] [] = .error Err.parseError
    ∧ loadStv exCls exOrdHdr [.items (.word "1") ["1", "-"], .blank, .endLine] [] = .error Err.parseError
    ∧ loadStv exCls exOrdHdr [.items (.word "1") ["2", "3", "1"], .blank, .endLine] [] = .error Err.parseError
    ∧ loadStv exCls exOrdHdr [.items (.word "1") ["x"], .blank, .endLine] [] = .error Err.parseError := by
  refine ⟨by decide +kernel, by decide +kernel, by decide +kernel, by decide +kernel, by decide +kernel, by decide +kernel⟩

/-- the header lines that raised TypeError / AttributeError / IndexError / ValueError before: all STVParseError now
    (`foo=bar`; `random=1` twice; `quota=mandatory` twice; `candidate=a`) -/
theorem stv_former_foreign_errors (cls : String → OItem) :
    loadStv cls [.other "method" (SVal.word "BC"), .other "quota" (SVal.word "droop"), .other "foo" (SVal.word "bar"), .ballotsN 0] [.endLine] []
        = .error Err.parseError
    ∧ loadStv cls [.other "method" (SVal.word "BC"), .other "quota" (SVal.word "droop"), .other "random" (SVal.num 1),
               .other "random" (SVal.num 2), .ballotsN 0] [.endLine] [] = .error Err.parseError
    ∧ loadStv cls [.other "method" (SVal.word "BC"), .other "quota" (SVal.word "mandatory"), .other "quota" (SVal.word "mandatory"),
               .ballotsN 0] [.endLine] [] = .error Err.parseError
    ∧ loadStv cls [.other "method" (SVal.word "BC"), .other "quota" (SVal.word "droop"), .candBad, .ballotsN 0] [.endLine] []
        = .error Err.parseError :=
  ⟨rfl, rfl, rfl, rfl⟩

def sysW : SysDoc := { title := none, seatsFixed := some 1, seatsArg := none, random := none,
                       quota := "droop", mandatory := false }

/-- the two ballots the writer used to lose: a candidate with initials `end` and a weight-1 ballot for that candidate
    alone (now written `1X end`), an empty ballot of weight 1 (now written `1X`) — both read back -/
theorem stv_end_and_empty_ballot_reload :
    let d : Doc Weight := { cands := [("Ed N. Dav", false, "end"), ("Bo", false, "b")],
                            ballots := [([0], ⟨1, true⟩), ([], ⟨1, true⟩), ([1], ⟨2, true⟩)] }
    ∃ hv, dumpStv sysW.toSys none true d = .ok hv ∧
      loadStv (fun _ => .bad) hv.1 hv.2 [] = .ok (eraseDoc d, [("Ed N. Dav", false), ("Bo", false)], sysW.summary) :=
  load_dump sysW (by decide +kernel) _ (by decide +kernel) _ []

/-- non-vacuity: duplicate initials ("Ann Berg", "Al Brown" → ordinal nicknames a, b, c), a withdrawn candidate,
    Fraction and Decimal multipliers, empty ballots, a weight-1 ballot; a system with title, seats argument, mandatory
    quota and a seeded tie-breaker; a name without any word character -/
def exStv : Doc Weight :=
  { cands := [("Ann Berg", false, "ab"), ("Al Brown", true, "ab"), ("J. Smith", false, "js")],
    ballots := [([0, 2], ⟨1, true⟩), ([2, 1, 0], ⟨7/3, true⟩), ([], ⟨1, true⟩), ([1], ⟨2, true⟩), ([2], ⟨1/2, true⟩)] }
def exSys : SysDoc := { title := some (SVal.word "Council 2020"), seatsFixed := none, seatsArg := some 3,
                        random := some (some 7), quota := "hare", mandatory := true }
example : wfStv exStv = true := by decide +kernel
example : wfSys exSys = true := by decide +kernel
example : candidateNicks (exStv.cands.map (·.2.2)) = ["a", "b", "c"] := by decide +kernel
example : candidateNicks ["", "b"] = ["a", "b"] := by decide +kernel
example : candidateNicks [""] = ["a"] := by decide +kernel

end Stv

end VL.C19
