/-
  C14, party lists with OPEN lists: the exactness clause ("seats exactly as many list candidates as the party won")
  for list evaluators that are exact on the inputs they are given, and the instance for ThresholdOpenList, which
  `VL.C16.openlist_length_distinct` (Props/C16.lean) proves exact on duplicate-free lists containing everybody who
  received votes.  Kept in a file of its own because it imports the C16 proofs.
-/
import VotelibProofs.Props.C14
import VotelibProofs.Props.C16
namespace VL.C14
open VL

/-- `le` answers with exactly `min(n, |list|)` distinct members of the list on the inputs that satisfy `ok` -/
def ListEvalExactOn (ok : V → V → V → Prop) (le : ListSem) : Prop :=
  ∀ pv k lst out, ok pv k lst → le pv k lst = .ok out →
    ∃ (n : Nat) (members sel : List V), k.asNat = .ok n ∧ lst = .list members ∧ out = .list sel
      ∧ sel.length = min n members.length ∧ sel.Nodup ∧ ∀ x ∈ sel, x ∈ members

theorem listEvalExactOn_of_exact (le : ListSem) (h : ListEvalExact le) : ListEvalExactOn (fun _ _ _ => True) le :=
  fun pv k lst out _ hle => h pv k lst out hle

theorem Pointwise.imp_mem {α β : Type} {R S : α → β → Prop} :
    ∀ {l : List α} {r : List β}, (∀ x ∈ l, ∀ y, R x y → S x y) → Pointwise R l r → Pointwise S l r
  | _, _, _, .nil => .nil
  | _, _, h, .cons hxy rest =>
      .cons (h _ (by simp) _ hxy) (Pointwise.imp_mem (fun x hx y => h x (by simp [hx]) y) rest)

theorem openList_ok_on (ok : V → V → V → Prop) (le : ListSem) (hle : ListEvalExactOn ok le) (lv pl : V)
    (x y : Key × V)
    (hok : ∀ lvd pld pv lst, lv = .dict lvd → pl = .dict pld → D.get? lvd x.1 = some pv →
      D.get? pld x.1 = some lst → ok pv x.2 lst)
    (h : openList le lv pl x = .ok y) :
    y.1 = x.1 ∧ ∃ pld members k sel, pl = .dict pld ∧ D.get? pld x.1 = some (.list members) ∧ x.2.asNat = .ok k
      ∧ y.2 = .list sel ∧ sel.length = min k members.length ∧ sel.Nodup ∧ ∀ c ∈ sel, c ∈ members := by
  unfold openList at h
  cases lv with
  | dict lvd =>
    simp only [pure_bind] at h
    cases hpv : D.get? lvd x.1 with
    | none => simp [hpv] at h; cases h
    | some pv =>
      simp only [hpv, pure_bind] at h
      cases pl with
      | dict pld =>
        simp only [pure_bind] at h
        cases hl : D.get? pld x.1 with
        | none => simp [hl] at h; cases h
        | some lst =>
          simp only [hl, pure_bind] at h
          cases hx : le pv x.2 lst with
          | error e => rw [hx] at h; cases h
          | ok out =>
            rw [hx] at h
            have hy : y = (x.1, out) := by cases h; rfl
            subst hy
            obtain ⟨n, members, sel, hk, hlst, hout, hlen, hnd, hsub⟩ :=
              hle pv x.2 lst out (hok lvd pld pv lst rfl rfl hpv hl) hx
            subst hlst; subst hout
            exact ⟨rfl, pld, members, n, sel, rfl, hl, hk, rfl, hlen, hnd, hsub⟩
      | num _ => cases h
      | cand _ => cases h
      | tie _ => cases h
      | none => cases h
      | list _ => cases h
  | num _ => cases h
  | cand _ => cases h
  | tie _ => cases h
  | none => cases h
  | list _ => cases h

/-- the inputs on which C16 proves ThresholdOpenList exact: the list votes are a dict with distinct candidate keys,
    the list is duplicate-free and contains everybody who received votes -/
def OpenListInputOK (pv _k lst : V) : Prop :=
  ∃ votes clist, toVotes pv = .ok votes ∧ toCandList lst = .ok clist
    ∧ VL.C16.WF votes ∧ clist.Nodup ∧ ∀ c ∈ keys votes, c ∈ clist

theorem toCandList_eq (lst : V) (clist : List Cand) (h : toCandList lst = .ok clist) :
    lst = .list (clist.map V.cand) := by
  cases lst with
  | list l =>
    unfold toCandList at h
    simp only at h
    have hp := mapM_ok_forall₂ h
    congr 1
    clear h
    induction hp with
    | nil => rfl
    | @cons x c xs cs hxc _ ih =>
      cases x with
      | cand c' =>
        have : c' = c := by cases hxc; rfl
        subst this
        simp [ih]
      | num _ => cases hxc
      | tie _ => cases hxc
      | none => cases hxc
      | list _ => cases hxc
      | dict _ => cases hxc
  | num _ => cases h
  | cand _ => cases h
  | tie _ => cases h
  | none => cases h
  | dict _ => cases h

/-- **ThresholdOpenList is exact** (every configuration) on such inputs — by `VL.C16.openlist_length_distinct` for
    `n ≤ |list|`; for more seats than list members the hypothesis of that theorem fails and nothing is claimed here -/
theorem thresholdOpenList_exactOn (cfg : OpenListCfg) (zeroBad : Bool) :
    ListEvalExactOn (fun pv k lst => OpenListInputOK pv k lst ∧
        ∃ n clist, k.asNat = .ok n ∧ toCandList lst = .ok clist ∧ n ≤ clist.length)
      (thresholdOpenListLeaf cfg zeroBad) := by
  intro pv k lst out ⟨⟨votes, clist, hv, hl, hwf, hnd, hsub⟩, n, clist', hk, hl', hn⟩ h
  have hcl : clist' = clist := by rw [hl] at hl'; cases hl'; rfl
  subst hcl
  obtain ⟨r, hr, hlen, hrnd, hrsub⟩ := VL.C16.openlist_length_distinct cfg votes n clist' hwf hnd hsub hn
  unfold thresholdOpenListLeaf at h
  simp only [hv, hk, hl, ok_bind] at h
  have hlst := toCandList_eq lst clist' hl
  by_cases hz : (zeroBad && decide (n = 0)) = true
  · simp only [hz, if_true] at h
    cases h
  · simp only [hz, Bool.false_eq_true, if_false] at h
    rw [hr] at h
    have hout : out = .list (r.map V.cand) := by cases h; rfl
    refine ⟨n, clist'.map V.cand, r.map V.cand, hk, hlst, hout, ?_, ?_, ?_⟩
    · simp [hlen, Nat.min_eq_left hn]
    · exact List.Pairwise.map V.cand (fun a b hab e => hab (by cases e; rfl)) hrnd
    · intro x hx
      obtain ⟨c, hc, rfl⟩ := List.mem_map.mp hx
      exact List.mem_map.mpr ⟨c, hrsub c hc, rfl⟩

/-- **ThresholdOpenList is exact for every seat count** (every configuration), also when the party won more seats than
    its list has members: exactly `min(n, |list|)` distinct list members — by `VL.C16.openlist_length_min` -/
theorem thresholdOpenList_exactOn_any (cfg : OpenListCfg) (zeroBad : Bool) :
    ListEvalExactOn (fun pv k lst => OpenListInputOK pv k lst ∧ ∃ n, k.asNat = .ok n)
      (thresholdOpenListLeaf cfg zeroBad) := by
  intro pv k lst out ⟨⟨votes, clist, hv, hl, hwf, hnd, hsub⟩, n, hk⟩ h
  obtain ⟨r, hr, hlen, hrnd, hrsub⟩ := VL.C16.openlist_length_min cfg votes n clist hwf hnd hsub
  unfold thresholdOpenListLeaf at h
  simp only [hv, hk, hl, ok_bind] at h
  have hlst := toCandList_eq lst clist hl
  by_cases hz : (zeroBad && decide (n = 0)) = true
  · simp only [hz, if_true] at h
    cases h
  · simp only [hz, Bool.false_eq_true, if_false] at h
    rw [hr] at h
    have hout : out = .list (r.map V.cand) := by cases h; rfl
    refine ⟨n, clist.map V.cand, r.map V.cand, hk, hlst, hout, ?_, ?_, ?_⟩
    · simp [hlen]
    · exact List.Pairwise.map V.cand (fun a b hab e => hab (by cases e; rfl)) hrnd
    · intro x hx
      obtain ⟨c, hc, rfl⟩ := List.mem_map.mp hx
      exact List.mem_map.mpr ⟨c, hrsub c hc, rfl⟩

/-- party-list evaluation with open lists seats exactly as many list candidates as the party won, for a list
    evaluator that is exact on the inputs the wrapper hands it (`hok`: every seated party's list votes, seats and list) -/
theorem partyList_open_seats_exactly_on (ok : V → V → V → Prop) (P : Sem) (le : ListSem)
    (hle : ListEvalExactOn ok le) (a : Args) (r : V)
    (h : partyListLaw P (some le) Option.none a = .ok r)
    (hok : ∀ n pl won, a.n = some n → a.pl = some pl →
      P { votes := a.votes, n := some n, prev := a.prev, max := a.max } = .ok (.dict won) →
      ∀ w ∈ won, ∀ lvd pld pv lst, a.lv.getD .none = .dict lvd → pl = .dict pld → D.get? lvd w.1 = some pv →
        D.get? pld w.1 = some lst → ok pv w.2 lst) :
    ∃ n pl won rs, a.n = some n ∧ a.pl = some pl
      ∧ P { votes := a.votes, n := some n, prev := a.prev, max := a.max } = .ok (.dict won)
      ∧ r = .dict rs
      ∧ Pointwise (fun (w : Key × V) (q : Key × V) => q.1 = w.1 ∧ ∃ pld members k sel, pl = .dict pld
          ∧ D.get? pld w.1 = some (.list members) ∧ w.2.asNat = .ok k ∧ q.2 = .list sel
          ∧ sel.length = min k members.length ∧ sel.Nodup ∧ ∀ x ∈ sel, x ∈ members) won rs := by
  simp only [partyListLaw] at h
  cases hn : a.n with
  | none => rw [hn] at h; cases h
  | some n =>
    rw [hn] at h
    cases hpl : a.pl with
    | none => rw [hpl] at h; cases h
    | some pl =>
      rw [hpl] at h
      simp only [pure_bind] at h
      cases hw : P { votes := a.votes, n := some n, prev := a.prev, max := a.max } with
      | error e => rw [hw] at h; cases h
      | ok wv =>
        rw [hw] at h
        simp only [ok_bind] at h
        cases wv with
        | dict won =>
          simp only [V.items, ok_bind] at h
          by_cases hlv : (a.lv.getD V.none).truthy = true
          · simp only [hlv, Bool.not_true, Bool.false_eq_true, if_false, pure_bind] at h
            cases hm : won.mapM (openList le (a.lv.getD V.none) pl) with
            | error e => rw [hm] at h; cases h
            | ok rs =>
              rw [hm] at h
              refine ⟨n, pl, won, rs, rfl, rfl, hw, (by cases h; rfl), ?_⟩
              refine Pointwise.imp_mem (fun x hx y hxy => ?_) (mapM_ok_forall₂ hm)
              exact openList_ok_on ok le hle _ pl x y
                (fun lvd pld pv lst e1 e2 g1 g2 => hok n pl won hn hpl hw x hx lvd pld pv lst e1 e2 g1 g2) hxy
          · simp [hlv] at h
        | num _ => cases h
        | cand _ => cases h
        | tie _ => cases h
        | none => cases h
        | list _ => cases h

end VL.C14
