/-
  C07 — the biproportional result meets both marginals and is divisor-consistent.
  Property theorems only; namespace VL.C07.

  Reading (DESIGN.md C07).  A seat matrix `x` (districts × parties) is a correct answer for votes `v`, district
  targets `rowT`, party targets `colT` and signpost constant `q` iff its row sums are `rowT`, its column sums are
  `colT`, zero-vote cells hold no seat and positive multipliers `ρ`, `γ` exist with
  `isRounding q (v i j * ρ i * γ j) (x i j)` for every cell.  A refusal is justified iff no non-negative integer
  matrix with these marginals and zeros where the votes are zero exists.

  Part 1: soundness of the certificate checkers the harness applies to EVERY output of the real evaluator
          (any matrix size).  Part 2: partial correctness of the Lean port of the evaluator (whatever it returns is
          biproportional).  Part 3: a `VotingSystemError` of the port is justified (no feasible matrix exists).
-/
import VotelibProofs.Lemmas.Biprop
import VotelibProofs.Lemmas.BipropInit
import VotelibProofs.Lemmas.BipropRefusal
import VotelibProofs.Lemmas.BipropNoCrash
import VotelibProofs.Lemmas.BipropTermination
namespace VL.C07
open VL VL.Biprop Finset

variable {ord : List Nat}

/-! ### Part 1 — verified certificate checkers -/

/-- **Soundness of the result checker** (index-function form, any `m × n`). -/
theorem bipropCheck_sound (m n : Nat) (q : Rat) (votes : Nat → Nat → Rat) (rowT colT : Nat → Nat)
    (x : Nat → Nat → Nat) (ρ γ : Nat → Rat)
    (h : bipropCheck m n q votes rowT colT x ρ γ = true) :
    (∀ i < m, ∑ j ∈ range n, x i j = rowT i) ∧
    (∀ j < n, ∑ i ∈ range m, x i j = colT j) ∧
    (∀ i < m, ∀ j < n, votes i j = 0 → x i j = 0) ∧
    (∀ i < m, 0 < ρ i) ∧ (∀ j < n, 0 < γ j) ∧
    (∀ i < m, ∀ j < n, isRounding q (votes i j * ρ i * γ j) (x i j)) := by
  unfold bipropCheck at h
  simp only [Bool.and_eq_true, allN_iff, beq_iff_eq, decide_eq_true_eq, Bool.or_eq_true,
    Bool.not_eq_true', beq_eq_false_iff_ne, ne_eq] at h
  obtain ⟨⟨⟨⟨hr, hc⟩, hρ⟩, hγ⟩, hcell⟩ := h
  refine ⟨?_, ?_, ?_, hρ, hγ, ?_⟩
  · intro i hi; rw [← sumN_eq_sum]; exact hr i hi
  · intro j hj; rw [← sumN_eq_sum]; exact hc j hj
  · intro i hi j hj hv
    rcases (hcell i hi j hj).1 with h0 | h0
    · exact absurd hv h0
    · exact h0
  · intro i hi j hj; exact (hcell i hi j hj).2

/-- a zero-vote cell can only be rounded to zero seats when `q < 1` (both rules): the rounding clause alone
    already forbids seats without votes -/
theorem isRounding_zero_votes (q : Rat) (hq : q < 1) (x : Nat) (h : isRounding q 0 x) : x = 0 := by
  rcases h.1 with h0 | h0
  · exact h0
  · by_contra hx
    have : (1 : Rat) ≤ (x : Rat) := by exact_mod_cast Nat.one_le_iff_ne_zero.mpr hx
    linarith

/-- the signposts `k − q` of the checker are the divisor sequence of the code as it is now (generated from
    `component/divisor.py`): D'Hondt `d(k) = k + 1 = s(k+1)` with `q = 0` … -/
theorem d_hondt_signpost (k : Nat) : Gen.Divisor.d_hondt k = ((k + 1 : Nat) : Rat) - 0 := by
  simp [Gen.Divisor.d_hondt]

/-- … and Sainte-Laguë `d(k) = 2k + 1 = 2 · s(k+1)` with `q = 1/2` -/
theorem sainte_lague_signpost (k : Nat) : Gen.Divisor.sainte_lague k = 2 * (((k + 1 : Nat) : Rat) - 1/2) := by
  simp [Gen.Divisor.sainte_lague]; ring

/-- **Soundness of the infeasibility checker**: an accepted Hall cut excludes every non-negative integer matrix with
    the given marginals and zeros where the votes are zero (any `m × n`). -/
theorem infeasible_sound (m n : Nat) (votes : Nat → Nat → Rat) (rowT colT : Nat → Nat) (S T : Nat → Bool)
    (h : infeasibleCheck m n votes rowT colT S T = true) :
    ¬ ∃ x : Nat → Nat → Nat,
      (∀ i < m, ∑ j ∈ range n, x i j = rowT i) ∧
      (∀ j < n, ∑ i ∈ range m, x i j = colT j) ∧
      (∀ i < m, ∀ j < n, votes i j = 0 → x i j = 0) := by
  rintro ⟨x, hr, hc, hz⟩
  have hrow : ∑ i ∈ range m, (if S i then rowT i else 0)
      = ∑ i ∈ range m, ∑ j ∈ range n, (if S i then x i j else 0) := by
    apply Finset.sum_congr rfl
    intro i hi
    have hi' := Finset.mem_range.mp hi
    by_cases hs : S i = true
    · simp [hs, hr i hi']
    · simp [hs]
  have hcol : ∑ j ∈ range n, (if T j then colT j else 0)
      = ∑ i ∈ range m, ∑ j ∈ range n, (if T j then x i j else 0) := by
    rw [Finset.sum_comm]
    apply Finset.sum_congr rfl
    intro j hj
    have hj' := Finset.mem_range.mp hj
    by_cases ht : T j = true
    · simp [ht, hc j hj']
    · simp [ht]
  unfold infeasibleCheck at h
  simp only [Bool.or_eq_true, Bool.and_eq_true, allN_iff, decide_eq_true_eq, Bool.not_eq_true',
    beq_iff_eq, sumN_eq_sum] at h
  rcases h with ⟨hv, hlt⟩ | ⟨hv, hlt⟩
  · have hle : ∑ i ∈ range m, ∑ j ∈ range n, (if S i then x i j else 0)
        ≤ ∑ i ∈ range m, ∑ j ∈ range n, (if T j then x i j else 0) := by
      apply Finset.sum_le_sum; intro i hi
      apply Finset.sum_le_sum; intro j hj
      have hi' := Finset.mem_range.mp hi
      have hj' := Finset.mem_range.mp hj
      by_cases hs : S i = true
      · by_cases ht : T j = true
        · simp [hs, ht]
        · rcases hv i hi' j hj' with (h1 | h1) | h1
          · simp [hs] at h1
          · exact absurd h1 ht
          · simp [hz i hi' j hj' h1]
      · simp [hs]
    rw [hrow, hcol] at hlt
    omega
  · have hle : ∑ i ∈ range m, ∑ j ∈ range n, (if T j then x i j else 0)
        ≤ ∑ i ∈ range m, ∑ j ∈ range n, (if S i then x i j else 0) := by
      apply Finset.sum_le_sum; intro i hi
      apply Finset.sum_le_sum; intro j hj
      have hi' := Finset.mem_range.mp hi
      have hj' := Finset.mem_range.mp hj
      by_cases ht : T j = true
      · by_cases hs : S i = true
        · simp [hs, ht]
        · rcases hv i hi' j hj' with (h1 | h1) | h1
          · exact absurd h1 hs
          · simp [ht] at h1
          · simp [hz i hi' j hj' h1]
      · simp [ht]
    rw [hrow, hcol] at hlt
    omega

/-- **Soundness of the list front end** `bipropCheckL` — the function the driver runs on every output of the real
    evaluator (op `biprop_cert`): shapes agree and the seat matrix has the stated marginals, zero cells, positive
    multipliers and roundings. -/
theorem bipropCheckL_sound (q : Rat) (votes : Mat Rat) (rowT colT : List Nat) (x : Mat Nat) (ρ γ : List Rat)
    (h : bipropCheckL q votes rowT colT x ρ γ = true) :
    shapeOk votes rowT.length colT.length = true ∧ shapeOk x rowT.length colT.length = true ∧
    (∀ i < rowT.length, (x.getD i []).sum = rowT.getD i 0) ∧
    (∀ j < colT.length, (x.map (fun r => r.getD j 0)).sum = colT.getD j 0) ∧
    (∀ i < rowT.length, ∀ j < colT.length, vget votes i j = 0 → mget x i j = 0) ∧
    (∀ i < rowT.length, 0 < ρ.getD i 0) ∧ (∀ j < colT.length, 0 < γ.getD j 0) ∧
    (∀ i < rowT.length, ∀ j < colT.length,
      isRounding q (vget votes i j * ρ.getD i 0 * γ.getD j 0) (mget x i j)) := by
  unfold bipropCheckL at h
  simp only [Bool.and_eq_true] at h
  obtain ⟨⟨⟨⟨hsv, hsx⟩, _⟩, _⟩, hchk⟩ := h
  obtain ⟨hr, hc, hz, hρ, hγ, hcell⟩ := bipropCheck_sound _ _ _ _ _ _ _ _ _ hchk
  refine ⟨hsv, hsx, ?_, ?_, hz, hρ, hγ, hcell⟩
  · intro i hi
    rw [← hr i hi, ← sumN_eq_sum, ← sumN_getD, shapeOk_row hsx hi]
    rfl
  · intro j hj
    rw [← hc j hj, ← sumN_eq_sum, ← sumN_col, ((shapeOk_iff x _ _).mp hsx).1]

/-- **Soundness of the list front end** `infeasibleCheckL` (op `infeasible_cert`): no seat matrix of the right shape
    has these marginals and zeros where the votes are zero. -/
theorem infeasibleCheckL_sound (votes : Mat Rat) (rowT colT S T : List Nat)
    (h : infeasibleCheckL votes rowT colT S T = true) :
    ¬ ∃ x : Mat Nat, shapeOk x rowT.length colT.length = true ∧
      (∀ i < rowT.length, (x.getD i []).sum = rowT.getD i 0) ∧
      (∀ j < colT.length, (x.map (fun r => r.getD j 0)).sum = colT.getD j 0) ∧
      (∀ i < rowT.length, ∀ j < colT.length, vget votes i j = 0 → mget x i j = 0) := by
  unfold infeasibleCheckL at h
  simp only [Bool.and_eq_true] at h
  rintro ⟨x, hsx, hr, hc, hz⟩
  apply infeasible_sound _ _ _ _ _ _ _ h.2
  refine ⟨mget x, ?_, ?_, hz⟩
  · intro i hi
    rw [← hr i hi, ← sumN_eq_sum, ← sumN_getD, shapeOk_row hsx hi]
    rfl
  · intro j hj
    rw [← hc j hj, ← sumN_eq_sum, ← sumN_col, ((shapeOk_iff x _ _).mp hsx).1]

/-! ### Part 2 — the port of tie-and-transfer (`VL.Biprop.evaluate`) -/

theorem votesOk_nonneg {V : Mat Rat} (h : votesOk V = true) : ∀ i j, 0 ≤ vget V i j :=
  votes_nonneg_of_ok h

theorem stateOk_iff {q : Rat} {V : Mat Rat} {s : State} :
    stateOk q V s = true ↔ shapeOk s.x V.length (nCols V) = true ∧ LoopInv q V V.length (nCols V) s := by
  simp only [stateOk, Bool.and_eq_true, allN_iff, decide_eq_true_eq, LoopInv]
  constructor
  · rintro ⟨⟨⟨a, b⟩, c⟩, d⟩; exact ⟨a, b, c, d⟩
  · rintro ⟨a, b, c, d⟩; exact ⟨⟨⟨a, b⟩, c⟩, d⟩

/-- a seat moved into an upgradable cell / out of a downgradable cell leaves the cell between its signposts -/
theorem transfer_cell_up {q qt : Rat} {s : Nat} (h : isUp q qt s = true) : isRounding q qt (s + 1) :=
  isRounding_up h
theorem transfer_cell_down {q qt : Rat} {s : Nat} (h : isDown q qt s = true) : isRounding q qt (s - 1) :=
  isRounding_down h

/-- **The transfer step keeps the party totals** (and the shape).  `labD`/`labP` are any labels with the meaning
    `_labeled` gives them (`labeled_ok`). -/
theorem augment_preserves_columns {q : Rat} {qt : Nat → Nat → Rat} {m n : Nat} {x x' : Mat Nat}
    {labD : LabD} {labP : LabP} {start fuel : Nat} {over : List Nat}
    (hs : shapeOk x m n = true) (hD : LabDOk q qt x m n labD) (hP : LabPOk q qt x m n labP)
    (h : augment x labD labP start over fuel = .ok x') :
    shapeOk x' m n = true ∧ ∀ j, ∑ i ∈ range m, mget x' i j = ∑ i ∈ range m, mget x i j := by
  unfold augment at h
  cases hpath : augPath labD labP over fuel start with
  | error e => rw [hpath] at h; simp at h
  | ok path =>
    rw [hpath] at h
    obtain ⟨h1, h2⟩ := applyPath_cols path x x' hs (augPath_cells hD hP _ _ _ hpath).pathIn h
    exact ⟨h1, fun j => by rw [← sumN_eq_sum, ← sumN_eq_sum]; exact h2 j⟩

/-- **The transfer step keeps the invariant**: after `_augment_result` every cell is still between its signposts
    under the (unchanged) multipliers. -/
theorem transfer_preserves_inv {q : Rat} {V : Mat Rat} {tgt : List Nat} {s s' : State}
    (hs : shapeOk s.x V.length (nCols V) = true) (hinv : LoopInv q V V.length (nCols V) s)
    (h : step q ord V tgt s = .ok (.transfer s')) :
    shapeOk s'.x V.length (nCols V) = true ∧ LoopInv q V V.length (nCols V) s' ∧
    ∀ j, ∑ i ∈ range V.length, mget s'.x i j = ∑ i ∈ range V.length, mget s.x i j := by
  obtain ⟨hdc, hpc, path, hcells, happ, labD, labP, over, f, start, hpath⟩ := step_transfer h
  obtain ⟨hshape', hcols⟩ := applyPath_cols path s.x s'.x hs hcells.pathIn happ
  refine ⟨hshape', ⟨?_, ?_, ?_⟩, fun j => by rw [← sumN_eq_sum, ← sumN_eq_sum]; exact hcols j⟩
  · rw [hdc]; exact hinv.1
  · rw [hpc]; exact hinv.2.1
  · intro i hi j hj
    have hq : quot V s' i j = quot V s i j := by unfold quot; rw [hdc, hpc]
    rw [hq]
    have hcount := applyPath_count path s.x s'.x hs hcells.pathIn happ i j
    have hnd1 := augPath_nodup _ _ _ hpath
    have hnd3 := chain_thirds_nodup _ _ (augPath_chain _ _ _ hpath) hnd1
    have hu : ups path i j ≤ 1 :=
      countP_le_one_of_nodup_map (·.1) path hnd1 i _ (fun t ht => by
        simp only [Bool.and_eq_true, beq_iff_eq] at ht; exact ht.1)
    have hd : downs path i j ≤ 1 :=
      countP_le_one_of_nodup_map (·.2.2) path hnd3 i _ (fun t ht => by
        simp only [Bool.and_eq_true, beq_iff_eq] at ht; exact ht.1)
    have hr := hinv.2.2 i hi j hj
    have hup : 0 < ups path i j → isUp q (quot V s i j) (mget s.x i j) = true := by
      intro hpos
      obtain ⟨t, ht, hp⟩ := List.countP_pos_iff.mp hpos
      simp only [Bool.and_eq_true, beq_iff_eq] at hp
      have := (hcells t ht).2.2.2.1
      rw [hp.1, hp.2] at this; exact this
    have hdown : 0 < downs path i j → isDown q (quot V s i j) (mget s.x i j) = true := by
      intro hpos
      obtain ⟨t, ht, hp⟩ := List.countP_pos_iff.mp hpos
      simp only [Bool.and_eq_true, beq_iff_eq] at hp
      have := (hcells t ht).2.2.2.2
      rw [hp.1, hp.2] at this; exact this
    by_cases hu0 : ups path i j = 0
    · by_cases hd0 : downs path i j = 0
      · have : mget s'.x i j = mget s.x i j := by omega
        rw [this]; exact hr
      · have hdn := hdown (by omega)
        have hge : 1 ≤ mget s.x i j := by
          simp only [isDown, Bool.and_eq_true, decide_eq_true_eq] at hdn; exact hdn.2
        have : mget s'.x i j = mget s.x i j - 1 := by omega
        rw [this]; exact isRounding_down hdn
    · have hupc := hup (by omega)
      by_cases hd0 : downs path i j = 0
      · have : mget s'.x i j = mget s.x i j + 1 := by omega
        rw [this]; exact isRounding_up hupc
      · exact absurd (hdown (by omega)) (fun hh => isUp_isDown_false hupc hh)

/-- **The multiplier update keeps the invariant** (`_adj_coef` and L631-634). -/
theorem update_preserves_inv {q : Rat} {V : Mat Rat} {tgt : List Nat} {s s' : State} {c : Rat}
    (hq1 : q < 1) (hV : votesOk V = true)
    (hinv : LoopInv q V V.length (nCols V) s) (h : step q ord V tgt s = .ok (.update s' c)) :
    s'.x = s.x ∧ 0 < c ∧ c < 1 ∧ LoopInv q V V.length (nCols V) s' := by
  obtain ⟨hx, hc0, hc1, labD, labP, hadj, _, _⟩ := step_update h
  have hcnn := (adjCoef_bounds hq1 hadj).1
  exact ⟨hx, lt_of_le_of_ne hcnn (Ne.symm hc0), hc1, update_inv hq1 (votesOk_nonneg hV) hinv h⟩

/-- **Termination test**: the loop only returns when every district holds exactly its target. -/
theorem step_done_rows {q : Rat} {V : Mat Rat} {tgt : List Nat} {s : State}
    (hs : shapeOk s.x V.length (nCols V) = true) (h : step q ord V tgt s = .ok .done) :
    ∀ i < V.length, ∑ j ∈ range (nCols V), mget s.x i j = tgt.getD i 0 := by
  intro i hi
  rw [← step_done h i hi, ← sumN_eq_sum]
  unfold rowSum
  rw [← sumN_getD, shapeOk_row hs hi]
  rfl

/-- what a successful run of the loop guarantees (partial correctness of the port, any fuel, any size) -/
theorem run_ok_sound {q : Rat} {V : Mat Rat} {tgt : List Nat} (hq1 : q < 1) (hV : votesOk V = true) :
    ∀ (fuel : Nat) (s : State) (nt : Nat) (ups : List Rat) (o : Outcome),
      stateOk q V s = true → run q ord V tgt fuel s nt ups = .ok o →
      shapeOk o.final.x V.length (nCols V) = true ∧
      (∀ i < V.length, ∑ j ∈ range (nCols V), mget o.final.x i j = tgt.getD i 0) ∧
      (∀ j, ∑ i ∈ range V.length, mget o.final.x i j = ∑ i ∈ range V.length, mget s.x i j) ∧
      (∀ i < V.length, ∀ j < nCols V, vget V i j = 0 → mget o.final.x i j = 0) ∧
      (∀ i < V.length, 0 < o.final.dc.getD i 0) ∧ (∀ j < nCols V, 0 < o.final.pc.getD j 0) ∧
      (∀ i < V.length, ∀ j < nCols V,
        isRounding q (vget V i j * o.final.dc.getD i 0 * o.final.pc.getD j 0) (mget o.final.x i j))
  | 0, _, _, _, _, _, h => by simp [run] at h
  | fuel+1, s, nt, ups, o, hok, h => by
    obtain ⟨hs, hinv⟩ := stateOk_iff.mp hok
    simp only [run] at h
    cases hstep : step q ord V tgt s with
    | error e => rw [hstep] at h; simp at h
    | ok r =>
      rw [hstep] at h
      cases r with
      | done =>
        simp only [Except.ok.injEq] at h
        subst h
        refine ⟨hs, step_done_rows hs hstep, fun _ => rfl, ?_, hinv.1, hinv.2.1, hinv.2.2⟩
        intro i hi j hj hv
        have := hinv.2.2 i hi j hj
        unfold quot at this
        rw [hv] at this
        simp only [zero_mul] at this
        exact isRounding_zero_votes q hq1 _ this
      | transfer s' =>
        simp only at h
        obtain ⟨hs', hinv', hcols⟩ := transfer_preserves_inv hs hinv hstep
        obtain ⟨a, b, c, d, e⟩ := run_ok_sound hq1 hV fuel s' _ _ o (stateOk_iff.mpr ⟨hs', hinv'⟩) h
        exact ⟨a, b, fun j => by rw [c j, hcols j], d, e⟩
      | update s' cf =>
        simp only at h
        obtain ⟨hx, _, _, hinv'⟩ := update_preserves_inv hq1 hV hinv hstep
        obtain ⟨a, b, c, d, e⟩ := run_ok_sound hq1 hV fuel s' _ _ o (stateOk_iff.mpr ⟨by rw [hx]; exact hs, hinv'⟩) h
        exact ⟨a, b, fun j => by rw [c j, hx], d, e⟩

/-- party totals never change during a run (needs only the shape of the seat matrix) -/
theorem run_preserves_columns {q : Rat} {V : Mat Rat} {tgt : List Nat} :
    ∀ (fuel : Nat) (s : State) (nt : Nat) (ups : List Rat) (o : Outcome),
      shapeOk s.x V.length (nCols V) = true → run q ord V tgt fuel s nt ups = .ok o →
      shapeOk o.final.x V.length (nCols V) = true ∧
      ∀ j, ∑ i ∈ range V.length, mget o.final.x i j = ∑ i ∈ range V.length, mget s.x i j
  | 0, _, _, _, _, _, h => by simp [run] at h
  | fuel+1, s, nt, ups, o, hs, h => by
    simp only [run] at h
    cases hstep : step q ord V tgt s with
    | error e => rw [hstep] at h; simp at h
    | ok r =>
      rw [hstep] at h
      cases r with
      | done => simp only [Except.ok.injEq] at h; subst h; exact ⟨hs, fun _ => rfl⟩
      | transfer s' =>
        simp only at h
        obtain ⟨_, _, path, hcells, happ, _⟩ := step_transfer hstep
        obtain ⟨hs', hcols⟩ := applyPath_cols path s.x s'.x hs hcells.pathIn happ
        obtain ⟨a, b⟩ := run_preserves_columns fuel s' _ _ o hs' h
        exact ⟨a, fun j => by rw [b j, ← sumN_eq_sum, ← sumN_eq_sum]; exact hcols j⟩
      | update s' cf =>
        simp only at h
        have hx := (step_update hstep).1
        obtain ⟨a, b⟩ := run_preserves_columns fuel s' _ _ o (by rw [hx]; exact hs) h
        exact ⟨a, fun j => by rw [b j, hx]⟩

/-- a successful run meets every district target (needs only the shape of the seat matrix) -/
theorem run_ok_rows {q : Rat} {V : Mat Rat} {tgt : List Nat} :
    ∀ (fuel : Nat) (s : State) (nt : Nat) (ups : List Rat) (o : Outcome),
      shapeOk s.x V.length (nCols V) = true → run q ord V tgt fuel s nt ups = .ok o →
      ∀ i < V.length, ∑ j ∈ range (nCols V), mget o.final.x i j = tgt.getD i 0
  | 0, _, _, _, _, _, h => by simp [run] at h
  | fuel+1, s, nt, ups, o, hs, h => by
    simp only [run] at h
    cases hstep : step q ord V tgt s with
    | error e => rw [hstep] at h; simp at h
    | ok r =>
      rw [hstep] at h
      cases r with
      | done => simp only [Except.ok.injEq] at h; subst h; exact step_done_rows hs hstep
      | transfer s' =>
        simp only at h
        obtain ⟨_, _, path, hcells, happ, _⟩ := step_transfer hstep
        exact run_ok_rows fuel s' _ _ o (applyPath_cols path s.x s'.x hs hcells.pathIn happ).1 h
      | update s' cf =>
        simp only at h
        exact run_ok_rows fuel s' _ _ o (by rw [(step_update hstep).1]; exact hs) h

/-- **Partial correctness of the ported evaluator.**  If `evaluate` returns a seat matrix, and the state before the
    loop is consistent (`stateOk`, decidable; the driver confirms it on every generated case), then the matrix meets
    the district targets, keeps the party totals of the initial party-proportional solution, seats no zero-vote cell
    and is a cell-wise signpost rounding under the final (positive) multipliers. -/
theorem evaluate_ok_sound {div : Nat → Rat} {q : Rat} {V : Mat Rat} {total fuel : Nat} {rows : Option (List Nat)}
    {o : Outcome} (hq1 : q < 1) (hV : votesOk V = true)
    (hinit : ∀ s0, initState div q V total = .ok s0 → stateOk q V s0 = true)
    (h : evaluate div q ord V total rows fuel = .ok o) :
    ∃ s0 tgt, initState div q V total = .ok s0 ∧
      (rows = some tgt ∨ (rows = none ∧ districtSeats div V total = .ok tgt)) ∧
      shapeOk o.final.x V.length (nCols V) = true ∧
      (∀ i < V.length, ∑ j ∈ range (nCols V), mget o.final.x i j = tgt.getD i 0) ∧
      (∀ j, ∑ i ∈ range V.length, mget o.final.x i j = ∑ i ∈ range V.length, mget s0.x i j) ∧
      (∀ i < V.length, ∀ j < nCols V, vget V i j = 0 → mget o.final.x i j = 0) ∧
      (∀ i < V.length, 0 < o.final.dc.getD i 0) ∧ (∀ j < nCols V, 0 < o.final.pc.getD j 0) ∧
      (∀ i < V.length, ∀ j < nCols V,
        isRounding q (vget V i j * o.final.dc.getD i 0 * o.final.pc.getD j 0) (mget o.final.x i j)) := by
  unfold evaluate at h
  cases hs0 : initState div q V total with
  | error e => rw [hs0] at h; simp at h
  | ok s0 =>
    rw [hs0] at h
    simp only at h
    cases rows with
    | some l =>
      simp only at h
      exact ⟨s0, l, rfl, Or.inl rfl, run_ok_sound hq1 hV fuel s0 0 [] o (hinit s0 hs0) h⟩
    | none =>
      simp only at h
      cases hd : districtSeats div V total with
      | error e => rw [hd] at h; simp at h
      | ok tgt =>
        rw [hd] at h
        simp only at h
        exact ⟨s0, tgt, rfl, Or.inr ⟨rfl, rfl⟩, run_ok_sound hq1 hV fuel s0 0 [] o (hinit s0 hs0) h⟩

/-- the divisor functions of the code as it is now (regenerated from `component/divisor.py` on every run) are signpost
    sequences: D'Hondt with `q = 0` … -/
theorem d_hondt_signpostDiv : SignpostDiv Gen.Divisor.d_hondt 0 :=
  ⟨le_refl _, by norm_num, 1, by norm_num, fun s => by simp [Gen.Divisor.d_hondt]⟩

/-- … and Sainte-Laguë with `q = 1/2` (factor 2) -/
theorem sainte_lague_signpostDiv : SignpostDiv Gen.Divisor.sainte_lague (1/2) :=
  ⟨by norm_num, by norm_num, 2, by norm_num, fun s => by simp [Gen.Divisor.sainte_lague]; ring⟩

/-- **The state before the loop is consistent**: for every rectangular non-negative vote matrix with at least one
    vote, the initial party-proportional solution (`_initial_solution`, including the spreading of a `Tie` over the
    tied districts — fix 7aec924) with the initial multipliers (`_initial_party_coefs`, including the coefficient 1
    of a party without votes — fix 514f123) has every cell between its signposts. -/
theorem initState_consistent {div : Nat → Rat} {q : Rat} (hdiv : SignpostDiv div q) {V : Mat Rat} {total : Nat}
    {s0 : State} (hV : votesOk V = true) (hpos : hasVotes V = true) (h : initState div q V total = .ok s0) :
    stateOk q V s0 = true := initState_ok hdiv hV hpos h

/-- **Partial correctness of the ported evaluator, without any semantic hypothesis**: for a divisor rule in signpost
    form (both rules of the property), every rectangular non-negative vote matrix with at least one vote, every seat
    total, every way of giving the district seats and any fuel — if `evaluate` returns a seat matrix, it meets the
    district targets, keeps the party totals of the initial party-proportional solution, seats no zero-vote cell, and
    the final multipliers are positive and make every cell a signpost rounding. -/
theorem evaluate_sound {div : Nat → Rat} {q : Rat} (hdiv : SignpostDiv div q) {V : Mat Rat} {total fuel : Nat}
    {rows : Option (List Nat)} {o : Outcome} (hV : votesOk V = true) (hpos : hasVotes V = true)
    (h : evaluate div q ord V total rows fuel = .ok o) :
    ∃ s0 tgt, initState div q V total = .ok s0 ∧
      (rows = some tgt ∨ (rows = none ∧ districtSeats div V total = .ok tgt)) ∧
      shapeOk o.final.x V.length (nCols V) = true ∧
      (∀ i < V.length, ∑ j ∈ range (nCols V), mget o.final.x i j = tgt.getD i 0) ∧
      (∀ j, ∑ i ∈ range V.length, mget o.final.x i j = ∑ i ∈ range V.length, mget s0.x i j) ∧
      (∀ i < V.length, ∀ j < nCols V, vget V i j = 0 → mget o.final.x i j = 0) ∧
      (∀ i < V.length, 0 < o.final.dc.getD i 0) ∧ (∀ j < nCols V, 0 < o.final.pc.getD j 0) ∧
      (∀ i < V.length, ∀ j < nCols V,
        isRounding q (vget V i j * o.final.dc.getD i 0 * o.final.pc.getD j 0) (mget o.final.x i j)) :=
  evaluate_ok_sound hdiv.q_lt_one hV (fun _ hs0 => initState_ok hdiv hV hpos hs0) h

/-- **Both marginals of a returned matrix.**  Party totals equal the highest-averages apportionment `partySeats` of the
    overall party votes (which hands out exactly `total` seats); district totals equal the district apportionment
    (given explicitly, or `districtSeats`: highest averages over the district totals, handing out `total` seats). -/
theorem evaluate_marginals {div : Nat → Rat} {q : Rat} {V : Mat Rat} {total fuel : Nat}
    {rows : Option (List Nat)} {o : Outcome} (h : evaluate div q ord V total rows fuel = .ok o) :
    ∃ ps tgt, partySeats div V total = .ok ps ∧ ps.sum = total ∧ ps.length = nCols V ∧
      (rows = some tgt ∨ (rows = none ∧ districtSeats div V total = .ok tgt ∧ tgt.sum = total ∧
        tgt.length = V.length)) ∧
      (∀ j < nCols V, ∑ i ∈ range V.length, mget o.final.x i j = ps.getD j 0) ∧
      (∀ i < V.length, ∑ j ∈ range (nCols V), mget o.final.x i j = tgt.getD i 0) := by
  unfold evaluate at h
  cases hs0 : initState div q V total with
  | error e => rw [hs0] at h; simp at h
  | ok s0 =>
    rw [hs0] at h
    simp only at h
    -- the initial solution and the upper apportionment it was built from
    have hinit : ∃ ps, partySeats div V total = .ok ps ∧ initialSolution div V total = .ok s0.x := by
      unfold initState at hs0
      cases hx : initialSolution div V total with
      | error e => rw [hx] at hs0; simp at hs0
      | ok x0 =>
        rw [hx] at hs0
        simp only [Except.ok.injEq] at hs0
        subst hs0
        have hx' := hx
        unfold initialSolution at hx'
        cases hps : partySeats div V total with
        | error e => rw [hps] at hx'; simp at hx'
        | ok ps => exact ⟨ps, rfl, rfl⟩
    obtain ⟨ps, hps, hx0⟩ := hinit
    have hshape0 : shapeOk s0.x V.length (nCols V) = true := by
      have := hx0
      unfold initialSolution at this
      rw [hps] at this
      simp only at this
      cases hcols : (List.range (nCols V)).mapM (fun j => initialColumn div V j (ps.getD j 0)) with
      | error e => rw [hcols] at this; simp at this
      | ok cols =>
        rw [hcols] at this
        simp only [Except.ok.injEq] at this
        have hclen := (mapM_except_ok _ _ _ hcols).1
        rw [List.length_range] at hclen
        rw [shapeOk_iff, ← this]
        refine ⟨by simp, ?_⟩
        intro r hr
        obtain ⟨i, _, rfl⟩ := List.mem_map.mp hr
        simp [hclen]
    have hcols0 := initialSolution_cols hps hx0
    obtain ⟨hpsum, hpslen⟩ := partySeats_total hps
    cases rows with
    | some l =>
      simp only at h
      refine ⟨ps, l, hps, hpsum, hpslen, Or.inl rfl, ?_, run_ok_rows fuel s0 0 [] o hshape0 h⟩
      intro j hj
      rw [(run_preserves_columns fuel s0 0 [] o hshape0 h).2 j, hcols0 j hj]
    | none =>
      simp only at h
      cases hd : districtSeats div V total with
      | error e => rw [hd] at h; simp at h
      | ok tgt =>
        rw [hd] at h
        simp only at h
        obtain ⟨ht1, ht2⟩ := districtSeats_total hd
        refine ⟨ps, tgt, hps, hpsum, hpslen, Or.inr ⟨rfl, rfl, ht1, ht2⟩, ?_, run_ok_rows fuel s0 0 [] o hshape0 h⟩
        intro j hj
        rw [(run_preserves_columns fuel s0 0 [] o hshape0 h).2 j, hcols0 j hj]

/-- **The party marginal is the divisor-method apportionment of the overall party votes** (textbook characterisation):
    `partySeats` hands out exactly `total` seats and a common positive multiplier makes every party's seat count a
    signpost rounding of its overall votes × multiplier. -/
theorem partySeats_divisor_method {div : Nat → Rat} {q : Rat} (hdiv : SignpostDiv div q) {V : Mat Rat} {total : Nat}
    {ps : List Nat} (hV : votesOk V = true) (hpos : hasVotes V = true) (h : partySeats div V total = .ok ps) :
    ps.sum = total ∧ ∃ c : Rat, 0 < c ∧
      ∀ j < nCols V, isRounding q (sumRat (colOf V j) * c) (ps.getD j 0) := by
  have hshapeV : shapeOk V V.length (nCols V) = true := by
    simp only [votesOk, Bool.and_eq_true] at hV; exact hV.1
  have hnn := votes_nonneg_of_ok hV
  unfold partySeats at h
  cases hr : haEvaluate div (colTotals V) total with
  | error e => rw [hr] at h; simp at h
  | ok r =>
    rw [hr] at h
    simp only at h
    split at h
    · simp at h
    · rename_i hnt
      simp only [Except.ok.injEq] at h
      have htn : r.tie = none := by
        cases ht : r.tie with
        | none => rfl
        | some bc => rw [ht] at hnt; simp at hnt
      have hctl : (colTotals V).length = nCols V := by simp [colTotals]
      have hct : ∀ j < nCols V, (colTotals V).getD j 0 = sumRat (colOf V j) := by
        intro j hj; unfold colTotals; rw [getD_map_range _ _ _ _ hj]
      have hctnn : ∀ k, 0 ≤ (colTotals V).getD k 0 := by
        intro k
        by_cases hk : k < nCols V
        · rw [hct k hk]
          apply sumRat_nonneg
          intro a ha
          obtain ⟨i, _, rfl⟩ := mem_colOf ha
          exact hnn i k
        · rw [List.getD_eq_getElem?_getD, List.getElem?_eq_none (by omega)]; simp
      obtain ⟨i0, hi0, j0, hj0, hp0⟩ := hasVotes_exists hshapeV hpos
      have hex : ∃ k < (colTotals V).length, 0 < (colTotals V).getD k 0 := by
        refine ⟨j0, by omega, ?_⟩
        rw [hct j0 hj0]
        apply sumRat_pos
        · intro a ha
          obtain ⟨i, _, rfl⟩ := mem_colOf ha
          exact hnn i j0
        · refine ⟨vget V i0 j0, ?_, hp0⟩
          rw [← getD_colOf, List.getD_eq_getElem?_getD,
            List.getElem?_eq_getElem (by rw [length_colOf]; exact hi0)]
          exact List.getElem_mem _
      obtain ⟨hsum, c, hc, hround⟩ := haEvaluate_divisor_method hdiv hctnn hex hr htn
      rw [h] at hsum hround
      refine ⟨hsum, c, hc, fun j hj => ?_⟩
      have := hround j (by omega)
      rw [hct j hj] at this
      exact this

/-- **The district marginal, when districts are apportioned by the same divisor rule, is the divisor-method
    apportionment of the district totals.** -/
theorem districtSeats_divisor_method {div : Nat → Rat} {q : Rat} (hdiv : SignpostDiv div q) {V : Mat Rat}
    {total : Nat} {tgt : List Nat} (hV : votesOk V = true) (hpos : hasVotes V = true)
    (h : districtSeats div V total = .ok tgt) :
    tgt.sum = total ∧ ∃ c : Rat, 0 < c ∧
      ∀ i < V.length, isRounding q (sumRat (V.getD i []) * c) (tgt.getD i 0) := by
  have hrows : ∀ r ∈ V, ∀ a ∈ r, (0 : Rat) ≤ a := by
    simp only [votesOk, Bool.and_eq_true, List.all_eq_true, decide_eq_true_eq] at hV
    exact hV.2
  unfold districtSeats at h
  cases hr : haEvaluate div (rowTotals V) total with
  | error e => rw [hr] at h; simp at h
  | ok r =>
    rw [hr] at h
    simp only at h
    split at h
    · simp at h
    · rename_i hnt
      simp only [Except.ok.injEq] at h
      have htn : r.tie = none := by
        cases ht : r.tie with
        | none => rfl
        | some bc => rw [ht] at hnt; simp at hnt
      have hrt : ∀ i < V.length, (rowTotals V).getD i 0 = sumRat (V.getD i []) := by
        intro i hi
        simp [rowTotals, List.getD_eq_getElem?_getD, List.getElem?_eq_getElem hi]
      have hrtnn : ∀ k, 0 ≤ (rowTotals V).getD k 0 := by
        intro k
        by_cases hk : k < V.length
        · rw [hrt k hk]
          apply sumRat_nonneg
          rw [List.getD_eq_getElem?_getD, List.getElem?_eq_getElem hk]
          exact hrows _ (List.getElem_mem hk)
        · rw [List.getD_eq_getElem?_getD, List.getElem?_eq_none (by simp [rowTotals]; omega)]; simp
      have hex : ∃ k < (rowTotals V).length, 0 < (rowTotals V).getD k 0 := by
        simp only [hasVotes, List.any_eq_true, decide_eq_true_eq] at hpos
        obtain ⟨r', hr', v, hv, hvpos⟩ := hpos
        obtain ⟨i, hi, rfl⟩ := List.mem_iff_getElem.mp hr'
        refine ⟨i, by simpa [rowTotals] using hi, ?_⟩
        rw [hrt i hi, List.getD_eq_getElem?_getD, List.getElem?_eq_getElem hi]
        exact sumRat_pos _ (hrows _ hr') ⟨v, hv, hvpos⟩
      obtain ⟨hsum, c, hc, hround⟩ := haEvaluate_divisor_method hdiv hrtnn hex hr htn
      rw [h] at hsum hround
      refine ⟨hsum, c, hc, fun i hi => ?_⟩
      have := hround i (by simpa [rowTotals] using hi)
      rw [hrt i hi] at this
      exact this

/-! ### Part 3 — a refusal of the port is justified -/

/-- **A refusing iteration is justified.**  If one pass of the loop raises `VotingSystemError` in a consistent
    state, the labels form a Hall cut accepted by the verified checker, hence no seat matrix with the district targets,
    the current party totals and zeros where the votes are zero exists. -/
theorem step_refusal_justified {q : Rat} (hq : q = 0 ∨ q = 1/2) {V : Mat Rat} {tgt : List Nat} {s : State}
    (hV : votesOk V = true) (hcov : ordCovers ord V = true) (hok : stateOk q V s = true)
    (h : step q ord V tgt s = .error .votingSystemError) :
    (∃ S T : Nat → Bool, infeasibleCheck V.length (nCols V) (vget V) (fun i => tgt.getD i 0)
      (fun j => sumN (fun i => mget s.x i j) V.length) S T = true) ∧
    ¬ ∃ x : Nat → Nat → Nat,
      (∀ i < V.length, ∑ j ∈ range (nCols V), x i j = tgt.getD i 0) ∧
      (∀ j < nCols V, ∑ i ∈ range V.length, x i j = ∑ i ∈ range V.length, mget s.x i j) ∧
      (∀ i < V.length, ∀ j < nCols V, vget V i j = 0 → x i j = 0) := by
  obtain ⟨hs, hinv⟩ := stateOk_iff.mp hok
  obtain ⟨S, T, hcut⟩ := step_refusal_cut hq (votesOk_nonneg hV) hcov hs hinv h
  refine ⟨⟨S, T, hcut⟩, ?_⟩
  have := infeasible_sound _ _ _ _ _ _ _ hcut
  simpa only [sumN_eq_sum] using this

/-- **The loop never refuses a feasible instance.**  A run that starts in a consistent state and ends in
    `VotingSystemError` certifies (by a cut the verified checker accepts) that no seat matrix with the district
    targets, the party totals of the start state and zeros where the votes are zero exists. -/
theorem run_refusal_justified {q : Rat} (hq : q = 0 ∨ q = 1/2) {V : Mat Rat} {tgt : List Nat}
    (hV : votesOk V = true) (hcov : ordCovers ord V = true) :
    ∀ (fuel : Nat) (s : State) (nt : Nat) (ups : List Rat),
      stateOk q V s = true → run q ord V tgt fuel s nt ups = .error .votingSystemError →
      ∃ S T : Nat → Bool, infeasibleCheck V.length (nCols V) (vget V) (fun i => tgt.getD i 0)
        (fun j => sumN (fun i => mget s.x i j) V.length) S T = true
  | 0, _, _, _, _, h => by simp [run] at h
  | fuel+1, s, nt, ups, hok, h => by
    have hq1 : q < 1 := by rcases hq with rfl | rfl <;> norm_num
    obtain ⟨hs, hinv⟩ := stateOk_iff.mp hok
    simp only [run] at h
    cases hstep : step q ord V tgt s with
    | error e =>
      rw [hstep] at h
      simp only [Except.error.injEq] at h
      subst h
      exact (step_refusal_justified hq hV hcov hok hstep).1
    | ok r =>
      rw [hstep] at h
      cases r with
      | done => simp at h
      | transfer s' =>
        simp only at h
        obtain ⟨hs', hinv', hcols⟩ := transfer_preserves_inv hs hinv hstep
        obtain ⟨S, T, hcut⟩ := run_refusal_justified hq hV hcov fuel s' _ _ (stateOk_iff.mpr ⟨hs', hinv'⟩) h
        have : (fun j => sumN (fun i => mget s'.x i j) V.length) = (fun j => sumN (fun i => mget s.x i j) V.length) := by
          funext j; rw [sumN_eq_sum, sumN_eq_sum]; exact hcols j
        rw [this] at hcut
        exact ⟨S, T, hcut⟩
      | update s' cf =>
        simp only at h
        obtain ⟨hx, _, _, hinv'⟩ := update_preserves_inv hq1 hV hinv hstep
        obtain ⟨S, T, hcut⟩ := run_refusal_justified hq hV hcov fuel s' _ _
          (stateOk_iff.mpr ⟨by rw [hx]; exact hs, hinv'⟩) h
        rw [hx] at hcut
        exact ⟨S, T, hcut⟩

/-- **The ported evaluator refuses only infeasible instances** (both rules, any size, any fuel): if `evaluate` ends in
    `VotingSystemError`, no non-negative integer matrix has the district apportionment as row sums, the
    highest-averages party apportionment as column sums and zeros where the votes are zero. -/
theorem evaluate_refusal_justified {div : Nat → Rat} {q : Rat} (hdiv : SignpostDiv div q) (hq : q = 0 ∨ q = 1/2)
    {V : Mat Rat} {total fuel : Nat} {rows : Option (List Nat)} (hV : votesOk V = true) (hpos : hasVotes V = true)
    (hcov : ordCovers ord V = true) (h : evaluate div q ord V total rows fuel = .error .votingSystemError) :
    ∃ ps tgt, partySeats div V total = .ok ps ∧
      (rows = some tgt ∨ (rows = none ∧ districtSeats div V total = .ok tgt)) ∧
      ¬ ∃ x : Nat → Nat → Nat,
        (∀ i < V.length, ∑ j ∈ range (nCols V), x i j = tgt.getD i 0) ∧
        (∀ j < nCols V, ∑ i ∈ range V.length, x i j = ps.getD j 0) ∧
        (∀ i < V.length, ∀ j < nCols V, vget V i j = 0 → x i j = 0) := by
  unfold evaluate at h
  cases hs0 : initState div q V total with
  | error e =>
    rw [hs0] at h
    simp only [Except.error.injEq] at h
    exact absurd h (initState_error hs0)
  | ok s0 =>
    rw [hs0] at h
    simp only at h
    have hok := initState_ok hdiv hV hpos hs0
    have hinit : ∃ ps, partySeats div V total = .ok ps ∧ initialSolution div V total = .ok s0.x := by
      unfold initState at hs0
      cases hx : initialSolution div V total with
      | error e => rw [hx] at hs0; simp at hs0
      | ok x0 =>
        rw [hx] at hs0
        simp only [Except.ok.injEq] at hs0
        subst hs0
        have hx' := hx
        unfold initialSolution at hx'
        cases hps : partySeats div V total with
        | error e => rw [hps] at hx'; simp at hx'
        | ok ps => exact ⟨ps, rfl, rfl⟩
    obtain ⟨ps, hps, hx0⟩ := hinit
    have hcols0 := initialSolution_cols hps hx0
    have key : ∀ tgt : List Nat, run q ord V tgt fuel s0 0 [] = .error .votingSystemError →
        ¬ ∃ x : Nat → Nat → Nat,
          (∀ i < V.length, ∑ j ∈ range (nCols V), x i j = tgt.getD i 0) ∧
          (∀ j < nCols V, ∑ i ∈ range V.length, x i j = ps.getD j 0) ∧
          (∀ i < V.length, ∀ j < nCols V, vget V i j = 0 → x i j = 0) := by
      intro tgt hrun
      obtain ⟨S, T, hcut⟩ := run_refusal_justified hq hV hcov fuel s0 0 [] hok hrun
      have := infeasible_sound _ _ _ _ _ _ _ hcut
      rintro ⟨x, hr, hc, hz⟩
      apply this
      refine ⟨x, hr, fun j hj => ?_, hz⟩
      rw [hc j hj, sumN_eq_sum, hcols0 j hj]
    cases rows with
    | some l =>
      simp only at h
      exact ⟨ps, l, hps, Or.inl rfl, key l h⟩
    | none =>
      simp only at h
      cases hd : districtSeats div V total with
      | error e =>
        rw [hd] at h
        simp only [Except.error.injEq] at h
        exact absurd h (districtSeats_error hd)
      | ok tgt =>
        rw [hd] at h
        simp only at h
        exact ⟨ps, tgt, hps, Or.inr ⟨rfl, rfl⟩, key tgt h⟩

/-! ### Part 4 — crash-freedom of the port -/

/-- **One pass cannot crash.**  The consistency invariant of the loop state is `stateOk` (decidable: seat matrix of the
    shape of the vote matrix, i.e. every district / party key present; positive multipliers; every cell between its
    signposts); it is established by the initialisation (`initState_consistent`) and preserved by every pass
    (`transfer_preserves_inv`, `update_preserves_inv`).  From such a state an iteration either succeeds or raises
    `VotingSystemError`: the `KeyError` of `_augment_result` (popping an empty label set, taking a seat from an empty
    cell) and the `ZeroDivisionError` of `_adj_coef` are unreachable. -/
theorem step_crash_free {q : Rat} (hq0 : 0 ≤ q) {V : Mat Rat} {tgt : List Nat} {s : State}
    (hok : stateOk q V s = true) :
    (∃ r, step q ord V tgt s = .ok r) ∨ step q ord V tgt s = .error .votingSystemError := by
  obtain ⟨hs, hinv⟩ := stateOk_iff.mp hok
  exact step_no_crash hq0 hs hinv

/-- **The loop cannot crash**: from a consistent state the only errors of a run are the refusal and running out of fuel. -/
theorem run_crash_free {q : Rat} (hq0 : 0 ≤ q) (hq1 : q < 1) {V : Mat Rat} {tgt : List Nat} (hV : votesOk V = true) :
    ∀ (fuel : Nat) (s : State) (nt : Nat) (ups : List Rat) (e : Err),
      stateOk q V s = true → run q ord V tgt fuel s nt ups = .error e →
      e = .votingSystemError ∨ e = .other "OutOfFuel"
  | 0, _, _, _, e, _, h => by simp only [run, Except.error.injEq] at h; exact Or.inr h.symm
  | fuel+1, s, nt, ups, e, hok, h => by
    obtain ⟨hs, hinv⟩ := stateOk_iff.mp hok
    simp only [run] at h
    rcases step_crash_free (ord := ord) (tgt := tgt) hq0 hok with ⟨r, hr⟩ | hr
    · rw [hr] at h
      cases r with
      | done => simp at h
      | transfer s' =>
        simp only at h
        obtain ⟨hs', hinv', _⟩ := transfer_preserves_inv hs hinv hr
        exact run_crash_free hq0 hq1 hV fuel s' _ _ e (stateOk_iff.mpr ⟨hs', hinv'⟩) h
      | update s' cf =>
        simp only at h
        obtain ⟨hx, _, _, hinv'⟩ := update_preserves_inv hq1 hV hinv hr
        exact run_crash_free hq0 hq1 hV fuel s' _ _ e (stateOk_iff.mpr ⟨by rw [hx]; exact hs, hinv'⟩) h
    · rw [hr] at h
      simp only [Except.error.injEq] at h
      exact Or.inl h.symm

/-- **The ported evaluator cannot crash** (both rules, any size): its only errors are the refusal, running out of fuel,
    and the two declared outcomes of the initialisation (`ValueError` of `HighestAverages` for zero seats / no candidate,
    a tie in a marginal apportionment — outside the property's domain). -/
theorem evaluate_crash_free {div : Nat → Rat} {q : Rat} (hdiv : SignpostDiv div q) {V : Mat Rat} {total fuel : Nat}
    {rows : Option (List Nat)} {e : Err} (hV : votesOk V = true) (hpos : hasVotes V = true)
    (h : evaluate div q ord V total rows fuel = .error e) :
    e = .votingSystemError ∨ e = .other "OutOfFuel" ∨ e = .other "ValueError" ∨ e = .other "MarginalTie" := by
  unfold evaluate at h
  cases hs0 : initState div q V total with
  | error e' =>
    rw [hs0] at h
    simp only [Except.error.injEq] at h
    subst h
    rcases initState_error_eq hs0 with h1 | h1
    · exact Or.inr (Or.inr (Or.inl h1))
    · exact Or.inr (Or.inr (Or.inr h1))
  | ok s0 =>
    rw [hs0] at h
    simp only at h
    have hok := initState_ok hdiv hV hpos hs0
    cases rows with
    | some l =>
      simp only at h
      rcases run_crash_free hdiv.q_nonneg hdiv.q_lt_one hV fuel s0 0 [] e hok h with h1 | h1
      · exact Or.inl h1
      · exact Or.inr (Or.inl h1)
    | none =>
      simp only at h
      cases hd : districtSeats div V total with
      | error e' =>
        rw [hd] at h
        simp only [Except.error.injEq] at h
        subst h
        rcases districtSeats_error_eq hd with h1 | h1
        · exact Or.inr (Or.inr (Or.inl h1))
        · exact Or.inr (Or.inr (Or.inr h1))
      | ok tgt =>
        rw [hd] at h
        simp only at h
        rcases run_crash_free hdiv.q_nonneg hdiv.q_lt_one hV fuel s0 0 [] e hok h with h1 | h1
        · exact Or.inl h1
        · exact Or.inr (Or.inl h1)

/-! ### Part 5 — termination of the port -/

/-- **Transfer passes are counted by the flaw count.**  A transfer lowers `flaw` = Σ_i |seats of district i − target i|
    by exactly 2 and an update leaves it alone. -/
theorem transfer_lowers_flaw {q : Rat} {V : Mat Rat} {tgt : List Nat} {s s' : State}
    (hok : shapeOk s.x V.length (nCols V) = true) (h : step q ord V tgt s = .ok (.transfer s')) :
    flaw tgt s'.x V.length + 2 = flaw tgt s.x V.length := transfer_flaw hok h

theorem update_keeps_flaw {q : Rat} {V : Mat Rat} {tgt : List Nat} {s s' : State} {c : Rat}
    (h : step q ord V tgt s = .ok (.update s' c)) : flaw tgt s'.x V.length = flaw tgt s.x V.length := update_flaw h

/-- **Every pass lowers the termination measure** `potential` = (flaw / 2) · (m + n + 2) + room left for labels:
    a transfer lowers the flaw count, a multiplier update enlarges the labelling of the next pass (the cell that
    attains the adjustment coefficient becomes a tie) or lets it reach an under-represented district. -/
theorem pass_lowers_potential {q : Rat} (hq : q = 0 ∨ q = 1/2) {V : Mat Rat} {tgt : List Nat} {s : State}
    (hV : votesOk V = true) (hcov : ordCovers ord V = true) (hok : stateOk q V s = true) :
    (∀ s', step q ord V tgt s = .ok (.transfer s') → potential q ord V tgt s' < potential q ord V tgt s) ∧
    (∀ s' c, step q ord V tgt s = .ok (.update s' c) → potential q ord V tgt s' < potential q ord V tgt s) := by
  obtain ⟨hs, hinv⟩ := stateOk_iff.mp hok
  exact ⟨fun s' h => transfer_potential hs h,
         fun s' c h => update_potential hq (votesOk_nonneg hV) hcov hinv h⟩

/-- **The loop terminates.**  From a consistent state, with more fuel than the measure of the state, a run ends — with a
    seat matrix or with the refusal; it never runs out of fuel.  The measure is at most
    `(flaw / 2 + 1) · (districts + parties + 2)` (`potential_le`). -/
theorem run_terminates {q : Rat} (hq : q = 0 ∨ q = 1/2) {V : Mat Rat} {tgt : List Nat}
    (hV : votesOk V = true) (hcov : ordCovers ord V = true) :
    ∀ (fuel : Nat) (s : State) (nt : Nat) (ups : List Rat),
      stateOk q V s = true → potential q ord V tgt s < fuel →
      (∃ o, run q ord V tgt fuel s nt ups = .ok o) ∨ run q ord V tgt fuel s nt ups = .error .votingSystemError
  | 0, _, _, _, _, hf => by omega
  | fuel+1, s, nt, ups, hok, hf => by
    have hq0 : 0 ≤ q := by rcases hq with rfl | rfl <;> norm_num
    have hq1 : q < 1 := by rcases hq with rfl | rfl <;> norm_num
    obtain ⟨hs, hinv⟩ := stateOk_iff.mp hok
    obtain ⟨hT, hU⟩ := pass_lowers_potential (ord := ord) (tgt := tgt) hq hV hcov hok
    simp only [run]
    rcases step_crash_free (ord := ord) (tgt := tgt) hq0 hok with ⟨r, hr⟩ | hr
    · rw [hr]
      cases r with
      | done => exact Or.inl ⟨_, rfl⟩
      | transfer s' =>
        simp only
        obtain ⟨hs', hinv', _⟩ := transfer_preserves_inv hs hinv hr
        have := hT s' hr
        exact run_terminates hq hV hcov fuel s' _ _ (stateOk_iff.mpr ⟨hs', hinv'⟩) (by omega)
      | update s' cf =>
        simp only
        obtain ⟨hx, _, _, hinv'⟩ := update_preserves_inv hq1 hV hinv hr
        have := hU s' cf hr
        exact run_terminates hq hV hcov fuel s' _ _ (stateOk_iff.mpr ⟨by rw [hx]; exact hs, hinv'⟩) (by omega)
    · rw [hr]; exact Or.inr rfl

/-- **The ported evaluator terminates**: with fuel above `(flaw₀ / 2 + 1) · (districts + parties + 2)`, where `flaw₀` is the
    flaw count of the initial party-proportional solution, `evaluate` never reports `OutOfFuel` — it returns a seat
    matrix (correct by `evaluate_sound`), refuses (justified by `evaluate_refusal_justified`) or reports one of the two
    declared outcomes of the initialisation. -/
theorem evaluate_terminates {div : Nat → Rat} {q : Rat} (hdiv : SignpostDiv div q) (hq : q = 0 ∨ q = 1/2)
    {V : Mat Rat} {total fuel : Nat} {rows : Option (List Nat)} (hV : votesOk V = true) (hpos : hasVotes V = true)
    (hcov : ordCovers ord V = true)
    (hfuel : ∀ s0 tgt, initState div q V total = .ok s0 →
      (rows = some tgt ∨ (rows = none ∧ districtSeats div V total = .ok tgt)) →
      (flaw tgt s0.x V.length / 2 + 1) * (V.length + nCols V + 2) < fuel) :
    evaluate div q ord V total rows fuel ≠ .error (.other "OutOfFuel") := by
  intro h
  unfold evaluate at h
  cases hs0 : initState div q V total with
  | error e =>
    rw [hs0] at h
    simp only [Except.error.injEq] at h
    rcases initState_error_eq hs0 with h1 | h1 <;> rw [h1] at h <;> simp at h
  | ok s0 =>
    rw [hs0] at h
    simp only at h
    have hok := initState_ok hdiv hV hpos hs0
    have key : ∀ tgt, (rows = some tgt ∨ (rows = none ∧ districtSeats div V total = .ok tgt)) →
        run q ord V tgt fuel s0 0 [] ≠ .error (.other "OutOfFuel") := by
      intro tgt htgt hrun
      have hf := lt_of_le_of_lt (potential_le (ord := ord) q V tgt s0) (hfuel s0 tgt hs0 htgt)
      rcases run_terminates hq hV hcov fuel s0 0 [] hok hf with ⟨o, ho⟩ | hr
      · rw [ho] at hrun; simp at hrun
      · rw [hr] at hrun; simp at hrun
    cases rows with
    | some l =>
      simp only at h
      exact key l (Or.inl rfl) h
    | none =>
      simp only at h
      cases hd : districtSeats div V total with
      | error e =>
        rw [hd] at h
        simp only [Except.error.injEq] at h
        rcases districtSeats_error_eq hd with h1 | h1 <;> rw [h1] at h <;> simp at h
      | ok tgt =>
        rw [hd] at h
        simp only at h
        exact key tgt (Or.inr ⟨rfl, hd⟩) h

/-! ### the party order `all_parties` -/

private theorem fa_inner (row : List Bool) : ∀ (k : Nat) (acc : List Nat),
    let r := (List.range k).foldl (fun acc j => if row.getD j false && !acc.contains j then acc ++ [j] else acc) acc
    (∀ a ∈ acc, a ∈ r) ∧ ∀ j < k, row.getD j false = true → j ∈ r := by
  intro k
  induction k with
  | zero => intro acc; exact ⟨fun a ha => ha, fun j hj => by omega⟩
  | succ k ih =>
    intro acc
    rw [List.range_succ, List.foldl_append]
    obtain ⟨h1, h2⟩ := ih acc
    simp only [List.foldl_cons, List.foldl_nil]
    split
    · refine ⟨fun a ha => List.mem_append_left _ (h1 a ha), fun j hj hp => ?_⟩
      rcases Nat.lt_succ_iff_lt_or_eq.mp hj with h | h
      · exact List.mem_append_left _ (h2 j h hp)
      · subst h; simp
    · rename_i hc
      refine ⟨h1, fun j hj hp => ?_⟩
      rcases Nat.lt_succ_iff_lt_or_eq.mp hj with h | h
      · exact h2 j h hp
      · subst h
        simp only [Bool.and_eq_true, Bool.not_eq_true', not_and, Bool.not_eq_false] at hc
        have := hc hp
        simpa using this

private theorem fa_outer : ∀ (present : List (List Bool)) (acc : List Nat),
    let r := present.foldl (fun acc row =>
      (List.range row.length).foldl (fun acc j => if row.getD j false && !acc.contains j then acc ++ [j] else acc) acc) acc
    (∀ a ∈ acc, a ∈ r) ∧ ∀ row ∈ present, ∀ j < row.length, row.getD j false = true → j ∈ r
  | [], acc => ⟨fun a ha => ha, fun row hr => by simp at hr⟩
  | row :: rest, acc => by
    simp only [List.foldl_cons]
    obtain ⟨i1, i2⟩ := fa_inner row row.length acc
    obtain ⟨o1, o2⟩ := fa_outer rest _
    refine ⟨fun a ha => o1 a (i1 a ha), fun row' hr' j hj hp => ?_⟩
    rcases List.mem_cons.mp hr' with rfl | hr'
    · exact o1 j (i2 j hj hp)
    · exact o2 row' hr' j hj hp

/-- **The first-appearance order covers every party with votes** whenever the presence mask fits the matrix; so the
    hypothesis `ordCovers` of the refusal theorems holds for the order the driver computes from a sparse input. -/
theorem firstAppearance_covers {present : List (List Bool)} {V : Mat Rat} (h : maskOk present V = true) :
    ordCovers (firstAppearance present) V = true := by
  simp only [maskOk, Bool.and_eq_true, beq_iff_eq, List.all_eq_true, List.mem_range, Bool.or_eq_true] at h
  obtain ⟨hlen, hcells⟩ := h
  simp only [ordCovers, List.all_eq_true, List.mem_range, Bool.or_eq_true, beq_iff_eq]
  intro r hr j hj
  obtain ⟨i, hi, rfl⟩ := List.mem_iff_getElem.mp hr
  obtain ⟨hl, hc⟩ := hcells i hi
  have hVi : V.getD i [] = V[i] := by
    rw [List.getD_eq_getElem?_getD, List.getElem?_eq_getElem hi]; rfl
  rw [hVi] at hl hc
  rcases hc j hj with h0 | h0
  · left; exact h0
  · right
    have hpi : i < present.length := by omega
    have hPi : present.getD i [] = present[i] := by
      rw [List.getD_eq_getElem?_getD, List.getElem?_eq_getElem hpi]; rfl
    rw [hPi] at hl h0
    have := (fa_outer present []).2 (present[i]) (List.getElem_mem hpi) j (by omega) h0
    simpa [firstAppearance] using this

/-- a full matrix: the order `0, 1, …, n-1` covers everything -/
theorem ordCovers_range {V : Mat Rat} (h : shapeOk V V.length (nCols V) = true) :
    ordCovers (List.range (nCols V)) V = true := by
  simp only [ordCovers, List.all_eq_true, List.mem_range, Bool.or_eq_true, beq_iff_eq]
  intro r hr j hj
  right
  have := ((shapeOk_iff V _ _).mp h).2 r hr
  simp; omega

/-- a sparse input where the order matters: district 0 lists only parties 2, 3, 4 (party 0 and 1 are missing keys), so
    the parties are met in the order 2, 3, 4, 0, 1 -/
example : firstAppearance [[false, false, true, true, true], [true, false, false, true, true],
    [true, true, true, false, true], [true, true, false, true, true]] = [2, 3, 4, 0, 1] := by decide +kernel
example : firstAppearance [[true, true], [true, true]] = [0, 1] := by decide +kernel

/-- the order matters: on this sparse input the evaluator repaired for C07-O2 (first-appearance order 2,3,4,0,1) and an
    evaluator iterating the parties by index reach different — both valid — seat matrices -/
def exS : Mat Rat := [[0, 0, 1, 2, 2], [10, 0, 0, 2, 12], [10, 2, 6, 0, 3], [12, 8, 0, 6, 3]]
example : (evaluate Gen.Divisor.d_hondt 0 [2, 3, 4, 0, 1] exS 7 none 100).toOption.map (fun o => o.final.x)
    = some [[0, 0, 0, 0, 0], [1, 0, 0, 0, 1], [1, 0, 0, 0, 1], [1, 1, 0, 1, 0]] := by decide +kernel
example : (evaluate Gen.Divisor.d_hondt 0 [0, 1, 2, 3, 4] exS 7 none 100).toOption.map (fun o => o.final.x)
    = some [[0, 0, 0, 0, 0], [0, 0, 0, 0, 2], [2, 0, 0, 0, 0], [1, 1, 0, 1, 0]] := by decide +kernel
example : ordCovers [2, 3, 4, 0, 1] exS = true ∧ maskOk [[false, false, true, true, true], [true, false, false, true, true],
    [true, true, true, false, true], [true, true, false, true, true]] exS = true := by decide +kernel

/-! ### non-vacuity: concrete inputs that meet the hypotheses and exercise every branch -/

/-- the witness of fix 7aec924 (tie inside the per-party initial allocation, one transfer) -/
def exV : Mat Rat := [[3, 2], [5, 10], [3, 2]]

example : votesOk exV = true ∧ hasVotes exV = true := by decide +kernel
example : (initState Gen.Divisor.d_hondt 0 exV 10).toOption.map (stateOk 0 exV) = some true := by decide +kernel
example : (evaluate Gen.Divisor.d_hondt 0 [0, 1] exV 10 none 100).toOption.map (fun o => (o.final.x, o.transfers))
    = some ([[1, 1], [2, 4], [1, 1]], 1) := by decide +kernel
/-- its certificate passes the verified checker -/
example : bipropCheckL 0 exV [2, 6, 2] [4, 6] [[1, 1], [2, 4], [1, 1]] [1, 1, 1] [1/2, 1/2] = true := by
  decide +kernel
/-- a wrong matrix (district totals 2,7,1) is rejected -/
example : bipropCheckL 0 exV [2, 6, 2] [4, 6] [[1, 1], [2, 5], [1, 0]] [1, 1, 1] [1/2, 1/2] = false := by
  decide +kernel

/-- Sainte-Laguë, zero cells, one transfer and three multiplier updates -/
def exW : Mat Rat := [[30, 0, 5], [0, 20, 10], [7, 8, 40]]
example : votesOk exW = true ∧ hasVotes exW = true := by decide +kernel
example : (initState Gen.Divisor.sainte_lague (1/2) exW 9).toOption.map (stateOk (1/2) exW) = some true := by
  decide +kernel
example : (evaluate Gen.Divisor.sainte_lague (1/2) [0, 1, 2] exW 9 none 100).toOption.map
    (fun o => (o.final.x, o.final.dc, o.final.pc, o.updates))
    = some ([[3, 0, 0], [0, 1, 1], [0, 1, 3]], [1, 1, 6/7], [1/12, 7/96, 3/40], [12/13, 65/66, 33/35]) := by
  decide +kernel
example : bipropCheckL (1/2) exW [3, 2, 4] [3, 2, 4] [[3, 0, 0], [0, 1, 1], [0, 1, 3]] [1, 1, 6/7] [1/12, 7/96, 3/40]
    = true := by decide +kernel

/-- a justified refusal: district 0 votes only for party 0, which holds 2 seats, but is to get 4 -/
example : (evaluate Gen.Divisor.d_hondt 0 [0, 1] [[5, 0], [3, 9]] 6 (some [4, 2]) 100).toOption.isNone = true := by
  decide +kernel
/-- it is a `VotingSystemError` (the hypothesis of `evaluate_refusal_justified`), on a well-formed input -/
example : (match evaluate Gen.Divisor.d_hondt 0 [0, 1] [[5, 0], [3, 9]] 6 (some [4, 2]) 100 with
    | .error .votingSystemError => true
    | _ => false) = true ∧ votesOk [[5, 0], [3, 9]] = true ∧ hasVotes [[5, 0], [3, 9]] = true
      ∧ ordCovers [0, 1] [[5, 0], [3, 9]] = true := by
  decide +kernel
example : infeasibleCheckL [[5, 0], [3, 9]] [4, 2] [2, 4] [0] [0] = true := by decide +kernel
/-- the cut is rejected for a feasible instance -/
example : infeasibleCheckL [[5, 0], [3, 9]] [2, 4] [2, 4] [0] [0] = false := by decide +kernel

/-- the termination measure on the two examples: flaw 2 each; measure 7 resp. 14, far below the fuel 100 used above
    (the runs take 2 resp. 5 passes) -/
example : (initState Gen.Divisor.d_hondt 0 exV 10).toOption.map
    (fun s0 => (potential 0 [0, 1] exV [2, 6, 2] s0, flaw [2, 6, 2] s0.x 3)) = some (7, 2) := by decide +kernel
example : (initState Gen.Divisor.sainte_lague (1/2) exW 9).toOption.map
    (fun s0 => (potential (1/2) [0, 1, 2] exW [3, 2, 4] s0, flaw [3, 2, 4] s0.x 3)) = some (14, 2) := by decide +kernel
example : ordCovers [0, 1] exV = true ∧ ordCovers [0, 1, 2] exW = true := by decide +kernel

end VL.C07
