/-
  C07 — the biproportional result meets both marginals and is divisor-consistent.
  Property theorems only; namespace VL.C07.

  Reading (DESIGN.md C07).  A seat matrix `x` (districts × parties) is a correct answer for votes `v`, district
  targets `rowT`, party targets `colT` and signpost constant `q` iff its row sums are `rowT`, its column sums are
  `colT`, zero-vote cells hold no seat and positive multipliers `ρ`, `γ` exist with
  `isRounding q (v i j * ρ i * γ j) (x i j)` for every cell.  A refusal is justified iff no non-negative integer
  matrix with these marginals and zeros where the votes are zero exists.

  Part 1: soundness of the certificate checkers the harness applies to EVERY output of the real evaluator
          (any matrix size).  Part 2: theorems about the Lean port of tie-and-transfer.
-/
import VotelibProofs.Lemmas.Biprop
namespace VL.C07
open VL VL.Biprop Finset

/-! ### Part 1 — verified certificate checkers -/

/-- **Soundness of the result checker** (index-function form, any `m × n`). -/
theorem bipropCheck_sound (m n : Nat) (q : Rat) (votes : Nat → Nat → Rat) (rowT colT : Nat → Nat)
    (x : Nat → Nat → Nat) (ρ γ : Nat → Rat)
    (h : bipropCheck m n q votes rowT colT x ρ γ = true) :
    (∀ i < m, ∑ j ∈ range n, x i j = rowT i) ∧
    (∀ j < n, ∑ i ∈ range m, x i j = colT j) ∧
    (∀ i < m, ∀ j < n, votes i j = 0 → x i j = 0) ∧
    (∀ i < m, 0 < ρ i) ∧ (∀ j < n, 0 < γ j) ∧
    (∀ i < m, ∀ j < n, isRounding q (votes i j * ρ i * γ j) (x i j)) := by
  unfold bipropCheck at h
  simp only [Bool.and_eq_true, allN_iff, beq_iff_eq, decide_eq_true_eq, Bool.or_eq_true,
    Bool.not_eq_true', beq_eq_false_iff_ne, ne_eq] at h
  obtain ⟨⟨⟨⟨hr, hc⟩, hρ⟩, hγ⟩, hcell⟩ := h
  refine ⟨?_, ?_, ?_, hρ, hγ, ?_⟩
  · intro i hi; rw [← sumN_eq_sum]; exact hr i hi
  · intro j hj; rw [← sumN_eq_sum]; exact hc j hj
  · intro i hi j hj hv
    rcases (hcell i hi j hj).1 with h0 | h0
    · exact absurd hv h0
    · exact h0
  · intro i hi j hj; exact (hcell i hi j hj).2

/-- a zero-vote cell can only be rounded to zero seats when `q < 1` (both rules): the rounding clause alone
    already forbids seats without votes -/
theorem isRounding_zero_votes (q : Rat) (hq : q < 1) (x : Nat) (h : isRounding q 0 x) : x = 0 := by
  rcases h.1 with h0 | h0
  · exact h0
  · by_contra hx
    have : (1 : Rat) ≤ (x : Rat) := by exact_mod_cast Nat.one_le_iff_ne_zero.mpr hx
    linarith

/-- the signposts `k − q` of the checker are the divisor sequence of the code as it is now (generated from
    `component/divisor.py`): D'Hondt `d(k) = k + 1 = s(k+1)` with `q = 0` … -/
theorem d_hondt_signpost (k : Nat) : Gen.Divisor.d_hondt k = ((k + 1 : Nat) : Rat) - 0 := by
  simp [Gen.Divisor.d_hondt]

/-- … and Sainte-Laguë `d(k) = 2k + 1 = 2 · s(k+1)` with `q = 1/2` -/
theorem sainte_lague_signpost (k : Nat) : Gen.Divisor.sainte_lague k = 2 * (((k + 1 : Nat) : Rat) - 1/2) := by
  simp [Gen.Divisor.sainte_lague]; ring

/-- **Soundness of the infeasibility checker**: an accepted Hall cut excludes every non-negative integer matrix with
    the given marginals and zeros where the votes are zero (any `m × n`). -/
theorem infeasible_sound (m n : Nat) (votes : Nat → Nat → Rat) (rowT colT : Nat → Nat) (S T : Nat → Bool)
    (h : infeasibleCheck m n votes rowT colT S T = true) :
    ¬ ∃ x : Nat → Nat → Nat,
      (∀ i < m, ∑ j ∈ range n, x i j = rowT i) ∧
      (∀ j < n, ∑ i ∈ range m, x i j = colT j) ∧
      (∀ i < m, ∀ j < n, votes i j = 0 → x i j = 0) := by
  rintro ⟨x, hr, hc, hz⟩
  have hrow : ∑ i ∈ range m, (if S i then rowT i else 0)
      = ∑ i ∈ range m, ∑ j ∈ range n, (if S i then x i j else 0) := by
    apply Finset.sum_congr rfl
    intro i hi
    have hi' := Finset.mem_range.mp hi
    by_cases hs : S i = true
    · simp [hs, hr i hi']
    · simp [hs]
  have hcol : ∑ j ∈ range n, (if T j then colT j else 0)
      = ∑ i ∈ range m, ∑ j ∈ range n, (if T j then x i j else 0) := by
    rw [Finset.sum_comm]
    apply Finset.sum_congr rfl
    intro j hj
    have hj' := Finset.mem_range.mp hj
    by_cases ht : T j = true
    · simp [ht, hc j hj']
    · simp [ht]
  unfold infeasibleCheck at h
  simp only [Bool.or_eq_true, Bool.and_eq_true, allN_iff, decide_eq_true_eq, Bool.not_eq_true',
    beq_iff_eq, sumN_eq_sum] at h
  rcases h with ⟨hv, hlt⟩ | ⟨hv, hlt⟩
  · have hle : ∑ i ∈ range m, ∑ j ∈ range n, (if S i then x i j else 0)
        ≤ ∑ i ∈ range m, ∑ j ∈ range n, (if T j then x i j else 0) := by
      apply Finset.sum_le_sum; intro i hi
      apply Finset.sum_le_sum; intro j hj
      have hi' := Finset.mem_range.mp hi
      have hj' := Finset.mem_range.mp hj
      by_cases hs : S i = true
      · by_cases ht : T j = true
        · simp [hs, ht]
        · rcases hv i hi' j hj' with (h1 | h1) | h1
          · simp [hs] at h1
          · exact absurd h1 ht
          · simp [hz i hi' j hj' h1]
      · simp [hs]
    rw [hrow, hcol] at hlt
    omega
  · have hle : ∑ i ∈ range m, ∑ j ∈ range n, (if T j then x i j else 0)
        ≤ ∑ i ∈ range m, ∑ j ∈ range n, (if S i then x i j else 0) := by
      apply Finset.sum_le_sum; intro i hi
      apply Finset.sum_le_sum; intro j hj
      have hi' := Finset.mem_range.mp hi
      have hj' := Finset.mem_range.mp hj
      by_cases ht : T j = true
      · by_cases hs : S i = true
        · simp [hs, ht]
        · rcases hv i hi' j hj' with (h1 | h1) | h1
          · exact absurd h1 hs
          · simp [ht] at h1
          · simp [hz i hi' j hj' h1]
      · simp [ht]
    rw [hrow, hcol] at hlt
    omega

/-- **Soundness of the list front end** `bipropCheckL` — the function the driver runs on every output of the real
    evaluator (op `biprop_cert`): shapes agree and the seat matrix has the stated marginals, zero cells, positive
    multipliers and roundings. -/
theorem bipropCheckL_sound (q : Rat) (votes : Mat Rat) (rowT colT : List Nat) (x : Mat Nat) (ρ γ : List Rat)
    (h : bipropCheckL q votes rowT colT x ρ γ = true) :
    shapeOk votes rowT.length colT.length = true ∧ shapeOk x rowT.length colT.length = true ∧
    (∀ i < rowT.length, (x.getD i []).sum = rowT.getD i 0) ∧
    (∀ j < colT.length, (x.map (fun r => r.getD j 0)).sum = colT.getD j 0) ∧
    (∀ i < rowT.length, ∀ j < colT.length, vget votes i j = 0 → mget x i j = 0) ∧
    (∀ i < rowT.length, 0 < ρ.getD i 0) ∧ (∀ j < colT.length, 0 < γ.getD j 0) ∧
    (∀ i < rowT.length, ∀ j < colT.length,
      isRounding q (vget votes i j * ρ.getD i 0 * γ.getD j 0) (mget x i j)) := by
  unfold bipropCheckL at h
  simp only [Bool.and_eq_true] at h
  obtain ⟨⟨⟨⟨hsv, hsx⟩, _⟩, _⟩, hchk⟩ := h
  obtain ⟨hr, hc, hz, hρ, hγ, hcell⟩ := bipropCheck_sound _ _ _ _ _ _ _ _ _ hchk
  refine ⟨hsv, hsx, ?_, ?_, hz, hρ, hγ, hcell⟩
  · intro i hi
    rw [← hr i hi, ← sumN_eq_sum, ← sumN_getD, shapeOk_row hsx hi]
    rfl
  · intro j hj
    rw [← hc j hj, ← sumN_eq_sum, ← sumN_col, ((shapeOk_iff x _ _).mp hsx).1]

/-- **Soundness of the list front end** `infeasibleCheckL` (op `infeasible_cert`): no seat matrix of the right shape
    has these marginals and zeros where the votes are zero. -/
theorem infeasibleCheckL_sound (votes : Mat Rat) (rowT colT S T : List Nat)
    (h : infeasibleCheckL votes rowT colT S T = true) :
    ¬ ∃ x : Mat Nat, shapeOk x rowT.length colT.length = true ∧
      (∀ i < rowT.length, (x.getD i []).sum = rowT.getD i 0) ∧
      (∀ j < colT.length, (x.map (fun r => r.getD j 0)).sum = colT.getD j 0) ∧
      (∀ i < rowT.length, ∀ j < colT.length, vget votes i j = 0 → mget x i j = 0) := by
  unfold infeasibleCheckL at h
  simp only [Bool.and_eq_true] at h
  rintro ⟨x, hsx, hr, hc, hz⟩
  apply infeasible_sound _ _ _ _ _ _ _ h.2
  refine ⟨mget x, ?_, ?_, hz⟩
  · intro i hi
    rw [← hr i hi, ← sumN_eq_sum, ← sumN_getD, shapeOk_row hsx hi]
    rfl
  · intro j hj
    rw [← hc j hj, ← sumN_eq_sum, ← sumN_col, ((shapeOk_iff x _ _).mp hsx).1]

end VL.C07
