/-
  C03 — transferable-vote counts conserve votes and eliminate only the lowest.
  Property theorems only (helper lemmas live in VotelibProofs/Lemmas/STV*.lean).  Namespace VL.C03.

  Reading.  A *state* is an allocation a count starts from: the initial allocation and every
  `new_allocation` returned by `next_count` that is not the `{}` marker of the elect-all-remaining shortcut
  (`St.final = false`).  `Reach E cfg inp ds st` = `st` is the loop state of `nth_count` after some number of
  counts (any number: the theorems are by induction over counts).  Exhausted weight = the `None` pile plus
  the empty ballots (`emptyWeight`), seats filled by quota = `St.byQuota`.  `E` is the transferer:
  `gregory`, or `hare` fed with an arbitrary stream of `distribute_n_random` answers of which the model
  *checks the DrawOK contract at every draw* (a run that is `.ok` has only seen answers inside the contract;
  see `hare_draws_in_contract`).  Every theorem holds for all profiles, seat numbers, configurations,
  previous gains and maximum seats (selector and distributor form) — no size bound anywhere.
-/
import VotelibProofs.Lemmas.STVItem
import VotelibModel.Gen.Quota
namespace VL.C03
open VL VL.STV

/-! ## the transferers -/

/-- **`Gregory._subtract` scales a pile exactly**: a pile holding `t ≥ n` keeps `t − n`. -/
theorem gregory_subtract_exact {p p' : Pile} {n : Rat} (h : gregorySubtract p n = .ok p') (hn : n ≤ pileTotal p) :
    pileTotal p' = pileTotal p - n := gregorySubtract_total h hn

/-- Gregory's equal-rank split gives every target exactly `w / #targets`, and the shares add up to `w`. -/
theorem gregory_split_equal (ts : List Cand) (w : Rat) (hts : ts ≠ []) :
    (∀ x ∈ gregorySplit ts w, x.2 = w / (ts.length : Rat)) ∧ (gregorySplit ts w).map (·.1) = ts ∧
    ((gregorySplit ts w).map (·.2)).sum = w := by
  refine ⟨gregorySplit_equal ts w, by simp [gregorySplit, List.map_map, Function.comp_def], ?_⟩
  exact gregory_ok.split_sum (ds := []) rfl hts

/-- Both transferers meet the specification the count theorems rely on (exact subtraction, exact split,
    no negative weight, no new ballot). -/
theorem gregory_meets_spec : EngineOK gregory := gregory_ok
theorem hare_meets_spec : EngineOK hare := hare_ok

/-- A Hare subtraction that goes through consumed an answer inside the DrawOK contract (non-negative
    amounts for papers of the pile, none above the paper's weight, adding up to the number asked for),
    and removed exactly that. -/
theorem hare_draws_in_contract {p p' : Pile} {n : Rat} {ds ds' : List Draw}
    (h : hareSubtract p n ds = .ok (p', ds')) :
    ∃ ans, ds = .papers ans :: ds' ∧ papersOK ans p n = true ∧ p' = hareApply ans p := by
  unfold hareSubtract at h
  split at h
  · rename_i ans ds1
    split at h
    · rename_i hok
      injection h with h; injection h with h1 h2
      exact ⟨ans, by rw [h2], hok, h1.symm⟩
    · cases h
  · cases h

/-- … and an answer outside the contract is the outcome `DrawContract`, never a silently wrong count. -/
theorem hare_draw_outside_contract {p : Pile} {n : Rat} {ans : List (Ballot × Rat)} {ds : List Draw}
    (h : papersOK ans p n = false) : hareSubtract p n (.papers ans :: ds) = .error drawErr := by
  simp [hareSubtract, h]

/-! ## conservation -/

/-- **Conservation, every count.**  After any number of counts, the votes held by continuing candidates
    and the exhausted pile (`held`), plus the empty ballots, plus one quota per seat filled by quota, equal
    the votes cast — exactly. -/
theorem conservation {E : Engine} (hE : EngineOK E) {cfg : Cfg} {inp : Input} {ds : List Draw} {st : St}
    (hr : Reach E cfg inp ds st) (hf : st.final = false) :
    held st.alloc + emptyWeight inp.votes + runQuota cfg inp * (st.byQuota : Rat) = totalVotes inp.votes :=
  (reach_inv hE hr).cons hf

/-- the same for the executable loop: `k` counts of `nth_count`, any `k` -/
theorem conservation_runCounts {E : Engine} (hE : EngineOK E) {cfg : Cfg} {inp : Input} {ds : List Draw} {k : Nat}
    {st0 st : St} (h0 : initState E inp ds = .ok st0) (hk : runCounts E cfg inp k st0 = .ok st)
    (hf : st.final = false) :
    held st.alloc + emptyWeight inp.votes + runQuota cfg inp * (st.byQuota : Rat) = totalVotes inp.votes :=
  conservation hE ((Reach.init h0).runCounts hk) hf

theorem conservation_gregory {cfg : Cfg} {inp : Input} {ds : List Draw} {st : St}
    (hr : Reach gregory cfg inp ds st) (hf : st.final = false) :
    held st.alloc + emptyWeight inp.votes + runQuota cfg inp * (st.byQuota : Rat) = totalVotes inp.votes :=
  conservation gregory_ok hr hf

/-- Hare (random) transfer under the DrawOK contract -/
theorem conservation_hare {cfg : Cfg} {inp : Input} {ds : List Draw} {st : St}
    (hr : Reach hare cfg inp ds st) (hf : st.final = false) :
    held st.alloc + emptyWeight inp.votes + runQuota cfg inp * (st.byQuota : Rat) = totalVotes inp.votes :=
  conservation hare_ok hr hf

/-- one count: what the new allocation holds plus the quotas of the seats just filled is what the old held -/
theorem conservation_step {E : Engine} (hE : EngineOK E) {cfg : Cfg} {inp : Input} {ds : List Draw} {st : St}
    (hr : Reach E cfg inp ds st) (hf : st.final = false) {out : CountOut} {ds' : List Draw}
    (h : nextCount E cfg st.alloc inp.nSeats (totalVotes inp.votes) st.seats inp.maxS st.draws = .ok (out, ds'))
    (hs : out.shortcut = false) :
    held out.alloc + runQuota cfg inp * (sumSeats out.elected : Rat) = held st.alloc :=
  (count_inv hE ((reach_inv hE hr).keys hf) h hs).held_eq

/-- every state printed by the count-by-count trace of the driver is such a state -/
theorem trace_states_reached {E : Engine} {cfg : Cfg} {inp : Input} {ds : List Draw} {st0 : St}
    (h0 : initState E inp ds = .ok st0) (k : Nat) :
    ∀ s ∈ (traceGo E cfg inp k st0 []).1, Reach E cfg inp ds s :=
  traceGo_reach k st0 [] (.init h0) (fun _ h => by cases h)

/-! ## no negative weight -/

/-- **No ballot weight is negative**, at any count (vote counts of the profile non-negative). -/
theorem weights_nonneg {E : Engine} (hE : EngineOK E) {cfg : Cfg} {inp : Input} {ds : List Draw} {st : St}
    (hwf : WFVotes inp.votes) (hr : Reach E cfg inp ds st) (hf : st.final = false) :
    ∀ hp ∈ st.alloc, ∀ bw ∈ hp.2, 0 ≤ bw.2 :=
  (reach_inv hE hr).nonneg hwf hf

/-! ## a ballot rests with its highest-ranked continuing candidate -/

/-- what `topCont` is: the first candidate on the ballot that continues, `none` iff none continues -/
theorem topCont_some_iff {b : Ballot} {cont : List Cand} {c : Cand} :
    topCont b cont = some c ↔
      ∃ pre post, ballotCands b = pre ++ c :: post ∧ c ∈ cont ∧ ∀ x ∈ pre, x ∉ cont := by
  unfold topCont
  rw [List.find?_eq_some_iff_append]
  simp only [decide_eq_true_eq, Bool.not_eq_eq_eq_not, Bool.not_true, decide_eq_false_iff_not]
  constructor
  · rintro ⟨hc, pre, post, he, hpre⟩; exact ⟨pre, post, he, hc, hpre⟩
  · rintro ⟨pre, post, he, hc, hpre⟩; exact ⟨hc, pre, post, he, hpre⟩

theorem topCont_none_iff {b : Ballot} {cont : List Cand} :
    topCont b cont = none ↔ ∀ x ∈ ballotCands b, x ∉ cont := by
  unfold topCont
  rw [List.find?_eq_none]
  simp

/-- **Top continuing candidate.**  At every count, every paper whose ballot has no shared rank rests with
    the highest-ranked candidate on it that is still continuing (a key of the allocation), and lies on the
    exhausted pile (`none`) only when no candidate on it continues. -/
theorem rests_with_top_continuing {E : Engine} (hE : EngineOK E) {cfg : Cfg} {inp : Input} {ds : List Draw} {st : St}
    (hr : Reach E cfg inp ds st) (hf : st.final = false) :
    ∀ hp ∈ st.alloc, ∀ bw ∈ hp.2, noShared bw.1 = true → hp.1 = topCont bw.1 (continuing st.alloc) :=
  (reach_inv hE hr).rests hf

/-- in particular: exhausted only when none remains -/
theorem exhausted_only_when_none_remains {E : Engine} (hE : EngineOK E) {cfg : Cfg} {inp : Input} {ds : List Draw}
    {st : St} (hr : Reach E cfg inp ds st) (hf : st.final = false) {p : Pile} (hp : (none, p) ∈ st.alloc)
    {bw : Ballot × Rat} (hbw : bw ∈ p) (hns : noShared bw.1 = true) :
    ∀ c ∈ ballotCands bw.1, c ∉ continuing st.alloc :=
  topCont_none_iff.mp (rests_with_top_continuing hE hr hf _ hp bw hbw hns).symm

/-- The same for ballots that do have shared ranks further down: as long as a candidate ranked before the
    first shared rank of the ballot continues, the paper rests with the first such candidate
    (`strictPre b` = the ranks of `b` before its first shared rank). -/
theorem rests_with_top_of_strict_prefix {E : Engine} (hE : EngineOK E) {cfg : Cfg} {inp : Input} {ds : List Draw}
    {st : St} (hr : Reach E cfg inp ds st) (hf : st.final = false) :
    ∀ hp ∈ st.alloc, ∀ bw ∈ hp.2, ∀ t, topCont (strictPre bw.1) (continuing st.alloc) = some t → hp.1 = some t :=
  reach_restsPre hE hr hf

/-- what `topItem` is: the first rank of the ballot with a continuing member -/
theorem topItem_some_iff {b : Ballot} {cont : List Cand} {it : RankItem} :
    topItem b cont = some it ↔ ∃ pre post, b = pre ++ it :: post ∧ (∃ c ∈ itemCands it, c ∈ cont) ∧
      ∀ it' ∈ pre, ∀ c ∈ itemCands it', c ∉ cont := by
  unfold topItem
  rw [List.find?_eq_some_iff_append]
  simp only [itemLive, List.any_eq_true, decide_eq_true_eq, Bool.not_eq_eq_eq_not, Bool.not_true,
    List.any_eq_false, decide_eq_false_iff_not]
  constructor
  · rintro ⟨hl, pre, post, he, hpre⟩; exact ⟨pre, post, he, hl, hpre⟩
  · rintro ⟨pre, post, he, hl, hpre⟩; exact ⟨hl, pre, post, he, hpre⟩

/-- **Top continuing candidate, ballots with shared ranks included** (code as of commit 4eda093).  At every
    count every paper — whatever its ballot — rests with a continuing member of the highest rank of the ballot
    that still has a continuing member, and lies on the exhausted pile exactly when no rank has one. -/
theorem rests_with_top_rank {E : Engine} (hE : EngineOK E) {cfg : Cfg} {inp : Input} {ds : List Draw}
    {st : St} (hr : Reach E cfg inp ds st) (hf : st.final = false) :
    ∀ hp ∈ st.alloc, ∀ bw ∈ hp.2,
      match topItem bw.1 (continuing st.alloc) with
      | none => hp.1 = none
      | some it => ∃ t, hp.1 = some t ∧ t ∈ itemCands it :=
  reach_restsItem hE hr hf

/-- **A shared first rank divides the weight equally under fractional transfer.**  In the initial
    allocation (Gregory), the weight of a ballot whose first rank is shared by the candidates `cs` (at least two,
    distinct; ballots of the profile distinct, as the keys of a dict are) rests with each member of `cs` at
    exactly `w / #cs` and with no other candidate.  `wP P a h` is the weight of the papers of class `P` in the
    pile of `h`. -/
theorem shared_first_rank_divides_equally {votes : Profile} (hnd : (votes.map (·.1)).Nodup) {cs : List Cand}
    {rest : Ballot} {w : Rat} (hbw : (RankItem.shared cs :: rest, w) ∈ votes) (hcs : cs.Nodup) (hlen : 2 ≤ cs.length)
    {ds ds' : List Draw} {a0 : Alloc} (h : initialAllocation gregory votes ds = .ok (a0, ds')) (c : Cand) :
    pileTotal ((allocPile a0 (some c)).filter (fun bw => decide (bw.1 = RankItem.shared cs :: rest))) =
      if c ∈ cs then w / (cs.length : Rat) else 0 :=
  shared_first_split hnd hbw hcs hlen h c

/-! ## election only by quota or last standing -/

/-- **Election discipline.**  A count elects either through the elect-all-remaining shortcut — only without
    `mandatory_quota`, then exactly the continuing candidates are elected and the seats are exactly filled —
    or by quota: then a finite positive quota `q` is in force and every elected candidate continues, gets
    `k ≥ 1` seats and holds at least `k·q` votes (and stays within its maximum). -/
theorem elected_only_by_quota_or_last_standing {E : Engine} (hE : EngineOK E) {cfg : Cfg} {inp : Input}
    {ds : List Draw} {st : St} (hr : Reach E cfg inp ds st) (hf : st.final = false) {out : CountOut} {ds' : List Draw}
    (h : nextCount E cfg st.alloc inp.nSeats (totalVotes inp.votes) st.seats inp.maxS st.draws = .ok (out, ds')) :
    (out.shortcut = true ∧ cfg.mandatory = false ∧ out.elected.map (·.1) = (sortDesc (totalsInPlay st.alloc)).map (·.1) ∧
        (∀ c, c ∈ out.elected.map (·.1) ↔ c ∈ continuing st.alloc) ∧
        sumSeats st.seats + sumSeats out.elected = inp.nSeats) ∨
    (out.shortcut = false ∧ ∀ ck ∈ out.elected, ∃ q, computeQuota cfg (totalVotes inp.votes) inp.nSeats = some q ∧ 0 < q ∧
        ck.1 ∈ continuing st.alloc ∧ 1 ≤ ck.2 ∧ (ck.2 : Rat) * q ≤ totalOf st.alloc ck.1 ∧
        ∀ k, maxGet inp.maxS ck.1 = some k → seatsGet st.seats ck.1 + ck.2 ≤ k) := by
  have hk := (reach_inv hE hr).keys hf
  obtain ⟨hle, hcase⟩ := nextCount_cases h
  cases hcase with
  | shortcut hs he =>
    left
    obtain ⟨_, h2, _, _, h5, _⟩ := electAll_spec he
    have hm : cfg.mandatory = false := by
      unfold shortcutCond at hs
      simp only [Bool.and_eq_true, Bool.not_eq_true'] at hs
      exact hs.2
    have hkeys : out.elected.map (·.1) = (sortDesc (totalsInPlay st.alloc)).map (·.1) := by
      rw [h5]; simp [availSeats, List.map_map, Function.comp_def]
    refine ⟨h2, hm, hkeys, ?_, shortcut_fills hs he hle⟩
    intro c
    rw [hkeys, ← keys_totalsInPlay]
    exact ((sortDesc_perm (totalsInPlay st.alloc)).map (·.1)).mem_iff
  | election qv hq hpos el hel hne hout =>
    right
    obtain ⟨_, _, _, _, he1, _, he3⟩ := afterElection_inv hout
    refine ⟨he3, ?_⟩
    intro ck hck
    rw [he1] at hck
    exact ⟨qv, hq, hpos, (election_facts hk hpos hel).2 ck hck⟩
  | elimination _ hout =>
    right
    obtain ⟨_, _, _, _, he1, he2⟩ := afterElimination_inv hout
    exact ⟨he2, by rw [he1]; intro ck hck; cases hck⟩

/-! ## elimination of exactly the configured number of lowest continuing candidates -/

/-- `_retained_count` for a negative `eliminate_step` -/
theorem retained_count_formula {s : Int} (hs : s < 0) (len : Nat) :
    (retainedCount s len : Int) = max ((len : Int) + s) 1 := retainedCount_neg hs len

/-- **Elimination discipline.**  When a count elects nobody (and is not the shortcut), with
    `eliminate_step = s < 0`: the eliminated candidates are continuing candidates, their number is exactly
    `#continuing − max(#continuing + s, 1)`, each of them holds strictly fewer votes than every continuing
    candidate that is kept, the new continuing set is the old one without them — and the exhausted pile
    stays in place. -/
theorem eliminates_exactly_lowest {E : Engine} (hE : EngineOK E) {cfg : Cfg} {inp : Input} {ds : List Draw} {st : St}
    (hr : Reach E cfg inp ds st) (hf : st.final = false) {out : CountOut} {ds' : List Draw}
    (h : nextCount E cfg st.alloc inp.nSeats (totalVotes inp.votes) st.seats inp.maxS st.draws = .ok (out, ds'))
    (hs : out.shortcut = false) (hel : out.elected = []) {s : Int} (hstep : cfg.step = some s) (hneg : s < 0) :
    (∀ x ∈ out.eliminated, x ∈ continuing st.alloc) ∧
    out.eliminated.length = (continuing st.alloc).length - retainedCount s (continuing st.alloc).length ∧
    (∀ x ∈ out.eliminated, ∀ y ∈ continuing st.alloc, y ∉ out.eliminated → totalOf st.alloc x < totalOf st.alloc y) ∧
    continuing out.alloc = (continuing st.alloc).filter (fun c => decide (c ∉ out.eliminated)) ∧
    (none ∈ allocKeys st.alloc → none ∈ allocKeys out.alloc) := by
  have hk := (reach_inv hE hr).keys hf
  have hci := count_inv hE hk h hs
  obtain ⟨_, hcase⟩ := nextCount_cases h
  have hnd : ((totalsInPlay st.alloc).map (·.1)).Nodup := by rw [keys_totalsInPlay]; exact continuing_nodup hk
  have hout : afterElimination E st.alloc cfg.step st.draws = .ok (out, ds') := by
    cases hcase with
    | shortcut hs' he => rw [(electAll_spec he).2.1] at hs; cases hs
    | election qv hq hpos el hel' hne hout =>
      obtain ⟨_, _, _, _, he1, _, _⟩ := afterElection_inv hout
      exact absurd (he1 ▸ hel) hne
    | elimination _ hout => exact hout
  obtain ⟨retained, hsel, he, _, _, _⟩ := afterElimination_inv hout
  rw [hstep] at hsel
  have hes := elim_spec hneg hsel
  rw [← he] at hes
  refine ⟨?_, ?_, ?_, hci.cont_eq, hci.keep_none⟩
  · intro x hx; rw [← keys_totalsInPlay]; exact hes.sub x hx
  · have := hes.count hnd
    rw [← keys_totalsInPlay, List.length_map]; exact this
  · intro x hx y hy hyn
    have hx' := hes.sub x hx
    rw [← keys_totalsInPlay] at hy
    obtain ⟨px, hpx, hxe⟩ := List.mem_map.mp hx'
    obtain ⟨py, hpy, hye⟩ := List.mem_map.mp hy
    have h1 := totalsInPlay_total hk hpx
    have h2 := totalsInPlay_total hk hpy
    have := hes.lowest hnd x hx y hy hyn px.2 py.2 (by rw [← hxe]; exact hpx) (by rw [← hye]; exact hpy)
    unfold totalOf
    rw [← hxe, ← hye, ← h1, ← h2]; exact this

/-- **The exhausted pile is never a contender.**  Who is retained at an elimination does not depend on the
    exhausted pile at all: replacing its content by anything leaves the ranking of the contenders unchanged. -/
theorem exhausted_pile_never_contender (a : Alloc) (p' : Pile) (step : Option Int) :
    selectRetained step (totalsInPlay (allocSetPile a none p')) = selectRetained step (totalsInPlay a) := by
  have : totalsInPlay (allocSetPile a none p') = totalsInPlay a := by
    induction a with
    | nil => rfl
    | cons y ys ih =>
      obtain ⟨h, p⟩ := y
      cases h with
      | none => simp [allocSetPile, totalsInPlay]
      | some c =>
        simp only [allocSetPile, reduceCtorEq, if_false, totalsInPlay, List.filterMap_cons] at ih ⊢
        rw [ih]
  rw [this]

/-- After an election by quota the only candidates removed are those just elected that reached their maximum. -/
theorem removed_after_election_are_elected {E : Engine} {cfg : Cfg} {a : Alloc} {nSeats : Nat} {total : Rat}
    {prev maxS : Seats} {ds ds' : List Draw} {out : CountOut}
    (h : nextCount E cfg a nSeats total prev maxS ds = .ok (out, ds')) (hs : out.shortcut = false)
    (hne : out.elected ≠ []) :
    out.eliminated = fullyElected out.elected prev maxS ∧ ∀ c ∈ out.eliminated, c ∈ out.elected.map (·.1) := by
  obtain ⟨_, hcase⟩ := nextCount_cases h
  cases hcase with
  | shortcut hs' he => rw [(electAll_spec he).2.1] at hs; cases hs
  | election qv hq hpos el hel hne' hout =>
    obtain ⟨_, _, _, _, he1, he2, _⟩ := afterElection_inv hout
    rw [he1, he2]
    refine ⟨rfl, ?_⟩
    intro c hc
    unfold fullyElected at hc
    obtain ⟨ck, hck, rfl⟩ := List.mem_map.mp hc
    exact List.mem_map.mpr ⟨ck, (List.mem_filter.mp hck).1, rfl⟩
  | elimination _ hout =>
    obtain ⟨_, _, _, _, he1, _⟩ := afterElimination_inv hout
    exact absurd he1 hne

/-! ## non-vacuity: a concrete run meeting the hypotheses -/

section Example
/-- ballots  a>b ×10, b ×3, c ×4, c>b ×1, two seats, Droop quota 7: a is elected with a surplus of 3 that
    goes to b at weight 3/10 per paper -/
def exVotes : Profile := [([.one 0, .one 1], 10), ([.one 1], 3), ([.one 2], 4), ([.one 2, .one 1], 1)]
def exCfg : Cfg := { quota := some VL.Gen.Quota.droop, acceptEqual := true, mandatory := false, step := some (-1) }
def exInp : Input := selectorInput exVotes 2

example : WFVotes exVotes := by intro bw hbw; simp [exVotes] at hbw; rcases hbw with h | h | h | h <;> rw [h] <;> decide
/-- the state after one count of the example: not final, one seat by quota, 11 votes still held, b and c
    continue and b holds 3 + 10·(3/10) = 6 -/
def exCheck : Bool :=
  match initState gregory exInp [] with
  | .ok st0 =>
    match runCounts gregory exCfg exInp 1 st0 with
    | .ok st => !st.final && decide (st.byQuota = 1) && decide (held st.alloc = 11) &&
        decide (continuing st.alloc = [1, 2]) && decide (totalOf st.alloc 1 = 6) &&
        decide (runQuota exCfg exInp = 7)
    | .error _ => false
  | .error _ => false

example : exCheck = true := by decide +kernel

/-- second count: nobody holds the quota, c (5 votes) is the one lowest candidate and is eliminated, its four
    truncated papers exhaust; third count: b is the last standing for the last seat -/
def exCheck2 : Bool :=
  match initState gregory exInp [] with
  | .ok st0 =>
    (match runCounts gregory exCfg exInp 1 st0 with
      | .ok st =>
        (match nextCount gregory exCfg st.alloc exInp.nSeats (totalVotes exInp.votes) st.seats exInp.maxS st.draws with
          | .ok (out, _) => !out.shortcut && decide (out.elected = []) && decide (out.eliminated = [2]) &&
              decide (continuing out.alloc = [1]) && decide (totalOf out.alloc 1 = 7) &&
              decide (pileTotal (allocPile out.alloc none) = 4)
          | .error _ => false)
      | .error _ => false) &&
    (match runCounts gregory exCfg exInp 5 st0 with
      | .ok st => st.final && decide (st.seats = [(0, 1), (1, 1)]) && decide (st.byQuota = 1)
      | .error _ => false)
  | .error _ => false

example : exCheck2 = true := by decide +kernel
/-- {a,b} > c ×5 divides into 5/2 for a and 5/2 for b -/
def shVotes : Profile := [([.shared [0, 1], .one 2], 5), ([.one 2, .one 0], 3)]
example : (match initialAllocation gregory shVotes [] with
    | .ok (a0, _) => decide (pileTotal (allocPile a0 (some 0)) = 5 / 2) && decide (pileTotal (allocPile a0 (some 1)) = 5 / 2)
        && decide (pileTotal (allocPile a0 (some 2)) = 3)
    | .error _ => false) = true := by decide +kernel
end Example

end VL.C03
