/-
  C03 — transferable-vote counts conserve votes and eliminate only the lowest.  (theorems follow)
-/
import VotelibModel.STV
namespace VL.C03
open VL VL.STV

end VL.C03
