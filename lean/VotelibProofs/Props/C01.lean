/-
  C01 — Highest-averages apportionment is the exact divisor-method solution.
  Property theorems only.  Model: VotelibModel/HighestAverages.lean (proportional.py L421-478);
  divisors: VotelibModel/Gen/Divisor.lean, regenerated from component/divisor.py on every run.

  Reading (DESIGN 7/C01): `capOf c = max_seats.get(c, n_seats)`; a party is initially eligible (`Elig0`) when it
  has a votes entry and holds fewer seats than its cap (divisors are positive); `openSeats = n_seats - Σ prev`.
  `haSeats c` are the seats awarded individually to `c`, a `Tie` entry carries `tieSeats`.
-/
import VotelibProofs.Lemmas.HAStrict
import VotelibProofs.Lemmas.HAUnique
import VotelibProofs.Lemmas.HAList
import VotelibModel.Gen.Divisor
import Mathlib.Tactic.Ring
import Mathlib.Tactic.NormNum
namespace VL.C01
open VL HACfg

/-- final seat total of party `c` (previous gains + seats awarded individually) -/
def finalTot (cfg : HACfg) (c : Cand) : Nat := (haRun cfg).tot c

theorem finalTot_eq (cfg : HACfg) (h : CfgOK cfg) (c : Cand) :
    finalTot cfg c = cfg.prevOf c + haSeats cfg c := by
  have := (haRun_inv cfg h).ge_prev c
  unfold finalTot haSeats; omega

/-- **Caps.**  No party is lifted above its cap. -/
theorem ha_cap (cfg : HACfg) (h : CfgOK cfg) (c : Cand) (hc : cfg.prevOf c ≤ cfg.capOf c) :
    cfg.prevOf c + haSeats cfg c ≤ cfg.capOf c := by
  rw [← finalTot_eq cfg h]; exact (haRun_inv cfg h).le_cap c hc

/-- **Seat total.**  Seats awarded individually plus the seats carried by a reported tie are exactly the seats
    still open — unless seats remain (`rem > 0`), and then every initially eligible party sits exactly at its
    cap ("every seat the caps allow"). -/
theorem ha_total (cfg : HACfg) (h : CfgOK cfg) :
    ((haCands cfg).map (haSeats cfg)).sum + tieSeats (haRun cfg) + (haRun cfg).rem = openSeats cfg ∧
    ((haRun cfg).rem = 0 ∨ ∀ c, Elig0 cfg c → cfg.prevOf c + haSeats cfg c = cfg.capOf c) := by
  have hi := haRun_inv cfg h
  refine ⟨?_, ?_⟩
  · have := hi.count
    unfold awarded at this
    unfold haSeats
    omega
  · rcases haRun_done cfg with h0 | hnil
    · exact Or.inl h0
    · right
      intro c he
      rw [← finalTot_eq cfg h]
      have hle := hi.le_cap c (Nat.le_of_lt he.2)
      by_contra hne
      have hlt : (haRun cfg).tot c < cfg.capOf c := lt_of_le_of_ne hle hne
      have := hi.pool_all c he hlt
      rw [hnil] at this
      simp at this

/-- **Optimality.**  No unseated claim is stronger than a seated one: the next exact quotient of every party that
    could still take a seat is at most the quotient of every seat that was awarded. -/
theorem ha_optimal (cfg : HACfg) (h : CfgOK cfg) (c' : Cand) (he : Elig0 cfg c')
    (hroom : cfg.prevOf c' + haSeats cfg c' < cfg.capOf c')
    (c : Cand) (k : Nat) (hk1 : cfg.prevOf c ≤ k) (hk2 : k < cfg.prevOf c + haSeats cfg c) :
    cfg.quot c' (cfg.prevOf c' + haSeats cfg c') ≤ cfg.quot c k := by
  have hi := haRun_inv cfg h
  rw [← finalTot_eq cfg h] at hroom hk2 ⊢
  obtain ⟨p, hp, hpk⟩ := List.mem_map.mp (hi.pool_all c' he hroom)
  have := hi.seated c k hk1 hk2 p hp
  rw [hi.pool_q p hp, hpk] at this
  exact this

/-- who is still waiting at the end: exactly the initially eligible parties below their cap -/
theorem waiting_iff (cfg : HACfg) (h : CfgOK cfg) (c : Cand) :
    c ∈ (haRun cfg).pool.map (·.1) ↔ Elig0 cfg c ∧ finalTot cfg c < cfg.capOf c := by
  have hi := haRun_inv cfg h
  constructor
  · intro hc
    obtain ⟨p, hp, rfl⟩ := List.mem_map.mp hc
    have h1 := hi.pool_cap p hp
    have h2 := hi.ge_prev p.1
    exact ⟨⟨hi.pool_key p hp, by omega⟩, h1⟩
  · rintro ⟨he, hlt⟩; exact hi.pool_all c he hlt

/-- **Ties are exact.**  A reported tie carries all seats that are still open, fewer than it has members, and
    names precisely the parties (eligible, below their cap) whose next quotient equals the largest waiting
    quotient `q`; every other waiting party's next quotient is at most `q`. -/
theorem ha_tie (cfg : HACfg) (h : CfgOK cfg) (T : List Cand) (m : Nat) (ht : (haRun cfg).tie = some (T, m)) :
    0 < m ∧ m < T.length ∧ ((haCands cfg).map (haSeats cfg)).sum + m = openSeats cfg ∧
    ∃ q, (∀ c, c ∈ T ↔ Elig0 cfg c ∧ finalTot cfg c < cfg.capOf c ∧ cfg.quot c (finalTot cfg c) = q) ∧
         (∀ c, Elig0 cfg c → finalTot cfg c < cfg.capOf c → cfg.quot c (finalTot cfg c) ≤ q) := by
  have hi := haRun_inv cfg h
  obtain ⟨hrem, hpos, hlt, q, hq1, hq2⟩ := hi.tie_ok T m ht
  refine ⟨hpos, hlt, ?_, q, ?_, ?_⟩
  · have := (ha_total cfg h).1
    unfold tieSeats at this
    rw [ht, hrem] at this
    simpa using this
  · intro c
    rw [hq2]
    simp only [List.mem_map, List.mem_filter, decide_eq_true_eq]
    constructor
    · rintro ⟨p, ⟨hp, hpq⟩, rfl⟩
      have hw := (waiting_iff cfg h p.1).mp (List.mem_map.mpr ⟨p, hp, rfl⟩)
      refine ⟨hw.1, hw.2, ?_⟩
      rw [← hpq, hi.pool_q p hp]; rfl
    · rintro ⟨he, hlt', hcq⟩
      obtain ⟨p, hp, rfl⟩ := List.mem_map.mp ((waiting_iff cfg h c).mpr ⟨he, hlt'⟩)
      refine ⟨p, ⟨hp, ?_⟩, rfl⟩
      rw [hi.pool_q p hp]; exact hcq
  · intro c he hlt'
    obtain ⟨p, hp, rfl⟩ := List.mem_map.mp ((waiting_iff cfg h c).mpr ⟨he, hlt'⟩)
    have := hq1 p hp
    rw [hi.pool_q p hp] at this
    exact this

/-- only parties with a votes entry gain seats -/
theorem ha_only_voted (cfg : HACfg) (h : CfgOK cfg) (c : Cand) (hs : 0 < haSeats cfg c) : c ∈ keys cfg.votes := by
  apply (haRun_inv cfg h).only_keys c
  unfold haSeats at hs; omega

/-- the returned dictionary: an individual entry for exactly the parties that gained seats, with their gains -/
theorem haResult_cand (cfg : HACfg) (h : CfgOK cfg) (c : Cand) (k : Nat) :
    (Key.cand c, k) ∈ haResult cfg ↔ 0 < haSeats cfg c ∧ k = haSeats cfg c := by
  unfold haResult
  simp only [List.mem_append, List.mem_filterMap]
  constructor
  · rintro (⟨d, _, hd⟩ | ht)
    · split at hd
      · rename_i hgt
        simp only [Option.some.injEq, Prod.mk.injEq, Key.cand.injEq] at hd
        obtain ⟨rfl, rfl⟩ := hd
        unfold haSeats; exact ⟨by omega, rfl⟩
      · simp at hd
    · split at ht
      · split at ht <;> simp at ht
      · simp at ht
  · rintro ⟨hpos, rfl⟩
    left
    refine ⟨c, mem_haCands_of_key (ha_only_voted cfg h c hpos), ?_⟩
    unfold haSeats at hpos
    rw [if_pos (by omega)]; rfl

theorem haResult_tie (cfg : HACfg) (T : List Cand) (m : Nat) :
    (Key.tie T, m) ∈ haResult cfg ↔ (haRun cfg).tie = some (T, m) ∧ 0 < m := by
  unfold haResult
  simp only [List.mem_append, List.mem_filterMap]
  constructor
  · rintro (⟨d, _, hd⟩ | ht)
    · split at hd <;> simp at hd
    · split at ht
      · rename_i T' m' heq
        split at ht
        · simp only [List.mem_singleton, Prod.mk.injEq, Key.tie.injEq] at ht
          obtain ⟨rfl, rfl⟩ := ht
          exact ⟨heq, by assumption⟩
        · simp at ht
      · simp at ht
  · rintro ⟨ht, hpos⟩
    right
    rw [ht]
    simp [hpos]

/-! ### the built-in divisors (definitions regenerated from divisor.py) are positive and strictly increasing -/

open Gen.Divisor

theorem d_hondt_ok : (∀ k, 0 < d_hondt k) ∧ StrictMono d_hondt := by
  refine ⟨fun k => by unfold d_hondt; positivity, fun a b hab => ?_⟩
  unfold d_hondt; exact_mod_cast Nat.add_lt_add_right hab 1

theorem sainte_lague_ok : (∀ k, 0 < sainte_lague k) ∧ StrictMono sainte_lague := by
  refine ⟨fun k => by unfold sainte_lague; positivity, fun a b hab => ?_⟩
  unfold sainte_lague
  have : 2 * a + 1 < 2 * b + 1 := by omega
  exact_mod_cast this

theorem danish_ok : (∀ k, 0 < danish k) ∧ StrictMono danish := by
  refine ⟨fun k => by unfold danish; positivity, fun a b hab => ?_⟩
  unfold danish
  have : 3 * a + 1 < 3 * b + 1 := by omega
  exact_mod_cast this

theorem macau_ok : (∀ k, 0 < macau k) ∧ StrictMono macau := by
  refine ⟨fun k => by unfold macau; positivity, fun a b hab => ?_⟩
  unfold macau
  have : 2 ^ a < 2 ^ b := Nat.pow_lt_pow_right (by norm_num) hab
  exact_mod_cast this

theorem imperiali_ok : (∀ k, 0 < imperiali k) ∧ StrictMono imperiali := by
  refine ⟨fun k => by unfold imperiali; positivity, fun a b hab => ?_⟩
  unfold imperiali
  have : (a : Rat) < (b : Rat) := by exact_mod_cast hab
  push_cast
  linarith

/-- The translated built-in divisors ARE the textbook sequences (D'Hondt k+1, Sainte-Laguë 2k+1, Imperiali k/2+1,
    Danish 3k+1, Macau 2^k), and the wrapper replaces exactly the divisor of order 0.  A change of divisor.py that
    alters any value breaks this theorem on regeneration. -/
theorem divisor_values :
    (∀ k : Nat, d_hondt k = (k : Rat) + 1) ∧ (∀ k : Nat, sainte_lague k = 2 * (k : Rat) + 1) ∧
    (∀ k : Nat, imperiali k = (k : Rat) / 2 + 1) ∧ (∀ k : Nat, danish k = 3 * (k : Rat) + 1) ∧
    (∀ k : Nat, macau k = (2 : Rat) ^ k) ∧
    (∀ (f : Nat → Rat) (a : Rat), modified_first_coef f a 0 = a ∧ ∀ k, modified_first_coef f a (k + 1) = f (k + 1)) := by
  refine ⟨?_, ?_, ?_, ?_, ?_, ?_⟩
  · intro k; unfold d_hondt; push_cast; ring
  · intro k; unfold sainte_lague; push_cast; ring
  · intro k; unfold imperiali; push_cast; ring
  · intro k; unfold danish; push_cast; ring
  · intro k; unfold macau; push_cast; ring
  · intro f a
    refine ⟨by simp [modified_first_coef], fun k => by simp [modified_first_coef]⟩

/-- `modified_first_coef f a`: positive, and non-decreasing as long as the first coefficient does not exceed `f 1`;
    strictly increasing when it is strictly below `f 1`. -/
theorem modified_first_ok (f : Nat → Rat) (a : Rat) (hf : (∀ k, 0 < f k) ∧ StrictMono f) (ha : 0 < a) (ha1 : a ≤ f 1) :
    (∀ k, 0 < modified_first_coef f a k) ∧ (∀ k, modified_first_coef f a k ≤ modified_first_coef f a (k+1)) ∧
    (a < f 1 → StrictMono (modified_first_coef f a)) := by
  refine ⟨?_, ?_, ?_⟩
  · intro k; unfold modified_first_coef; split <;> [exact hf.1 k; exact ha]
  · intro k
    unfold modified_first_coef
    rcases Nat.eq_zero_or_pos k with rfl | hk
    · simpa using ha1
    · simp only [gt_iff_lt, hk, decide_true, if_true, Nat.succ_pos, Nat.lt_add_left_iff_pos, Nat.add_pos_left]
      exact le_of_lt (hf.2 (Nat.lt_succ_self k))
  · intro hlt x y hxy
    unfold modified_first_coef
    rcases Nat.eq_zero_or_pos x with rfl | hx
    · have hy : 0 < y := hxy
      simp only [gt_iff_lt, lt_self_iff_false, decide_false, hy, decide_true, if_true]
      rcases Nat.lt_or_ge 1 y with h1 | h1
      · exact lt_trans hlt (hf.2 h1)
      · have : y = 1 := by omega
        subst this; simpa using hlt
    · have hy : 0 < y := lt_trans hx hxy
      simp only [gt_iff_lt, hx, hy, decide_true, if_true]
      exact hf.2 hxy

/-- every configuration with a built-in divisor, non-negative votes and distinct keys meets `CfgOK` -/
theorem cfgOK_of_divisor (cfg : HACfg) (hd : (∀ k, 0 < cfg.div k) ∧ StrictMono cfg.div)
    (hv : ∀ p ∈ cfg.votes, 0 ≤ p.2) (hn : (keys cfg.votes).Nodup) : CfgOK cfg :=
  ⟨hd.1, fun k => le_of_lt (hd.2 (Nat.lt_succ_self k)), hv, hn⟩

/-- **Never resolved silently.**  With a strictly increasing divisor sequence and positive votes, every claim
    that is still waiting at the end is *strictly* weaker than every seat awarded individually: a claim equal to a
    seated one can only end up inside the reported `Tie`, never be passed over. -/
theorem ha_strict_separation (cfg : HACfg) (hd : (∀ k, 0 < cfg.div k) ∧ StrictMono cfg.div)
    (hv : ∀ p ∈ cfg.votes, 0 < p.2) (hn : (keys cfg.votes).Nodup)
    (c' : Cand) (he : Elig0 cfg c') (hroom : cfg.prevOf c' + haSeats cfg c' < cfg.capOf c')
    (c : Cand) (k : Nat) (hk1 : cfg.prevOf c ≤ k) (hk2 : k < cfg.prevOf c + haSeats cfg c) :
    cfg.quot c' (cfg.prevOf c' + haSeats cfg c') < cfg.quot c k := by
  have h : CfgOK cfg := cfgOK_of_divisor cfg hd (fun p hp => le_of_lt (hv p hp)) hn
  have hi := haRun_inv cfg h
  have hs := haRun_strict cfg h (strictQ_of cfg hd.1 hd.2 hn hv)
  rw [← finalTot_eq cfg h] at hroom hk2 ⊢
  obtain ⟨p, hp, hpk⟩ := List.mem_map.mp (hi.pool_all c' he hroom)
  have := hs c k hk1 hk2 p hp
  rw [hi.pool_q p hp, hpk] at this
  exact this

/-- **Exact divisor-method solution (uniqueness).**  With a strictly increasing divisor sequence, positive votes,
    caps at least the previous gains, no reported tie and all open seats handed out, the computed allocation is a
    solution (caps, total, optimality) and it is the ONLY one: every allocation with these three properties equals it. -/
theorem ha_is_the_unique_solution (cfg : HACfg) (hd : (∀ k, 0 < cfg.div k) ∧ StrictMono cfg.div)
    (hv : ∀ p ∈ cfg.votes, 0 < p.2) (hn : (keys cfg.votes).Nodup) (hcaps : ∀ e, cfg.prevOf e ≤ cfg.capOf e)
    (hnotie : (haRun cfg).tie = none) (hrem : (haRun cfg).rem = 0) :
    IsSolution cfg (haSeats cfg) ∧ ∀ a, IsSolution cfg a → ∀ c, a c = haSeats cfg c := by
  have h : CfgOK cfg := cfgOK_of_divisor cfg hd (fun p hp => le_of_lt (hv p hp)) hn
  exact ⟨haSeats_isSolution cfg h hcaps hnotie hrem,
    fun a ha => ha_unique cfg h (strictQ_of cfg hd.1 hd.2 hn hv) hcaps hnotie hrem a ha⟩

/-- **The sorted-list implementation refines the pool machine.**  `halRun` models the code's real data structure (an
    ascending list, the maximal run taken from its tail, pop + `bisect_left` re-insertion, `VotelibModel/HighestAveragesList.lean`);
    it ends with the same totals and the same tie (members up to order) as the pool machine about which the clauses above
    are proved — so every theorem of this file transfers to the list machine. -/
theorem list_machine_refines (cfg : HACfg) (h : CfgOK cfg) :
    (∀ c, (halRun cfg).tot c = (haRun cfg).tot c) ∧ (halRun cfg).rem = (haRun cfg).rem ∧
    (((haRun cfg).tie = none ∧ (halRun cfg).tie = none) ∨
      ∃ T₁ T₂ m, (haRun cfg).tie = some (T₁, m) ∧ (halRun cfg).tie = some (T₂, m) ∧ T₁.Perm T₂) := by
  have hr := halRun_refines cfg h
  exact ⟨fun c => (congrFun hr.tot c).symm, hr.rem.symm, hr.tie⟩

/-- Witness for the recorded finding `C01-nonstrict-first-coef`: with `modified_first_coef d_hondt 2` the divisor
    sequence 2, 2, 3, … is not strictly increasing; party 1 is left waiting with a quotient equal to that of a seat
    awarded to party 2, and no tie is reported — the strictness hypothesis of `ha_strict_separation` is necessary. -/
def exNonStrict : HACfg :=
  { div := modified_first_coef d_hondt 2, votes := [(1, 2), (2, 5)], n := 6, prev := [], caps := [] }

theorem ha_silent_tie_witness :
    (haRun exNonStrict).tie = none ∧ haSeats exNonStrict 1 = 1 ∧ haSeats exNonStrict 2 = 5 ∧
    exNonStrict.quot 1 (haSeats exNonStrict 1) = exNonStrict.quot 2 4 := by
  decide +kernel

/-! ### non-vacuity: a concrete configuration with a binding cap, previous gains and a three-way tie -/

def exCfg : HACfg :=
  { div := d_hondt, votes := [(0, 300), (1, 50), (2, 50), (3, 50)], n := 4, prev := [(0, 1)], caps := [(0, 2)] }

example : CfgOK exCfg :=
  cfgOK_of_divisor exCfg d_hondt_ok (by decide +kernel) (by decide +kernel)
example : haResult exCfg = [(Key.cand 0, 1), (Key.tie [1, 2, 3], 2)] := by decide +kernel
example : Elig0 exCfg 1 := by unfold Elig0; decide +kernel

end VL.C01
