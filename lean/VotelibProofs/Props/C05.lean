/-
  C05 — Condorcet methods elect the Condorcet winner and stay in the Smith set.
  Property theorems only (helper lemmas live in VotelibProofs/Lemmas).  Namespace VL.C05.

  Reading: as in C06 — `WF votes` = distinct keys, no self-pair, non-negative counts; candidates = names
  in keys; absent pair = 0 : 0; `IsCW v w` = `w` is a candidate and `d w o > d o w` for every other
  candidate `o`.
-/
import VotelibProofs.Lemmas.Schulze
import VotelibProofs.Lemmas.SmithModel
import VotelibModel.CondorcetRanked
namespace VL.C05
open VL VL.Condorcet

/-! ### Condorcet-winner consistency, one seat -/

/-- **Copeland** (with or without second-order tie-breaking) elects exactly the Condorcet winner. -/
theorem cw_copeland {v : Pairwise} (hwf : WF v) {w : Cand} (hw : IsCW v w) (secondOrder : Bool) :
    copeland secondOrder v 1 = [Slot.cand w] := by
  unfold copeland
  simp only [copeland_scores_cw hwf hw]
  simp [isTie]

/-- **Minimax by winning votes** elects exactly the Condorcet winner. -/
theorem cw_minimax_wv {v : Pairwise} (hwf : WF v) {w : Cand} (hw : IsCW v w) :
    minimax .winningVotes v 1 = [Slot.cand w] := by
  apply minimax_cw_of_scores _ _ hw.1
  · intro t ht
    obtain ⟨e, he, rfl⟩ := List.mem_map.1 ht
    obtain ⟨hev, hew⟩ := List.mem_filter.1 he
    simp only [decide_eq_true_eq] at hew
    obtain ⟨⟨x, y⟩, cnt⟩ := e
    simp only at hew
    subst hew
    have hx : x ∈ candidates v := fst_mem_candidates hev
    have hne : x ≠ y := hwf.2.1 _ hev
    have hb := hw.2 x hx hne
    have hcnt : pget v (x, y) = cnt := pget_of_mem hwf.1 hev
    simp only [scoreOf]
    rw [← hcnt]
    rw [if_neg (not_lt.2 (le_of_lt hb))]
  · intro o ho hne
    have hb := hw.2 o ho hne
    have hpos : 0 < pget v (w, o) := lt_of_le_of_lt (pget_nonneg hwf _) hb
    refine ⟨pget v (w, o), ?_, hpos⟩
    refine List.mem_map.2 ⟨((w, o), pget v (w, o)), List.mem_filter.2 ⟨pget_pos_mem hpos, by simp⟩, ?_⟩
    simp only [scoreOf]
    exact if_pos hb

/-- **Minimax by margins** elects exactly the Condorcet winner. -/
theorem cw_minimax_margins {v : Pairwise} (hwf : WF v) {w : Cand} (hw : IsCW v w) :
    minimax .margins v 1 = [Slot.cand w] := by
  apply minimax_cw_of_scores _ _ hw.1
  · intro t ht
    obtain ⟨e, he, rfl⟩ := List.mem_map.1 ht
    obtain ⟨hev, hew⟩ := List.mem_filter.1 he
    simp only [decide_eq_true_eq] at hew
    obtain ⟨⟨x, y⟩, cnt⟩ := e
    simp only at hew
    subst hew
    have hx : x ∈ candidates v := fst_mem_candidates hev
    have hne : x ≠ y := hwf.2.1 _ hev
    have hb := hw.2 x hx hne
    have hcnt : pget v (x, y) = cnt := pget_of_mem hwf.1 hev
    simp only [scoreOf]
    rw [← hcnt]
    unfold Beats at hb
    linarith
  · intro o ho hne
    have hb := hw.2 o ho hne
    have hpos : 0 < pget v (w, o) := lt_of_le_of_lt (pget_nonneg hwf _) hb
    refine ⟨pget v (w, o) - pget v (o, w), ?_, by unfold Beats at hb; linarith⟩
    exact List.mem_map.2 ⟨((w, o), pget v (w, o)), List.mem_filter.2 ⟨pget_pos_mem hpos, by simp⟩, rfl⟩

/-! ### nobody who took part in a pairwise contest is dropped -/

/-- **Copeland**: with at least as many seats as candidates every candidate is listed. -/
theorem no_candidate_dropped_copeland (v : Pairwise) (secondOrder : Bool) (n : Nat)
    (hn : (candidates v).length ≤ n) : ∀ c ∈ candidates v, Slot.cand c ∈ copeland secondOrder v n := by
  intro c hc
  unfold copeland
  simp only
  have hlen : (seededScores v (copelandScoresRaw (pairwiseWins v false))).length ≤ n := by
    rw [length_seededScores]; exact hn
  have hnotie : (getNBest (seededScores v (copelandScoresRaw (pairwiseWins v false))) n).any isTie = false := by
    rw [List.any_eq_false]
    intro s hs
    obtain ⟨c', rfl⟩ := getNBest_all_noTie hlen s hs
    simp [isTie]
  rw [hnotie]
  simp only [Bool.and_false, Bool.false_eq_true, if_false]
  exact mem_getNBest_all hlen (by rw [keys_seededScores]; exact hc)

/-- **Minimax** (any scorer): with at least as many seats as candidates every candidate is listed. -/
theorem no_candidate_dropped_minimax (sc : Scorer) (v : Pairwise) (n : Nat)
    (hn : (candidates v).length ≤ n) : ∀ c ∈ candidates v, Slot.cand c ∈ minimax sc v n := by
  intro c hc
  rw [minimax_eq]
  have hk := okeys_maxCounterscore sc v
  apply mem_getNBest_all
  · rw [List.length_map]
    have : (maxCounterscore sc v).length = (okeys (maxCounterscore sc v)).length := by simp [okeys]
    rw [this, hk]; exact hn
  · simp only [keys, List.map_map, Function.comp_def]
    change c ∈ okeys (maxCounterscore sc v)
    rw [hk]; exact hc

/-- **Schulze**: with at least as many seats as candidates every candidate is listed. -/
theorem no_candidate_dropped_schulze (v : Pairwise) (n : Nat)
    (hn : (candidates v).length ≤ n) : ∀ c ∈ candidates v, Slot.cand c ∈ schulze v n := by
  intro c hc
  unfold schulze
  simp only
  have hk := keys_schulzeScores v
  apply mem_getNBest_all
  · have : ∀ d : Votes, d.length = (keys d).length := fun d => by simp [keys]
    rw [this, hk]; exact hn
  · rw [hk]; exact hc

/-! ### non-vacuity -/

/-- a Condorcet winner who never appears as a loser (the sparse shape of the property text) -/
def exCW : Pairwise := [((0, 1), 3), ((0, 2), 3), ((1, 2), 2), ((2, 1), 1)]

example : WF exCW := by decide +kernel
example : IsCW exCW 0 := by decide +kernel
example : copeland true exCW 1 = [Slot.cand 0] := by decide +kernel
example : minimax .winningVotes exCW 3 = [Slot.cand 0, Slot.cand 1, Slot.cand 2] := by decide +kernel
example : schulze exCW 3 = [Slot.cand 0, Slot.cand 1, Slot.cand 2] := by decide +kernel

end VL.C05
