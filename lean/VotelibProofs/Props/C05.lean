/-
  C05 — Condorcet methods elect the Condorcet winner and stay in the Smith set.
  Property theorems only (helper lemmas live in VotelibProofs/Lemmas).  Namespace VL.C05.

  Reading: as in C06 — `WF votes` = distinct keys, no self-pair, non-negative counts; candidates = names
  in keys; absent pair = 0 : 0; `IsCW v w` = `w` is a candidate and `d w o > d o w` for every other
  candidate `o`.
-/
import VotelibProofs.Lemmas.Copeland2o
import VotelibModel.CondorcetRanked
import VotelibProofs.Lemmas.SchulzeDefining
namespace VL.C05
open VL VL.Condorcet

/-! ### Condorcet-winner consistency, one seat -/

/-- **Copeland** (with or without second-order tie-breaking) elects exactly the Condorcet winner. -/
theorem cw_copeland {v : Pairwise} (hwf : WF v) {w : Cand} (hw : IsCW v w) (secondOrder : Bool) :
    copeland secondOrder v 1 = [Slot.cand w] := by
  unfold copeland
  simp only [copeland_scores_cw hwf hw]
  simp [isTie]

/-- **Minimax by winning votes** elects exactly the Condorcet winner. -/
theorem cw_minimax_wv {v : Pairwise} (hwf : WF v) {w : Cand} (hw : IsCW v w) :
    minimax .winningVotes v 1 = [Slot.cand w] := by
  apply minimax_cw_of_scores _ _ hw.1
  · intro t ht
    obtain ⟨o, ho, _, hne, rfl⟩ := mem_defeatsOf_allPairs.1 ht
    have hb := hw.2 o ho hne
    simp only [pairScore]
    unfold Beats at hb
    rw [if_neg (not_lt.2 (le_of_lt hb))]
  · intro o ho hne
    have hb := hw.2 o ho hne
    have hpos : 0 < pget v (w, o) := lt_of_le_of_lt (pget_nonneg hwf _) hb
    refine ⟨pairScore .winningVotes v w o, mem_defeatsOf_allPairs.2 ⟨w, hw.1, ho, fun h => hne h.symm, rfl⟩, ?_⟩
    simp only [pairScore]
    unfold Beats at hb
    rw [if_pos hb]
    exact hpos

/-- **Minimax by margins** elects exactly the Condorcet winner. -/
theorem cw_minimax_margins {v : Pairwise} (_hwf : WF v) {w : Cand} (hw : IsCW v w) :
    minimax .margins v 1 = [Slot.cand w] := by
  apply minimax_cw_of_scores _ _ hw.1
  · intro t ht
    obtain ⟨o, ho, _, hne, rfl⟩ := mem_defeatsOf_allPairs.1 ht
    have hb := hw.2 o ho hne
    simp only [pairScore]
    unfold Beats at hb
    linarith
  · intro o ho hne
    have hb := hw.2 o ho hne
    refine ⟨pairScore .margins v w o, mem_defeatsOf_allPairs.2 ⟨w, hw.1, ho, fun h => hne h.symm, rfl⟩, ?_⟩
    simp only [pairScore]
    unfold Beats at hb
    linarith

/-- **Schulze** elects exactly the Condorcet winner: every direct win of `w` keeps a positive path
    strength, no path into `w` ever gets one, so `w` wins every path comparison and everybody else loses
    at least the one against `w`. -/
theorem cw_schulze {v : Pairwise} (hwf : WF v) {w : Cand} (hw : IsCW v w) : schulze v 1 = [Slot.cand w] :=
  schulze_cw hwf hw

/-- **Benham** elects exactly the Condorcet winner of the pairwise counts of the profile (the loop exits
    at its first test). -/
theorem cw_benham {p : Profile} (hwf : WF (rankedToCondorcet p)) {w : Cand} (hw : IsCW (rankedToCondorcet p) w) :
    benham p = .ok [Slot.cand w] := by
  rw [benham_of_not_lone (not_lone_of_cw hwf hw)]
  unfold benhamCore
  rw [show (allRankedCandidates p).length + 3 = ((allRankedCandidates p).length + 2) + 1 from rfl]
  unfold benhamLoop
  have : benhamCW p = some w := by
    unfold benhamCW
    rw [cw_complete hwf hw]
    rfl
  rw [this]

/-- **Tideman alternative** (Smith set selector) elects exactly the Condorcet winner of the pairwise counts
    of the profile: the Smith set is `[w]` and the first tier returns at its first test. -/
theorem cw_tideman {p : Profile} (hwf : WF (rankedToCondorcet p)) {w : Cand} (hw : IsCW (rankedToCondorcet p) w) :
    tideman true p = .ok [Slot.cand w] := by
  have hne : p.isEmpty = false := by
    cases p with
    | nil => exact absurd hw.1 (by simp [rankedToCondorcet, candidates, flatCands, uniq])
    | cons _ _ => rfl
  have htier : tidemanTier true ((allRankedCandidates p).length + 3) p = .ok (Slot.cand w) := by
    rw [show (allRankedCandidates p).length + 3 = ((allRankedCandidates p).length + 2) + 1 from rfl]
    unfold tidemanTier
    rw [hne]
    have hs : smithSchwartz (rankedToCondorcet p) true = [w] := smithSet_of_cw hwf hw
    simp only [Bool.false_eq_true, if_false, hs, List.isEmpty_cons]
  rw [tideman_of_not_lone (not_lone_of_cw hwf hw)]
  unfold tidemanCore
  rw [htier]
  simp only
  rw [if_pos (List.contains_iff_mem.2 (candidates_rankedToCondorcet_sub p hw.1))]

/-- **Ranked pairs, Condorcet winner (partial).**  Full statement `cw_rankedpairs : rankedPairs sc v 1 = .ok [cand w]`
    is false of the current code (`cw_rankedpairs_witness`: `_build_ranking` refuses when candidates further
    down are not ordered).  Proved, for all three win scorers: whenever ranked pairs answers for one seat, it
    answers exactly `[w]` — every pair `(w, x)` sorts before `(x, w)` and is locked, no pair into `w` is ever
    locked, so `w` is the only possible first source. -/
theorem cw_rankedpairs_partial {v : Pairwise} (hwf : WF v) {w : Cand} (hw : IsCW v w) (sc : Scorer)
    {r : List Slot} (h : rankedPairs sc v 1 = .ok r) : r = [Slot.cand w] := rankedPairs_cw hwf hw sc h

/-- **Kemeny-Young follows its defining computation**: whenever it answers, the places are the head of the
    order of all candidates whose score (number of voter preferences the order satisfies) strictly exceeds
    that of every other order. -/
theorem kemeny_is_argmax {v : Pairwise} {n : Nat} {r : List Slot} (h : kemenyYoung v n = .ok r) :
    ∃ best, best.Perm (candidates v) ∧ r = (best.take n).map Slot.cand ∧
      ∀ q, q.Perm (candidates v) → q ≠ best → kyScore v q < kyScore v best := kemenyYoung_ok h

/-- the only refusal of Kemeny-Young is the declared NotImplementedError -/
theorem kemeny_refusal {v : Pairwise} {n : Nat} {e : Err} (h : kemenyYoung v n = .error e) : e = .notImplemented := by
  rw [kemenyYoung_eq] at h
  split at h
  · simp at h
  · simp only [Except.error.injEq] at h; exact h.symm

/-- **Kemeny-Young, Condorcet winner (partial).**  Full statement `cw_kemeny : kemenyYoung v 1 = .ok [cand w]`
    is false of the current code (`cw_kemeny_witness`).  Proved: it either elects exactly the Condorcet winner
    or refuses with NotImplementedError — it never elects anybody else.  (The refusal happens exactly when
    the best order is not unique; moving `w` to the front of an order strictly raises its score, so every
    best order starts with `w`.) -/
theorem cw_kemeny_partial {v : Pairwise} (hwf : WF v) {w : Cand} (hw : IsCW v w) :
    kemenyYoung v 1 = .ok [Slot.cand w] ∨ kemenyYoung v 1 = .error .notImplemented := by
  cases h : kemenyYoung v 1 with
  | error e => right; rw [kemeny_refusal h]
  | ok r =>
    left
    obtain ⟨best, hp, hr, hbest⟩ := kemenyYoung_ok h
    have hh := kemeny_best_head hwf hw hp hbest
    cases best with
    | nil => simp at hh
    | cons a rest =>
      simp only [List.head?_cons, Option.some.injEq] at hh
      subst hh
      rw [hr]; rfl

/-- the multi-seat evaluation (one tier per seat, fix 33df8fe) asked for one seat is the one-seat evaluation,
    so every one-seat theorem above also speaks about `tidemanN … 1` -/
theorem tidemanN_one (smith : Bool) (p : Profile) : tidemanN smith p 1 = tideman smith p := by
  unfold tidemanN tideman
  simp only
  rw [show (allRankedCandidates p).length + 2 = ((allRankedCandidates p).length + 1) + 1 from rfl]
  unfold tidemanLoop
  cases tidemanRunTier smith ((allRankedCandidates p).length + 3) p with
  | error e => rfl
  | ok s =>
    cases s with
    | tie cs => rfl
    | cand c =>
      simp only
      cases hc : (allRankedCandidates p).contains c with
      | true => simp
      | false => simp

/-- **A lone candidate takes the seat** (both hybrids, either set selector): with a single ranked candidate there
    is no pairwise contest, and since the lone-candidate fix the evaluators elect that candidate instead of
    running out of candidates (IndexError before). -/
theorem lone_candidate_elected {p : Profile} {c : Cand} (h : allRankedCandidates p = [c]) (smith : Bool) :
    benham p = .ok [Slot.cand c] ∧ tideman smith p = .ok [Slot.cand c] := ⟨benham_lone h, tideman_lone h⟩

/-- all seats can be filled: the last tier of an all-seats evaluation holds a lone candidate, who takes the last
    seat (IndexError before the lone-candidate fix); tie-free chain `abc:3, bac:2` -/
theorem tideman_all_seats_example :
    tidemanN true [([.one 0, .one 1, .one 2], 3), ([.one 1, .one 0, .one 2], 2)] 2 = .ok [Slot.cand 0, Slot.cand 1] ∧
    tidemanN true [([.one 0, .one 1, .one 2], 3), ([.one 1, .one 0, .one 2], 2)] 3 =
      .ok [Slot.cand 0, Slot.cand 1, Slot.cand 2] ∧
    benham [([.one 0], 5)] = .ok [Slot.cand 0] ∧ tideman true [([.one 0], 5)] = .ok [Slot.cand 0] := by
  decide +kernel

/-! ### Smith efficiency -/

/-- **Copeland's first place lies in the Smith set**: every candidate named for a single seat — alone or
    in a reported tie, with or without second-order tie-breaking — is a member of the Smith set. -/
theorem copeland_in_smith {v : Pairwise} (hwf : WF v) (secondOrder : Bool) :
    ∀ s ∈ copeland secondOrder v 1, ∀ c ∈ slotMembers s, c ∈ smithSet v := by
  have hbest : ∀ s ∈ getNBest (seededScores v (copelandScoresRaw (pairwiseWins v false))) 1,
      ∀ c ∈ slotMembers s, c ∈ smithSet v := by
    intro s hs c hc
    obtain ⟨x, hcx, hmax⟩ := getNBest_one_max _ s hs c hc
    obtain ⟨c', hc', heq⟩ := List.mem_map.1 hcx
    simp only [Prod.mk.injEq] at heq
    obtain ⟨rfl, rfl⟩ := heq
    apply copeland_max_in_smith hwf hc'
    intro o ho
    exact hmax _ (mem_seededScores ho)
  intro s hs c hc
  unfold copeland at hs
  simp only at hs
  split at hs
  · obtain ⟨s', hs', hc'⟩ := breakSecondOrder_members _ _ _ s hs c hc
    exact hbest s' hs' c hc'
  · exact hbest s hs c hc

/-- **Schulze's first place lies in the Smith set**: members of the Smith set keep a positive path strength
    to every outsider and no outsider ever gets one back, so they win strictly more path comparisons. -/
theorem schulze_in_smith {v : Pairwise} (hwf : WF v) :
    ∀ s ∈ schulze v 1, ∀ c ∈ slotMembers s, c ∈ smithSet v := schulze_first_in_smith hwf

/-- **Kemeny-Young's first place lies in the Smith set** whenever it answers: in the unique best order no
    outsider can stand immediately before a member of the Smith set (swapping them would raise the score). -/
theorem kemeny_in_smith {v : Pairwise} (hwf : WF v) {n : Nat} {r : List Slot} (h : kemenyYoung v n = .ok r)
    (hne : candidates v ≠ []) (hn : 1 ≤ n) : ∃ c, r.head? = some (Slot.cand c) ∧ c ∈ smithSet v := by
  obtain ⟨best, hp, hr, hbest⟩ := kemenyYoung_ok h
  have hdom : Graph.Dominating (candidates v) (Beats v) (fun x => x ∈ smithSet v) := by
    have : (fun x => x ∈ smithSet v) = Graph.SmithReach (candidates v) (Beats v) :=
      funext fun x => propext (mem_smithSet hwf x)
    rw [this]; exact Graph.smithReach_dominating
  obtain ⟨s, hs⟩ := Graph.smithReach_nonempty (cands := candidates v) (B := Beats v)
    (fun _ _ h => Beats.asymm h) hne
  obtain ⟨a, hhead, ha⟩ := kemeny_best_head_dominating hdom ⟨s, (mem_smithSet hwf s).2 hs⟩ hp hbest
  refine ⟨a, ?_, ha⟩
  cases best with
  | nil => simp at hhead
  | cons b rest =>
    simp only [List.head?_cons, Option.some.injEq] at hhead
    subst hhead
    obtain ⟨k, rfl⟩ : ∃ k, n = k + 1 := ⟨n - 1, by omega⟩
    rw [hr]; rfl

/-- **Ranked pairs' first place lies in the Smith set** whenever it answers (all three win scorers): no pair
    from outside the Smith set into it is ever locked (the reverse pair sorts strictly before it and is
    either locked — then the pair would close a cycle — or refused because of an even stronger locked
    crossing pair), so the unique first source cannot be an outsider. -/
theorem rankedpairs_in_smith {v : Pairwise} (hwf : WF v) (sc : Scorer) {n : Nat} (hn : 1 ≤ n) {r : List Slot}
    (h : rankedPairs sc v n = .ok r) : ∃ c, r.head? = some (Slot.cand c) ∧ c ∈ smithSet v :=
  rankedPairs_first_in_smith hwf sc hn h

/-- **The locked pairs never contain a cycle**: `_is_path` finds every chain of locked pairs, so a pair whose
    reverse direction is already connected is refused.  (For every list of pairs without self-pairs.) -/
theorem lockPairs_acyclic {pairs : List Pair} (hself : ∀ p ∈ pairs, p.1 ≠ p.2) :
    ∀ x, ¬ Relation.TransGen (fun a b => (a, b) ∈ lockPairs pairs) x x := lockPairs_acyclic' hself

/-- `_is_path` decides reachability through the given pairs exactly -/
theorem isPath_iff {pairs : List Pair} {source sink : Cand} (hne : source ≠ sink) :
    isPath pairs source sink = true ↔ Relation.TransGen (fun a b => (a, b) ∈ pairs) source sink :=
  ⟨isPath_sound, isPath_complete hne⟩

/-- **Tideman alternative's answer lies in the Smith set** of the pairwise counts of the profile, whenever it
    answers and there is a pairwise contest at all (the Smith set is not empty): after the first restriction to the
    Smith set every remaining candidate is a member of it. -/
theorem tideman_in_smith {p : Profile} (hne : smithSet (rankedToCondorcet p) ≠ []) {r : List Slot}
    (h : tideman true p = .ok r) : ∃ c, r = [Slot.cand c] ∧ c ∈ smithSet (rankedToCondorcet p) := by
  by_cases hl : ∃ c, allRankedCandidates p = [c]
  · obtain ⟨c, hc⟩ := hl
    rw [tideman_lone hc] at h
    simp only [Except.ok.injEq] at h
    refine ⟨c, h.symm, ?_⟩
    obtain ⟨x, hx⟩ := List.exists_mem_of_ne_nil _ hne
    have h1 := candidates_rankedToCondorcet_sub p (smithSchwartz_sub_candidates hx)
    rw [hc] at h1
    simp only [List.mem_singleton] at h1
    rw [← h1]; exact hx
  have hl' : ∀ c, allRankedCandidates p ≠ [c] := fun c hc => hl ⟨c, hc⟩
  rw [tideman_of_not_lone hl'] at h
  unfold tidemanCore at h
  split at h
  · simp at h
  · rename_i c htier
    split at h
    · simp only [Except.ok.injEq] at h
      exact ⟨c, h.symm, tidemanTier_in_smith p hne _ p (Or.inl rfl) c htier⟩
    · simp at h
  · simp at h

/-- **Benham's answer lies in the Smith set** of the pairwise counts of the profile, whenever it elects a
    candidate: every round eliminates exactly one candidate (an elimination tie is refused), restricting the
    ballots to the remaining candidates preserves their pairwise counts (`subset_preserves_pairwise`), and the
    last member of the Smith set left in a round would be that round's Condorcet winner.  `ProfileOK p`: no ballot
    names a candidate twice, weights are non-negative; `hall`: every ranked candidate takes part in some pairwise
    contest. -/
theorem benham_in_smith {p : Profile} (hp : ProfileOK p)
    (hall : ∀ c ∈ allRankedCandidates p, c ∈ candidates (rankedToCondorcet p)) {c : Cand}
    (h : benham p = .ok [Slot.cand c]) : c ∈ smithSet (rankedToCondorcet p) := benham_elects_smith hp hall h

/-- **Restricting a profile to a set of candidates preserves the pairwise counts among them**
    (`SubsettedVotes(RankedSubsetter)` followed by `RankedToCondorcetVotes`, unranked candidates at the bottom). -/
theorem subset_preserves_pairwise (p : Profile) {T : List Cand} {x y : Cand} (hx : x ∈ T) (hy : y ∈ T) :
    pget (rankedToCondorcet (subsetProfile p T)) (x, y) = pget (rankedToCondorcet p) (x, y) :=
  pget_rtc_subsetProfile p (List.contains_iff_mem.2 hx) (List.contains_iff_mem.2 hy)

/-- the pairwise dictionary derived from a well-formed profile is well-formed -/
theorem wf_of_profileOK {p : Profile} (hp : ProfileOK p) : WF (rankedToCondorcet p) := wf_rtc hp

/-! ### nobody who took part in a pairwise contest is dropped -/

/-- **Copeland**: with at least as many seats as candidates every candidate is listed. -/
theorem no_candidate_dropped_copeland (v : Pairwise) (secondOrder : Bool) (n : Nat)
    (hn : (candidates v).length ≤ n) : ∀ c ∈ candidates v, Slot.cand c ∈ copeland secondOrder v n := by
  intro c hc
  unfold copeland
  simp only
  have hlen : (seededScores v (copelandScoresRaw (pairwiseWins v false))).length ≤ n := by
    rw [length_seededScores]; exact hn
  have hnotie : (getNBest (seededScores v (copelandScoresRaw (pairwiseWins v false))) n).any isTie = false := by
    rw [List.any_eq_false]
    intro s hs
    obtain ⟨c', rfl⟩ := getNBest_all_noTie hlen s hs
    simp [isTie]
  rw [hnotie]
  simp only [Bool.and_false, Bool.false_eq_true, if_false]
  exact mem_getNBest_all hlen (by rw [keys_seededScores]; exact hc)

/-- **Minimax** (any scorer): with at least as many seats as candidates every candidate is listed. -/
theorem no_candidate_dropped_minimax (sc : Scorer) (v : Pairwise) (n : Nat)
    (hn : (candidates v).length ≤ n) : ∀ c ∈ candidates v, Slot.cand c ∈ minimax sc v n := by
  intro c hc
  rw [minimax_eq]
  have hk := okeys_minimaxTable sc v
  apply mem_getNBest_all
  · rw [List.length_map]
    have : (minimaxTable sc v).length = (okeys (minimaxTable sc v)).length := by simp [okeys]
    rw [this, hk]; exact hn
  · simp only [keys, List.map_map, Function.comp_def]
    change c ∈ okeys (minimaxTable sc v)
    rw [hk]; exact hc

/-- **Schulze**: with at least as many seats as candidates every candidate is listed. -/
theorem no_candidate_dropped_schulze (v : Pairwise) (n : Nat)
    (hn : (candidates v).length ≤ n) : ∀ c ∈ candidates v, Slot.cand c ∈ schulze v n := by
  intro c hc
  unfold schulze
  simp only
  have hk := keys_schulzeScores v
  apply mem_getNBest_all
  · have : ∀ d : Votes, d.length = (keys d).length := fun d => by simp [keys]
    rw [this, hk]; exact hn
  · rw [hk]; exact hc

/-! ### pairwise win scorers (regenerated from `pairwin_scorer.py` by the translator on every run) -/

/-- winning votes: the count of a pair that wins, `0` otherwise -/
theorem winning_votes_is_textbook (count rev : Rat) :
    Gen.PairwinScorer.winning_votes_value count rev = if rev < count then count else 0 := winning_votes_value_eq count rev

/-- margins: the count minus the count of the reverse pair -/
theorem margins_is_textbook (count rev : Rat) : Gen.PairwinScorer.margins_value count rev = count - rev :=
  margins_value_eq count rev

/-- pairwise opposition: the count itself -/
theorem pairwise_opposition_is_textbook (count rev : Rat) :
    Gen.PairwinScorer.pairwise_opposition_value count rev = count := pairwise_opposition_value_eq count rev

/-- the scored dictionary a scorer returns, entry by entry -/
theorem scorePairs_is_textbook (sc : Scorer) (v : Pairwise) :
    scorePairs sc v = v.map (fun e => (e.1, scoreOf sc v e)) := scorePairs_eq sc v

/-! ### defining computations -/

/-- **Copeland ranks by wins minus losses.**  The value handed to `get_n_best` for candidate `c` is the
    number of candidates `c` beats minus the number that beat `c` (absent pair = 0:0); boundary ties are
    then reported by `get_n_best` (C09). -/
theorem copeland_defining {v : Pairwise} (hwf : WF v) (n : Nat) :
    copeland false v n = getNBest ((candidates v).map (fun c =>
      (c, (((candidates v).filter (fun o => decide (Beats v c o))).length : Rat)
          - (((candidates v).filter (fun o => decide (Beats v o c))).length : Rat)))) n := by
  unfold copeland
  simp only [Bool.false_and, Bool.false_eq_true, if_false, seededScores]
  congr 1
  apply List.map_congr_left
  intro c _
  rw [getD_copelandScoresRaw, winsBy_eq_filter hwf, lossesOf_eq_filter hwf]

/-- **Second-order Copeland follows its defining computation** (every well-formed dictionary, every number of seats):
    the candidates are ranked by the first-order score `copelandScore` = candidates beaten minus candidates that beat
    (`get_n_best`, C09); when a boundary tie is left, the places already decided stay, and the candidates of the tie
    (`tiedOf`, `copeland2o_tied_members`) are ranked — again by `get_n_best`, so that candidates still level are reported as a
    `Tie` — by `secondOrderScore` = the sum of the first-order scores of the candidates they beat, for the places left. -/
theorem copeland2o_defining {v : Pairwise} (hwf : WF v) (n : Nat) :
    copeland true v n =
      (let best := getNBest ((candidates v).map (fun c => (c, copelandScore v c))) n
       if best.any isTie then
         best.filter (fun s => !isTie s) ++
           getNBest ((tiedOf best).map (fun c => (c, secondOrderScore v c)))
             (best.length - (best.filter (fun s => !isTie s)).length)
       else best) := copeland2o_eq hwf n

/-- the candidates re-ranked by the second-order score are exactly the members of the reported boundary tie, each once,
    in ascending order of their ids (the model's canonical order of the Python `set`) -/
theorem copeland2o_tied_members (best : List Slot) :
    (∀ x, x ∈ tiedOf best ↔ ∃ cs, Slot.tie cs ∈ best ∧ x ∈ cs) ∧ (tiedOf best).Pairwise (· < ·) :=
  ⟨fun _ => mem_tiedOf, sorted_tiedOf best⟩

/-- the two scores, spelled out -/
theorem copeland2o_scores (v : Pairwise) (c : Cand) :
    copelandScore v c = (((candidates v).filter (fun o => decide (Beats v c o))).length : Rat)
        - (((candidates v).filter (fun o => decide (Beats v o c))).length : Rat) ∧
    secondOrderScore v c = (((candidates v).filter (fun o => decide (Beats v c o))).map (copelandScore v)).sum :=
  ⟨rfl, rfl⟩

/-- non-vacuity: `0 ~ 1` and `2 ~ 3` tie, `0` and `1` beat `2`, `0` beats `3`, `3` beats `1`: first-order scores 2, 0, -2, 0;
    for two seats the boundary tie `{1, 3}` is broken by the second-order scores -2 (`1` beats `2`) and 0 (`3` beats `1`) -/
def exSecondOrder : Pairwise :=
  [((0, 1), 2), ((1, 0), 2), ((2, 3), 2), ((3, 2), 2), ((0, 2), 3), ((2, 0), 1), ((0, 3), 3), ((3, 0), 1),
   ((1, 2), 3), ((2, 1), 1), ((1, 3), 1), ((3, 1), 3)]
example : WF exSecondOrder := by decide +kernel
example : copeland false exSecondOrder 2 = [Slot.cand 0, Slot.tie [1, 3]] := by decide +kernel
example : copeland true exSecondOrder 2 = [Slot.cand 0, Slot.cand 3] := by decide +kernel
example : secondOrderScore exSecondOrder 1 = -2 ∧ secondOrderScore exSecondOrder 3 = 0 := by decide +kernel

/-- **Schulze's strongest paths are correct**: for two distinct candidates the entry of `widest_paths` is the
    strength of some chain of pairwise wins from `a` to `b` (the minimum of the win counts along it, a pair
    that is not a win weighing `0`), and no chain from `a` to `b` is stronger — value = max over paths of min
    edge.  (`winWeight_eq`: the weight of `(x, y)` is `d x y` if `d x y > d y x`, else `0`.) -/
theorem widestPaths_correct {v : Pairwise} (hwf : WF v) {a b : Cand} (hb : b ∈ candidates v) (hab : a ≠ b) :
    PathStr (winWeight v) a b (pget (widestPaths v) (a, b)) ∧
      ∀ s, PathStr (winWeight v) a b s → s ≤ pget (widestPaths v) (a, b) := widestPaths_maxmin hwf hb hab

/-- **Schulze ranks by strongest-path wins.**  The value handed to `get_n_best` for candidate `c` is the number of
    candidates `x` with `p[c, x] > p[x, c]`, where `p` is the strongest-path dictionary — which by `widestPaths_correct`
    holds for every ordered pair the true beatpath strength (max over chains of pairwise wins of the weakest link);
    boundary ties are then reported by `get_n_best` (C09).  So the evaluator is the textbook Schulze ranking by
    beatpath wins, for every seat count. -/
theorem schulze_defining {v : Pairwise} (hwf : WF v) (n : Nat) :
    schulze v n = getNBest ((candidates v).map (fun c => (c, (schulzeWins v c : Rat)))) n
    ∧ ∀ c, schulzeWins v c = ((candidates v).filter (fun x =>
        decide (pget (widestPaths v) (x, c) < pget (widestPaths v) (c, x)))).length :=
  ⟨schulze_by_path_wins hwf n, fun _ => rfl⟩

/-- a three-cycle 0>1 (5:2), 1>2 (6:1), 2>0 (4:3): the strongest paths (0→1: 5, 0→2: 5, 1→2: 6, back 4 each) give 0 two wins, 1 one, 2 none -/
def exSchulzeCycle : Pairwise := [((0, 1), 5), ((1, 0), 2), ((1, 2), 6), ((2, 1), 1), ((2, 0), 4), ((0, 2), 3)]
example : WF exSchulzeCycle := by decide +kernel
example : schulzeWins exSchulzeCycle 0 = 2 ∧ schulzeWins exSchulzeCycle 1 = 1 ∧ schulzeWins exSchulzeCycle 2 = 0 := by
  decide +kernel

theorem winWeight_is_win_count {v : Pairwise} (hwf : WF v) (x y : Cand) :
    winWeight v (x, y) = if pget v (y, x) < pget v (x, y) then pget v (x, y) else 0 := winWeight_eq hwf x y

/-- **Minimax ranks by the worst defeat over ALL opponents.**  The value handed to `get_n_best` for candidate
    `c` is the negated worst defeat, the maximum over every other candidate `o` of the strength of "`o` over
    `c`" under the scorer (winning votes: `d o c` if `d o c > d c o` else `0`; margins: `d o c - d c o`;
    pairwise opposition: `d o c`), a pair nobody ranked counting 0:0 (`worstDefeat_is_max`); boundary ties
    are then reported by `get_n_best` (C09).  True since fix 39ed002. -/
theorem minimax_defining {v : Pairwise} (hwf : WF v) (sc : Scorer) (n : Nat) :
    minimax sc v n = getNBest ((candidates v).map (fun c => (c, -(worstDefeat sc v c)))) n :=
  minimax_by_worstDefeat sc v n (fun _ hc => exists_other hwf hc)

/-- `worstDefeat sc v c` is attained by some opponent and is at least the strength of every opponent -/
theorem worstDefeat_is_max {v : Pairwise} (hwf : WF v) (sc : Scorer) {c : Cand} (hc : c ∈ candidates v) :
    (∃ o ∈ candidates v, o ≠ c ∧ worstDefeat sc v c = pairScore sc v o c) ∧
      ∀ o ∈ candidates v, o ≠ c → pairScore sc v o c ≤ worstDefeat sc v c :=
  worstDefeat_spec (exists_other hwf hc)

/-! ### where the current code does NOT meet the property (concrete witnesses, open findings) -/

/-- `w = 0` beats `1,2,3,4`; `1` beats `2`; `3` beats `4` -/
def exTwoChains : Pairwise := [((0, 1), 3), ((0, 2), 3), ((0, 3), 3), ((0, 4), 3), ((1, 2), 2), ((3, 4), 2)]
/-- `0` beats `1` and `2` 3:1, `1 ~ 2` 2:2 -/
def exLowerTie : Pairwise := [((0, 1), 3), ((1, 0), 1), ((0, 2), 3), ((2, 0), 1), ((1, 2), 2), ((2, 1), 2)]
/-- `abc:2, bca:2, cab:2` -/
def exCycleProfile : Profile :=
  [([.one 0, .one 1, .one 2], 2), ([.one 1, .one 2, .one 0], 2), ([.one 2, .one 0, .one 1], 2)]

/-- full statement `cw_rankedpairs : WF v → IsCW v w → rankedPairs sc v 1 = .ok [Slot.cand w]` is FALSE of
    the current code: `_build_ranking` refuses (bare VotingSystemError) when two lower candidates are not
    ordered by the locked pairs, although the Condorcet winner is the unique first source. -/
theorem cw_rankedpairs_witness :
    WF exTwoChains ∧ IsCW exTwoChains 0 ∧
      rankedPairs .winningVotes exTwoChains 1 = .error .votingSystemError ∧
      rankedPairs .margins exTwoChains 1 = .error .votingSystemError ∧
      rankedPairs .pairwiseOpposition exTwoChains 1 = .error .votingSystemError := by decide +kernel

/-- full statement `cw_kemeny : WF v → IsCW v w → kemenyYoung v 1 = .ok [Slot.cand w]` is FALSE of the
    current code: with a tie further down (`1 ~ 2`) the best order is not unique and the evaluator raises
    NotImplementedError, although both best orders start with the Condorcet winner. -/
theorem cw_kemeny_witness :
    WF exLowerTie ∧ IsCW exLowerTie 0 ∧ kemenyYoung exLowerTie 1 = .error .notImplemented := by decide +kernel

/-- ranked pairs drops a candidate and orders incomparable candidates silently: `0` beats `1` (3) and
    `2` (2), nothing orders `1` and `2`; three seats give `[0, 1]`. -/
theorem rankedpairs_dropped_witness :
    rankedPairs .winningVotes [((0, 1), 3), ((0, 2), 2)] 3 = .ok [Slot.cand 0, Slot.cand 1] := by decide +kernel

/-- (fixed by 39ed002) two undefeated candidates — one never the lower candidate of any pair, one with an
    incoming losing pair — now tie for the single seat instead of the first being elected silently -/
theorem minimax_never_loser_fixed :
    minimax .winningVotes [((0, 2), 3), ((1, 2), 3), ((2, 1), 1)] 1 = [Slot.tie [0, 1]] ∧
    minimaxPresent .winningVotes [((0, 2), 3), ((1, 2), 3), ((2, 1), 1)] 1 = [Slot.cand 0] := by decide +kernel

/-- (since the elimination-tie fix) a first-preference tie for the last place is refused with the declared
    NotImplementedError instead of eliminating every tied candidate at once: on this profile the whole Smith set
    `{1, 2}` used to be eliminated and the outsider `3` elected -/
def exBenhamTie : Profile :=
  [([.one 2, .one 1, .one 3], 1), ([.one 2, .one 1], 1), ([.one 1, .one 2, .one 3], 2),
   ([.one 0, .one 2, .one 1, .one 3], 3), ([.one 3, .one 1, .one 2, .one 0], 3)]
theorem benham_tie_refused_not_outsider :
    benham exBenhamTie = .error .notImplemented ∧ WF (rankedToCondorcet exBenhamTie) ∧
      3 ∉ smithSet (rankedToCondorcet exBenhamTie) ∧ 1 ∈ smithSet (rankedToCondorcet exBenhamTie) := by
  decide +kernel

/-- the hybrids refuse a first-preference elimination tie (IndexError / KeyError before the fix); two level last
    candidates are reported as a tie by Benham and refused by Tideman alternative; a profile without any pairwise
    contest (every ballot one shared rank) is a reported tie / a refusal as well -/
theorem benham_elimination_tie_refused : benham exCycleProfile = .error .notImplemented := by decide +kernel
theorem tideman_elimination_tie_refused :
    tideman true exCycleProfile = .error .notImplemented ∧ tideman false exCycleProfile = .error .notImplemented := by
  decide +kernel
theorem tideman_last_tie_refused :
    tideman true [([.one 0, .one 1], 1), ([.one 1, .one 0], 1)] = .error .notImplemented ∧
    benham [([.one 0, .one 1], 1), ([.one 1, .one 0], 1)] = .ok [Slot.tie [0, 1]] := by decide +kernel
theorem no_contest_refused :
    tideman true [([.shared [0, 1, 2]], 3)] = .error .notImplemented ∧
    tideman true [([.shared [0, 1]], 3)] = .error .notImplemented ∧
    benham [([.shared [0, 1, 2]], 3)] = .error .notImplemented ∧
    benham [([.shared [0, 1]], 3)] = .ok [Slot.tie [0, 1]] := by decide +kernel

/-- `eliminate_one` never hands a tie on together with other places: it answers with the places that stay, all of
    them candidates, or with the single place left (possibly a tie), or refuses -/
theorem eliminateOne_no_mixed_tie {p : Profile} {rem : List Slot} (h : eliminateOne p = .ok rem) :
    rem.length ≤ 1 ∨ rem.any isTie = false := (eliminateOne_spec h).2

/-! ### non-vacuity -/


/-- a Condorcet winner who never appears as a loser (the sparse shape of the property text) -/
def exCW : Pairwise := [((0, 1), 3), ((0, 2), 3), ((1, 2), 2), ((2, 1), 1)]

example : WF exCW := by decide +kernel
example : IsCW exCW 0 := by decide +kernel
example : copeland true exCW 1 = [Slot.cand 0] := by decide +kernel
example : minimax .winningVotes exCW 3 = [Slot.cand 0, Slot.cand 1, Slot.cand 2] := by decide +kernel
example : schulze exCW 3 = [Slot.cand 0, Slot.cand 1, Slot.cand 2] := by decide +kernel
example : schulze exCW 1 = [Slot.cand 0] := by decide +kernel

/-- `abc:4, bac:3, cba:2`: the Condorcet winner `1` is not the plurality winner -/
def exProfile : Profile := [([.one 0, .one 1, .one 2], 4), ([.one 1, .one 0, .one 2], 3), ([.one 2, .one 1, .one 0], 2)]
example : WF (rankedToCondorcet exProfile) := by decide +kernel
example : IsCW (rankedToCondorcet exProfile) 1 := by decide +kernel
example : benham exProfile = .ok [Slot.cand 1] := by decide +kernel
example : ProfileOK exProfile ∧ ∀ c ∈ allRankedCandidates exProfile, c ∈ candidates (rankedToCondorcet exProfile) := by
  decide +kernel
example : tideman true exProfile = .ok [Slot.cand 1] := by decide +kernel

end VL.C05
