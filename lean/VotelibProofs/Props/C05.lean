import VotelibModel.CondorcetRanked
namespace VL.C05
end VL.C05
