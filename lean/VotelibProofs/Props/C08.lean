/-
  C08 — Every evaluator fills exactly the seats asked for, with valid distinct winners.
  Property theorems only (namespace VL.C08): the two shape schemata and their instances for the modelled
  evaluators.  Instances proved here: plurality / get_n_best, QuotaSelector (C09 model), highest averages (C01 model).
  Instances for further families live with the property that owns their model and are listed in the evidence.
-/
import VotelibProofs.Props.C09
import VotelibProofs.Props.C01
namespace VL.C08
open VL

/-- individually elected candidates of a selection result -/
def electedOf : List Slot → List Cand
  | [] => []
  | Slot.cand c :: r => c :: electedOf r
  | Slot.tie _ :: r => electedOf r

/-- shape of a selection result for `n` seats over the candidates `cands` -/
structure SelShape (cands : List Cand) (n : Nat) (r : List Slot) : Prop where
  length   : r.length = n
  cand_ok  : ∀ c, Slot.cand c ∈ r → c ∈ cands
  tie_ok   : ∀ T, Slot.tie T ∈ r → ∀ c ∈ T, c ∈ cands
  nodup    : (electedOf r).Nodup
  /-- a tie object is repeated once per seat it contests and has more members than those seats -/
  tie_big  : ∀ T, Slot.tie T ∈ r → r.count (Slot.tie T) < T.length
  /-- nobody is both elected and listed in a tie -/
  disjoint : ∀ T, Slot.tie T ∈ r → ∀ c ∈ T, Slot.cand c ∉ r

theorem electedOf_map_cand (l : List Cand) : electedOf (l.map Slot.cand) = l := by
  induction l with
  | nil => rfl
  | cons x xs ih => simp [electedOf, ih]

theorem electedOf_append (a b : List Slot) : electedOf (a ++ b) = electedOf a ++ electedOf b := by
  induction a with
  | nil => rfl
  | cons x xs ih => cases x <;> simp [electedOf, ih]

theorem electedOf_replicate_tie (m : Nat) (T : List Cand) : electedOf (List.replicate m (Slot.tie T)) = [] := by
  induction m with
  | zero => rfl
  | succ k ih => simp [List.replicate_succ, electedOf, ih]

/-- keys of the candidates at or above `t`, in sorted order, are distinct -/
theorem ge_keys_nodup (votes : Votes) (hwf : C09.WF votes) (t : Rat) :
    ((aboveSorted votes t).map (·.1) ++ level votes t).Nodup := by
  have hs : ((sortDesc votes).map (·.1)).Nodup := ((sortDesc_perm votes).map _).nodup_iff.mpr hwf
  have hsplit := desc_filter_ge_split (sortDesc_desc votes) t
  have : (aboveSorted votes t).map (·.1) ++ level votes t
      = ((sortDesc votes).filter (fun p => decide (t ≤ p.2))).map (·.1) := by
    rw [hsplit, List.map_append]
    unfold aboveSorted level
    rw [sortDesc_filter_eq]
  rw [this]
  exact List.Nodup.sublist (List.Sublist.map _ List.filter_sublist) hs

/-- **Plurality / get_n_best has the selection shape** whenever at least `n ≥ 1` candidates stand. -/
theorem getNBest_shape (votes : Votes) (hwf : C09.WF votes) (n : Nat) (h1 : 1 ≤ n) (hlen : n ≤ votes.length) :
    SelShape (keys votes) n (getNBest votes n) := by
  have hlength := C09.getNBest_length votes n h1 hlen
  rcases Nat.lt_or_ge n votes.length with hlt | hge
  · obtain ⟨t, ht⟩ := nth_exists votes n h1 hlen
    have hnd := ge_keys_nodup votes hwf t
    have habove_key : ∀ p ∈ aboveSorted votes t, p.1 ∈ keys votes := fun p hp =>
      List.mem_map.mpr ⟨p, (C09.mem_aboveSorted.mp hp).1, rfl⟩
    have hlevel_key : ∀ c ∈ level votes t, c ∈ keys votes := by
      intro c hc
      simp only [level, List.mem_map, List.mem_filter] at hc
      obtain ⟨p, ⟨hp, _⟩, rfl⟩ := hc
      exact List.mem_map.mpr ⟨p, hp, rfl⟩
    rcases Nat.lt_or_ge n (cntGe votes t) with hno | hfit
    · have hres := C09.getNBest_tie votes n h1 hlt t ht hno
      have hcount : cntGe votes t = cntGt votes t + (level votes t).length := by
        have hsplit := congrArg List.length (desc_filter_ge_split (sortDesc_desc votes) t)
        rw [List.length_append] at hsplit
        have e1 : (List.filter (fun p => decide (t ≤ p.2)) (sortDesc votes)).length = cntGe votes t :=
          sortDesc_filter_length votes _
        have e2 : (List.filter (fun p => decide (t < p.2)) (sortDesc votes)).length = cntGt votes t :=
          sortDesc_filter_length votes _
        have e3 : (List.filter (fun p => decide (p.2 = t)) (sortDesc votes)).length = (level votes t).length := by
          rw [sortDesc_filter_eq]; simp [level]
        omega
      have hmemcand : ∀ c, Slot.cand c ∈ getNBest votes n ↔ c ∈ (aboveSorted votes t).map (·.1) := by
        intro c
        rw [hres]
        simp only [List.mem_append, List.mem_map, List.mem_replicate]
        constructor
        · rintro (⟨p, hp, he⟩ | ⟨_, he⟩)
          · injection he with he; exact ⟨p, hp, he⟩
          · cases he
        · rintro ⟨p, hp, rfl⟩; exact Or.inl ⟨p, hp, rfl⟩
      have hmemtie : ∀ T, Slot.tie T ∈ getNBest votes n → T = level votes t := by
        intro T hT
        rw [hres] at hT
        rcases List.mem_append.mp hT with h | h
        · obtain ⟨p, _, he⟩ := List.mem_map.mp h; cases he
        · have := (List.mem_replicate.mp h).2; injection this
      refine ⟨hlength, ?_, ?_, ?_, ?_, ?_⟩
      · intro c hc
        obtain ⟨p, hp, rfl⟩ := List.mem_map.mp ((hmemcand c).mp hc)
        exact habove_key p hp
      · intro T hT c hc; rw [hmemtie T hT] at hc; exact hlevel_key c hc
      · rw [hres, electedOf_append, electedOf_replicate_tie, List.append_nil]
        have : (aboveSorted votes t).map (fun p => Slot.cand p.1) = ((aboveSorted votes t).map (·.1)).map Slot.cand := by
          rw [List.map_map]; rfl
        rw [this, electedOf_map_cand]
        exact (List.nodup_append.mp hnd).1
      · intro T hT
        have hTe := hmemtie T hT
        subst hTe
        rw [hres, List.count_append, List.count_replicate_self]
        have hz : List.count (Slot.tie (level votes t)) ((aboveSorted votes t).map (fun p => Slot.cand p.1)) = 0 := by
          rw [List.count_eq_zero]
          intro hmem
          obtain ⟨p, _, he⟩ := List.mem_map.mp hmem; cases he
        rw [hz]
        have := ht.2.1
        omega
      · intro T hT c hc hcand
        rw [hmemtie T hT] at hc
        have h1' := (hmemcand c).mp hcand
        exact (List.nodup_append.mp hnd).2.2 c h1' c hc rfl
    · have hres := C09.getNBest_fits votes n h1 hlt t ht hfit
      have hform : getNBest votes n = ((aboveSorted votes t).map (·.1) ++ level votes t).map Slot.cand := by
        rw [hres, List.map_append, List.map_map]; rfl
      refine ⟨hlength, ?_, ?_, ?_, ?_, ?_⟩
      · intro c hc
        rw [hform] at hc
        obtain ⟨d, hd, he⟩ := List.mem_map.mp hc
        injection he with he; subst he
        rcases List.mem_append.mp hd with h | h
        · obtain ⟨p, hp, rfl⟩ := List.mem_map.mp h; exact habove_key p hp
        · exact hlevel_key d h
      · intro T hT; rw [hform] at hT; obtain ⟨d, _, he⟩ := List.mem_map.mp hT; cases he
      · rw [hform, electedOf_map_cand]; exact hnd
      · intro T hT; rw [hform] at hT; obtain ⟨d, _, he⟩ := List.mem_map.mp hT; cases he
      · intro T hT; rw [hform] at hT; obtain ⟨d, _, he⟩ := List.mem_map.mp hT; cases he
  · have hres := getNBest_all votes n hge
    have hform : getNBest votes n = ((sortDesc votes).map (·.1)).map Slot.cand := by
      rw [hres, List.map_map]; rfl
    have hs : ((sortDesc votes).map (·.1)).Nodup := ((sortDesc_perm votes).map _).nodup_iff.mpr hwf
    refine ⟨hlength, ?_, ?_, ?_, ?_, ?_⟩
    · intro c hc
      rw [hform] at hc
      obtain ⟨d, hd, he⟩ := List.mem_map.mp hc
      injection he with he; subst he
      obtain ⟨p, hp, rfl⟩ := List.mem_map.mp hd
      exact List.mem_map.mpr ⟨p, mem_sortDesc.mp hp, rfl⟩
    · intro T hT; rw [hform] at hT; obtain ⟨d, _, he⟩ := List.mem_map.mp hT; cases he
    · rw [hform, electedOf_map_cand]; exact hs
    · intro T hT; rw [hform] at hT; obtain ⟨d, _, he⟩ := List.mem_map.mp hT; cases he
    · intro T hT; rw [hform] at hT; obtain ⟨d, _, he⟩ := List.mem_map.mp hT; cases he

theorem plurality_shape (votes : Votes) (hwf : C09.WF votes) (n : Nat) (h1 : 1 ≤ n) (hlen : n ≤ votes.length) :
    SelShape (keys votes) n (plurality votes n) := getNBest_shape votes hwf n h1 hlen

/-- the only outcomes of the quota selector are a result or the declared refusal `VotingSystemError` (setting
    `on_more_over_quota` to one of its two documented values) -/
theorem quotaSelector_refusals (quota : Rat → Nat → Rat) (eq : Bool) (om : OnMore) (hom : om ≠ OnMore.invalid)
    (votes : Votes) (n : Nat) :
    (∃ r, quotaSelector quota eq om votes n = .ok r) ∨ quotaSelector quota eq om votes n = .error .votingSystemError := by
  unfold quotaSelector
  simp only
  split
  · cases om
    · right; rfl
    · left; exact ⟨_, rfl⟩
    · exact absurd rfl hom
  · left; exact ⟨_, rfl⟩

/-! ### distributions -/

/-- shape of a distribution result: positive awards to parties from the votes (or ties of them) -/
structure DistShape (cands : List Cand) (r : List (Key × Nat)) : Prop where
  positive : ∀ k m, (k, m) ∈ r → 0 < m
  cand_ok  : ∀ c m, (Key.cand c, m) ∈ r → c ∈ cands
  tie_ok   : ∀ T m, (Key.tie T, m) ∈ r → ∀ c ∈ T, c ∈ cands

theorem haResult_sum (cfg : HACfg) :
    ((haResult cfg).map (·.2)).sum = ((haCands cfg).map (haSeats cfg)).sum + tieSeats (haRun cfg) := by
  unfold haResult
  simp only [List.map_append, List.sum_append]
  congr 1
  · unfold haSeats
    induction haCands cfg with
    | nil => rfl
    | cons x xs ih =>
      by_cases hx : (haRun cfg).tot x > cfg.prevOf x
      · simp only [List.filterMap_cons, hx, if_true, List.map_cons, List.sum_cons, ih]
      · have : (haRun cfg).tot x - cfg.prevOf x = 0 := by omega
        simp only [List.filterMap_cons, hx, if_false, List.map_cons, List.sum_cons, ih, this, Nat.zero_add]
  · unfold tieSeats
    cases (haRun cfg).tie with
    | none => rfl
    | some tm =>
      obtain ⟨T, m⟩ := tm
      simp only
      split <;> simp_all

/-- **Highest averages has the distribution shape and fills exactly the open seats** (unless the caps exhaust first). -/
theorem ha_shape (cfg : HACfg) (h : CfgOK cfg) :
    DistShape (keys cfg.votes) (haResult cfg) ∧
    (((haResult cfg).map (·.2)).sum = openSeats cfg ∨
      ∀ c, Elig0 cfg c → cfg.prevOf c + haSeats cfg c = cfg.capOf c) := by
  refine ⟨⟨?_, ?_, ?_⟩, ?_⟩
  · intro k m hk
    cases k with
    | cand c => exact ((C01.haResult_cand cfg h c m).mp hk).2 ▸ ((C01.haResult_cand cfg h c m).mp hk).1
    | tie T => exact ((C01.haResult_tie cfg T m).mp hk).2
  · intro c m hk
    exact C01.ha_only_voted cfg h c ((C01.haResult_cand cfg h c m).mp hk).1
  · intro T m hk c hc
    obtain ⟨_, _, _, q, hq, _⟩ := C01.ha_tie cfg h T m ((C01.haResult_tie cfg T m).mp hk).1
    exact ((hq c).mp hc).1.1
  · have ht := C01.ha_total cfg h
    rcases ht.2 with h0 | hcap
    · left; rw [haResult_sum]; have := ht.1; omega
    · right; exact hcap

/-- non-vacuity -/
example : SelShape (keys [(1,5),(2,3),(3,3),(4,1)]) 2 (getNBest [(1,5),(2,3),(3,3),(4,1)] 2) :=
  getNBest_shape [(1,5),(2,3),(3,3),(4,1)] (by unfold C09.WF; decide) 2 (by decide) (by decide)

end VL.C08
