/-
  C08 — Every evaluator fills exactly the seats asked for, with valid distinct winners.
  Namespace VL.C08.  The two result-shape schemata live in Lemmas/ShapeDefs.lean:
    `SelShape cands n r`   exactly `n` places; every entry a candidate of `cands` or a tie of such candidates; nobody
                           elected twice; a tie object occurs fewer times than it has members; nobody both elected and tied
    `DistShape(I) cands r` positive awards, keys are candidates of `cands` or ties of them (no key twice) — plus the seat total
    `SeatlessShape cands r` distinct candidates of `cands` (selectors called without a number of seats)
  Per evaluator family ONE shape theorem (an instance of a schema, under explicit decidable well-formedness and
  `1 ≤ n ≤ #candidates present`) and ONE refusal theorem (the model's error outcomes ⊆ {VotingSystemError,
  NotImplementedError}; where the code does otherwise: `…_partial` naming the exact extra outcomes + a `…_witness`
  by `decide +kernel`).  The models are the ones the owning properties validated against the code; the C08 driver
  (VotelibDriver/C08.lean) evaluates exactly these functions on every generated case.

  this file:  plurality / get_n_best (C09), QuotaSelector (C09), highest averages (C01), LargestRemainder /
              QuotaDistributor (C02), Copeland / Schulze / minimax (C05), positional voting and AV / SAV
              (C13 converters + Plurality, composed in VotelibModel/ShapeCompose.lean), thresholds / open list /
              list tie-breaker (C16), InputOrderSelector
  Lemmas/ShapeRankedT2.lean:       Kemeny-Young, ranked pairs (partial: open finding), Condorcet winner / Smith /
              Schwartz sets, Benham, Tideman alternative, Bucklin one seat (partial: open findings)
  Lemmas/ShapeSTV.lean:            TransferableVoteSelector / TransferableVoteDistributor (C03/C04)
  Lemmas/ShapeCardinal*.lean:      score voting, SPAV, PAV, majority judgment, STAR, allocated score (C12)
  Lemmas/ShapeQuotaSubtract.lean:  the 'subtract' over-award policy of LargestRemainder / QuotaDistributor
  Lemmas/ShapeSequential.lean:     Baldwin, PreferenceAddition for n seats (model VotelibModel/ShapeSequential.lean)
-/
import VotelibProofs.Lemmas.ShapeDefs
import VotelibProofs.Props.C01
import VotelibProofs.Lemmas.ShapeQuota
import VotelibProofs.Lemmas.ShapeCondorcet
import VotelibProofs.Lemmas.ShapeConvert
import VotelibProofs.Lemmas.ShapeSimple
import VotelibProofs.Lemmas.ShapeRankedT2
import VotelibProofs.Lemmas.ShapeSTV
import VotelibProofs.Lemmas.ShapeCardinal
import VotelibProofs.Lemmas.ShapeCardinalGraded
import VotelibProofs.Lemmas.ShapeApprovalPAV
import VotelibProofs.Lemmas.ShapeQuotaSubtract
import VotelibProofs.Lemmas.ShapeSequential
import VotelibProofs.Lemmas.ShapeAux
import VotelibProofs.Lemmas.ShapeTieBreak
namespace VL.C08
open VL

theorem plurality_shape (votes : Votes) (hwf : C09.WF votes) (n : Nat) (h1 : 1 ≤ n) (hlen : n ≤ votes.length) :
    SelShape (keys votes) n (plurality votes n) := getNBest_shape votes hwf n h1 hlen

/-- the only outcomes of the quota selector are a result or the declared refusal `VotingSystemError` (setting
    `on_more_over_quota` to one of its two documented values) -/
theorem quotaSelector_refusals (quota : Rat → Nat → Rat) (eq : Bool) (om : OnMore) (hom : om ≠ OnMore.invalid)
    (votes : Votes) (n : Nat) :
    (∃ r, quotaSelector quota eq om votes n = .ok r) ∨ quotaSelector quota eq om votes n = .error .votingSystemError := by
  unfold quotaSelector
  simp only
  split
  · cases om
    · right; rfl
    · left; exact ⟨_, rfl⟩
    · exact absurd rfl hom
  · left; exact ⟨_, rfl⟩

/-- **QuotaSelector** (documented as electing only candidates over the quota — DESIGN 12.2 reads "exactly n" as
    "at most n" for it): every answer has the selection shape for some `m ≤ n` seats over the candidates of the votes,
    and `m = n` as soon as at least `n` candidates reach the quota. -/
theorem quotaSelector_shape (quota : Rat → Nat → Rat) (eq : Bool) (om : OnMore) (votes : Votes) (hwf : C09.WF votes)
    (n : Nat) (h1 : 1 ≤ n) (r : List Slot) (h : quotaSelector quota eq om votes n = .ok r) :
    ∃ m, m ≤ n ∧ SelShape (keys votes) m r ∧
      (n ≤ (votes.filter (fun p => decide (p.2 > quota (sumVals votes) n) ||
        (eq && decide (p.2 = quota (sumVals votes) n)))).length → m = n) := by
  unfold quotaSelector at h
  simp only at h
  generalize hov : votes.filter (fun p => decide (p.2 > quota (sumVals votes) n) ||
        (eq && decide (p.2 = quota (sumVals votes) n))) = over at h ⊢
  have hsub : List.Sublist over votes := hov ▸ List.filter_sublist
  have hwf' : C09.WF over := List.Nodup.sublist (List.Sublist.map _ hsub) hwf
  have hkeys : ∀ c ∈ keys over, c ∈ keys votes := fun c hc => (List.Sublist.map _ hsub).subset hc
  have hmain : ∀ m, 1 ≤ m → m ≤ over.length → SelShape (keys votes) m (getNBest over m) :=
    fun m hm1 hm => (getNBest_shape over hwf' m hm1 hm).mono hkeys
  have hres : r = getNBest over n := by
    split at h
    · cases om
      · cases h
      · injection h with h; exact h.symm
      · cases h
    · injection h with h; exact h.symm
  subst hres
  rcases Nat.lt_or_ge over.length n with hlt | hge
  · refine ⟨over.length, le_of_lt hlt, ?_, fun hn => by omega⟩
    rcases Nat.eq_zero_or_pos over.length with h0 | hpos
    · have : over = [] := List.length_eq_zero_iff.mp h0
      subst this
      rw [h0]
      have : getNBest [] n = [] := by rw [getNBest_all [] n (by simp)]; rfl
      rw [this]
      exact ⟨rfl, by simp, by simp, by simp [electedOf], by simp, by simp⟩
    · have := hmain over.length hpos (le_refl _)
      rw [getNBest_all over over.length (le_refl _)] at this
      rw [getNBest_all over n (le_of_lt hlt)]
      exact this
  · exact ⟨n, le_refl _, hmain n h1 hge, fun _ => rfl⟩

/-! ### seat-less threshold selectors and the open-list evaluator (models of C16) -/

section thresholds

/-- **AbsoluteThreshold**: distinct candidates of the votes; the model is total (no error outcome) -/
theorem abs_threshold_shape (t : Rat) (eq : Bool) (votes : Votes) (hwf : C09.WF votes) :
    SeatlessShape (keys votes) (absoluteThreshold t eq votes) :=
  seatless_of_sorted_filter votes hwf _

/-- **RelativeThreshold**: distinct candidates of the votes; it answers whenever the total weight is not zero, its only
    error outcome is the `ZeroDivisionError` of an all-zero profile (outside the property's quantifier) -/
theorem rel_threshold_shape (t : Rat) (eq : Bool) (votes : Votes) (hwf : C09.WF votes) :
    (∀ r, relativeThreshold t eq votes = .ok r → SeatlessShape (keys votes) r) ∧
    (sumVals votes ≠ 0 → ∃ r, relativeThreshold t eq votes = .ok r) ∧
    (∀ e, relativeThreshold t eq votes = .error e → sumVals votes = 0 ∧ e = .other "ZeroDivisionError") := by
  unfold relativeThreshold
  simp only
  refine ⟨?_, ?_, ?_⟩
  · intro r h
    split at h
    · injection h with h; subst h; exact ⟨List.nodup_nil, by simp⟩
    · split at h
      · cases h
      · injection h with h; subst h; exact seatless_of_sorted_filter votes hwf _
  · intro hne
    split
    · exact ⟨_, rfl⟩
    · exact ⟨_, rfl⟩
  · intro e h
    split at h
    · cases h
    · split at h
      · rename_i h0; injection h with h; exact ⟨h0, h.symm⟩
      · cases h

/-- **ThresholdOpenList**: for a duplicate-free candidate list containing everybody who received votes and
    `n ≤` its length the evaluator answers with exactly `n` distinct list members — whatever the configuration; its
    only error outcome (`openlist_error_iff` of C16) needs a voted candidate missing from the list. -/
theorem openlist_shape (cfg : OpenListCfg) (votes : Votes) (n : Nat) (clist : List Cand)
    (hwf : C09.WF votes) (hl : clist.Nodup) (hsub : ∀ c ∈ keys votes, c ∈ clist) (hn : n ≤ clist.length) :
    (∃ r, thresholdOpenList cfg votes n clist = .ok r ∧ SelShape clist n (r.map Slot.cand)) ∧
    ∀ e, thresholdOpenList cfg votes n clist ≠ .error e := by
  obtain ⟨r, hr, hlen, hnd, hmem⟩ := C16.openlist_length_distinct cfg votes n clist hwf hl hsub hn
  exact ⟨⟨r, hr, SelShape.of_cands hlen hnd hmem⟩, fun e he => by rw [hr] at he; cases he⟩

/-- **ListOrderTieBreaker around Plurality**: with a party list naming every candidate of the votes the wrapper
    always answers, with exactly `n` distinct candidates of the votes and no tie object left. -/
theorem list_tiebreaker_shape (votes : Votes) (n : Nat) (clist : List Cand) (hwf : C09.WF votes)
    (h1 : 1 ≤ n) (hlen : n ≤ votes.length) (hsub : ∀ c ∈ keys votes, c ∈ clist) :
    ∃ r : List Cand, listOrderTieBreaker (fun v k => .ok (plurality v k)) votes n clist = .ok (r.map Slot.cand) ∧
      SelShape (keys votes) n (r.map Slot.cand) := by
  obtain ⟨A, L, k, hform, hnd, hmem, hk, hsum⟩ := getNBest_struct votes hwf n h1 hlen
  have hAnd := (List.nodup_append.mp hnd).1
  have hLnd := (List.nodup_append.mp hnd).2.1
  rcases hk with hk | hk
  · subst hk
    refine ⟨A, ?_, SelShape.of_cands (by omega) hAnd (fun c hc => hmem c (List.mem_append_left _ hc))⟩
    have hres : plurality votes n = A.map Slot.cand := by simpa [plurality] using hform
    apply C16.list_tiebreak_no_tie _ _ _ _ _ (by simp only [hres])
    simp [List.any_map, Function.comp_def, Slot.isTie]
  · rcases Nat.eq_zero_or_pos k with hk0 | hk0
    · subst hk0
      refine ⟨A, ?_, SelShape.of_cands (by omega) hAnd (fun c hc => hmem c (List.mem_append_left _ hc))⟩
      have hres : plurality votes n = A.map Slot.cand := by simpa [plurality] using hform
      apply C16.list_tiebreak_no_tie _ _ _ _ _ (by simp only [hres])
      simp [List.any_map, Function.comp_def, Slot.isTie]
    · have hperm := (C16.sortByIndex_spec clist L).1
      rw [dedupKeep_of_nodup hLnd] at hperm
      refine ⟨A ++ (sortByIndex clist L).take k, ?_, SelShape.of_cands ?_ ?_ ?_⟩
      · unfold listOrderTieBreaker
        simp only [plurality, bind, Except.bind, hform]
        have hany : (A.map Slot.cand ++ List.replicate k (Slot.tie L)).any Slot.isTie = true := by
          rw [List.any_append]
          obtain ⟨m, hm⟩ := Nat.exists_eq_succ_of_ne_zero (Nat.pos_iff_ne_zero.mp hk0)
          rw [hm, List.replicate_succ, List.any_cons]
          simp [Slot.isTie]
        rw [if_pos hany, C16.break_by_list_nbest A L k clist
          (fun c hc => hsub c (hmem c (List.mem_append_right _ hc)))
          (by rw [dedupKeep_of_nodup hLnd]; omega)]
        rfl
      · rw [List.length_append, List.length_take, hperm.length_eq]; omega
      · refine List.nodup_append.mpr ⟨hAnd, (hperm.nodup_iff.mpr hLnd).sublist (List.take_sublist _ _), ?_⟩
        intro a ha b hb hab
        subst hab
        exact (List.nodup_append.mp hnd).2.2 a ha a (hperm.subset (List.mem_of_mem_take hb)) rfl
      · intro c hc
        rcases List.mem_append.mp hc with hc | hc
        · exact hmem c (List.mem_append_left _ hc)
        · exact hmem c (List.mem_append_right _ (hperm.subset (List.mem_of_mem_take hc)))

/-- **AlternativeThresholds** over seat-less selectors: whenever it answers, distinct candidates, each passed by one
    of the partial selectors (so candidates of the votes when the partial selectors have the seat-less shape) -/
theorem alternative_threshold_shape (partials : List Seatless) (votes : Votes) (out : List Cand)
    (h : alternativeThresholds partials votes = .ok out)
    (hparts : ∀ f ∈ partials, ∀ r, f votes = .ok r → ∀ c ∈ r, c ∈ keys votes) :
    SeatlessShape (keys votes) out := by
  obtain ⟨_, _, _, hmem, hnd, _⟩ := C16.alternative_is_union partials votes out h
  refine ⟨hnd, fun c hc => ?_⟩
  obtain ⟨f, hf, r, hr, hcr⟩ := (hmem c).mp hc
  exact hparts f hf r hr c hcr

/-- **InputOrderSelector**: the first `n` keys of the votes dictionary -/
theorem input_order_shape (votes : Votes) (hwf : C09.WF votes) (n : Nat) (hlen : n ≤ votes.length) :
    SelShape (keys votes) n (Shape.inputOrderSelector votes n) := by
  unfold Shape.inputOrderSelector
  refine SelShape.of_cands ?_ (hwf.sublist (List.take_sublist _ _)) (fun c hc => List.mem_of_mem_take hc)
  rw [List.length_take]
  have : (keys votes).length = votes.length := by simp [keys]
  omega

end thresholds

/-! ### auxiliary selectors whose order comes from outside the votes (model VotelibModel/ShapeAux.lean): the draws of the
    seeded generator / the values of the md5 chain are a parameter; the theorems hold for EVERY draw sequence -/

section auxiliary
open VL.ShapeAux

theorem selectNRandom_shape (votes : Votes) (hwf : C09.WF votes) (n : Nat) (hn : n ≤ votes.length) (draws : List Rat)
    (r : List Cand) (h : selectNRandom votes n draws = .ok r) : SelShape (keys votes) n (r.map Slot.cand) := by
  have hs : ((sortDesc votes).map (·.1)).Nodup := ((sortDesc_perm votes).map _).nodup_iff.mpr hwf
  have hsub : ∀ c ∈ (sortDesc votes).map (·.1), c ∈ keys votes := fun c hc =>
    ((sortDesc_perm votes).map (·.1)).subset hc
  unfold selectNRandom at h
  simp only at h
  split at h
  · cases h
  · unfold selectNRandomInt at h
    rw [if_neg (by simp only [List.length_map, sortDesc_length]; omega)] at h
    have hp := selectLoop_popped _ _ _ _ [] r (by simpa using hs) h
    exact SelShape.of_cands (by simpa using hp.length) hp.nodup (fun c hc => hsub c (by simpa using hp.sub c hc))

theorem selectNRandom_error (votes : Votes) (n : Nat) (hn : n ≤ votes.length) (draws : List Rat) (e : Err)
    (h : selectNRandom votes n draws = .error e) : e = .valueError ∨ e = noDraw ∨ e = badDraw := by
  unfold selectNRandom at h
  simp only at h
  split at h
  · injection h with h; exact Or.inl h.symm
  · unfold selectNRandomInt at h
    split at h
    · cases h
    · exact selectLoop_error _ _ _ _ _ e (by simp [length_accumulate]) (by simp only [List.length_map, sortDesc_length]; exact hn) h

/-- **Sortitor**: for every sequence of draws the answer lists exactly `n` distinct candidates of the votes -/
theorem sortitor_shape (votes : Votes) (hwf : C09.WF votes) (n : Nat) (hn : n ≤ votes.length) (draws : List Rat)
    (r : List Cand) (h : sortitor votes n draws = .ok r) : SelShape (keys votes) n (r.map Slot.cand) := by
  unfold sortitor at h
  have hk : keys ((sortDesc votes).map (fun p => (p.1, (1 : Rat)))) = (sortDesc votes).map (·.1) := by
    simp [keys, List.map_map, Function.comp_def]
  have hs : ((sortDesc votes).map (·.1)).Nodup := ((sortDesc_perm votes).map _).nodup_iff.mpr hwf
  have := selectNRandom_shape _ (by unfold C09.WF; rw [hk]; exact hs) n (by simpa [sortDesc_length] using hn) draws r h
  rw [hk] at this
  exact this.mono (fun c hc => ((sortDesc_perm votes).map (·.1)).subset hc)

/-- **RandomUnrankedBallotSelector** (integer counts): for every sequence of draws the answer lists exactly `n` distinct
    candidates of the votes -/
theorem random_ballot_shape (votes : Votes) (hwf : C09.WF votes) (n : Nat) (hn : n ≤ votes.length) (draws : List Rat)
    (r : List Cand) (h : randomBallot votes n draws = .ok r) : SelShape (keys votes) n (r.map Slot.cand) :=
  selectNRandom_shape votes hwf n hn draws r h

/-- the error outcomes of the two random selectors: an ill-formed draw sequence (too short, or a value `randrange` cannot
    return — the real generator delivers neither), or the `ValueError` of `randrange(1, 1)` once the remaining weight is
    exhausted.  Neither selector declares a refusal; they are outside the families of the property's third sentence. -/
theorem random_selectors_refusals_partial (votes : Votes) (n : Nat) (hn : n ≤ votes.length) (draws : List Rat) (e : Err) :
    (sortitor votes n draws = .error e → e = .valueError ∨ e = noDraw ∨ e = badDraw) ∧
    (randomBallot votes n draws = .error e → e = .valueError ∨ e = noDraw ∨ e = badDraw) :=
  ⟨fun h => selectNRandom_error _ n (by simpa [sortDesc_length] using hn) draws e h,
   fun h => selectNRandom_error votes n hn draws e h⟩

/-- **Sortitor never fails on the draws of a generator**: with at least one candidate and `n ≤ #candidates` its only error
    outcomes are those of an ill-formed draw sequence (too short / a value outside `randrange(1, remaining + 1)`); the
    `ValueError` of an exhausted weight is unreachable because every candidate weighs 1 (the loop keeps the cumulative
    weights of the remaining candidates: `accumulate_pop`). -/
theorem sortitor_refusals (votes : Votes) (hne : votes ≠ []) (n : Nat) (hn : n ≤ votes.length) (draws : List Rat) (e : Err)
    (h : sortitor votes n draws = .error e) : e = noDraw ∨ e = badDraw := by
  unfold sortitor selectNRandom at h
  simp only at h
  split at h
  · rename_i hemp
    exfalso
    have h0 := List.isEmpty_iff.mp hemp
    have := congrArg List.length h0
    simp only [sortDesc_length, List.length_map, List.length_nil] at this
    exact hne (List.length_eq_zero_iff.mp this)
  · unfold selectNRandomInt at h
    split at h
    · cases h
    · refine selectLoop_error_ones _ _ _ _ _ e (by simp) ?_ (by simpa [sortDesc_length] using hn) h
      intro w hw
      obtain ⟨p, hp, rfl⟩ := List.mem_map.mp hw
      obtain ⟨q, _, rfl⟩ := List.mem_map.mp (mem_sortDesc.mp hp)
      rfl

/-- the `ValueError` is reached inside the property's quantifier: one voter, three candidates, two seats -/
theorem random_ballot_exhausted_witness :
    randomBallot [(0, 1), (1, 0), (2, 0)] 2 [1] = .error .valueError ∧
    sortitor [(0, 1), (1, 0), (2, 0)] 2 [3, 1] = .ok [2, 0] := by
  constructor <;> decide +kernel

/-- **RFC3797Selector**: with one hash value per seat the selector answers, with exactly `n` distinct candidates of the
    votes, whatever the values are; it has no error outcome for `n ≤ #candidates` -/
theorem rfc3797_shape (votes : Votes) (hwf : C09.WF votes) (n : Nat) (hn : n ≤ votes.length) (draws : List Nat)
    (hd : n ≤ draws.length) :
    ∃ r, rfc3797 votes n draws = .ok r ∧ SelShape (keys votes) n (r.map Slot.cand) := by
  cases h : rfc3797 votes n draws with
  | error e =>
    unfold rfc3797 at h
    have := (rfcLoop_error n (keys votes) draws [] e (by simpa [keys] using hn) h).2
    omega
  | ok r =>
    unfold rfc3797 at h
    have hp := rfcLoop_popped n (keys votes) draws [] r (by rw [List.nil_append]; exact hwf) h
    exact ⟨r, rfl, SelShape.of_cands (by simpa using hp.length) hp.nodup (fun c hc => by simpa using hp.sub c hc)⟩

example : rfc3797 [(0, 5), (1, 0), (2, 7), (3, 1)] 3 [10, 7, 1] = .ok [2, 1, 3] := by decide +kernel

/-- **CandidateNumberRanker** (after fix fb7088f): for `n ≤ #candidates` every answer lists exactly `n` distinct candidates
    of the votes (by increasing candidacy number, equal numbers in dictionary order); it answers whenever every candidate has
    a number (or there is a single candidate); its only error outcome is the `TypeError` of comparing a missing number
    (`None`), which needs at least two candidates one of which has no number. -/
theorem candidate_number_shape (numbers : Cand → Option Int) (votes : Votes) (hwf : C09.WF votes) (n : Nat)
    (hn : n ≤ votes.length) :
    (∀ r, candidateNumberRanker numbers votes n = .ok r → SelShape (keys votes) n (r.map Slot.cand)) ∧
    ((∀ c ∈ keys votes, numbers c ≠ none) → ∃ r, candidateNumberRanker numbers votes n = .ok r) ∧
    (∀ e, candidateNumberRanker numbers votes n = .error e →
      e = typeErr ∧ 2 ≤ (keys votes).length ∧ ∃ c ∈ keys votes, numbers c = none) := by
  unfold candidateNumberRanker
  simp only
  refine ⟨?_, ?_, ?_⟩
  · intro r h
    split at h
    · cases h
    · injection h with h; subst h
      refine SelShape.of_cands ?_ ((sortBy_nodup hwf).sublist (List.take_sublist _ _))
        (fun c hc => mem_sortBy.mp (List.mem_of_mem_take hc))
      rw [List.length_take, sortBy_length]
      have : (keys votes).length = votes.length := by simp [keys]
      omega
  · intro hall
    rw [if_neg]
    · exact ⟨_, rfl⟩
    · rintro ⟨_, hany⟩
      obtain ⟨c, hc, hnone⟩ := List.any_eq_true.mp hany
      exact hall c hc (by simpa [Option.isNone_iff_eq_none] using hnone)
  · intro e h
    split at h
    · rename_i hc
      injection h with h
      obtain ⟨c, hcm, hnone⟩ := List.any_eq_true.mp hc.2
      exact ⟨h.symm, hc.1, c, hcm, by simpa [Option.isNone_iff_eq_none] using hnone⟩
    · cases h

/-- equal numbers keep the dictionary order; a missing number among several candidates is a TypeError; a lone candidate
    without number is returned -/
example : candidateNumberRanker (fun c => [some 3, some 1, some 3].getD c none) [(0, 1), (1, 2), (2, 5)] 3 = .ok [1, 0, 2] ∧
    candidateNumberRanker (fun c => [some 3, none].getD c none) [(0, 1), (1, 2)] 1 = .error typeErr ∧
    candidateNumberRanker (fun _ => none) [(0, 2)] 1 = .ok [0] := by
  refine ⟨by decide +kernel, by decide +kernel, by decide +kernel⟩

end auxiliary

/-! ### distributions -/

theorem haResult_sum (cfg : HACfg) :
    ((haResult cfg).map (·.2)).sum = ((haCands cfg).map (haSeats cfg)).sum + tieSeats (haRun cfg) := by
  unfold haResult
  simp only [List.map_append, List.sum_append]
  congr 1
  · unfold haSeats
    induction haCands cfg with
    | nil => rfl
    | cons x xs ih =>
      by_cases hx : (haRun cfg).tot x > cfg.prevOf x
      · simp only [List.filterMap_cons, hx, if_true, List.map_cons, List.sum_cons, ih]
      · have : (haRun cfg).tot x - cfg.prevOf x = 0 := by omega
        simp only [List.filterMap_cons, hx, if_false, List.map_cons, List.sum_cons, ih, this, Nat.zero_add]
  · unfold tieSeats
    cases (haRun cfg).tie with
    | none => rfl
    | some tm =>
      obtain ⟨T, m⟩ := tm
      simp only
      split <;> simp_all

/-- **Highest averages has the distribution shape and fills exactly the open seats** (unless the caps exhaust first). -/
theorem ha_shape (cfg : HACfg) (h : CfgOK cfg) :
    DistShape (keys cfg.votes) (haResult cfg) ∧
    (((haResult cfg).map (·.2)).sum = openSeats cfg ∨
      ∀ c, Elig0 cfg c → cfg.prevOf c + haSeats cfg c = cfg.capOf c) := by
  refine ⟨⟨?_, ?_, ?_⟩, ?_⟩
  · intro k m hk
    cases k with
    | cand c => exact ((C01.haResult_cand cfg h c m).mp hk).2 ▸ ((C01.haResult_cand cfg h c m).mp hk).1
    | tie T => exact ((C01.haResult_tie cfg T m).mp hk).2
  · intro c m hk
    exact C01.ha_only_voted cfg h c ((C01.haResult_cand cfg h c m).mp hk).1
  · intro T m hk c hc
    obtain ⟨_, _, _, q, hq, _⟩ := C01.ha_tie cfg h T m ((C01.haResult_tie cfg T m).mp hk).1
    exact ((hq c).mp hc).1.1
  · have ht := C01.ha_total cfg h
    rcases ht.2 with h0 | hcap
    · left; rw [haResult_sum]; have := ht.1; omega
    · right; exact hcap


/-- **Highest averages never refuses a request with an eligible party**: the only error outcome of the model is the
    `ValueError` of an empty initial pool (`zip(*[])`), i.e. no party of the votes is below its cap; for
    `evaluate(votes, n)` with `n ≥ 1` and at least one party there is no error outcome at all. -/
theorem ha_refusals (cfg : HACfg) (h : CfgOK cfg) :
    (∀ e, highestAverages cfg = .error e → e = .valueError ∧ ∀ c, ¬ Elig0 cfg c) ∧
    ((∃ c, Elig0 cfg c) → highestAverages cfg = .ok (haResult cfg)) ∧
    (cfg.prev = [] → cfg.caps = [] → 1 ≤ cfg.n → cfg.votes ≠ [] → highestAverages cfg = .ok (haResult cfg)) := by
  have hpool : (haInit cfg).pool = [] ↔ ∀ c, ¬ Elig0 cfg c := by
    unfold haInit
    simp only [List.filterMap_eq_nil_iff]
    constructor
    · intro hall c hc
      obtain ⟨p, hp, rfl⟩ := List.mem_map.mp hc.1
      have := hall p hp
      rw [if_pos ⟨h.div_pos _, hc.2⟩] at this
      cases this
    · intro hno p hp
      rw [if_neg]
      rintro ⟨_, hlt⟩
      exact hno p.1 ⟨List.mem_map.mpr ⟨p, hp, rfl⟩, hlt⟩
  have hok : (∃ c, Elig0 cfg c) → highestAverages cfg = .ok (haResult cfg) := by
    rintro ⟨c, hc⟩
    unfold highestAverages
    rw [if_neg (fun hp => (hpool.mp hp) c hc)]
  refine ⟨?_, hok, ?_⟩
  · intro e he
    unfold highestAverages at he
    split at he
    · rename_i hp; injection he with he; exact ⟨he.symm, hpool.mp hp⟩
    · cases he
  · intro hprev hcaps hn hne
    apply hok
    obtain ⟨p, hp⟩ := List.exists_mem_of_ne_nil _ hne
    refine ⟨p.1, List.mem_map.mpr ⟨p, hp, rfl⟩, ?_⟩
    unfold HACfg.prevOf HACfg.capOf
    rw [hprev, hcaps]
    simp only [natLookup, List.find?_nil]
    omega

/-! ### largest remainder / quota distributor (model VL.QD of C02; `evaluate(votes, n_seats)`: no previous gains, no caps) -/

section quota
open VL.QD

theorem totalAwarded_nonneg (q : Rat) (ae : Bool) (votes : Votes) : 0 ≤ C02.totalAwarded q ae [] [] votes := by
  unfold C02.totalAwarded
  rw [sumK_wholeSel]
  have : 0 ≤ (votes.map (wholeAward q ae [] [])).sum :=
    List.sum_nonneg (by intro x hx; obtain ⟨p, _, rfl⟩ := List.mem_map.mp hx; exact wholeAward_nonneg _ _ _ _ _)
  have h0 : sumI [] = 0 := rfl
  omega

/-- **QuotaDistributor** (`evaluate(votes, n)`, any over-award policy except the subtract loop): positive awards to
    parties of the votes, no key twice, and never more than `n` seats unless the caller chose `'ignore'`; the only
    refusal is the declared `VotingSystemError` of policy `'error'`.  (Reading of DESIGN 12.2: the distributor is
    documented as not filling the house, so "exactly n" reads "at most n".) -/
theorem qd_shape_pos (cfg : Cfg) (votes : Votes) (n : Nat) (hwf : C02.WF votes [])
    (hq : 0 < cfg.quota (sumVals votes) n) (hpol : cfg.onOver ≠ .subtract) :
    (∀ res, quotaDistribute cfg votes n [] [] = .ok res →
        DistShapeI (keys votes) res ∧ (sumK res ≤ n ∨ cfg.onOver = .ignore)) ∧
    (∀ e, quotaDistribute cfg votes n [] [] = .error e → e = .votingSystemError ∧ cfg.onOver = .error) := by
  have hgood := goodSel_wholeSel (cfg.quota (sumVals votes) n) cfg.acceptEqual [] [] votes
  have hnd := KNodup_wholeSel (cfg.quota (sumVals votes) n) cfg.acceptEqual [] [] votes hwf.keys_nodup
  have hshape := distShapeI_of _ _ hgood.1 hgood.2 hnd
  obtain ⟨h1, h2, h3, _⟩ := C02.qd_policy_honoured cfg votes n [] [] hwf hq
  rcases lt_or_ge (n : Int) (C02.totalAwarded (cfg.quota (sumVals votes) n) cfg.acceptEqual [] [] votes) with hgt | hle
  · cases hp : cfg.onOver with
    | subtract => exact absurd hp hpol
    | error =>
      rw [h2 hgt hp]
      exact ⟨fun res h => (by cases h), fun e h => (by injection h with h; exact ⟨h.symm, rfl⟩)⟩
    | ignore =>
      rw [h3 hgt hp]
      exact ⟨fun res h => (by injection h with h; subst h; exact ⟨hshape, Or.inr rfl⟩), fun e h => (by cases h)⟩
  · rw [h1 hle]
    refine ⟨fun res h => ?_, fun e h => by cases h⟩
    injection h with h; subst h
    refine ⟨hshape, Or.inl ?_⟩
    unfold C02.totalAwarded at hle
    have h0 : sumI [] = 0 := rfl
    omega

/-- **LargestRemainder** (`evaluate(votes, n)`, `1 ≤ n ≤ #parties`, positive quota, any over-award policy except the
    subtract loop): positive awards to parties of the votes or ties of them, no key twice, **exactly `n` seats**
    (unless the caller chose `'ignore'` and the whole quotas alone exceed the house); the only refusal is the declared
    `VotingSystemError` of policy `'error'`. -/
theorem lr_shape_pos (cfg : Cfg) (votes : Votes) (n : Nat) (hwf : C02.WF votes [])
    (hq : 0 < cfg.quota (sumVals votes) n) (hlen : n ≤ votes.length) (hpol : cfg.onOver ≠ .subtract) :
    (∀ res, largestRemainder cfg votes n [] [] = .ok res →
        DistShapeI (keys votes) res ∧ (sumK res = n ∨ (cfg.onOver = .ignore ∧ (n : Int) < sumK res))) ∧
    (∀ e, largestRemainder cfg votes n [] [] = .error e → e = .votingSystemError ∧ cfg.onOver = .error) := by
  have hgood := goodSel_wholeSel (cfg.quota (sumVals votes) n) cfg.acceptEqual [] [] votes
  have hnd := KNodup_wholeSel (cfg.quota (sumVals votes) n) cfg.acceptEqual [] [] votes hwf.keys_nodup
  have h0 : sumI [] = 0 := rfl
  rcases lt_or_ge (n : Int) (C02.totalAwarded (cfg.quota (sumVals votes) n) cfg.acceptEqual [] [] votes) with hgt | hle
  · cases hp : cfg.onOver with
    | subtract => exact absurd hp hpol
    | error =>
      rw [C02.lr_policy_error cfg votes n [] [] hwf hq hp hgt]
      exact ⟨fun res h => (by cases h), fun e h => (by injection h with h; exact ⟨h.symm, rfl⟩)⟩
    | ignore =>
      rw [C02.lr_policy_ignore cfg votes n [] [] hwf hq hp hgt]
      refine ⟨fun res h => ?_, fun e h => by cases h⟩
      injection h with h; subst h
      refine ⟨distShapeI_of _ _ hgood.1 hgood.2 hnd, Or.inr ⟨rfl, ?_⟩⟩
      unfold C02.totalAwarded at hgt
      omega
  · have hplain : C02.Plain cfg votes n [] [] := ⟨hwf, hq, hle⟩
    rw [C02.lr_whole_then_remainders cfg votes n [] [] hplain]
    refine ⟨fun res h => ?_, fun e h => by cases h⟩
    have htot := C02.lr_total cfg votes n [] [] hplain (by
      rw [lrRems_plain hq cfg.acceptEqual votes hwf.votes_nonneg, List.length_map]
      have := totalAwarded_nonneg (cfg.quota (sumVals votes) n) cfg.acceptEqual votes
      unfold C02.remSeats
      omega) res (by rw [C02.lr_whole_then_remainders cfg votes n [] [] hplain]; exact h)
    injection h with h; subst h
    refine ⟨?_, Or.inl (by omega)⟩
    have hkeys : ∀ s ∈ C02.lrBest (cfg.quota (sumVals votes) n) cfg.acceptEqual n [] [] votes,
        KeyOK (keys votes) (slotKey s) := fun s hs =>
      (keyOK_slotKey_getNBest _ _ s hs).mono (keys_lrRems_subset _ _ _ _ _)
    have hg := goodSel_foldl_incK _ hkeys _ hgood
    exact distShapeI_of _ _ hg.1 hg.2 (KNodup_foldl_incK _ _ hnd)

/-- the five registered quotas that are positive for every positive total (so `lr_shape` / `qd_shape` apply) -/
theorem quota_pos (V : Rat) (n : Nat) (hV : 0 < V) :
    0 < Gen.Quota.droop V n ∧ 0 < Gen.Quota.hagenbach_bischoff V n ∧ 0 < Gen.Quota.imperiali V n ∧
    0 < Gen.Quota.hagenbach_bischoff_ceil V n ∧ (1 ≤ n → 0 < Gen.Quota.hare V n) := by
  refine ⟨C02.quota_droop_pos V n (le_of_lt hV), ?_, ?_, ?_, ?_⟩
  · rw [C02.quota_textbook_hagenbach_bischoff]; positivity
  · rw [C02.quota_textbook_imperiali]; positivity
  · rw [C02.quota_textbook_hagenbach_bischoff_ceil]
    have : (0 : Rat) < V / ((n : Rat) + 1) := by positivity
    exact_mod_cast Int.ceil_pos.mpr this
  · intro hn
    rw [C02.quota_textbook_hare]
    have : (0 : Rat) < n := by exact_mod_cast hn
    positivity

/-- **QuotaDistributor, every quota function** (since fix eca6e34 a non-positive quota is refused with the declared
    `VotingSystemError` instead of dividing by zero): under the policies 'error' and 'ignore' every answer has the
    distribution shape with at most `n` seats (unless 'ignore'), and EVERY error outcome is `VotingSystemError` — raised
    exactly for a non-positive quota or by the policy 'error'. -/
theorem qd_shape (cfg : Cfg) (votes : Votes) (n : Nat) (hwf : C02.WF votes []) (hpol : cfg.onOver ≠ .subtract) :
    (∀ res, quotaDistribute cfg votes n [] [] = .ok res →
        DistShapeI (keys votes) res ∧ (sumK res ≤ n ∨ cfg.onOver = .ignore)) ∧
    (∀ e, quotaDistribute cfg votes n [] [] = .error e →
        e = .votingSystemError ∧ (cfg.quota (sumVals votes) n ≤ 0 ∨ cfg.onOver = .error)) := by
  rcases lt_or_ge 0 (cfg.quota (sumVals votes) n) with hq | hq
  · obtain ⟨h1, h2⟩ := qd_shape_pos cfg votes n hwf hq hpol
    exact ⟨h1, fun e he => ⟨(h2 e he).1, Or.inr (h2 e he).2⟩⟩
  · rw [(C02.qd_refuses_nonpositive_quota cfg votes n [] [] hq).1]
    exact ⟨fun res h => (by cases h), fun e h => (by injection h with h; exact ⟨h.symm, Or.inl hq⟩)⟩

/-- **LargestRemainder, every quota function** (`1 ≤ n ≤ #parties`, policies 'error' and 'ignore'): every answer has the
    distribution shape with exactly `n` seats (unless 'ignore' and the whole quotas alone exceed the house), and EVERY
    error outcome is the declared `VotingSystemError` (non-positive quota, or policy 'error'). -/
theorem lr_shape (cfg : Cfg) (votes : Votes) (n : Nat) (hwf : C02.WF votes []) (hlen : n ≤ votes.length)
    (hpol : cfg.onOver ≠ .subtract) :
    (∀ res, largestRemainder cfg votes n [] [] = .ok res →
        DistShapeI (keys votes) res ∧ (sumK res = n ∨ (cfg.onOver = .ignore ∧ (n : Int) < sumK res))) ∧
    (∀ e, largestRemainder cfg votes n [] [] = .error e →
        e = .votingSystemError ∧ (cfg.quota (sumVals votes) n ≤ 0 ∨ cfg.onOver = .error)) := by
  rcases lt_or_ge 0 (cfg.quota (sumVals votes) n) with hq | hq
  · obtain ⟨h1, h2⟩ := lr_shape_pos cfg votes n hwf hq hlen hpol
    exact ⟨h1, fun e he => ⟨(h2 e he).1, Or.inr (h2 e he).2⟩⟩
  · rw [(C02.qd_refuses_nonpositive_quota cfg votes n [] [] hq).2]
    exact ⟨fun res h => (by cases h), fun e h => (by injection h with h; exact ⟨h.symm, Or.inl hq⟩)⟩

/-- **the refusal clause of the largest-remainder family in full**: whatever the quota function and the over-award
    policy (incl. the subtract loop, `ShapeQuotaSubtract`), the only error outcome of `evaluate(votes, n)` is the declared
    `VotingSystemError`. -/
theorem lr_refusals (cfg : Cfg) (votes : Votes) (n : Nat) (hwf : C02.WF votes []) (e : Err) :
    (quotaDistribute cfg votes n [] [] = .error e → e = .votingSystemError) ∧
    (largestRemainder cfg votes n [] [] = .error e → e = .votingSystemError) := by
  rcases lt_or_ge 0 (cfg.quota (sumVals votes) n) with hq | hq
  · by_cases hpol : cfg.onOver = .subtract
    · exact ⟨fun h => absurd h ((qd_subtract_refusals cfg votes n hwf hq hpol).2 e),
        fun h => absurd h ((lr_subtract_refusals cfg votes n hwf hq hpol).2 e)⟩
    · exact ⟨fun h => ((qd_shape_pos cfg votes n hwf hq hpol).2 e h).1, by
        intro h
        -- `lr_shape_pos` needs `n ≤ #parties` only for the seat total; the error analysis does not
        unfold largestRemainder at h
        cases hqd : quotaDistribute cfg votes n [] [] with
        | error e' =>
          rw [hqd] at h
          injection h with h
          subst h
          exact ((qd_shape_pos cfg votes n hwf hq hpol).2 e' hqd).1
        | ok r =>
          rw [hqd] at h
          simp only at h
          split at h
          · rename_i h0; exact absurd h0.1 (ne_of_gt hq)
          · cases h⟩
  · obtain ⟨h1, h2⟩ := C02.qd_refuses_nonpositive_quota cfg votes n [] [] hq
    rw [h1, h2]
    exact ⟨fun h => (by injection h with h; exact h.symm), fun h => (by injection h with h; exact h.symm)⟩

/-- (fixed finding C08-lr-rounded-quota-zero, eca6e34) the two *rounded* quotas are 0 when the votes are fewer than half
    the seats (resp. seats+1): the request is now refused with the declared `VotingSystemError` (it used to raise
    `ZeroDivisionError` from `Fraction(v, 0)`). -/
theorem lr_quota_nonpositive_refused :
    largestRemainder ⟨Gen.Quota.hare_rounded, true, .error⟩ [(0, 1), (1, 0), (2, 0)] 3 [] [] = .error .votingSystemError ∧
    largestRemainder ⟨Gen.Quota.hagenbach_bischoff_rounded, true, .error⟩ [(0, 1), (1, 0), (2, 0)] 3 [] [] =
      .error .votingSystemError ∧
    quotaDistribute ⟨Gen.Quota.hare_rounded, true, .error⟩ [(0, 1), (1, 0), (2, 0)] 3 [] [] = .error .votingSystemError := by
  refine ⟨?_, ?_, ?_⟩ <;> decide +kernel

/-- non-vacuity: Droop with a tie for the last seat; Imperiali over-awarding -/
example : C02.WF [(0, 5), (1, 3), (2, 3), (3, 1)] [] ∧ 0 < Gen.Quota.droop (sumVals [(0, 5), (1, 3), (2, 3), (3, 1)]) 2 ∧
    largestRemainder ⟨Gen.Quota.droop, true, .error⟩ [(0, 5), (1, 3), (2, 3), (3, 1)] 2 [] [] =
      .ok [(.cand 0, 1), (.tie [1, 2], 1)] := by
  refine ⟨by unfold C02.WF; decide +kernel, by decide +kernel, by decide +kernel⟩

end quota

/-! ### Copeland, Schulze, minimax (models of C05 on a pairwise dictionary `v`; candidates present = the candidates
    occurring in a pair, DESIGN 12.2).  The three models are total functions: they have no error outcome at all, so
    the refusal clause holds trivially for them (the correspondence ties this to the code). -/

section condorcet
open VL.Condorcet

/-- **Copeland** (plain and with second-order tie breaking) -/
theorem copeland_shape (secondOrder : Bool) (v : Pairwise) (n : Nat) (h1 : 1 ≤ n) (hlen : n ≤ (candidates v).length) :
    SelShape (candidates v) n (copeland secondOrder v n) := by
  unfold copeland
  simp only
  have hkeys : keys (seededScores v (copelandScoresRaw (pairwiseWins v false))) = candidates v := keys_seededScores _ _
  have hnd := nodup_candidates v
  have hbase := getNBest_shape_of_keys _ _ hkeys hnd n h1 hlen
  split
  · rename_i hcond
    obtain ⟨A, L, k, hform, hnodup, hmem, hk, hsum⟩ := getNBest_struct
      (seededScores v (copelandScoresRaw (pairwiseWins v false))) (by unfold C09.WF; rw [hkeys]; exact hnd) n h1
      (by rw [length_seededScores]; exact hlen)
    rw [hform] at hcond ⊢
    rw [any_isTie] at hcond
    have hk0 : 0 < k := by simp at hcond; exact hcond.2
    rcases hk with hk | hk
    · omega
    · rw [← hsum]
      exact breakSecondOrder_shape (candidates v) A L k _ _ hnodup (fun c hc => by rw [← hkeys]; exact hmem c hc) hk0 hk
  · exact hbase

/-- **Schulze** -/
theorem schulze_shape (v : Pairwise) (n : Nat) (h1 : 1 ≤ n) (hlen : n ≤ (candidates v).length) :
    SelShape (candidates v) n (schulze v n) := by
  unfold schulze
  exact getNBest_shape_of_keys _ _ (keys_schulzeScores v) (nodup_candidates v) n h1 hlen

/-- **minimax** (winning votes, margins, pairwise opposition) -/
theorem minimax_shape (sc : Scorer) (v : Pairwise) (n : Nat) (h1 : 1 ≤ n) (hlen : n ≤ (candidates v).length) :
    SelShape (candidates v) n (minimax sc v n) := by
  rw [minimax_eq]
  refine getNBest_shape_of_keys _ _ ?_ (nodup_candidates v) n h1 hlen
  have := okeys_minimaxTable sc v
  simpa [keys, okeys, List.map_map, Function.comp_def] using this

/-- non-vacuity: a three-way Copeland tie for two seats is broken by second-order scores or reported -/
example : copeland true [((0, 1), 1), ((1, 0), 1), ((0, 2), 1), ((2, 0), 1), ((1, 2), 1), ((2, 1), 1)] 2 =
    [Slot.tie [0, 1, 2], Slot.tie [0, 1, 2]] := by decide +kernel

end condorcet

/-! ### positional voting and approval voting: `PreConverted(converter, Plurality())` (model VL.Shape, converters of C13) -/

section converted
open VL.Convert VL.Shape

/-- **positional voting** (Borda, Dowdall, geometric, modified Borda, fixed-top, sequence scorers): for every profile
    the scorer accepts — every well-formed profile, `scorerOK_of_wf` — the composed evaluator answers, and the answer
    has the selection shape over the candidates ranked on some ballot.  In particular there is no error outcome. -/
theorem positional_shape (sc : Scorer) (p : RProfile) (n : Nat)
    (hs : C13.ScorerOK sc (allRankedCandidates p).length p) (h1 : 1 ≤ n) (hlen : n ≤ (allRankedCandidates p).length) :
    ∃ r, positionalPlurality sc p n = .ok r ∧ SelShape (allRankedCandidates p) n r := by
  obtain ⟨d, hd, hmem, hnd, _⟩ := C13.positional_sum sc _ p (C13.covers_allRankedCandidates p) hs
  refine ⟨plurality d n, ?_, ?_⟩
  · unfold positionalPlurality preConverted rankedToPositional
    rw [hd]
  · exact plurality_over_dict d _ (nodup_allRankedCandidates p) (hnd (nodup_allRankedCandidates p)) hmem n h1 hlen

/-- the only way positional voting fails: the scorer refuses a ballot (Borda: more ranks than candidates — impossible
    for well-formed ballots; `Geometric(0)`: division by zero).  Neither is a declared refusal, neither is reachable
    from a well-formed profile with a sane scorer (`scorerOK_of_wf`). -/
theorem positional_refusals (sc : Scorer) (p : RProfile) (n : Nat) (e : Err)
    (h : positionalPlurality sc p n = .error e) : ¬ C13.ScorerOK sc (allRankedCandidates p).length p := by
  intro hs
  obtain ⟨d, hd, _⟩ := C13.positional_sum sc _ p (C13.covers_allRankedCandidates p) hs
  unfold positionalPlurality preConverted rankedToPositional at h
  rw [hd] at h
  cases h

/-- **approval voting (AV) and satisfaction approval voting (SAV)**: whenever no approval set is empty under SAV
    (`ApprovalOK`; an empty set makes `Fraction(n, 0)` raise), the composed evaluator answers and the answer has the
    selection shape over the approved candidates. -/
theorem approval_shape (split : Bool) (p : AProfile) (n : Nat) (hok : C13.ApprovalOK split p)
    (h1 : 1 ≤ n) (hlen : n ≤ (approvalCands p).length) :
    ∃ r, approvalPlurality split p n = .ok r ∧ SelShape (approvalCands p) n r := by
  obtain ⟨d, hd, hnd, _⟩ := C13.approvalToSimple_sum split p hok
  refine ⟨plurality d n, ?_, ?_⟩
  · unfold approvalPlurality preConverted
    rw [hd]
  · have heq := approvalToSimple_eq_ok split p hok
    rw [hd] at heq
    injection heq with heq
    refine plurality_over_dict d _ (nodup_canonSet _) hnd ?_ n h1 hlen
    intro k
    rw [heq, mem_dkeys_approvalFold, mem_canonSet, List.mem_flatMap]
    simp [dkeys]

/-- the only error of AV/SAV is the `ZeroDivisionError` of an empty approval set under SAV — outside the property's
    quantifier (a ballot approving nobody), and not a declared refusal -/
theorem approval_refusals (split : Bool) (p : AProfile) (n : Nat) (e : Err)
    (h : approvalPlurality split p n = .error e) :
    split = true ∧ (∃ bw ∈ p, bw.1 = []) ∧ e = .other "ZeroDivisionError" := by
  by_cases hok : C13.ApprovalOK split p
  · obtain ⟨d, hd, _⟩ := C13.approvalToSimple_sum split p hok
    unfold approvalPlurality preConverted at h
    rw [hd] at h
    cases h
  · have hs : split = true := by
      cases split with
      | true => rfl
      | false => exact absurd (fun hf => by cases hf) hok
    subst hs
    have := C13.approvalToSimple_rejects p hok
    unfold approvalPlurality preConverted at h
    rw [this] at h
    injection h with h
    unfold C13.ApprovalOK at hok
    push Not at hok
    obtain ⟨_, bw, hbw, he⟩ := hok
    exact ⟨rfl, ⟨bw, hbw, he⟩, h.symm⟩

/-- non-vacuity -/
example : RankedWF [([.one 0, .shared [1, 2]], 2), ([.one 2, .one 0], 1)] ∧
    positionalPlurality (.borda 1) [([.one 0, .shared [1, 2]], 2), ([.one 2, .one 0], 1)] 2 =
      .ok [Slot.cand 0, Slot.cand 2] := by
  constructor
  · unfold RankedWF; decide
  · decide +kernel

example : approvalPlurality true [([0, 1], 2), ([1, 2], 2), ([0, 2], 2)] 2 = .ok [Slot.tie [0, 1, 2], Slot.tie [0, 1, 2]] := by
  decide +kernel

end converted

/-- non-vacuity -/
example : SelShape (keys [(1,5),(2,3),(3,3),(4,1)]) 2 (getNBest [(1,5),(2,3),(3,3),(4,1)] 2) :=
  getNBest_shape [(1,5),(2,3),(3,3),(4,1)] (by unfold C09.WF; decide) 2 (by decide) (by decide)

end VL.C08
