/-
  C10 — Outcomes do not depend on ballot order, candidate names or hash seed.
  Property theorems only (namespace VL.C10): permutation invariance and renaming equivariance of the modelled
  evaluators, and the symmetric-candidates corollary.  Hash-seed independence is a fact about CPython's set/dict
  iteration that no Lean model exhibits; it is sampled by the harness only (labelled partial).
-/
import VotelibProofs.Props.C09
import VotelibProofs.Lemmas.HAPerm
import VotelibProofs.Lemmas.HARename
namespace VL.C10
open VL

/-- two selection results that agree up to the order of the individually elected candidates and the order in which a
    tie lists its members: same elected set, same tie (as a set), same number of seats carried by the tie -/
def SlotsEquiv (r₁ r₂ : List Slot) : Prop :=
  ∃ (e₁ e₂ T₁ T₂ : List Cand) (m : Nat),
    r₁ = e₁.map Slot.cand ++ List.replicate m (Slot.tie T₁) ∧
    r₂ = e₂.map Slot.cand ++ List.replicate m (Slot.tie T₂) ∧ e₁.Perm e₂ ∧ T₁.Perm T₂

theorem cntGt_perm {v₁ v₂ : Votes} (h : v₁.Perm v₂) (t : Rat) : cntGt v₁ t = cntGt v₂ t := (h.filter _).length_eq
theorem cntGe_perm {v₁ v₂ : Votes} (h : v₁.Perm v₂) (t : Rat) : cntGe v₁ t = cntGe v₂ t := (h.filter _).length_eq

theorem isNth_perm {v₁ v₂ : Votes} (h : v₁.Perm v₂) {n : Nat} {t : Rat} (ht : IsNth v₁ n t) : IsNth v₂ n t := by
  obtain ⟨⟨p, hp, hpt⟩, h1, h2⟩ := ht
  exact ⟨⟨p, h.mem_iff.mp hp, hpt⟩, by rw [← cntGt_perm h]; exact h1, by rw [← cntGe_perm h]; exact h2⟩

theorem aboveSorted_perm {v₁ v₂ : Votes} (h : v₁.Perm v₂) (t : Rat) : (aboveSorted v₁ t).Perm (aboveSorted v₂ t) := by
  unfold aboveSorted
  exact (((sortDesc_perm v₁).trans h).trans (sortDesc_perm v₂).symm).filter _

theorem level_perm {v₁ v₂ : Votes} (h : v₁.Perm v₂) (t : Rat) : (level v₁ t).Perm (level v₂ t) := by
  unfold level
  exact (h.filter _).map _

/-- **Ballot-order independence of plurality / get_n_best.**  Presenting the same candidate totals in another
    insertion order yields the same elected set and the same tie (members and seats). -/
theorem getNBest_perm (v₁ v₂ : Votes) (h : v₁.Perm v₂) (n : Nat) (h1 : 1 ≤ n) :
    SlotsEquiv (getNBest v₁ n) (getNBest v₂ n) := by
  have hlen := h.length_eq
  rcases Nat.lt_or_ge n v₁.length with hlt | hge
  · obtain ⟨t, ht⟩ := nth_exists v₁ n h1 (Nat.le_of_lt hlt)
    have ht2 := isNth_perm h ht
    have hlt2 : n < v₂.length := by omega
    rcases Nat.lt_or_ge n (cntGe v₁ t) with hno | hfit
    · have hno2 : n < cntGe v₂ t := by rw [← cntGe_perm h]; exact hno
      refine ⟨(aboveSorted v₁ t).map (·.1), (aboveSorted v₂ t).map (·.1), level v₁ t, level v₂ t, n - cntGt v₁ t, ?_, ?_,
        (aboveSorted_perm h t).map _, level_perm h t⟩
      · rw [C09.getNBest_tie v₁ n h1 hlt t ht hno, List.map_map]; rfl
      · rw [C09.getNBest_tie v₂ n h1 hlt2 t ht2 hno2, List.map_map, cntGt_perm h]; rfl
    · have hfit2 : cntGe v₂ t ≤ n := by rw [← cntGe_perm h]; exact hfit
      refine ⟨(aboveSorted v₁ t).map (·.1) ++ level v₁ t, (aboveSorted v₂ t).map (·.1) ++ level v₂ t, [], [], 0, ?_, ?_,
        ((aboveSorted_perm h t).map _).append (level_perm h t), List.Perm.refl _⟩
      · rw [C09.getNBest_fits v₁ n h1 hlt t ht hfit]; simp [List.map_append, List.map_map, Function.comp_def]
      · rw [C09.getNBest_fits v₂ n h1 hlt2 t ht2 hfit2]; simp [List.map_append, List.map_map, Function.comp_def]
  · refine ⟨(sortDesc v₁).map (·.1), (sortDesc v₂).map (·.1), [], [], 0, ?_, ?_,
      (((sortDesc_perm v₁).trans h).trans (sortDesc_perm v₂).symm).map _, List.Perm.refl _⟩
    · rw [getNBest_all v₁ n hge]; simp [List.map_map, Function.comp_def]
    · rw [getNBest_all v₂ n (by omega)]; simp [List.map_map, Function.comp_def]

def renSlot (σ : Cand → Cand) : Slot → Slot
  | .cand c => .cand (σ c)
  | .tie T => .tie (T.map σ)

/-- **Renaming equivariance of plurality / get_n_best** — for every renaming (keys are never compared). -/
theorem getNBest_rename (σ : Cand → Cand) (votes : Votes) (n : Nat) :
    getNBest (renVotes σ votes) n = (getNBest votes n).map (renSlot σ) := by
  have hins : ∀ (x : Cand × Rat) (l : Votes),
      insertDesc (σ x.1, x.2) (l.map (fun p => (σ p.1, p.2))) = (insertDesc x l).map (fun p => (σ p.1, p.2)) := by
    intro x l
    induction l with
    | nil => simp [insertDesc]
    | cons y ys ih =>
      simp only [List.map_cons, insertDesc]
      by_cases hlt : x.2 < y.2
      · rw [if_pos hlt, if_pos hlt, ih]; rfl
      · rw [if_neg hlt, if_neg hlt]; rfl
  have hsort : ∀ l : Votes, sortDesc (l.map (fun p => (σ p.1, p.2))) = (sortDesc l).map (fun p => (σ p.1, p.2)) := by
    intro l
    induction l with
    | nil => rfl
    | cons x xs ih => simp only [List.map_cons, sortDesc]; rw [ih, hins]
  unfold getNBest renVotes
  simp only [hsort, List.length_map, List.getElem?_map]
  split
  · cases h1 : (sortDesc votes)[n-1]? <;> cases h2 : (sortDesc votes)[n]? <;> simp only [Option.map, List.map_nil]
    split
    · simp only [List.filter_map, List.takeWhile_map, List.map_map, List.length_map, ← List.map_take,
        Function.comp_def, List.map_append, List.map_replicate, renSlot]
    · simp only [← List.map_take, List.map_map, Function.comp_def, renSlot]
  · simp only [List.map_map, Function.comp_def, renSlot]

/-- membership of an individual winner, by value alone (distinct keys) -/
theorem mem_getNBest_iff (votes : Votes) (hwf : C09.WF votes) (n : Nat) (h1 : 1 ≤ n) (hlen : n < votes.length)
    (t : Rat) (ht : IsNth votes n t) (p : Cand × Rat) (hp : p ∈ votes) :
    Slot.cand p.1 ∈ getNBest votes n ↔ (t < p.2 ∨ (p.2 = t ∧ cntGe votes t ≤ n)) := by
  constructor
  · intro hmem
    rcases lt_trichotomy p.2 t with hlt | heq | hgt
    · exact absurd hmem (C09.below_never_elected votes hwf n h1 hlen t ht p hp hlt).1
    · right
      refine ⟨heq, ?_⟩
      by_contra hno
      exact C09.not_above_not_elected_in_tie votes hwf n h1 hlen t ht (Nat.lt_of_not_ge hno) p hp (le_of_eq heq) hmem
    · exact Or.inl hgt
  · rintro (hgt | ⟨heq, hfit⟩)
    · exact C09.strictly_above_elected votes n h1 (Nat.le_of_lt hlen) t ht p hp hgt
    · exact C09.level_all_elected votes n h1 hlen t ht hfit p hp heq

/-- **Symmetric candidates** (equal totals) are both elected or both not (and then, if at the boundary, both in the tie). -/
theorem symmetric_candidates (votes : Votes) (hwf : C09.WF votes) (n : Nat) (h1 : 1 ≤ n) (hlen : n < votes.length)
    (a b : Cand) (x : Rat) (ha : (a, x) ∈ votes) (hb : (b, x) ∈ votes) :
    Slot.cand a ∈ getNBest votes n ↔ Slot.cand b ∈ getNBest votes n := by
  obtain ⟨t, ht⟩ := nth_exists votes n h1 (Nat.le_of_lt hlen)
  rw [mem_getNBest_iff votes hwf n h1 hlen t ht (a, x) ha, mem_getNBest_iff votes hwf n h1 hlen t ht (b, x) hb]

/-- **Highest averages: ballot-order independence** (C01 model): seats and ties do not depend on the insertion order. -/
theorem ha_perm_seats (cfg : HACfg) (votes' : Votes) (hp : cfg.votes.Perm votes') (hn : (keys cfg.votes).Nodup) (c : Cand) :
    haSeats (cfg.reorder votes') c = haSeats cfg c := haSeats_perm cfg votes' hp hn c

theorem ha_perm_tie (cfg : HACfg) (votes' : Votes) (hp : cfg.votes.Perm votes') (hn : (keys cfg.votes).Nodup) :
    ((haRun cfg).tie = none ∧ (haRun (cfg.reorder votes')).tie = none) ∨
    ∃ T₁ T₂ m, (haRun cfg).tie = some (T₁, m) ∧ (haRun (cfg.reorder votes')).tie = some (T₂, m) ∧ T₁.Perm T₂ :=
  haTie_perm cfg votes' hp hn

/-- **Highest averages: renaming equivariance** for every injective renaming of the parties. -/
theorem ha_rename_seats (cfg : HACfg) (σ : Cand → Cand) (hσ : Function.Injective σ) (c : Cand) :
    haSeats (cfg.rename σ) (σ c) = haSeats cfg c := haSeats_ren cfg σ hσ c

theorem ha_rename_tie (cfg : HACfg) (σ : Cand → Cand) (hσ : Function.Injective σ) :
    (haRun (cfg.rename σ)).tie = (haRun cfg).tie.map (fun t => (t.1.map σ, t.2)) :=
  (haRun_ren cfg σ hσ).tie

/-- non-vacuity -/
example : SlotsEquiv (getNBest [(1,5),(2,3),(3,3)] 2) (getNBest [(3,3),(1,5),(2,3)] 2) :=
  getNBest_perm _ _ (by decide) 2 (by decide)

end VL.C10
