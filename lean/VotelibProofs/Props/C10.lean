/-
  C10 — Outcomes do not depend on ballot order, candidate names or hash seed.
  Property theorems only (namespace VL.C10): permutation invariance and renaming equivariance of the modelled
  evaluators, and the symmetric-candidates corollary.  Hash-seed independence is a fact about CPython's set/dict
  iteration that no Lean model exhibits; it is sampled by the harness only (labelled partial).
-/
import VotelibProofs.Props.C09
import VotelibProofs.Lemmas.HAPerm
import VotelibProofs.Lemmas.HARename
import VotelibProofs.Lemmas.PermBase
import VotelibProofs.Lemmas.PermSimple
import VotelibProofs.Lemmas.PermQuota
import VotelibProofs.Lemmas.RenameQuota
namespace VL.C10
open VL

/-! ## plurality / `get_n_best`
  `SlotsEquiv` (Lemmas/PermBase.lean): two selection results that agree up to the order of the individually elected
  candidates and the order in which a tie lists its members — same elected set, same tie (as a set), same number of seats
  carried by the tie.  `ExceptEquiv R`: the same exception, or results related by `R`. -/

theorem isNth_perm {v₁ v₂ : Votes} (h : v₁.Perm v₂) {n : Nat} {t : Rat} (ht : IsNth v₁ n t) : IsNth v₂ n t :=
  Perm.isNth_perm h ht

theorem aboveSorted_perm {v₁ v₂ : Votes} (h : v₁.Perm v₂) (t : Rat) : (aboveSorted v₁ t).Perm (aboveSorted v₂ t) :=
  Perm.aboveSorted_perm h t

theorem level_perm {v₁ v₂ : Votes} (h : v₁.Perm v₂) (t : Rat) : (level v₁ t).Perm (level v₂ t) := Perm.level_perm h t

/-- **Ballot-order independence of plurality / get_n_best.**  Presenting the same candidate totals in another
    insertion order yields the same elected set and the same tie (members and seats) — for every number of seats. -/
theorem getNBest_perm (v₁ v₂ : Votes) (h : v₁.Perm v₂) (n : Nat) :
    SlotsEquiv (getNBest v₁ n) (getNBest v₂ n) := Perm.getNBest_perm v₁ v₂ h n

/-- **Renaming equivariance of plurality / get_n_best** — for every renaming (keys are never compared). -/
theorem getNBest_rename (σ : Cand → Cand) (votes : Votes) (n : Nat) :
    getNBest (renVotes σ votes) n = (getNBest votes n).map (renSlot σ) := Perm.getNBest_rename σ votes n

/-- membership of an individual winner, by value alone (distinct keys) -/
theorem mem_getNBest_iff (votes : Votes) (hwf : C09.WF votes) (n : Nat) (h1 : 1 ≤ n) (hlen : n < votes.length)
    (t : Rat) (ht : IsNth votes n t) (p : Cand × Rat) (hp : p ∈ votes) :
    Slot.cand p.1 ∈ getNBest votes n ↔ (t < p.2 ∨ (p.2 = t ∧ cntGe votes t ≤ n)) := by
  constructor
  · intro hmem
    rcases lt_trichotomy p.2 t with hlt | heq | hgt
    · exact absurd hmem (C09.below_never_elected votes hwf n h1 hlen t ht p hp hlt).1
    · right
      refine ⟨heq, ?_⟩
      by_contra hno
      exact C09.not_above_not_elected_in_tie votes hwf n h1 hlen t ht (Nat.lt_of_not_ge hno) p hp (le_of_eq heq) hmem
    · exact Or.inl hgt
  · rintro (hgt | ⟨heq, hfit⟩)
    · exact C09.strictly_above_elected votes n h1 (Nat.le_of_lt hlen) t ht p hp hgt
    · exact C09.level_all_elected votes n h1 hlen t ht hfit p hp heq

/-- **Symmetric candidates** (equal totals) are both elected or both not (and then, if at the boundary, both in the tie). -/
theorem symmetric_candidates (votes : Votes) (hwf : C09.WF votes) (n : Nat) (h1 : 1 ≤ n) (hlen : n < votes.length)
    (a b : Cand) (x : Rat) (ha : (a, x) ∈ votes) (hb : (b, x) ∈ votes) :
    Slot.cand a ∈ getNBest votes n ↔ Slot.cand b ∈ getNBest votes n := by
  obtain ⟨t, ht⟩ := nth_exists votes n h1 (Nat.le_of_lt hlen)
  rw [mem_getNBest_iff votes hwf n h1 hlen t ht (a, x) ha, mem_getNBest_iff votes hwf n h1 hlen t ht (b, x) hb]

/-- **Highest averages: ballot-order independence** (C01 model): seats and ties do not depend on the insertion order. -/
theorem ha_perm_seats (cfg : HACfg) (votes' : Votes) (hp : cfg.votes.Perm votes') (hn : (keys cfg.votes).Nodup) (c : Cand) :
    haSeats (cfg.reorder votes') c = haSeats cfg c := haSeats_perm cfg votes' hp hn c

theorem ha_perm_tie (cfg : HACfg) (votes' : Votes) (hp : cfg.votes.Perm votes') (hn : (keys cfg.votes).Nodup) :
    ((haRun cfg).tie = none ∧ (haRun (cfg.reorder votes')).tie = none) ∨
    ∃ T₁ T₂ m, (haRun cfg).tie = some (T₁, m) ∧ (haRun (cfg.reorder votes')).tie = some (T₂, m) ∧ T₁.Perm T₂ :=
  haTie_perm cfg votes' hp hn

/-- **Highest averages: renaming equivariance** for every injective renaming of the parties. -/
theorem ha_rename_seats (cfg : HACfg) (σ : Cand → Cand) (hσ : Function.Injective σ) (c : Cand) :
    haSeats (cfg.rename σ) (σ c) = haSeats cfg c := haSeats_ren cfg σ hσ c

theorem ha_rename_tie (cfg : HACfg) (σ : Cand → Cand) (hσ : Function.Injective σ) :
    (haRun (cfg.rename σ)).tie = (haRun cfg).tie.map (fun t => (t.1.map σ, t.2)) :=
  (haRun_ren cfg σ hσ).tie

/-! ## thresholds and QuotaSelector (models of C16 / C09) -/

/-- **AbsoluteThreshold: ballot-order independence** — the same candidates pass (the order among equal totals may differ) -/
theorem abs_threshold_perm (t : Rat) (eq : Bool) {v₁ v₂ : Votes} (h : v₁.Perm v₂) :
    (absoluteThreshold t eq v₁).Perm (absoluteThreshold t eq v₂) := Perm.absThreshold_perm t eq h

/-- **AbsoluteThreshold: renaming equivariance**, for every renaming -/
theorem abs_threshold_rename (t : Rat) (eq : Bool) (σ : Cand → Cand) (v : Votes) :
    absoluteThreshold t eq (renVotes σ v) = (absoluteThreshold t eq v).map σ := Perm.absThreshold_ren t eq σ v

/-- a candidate passes by its own total alone: **symmetric candidates** (equal totals) both pass or both fail -/
theorem abs_threshold_symmetric (t : Rat) (eq : Bool) (v : Votes) (hn : (keys v).Nodup) (a b : Cand) (x : Rat)
    (ha : (a, x) ∈ v) (hb : (b, x) ∈ v) : a ∈ absoluteThreshold t eq v ↔ b ∈ absoluteThreshold t eq v := by
  have key : ∀ c, (c, x) ∈ v → (c ∈ absoluteThreshold t eq v ↔ Gen.Threshold.abs_threshold_passes t eq x = true) := by
    intro c hc
    rw [Perm.mem_absThreshold]
    constructor
    · rintro ⟨y, hy, hpass⟩
      have := find_of_mem_nodup v (c, y) hn hy
      have h2 := find_of_mem_nodup v (c, x) hn hc
      rw [this] at h2; injection h2 with h2; injection h2 with _ h2; rw [← h2]; exact hpass
    · intro hpass; exact ⟨x, hc, hpass⟩
  rw [key a ha, key b hb]

/-- **RelativeThreshold: ballot-order independence** — the same exception (`ZeroDivisionError` on a zero total), or the
    same candidates pass -/
theorem rel_threshold_perm (t : Rat) (eq : Bool) {v₁ v₂ : Votes} (h : v₁.Perm v₂) :
    ExceptEquiv List.Perm (relativeThreshold t eq v₁) (relativeThreshold t eq v₂) := Perm.relThreshold_perm t eq h

/-- **RelativeThreshold: renaming equivariance**, for every renaming -/
theorem rel_threshold_rename (t : Rat) (eq : Bool) (σ : Cand → Cand) (v : Votes) :
    relativeThreshold t eq (renVotes σ v) = (relativeThreshold t eq v).map (List.map σ) := Perm.relThreshold_ren t eq σ v

/-- **QuotaSelector: ballot-order independence**, for every quota function, `accept_equal` and `on_more_over_quota` -/
theorem quota_selector_perm (quota : Rat → Nat → Rat) (ae : Bool) (om : OnMore) {v₁ v₂ : Votes} (h : v₁.Perm v₂) (n : Nat) :
    ExceptEquiv SlotsEquiv (quotaSelector quota ae om v₁ n) (quotaSelector quota ae om v₂ n) :=
  Perm.quotaSelector_perm quota ae om h n

/-- **QuotaSelector: renaming equivariance**, for every renaming -/
theorem quota_selector_rename (quota : Rat → Nat → Rat) (ae : Bool) (om : OnMore) (σ : Cand → Cand) (v : Votes) (n : Nat) :
    quotaSelector quota ae om (renVotes σ v) n = (quotaSelector quota ae om v n).map (List.map (renSlot σ)) :=
  Perm.quotaSelector_ren quota ae om σ v n

/-! ## QuotaDistributor and LargestRemainder (model of C02)
  `DistEquiv r₁ r₂` (Lemmas/PermQuota.lean): the two result dicts are the same map key -> seats (`look` = `dict.get`), where a
  `Tie` key is a set (the model keeps its members sorted).  `renSel σ`: every key of a result dict renamed.
  The over-award policy `subtract` is not covered (listed as unproved: `qd_perm_subtract`). -/

/-- **QuotaDistributor: ballot-order independence** (policies `error`, `ignore`): the same dict up to insertion order -/
theorem quota_distributor_perm (cfg : QD.Cfg) (hpol : cfg.onOver ≠ .subtract) {v₁ v₂ : Votes} (h : v₁.Perm v₂)
    (hnd : (v₁.map (·.1)).Nodup) (n : Nat) (prev maxS : QD.IMap) :
    ExceptEquiv List.Perm (QD.quotaDistribute cfg v₁ n prev maxS) (QD.quotaDistribute cfg v₂ n prev maxS) :=
  Perm.quotaDistribute_perm cfg hpol h hnd n prev maxS

/-- **QuotaDistributor: renaming equivariance** for every injective renaming (votes, previous gains and caps renamed) -/
theorem quota_distributor_rename (σ : Cand → Cand) (hσ : Function.Injective σ) (cfg : QD.Cfg) (hpol : cfg.onOver ≠ .subtract)
    (v : Votes) (hnd : (v.map (·.1)).Nodup) (n : Nat) (prev maxS : QD.IMap) :
    QD.quotaDistribute cfg (renVotes σ v) n (Perm.renI σ prev) (Perm.renI σ maxS) =
      (QD.quotaDistribute cfg v n prev maxS).map (Perm.renSel σ) :=
  Perm.quotaDistribute_ren σ hσ cfg hpol v hnd n prev maxS

/-- **LargestRemainder: ballot-order independence** (policies `error`, `ignore`): every party and every reported tie (as a
    set) holds the same number of seats, or both runs raise the same exception -/
theorem largest_remainder_perm (cfg : QD.Cfg) (hpol : cfg.onOver ≠ .subtract) {v₁ v₂ : Votes} (h : v₁.Perm v₂)
    (hnd : (v₁.map (·.1)).Nodup) (n : Nat) (prev maxS : QD.IMap) (hprev : (prev.map (·.1)).Nodup) :
    ExceptEquiv Perm.DistEquiv (QD.largestRemainder cfg v₁ n prev maxS) (QD.largestRemainder cfg v₂ n prev maxS) :=
  Perm.largestRemainder_perm cfg hpol h hnd n prev maxS hprev

/-- **LargestRemainder: renaming equivariance** for every injective renaming: the result for the renamed parties is the
    renamed result (same insertion order, every key renamed) -/
theorem largest_remainder_rename (σ : Cand → Cand) (hσ : Function.Injective σ) (cfg : QD.Cfg) (hpol : cfg.onOver ≠ .subtract)
    (v : Votes) (hnd : (v.map (·.1)).Nodup) (n : Nat) (prev maxS : QD.IMap) (hprev : (prev.map (·.1)).Nodup) :
    QD.largestRemainder cfg (renVotes σ v) n (Perm.renI σ prev) (Perm.renI σ maxS) =
      (QD.largestRemainder cfg v n prev maxS).map (Perm.renSel σ) :=
  Perm.largestRemainder_ren σ hσ cfg hpol v hnd n prev maxS hprev

/-- non-vacuity -/
example : SlotsEquiv (getNBest [(1,5),(2,3),(3,3)] 2) (getNBest [(3,3),(1,5),(2,3)] 2) :=
  getNBest_perm _ _ (by decide) 2

end VL.C10
