/-
  C10 — Outcomes do not depend on ballot order, candidate names or hash seed.
  Property theorems only (namespace VL.C10): permutation invariance and renaming equivariance of the modelled
  evaluators, and the symmetric-candidates corollary.  Hash-seed independence is a fact about CPython's set/dict
  iteration that no Lean model exhibits; it is sampled by the harness only (labelled partial).
-/
import VotelibProofs.Props.C09
import VotelibProofs.Lemmas.HAPerm
import VotelibProofs.Lemmas.HARename
import VotelibProofs.Lemmas.PermBase
import VotelibProofs.Lemmas.PermSimple
import VotelibProofs.Lemmas.PermQuota
import VotelibProofs.Lemmas.RenameQuota
import VotelibProofs.Lemmas.PermRules
import VotelibProofs.Lemmas.PermSymmetric
import VotelibProofs.Lemmas.PermCondorcetRules
import VotelibProofs.Lemmas.PermApproval
import VotelibProofs.Lemmas.PermScore
import VotelibProofs.Lemmas.RenameApproval
import VotelibProofs.Lemmas.RenameScore
import VotelibProofs.Lemmas.RenameCondorcetConvert
import VotelibProofs.Lemmas.PermCondorcetRules2
import VotelibProofs.Lemmas.PermScoreMJ
import VotelibProofs.Lemmas.RenameScoreMJ
import VotelibProofs.Lemmas.RenameScoreMJ2
import VotelibProofs.Lemmas.PermSTV8
import VotelibProofs.Lemmas.PermTrans
import VotelibProofs.Lemmas.PermSymmetric2
import VotelibProofs.Lemmas.PermCondorcetRulesAt
import VotelibProofs.Lemmas.PermQuotaSubtract
import VotelibProofs.Lemmas.RenameQuotaSubtract
import VotelibProofs.Lemmas.PermRankedPairsWitness
import VotelibProofs.Lemmas.PermBaldwin
import VotelibProofs.Lemmas.PermTideman
import VotelibProofs.Lemmas.PermStar4
import VotelibProofs.Lemmas.RenameStar
import VotelibProofs.Lemmas.RenameBucklin2
import VotelibProofs.Lemmas.RenameBenham
import VotelibProofs.Lemmas.RenameTidemanN
import VotelibProofs.Lemmas.PermBenhamN
import VotelibProofs.Lemmas.RenamePure
import VotelibProofs.Lemmas.RenameBaldwin
import VotelibProofs.Lemmas.PermSymmetric3
namespace VL.C10
open VL

/-! ## plurality / `get_n_best`
  `SlotsEquiv` (Lemmas/PermBase.lean): two selection results that agree up to the order of the individually elected
  candidates and the order in which a tie lists its members — same elected set, same tie (as a set), same number of seats
  carried by the tie.  `ExceptEquiv R`: the same exception, or results related by `R`. -/

/-- `SlotsEquiv` is symmetric and transitive (and reflexive on every result of that shape) -/
theorem slotsEquiv_symm {r₁ r₂ : List Slot} (h : SlotsEquiv r₁ r₂) : SlotsEquiv r₂ r₁ := Perm.slotsEquiv_symm h
theorem slotsEquiv_trans {r₁ r₂ r₃ : List Slot} (h₁ : SlotsEquiv r₁ r₂) (h₂ : SlotsEquiv r₂ r₃) : SlotsEquiv r₁ r₃ :=
  Perm.slotsEquiv_trans h₁ h₂

/-- what `SlotsEquiv` preserves: who is individually elected and who is a member of the reported tie -/
theorem slotsEquiv_elected {r₁ r₂ : List Slot} (h : SlotsEquiv r₁ r₂) (c : Cand) :
    (Perm.Elected c r₁ ↔ Perm.Elected c r₂) ∧ (Perm.InTie c r₁ ↔ Perm.InTie c r₂) ∧ r₁.length = r₂.length := by
  refine ⟨Perm.elected_equiv h c, Perm.inTie_equiv h c, ?_⟩
  obtain ⟨e₁, e₂, T₁, T₂, m, h1, h2, he, _⟩ := h
  rw [h1, h2]; simp [he.length_eq]

theorem isNth_perm {v₁ v₂ : Votes} (h : v₁.Perm v₂) {n : Nat} {t : Rat} (ht : IsNth v₁ n t) : IsNth v₂ n t :=
  Perm.isNth_perm h ht

theorem aboveSorted_perm {v₁ v₂ : Votes} (h : v₁.Perm v₂) (t : Rat) : (aboveSorted v₁ t).Perm (aboveSorted v₂ t) :=
  Perm.aboveSorted_perm h t

theorem level_perm {v₁ v₂ : Votes} (h : v₁.Perm v₂) (t : Rat) : (level v₁ t).Perm (level v₂ t) := Perm.level_perm h t

/-- **Ballot-order independence of plurality / get_n_best.**  Presenting the same candidate totals in another
    insertion order yields the same elected set and the same tie (members and seats) — for every number of seats. -/
theorem getNBest_perm (v₁ v₂ : Votes) (h : v₁.Perm v₂) (n : Nat) :
    SlotsEquiv (getNBest v₁ n) (getNBest v₂ n) := Perm.getNBest_perm v₁ v₂ h n

/-- **Renaming equivariance of plurality / get_n_best** — for every renaming (keys are never compared). -/
theorem getNBest_rename (σ : Cand → Cand) (votes : Votes) (n : Nat) :
    getNBest (renVotes σ votes) n = (getNBest votes n).map (renSlot σ) := Perm.getNBest_rename σ votes n

/-- membership of an individual winner, by value alone (distinct keys) -/
theorem mem_getNBest_iff (votes : Votes) (hwf : C09.WF votes) (n : Nat) (h1 : 1 ≤ n) (hlen : n < votes.length)
    (t : Rat) (ht : IsNth votes n t) (p : Cand × Rat) (hp : p ∈ votes) :
    Slot.cand p.1 ∈ getNBest votes n ↔ (t < p.2 ∨ (p.2 = t ∧ cntGe votes t ≤ n)) := by
  constructor
  · intro hmem
    rcases lt_trichotomy p.2 t with hlt | heq | hgt
    · exact absurd hmem (C09.below_never_elected votes hwf n h1 hlen t ht p hp hlt).1
    · right
      refine ⟨heq, ?_⟩
      by_contra hno
      exact C09.not_above_not_elected_in_tie votes hwf n h1 hlen t ht (Nat.lt_of_not_ge hno) p hp (le_of_eq heq) hmem
    · exact Or.inl hgt
  · rintro (hgt | ⟨heq, hfit⟩)
    · exact C09.strictly_above_elected votes n h1 (Nat.le_of_lt hlen) t ht p hp hgt
    · exact C09.level_all_elected votes n h1 hlen t ht hfit p hp heq

/-- **Symmetric candidates** (equal totals) are both elected or both not (and then, if at the boundary, both in the tie). -/
theorem symmetric_candidates (votes : Votes) (hwf : C09.WF votes) (n : Nat) (h1 : 1 ≤ n) (hlen : n < votes.length)
    (a b : Cand) (x : Rat) (ha : (a, x) ∈ votes) (hb : (b, x) ∈ votes) :
    Slot.cand a ∈ getNBest votes n ↔ Slot.cand b ∈ getNBest votes n := by
  obtain ⟨t, ht⟩ := nth_exists votes n h1 (Nat.le_of_lt hlen)
  rw [mem_getNBest_iff votes hwf n h1 hlen t ht (a, x) ha, mem_getNBest_iff votes hwf n h1 hlen t ht (b, x) hb]

/-- **Highest averages: ballot-order independence** (C01 model): seats and ties do not depend on the insertion order. -/
theorem ha_perm_seats (cfg : HACfg) (votes' : Votes) (hp : cfg.votes.Perm votes') (hn : (keys cfg.votes).Nodup) (c : Cand) :
    haSeats (cfg.reorder votes') c = haSeats cfg c := haSeats_perm cfg votes' hp hn c

theorem ha_perm_tie (cfg : HACfg) (votes' : Votes) (hp : cfg.votes.Perm votes') (hn : (keys cfg.votes).Nodup) :
    ((haRun cfg).tie = none ∧ (haRun (cfg.reorder votes')).tie = none) ∨
    ∃ T₁ T₂ m, (haRun cfg).tie = some (T₁, m) ∧ (haRun (cfg.reorder votes')).tie = some (T₂, m) ∧ T₁.Perm T₂ :=
  haTie_perm cfg votes' hp hn

/-- **Highest averages: renaming equivariance** for every injective renaming of the parties. -/
theorem ha_rename_seats (cfg : HACfg) (σ : Cand → Cand) (hσ : Function.Injective σ) (c : Cand) :
    haSeats (cfg.rename σ) (σ c) = haSeats cfg c := haSeats_ren cfg σ hσ c

theorem ha_rename_tie (cfg : HACfg) (σ : Cand → Cand) (hσ : Function.Injective σ) :
    (haRun (cfg.rename σ)).tie = (haRun cfg).tie.map (fun t => (t.1.map σ, t.2)) :=
  (haRun_ren cfg σ hσ).tie

/-! ## thresholds and QuotaSelector (models of C16 / C09) -/

/-- **AbsoluteThreshold: ballot-order independence** — the same candidates pass (the order among equal totals may differ) -/
theorem abs_threshold_perm (t : Rat) (eq : Bool) {v₁ v₂ : Votes} (h : v₁.Perm v₂) :
    (absoluteThreshold t eq v₁).Perm (absoluteThreshold t eq v₂) := Perm.absThreshold_perm t eq h

/-- **AbsoluteThreshold: renaming equivariance**, for every renaming -/
theorem abs_threshold_rename (t : Rat) (eq : Bool) (σ : Cand → Cand) (v : Votes) :
    absoluteThreshold t eq (renVotes σ v) = (absoluteThreshold t eq v).map σ := Perm.absThreshold_ren t eq σ v

/-- a candidate passes by its own total alone: **symmetric candidates** (equal totals) both pass or both fail -/
theorem abs_threshold_symmetric (t : Rat) (eq : Bool) (v : Votes) (hn : (keys v).Nodup) (a b : Cand) (x : Rat)
    (ha : (a, x) ∈ v) (hb : (b, x) ∈ v) : a ∈ absoluteThreshold t eq v ↔ b ∈ absoluteThreshold t eq v := by
  have key : ∀ c, (c, x) ∈ v → (c ∈ absoluteThreshold t eq v ↔ Gen.Threshold.abs_threshold_passes t eq x = true) := by
    intro c hc
    rw [Perm.mem_absThreshold]
    constructor
    · rintro ⟨y, hy, hpass⟩
      have := find_of_mem_nodup v (c, y) hn hy
      have h2 := find_of_mem_nodup v (c, x) hn hc
      rw [this] at h2; injection h2 with h2; injection h2 with _ h2; rw [← h2]; exact hpass
    · intro hpass; exact ⟨x, hc, hpass⟩
  rw [key a ha, key b hb]

/-- **RelativeThreshold: ballot-order independence** — the same exception (`ZeroDivisionError` on a zero total), or the
    same candidates pass -/
theorem rel_threshold_perm (t : Rat) (eq : Bool) {v₁ v₂ : Votes} (h : v₁.Perm v₂) :
    ExceptEquiv List.Perm (relativeThreshold t eq v₁) (relativeThreshold t eq v₂) := Perm.relThreshold_perm t eq h

/-- **RelativeThreshold: renaming equivariance**, for every renaming -/
theorem rel_threshold_rename (t : Rat) (eq : Bool) (σ : Cand → Cand) (v : Votes) :
    relativeThreshold t eq (renVotes σ v) = (relativeThreshold t eq v).map (List.map σ) := Perm.relThreshold_ren t eq σ v

/-- **QuotaSelector: ballot-order independence**, for every quota function, `accept_equal` and `on_more_over_quota` -/
theorem quota_selector_perm (quota : Rat → Nat → Rat) (ae : Bool) (om : OnMore) {v₁ v₂ : Votes} (h : v₁.Perm v₂) (n : Nat) :
    ExceptEquiv SlotsEquiv (quotaSelector quota ae om v₁ n) (quotaSelector quota ae om v₂ n) :=
  Perm.quotaSelector_perm quota ae om h n

/-- **QuotaSelector: renaming equivariance**, for every renaming -/
theorem quota_selector_rename (quota : Rat → Nat → Rat) (ae : Bool) (om : OnMore) (σ : Cand → Cand) (v : Votes) (n : Nat) :
    quotaSelector quota ae om (renVotes σ v) n = (quotaSelector quota ae om v n).map (List.map (renSlot σ)) :=
  Perm.quotaSelector_ren quota ae om σ v n

/-! ## QuotaDistributor and LargestRemainder (model of C02)
  `DistEquiv r₁ r₂` (Lemmas/PermQuota.lean): the two result dicts are the same map key -> seats (`look` = `dict.get`), where a
  `Tie` key is a set (the model keeps its members sorted).  `renSel σ`: every key of a result dict renamed.
  The over-award policy `subtract` is not covered (listed as unproved: `qd_perm_subtract`). -/

/-- **QuotaDistributor: ballot-order independence** (policies `error`, `ignore`): the same dict up to insertion order -/
theorem quota_distributor_perm (cfg : QD.Cfg) (hpol : cfg.onOver ≠ .subtract) {v₁ v₂ : Votes} (h : v₁.Perm v₂)
    (hnd : (v₁.map (·.1)).Nodup) (n : Nat) (prev maxS : QD.IMap) :
    ExceptEquiv List.Perm (QD.quotaDistribute cfg v₁ n prev maxS) (QD.quotaDistribute cfg v₂ n prev maxS) :=
  Perm.quotaDistribute_perm cfg hpol h hnd n prev maxS

/-- **QuotaDistributor: renaming equivariance** for every injective renaming (votes, previous gains and caps renamed) -/
theorem quota_distributor_rename (σ : Cand → Cand) (hσ : Function.Injective σ) (cfg : QD.Cfg) (hpol : cfg.onOver ≠ .subtract)
    (v : Votes) (hnd : (v.map (·.1)).Nodup) (n : Nat) (prev maxS : QD.IMap) :
    QD.quotaDistribute cfg (renVotes σ v) n (Perm.renI σ prev) (Perm.renI σ maxS) =
      (QD.quotaDistribute cfg v n prev maxS).map (Perm.renSel σ) :=
  Perm.quotaDistribute_ren σ hσ cfg hpol v hnd n prev maxS

/-- **LargestRemainder: ballot-order independence** (policies `error`, `ignore`): every party and every reported tie (as a
    set) holds the same number of seats, or both runs raise the same exception -/
theorem largest_remainder_perm (cfg : QD.Cfg) (hpol : cfg.onOver ≠ .subtract) {v₁ v₂ : Votes} (h : v₁.Perm v₂)
    (hnd : (v₁.map (·.1)).Nodup) (n : Nat) (prev maxS : QD.IMap) (hprev : (prev.map (·.1)).Nodup) :
    ExceptEquiv Perm.DistEquiv (QD.largestRemainder cfg v₁ n prev maxS) (QD.largestRemainder cfg v₂ n prev maxS) :=
  Perm.largestRemainder_perm cfg hpol h hnd n prev maxS hprev

/-- **LargestRemainder: renaming equivariance** for every injective renaming: the result for the renamed parties is the
    renamed result (same insertion order, every key renamed) -/
theorem largest_remainder_rename (σ : Cand → Cand) (hσ : Function.Injective σ) (cfg : QD.Cfg) (hpol : cfg.onOver ≠ .subtract)
    (v : Votes) (hnd : (v.map (·.1)).Nodup) (n : Nat) (prev maxS : QD.IMap) (hprev : (prev.map (·.1)).Nodup) :
    QD.largestRemainder cfg (renVotes σ v) n (Perm.renI σ prev) (Perm.renI σ maxS) =
      (QD.largestRemainder cfg v n prev maxS).map (Perm.renSel σ) :=
  Perm.largestRemainder_ren σ hσ cfg hpol v hnd n prev maxS hprev

/-! ## the converters (models of C13) and the rules `PreConverted(converter, Plurality())`
  A profile is the LIST of (ballot, weight) pairs of the votes dict in insertion order.  C13 proves that every converter is the
  weighted sum of its per-ballot images; permutation invariance is commutativity of that sum.  A frozenset (approval ballot,
  shared rank) is kept canonical by the models, so renaming re-canonicalises it (`Perm.renSet`, `Perm.renAProfile`, `Perm.renRProfile`). -/

/-- **ApprovalToSimpleVotes: ballot-order independence** — same exception, or the same totals (the dict up to order) -/
theorem approval_to_simple_perm (split : Bool) {p₁ p₂ : Convert.AProfile} (h : p₁.Perm p₂) :
    ExceptEquiv List.Perm (Convert.approvalToSimple split p₁) (Convert.approvalToSimple split p₂) :=
  Perm.approvalToSimple_perm split h

/-- **ApprovalToSimpleVotes: renaming equivariance** (injective renaming, duplicate-free ballots) -/
theorem approval_to_simple_rename (σ : Cand → Cand) (hσ : Function.Injective σ) (split : Bool) (p : Convert.AProfile)
    (hwf : ∀ bw ∈ p, bw.1.Nodup) :
    ExceptEquiv List.Perm (Convert.approvalToSimple split (Perm.renAProfile σ p))
      ((Convert.approvalToSimple split p).map (renVotes σ)) :=
  Perm.approvalToSimple_ren σ hσ split p hwf

/-- **RankedToPositionalVotes: ballot-order independence** for every rank scorer accepting the ballots -/
theorem ranked_to_positional_perm (sc : Convert.Scorer) {p₁ p₂ : Convert.RProfile} (h : p₁.Perm p₂)
    (hs : C13.ScorerOK sc (Convert.allRankedCandidates p₁).length p₁) :
    ∃ d₁ d₂, Convert.rankedToPositional sc p₁ = .ok d₁ ∧ Convert.rankedToPositional sc p₂ = .ok d₂ ∧ d₁.Perm d₂ :=
  Perm.rankedToPositional_perm sc h hs

/-- **RankedToPositionalVotes: renaming equivariance** -/
theorem ranked_to_positional_rename (σ : Cand → Cand) (hσ : Function.Injective σ) (sc : Convert.Scorer) (p : Convert.RProfile)
    (hwf : Perm.RankedWF p) (hs : C13.ScorerOK sc (Convert.allRankedCandidates p).length p) :
    ∃ d' d, Convert.rankedToPositional sc (Perm.renRProfile σ p) = .ok d' ∧ Convert.rankedToPositional sc p = .ok d ∧
      d'.Perm (renVotes σ d) :=
  Perm.rankedToPositional_ren σ hσ sc p hwf hs

/-- **RankedToCondorcetVotes: ballot-order independence** (both modes): the same pairwise counts, the dict up to order -/
theorem ranked_to_condorcet_perm (ab : Bool) {p₁ p₂ : Convert.RProfile} (h : p₁.Perm p₂) :
    (Convert.rankedToCondorcet ab p₁).Perm (Convert.rankedToCondorcet ab p₂) := Perm.rankedToCondorcet_perm ab h

/-- **Positional rules (Borda, Dowdall, geometric, modified Borda, fixed top): ballot-order independence** -/
theorem positional_rule_perm (sc : Convert.Scorer) {p₁ p₂ : Convert.RProfile} (h : p₁.Perm p₂)
    (hs : C13.ScorerOK sc (Convert.allRankedCandidates p₁).length p₁) (n : Nat) :
    ExceptEquiv SlotsEquiv (PreConv.positionalRule sc p₁ n) (PreConv.positionalRule sc p₂ n) :=
  Perm.positionalRule_perm sc h hs n

/-- **Positional rules: renaming equivariance** — the outcome for the renamed profile is the renamed outcome, up to the
    order of equally placed winners and of tie members -/
theorem positional_rule_rename (σ : Cand → Cand) (hσ : Function.Injective σ) (sc : Convert.Scorer) (p : Convert.RProfile)
    (hwf : Perm.RankedWF p) (hs : C13.ScorerOK sc (Convert.allRankedCandidates p).length p) (n : Nat) :
    ExceptEquiv SlotsEquiv (PreConv.positionalRule sc (Perm.renRProfile σ p) n)
      ((PreConv.positionalRule sc p n).map (List.map (renSlot σ))) :=
  Perm.positionalRule_ren σ hσ sc p hwf hs n

/-- **Approval voting (AV, SAV): ballot-order independence** -/
theorem approval_rule_perm (split : Bool) {p₁ p₂ : Convert.AProfile} (h : p₁.Perm p₂) (n : Nat) :
    ExceptEquiv SlotsEquiv (PreConv.approvalRule split p₁ n) (PreConv.approvalRule split p₂ n) :=
  Perm.approvalRule_perm split h n

/-- **Approval voting (AV, SAV): renaming equivariance** -/
theorem approval_rule_rename (σ : Cand → Cand) (hσ : Function.Injective σ) (split : Bool) (p : Convert.AProfile)
    (hwf : ∀ bw ∈ p, bw.1.Nodup) (n : Nat) :
    ExceptEquiv SlotsEquiv (PreConv.approvalRule split (Perm.renAProfile σ p) n)
      ((PreConv.approvalRule split p n).map (List.map (renSlot σ))) :=
  Perm.approvalRule_ren σ hσ split p hwf n

/-- non-vacuity: a Borda profile with a shared rank meets the hypotheses -/
example : Perm.RankedWF [([.one 0, .shared [1, 2]], 2), ([.one 2, .one 1], 1)] ∧
    C13.ScorerOK (.borda 1) (Convert.allRankedCandidates [([.one 0, .shared [1, 2]], (2 : Rat)), ([.one 2, .one 1], 1)]).length
      [([.one 0, .shared [1, 2]], 2), ([.one 2, .one 1], 1)] := by
  constructor <;> decide +kernel

/-! ## the Condorcet family (models of C05 / C06)
  On a pairwise dictionary `v` (distinct keys) in two insertion orders, and — composed with the converter — on a ranked profile in
  two ballot orders (`PreConv.condorcetRule ev p n = ev (rankedToCondorcet true p) n`, the family table's
  `PreConverted(RankedToCondorcetVotes(), evaluator)`). -/

/-- **Copeland (first and second order) on a pairwise dict: insertion-order independence** -/
theorem copeland_perm {v₁ v₂ : Condorcet.Pairwise} (h : v₁.Perm v₂) (hn : (v₁.map (·.1)).Nodup) (so : Bool) (n : Nat) :
    SlotsEquiv (Condorcet.copeland so v₁ n) (Condorcet.copeland so v₂ n) := Perm.copeland_perm h hn so n

/-- **Minimax (all three pair scorers) on a pairwise dict: insertion-order independence** -/
theorem minimax_perm {v₁ v₂ : Condorcet.Pairwise} (h : v₁.Perm v₂) (hn : (v₁.map (·.1)).Nodup) (sc : Condorcet.Scorer) (n : Nat) :
    SlotsEquiv (Condorcet.minimax sc v₁ n) (Condorcet.minimax sc v₂ n) := Perm.minimax_perm h hn sc n

/-- **Schulze on a well-formed pairwise dict: insertion-order independence** -/
theorem schulze_perm {v₁ v₂ : Condorcet.Pairwise} (h : v₁.Perm v₂) (hwf : Condorcet.WF v₁) (n : Nat) :
    SlotsEquiv (Condorcet.schulze v₁ n) (Condorcet.schulze v₂ n) := Perm.schulze_perm h hwf n

/-- **Condorcet winner: insertion-order independence** — the very same answer -/
theorem condorcet_winner_perm {v₁ v₂ : Condorcet.Pairwise} (h : v₁.Perm v₂) (hn : (v₁.map (·.1)).Nodup) :
    Condorcet.condorcetWinner v₁ = Condorcet.condorcetWinner v₂ := Perm.condorcetWinner_perm h hn

/-- **Smith set: insertion-order independence** — the same set -/
theorem smith_set_perm {v₁ v₂ : Condorcet.Pairwise} (h : v₁.Perm v₂) (hn : (v₁.map (·.1)).Nodup) :
    (Condorcet.smithSet v₁).Perm (Condorcet.smithSet v₂) := Perm.smithSet_perm h hn

/-- **Schwartz set: insertion-order independence** — the same set -/
theorem schwartz_set_perm {v₁ v₂ : Condorcet.Pairwise} (h : v₁.Perm v₂) (hn : (v₁.map (·.1)).Nodup) :
    (Condorcet.schwartzSet v₁).Perm (Condorcet.schwartzSet v₂) := Perm.schwartzSet_perm h hn

/-- **Copeland on a ranked profile: ballot-order independence** -/
theorem copeland_rule_perm (so : Bool) {p₁ p₂ : Convert.RProfile} (h : p₁.Perm p₂) (n : Nat) :
    SlotsEquiv (PreConv.condorcetRule (Condorcet.copeland so) p₁ n) (PreConv.condorcetRule (Condorcet.copeland so) p₂ n) :=
  Perm.copelandRule_perm so h n

/-- **Minimax on a ranked profile: ballot-order independence** -/
theorem minimax_rule_perm (sc : Condorcet.Scorer) {p₁ p₂ : Convert.RProfile} (h : p₁.Perm p₂) (n : Nat) :
    SlotsEquiv (PreConv.condorcetRule (Condorcet.minimax sc) p₁ n) (PreConv.condorcetRule (Condorcet.minimax sc) p₂ n) :=
  Perm.minimaxRule_perm sc h n

/-- **Schulze on a ranked profile: ballot-order independence** (duplicate-free ballots, non-negative weights) -/
theorem schulze_rule_perm {p₁ p₂ : Convert.RProfile} (h : p₁.Perm p₂) (hb : ∀ bw ∈ p₁, (Convert.ballotCands bw.1).Nodup)
    (hw : ∀ bw ∈ p₁, 0 ≤ bw.2) (n : Nat) :
    SlotsEquiv (PreConv.condorcetRule Condorcet.schulze p₁ n) (PreConv.condorcetRule Condorcet.schulze p₂ n) :=
  Perm.schulzeRule_perm h hb hw n

/-- **Condorcet winner of a ranked profile: ballot-order independence** -/
theorem condorcet_winner_rule_perm {p₁ p₂ : Convert.RProfile} (h : p₁.Perm p₂) :
    PreConv.condorcetSeatless Condorcet.condorcetWinner p₁ = PreConv.condorcetSeatless Condorcet.condorcetWinner p₂ :=
  Perm.condorcetWinnerRule_perm h

/-- **Smith set of a ranked profile: ballot-order independence** -/
theorem smith_rule_perm {p₁ p₂ : Convert.RProfile} (h : p₁.Perm p₂) :
    (PreConv.condorcetSeatless Condorcet.smithSet p₁).Perm (PreConv.condorcetSeatless Condorcet.smithSet p₂) :=
  Perm.smithRule_perm h

/-- **Schwartz set of a ranked profile: ballot-order independence** -/
theorem schwartz_rule_perm {p₁ p₂ : Convert.RProfile} (h : p₁.Perm p₂) :
    (PreConv.condorcetSeatless Condorcet.schwartzSet p₁).Perm (PreConv.condorcetSeatless Condorcet.schwartzSet p₂) :=
  Perm.schwartzRule_perm h

/-- **Kemeny-Young on a pairwise dict: insertion-order independence** — the very same answer -/
theorem kemeny_young_perm {v₁ v₂ : Condorcet.Pairwise} (h : v₁.Perm v₂) (hn : (v₁.map (·.1)).Nodup) (n : Nat) :
    Condorcet.kemenyYoung v₁ n = Condorcet.kemenyYoung v₂ n := Perm.kemenyYoung_perm h hn n

/-- **Ranked pairs on a pairwise dict: insertion-order independence** when the (score, count) sort keys separate the pairs
    (`Perm.RPDistinct`, decidable) — the property's own restriction to pairwise distinct strengths -/
theorem ranked_pairs_perm {v₁ v₂ : Condorcet.Pairwise} (h : v₁.Perm v₂) (sc : Condorcet.Scorer) (hd : Perm.RPDistinct sc v₁) (n : Nat) :
    Condorcet.rankedPairs sc v₁ n = Condorcet.rankedPairs sc v₂ n := Perm.rankedPairs_perm h sc hd n

/-- **Kemeny-Young on a ranked profile: ballot-order independence** -/
theorem kemeny_young_rule_perm {p₁ p₂ : Convert.RProfile} (h : p₁.Perm p₂) (n : Nat) :
    PreConv.condorcetRule Condorcet.kemenyYoung p₁ n = PreConv.condorcetRule Condorcet.kemenyYoung p₂ n :=
  Perm.kemenyRule_perm h n

/-- **Ranked pairs on a ranked profile: ballot-order independence** under distinct strengths -/
theorem ranked_pairs_rule_perm (sc : Condorcet.Scorer) {p₁ p₂ : Convert.RProfile} (h : p₁.Perm p₂)
    (hd : Perm.RPDistinct sc (Convert.rankedToCondorcet true p₁)) (n : Nat) :
    PreConv.condorcetRule (Condorcet.rankedPairs sc) p₁ n = PreConv.condorcetRule (Condorcet.rankedPairs sc) p₂ n :=
  Perm.rankedPairsRule_perm sc h hd n

/-! ### renaming (injective σ); on a pairwise dict the renamed outcome exactly, on a ranked profile up to `SlotsEquiv` -/

theorem copeland_rename (σ : Cand → Cand) (hσ : Function.Injective σ) (v : Condorcet.Pairwise) (n : Nat) :
    Condorcet.copeland false (Perm.renPairwise σ v) n = (Condorcet.copeland false v n).map (renSlot σ) :=
  Perm.copeland_false_ren σ hσ v n

/-- second-order Copeland included: up to `SlotsEquiv`, because the model lists the tied set in id order -/
theorem copeland_rename_both (σ : Cand → Cand) (hσ : Function.Injective σ) (so : Bool) (v : Condorcet.Pairwise) (n : Nat) :
    SlotsEquiv (Condorcet.copeland so (Perm.renPairwise σ v) n) ((Condorcet.copeland so v n).map (renSlot σ)) :=
  Perm.copeland_ren σ hσ so v n

theorem minimax_rename (σ : Cand → Cand) (hσ : Function.Injective σ) (sc : Condorcet.Scorer) (v : Condorcet.Pairwise) (n : Nat) :
    Condorcet.minimax sc (Perm.renPairwise σ v) n = (Condorcet.minimax sc v n).map (renSlot σ) := Perm.minimax_ren σ hσ sc v n

theorem schulze_rename (σ : Cand → Cand) (hσ : Function.Injective σ) (v : Condorcet.Pairwise) (n : Nat) :
    Condorcet.schulze (Perm.renPairwise σ v) n = (Condorcet.schulze v n).map (renSlot σ) := Perm.schulze_ren σ hσ v n

theorem condorcet_winner_rename (σ : Cand → Cand) (hσ : Function.Injective σ) (v : Condorcet.Pairwise) :
    Condorcet.condorcetWinner (Perm.renPairwise σ v) = (Condorcet.condorcetWinner v).map σ := Perm.condorcetWinner_ren σ hσ v

theorem smith_set_rename (σ : Cand → Cand) (hσ : Function.Injective σ) (v : Condorcet.Pairwise) :
    Condorcet.smithSet (Perm.renPairwise σ v) = (Condorcet.smithSet v).map σ := Perm.smithSet_ren σ hσ v

theorem schwartz_set_rename (σ : Cand → Cand) (hσ : Function.Injective σ) (v : Condorcet.Pairwise) :
    Condorcet.schwartzSet (Perm.renPairwise σ v) = (Condorcet.schwartzSet v).map σ := Perm.schwartzSet_ren σ hσ v

theorem kemeny_young_rename (σ : Cand → Cand) (hσ : Function.Injective σ) (v : Condorcet.Pairwise) (n : Nat) :
    Condorcet.kemenyYoung (Perm.renPairwise σ v) n = (Condorcet.kemenyYoung v n).map (fun r => r.map (renSlot σ)) :=
  Perm.kemenyYoung_ren σ hσ v n

/-- ranked pairs: renaming equivariance without any restriction on the strengths -/
theorem ranked_pairs_rename (σ : Cand → Cand) (hσ : Function.Injective σ) (sc : Condorcet.Scorer) (v : Condorcet.Pairwise) (n : Nat) :
    Condorcet.rankedPairs sc (Perm.renPairwise σ v) n = (Condorcet.rankedPairs sc v n).map (fun r => r.map (renSlot σ)) :=
  Perm.rankedPairs_ren σ hσ sc v n

theorem copeland_rule_rename (σ : Cand → Cand) (hσ : Function.Injective σ) (so : Bool) (p : Convert.RProfile)
    (hb : ∀ bw ∈ p, (Convert.ballotCands bw.1).Nodup) (n : Nat) :
    SlotsEquiv (PreConv.condorcetRule (Condorcet.copeland so) (Perm.renRProfile σ p) n)
      ((PreConv.condorcetRule (Condorcet.copeland so) p n).map (renSlot σ)) := Perm.copelandRule_ren_so σ hσ so p hb n

theorem minimax_rule_rename (σ : Cand → Cand) (hσ : Function.Injective σ) (sc : Condorcet.Scorer) (p : Convert.RProfile)
    (hb : ∀ bw ∈ p, (Convert.ballotCands bw.1).Nodup) (n : Nat) :
    SlotsEquiv (PreConv.condorcetRule (Condorcet.minimax sc) (Perm.renRProfile σ p) n)
      ((PreConv.condorcetRule (Condorcet.minimax sc) p n).map (renSlot σ)) := Perm.minimaxRule_ren σ hσ sc p hb n

theorem schulze_rule_rename (σ : Cand → Cand) (hσ : Function.Injective σ) (p : Convert.RProfile)
    (hb : ∀ bw ∈ p, (Convert.ballotCands bw.1).Nodup) (hw : ∀ bw ∈ p, 0 ≤ bw.2) (n : Nat) :
    SlotsEquiv (PreConv.condorcetRule Condorcet.schulze (Perm.renRProfile σ p) n)
      ((PreConv.condorcetRule Condorcet.schulze p n).map (renSlot σ)) := Perm.schulzeRule_ren σ hσ p hb hw n

theorem condorcet_winner_rule_rename (σ : Cand → Cand) (hσ : Function.Injective σ) (p : Convert.RProfile)
    (hb : ∀ bw ∈ p, (Convert.ballotCands bw.1).Nodup) :
    PreConv.condorcetSeatless Condorcet.condorcetWinner (Perm.renRProfile σ p) =
      (PreConv.condorcetSeatless Condorcet.condorcetWinner p).map σ := Perm.condorcetWinnerRule_ren σ hσ p hb

theorem smith_rule_rename (σ : Cand → Cand) (hσ : Function.Injective σ) (p : Convert.RProfile)
    (hb : ∀ bw ∈ p, (Convert.ballotCands bw.1).Nodup) :
    (PreConv.condorcetSeatless Condorcet.smithSet (Perm.renRProfile σ p)).Perm
      ((PreConv.condorcetSeatless Condorcet.smithSet p).map σ) := Perm.smithRule_ren σ hσ p hb

theorem schwartz_rule_rename (σ : Cand → Cand) (hσ : Function.Injective σ) (p : Convert.RProfile)
    (hb : ∀ bw ∈ p, (Convert.ballotCands bw.1).Nodup) :
    (PreConv.condorcetSeatless Condorcet.schwartzSet (Perm.renRProfile σ p)).Perm
      ((PreConv.condorcetSeatless Condorcet.schwartzSet p).map σ) := Perm.schwartzRule_ren σ hσ p hb

theorem kemeny_young_rule_rename (σ : Cand → Cand) (hσ : Function.Injective σ) (p : Convert.RProfile)
    (hb : ∀ bw ∈ p, (Convert.ballotCands bw.1).Nodup) (n : Nat) :
    PreConv.condorcetRule Condorcet.kemenyYoung (Perm.renRProfile σ p) n =
      (PreConv.condorcetRule Condorcet.kemenyYoung p n).map (fun r => r.map (renSlot σ)) := Perm.kemenyRule_ren σ hσ p hb n

/-! ## single transferable vote, Gregory transfers (model of C03/C04)
  `ds` is the (unused by Gregory) list of oracle draws of the model's engine interface. -/

/-- **STV (Gregory): ballot-order independence** for every configuration (quota or none, accept-equal, mandatory quota,
    elimination step): the same exception, or the same winners (each once; candidates elected in the same count with equal
    totals may swap places) -/
theorem stv_perm (cfg : STV.Cfg) {p₁ p₂ : STV.Profile} (hp : p₁.Perm p₂) (hn : (p₁.map (·.1)).Nodup) (n : Nat) (ds : List STV.Draw) :
    ExceptEquiv List.Perm (STV.selectorEvaluate STV.gregory cfg p₁ n ds) (STV.selectorEvaluate STV.gregory cfg p₂ n ds) :=
  Perm.stv_perm cfg hp hn n ds

/-- the list itself is the same whenever no two candidates elected in the same count hold equal totals -/
theorem stv_perm_eq (cfg : STV.Cfg) {p₁ p₂ : STV.Profile} (hp : p₁.Perm p₂) (hn : (p₁.map (·.1)).Nodup) (n : Nat)
    (ds : List STV.Draw) (hf : Perm.stvTieFree cfg p₁ n ds = true) :
    STV.selectorEvaluate STV.gregory cfg p₁ n ds = STV.selectorEvaluate STV.gregory cfg p₂ n ds :=
  Perm.stv_perm_eq cfg hp hn n ds hf

/-- … and not in general: equally placed winners do swap (the difference the property allows) -/
theorem stv_order_of_equal_winners_witness :
    ¬ ∀ (cfg : STV.Cfg) (p₁ p₂ : STV.Profile) (n : Nat), p₁.Perm p₂ → (p₁.map (·.1)).Nodup →
      STV.selectorEvaluate STV.gregory cfg p₁ n [] = STV.selectorEvaluate STV.gregory cfg p₂ n [] :=
  Perm.stv_selector_order_witness

/-- **STV distributor (Gregory): ballot-order independence**, also in the order of `prev_gains` / `max_seats` -/
theorem stv_distributor_perm (cfg : STV.Cfg) {p₁ p₂ : STV.Profile} (hp : p₁.Perm p₂) (hn : (p₁.map (·.1)).Nodup) (n : Nat)
    {prev₁ prev₂ maxS₁ maxS₂ : STV.Seats} (hprev : prev₁.Perm prev₂) (hprevn : (prev₁.map (·.1)).Nodup)
    (hmax : maxS₁.Perm maxS₂) (hmaxn : (maxS₁.map (·.1)).Nodup) (ds : List STV.Draw) :
    ExceptEquiv (fun s₁ s₂ => s₁.Perm s₂ ∧ (s₁.map (·.1)).Nodup ∧ ∀ c, STV.seatsGet s₁ c = STV.seatsGet s₂ c)
      (STV.distributorEvaluate STV.gregory cfg { votes := p₁, nSeats := n, prev := prev₁, maxS := maxS₁ } ds)
      (STV.distributorEvaluate STV.gregory cfg { votes := p₂, nSeats := n, prev := prev₂, maxS := maxS₂ } ds) :=
  Perm.stv_distributor_perm cfg hp hn n hprev hprevn hmax hmaxn ds

/-- **STV (Gregory): renaming equivariance** for every injective renaming — the very same exception, or the renamed list in the
    same order (`Perm.Stv.renPile σ` renames every candidate on every ballot; a shared rank keeps its listing order) -/
theorem stv_rename (σ : Cand → Cand) (hσ : Function.Injective σ) (cfg : STV.Cfg) (p : STV.Profile) (n : Nat) (ds : List STV.Draw) :
    STV.selectorEvaluate STV.gregory cfg (Perm.Stv.renPile σ p) n ds =
      (STV.selectorEvaluate STV.gregory cfg p n ds).map (List.map σ) := Perm.stv_rename hσ cfg p n ds

/-- **STV distributor (Gregory): renaming equivariance** (votes, previous gains and caps renamed) -/
theorem stv_distributor_rename (σ : Cand → Cand) (hσ : Function.Injective σ) (cfg : STV.Cfg) (inp : STV.Input) (ds : List STV.Draw) :
    STV.distributorEvaluate STV.gregory cfg (Perm.Stv.renInput σ inp) ds =
      (STV.distributorEvaluate STV.gregory cfg inp ds).map (Perm.Stv.renSeats σ) := Perm.stv_distributor_rename hσ cfg inp ds

/-! ## proportional approval voting and score voting (models of C12)
  `Appr.WF p`: every approval ballot is duplicate-free (a frozenset). -/

/-- **SPAV: ballot-order independence** — the very same outcome (elected list in election order, or the refusal) -/
theorem spav_perm {p₁ p₂ : Appr.Profile} (h : p₁.Perm p₂) (hwf : Appr.WF p₁) (n : Nat) : Appr.spav p₁ n = Appr.spav p₂ n :=
  Perm.spav_perm h hwf n

/-- **PAV: ballot-order independence** — the very same outcome -/
theorem pav_perm {p₁ p₂ : Appr.Profile} (h : p₁.Perm p₂) (hwf : Appr.WF p₁) (n : Nat) : Appr.pav p₁ n = Appr.pav p₂ n :=
  Perm.pav_perm h hwf n

/-- **Score aggregation (`ScoreToSimpleVotes`): ballot-order independence**, every configuration -/
theorem score_convert_perm (cfg : Score.Cfg) {p₁ p₂ : Score.SProfile} (h : p₁.Perm p₂) :
    ExceptEquiv List.Perm (Score.convert cfg p₁) (Score.convert cfg p₂) := Perm.convert_perm cfg h

/-- **Score voting (mean / sum / median, unscored value, min count, truncation): ballot-order independence** -/
theorem score_voting_perm (cfg : Score.Cfg) {p₁ p₂ : Score.SProfile} (h : p₁.Perm p₂) (n : Nat) :
    ExceptEquiv SlotsEquiv (Score.scoreVoting cfg p₁ n) (Score.scoreVoting cfg p₂ n) := Perm.scoreVoting_perm cfg h n

/-- **SPAV: renaming equivariance** for every injective renaming — the renamed outcome, in the same order -/
theorem spav_rename (σ : Cand → Cand) (hσ : Function.Injective σ) (p : Appr.Profile) (hwf : Appr.WF p) (n : Nat) :
    Appr.spav (Perm.renAppr σ p) n = (Appr.spav p n).map (List.map σ) := Perm.spav_rename hσ p hwf n

/-- **PAV: renaming equivariance** — the renamed outcome up to the order of equally placed winners -/
theorem pav_rename (σ : Cand → Cand) (hσ : Function.Injective σ) (p : Appr.Profile) (hwf : Appr.WF p) (n : Nat) :
    ExceptEquiv (fun r' r => SlotsEquiv r' (r.map (renSlot σ))) (Appr.pav (Perm.renAppr σ p) n) (Appr.pav p n) :=
  Perm.pav_rename hσ p hwf n

/-- **Score voting: renaming equivariance** for every injective renaming -/
theorem score_voting_rename (σ : Cand → Cand) (hσ : Function.Injective σ) (cfg : Score.Cfg) (p : Score.SProfile) (n : Nat) :
    Score.scoreVoting cfg (Perm.renScore σ p) n = (Score.scoreVoting cfg p n).map (List.map (renSlot σ)) :=
  Perm.scoreVoting_rename hσ cfg p n

/-- the same when the renamed ballots are presented in any order and list their (candidate, score) pairs in any order
    (`Perm.SameBallots`, decidable) -/
theorem score_voting_rename_same (σ : Cand → Cand) (hσ : Function.Injective σ) (cfg : Score.Cfg) (p p' : Score.SProfile)
    (h : Perm.SameBallots p' (Perm.renScore σ p)) (n : Nat) :
    ExceptEquiv (fun r' r => SlotsEquiv r' (r.map (renSlot σ))) (Score.scoreVoting cfg p' n) (Score.scoreVoting cfg p n) :=
  Perm.scoreVoting_rename_same hσ cfg p p' h n

/-- **RankedToCondorcetVotes: renaming equivariance** (duplicate-free ballots): the pairwise dict of the renamed profile is
    the renamed pairwise dict up to insertion order -/
theorem ranked_to_condorcet_rename (σ : Cand → Cand) (hσ : Function.Injective σ) (ab : Bool) (p : Convert.RProfile)
    (hb : ∀ bw ∈ p, (Convert.ballotCands bw.1).Nodup) :
    (Convert.rankedToCondorcet ab (Perm.renRProfile σ p)).Perm (Perm.renPairwise σ (Convert.rankedToCondorcet ab p)) :=
  Perm.rankedToCondorcet_ren σ hσ ab p hb

/-- **Majority judgment (both tie-breakers): ballot-order independence**, every configuration -/
theorem majority_judgment_perm (tb : Score.TieBreaking) (cfg : Score.Cfg) {p₁ p₂ : Score.SProfile} (h : p₁.Perm p₂) (n : Nat) :
    ExceptEquiv SlotsEquiv (Score.majorityJudgment tb cfg p₁ n) (Score.majorityJudgment tb cfg p₂ n) :=
  Perm.majorityJudgment_perm tb cfg h n

/-- **Majority judgment (both tie-breakers): renaming equivariance for every injective renaming**, every configuration, no
    hypothesis on the profile: the renamed outcome up to the order of equally placed winners.  (The tied candidates' table is
    built in id order, so a non-monotone renaming permutes its rows; both tie-breakers are row-order free there.) -/
theorem majority_judgment_rename (σ : Cand → Cand) (hσ : Function.Injective σ) (tb : Score.TieBreaking) (cfg : Score.Cfg)
    (p : Score.SProfile) (n : Nat) :
    ExceptEquiv (fun r' r => SlotsEquiv r' (r.map (renSlot σ)))
      (Score.majorityJudgment tb cfg (Perm.renScore σ p) n) (Score.majorityJudgment tb cfg p n) :=
  Perm.majorityJudgment_rename hσ tb cfg p n

/-- the same with the renamed ballots in any order, each listing its (candidate, score) pairs in any order -/
theorem majority_judgment_rename_same (σ : Cand → Cand) (hσ : Function.Injective σ) (tb : Score.TieBreaking) (cfg : Score.Cfg)
    (p p' : Score.SProfile) (h : Perm.SameBallots p' (Perm.renScore σ p)) (n : Nat) :
    ExceptEquiv (fun r' r => SlotsEquiv r' (r.map (renSlot σ)))
      (Score.majorityJudgment tb cfg p' n) (Score.majorityJudgment tb cfg p n) :=
  Perm.majorityJudgment_rename_same hσ tb cfg p p' h n

/-- the default tie-breaker does not depend on the order of the rows of the tied table -/
theorem mj_tiebreak_default_row_order (fuel : Nat) {t₁ t₂ : Score.ScoreTable} (h : t₁.Perm t₂) (hnd : (t₁.map (·.1)).Nodup) (n : Nat) :
    ExceptEquiv SlotsEquiv (Score.tiebreakDefault fuel t₁ n) (Score.tiebreakDefault fuel t₂ n) :=
  Perm.mj_tiebreakDefault_permRows fuel h hnd n

/-- **Majority judgment: renaming equivariance** — proved for order-preserving renamings only (the model breaks ties over
    the tied candidates in id order; the general statement is listed as unproved) -/
theorem majority_judgment_rename_mono_partial (σ : Cand → Cand) (hmono : StrictMono σ) (tb : Score.TieBreaking) (cfg : Score.Cfg)
    (p : Score.SProfile) (n : Nat) :
    Score.majorityJudgment tb cfg (Perm.renScore σ p) n = (Score.majorityJudgment tb cfg p n).map (List.map (renSlot σ)) :=
  Perm.majorityJudgment_rename_mono hmono tb cfg p n

/-! ## the Condorcet family on ranked profiles, BOTH modes of the converter
  `PreConv.condorcetRuleAt ab ev p n = ev (rankedToCondorcet ab p) n`, `PreConv.condorcetSeatlessAt ab ev p`: the family table's
  `PreConverted(RankedToCondorcetVotes(unranked_at_bottom = ab), evaluator)`.  `ab = false` gives incomplete pairwise dictionaries
  (the `_sparse` families).  The theorems above about `condorcetRule` / `condorcetSeatless` are the instances `ab = true`. -/

open VL.Convert VL.PreConv VL.Perm in
theorem copeland_rule_perm_at (ab : Bool) (so : Bool) {p₁ p₂ : RProfile} (h : p₁.Perm p₂) (n : Nat) :
    SlotsEquiv (condorcetRuleAt ab (Condorcet.copeland so) p₁ n) (condorcetRuleAt ab (Condorcet.copeland so) p₂ n) :=
  Perm.copelandRule_permAt ab so h n

open VL.Convert VL.PreConv VL.Perm in
theorem minimax_rule_perm_at (ab : Bool) (sc : Condorcet.Scorer) {p₁ p₂ : RProfile} (h : p₁.Perm p₂) (n : Nat) :
    SlotsEquiv (condorcetRuleAt ab (Condorcet.minimax sc) p₁ n) (condorcetRuleAt ab (Condorcet.minimax sc) p₂ n) :=
  Perm.minimaxRule_permAt ab sc h n

open VL.Convert VL.PreConv VL.Perm in
theorem schulze_rule_perm_at (ab : Bool) {p₁ p₂ : RProfile} (h : p₁.Perm p₂) (hb : ∀ bw ∈ p₁, (ballotCands bw.1).Nodup)
    (hw : ∀ bw ∈ p₁, 0 ≤ bw.2) (n : Nat) :
    SlotsEquiv (condorcetRuleAt ab Condorcet.schulze p₁ n) (condorcetRuleAt ab Condorcet.schulze p₂ n) :=
  Perm.schulzeRule_permAt ab h hb hw n

open VL.Convert VL.PreConv VL.Perm in
theorem condorcet_winner_rule_perm_at (ab : Bool) {p₁ p₂ : RProfile} (h : p₁.Perm p₂) :
    condorcetSeatlessAt ab Condorcet.condorcetWinner p₁ = condorcetSeatlessAt ab Condorcet.condorcetWinner p₂ :=
  Perm.condorcetWinnerRule_permAt ab h

open VL.Convert VL.PreConv VL.Perm in
theorem smith_rule_perm_at (ab : Bool) {p₁ p₂ : RProfile} (h : p₁.Perm p₂) :
    (condorcetSeatlessAt ab Condorcet.smithSet p₁).Perm (condorcetSeatlessAt ab Condorcet.smithSet p₂) :=
  Perm.smithRule_permAt ab h

open VL.Convert VL.PreConv VL.Perm in
theorem schwartz_rule_perm_at (ab : Bool) {p₁ p₂ : RProfile} (h : p₁.Perm p₂) :
    (condorcetSeatlessAt ab Condorcet.schwartzSet p₁).Perm (condorcetSeatlessAt ab Condorcet.schwartzSet p₂) :=
  Perm.schwartzRule_permAt ab h

open VL.Convert VL.PreConv VL.Perm in
theorem kemeny_young_rule_perm_at (ab : Bool) {p₁ p₂ : RProfile} (h : p₁.Perm p₂) (n : Nat) :
    condorcetRuleAt ab Condorcet.kemenyYoung p₁ n = condorcetRuleAt ab Condorcet.kemenyYoung p₂ n :=
  Perm.kemenyRule_permAt ab h n

open VL.Convert VL.PreConv VL.Perm in
theorem ranked_pairs_rule_perm_at (ab : Bool) (sc : Condorcet.Scorer) {p₁ p₂ : RProfile} (h : p₁.Perm p₂)
    (hd : RPDistinct sc (rankedToCondorcet ab p₁)) (n : Nat) :
    condorcetRuleAt ab (Condorcet.rankedPairs sc) p₁ n = condorcetRuleAt ab (Condorcet.rankedPairs sc) p₂ n :=
  Perm.rankedPairsRule_permAt ab sc h hd n

open VL.Convert VL.PreConv VL.Perm in
theorem minimax_rule_rename_at (σ : Cand → Cand) (hσ : Function.Injective σ) (ab : Bool) (sc : Condorcet.Scorer) (p : RProfile) (hb : ∀ bw ∈ p, (ballotCands bw.1).Nodup) (n : Nat) :
    SlotsEquiv (condorcetRuleAt ab (Condorcet.minimax sc) (renRProfile σ p) n)
      ((condorcetRuleAt ab (Condorcet.minimax sc) p n).map (renSlot σ)) :=
  Perm.minimaxRule_renAt σ hσ ab sc p hb n

open VL.Convert VL.PreConv VL.Perm in
theorem schulze_rule_rename_at (σ : Cand → Cand) (hσ : Function.Injective σ) (ab : Bool) (p : RProfile) (hb : ∀ bw ∈ p, (ballotCands bw.1).Nodup) (hw : ∀ bw ∈ p, 0 ≤ bw.2) (n : Nat) :
    SlotsEquiv (condorcetRuleAt ab Condorcet.schulze (renRProfile σ p) n)
      ((condorcetRuleAt ab Condorcet.schulze p n).map (renSlot σ)) :=
  Perm.schulzeRule_renAt σ hσ ab p hb hw n

open VL.Convert VL.PreConv VL.Perm in
theorem condorcet_winner_rule_rename_at (σ : Cand → Cand) (hσ : Function.Injective σ) (ab : Bool) (p : RProfile) (hb : ∀ bw ∈ p, (ballotCands bw.1).Nodup) :
    condorcetSeatlessAt ab Condorcet.condorcetWinner (renRProfile σ p) = (condorcetSeatlessAt ab Condorcet.condorcetWinner p).map σ :=
  Perm.condorcetWinnerRule_renAt σ hσ ab p hb

open VL.Convert VL.PreConv VL.Perm in
theorem smith_rule_rename_at (σ : Cand → Cand) (hσ : Function.Injective σ) (ab : Bool) (p : RProfile) (hb : ∀ bw ∈ p, (ballotCands bw.1).Nodup) :
    (condorcetSeatlessAt ab Condorcet.smithSet (renRProfile σ p)).Perm ((condorcetSeatlessAt ab Condorcet.smithSet p).map σ) :=
  Perm.smithRule_renAt σ hσ ab p hb

open VL.Convert VL.PreConv VL.Perm in
theorem schwartz_rule_rename_at (σ : Cand → Cand) (hσ : Function.Injective σ) (ab : Bool) (p : RProfile) (hb : ∀ bw ∈ p, (ballotCands bw.1).Nodup) :
    (condorcetSeatlessAt ab Condorcet.schwartzSet (renRProfile σ p)).Perm ((condorcetSeatlessAt ab Condorcet.schwartzSet p).map σ) :=
  Perm.schwartzRule_renAt σ hσ ab p hb

open VL.Convert VL.PreConv VL.Perm in
theorem kemeny_young_rule_rename_at (σ : Cand → Cand) (hσ : Function.Injective σ) (ab : Bool) (p : RProfile) (hb : ∀ bw ∈ p, (ballotCands bw.1).Nodup) (n : Nat) :
    condorcetRuleAt ab Condorcet.kemenyYoung (renRProfile σ p) n =
      (condorcetRuleAt ab Condorcet.kemenyYoung p n).map (fun r => r.map (renSlot σ)) :=
  Perm.kemenyRule_renAt σ hσ ab p hb n

open VL.Convert VL.PreConv VL.Perm in
theorem copeland_rule_rename_at (ab : Bool) (σ : Cand → Cand) (hσ : Function.Injective σ) (so : Bool) (p : RProfile)
    (hb : ∀ bw ∈ p, (ballotCands bw.1).Nodup) (n : Nat) :
    SlotsEquiv (condorcetRuleAt ab (Condorcet.copeland so) (renRProfile σ p) n)
      ((condorcetRuleAt ab (Condorcet.copeland so) p n).map (renSlot σ)) :=
  Perm.copelandRule_ren_soAt ab σ hσ so p hb n

open VL.Convert VL.PreConv VL.Perm in
theorem copeland_symmetric_candidates_at (ab : Bool) (σ : Cand → Cand) (hσ : Function.Injective σ) (so : Bool) (p : RProfile)
    (hb : ∀ bw ∈ p, (ballotCands bw.1).Nodup) (hsym : (renRProfile σ p).Perm p) (n : Nat) (c : Cand) :
    (Elected (σ c) (condorcetRuleAt ab (Condorcet.copeland so) p n) ↔ Elected c (condorcetRuleAt ab (Condorcet.copeland so) p n)) ∧
    (InTie (σ c) (condorcetRuleAt ab (Condorcet.copeland so) p n) ↔ InTie c (condorcetRuleAt ab (Condorcet.copeland so) p n)) :=
  Perm.copelandRule_symmetricAt ab σ hσ so p hb hsym n c

open VL.Convert VL.PreConv VL.Perm in
theorem minimax_symmetric_candidates_at (ab : Bool) (σ : Cand → Cand) (hσ : Function.Injective σ) (sc : Condorcet.Scorer) (p : RProfile)
    (hb : ∀ bw ∈ p, (ballotCands bw.1).Nodup) (hsym : (renRProfile σ p).Perm p) (n : Nat) (c : Cand) :
    (Elected (σ c) (condorcetRuleAt ab (Condorcet.minimax sc) p n) ↔ Elected c (condorcetRuleAt ab (Condorcet.minimax sc) p n)) ∧
    (InTie (σ c) (condorcetRuleAt ab (Condorcet.minimax sc) p n) ↔ InTie c (condorcetRuleAt ab (Condorcet.minimax sc) p n)) :=
  Perm.minimaxRule_symmetricAt ab σ hσ sc p hb hsym n c

open VL.Convert VL.PreConv VL.Perm in
theorem schulze_symmetric_candidates_at (ab : Bool) (σ : Cand → Cand) (hσ : Function.Injective σ) (p : RProfile)
    (hb : ∀ bw ∈ p, (ballotCands bw.1).Nodup) (hw : ∀ bw ∈ p, 0 ≤ bw.2) (hsym : (renRProfile σ p).Perm p) (n : Nat) (c : Cand) :
    (Elected (σ c) (condorcetRuleAt ab Condorcet.schulze p n) ↔ Elected c (condorcetRuleAt ab Condorcet.schulze p n)) ∧
    (InTie (σ c) (condorcetRuleAt ab Condorcet.schulze p n) ↔ InTie c (condorcetRuleAt ab Condorcet.schulze p n)) :=
  Perm.schulzeRule_symmetricAt ab σ hσ p hb hw hsym n c

open VL.Convert VL.PreConv VL.Perm in
theorem condorcet_winner_symmetric_candidates_at (ab : Bool) (σ : Cand → Cand) (hσ : Function.Injective σ) (p : RProfile)
    (hb : ∀ bw ∈ p, (ballotCands bw.1).Nodup) (hsym : (renRProfile σ p).Perm p) (c : Cand) :
    σ c ∈ condorcetSeatlessAt ab Condorcet.condorcetWinner p ↔ c ∈ condorcetSeatlessAt ab Condorcet.condorcetWinner p :=
  Perm.condorcetWinnerRule_symmetricAt ab σ hσ p hb hsym c

open VL.Convert VL.PreConv VL.Perm in
theorem smith_symmetric_candidates_at (ab : Bool) (σ : Cand → Cand) (hσ : Function.Injective σ) (p : RProfile)
    (hb : ∀ bw ∈ p, (ballotCands bw.1).Nodup) (hsym : (renRProfile σ p).Perm p) (c : Cand) :
    σ c ∈ condorcetSeatlessAt ab Condorcet.smithSet p ↔ c ∈ condorcetSeatlessAt ab Condorcet.smithSet p :=
  Perm.smithRule_symmetricAt ab σ hσ p hb hsym c

open VL.Convert VL.PreConv VL.Perm in
theorem schwartz_symmetric_candidates_at (ab : Bool) (σ : Cand → Cand) (hσ : Function.Injective σ) (p : RProfile)
    (hb : ∀ bw ∈ p, (ballotCands bw.1).Nodup) (hsym : (renRProfile σ p).Perm p) (c : Cand) :
    σ c ∈ condorcetSeatlessAt ab Condorcet.schwartzSet p ↔ c ∈ condorcetSeatlessAt ab Condorcet.schwartzSet p :=
  Perm.schwartzRule_symmetricAt ab σ hσ p hb hsym c

/-! ## every over-award policy of QuotaDistributor / LargestRemainder (`subtract` included) -/

/-- **QuotaDistributor: ballot-order independence for every over-award policy**: the same dict up to insertion order -/
theorem quota_distributor_perm_all (cfg : QD.Cfg) {v₁ v₂ : Votes} (h : v₁.Perm v₂) (hnd : (v₁.map (·.1)).Nodup) (n : Nat)
    (prev maxS : QD.IMap) :
    ExceptEquiv (fun r₁ r₂ => r₁.Perm r₂ ∧ (r₁.map (·.1)).Nodup) (QD.quotaDistribute cfg v₁ n prev maxS)
      (QD.quotaDistribute cfg v₂ n prev maxS) := Perm.quotaDistribute_perm_all cfg h hnd n prev maxS

/-- **LargestRemainder: ballot-order independence for every over-award policy** -/
theorem largest_remainder_perm_all (cfg : QD.Cfg) {v₁ v₂ : Votes} (h : v₁.Perm v₂) (hnd : (v₁.map (·.1)).Nodup) (n : Nat)
    (prev maxS : QD.IMap) (hprev : (prev.map (·.1)).Nodup) :
    ExceptEquiv Perm.DistEquiv (QD.largestRemainder cfg v₁ n prev maxS) (QD.largestRemainder cfg v₂ n prev maxS) :=
  Perm.largestRemainder_perm_all cfg h hnd n prev maxS hprev

/-- **QuotaDistributor: renaming equivariance for every over-award policy** (`subtract` included): the renamed dict in the same
    insertion order (a Tie key, a set, is re-sorted by `Perm.renKey`); every key of a result is a candidate or a canonical Tie key -/
theorem quota_distributor_rename_all (σ : Cand → Cand) (hσ : Function.Injective σ) (cfg : QD.Cfg) (v : Votes)
    (hnd : (v.map (·.1)).Nodup) (n : Nat) (prev maxS : QD.IMap) :
    QD.quotaDistribute cfg (renVotes σ v) n (Perm.renI σ prev) (Perm.renI σ maxS) =
        (QD.quotaDistribute cfg v n prev maxS).map (Perm.renSel σ) ∧
      ∀ r, QD.quotaDistribute cfg v n prev maxS = .ok r → Perm.Sub.CanonSel r :=
  Perm.quotaDistribute_ren_all σ hσ cfg v hnd n prev maxS

/-- **LargestRemainder: renaming equivariance for every over-award policy** -/
theorem largest_remainder_rename_all (σ : Cand → Cand) (hσ : Function.Injective σ) (cfg : QD.Cfg) (v : Votes)
    (hnd : (v.map (·.1)).Nodup) (n : Nat) (prev maxS : QD.IMap) (hprev : (prev.map (·.1)).Nodup) :
    QD.largestRemainder cfg (renVotes σ v) n (Perm.renI σ prev) (Perm.renI σ maxS) =
      (QD.largestRemainder cfg v n prev maxS).map (Perm.renSel σ) :=
  Perm.largestRemainder_ren_all σ hσ cfg v hnd n prev maxS hprev

/-! ## PureProportionality (model of C11) and the value-derived cap / floor adapter of the family table -/

/-- **PureProportionality: ballot-order independence**, every `prev_gains` / `max_seats`: the same exception (division by a
    zero total), or the same dict of exact shares up to insertion order -/
theorem pure_proportionality_perm {v₁ v₂ : Votes} (hv : v₁.Perm v₂) (hnd : (v₁.map (·.1)).Nodup) (n : Nat) (prev maxS : Pure.IMap) :
    ExceptEquiv List.Perm (Pure.pureProportionality v₁ n prev maxS) (Pure.pureProportionality v₂ n prev maxS) :=
  Perm.pureProportionality_perm hv hnd n prev maxS

/-- **PureProportionality: renaming equivariance** for every injective renaming (votes, previous gains, caps renamed) -/
theorem pure_proportionality_rename (σ : Cand → Cand) (hσ : Function.Injective σ) (votes : Votes) (n : Nat) (prev maxS : Pure.IMap) :
    Pure.pureProportionality (renVotes σ votes) n (Perm.renI σ prev) (Perm.renI σ maxS) =
      (Pure.pureProportionality votes n prev maxS).map (renVotes σ) := Perm.pureProportionality_ren σ hσ votes n prev maxS

/-- **PureProportionality with a cap on the unique largest and a floor for the unique smallest party**
    (`PureC.pureConstrained`, the family `pure_proportionality_constrained`): ballot-order independence -/
theorem pure_constrained_perm {v₁ v₂ : Votes} (hv : v₁.Perm v₂) (hnd : (v₁.map (·.1)).Nodup) (n : Nat) :
    ExceptEquiv List.Perm (PureC.pureConstrained v₁ n) (PureC.pureConstrained v₂ n) := Perm.pureConstrained_perm hv hnd n

/-- … and renaming equivariance -/
theorem pure_constrained_rename (σ : Cand → Cand) (hσ : Function.Injective σ) (v : Votes) (n : Nat) :
    PureC.pureConstrained (renVotes σ v) n = (PureC.pureConstrained v n).map (renVotes σ) := Perm.pureConstrained_ren σ hσ v n

/-! ## ranked pairs under the literal premise of the property: FALSE for pairwise ties
  `Perm.MajoritiesDistinct sc v`: the strict pairwise wins of `v` have pairwise distinct strengths.  Two candidates tied pairwise
  (no majority between them) are ranked in the order of the dictionary: `ranked_pairs_perm` needs `Perm.RPDistinct`. -/

theorem ranked_pairs_pairwise_tie_order_witness :
    ¬ ∀ (sc : Condorcet.Scorer) (v₁ v₂ : Condorcet.Pairwise) (n : Nat), v₁.Perm v₂ → (v₁.map (·.1)).Nodup →
      Perm.MajoritiesDistinct sc v₁ →
      ExceptEquiv SlotsEquiv (Condorcet.rankedPairs sc v₁ n) (Condorcet.rankedPairs sc v₂ n) :=
  Perm.rankedPairs_pairwise_tie_order_witness

/-! ## Baldwin (model of C08), Benham and Tideman alternative (one-seat models of C05), STAR (model of C12) -/

/-- **Baldwin: ballot-order independence** (`C08.RankedWF`: duplicate-free ballots, no empty shared rank) -/
theorem baldwin_perm {p₁ p₂ : Convert.RProfile} (h : p₁.Perm p₂) (hwf : C08.RankedWF p₁) (n : Nat) :
    ExceptEquiv SlotsEquiv (ShapeSeq.baldwin p₁ n) (ShapeSeq.baldwin p₂ n) := Perm.baldwin_perm h hwf n

/-- **Baldwin: renaming equivariance** for every injective renaming -/
theorem baldwin_rename (σ : Cand → Cand) (hσ : Function.Injective σ) (p : Convert.RProfile) (hwf : C08.RankedWF p) (n : Nat) :
    ExceptEquiv SlotsEquiv (ShapeSeq.baldwin (Perm.renRProfile σ p) n) ((ShapeSeq.baldwin p n).map (List.map (renSlot σ))) :=
  Perm.baldwin_ren σ hσ p hwf n

/-- **Benham: ballot-order independence** — no hypothesis on the profile -/
theorem benham_perm {p₁ p₂ : Condorcet.Profile} (h : p₁.Perm p₂) :
    ExceptEquiv SlotsEquiv (Condorcet.benham p₁) (Condorcet.benham p₂) := Perm.benham_perm h

/-- **Tideman alternative (Smith or Schwartz tiers): ballot-order independence** — the very same answer -/
theorem tideman_perm (smith : Bool) {p₁ p₂ : Condorcet.Profile} (h : p₁.Perm p₂) :
    Condorcet.tideman smith p₁ = Condorcet.tideman smith p₂ := Perm.tideman_perm smith h

/-- **STAR: ballot-order independence**, every configuration, no hypothesis on the profile -/
theorem star_perm (ac : Nat) (af : Rat) (cfg : Score.Cfg) {p₁ p₂ : Score.SProfile} (h : p₁.Perm p₂) (n : Nat) :
    ExceptEquiv SlotsEquiv (Score.star ac af cfg p₁ n) (Score.star ac af cfg p₂ n) := Perm.star_perm ac af cfg h n

/-- Baldwin without shared ranks (the family's profiles): the renamed outcome exactly, refusals included -/
theorem baldwin_rename_noshared (σ : Cand → Cand) (hσ : Function.Injective σ) (p : Convert.RProfile) (h : Perm.Bald.NoShared p)
    (n : Nat) : ShapeSeq.baldwin (Perm.renRProfile σ p) n = (ShapeSeq.baldwin p n).map (List.map (renSlot σ)) :=
  Perm.baldwin_ren_noshared σ hσ p h n

/-- **Symmetric candidates under Baldwin** -/
theorem baldwin_symmetric_candidates (σ : Cand → Cand) (hσ : Function.Injective σ) (p : Convert.RProfile) (hwf : C08.RankedWF p)
    (hsym : p.Perm (Perm.renRProfile σ p)) (n : Nat) (r : List Slot) (hr : ShapeSeq.baldwin p n = .ok r) (c : Cand) :
    (Perm.Elected (σ c) r ↔ Perm.Elected c r) ∧ (Perm.InTie (σ c) r ↔ Perm.InTie c r) :=
  Perm.baldwin_symmetric σ hσ p hwf hsym n r hr c

/-- **Benham: renaming equivariance** (`Perm.Hyb.CanonP`: shared ranks listed in ascending order, the protocol convention;
    `Perm.Hyb.renProfileH` renames the C05 model's profile type, re-sorting shared ranks) -/
theorem benham_rename (σ : Cand → Cand) (hσ : Function.Injective σ) {p : Condorcet.Profile} (hp : Perm.Hyb.CanonP p) :
    ExceptEquiv SlotsEquiv (Condorcet.benham (Perm.Hyb.renProfileH σ p)) ((Condorcet.benham p).map (List.map (renSlot σ))) :=
  Perm.benham_ren σ hσ hp

/-- **Tideman alternative: renaming equivariance** — the renamed answer exactly -/
theorem tideman_rename (σ : Cand → Cand) (hσ : Function.Injective σ) (smith : Bool) {p : Condorcet.Profile} (hp : Perm.Hyb.CanonP p) :
    Condorcet.tideman smith (Perm.Hyb.renProfileH σ p) = (Condorcet.tideman smith p).map (List.map (renSlot σ)) :=
  Perm.tideman_ren σ hσ smith hp

/-- **Benham, any number of seats** (`PreConv.benhamN`: the evaluator asserts `n_seats == 1`; with another number of seats it
    raises AssertionError whatever the profile): ballot-order independence -/
theorem benham_n_perm {p₁ p₂ : Condorcet.Profile} (h : p₁.Perm p₂) (n : Nat) :
    ExceptEquiv SlotsEquiv (PreConv.benhamN p₁ n) (PreConv.benhamN p₂ n) := Perm.benhamN_perm h n

/-- **Benham, any number of seats: renaming equivariance** -/
theorem benham_n_rename (σ : Cand → Cand) (hσ : Function.Injective σ) {p : Condorcet.Profile} (hp : Perm.Hyb.CanonP p) (n : Nat) :
    ExceptEquiv SlotsEquiv (PreConv.benhamN (Perm.Hyb.renProfileH σ p) n) ((PreConv.benhamN p n).map (List.map (renSlot σ))) :=
  Perm.benhamN_ren σ hσ hp n

/-- **Tideman alternative, any number of seats (`tidemanN`): ballot-order independence** — the very same answer -/
theorem tideman_n_perm (smith : Bool) {p₁ p₂ : Condorcet.Profile} (h : p₁.Perm p₂) (n : Nat) :
    Condorcet.tidemanN smith p₁ n = Condorcet.tidemanN smith p₂ n := Perm.tidemanN_perm smith h n

/-- **Tideman alternative, any number of seats: renaming equivariance** — the renamed answer exactly -/
theorem tideman_n_rename (σ : Cand → Cand) (hσ : Function.Injective σ) (smith : Bool) {p : Condorcet.Profile}
    (hp : Perm.Hyb.CanonP p) (n : Nat) :
    Condorcet.tidemanN smith (Perm.Hyb.renProfileH σ p) n = (Condorcet.tidemanN smith p n).map (List.map (renSlot σ)) :=
  Perm.tidemanN_ren σ hσ smith hp n

/-- **STAR: renaming equivariance** for every injective renaming (non-negative ballot counts) -/
theorem star_rename (σ : Cand → Cand) (hσ : Function.Injective σ) (ac : Nat) (af : Rat) (cfg : Score.Cfg) (p : Score.SProfile)
    (hnn : ∀ bn ∈ p, 0 ≤ bn.2) (n : Nat) :
    ExceptEquiv (fun r' r => SlotsEquiv r' (r.map (renSlot σ)))
      (Score.star ac af cfg (Perm.renScore σ p) n) (Score.star ac af cfg p n) := Perm.star_rename hσ ac af cfg p hnn n

/-- the same with the renamed ballots in any order, each listing its (candidate, score) pairs in any order -/
theorem star_rename_relisted (σ : Cand → Cand) (hσ : Function.Injective σ) (ac : Nat) (af : Rat) (cfg : Score.Cfg)
    (p p' q : Score.SProfile) (hnn : ∀ bn ∈ p, 0 ≤ bn.2) (h₁ : p'.Perm q) (h₂ : Perm.Star.Relisted q (Perm.renScore σ p)) (n : Nat) :
    ExceptEquiv (fun r' r => SlotsEquiv r' (r.map (renSlot σ))) (Score.star ac af cfg p' n) (Score.star ac af cfg p n) :=
  Perm.star_rename_relisted hσ ac af cfg p p' q hnn h₁ h₂ n

/-! ## Bucklin / Oklahoma: `PreferenceAddition(coefficients, split_equal_rankings)`, n seats (model of C08) -/

/-- **PreferenceAddition: ballot-order independence** for every coefficient sequence, with and without decoupling of shared
    ranks (distinct ballots — a dict) -/
theorem preference_addition_perm (coef : Nat → Rat) (split : Bool) {p₁ p₂ : Convert.RProfile} (hp : p₁.Perm p₂)
    (hn : (p₁.map (·.1)).Nodup) (n : Nat) :
    ExceptEquiv SlotsEquiv (ShapeSeq.preferenceAddition coef split p₁ n) (ShapeSeq.preferenceAddition coef split p₂ n) :=
  Perm.preferenceAddition_perm coef split hp hn n

/-- the decoupled profile itself: the same dict up to insertion order -/
theorem decouple_perm {p₁ p₂ : Convert.RProfile} (hp : p₁.Perm p₂) (hn : (p₁.map (·.1)).Nodup) :
    (ShapeSeq.decouple p₁).Perm (ShapeSeq.decouple p₂) ∧ ((ShapeSeq.decouple p₁).map (·.1)).Nodup := Perm.decouple_perm hp hn

/-- the list itself does depend on the order: tie members / candidates elected in one round come in dict order -/
theorem preference_addition_order_witness :
    ¬ ∀ (p₁ p₂ : Convert.RProfile) (n : Nat), p₁.Perm p₂ → (p₁.map (·.1)).Nodup →
      ShapeSeq.preferenceAddition ShapeSeq.coefBucklin false p₁ n = ShapeSeq.preferenceAddition ShapeSeq.coefBucklin false p₂ n :=
  Perm.preferenceAddition_order_witness

/-- **PreferenceAddition: renaming equivariance** for every injective renaming (`hn`: the renamed ballots are still distinct
    — automatic when shared ranks are in canonical order) -/
theorem preference_addition_rename (σ : Cand → Cand) (hσ : Function.Injective σ) (coef : Nat → Rat) (split : Bool)
    {p : Convert.RProfile} (hwf : Perm.RankedWF p) (hn : ((Perm.renRProfile σ p).map (·.1)).Nodup) (n : Nat) :
    ExceptEquiv (fun r' r => SlotsEquiv r' (r.map (renSlot σ)))
      (ShapeSeq.preferenceAddition coef split (Perm.renRProfile σ p) n) (ShapeSeq.preferenceAddition coef split p n) :=
  Perm.preferenceAddition_rename hσ coef split hwf hn n

/-! ## the symmetric-candidates corollary
  A renaming σ that maps the election onto a reordering of itself is a symmetry of the election (e.g. the transposition of two
  candidates in perfectly symmetric positions).  Order independence + renaming equivariance make the outcome σ-invariant:
  `c` and `σ c` are both elected or both not (`Perm.Elected`), both in the reported tie or both not (`Perm.InTie`), hold the
  same number of seats. -/

/-- **Symmetric candidates under a positional rule** -/
theorem positional_symmetric_candidates (σ : Cand → Cand) (hσ : Function.Injective σ) (sc : Convert.Scorer) (p : Convert.RProfile)
    (hwf : Perm.RankedWF p) (hs : C13.ScorerOK sc (Convert.allRankedCandidates p).length p)
    (hsym : (Perm.renRProfile σ p).Perm p) (n : Nat) (r : List Slot) (hr : PreConv.positionalRule sc p n = .ok r) (c : Cand) :
    (Perm.Elected (σ c) r ↔ Perm.Elected c r) ∧ (Perm.InTie (σ c) r ↔ Perm.InTie c r) :=
  Perm.positionalRule_symmetric σ hσ sc p hwf hs hsym n r hr c

/-- **Symmetric candidates under approval voting (AV, SAV)** -/
theorem approval_symmetric_candidates (σ : Cand → Cand) (hσ : Function.Injective σ) (split : Bool) (p : Convert.AProfile)
    (hwf : ∀ bw ∈ p, bw.1.Nodup) (hsym : (Perm.renAProfile σ p).Perm p) (n : Nat) (r : List Slot)
    (hr : PreConv.approvalRule split p n = .ok r) (c : Cand) :
    (Perm.Elected (σ c) r ↔ Perm.Elected c r) ∧ (Perm.InTie (σ c) r ↔ Perm.InTie c r) :=
  Perm.approvalRule_symmetric σ hσ split p hwf hsym n r hr c

/-- **Symmetric parties under LargestRemainder** hold the same number of seats -/
theorem largest_remainder_symmetric_parties (σ : Cand → Cand) (hσ : Function.Injective σ) (cfg : QD.Cfg)
    (hpol : cfg.onOver ≠ .subtract) (v : Votes) (hnd : (v.map (·.1)).Nodup) (hsym : (renVotes σ v).Perm v) (n : Nat) (r : QD.Sel)
    (hr : QD.largestRemainder cfg v n [] [] = .ok r) (c : Cand) :
    Perm.look r (.cand (σ c)) = Perm.look r (.cand c) :=
  Perm.largestRemainder_symmetric σ hσ cfg hpol v hnd hsym n r hr c

/-- **Symmetric parties under a highest-averages method** hold the same number of seats -/
theorem ha_symmetric_parties (σ : Cand → Cand) (hσ : Function.Injective σ) (cfg : HACfg) (hprev : cfg.prev = [])
    (hcaps : cfg.caps = []) (hn : (keys cfg.votes).Nodup) (hsym : cfg.votes.Perm (renVotes σ cfg.votes)) (c : Cand) :
    haSeats cfg (σ c) = haSeats cfg c :=
  Perm.ha_symmetric σ hσ cfg hprev hcaps hn hsym c

/-- **Symmetric candidates under Copeland (both orders), minimax, Schulze** (ranked profile mapped onto a reordering of itself) -/
theorem copeland_symmetric_candidates (σ : Cand → Cand) (hσ : Function.Injective σ) (so : Bool) (p : Convert.RProfile)
    (hb : ∀ bw ∈ p, (Convert.ballotCands bw.1).Nodup) (hsym : (Perm.renRProfile σ p).Perm p) (n : Nat) (c : Cand) :
    (Perm.Elected (σ c) (PreConv.condorcetRule (Condorcet.copeland so) p n) ↔ Perm.Elected c (PreConv.condorcetRule (Condorcet.copeland so) p n)) ∧
    (Perm.InTie (σ c) (PreConv.condorcetRule (Condorcet.copeland so) p n) ↔ Perm.InTie c (PreConv.condorcetRule (Condorcet.copeland so) p n)) :=
  Perm.copelandRule_symmetric σ hσ so p hb hsym n c

theorem minimax_symmetric_candidates (σ : Cand → Cand) (hσ : Function.Injective σ) (sc : Condorcet.Scorer) (p : Convert.RProfile)
    (hb : ∀ bw ∈ p, (Convert.ballotCands bw.1).Nodup) (hsym : (Perm.renRProfile σ p).Perm p) (n : Nat) (c : Cand) :
    (Perm.Elected (σ c) (PreConv.condorcetRule (Condorcet.minimax sc) p n) ↔ Perm.Elected c (PreConv.condorcetRule (Condorcet.minimax sc) p n)) ∧
    (Perm.InTie (σ c) (PreConv.condorcetRule (Condorcet.minimax sc) p n) ↔ Perm.InTie c (PreConv.condorcetRule (Condorcet.minimax sc) p n)) :=
  Perm.minimaxRule_symmetric σ hσ sc p hb hsym n c

theorem schulze_symmetric_candidates (σ : Cand → Cand) (hσ : Function.Injective σ) (p : Convert.RProfile)
    (hb : ∀ bw ∈ p, (Convert.ballotCands bw.1).Nodup) (hw : ∀ bw ∈ p, 0 ≤ bw.2) (hsym : (Perm.renRProfile σ p).Perm p) (n : Nat) (c : Cand) :
    (Perm.Elected (σ c) (PreConv.condorcetRule Condorcet.schulze p n) ↔ Perm.Elected c (PreConv.condorcetRule Condorcet.schulze p n)) ∧
    (Perm.InTie (σ c) (PreConv.condorcetRule Condorcet.schulze p n) ↔ Perm.InTie c (PreConv.condorcetRule Condorcet.schulze p n)) :=
  Perm.schulzeRule_symmetric σ hσ p hb hw hsym n c

/-- **Symmetric candidates and the Condorcet winner / Smith set / Schwartz set** -/
theorem condorcet_sets_symmetric_candidates (σ : Cand → Cand) (hσ : Function.Injective σ) (p : Convert.RProfile)
    (hb : ∀ bw ∈ p, (Convert.ballotCands bw.1).Nodup) (hsym : (Perm.renRProfile σ p).Perm p) (c : Cand) :
    (σ c ∈ PreConv.condorcetSeatless Condorcet.condorcetWinner p ↔ c ∈ PreConv.condorcetSeatless Condorcet.condorcetWinner p) ∧
    (σ c ∈ PreConv.condorcetSeatless Condorcet.smithSet p ↔ c ∈ PreConv.condorcetSeatless Condorcet.smithSet p) ∧
    (σ c ∈ PreConv.condorcetSeatless Condorcet.schwartzSet p ↔ c ∈ PreConv.condorcetSeatless Condorcet.schwartzSet p) :=
  ⟨Perm.condorcetWinnerRule_symmetric σ hσ p hb hsym c, Perm.smithRule_symmetric σ hσ p hb hsym c,
    Perm.schwartzRule_symmetric σ hσ p hb hsym c⟩

/-- **Symmetric candidates under STV (Gregory)**: both elected or both not -/
theorem stv_symmetric_candidates (σ : Cand → Cand) (hσ : Function.Injective σ) (cfg : STV.Cfg) (p : STV.Profile)
    (hn : (p.map (·.1)).Nodup) (hsym : p.Perm (Perm.Stv.renPile σ p)) (n : Nat) (ds : List STV.Draw) (r : List Cand)
    (hr : STV.selectorEvaluate STV.gregory cfg p n ds = .ok r) (c : Cand) : σ c ∈ r ↔ c ∈ r :=
  Perm.stv_symmetric σ hσ cfg p hn hsym n ds r hr c

/-- **Symmetric candidates under score voting, PAV, SPAV** -/
theorem score_voting_symmetric_candidates (σ : Cand → Cand) (hσ : Function.Injective σ) (cfg : Score.Cfg) (p : Score.SProfile)
    (hsym : Perm.SameBallots p (Perm.renScore σ p)) (n : Nat) (r : List Slot) (hr : Score.scoreVoting cfg p n = .ok r) (c : Cand) :
    (Perm.Elected (σ c) r ↔ Perm.Elected c r) ∧ (Perm.InTie (σ c) r ↔ Perm.InTie c r) :=
  Perm.scoreVoting_symmetric σ hσ cfg p hsym n r hr c

theorem pav_symmetric_candidates (σ : Cand → Cand) (hσ : Function.Injective σ) (p : Appr.Profile) (hwf : Appr.WF p)
    (hsym : Perm.ApprSame p (Perm.renAppr σ p)) (n : Nat) (r : List Slot) (hr : Appr.pav p n = .ok r) (c : Cand) :
    (Perm.Elected (σ c) r ↔ Perm.Elected c r) ∧ (Perm.InTie (σ c) r ↔ Perm.InTie c r) :=
  Perm.pav_symmetric σ hσ p hwf hsym n r hr c

theorem spav_symmetric_candidates (σ : Cand → Cand) (hσ : Function.Injective σ) (p : Appr.Profile) (hwf : Appr.WF p)
    (hsym : Perm.ApprSame p (Perm.renAppr σ p)) (n : Nat) (r : List Cand) (hr : Appr.spav p n = .ok r) (c : Cand) :
    σ c ∈ r ↔ c ∈ r := Perm.spav_symmetric σ hσ p hwf hsym n r hr c

/-- the transposition of candidates 0 and 1 -/
def swap01 : Cand → Cand := fun c => if c = 0 then 1 else if c = 1 then 0 else c

theorem swap01_injective : Function.Injective swap01 := by
  have inv : ∀ x : Nat, swap01 (swap01 x) = x := by
    intro x
    unfold swap01
    by_cases h0 : x = 0
    · simp [h0]
    · by_cases h1 : x = 1
      · simp [h1]
      · simp [h0, h1]
  intro a b h
  rw [← inv a, ← inv b, h]

/-- non-vacuity: a mirrored pair of ballots is symmetric in candidates 0 and 1 -/
example : (Perm.renRProfile swap01 [([.one 0, .one 1, .one 2], 1), ([.one 1, .one 0, .one 2], 1)]).Perm
    [([.one 0, .one 1, .one 2], 1), ([.one 1, .one 0, .one 2], 1)] := by decide +kernel

example : (renVotes swap01 [(0, 5), (1, 5), (2, 3)]).Perm [(0, 5), (1, 5), (2, 3)] := by decide +kernel

example : Perm.ApprSame [([0, 2], 3), ([1, 2], 3), ([0, 1], 1)] (Perm.renAppr swap01 [([0, 2], 3), ([1, 2], 3), ([0, 1], 1)]) := by
  decide +kernel

example : ([([.one 0, .one 2], 2), ([.one 1, .one 2], 2)] : STV.Profile).Perm
    (Perm.Stv.renPile swap01 [([.one 0, .one 2], 2), ([.one 1, .one 2], 2)]) := by decide +kernel

/-- non-vacuity -/
example : SlotsEquiv (getNBest [(1,5),(2,3),(3,3)] 2) (getNBest [(3,3),(1,5),(2,3)] 2) :=
  getNBest_perm _ _ (by decide) 2

end VL.C10
