/-
  C06 — Condorcet winner, Smith set and Schwartz set are computed exactly.
  Property theorems only (helper lemmas live in VotelibProofs/Lemmas).  Namespace VL.C06.

  Reading: `votes` is a Python dict `(upper, lower) -> count`; `WF votes` = keys are distinct (a dict),
  no candidate is paired with himself, counts are non-negative.  The candidates are all names that occur
  in a key; an absent pair counts 0 : 0; `Beats v x y` ⇔ `d x y > d y x`.
  `WFd votes` = the same WITHOUT the no-self-pair clause: a dictionary may carry self-pairs (the diagonal of a
  pairwise matrix, `('Z','Z'): 0`); a candidate named only by a self-pair is a candidate (zero against zero with
  everybody).  Section "dictionaries with self-pairs" restates every `WF` theorem for `WFd`; the one difference:
  with a single candidate (`{('A','A'): 0}`, the only way to write one candidate) `CondorcetWinner` returns
  nothing (`cw_one_candidate`), so `cw_exact_diag` asks for two candidates.

  * Smith set  = the ⊆-least non-empty set of candidates each of whose members beats every outsider;
  * Schwartz set = the union of the ⊆-minimal non-empty sets of candidates that no outsider beats.
  Sets of candidates are predicates `Cand → Prop`; the selectors return duplicate-free lists.
-/
import VotelibProofs.Lemmas.CondorcetWinner
import VotelibProofs.Lemmas.SmithModel
import VotelibProofs.Lemmas.PairwiseDiag
namespace VL.C06
open VL VL.Condorcet Relation
open VL.Condorcet.Diag (WFd)

/-! ### specifications (textbook definitions over `Beats`) -/

/-- every member is a candidate and beats every candidate outside the set -/
def Dominating (v : Pairwise) (S : Cand → Prop) : Prop := Graph.Dominating (candidates v) (Beats v) S
/-- every member is a candidate and no candidate outside the set beats a member -/
def Undominated (v : Pairwise) (S : Cand → Prop) : Prop := Graph.Undominated (candidates v) (Beats v) S
/-- ⊆-minimal among the non-empty undominated sets -/
def MinimalUndominated (v : Pairwise) (S : Cand → Prop) : Prop :=
  Graph.MinimalUndominated (candidates v) (Beats v) S

/-- reachability form of the Smith set: reaches every other candidate by "is not beaten by" steps -/
def smithSpec (v : Pairwise) (c : Cand) : Prop := Graph.SmithReach (candidates v) (Beats v) c
/-- reachability form of the Schwartz set: reaches back everybody who reaches it by "beats" steps -/
def schwartzSpec (v : Pairwise) (c : Cand) : Prop := Graph.SchwartzReach (candidates v) (Beats v) c

/-- the unfolded meaning of `Dominating`, for the reader -/
theorem dominating_iff (v : Pairwise) (S : Cand → Prop) :
    Dominating v S ↔ (∀ s, S s → s ∈ candidates v) ∧
      ∀ s o, S s → o ∈ candidates v → ¬ S o → pget v (o, s) < pget v (s, o) := Iff.rfl

/-- the unfolded meaning of `Undominated`, for the reader -/
theorem undominated_iff (v : Pairwise) (S : Cand → Prop) :
    Undominated v S ↔ (∀ s, S s → s ∈ candidates v) ∧
      ∀ s o, S s → o ∈ candidates v → ¬ S o → ¬ pget v (s, o) < pget v (o, s) := Iff.rfl

/-! ### Condorcet winner -/

/-- **`CondorcetWinner` returns `[c]` exactly when `c` strictly beats every other candidate.** -/
theorem cw_exact {v : Pairwise} (hwf : WF v) (c : Cand) : condorcetWinner v = [c] ↔ IsCW v c :=
  ⟨cw_sound hwf, cw_complete hwf⟩

/-- … and the empty list exactly when nobody does; there is no third outcome. -/
theorem cw_none {v : Pairwise} (hwf : WF v) : condorcetWinner v = [] ↔ ¬ ∃ c, IsCW v c := by
  constructor
  · rintro h ⟨c, hc⟩
    rw [cw_complete hwf hc] at h
    simp at h
  · intro h
    rcases condorcetWinner_shape v with h0 | ⟨c, hc⟩
    · exact h0
    · exact absurd ⟨c, cw_sound hwf hc⟩ h

/-- at most one candidate beats all others -/
theorem cw_unique {v : Pairwise} {c c' : Cand} (h : IsCW v c) (h' : IsCW v c') : c = c' := h.unique h'

/-! ### the closure loop -/

/-- **The loop L88-93 computes the transitive closure** of the start relation (Smith: "not beaten by",
    Schwartz: "beats") among distinct candidates — for every dictionary, no well-formedness needed. -/
theorem closure_reach (v : Pairwise) (ties : Bool) (a b : Cand) :
    (a, b) ∈ closure (candidates v) (reach0 (candidates v) (pairwiseWins v false) ties) ↔
      a ≠ b ∧ TransGen (fun x y => (x, y) ∈ reach0 (candidates v) (pairwiseWins v false) ties) a b :=
  mem_closure_reach0 a b

/-! ### model output = reachability specification -/

theorem smith_exact {v : Pairwise} (hwf : WF v) (c : Cand) : c ∈ smithSet v ↔ smithSpec v c :=
  mem_smithSet hwf c

theorem schwartz_exact {v : Pairwise} (hwf : WF v) (c : Cand) : c ∈ schwartzSet v ↔ schwartzSpec v c :=
  mem_schwartzSet hwf c

theorem smith_nodup (v : Pairwise) : (smithSet v).Nodup := nodup_smithSchwartz v true
theorem schwartz_nodup (v : Pairwise) : (schwartzSet v).Nodup := nodup_smithSchwartz v false

/-! ### reachability specification = textbook set (graph theory, independent of the code) -/

theorem smithSpec_dominating (v : Pairwise) : Dominating v (smithSpec v) := Graph.smithReach_dominating

theorem smithSpec_nonempty (v : Pairwise) (hne : candidates v ≠ []) : ∃ c, smithSpec v c :=
  Graph.smithReach_nonempty (fun _ _ h => Beats.asymm h) hne

theorem smithSpec_least (v : Pairwise) {S : Cand → Prop} (hS : Dominating v S) (hne : ∃ s, S s) {c : Cand}
    (hc : smithSpec v c) : S c := Graph.smithReach_least hS hne hc

theorem schwartzSpec_is_union_of_minimal_undominated (v : Pairwise) (c : Cand) :
    schwartzSpec v c ↔ ∃ S, MinimalUndominated v S ∧ S c :=
  Graph.schwartzReach_iff (fun _ h => (Beats.ne h) rfl) c

/-! ### the property -/

/-- **SmithSet returns exactly the smallest non-empty set whose members each beat every outsider**:
    its output is dominating, non-empty (when there is a candidate at all), and contained in every
    non-empty dominating set.  No density or tie-freeness premise. -/
theorem smith_is_least_dominating {v : Pairwise} (hwf : WF v) :
    Dominating v (fun c => c ∈ smithSet v) ∧
    (candidates v ≠ [] → ∃ c, c ∈ smithSet v) ∧
    ∀ S : Cand → Prop, Dominating v S → (∃ s, S s) → ∀ c ∈ smithSet v, S c := by
  have heq : (fun c => c ∈ smithSet v) = smithSpec v := funext fun c => propext (smith_exact hwf c)
  refine ⟨?_, ?_, ?_⟩
  · rw [heq]; exact smithSpec_dominating v
  · intro hne
    obtain ⟨c, hc⟩ := smithSpec_nonempty v hne
    exact ⟨c, (smith_exact hwf c).2 hc⟩
  · intro S hS hne c hc
    exact smithSpec_least v hS hne ((smith_exact hwf c).1 hc)

/-- **SchwartzSet returns exactly the union of the minimal non-empty sets that no outsider beats.** -/
theorem schwartz_is_union_of_minimal_undominated {v : Pairwise} (hwf : WF v) (c : Cand) :
    c ∈ schwartzSet v ↔ ∃ S, MinimalUndominated v S ∧ S c := by
  rw [schwartz_exact hwf, schwartzSpec_is_union_of_minimal_undominated]

/-- the Condorcet winner, when there is one, is the whole Smith set -/
theorem smith_of_cw {v : Pairwise} (hwf : WF v) {c : Cand} (h : IsCW v c) (x : Cand) :
    x ∈ smithSet v ↔ x = c := by
  have hdom : Dominating v (fun x => x = c) := by
    refine ⟨fun s hs => hs ▸ h.1, fun s o hs ho hno => ?_⟩
    subst hs
    exact h.2 o ho hno
  obtain ⟨_, hne, hleast⟩ := smith_is_least_dominating hwf
  constructor
  · exact fun hx => hleast _ hdom ⟨c, rfl⟩ x hx
  · rintro rfl
    obtain ⟨y, hy⟩ := hne (List.ne_nil_of_mem h.1)
    have := hleast _ hdom ⟨x, rfl⟩ y hy
    exact this ▸ hy

/-- the Schwartz set is contained in the Smith set -/
theorem schwartz_subset_smith {v : Pairwise} (hwf : WF v) {c : Cand} (hc : c ∈ schwartzSet v) : c ∈ smithSet v := by
  obtain ⟨hdom, hne, _⟩ := smith_is_least_dominating hwf
  have hcs := (schwartz_exact hwf c).1 hc
  exact Graph.schwartzReach_sub_dominating (fun _ _ h => Beats.asymm h) hdom (hne (List.ne_nil_of_mem hcs.1)) hcs

/-! ### dictionaries with self-pairs (matrix diagonal entries) -/

/-- every `WF` dictionary is a `WFd` dictionary: the theorems of this section subsume the `WF` ones -/
theorem wfd_of_wf {v : Pairwise} (h : WF v) : WFd v := Diag.wfd_of_wf h

theorem smith_exact_diag {v : Pairwise} (hwf : WFd v) (c : Cand) : c ∈ smithSet v ↔ smithSpec v c :=
  Diag.mem_smithSet hwf c

theorem schwartz_exact_diag {v : Pairwise} (hwf : WFd v) (c : Cand) : c ∈ schwartzSet v ↔ schwartzSpec v c :=
  Diag.mem_schwartzSet hwf c

/-- **SmithSet is the least non-empty dominating set also when the dictionary has self-pairs**; the candidates
    (`candidates v`, over which `Dominating` quantifies) include those named only by a self-pair. -/
theorem smith_is_least_dominating_diag {v : Pairwise} (hwf : WFd v) :
    Dominating v (fun c => c ∈ smithSet v) ∧
    (candidates v ≠ [] → ∃ c, c ∈ smithSet v) ∧
    ∀ S : Cand → Prop, Dominating v S → (∃ s, S s) → ∀ c ∈ smithSet v, S c := by
  have heq : (fun c => c ∈ smithSet v) = smithSpec v := funext fun c => propext (smith_exact_diag hwf c)
  refine ⟨?_, ?_, ?_⟩
  · rw [heq]; exact smithSpec_dominating v
  · intro hne
    obtain ⟨c, hc⟩ := smithSpec_nonempty v hne
    exact ⟨c, (smith_exact_diag hwf c).2 hc⟩
  · intro S hS hne c hc
    exact smithSpec_least v hS hne ((smith_exact_diag hwf c).1 hc)

/-- **SchwartzSet is the union of the minimal non-empty undominated sets also with self-pairs.** -/
theorem schwartz_is_union_of_minimal_undominated_diag {v : Pairwise} (hwf : WFd v) (c : Cand) :
    c ∈ schwartzSet v ↔ ∃ S, MinimalUndominated v S ∧ S c := by
  rw [schwartz_exact_diag hwf, schwartzSpec_is_union_of_minimal_undominated]

/-- a candidate named by a self-pair is a candidate -/
theorem self_pair_is_candidate {v : Pairwise} {z : Cand} {x : Rat} (h : ((z, z), x) ∈ v) : z ∈ candidates v :=
  fst_mem_candidates h

/-- **CondorcetWinner with self-pairs, two or more candidates: `[c]` exactly when `c` beats all others** -/
theorem cw_exact_diag {v : Pairwise} (hwf : WFd v) (h2 : 2 ≤ (candidates v).length) (c : Cand) :
    condorcetWinner v = [c] ↔ IsCW v c :=
  ⟨Diag.cw_sound hwf, fun h => Diag.cw_complete hwf h (Diag.exists_other_of_two h2 c)⟩

theorem cw_none_diag {v : Pairwise} (hwf : WFd v) (h2 : 2 ≤ (candidates v).length) :
    condorcetWinner v = [] ↔ ¬ ∃ c, IsCW v c := by
  constructor
  · rintro h ⟨c, hc⟩
    rw [(cw_exact_diag hwf h2 c).2 hc] at h
    simp at h
  · intro h
    rcases condorcetWinner_shape v with h0 | ⟨c, hc⟩
    · exact h0
    · exact absurd ⟨c, Diag.cw_sound hwf hc⟩ h

/-- the code's answer for at most one candidate (`{('A','A'): 0}`): nothing — there is no pairwise win, so
    `beat_counts` is empty (the sole candidate "beats all others" only vacuously; `IsCW` would hold). -/
theorem cw_one_candidate {v : Pairwise} (hwf : WFd v) (h1 : (candidates v).length ≤ 1) : condorcetWinner v = [] := by
  apply Diag.cw_nil_of_no_wins
  rw [List.eq_nil_iff_forall_not_mem]
  rintro ⟨x, y⟩ hw
  have hb := (Diag.mem_pairwiseWins hwf).1 hw
  have hm := Diag.beats_mem hwf hb
  rcases hl : candidates v with _ | ⟨a, _ | ⟨b, t⟩⟩
  · rw [hl] at hm; simp at hm
  · rw [hl] at hm
    simp only [List.mem_singleton] at hm
    exact hb.ne (hm.1.trans hm.2.symm)
  · rw [hl] at h1; simp at h1

/-! ### non-vacuity: concrete inputs of the shapes named in the property text -/

/-- `a ~ b`, both beating `c` (sparse: the reverse pairs of the wins are absent) -/
def exTied : Pairwise := [((0, 1), 2), ((1, 0), 2), ((0, 2), 3), ((1, 2), 3)]
/-- two disconnected majorities -/
def exDisconnected : Pairwise := [((0, 1), 3), ((2, 3), 2)]
/-- a Condorcet winner who never appears as a loser -/
def exCW : Pairwise := [((0, 1), 3), ((0, 2), 3), ((1, 2), 2), ((2, 1), 1)]

example : WF exTied := by decide +kernel
example : WF exDisconnected := by decide +kernel
example : WF exCW := by decide +kernel
example : IsCW exCW 0 := by decide +kernel
example : condorcetWinner exCW = [0] := by decide +kernel
example : condorcetWinner exTied = [] := by decide +kernel
example : ¬ ∃ c, IsCW exTied c := (cw_none (by decide +kernel)).1 (by decide +kernel)
example : schwartzSet exTied = [0, 1] := by decide +kernel
example : smithSet exTied = [0, 1] := by decide +kernel
example : smithSet exDisconnected = [0, 2, 1, 3] := by decide +kernel
example : schwartzSet exDisconnected = [0, 2] := by decide +kernel
example : schwartzSet [((0, 1), 1), ((1, 0), 1)] = [0, 1] := by decide +kernel
example : smithSet exCW = [0] := by decide +kernel

/-- `0` beats `1`; `2` is named only by its self-pair (zero against zero with both) -/
def exDiagOnly : Pairwise := [((0, 1), 3), ((1, 0), 1), ((2, 2), 0)]
/-- a full 3 x 3 matrix with its diagonal -/
def exMatrix : Pairwise := [((0, 0), 0), ((0, 1), 4), ((0, 2), 2), ((1, 0), 1), ((1, 1), 0), ((1, 2), 3),
  ((2, 0), 2), ((2, 1), 3), ((2, 2), 0)]
/-- the only way to write a one-candidate election -/
def exOne : Pairwise := [((0, 0), 0)]

example : WFd exDiagOnly ∧ ¬ WF exDiagOnly := by decide +kernel
example : WFd exMatrix ∧ ¬ WF exMatrix := by decide +kernel
example : WFd exOne ∧ ¬ WF exOne := by decide +kernel
example : candidates exDiagOnly = [0, 1, 2] := by decide +kernel
example : smithSet exDiagOnly = [0, 2, 1] := by decide +kernel
example : schwartzSet exDiagOnly = [0, 2] := by decide +kernel
example : condorcetWinner exDiagOnly = [] := by decide +kernel
example : 2 ≤ (candidates exDiagOnly).length := by decide +kernel
example : condorcetWinner [((0, 1), 3), ((0, 2), 1), ((2, 2), 0)] = [0] := by decide +kernel
example : smithSet exMatrix = [0, 2, 1] := by decide +kernel
example : schwartzSet exMatrix = [0, 2] := by decide +kernel
example : smithSet exOne = [0] := by decide +kernel
example : schwartzSet exOne = [0] := by decide +kernel
example : condorcetWinner exOne = [] ∧ IsCW exOne 0 := by decide +kernel

end VL.C06
