import VotelibModel.Condorcet
namespace VL.C06
end VL.C06
