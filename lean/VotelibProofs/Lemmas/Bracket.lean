/-
  Helper lemmas for the bracketers of threshold.py (C16).
-/
import VotelibProofs.Lemmas.SortBy
namespace VL

theorem mem_insertDistinct {k x : Nat} {l : List Nat} : x ∈ insertDistinct k l ↔ x = k ∨ x ∈ l := by
  induction l with
  | nil => simp [insertDistinct]
  | cons y ys ih =>
    unfold insertDistinct
    split
    · simp
    · split
      · rename_i _ hky
        simp only [List.mem_cons]
        constructor
        · intro h; exact Or.inr h
        · rintro (h | h)
          · exact Or.inl (h.trans hky)
          · exact h
      · simp only [List.mem_cons, ih]
        constructor
        · rintro (h | h | h)
          · exact Or.inr (Or.inl h)
          · exact Or.inl h
          · exact Or.inr (Or.inr h)
        · rintro (h | h | h)
          · exact Or.inr (Or.inl h)
          · exact Or.inl h
          · exact Or.inr (Or.inr h)

theorem mem_sortedDistinct {x : Nat} {l : List Nat} : x ∈ sortedDistinct l ↔ x ∈ l := by
  induction l with
  | nil => simp [sortedDistinct]
  | cons y ys ih => simp only [sortedDistinct, mem_insertDistinct, ih, List.mem_cons]

/-- `dict.get` returns the value of an entry with that key when there is one -/
theorem dictGet_mem {β : Type} (d : List (Nat × β)) (k : Nat) (dflt : β) (h : ∃ e ∈ d, e.1 = k) :
    ∃ e ∈ d, e.1 = k ∧ dictGet d k dflt = e.2 := by
  unfold dictGet
  cases hf : d.find? (fun e => e.1 == k) with
  | none =>
    obtain ⟨e, he, hk⟩ := h
    have := List.find?_eq_none.mp hf e he
    simp [hk] at this
  | some e =>
    have hm := List.mem_of_find?_eq_some hf
    have hk := List.find?_some hf
    exact ⟨e, hm, by simpa using hk, rfl⟩

theorem dictGet_absent {β : Type} (d : List (Nat × β)) (k : Nat) (dflt : β) (h : ∀ e ∈ d, e.1 ≠ k) :
    dictGet d k dflt = dflt := by
  unfold dictGet
  cases hf : d.find? (fun e => e.1 == k) with
  | none => rfl
  | some e =>
    have hm := List.mem_of_find?_eq_some hf
    have hk := List.find?_some hf
    exact absurd (by simpa using hk) (h e hm)

theorem dictGet_map {β γ : Type} (f : β → γ) (d : List (Nat × β)) (k : Nat) (dflt : β) :
    dictGet (d.map (fun e => (e.1, f e.2))) k (f dflt) = f (dictGet d k dflt) := by
  induction d with
  | nil => rfl
  | cons x xs ih =>
    unfold dictGet at ih ⊢
    simp only [List.map_cons, List.find?_cons]
    cases hx : (x.1 == k) with
    | true => rfl
    | false => simpa using ih

/-- the dictionary comprehension `{k: f(k) for k in ks}` evaluated in `Except` -/
theorem mapM_pair_ok {β : Type} {f : Nat → Except Err β} {ks : List Nat} {ps : List (Nat × β)}
    (h : ks.mapM (fun k => do let r ← f k; pure (k, r)) = .ok ps) :
    (∀ e ∈ ps, f e.1 = .ok e.2) ∧ (∀ k ∈ ks, ∃ e ∈ ps, e.1 = k) := by
  have hf := (mapM_except_ok _ _ _).mp h
  clear h
  induction hf with
  | nil => simp
  | @cons k e ks' ps' h1 _ ih =>
    have hk : f k = .ok e.2 ∧ e.1 = k := by
      cases hfk : f k with
      | error err => rw [hfk] at h1; cases h1
      | ok r => rw [hfk] at h1; cases h1; exact ⟨rfl, rfl⟩
    constructor
    · intro e' he'
      rcases List.mem_cons.mp he' with rfl | he''
      · rw [hk.2]; exact hk.1
      · exact ih.1 e' he''
    · intro k' hk'
      rcases List.mem_cons.mp hk' with rfl | hk''
      · exact ⟨e, List.mem_cons_self, hk.2⟩
      · obtain ⟨e', he', hke⟩ := ih.2 k' hk''
        exact ⟨e', List.mem_cons_of_mem _ he', hke⟩

theorem mem_keys_sortDesc {votes : Votes} {c : Cand} : c ∈ (sortDesc votes).map (·.1) ↔ c ∈ keys votes := by
  unfold keys
  exact ((sortDesc_perm votes).map _).mem_iff

/-! ### congruence up to the out-of-fuel answer (for `Sel.eval`) -/

theorem mapM_congr_nonfuel {α β : Type} (f1 f2 : α → Except Err β) (l : List α)
    (h : ∀ a ∈ l, f1 a ≠ .error (.other "fuel") → f2 a = f1 a)
    (hne : l.mapM f1 ≠ .error (.other "fuel")) : l.mapM f2 = l.mapM f1 := by
  induction l with
  | nil => rfl
  | cons x xs ih =>
    rw [List.mapM_cons, List.mapM_cons] at *
    have hx := h x List.mem_cons_self
    cases h1 : f1 x with
    | error e =>
      rw [h1] at hne hx
      have he : e ≠ .other "fuel" := fun hc => hne (by rw [hc]; rfl)
      rw [hx (fun hc => he (by cases hc; rfl))]
      rfl
    | ok r =>
      rw [h1] at hne hx
      rw [hx (fun hc => by cases hc)]
      have hxs : xs.mapM f1 ≠ .error (.other "fuel") := by
        intro hc
        apply hne
        simp only [bind, Except.bind, hc]
      have := ih (fun a ha => h a (List.mem_cons_of_mem _ ha)) hxs
      simp only [bind, Except.bind, this]

theorem coalitionBracketer_congr (members : Cand → Nat) (evs1 evs2 : List (Nat × Seatless)) (d1 d2 : Seatless)
    (votes : Votes)
    (h : ∀ k, dictGet evs1 k d1 votes ≠ .error (.other "fuel") → dictGet evs2 k d2 votes = dictGet evs1 k d1 votes)
    (hne : coalitionBracketer members evs1 d1 votes ≠ .error (.other "fuel")) :
    coalitionBracketer members evs2 d2 votes = coalitionBracketer members evs1 d1 votes := by
  have hm := mapM_congr_nonfuel
    (fun k => (do let r ← dictGet evs1 k d1 votes; pure (k, r) : Except Err (Nat × List Cand)))
    (fun k => (do let r ← dictGet evs2 k d2 votes; pure (k, r) : Except Err (Nat × List Cand)))
    (sortedDistinct (((sortDesc votes).map (fun p : Cand × Rat => p.1)).map members))
    (by
      intro k _ hk
      have : dictGet evs1 k d1 votes ≠ .error (.other "fuel") := by
        intro hc; apply hk; simp only [hc, bind, Except.bind]
      simp only [h k this])
    (by
      intro hc; apply hne
      show (do
        let passed ← (sortedDistinct (((sortDesc votes).map (fun p : Cand × Rat => p.1)).map members)).mapM
          (fun k => (do let r ← dictGet evs1 k d1 votes; pure (k, r) : Except Err (Nat × List Cand)))
        pure (((sortDesc votes).map (fun p : Cand × Rat => p.1)).filter (fun c => (dictGet passed (members c) []).contains c))) = _
      rw [hc]; rfl)
  show (do
      let passed ← (sortedDistinct (((sortDesc votes).map (fun p : Cand × Rat => p.1)).map members)).mapM
        (fun k => (do let r ← dictGet evs2 k d2 votes; pure (k, r) : Except Err (Nat × List Cand)))
      pure (((sortDesc votes).map (fun p : Cand × Rat => p.1)).filter (fun c => (dictGet passed (members c) []).contains c))) =
    (do
      let passed ← (sortedDistinct (((sortDesc votes).map (fun p : Cand × Rat => p.1)).map members)).mapM
        (fun k => (do let r ← dictGet evs1 k d1 votes; pure (k, r) : Except Err (Nat × List Cand)))
      pure (((sortDesc votes).map (fun p : Cand × Rat => p.1)).filter (fun c => (dictGet passed (members c) []).contains c)))
  rw [hm]

theorem propertyLoop_congr (prop : Cand → Option Nat) (evs1 evs2 : List (Nat × Option Seatless))
    (d1 d2 : Option Seatless) (votes : Votes)
    (h : ∀ v, propertyVariant evs1 d1 votes v ≠ .error (.other "fuel") →
      propertyVariant evs2 d2 votes v = propertyVariant evs1 d1 votes v) :
    ∀ (cs : List Cand) (cache : List (Option Nat × List Cand)),
      propertyLoop prop evs1 d1 votes cs cache ≠ .error (.other "fuel") →
      propertyLoop prop evs2 d2 votes cs cache = propertyLoop prop evs1 d1 votes cs cache := by
  intro cs
  induction cs with
  | nil => intro cache _; rfl
  | cons c cs ih =>
    intro cache hne
    simp only [propertyLoop] at hne ⊢
    split
    · rename_i e hfind
      simp only [hfind] at hne
      have hrest : propertyLoop prop evs1 d1 votes cs cache ≠ .error (.other "fuel") := by
        intro hc; apply hne; simp only [bind, Except.bind, hc]
      rw [ih cache hrest]
    · rename_i hfind
      simp only [hfind] at hne
      have hv : propertyVariant evs1 d1 votes (prop c) ≠ .error (.other "fuel") := by
        intro hc; apply hne; simp only [bind, Except.bind, hc]
      rw [h _ hv]
      cases hr : propertyVariant evs1 d1 votes (prop c) with
      | error e => rfl
      | ok r =>
        rw [hr] at hne
        have hrest : propertyLoop prop evs1 d1 votes cs ((prop c, r) :: cache) ≠ .error (.other "fuel") := by
          intro hc; apply hne; simp only [bind, Except.bind, hc]
        simp only [bind, Except.bind, ih _ hrest]

/-! ### PropertyBracketer: loop invariant, and the bracket selector inside a tree -/

theorem propertyLoop_spec (prop : Cand → Option Nat) (evs : List (Nat × Option Seatless))
    (dflt : Option Seatless) (votes : Votes) :
    ∀ (cs : List Cand) (cache : List (Option Nat × List Cand)) (out : List Cand),
      (∀ e ∈ cache, propertyVariant evs dflt votes e.1 = .ok e.2) →
      propertyLoop prop evs dflt votes cs cache = .ok out →
      out.Sublist cs ∧
      ∀ c, c ∈ out ↔ c ∈ cs ∧ ∃ r, propertyVariant evs dflt votes (prop c) = .ok r ∧ c ∈ r := by
  intro cs
  induction cs with
  | nil =>
    intro cache out _ h
    simp only [propertyLoop] at h
    cases h
    simp
  | cons x xs ih =>
    intro cache out hinv h
    simp only [propertyLoop] at h
    -- common final step
    have fin : ∀ (r rest : List Cand), propertyVariant evs dflt votes (prop x) = .ok r →
        (rest.Sublist xs ∧ ∀ c, c ∈ rest ↔ c ∈ xs ∧ ∃ r, propertyVariant evs dflt votes (prop c) = .ok r ∧ c ∈ r) →
        out = (if r.contains x then x :: rest else rest) →
        out.Sublist (x :: xs) ∧
          ∀ c, c ∈ out ↔ c ∈ x :: xs ∧ ∃ r, propertyVariant evs dflt votes (prop c) = .ok r ∧ c ∈ r := by
      intro r rest hr ⟨hs, hmem⟩ ho
      by_cases hx : r.contains x = true
      · rw [if_pos hx] at ho
        subst ho
        refine ⟨hs.cons_cons x, ?_⟩
        intro c
        simp only [List.mem_cons, hmem]
        constructor
        · rintro (rfl | ⟨h1, h2⟩)
          · exact ⟨Or.inl rfl, r, hr, by simpa using hx⟩
          · exact ⟨Or.inr h1, h2⟩
        · rintro ⟨rfl | h1, h2⟩
          · exact Or.inl rfl
          · exact Or.inr ⟨h1, h2⟩
      · rw [if_neg hx] at ho
        subst ho
        refine ⟨hs.cons x, ?_⟩
        intro c
        simp only [List.mem_cons, hmem]
        constructor
        · rintro ⟨h1, h2⟩; exact ⟨Or.inr h1, h2⟩
        · rintro ⟨rfl | h1, r', hr', hc⟩
          · rw [hr] at hr'; cases hr'
            exact absurd (by simpa using hc) hx
          · exact ⟨h1, r', hr', hc⟩
    split at h
    · rename_i e hfind
      have he := List.mem_of_find?_eq_some hfind
      have hk : e.1 = prop x := by simpa using List.find?_some hfind
      have hr : propertyVariant evs dflt votes (prop x) = .ok e.2 := hk ▸ hinv e he
      simp only [bind, Except.bind] at h
      split at h
      · cases h
      · rename_i rest hrest
        exact fin e.2 rest hr (ih cache rest hinv hrest) (by cases h; rfl)
    · simp only [bind, Except.bind] at h
      split at h
      · cases h
      · rename_i r hr
        split at h
        · cases h
        · rename_i rest hrest
          have hinv' : ∀ e ∈ (prop x, r) :: cache, propertyVariant evs dflt votes e.1 = .ok e.2 := by
            intro e he
            rcases List.mem_cons.mp he with rfl | he'
            · exact hr
            · exact hinv e he'
          exact fin r rest hr (ih _ rest hinv' hrest) (by cases h; rfl)


/-- the selector a `PropertyBracketer` node of a tree applies to a candidate whose property value is `v`
    (`none` = the candidate has no such property): `evaluators.get(v, default)` -/
def propSel (evs : List (Nat × Option Sel)) (d : Option Sel) : Option Nat → Option Sel
  | some k => dictGet evs k d
  | none => d

/-- what the property bracketer of a tree applies to a property value -/
theorem propertyVariant_sel (a : Attrs) (f : Nat) (evs : List (Nat × Option Sel)) (d : Option Sel)
    (votes : Votes) (v : Option Nat) :
    propertyVariant (evs.map (fun e => (e.1, (Option.map (fun x v => Sel.eval a f x v none)) e.2)))
      (Option.map (fun x v => Sel.eval a f x v none) d) votes v =
      (match propSel evs d v with
       | some s => Sel.eval a f s votes none
       | none => .ok (keys votes)) := by
  unfold propertyVariant propSel
  cases v with
  | none => cases d <;> rfl
  | some k =>
    simp only
    rw [dictGet_map (Option.map (fun x v => Sel.eval a f x v none))]
    cases dictGet evs k d <;> rfl

end VL
