/-
  Helper lemmas for the bracketers of threshold.py (C16).
-/
import VotelibProofs.Lemmas.SortBy
namespace VL

theorem mem_insertDistinct {k x : Nat} {l : List Nat} : x ∈ insertDistinct k l ↔ x = k ∨ x ∈ l := by
  induction l with
  | nil => simp [insertDistinct]
  | cons y ys ih =>
    unfold insertDistinct
    split
    · simp
    · split
      · rename_i _ hky
        simp only [List.mem_cons]
        constructor
        · intro h; exact Or.inr h
        · rintro (h | h)
          · exact Or.inl (h.trans hky)
          · exact h
      · simp only [List.mem_cons, ih]
        constructor
        · rintro (h | h | h)
          · exact Or.inr (Or.inl h)
          · exact Or.inl h
          · exact Or.inr (Or.inr h)
        · rintro (h | h | h)
          · exact Or.inr (Or.inl h)
          · exact Or.inl h
          · exact Or.inr (Or.inr h)

theorem mem_sortedDistinct {x : Nat} {l : List Nat} : x ∈ sortedDistinct l ↔ x ∈ l := by
  induction l with
  | nil => simp [sortedDistinct]
  | cons y ys ih => simp only [sortedDistinct, mem_insertDistinct, ih, List.mem_cons]

/-- `dict.get` returns the value of an entry with that key when there is one -/
theorem dictGet_mem {β : Type} (d : List (Nat × β)) (k : Nat) (dflt : β) (h : ∃ e ∈ d, e.1 = k) :
    ∃ e ∈ d, e.1 = k ∧ dictGet d k dflt = e.2 := by
  unfold dictGet
  cases hf : d.find? (fun e => e.1 == k) with
  | none =>
    obtain ⟨e, he, hk⟩ := h
    have := List.find?_eq_none.mp hf e he
    simp [hk] at this
  | some e =>
    have hm := List.mem_of_find?_eq_some hf
    have hk := List.find?_some hf
    exact ⟨e, hm, by simpa using hk, rfl⟩

theorem dictGet_absent {β : Type} (d : List (Nat × β)) (k : Nat) (dflt : β) (h : ∀ e ∈ d, e.1 ≠ k) :
    dictGet d k dflt = dflt := by
  unfold dictGet
  cases hf : d.find? (fun e => e.1 == k) with
  | none => rfl
  | some e =>
    have hm := List.mem_of_find?_eq_some hf
    have hk := List.find?_some hf
    exact absurd (by simpa using hk) (h e hm)

theorem dictGet_map {β γ : Type} (f : β → γ) (d : List (Nat × β)) (k : Nat) (dflt : β) :
    dictGet (d.map (fun e => (e.1, f e.2))) k (f dflt) = f (dictGet d k dflt) := by
  induction d with
  | nil => rfl
  | cons x xs ih =>
    unfold dictGet at ih ⊢
    simp only [List.map_cons, List.find?_cons]
    cases hx : (x.1 == k) with
    | true => rfl
    | false => simpa using ih

/-- the dictionary comprehension `{k: f(k) for k in ks}` evaluated in `Except` -/
theorem mapM_pair_ok {β : Type} {f : Nat → Except Err β} {ks : List Nat} {ps : List (Nat × β)}
    (h : ks.mapM (fun k => do let r ← f k; pure (k, r)) = .ok ps) :
    (∀ e ∈ ps, f e.1 = .ok e.2) ∧ (∀ k ∈ ks, ∃ e ∈ ps, e.1 = k) := by
  have hf := (mapM_except_ok _ _ _).mp h
  clear h
  induction hf with
  | nil => simp
  | @cons k e ks' ps' h1 _ ih =>
    have hk : f k = .ok e.2 ∧ e.1 = k := by
      cases hfk : f k with
      | error err => rw [hfk] at h1; cases h1
      | ok r => rw [hfk] at h1; cases h1; exact ⟨rfl, rfl⟩
    constructor
    · intro e' he'
      rcases List.mem_cons.mp he' with rfl | he''
      · rw [hk.2]; exact hk.1
      · exact ih.1 e' he''
    · intro k' hk'
      rcases List.mem_cons.mp hk' with rfl | hk''
      · exact ⟨e, List.mem_cons_self, hk.2⟩
      · obtain ⟨e', he', hke⟩ := ih.2 k' hk''
        exact ⟨e', List.mem_cons_of_mem _ he', hke⟩

theorem mem_keys_sortDesc {votes : Votes} {c : Cand} : c ∈ (sortDesc votes).map (·.1) ↔ c ∈ keys votes := by
  unfold keys
  exact ((sortDesc_perm votes).map _).mem_iff

end VL
