/-
  The decidable PSC checker (VotelibModel/PSC.lean) decides the statement quantified over all candidate subsets.
-/
import VotelibProofs.Lemmas.STVRun
import VotelibModel.PSC
namespace VL.STV
open VL

/-- **Proportionality for solid coalitions**, quantified over every non-empty candidate set `S` (as a
    duplicate-free list) and every number `k` of quotas its solid supporters hold: at least `k` members of
    `S`, or all of them, are elected. -/
def PSC (votes : Profile) (q : Rat) (elected : List Cand) : Prop :=
  ∀ S : List Cand, S.Nodup → S ≠ [] → ∀ k : Nat, (k : Rat) * q ≤ support votes S →
    min k S.length ≤ electedIn elected S

theorem sameSet_iff {l1 l2 : List Cand} : sameSet l1 l2 = true ↔ ∀ x, x ∈ l1 ↔ x ∈ l2 := by
  simp only [sameSet, Bool.and_eq_true, List.all_eq_true, decide_eq_true_eq]
  constructor
  · rintro ⟨h1, h2⟩ x; exact ⟨h1 x, h2 x⟩
  · intro h; exact ⟨fun x hx => (h x).mp hx, fun x hx => (h x).mpr hx⟩

theorem sameSet_congr {S S' : List Cand} (h : ∀ x, x ∈ S ↔ x ∈ S') (l : List Cand) : sameSet l S = sameSet l S' := by
  rw [Bool.eq_iff_iff, sameSet_iff, sameSet_iff]
  constructor
  · intro h1 x; rw [h1 x, h x]
  · intro h1 x; rw [h1 x, h x]

theorem solidFor_congr {S S' : List Cand} (h : ∀ x, x ∈ S ↔ x ∈ S') (b : Ballot) : solidFor b S = solidFor b S' := by
  unfold solidFor
  congr 1
  funext j
  exact sameSet_congr h _

theorem support_congr {S S' : List Cand} (h : ∀ x, x ∈ S ↔ x ∈ S') (votes : Profile) :
    support votes S = support votes S' := by
  unfold support
  congr 2
  apply List.filter_congr
  intro bw _
  exact solidFor_congr h bw.1

theorem perm_of_same {S S' : List Cand} (hn : S.Nodup) (hn' : S'.Nodup) (h : ∀ x, x ∈ S ↔ x ∈ S') : S.Perm S' :=
  (List.perm_ext_iff_of_nodup hn hn').mpr h

theorem electedIn_congr {S S' : List Cand} (hp : S.Perm S') (elected : List Cand) :
    electedIn elected S = electedIn elected S' := (hp.filter _).length_eq

theorem support_nonneg {votes : Profile} (hwf : WFVotes votes) (S : List Cand) : 0 ≤ support votes S := by
  have : support votes S = pileTotal (votes.filter (fun bw => solidFor bw.1 S)) := rfl
  rw [this]
  exact pileTotal_nonneg (fun x hx => hwf x (List.mem_filter.mp hx).1)

theorem support_zero_of_none {votes : Profile} {S : List Cand} (h : ∀ bw ∈ votes, solidFor bw.1 S = false) :
    support votes S = 0 := by
  unfold support
  have : votes.filter (fun bw => solidFor bw.1 S) = [] := by
    rw [List.filter_eq_nil_iff]; intro bw hbw; simp [h bw hbw]
  rw [this]; simp

theorem pscCheck_iff {votes : Profile} {q : Rat} (hq : 0 < q) (hwf : WFVotes votes) (elected : List Cand) :
    pscCheck votes q elected = true ↔ PSC votes q elected := by
  constructor
  · intro hc S hnd hne k hk
    by_cases hex : ∃ bw ∈ votes, solidFor bw.1 S = true
    · obtain ⟨bw, hbw, hsol⟩ := hex
      unfold solidFor at hsol
      rw [List.any_eq_true] at hsol
      obtain ⟨j, hj, hsame⟩ := hsol
      have hset : ∀ x, x ∈ dedupFirst (prefixCands bw.1 j) ↔ x ∈ S := by
        intro x; rw [mem_dedupFirst]; exact sameSet_iff.mp hsame x
      have hperm := perm_of_same (dedupFirst_nodup _) hnd hset
      unfold pscCheck at hc
      rw [List.all_eq_true] at hc
      have h1 := hc bw hbw
      rw [List.all_eq_true] at h1
      have h2 := h1 j hj
      simp only [Bool.or_eq_true] at h2
      rcases h2 with h2 | h2
      · exfalso
        have : dedupFirst (prefixCands bw.1 j) = [] := by simpa using h2
        rw [this] at hperm
        exact hne (List.Perm.nil_eq hperm).symm
      · unfold pscHolds at h2
        simp only [decide_eq_true_eq] at h2
        rw [support_congr hset, hperm.length_eq, electedIn_congr hperm] at h2
        have hkq : (k : Rat) ≤ support votes S / q := by rw [le_div_iff₀ hq]; exact hk
        have hkf : (k : Int) ≤ (support votes S / q).floor := Rat.le_floor_iff.mpr (by exact_mod_cast hkq)
        have : k ≤ (support votes S / q).floor.toNat := by omega
        exact le_trans (min_le_min_right _ this) h2
    · have hnone : ∀ bw ∈ votes, solidFor bw.1 S = false := by
        intro bw hbw
        by_contra hc'
        exact hex ⟨bw, hbw, by simpa using hc'⟩
      rw [support_zero_of_none hnone] at hk
      have : (k : Rat) ≤ 0 := by
        by_contra hpos
        have : 0 < (k : Rat) * q := mul_pos (not_le.mp hpos) hq
        linarith
      have hk0 : k = 0 := by
        have : (k : Rat) = 0 := le_antisymm this (Nat.cast_nonneg _)
        exact_mod_cast this
      simp [hk0]
  · intro hp
    unfold pscCheck
    rw [List.all_eq_true]
    intro bw hbw
    rw [List.all_eq_true]
    intro j _
    simp only [Bool.or_eq_true]
    by_cases he : (dedupFirst (prefixCands bw.1 j)).isEmpty = true
    · left; exact he
    · right
      unfold pscHolds
      simp only [decide_eq_true_eq]
      apply hp _ (dedupFirst_nodup _) (by intro h0; rw [h0] at he; simp at he)
      set x := support votes (dedupFirst (prefixCands bw.1 j)) / q with hx
      have hs := support_nonneg hwf (dedupFirst (prefixCands bw.1 j))
      have hx0 : 0 ≤ x := div_nonneg hs (le_of_lt hq)
      have hf0 : (0 : Int) ≤ x.floor := Rat.le_floor_iff.mpr (by simpa using hx0)
      have hcast : ((x.floor.toNat : Nat) : Rat) = ((x.floor : Int) : Rat) := by
        have : ((x.floor.toNat : Nat) : Int) = x.floor := Int.toNat_of_nonneg hf0
        exact_mod_cast this
      rw [hcast]
      have := Rat.floor_le x
      calc ((x.floor : Int) : Rat) * q ≤ x * q := mul_le_mul_of_nonneg_right this (le_of_lt hq)
        _ = support votes (dedupFirst (prefixCands bw.1 j)) := by rw [hx]; field_simp

end VL.STV
