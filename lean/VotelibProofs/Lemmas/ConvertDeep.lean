/-
  C13 helper lemmas: SubsettedVotes at any nesting depth (`subsettedDeep`), nested dictionaries read
  path-wise (`leafAt`), the nested dict sum `mergeN`.
-/
import VotelibProofs.Lemmas.ConvertMisc
namespace VL.Convert
open VL

variable {κ : Type} [DecidableEq κ]

/-- a dictionary nested exactly `n` deep whose nesting keys are distinct at every level -/
def Shaped : Nat → NDict κ → Prop
  | 0, .leaf _ => True
  | n + 1, .node cs => (dkeys cs).Nodup ∧ ∀ kc ∈ cs, Shaped n kc.2
  | _, _ => False

/-- apply `f` to every innermost vote dictionary, keeping the nesting -/
def mapLeaves (f : Dict κ → Dict κ) : Nat → NDict κ → NDict κ
  | 0, .leaf d => .leaf (f d)
  | n + 1, .node cs => .node (cs.map (fun kc => (kc.1, mapLeaves f n kc.2)))
  | _, t => t

/-- `d.get(key)` on a nesting level -/
def childAt (cs : List (Nat × NDict κ)) (d : Nat) : Option (NDict κ) :=
  (cs.find? (fun kc => kc.1 = d)).map (·.2)

/-- the innermost vote dictionary found along a path of nesting keys (`{}` when there is none) -/
def leafAt : Nat → NDict κ → List Nat → Dict κ
  | 0, .leaf d, [] => d
  | n + 1, .node cs, d :: π =>
    match childAt cs d with
    | some c => leafAt n c π
    | none => []
  | _, _, _ => []

omit [DecidableEq κ] in
theorem mapM_ok_of_forall {α β : Type} (f : α → Except Err β) (g : α → β) (l : List α)
    (h : ∀ x ∈ l, f x = .ok (g x)) : l.mapM f = .ok (l.map g) := by
  induction l with
  | nil => rfl
  | cons a t ih =>
    rw [List.mapM_cons, h a (by simp), ih (fun x hx => h x (by simp [hx]))]
    rfl

/-- one entry of the comprehension over the nesting keys -/
def deepStep (sub : κ → Option κ) (n : Nat) (kc : Nat × NDict κ) : Except Err (Nat × NDict κ) :=
  match subsettedDeep sub n kc.2 with
  | .ok c => .ok (kc.1, c)
  | .error e => .error e

theorem subsettedDeep_succ (sub : κ → Option κ) (n : Nat) (cs : List (Nat × NDict κ)) :
    subsettedDeep sub (n + 1) (.node cs) = (match cs.mapM (deepStep sub n) with
      | .ok l => .ok (.node (dictOf l))
      | .error e => .error e) := rfl

/-- on a well-shaped dictionary the converter subsets every innermost dictionary and keeps the nesting -/
theorem subsettedDeep_eq (sub : κ → Option κ) (n : Nat) (t : NDict κ) (h : Shaped n t) :
    subsettedDeep sub n t = .ok (mapLeaves (subsetted sub) n t) := by
  induction n generalizing t with
  | zero =>
    cases t with
    | leaf d => rfl
    | node cs => exact h.elim
  | succ n ih =>
    cases t with
    | leaf d => exact h.elim
    | node cs =>
      obtain ⟨hk, hc⟩ := h
      have hm : cs.mapM (deepStep sub n) = .ok (cs.map (fun kc => (kc.1, mapLeaves (subsetted sub) n kc.2))) := by
        apply mapM_ok_of_forall
        intro kc hkc
        unfold deepStep
        rw [ih kc.2 (hc kc hkc)]
      rw [subsettedDeep_succ, hm]
      simp only [mapLeaves]
      congr 2
      apply dictOf_of_nodup
      have : dkeys (cs.map (fun kc => (kc.1, mapLeaves (subsetted sub) n kc.2))) = dkeys cs := by
        unfold dkeys; rw [List.map_map]; rfl
      rw [this]; exact hk

omit [DecidableEq κ] in
theorem shaped_mapLeaves (f : Dict κ → Dict κ) (n : Nat) (t : NDict κ) (h : Shaped n t) :
    Shaped n (mapLeaves f n t) := by
  induction n generalizing t with
  | zero =>
    cases t with
    | leaf d => trivial
    | node cs => exact h.elim
  | succ n ih =>
    cases t with
    | leaf d => exact h.elim
    | node cs =>
      obtain ⟨hk, hc⟩ := h
      refine ⟨?_, ?_⟩
      · have : dkeys (cs.map (fun kc => (kc.1, mapLeaves f n kc.2))) = dkeys cs := by
          unfold dkeys; rw [List.map_map]; rfl
        rw [this]; exact hk
      · intro kc hkc
        obtain ⟨kc0, h0, rfl⟩ := List.mem_map.1 hkc
        exact ih kc0.2 (hc kc0 h0)

omit [DecidableEq κ] in
theorem childAt_map (g : NDict κ → NDict κ) (cs : List (Nat × NDict κ)) (d : Nat) :
    childAt (cs.map (fun kc => (kc.1, g kc.2))) d = (childAt cs d).map g := by
  unfold childAt
  rw [List.find?_map]
  have : ((fun kc : Nat × NDict κ => decide (kc.1 = d)) ∘ fun kc : Nat × NDict κ => (kc.1, g kc.2))
      = fun kc : Nat × NDict κ => decide (kc.1 = d) := rfl
  rw [this]
  cases List.find? (fun kc : Nat × NDict κ => decide (kc.1 = d)) cs <;> rfl

/-- path-wise image: along every path the result holds `f` of what the input held -/
theorem leafAt_mapLeaves (f : Dict κ → Dict κ) (hf : f [] = []) (n : Nat) (t : NDict κ) (π : List Nat) :
    leafAt n (mapLeaves f n t) π = f (leafAt n t π) := by
  induction n generalizing t π with
  | zero =>
    cases t with
    | leaf d =>
      cases π with
      | nil => rfl
      | cons a b => simp [mapLeaves, leafAt, hf]
    | node cs => simp [mapLeaves, leafAt, hf]
  | succ n ih =>
    cases t with
    | leaf d => simp [mapLeaves, leafAt, hf]
    | node cs =>
      cases π with
      | nil => simp [mapLeaves, leafAt, hf]
      | cons d π =>
        simp only [mapLeaves, leafAt, childAt_map]
        cases childAt cs d with
        | none => simp [hf]
        | some c => simp [ih]

/-! ### the nested dict sum -/

omit [DecidableEq κ] in
theorem leafAt_emptyN (n : Nat) (π : List Nat) : leafAt n (emptyN n : NDict κ) π = [] := by
  cases n with
  | zero => cases π <;> rfl
  | succ n => cases π <;> rfl

omit [DecidableEq κ] in
theorem shaped_emptyN (n : Nat) : Shaped n (emptyN n : NDict κ) := by
  cases n with
  | zero => trivial
  | succ n => exact ⟨by simp [dkeys], by intro kc h; simp at h⟩

omit [DecidableEq κ] in
theorem childAt_insertChild (m : NDict κ → NDict κ → NDict κ) (emp : NDict κ) (acc : List (Nat × NDict κ))
    (d : Nat) (c : NDict κ) (d' : Nat) :
    childAt (insertChild m emp acc d c) d'
      = if d' = d then some (m ((childAt acc d).getD emp) c) else childAt acc d' := by
  induction acc with
  | nil =>
    unfold childAt
    by_cases h : d' = d
    · subst h; simp [insertChild]
    · have : ¬ d = d' := fun e => h e.symm
      simp [insertChild, h, this]
  | cons a t ih =>
    obtain ⟨k, c'⟩ := a
    unfold insertChild
    by_cases hk : k = d
    · subst hk
      rw [if_pos rfl]
      unfold childAt
      by_cases h : d' = k
      · subst h; simp
      · have : ¬ k = d' := fun e => h e.symm
        simp [h, this]
    · rw [if_neg hk]
      unfold childAt at ih ⊢
      simp only [List.find?_cons]
      by_cases h : d' = d
      · subst h
        have hk' : ¬ k = d' := hk
        simp only [hk', decide_false, if_true] at ih ⊢
        simpa using ih
      · by_cases hkd : k = d'
        · simp [hkd, h]
        · simp only [hkd, decide_false, h, if_false] at ih ⊢
          simpa using ih

omit [DecidableEq κ] in
theorem dkeys_insertChild (m : NDict κ → NDict κ → NDict κ) (emp : NDict κ) (acc : List (Nat × NDict κ))
    (d : Nat) (c : NDict κ) :
    dkeys (insertChild m emp acc d c) = if d ∈ dkeys acc then dkeys acc else dkeys acc ++ [d] := by
  induction acc with
  | nil => simp [insertChild, dkeys]
  | cons e t ih =>
    obtain ⟨d', c'⟩ := e
    unfold insertChild
    by_cases h : d' = d
    · subst h; simp [dkeys]
    · rw [if_neg h]
      have h' : ¬ d = d' := fun e => h e.symm
      simp only [dkeys, List.map_cons, List.mem_cons, h', false_or] at ih ⊢
      rw [ih]; split <;> rename_i hh <;> simp [hh]

omit [DecidableEq κ] in
theorem mem_insertChild (m : NDict κ → NDict κ → NDict κ) (emp : NDict κ) (acc : List (Nat × NDict κ))
    (d : Nat) (c : NDict κ) (kc : Nat × NDict κ) (h : kc ∈ insertChild m emp acc d c) :
    kc ∈ acc ∨ ∃ x, (x = emp ∨ ∃ k, (k, x) ∈ acc) ∧ kc.2 = m x c := by
  induction acc with
  | nil =>
    simp only [insertChild, List.mem_singleton] at h
    subst h
    exact Or.inr ⟨emp, Or.inl rfl, rfl⟩
  | cons e t ih =>
    obtain ⟨d', c'⟩ := e
    unfold insertChild at h
    by_cases hk : d' = d
    · rw [if_pos hk] at h
      rcases List.mem_cons.1 h with rfl | h
      · exact Or.inr ⟨c', Or.inr ⟨d', by simp⟩, rfl⟩
      · exact Or.inl (List.mem_cons_of_mem _ h)
    · rw [if_neg hk] at h
      rcases List.mem_cons.1 h with rfl | h
      · exact Or.inl (by simp)
      · rcases ih h with h1 | ⟨x, hx, e⟩
        · exact Or.inl (List.mem_cons_of_mem _ h1)
        · refine Or.inr ⟨x, ?_, e⟩
          rcases hx with rfl | ⟨k, hk'⟩
          · exact Or.inl rfl
          · exact Or.inr ⟨k, List.mem_cons_of_mem _ hk'⟩

/-- the value read along a path -/
def valAt (n : Nat) (t : NDict κ) (π : List Nat) (k : κ) : Rat := toFun (leafAt n t π) k

theorem valAt_node_cons (n : Nat) (cs : List (Nat × NDict κ)) (d : Nat) (π : List Nat) (k : κ) :
    valAt (n + 1) (.node cs) (d :: π) k = match childAt cs d with
      | some c => valAt n c π k
      | none => 0 := by
  unfold valAt
  simp only [leafAt]
  cases childAt cs d <;> simp

theorem valAt_node_nil (n : Nat) (cs : List (Nat × NDict κ)) (k : κ) : valAt (n + 1) (.node cs) [] k = 0 := by
  simp [valAt, leafAt]

/-- with distinct keys, the entry found under `d` is the only one -/
theorem sum_children_eq (n : Nat) (bs : List (Nat × NDict κ)) (hb : (dkeys bs).Nodup) (d : Nat) (π : List Nat) (k : κ) :
    (bs.map (fun kc => if kc.1 = d then valAt n kc.2 π k else 0)).sum = valAt (n + 1) (.node bs) (d :: π) k := by
  rw [valAt_node_cons]
  induction bs with
  | nil => simp [childAt]
  | cons a t ih =>
    simp only [dkeys, List.map_cons, List.nodup_cons] at hb
    simp only [List.map_cons, List.sum_cons]
    unfold childAt at ih ⊢
    simp only [List.find?_cons]
    by_cases h : a.1 = d
    · have hz : (t.map (fun kc => if kc.1 = d then valAt n kc.2 π k else 0)).sum = 0 := by
        apply List.sum_eq_zero
        intro x hx
        obtain ⟨kc, hkc, rfl⟩ := List.mem_map.1 hx
        have : kc.1 ≠ d := by
          intro e; apply hb.1; rw [h, ← e]; exact List.mem_map.2 ⟨kc, hkc, rfl⟩
        simp [this]
      simp [h, hz]
    · simp only [h, if_false, zero_add, decide_false]
      exact ih hb.2

/-- **the nested sum adds path-wise** and keeps the shape -/
theorem mergeN_spec (n : Nat) (a b : NDict κ) (ha : Shaped n a) (hb : Shaped n b) :
    Shaped n (mergeN n a b) ∧ ∀ π k, valAt n (mergeN n a b) π k = valAt n a π k + valAt n b π k := by
  induction n generalizing a b with
  | zero =>
    cases a with
    | node cs => exact ha.elim
    | leaf da =>
      cases b with
      | node cs => exact hb.elim
      | leaf db =>
        refine ⟨trivial, fun π k => ?_⟩
        cases π with
        | nil => simp [mergeN, valAt, leafAt, toFun_addDictToDict]
        | cons x y => simp [mergeN, valAt, leafAt]
  | succ n ih =>
    cases a with
    | leaf d => exact ha.elim
    | node as =>
      cases b with
      | leaf d => exact hb.elim
      | node bs =>
        obtain ⟨hak, hac⟩ := ha
        obtain ⟨hbk, hbc⟩ := hb
        -- fold invariant
        have key : ∀ (l : List (Nat × NDict κ)) (acc : List (Nat × NDict κ)),
            (∀ kc ∈ l, Shaped n kc.2) → (dkeys acc).Nodup → (∀ kc ∈ acc, Shaped n kc.2) →
            let r := l.foldl (fun acc kc => insertChild (mergeN n) (emptyN n) acc kc.1 kc.2) acc
            (dkeys r).Nodup ∧ (∀ kc ∈ r, Shaped n kc.2) ∧
            ∀ d π k, valAt (n + 1) (.node r) (d :: π) k
              = valAt (n + 1) (.node acc) (d :: π) k
                + (l.map (fun kc => if kc.1 = d then valAt n kc.2 π k else 0)).sum := by
          intro l
          induction l with
          | nil => intro acc _ h1 h2; exact ⟨h1, h2, fun d π k => by simp⟩
          | cons e t iht =>
            intro acc hl h1 h2
            have he : Shaped n e.2 := hl e (by simp)
            have h1' : (dkeys (insertChild (mergeN n) (emptyN n) acc e.1 e.2)).Nodup := by
              rw [dkeys_insertChild]
              split
              · exact h1
              · rename_i hk
                rw [List.nodup_append]
                exact ⟨h1, by simp, by intro x hx y hy; simp at hy; subst hy; intro e'; subst e'; exact hk hx⟩
            have h2' : ∀ kc ∈ insertChild (mergeN n) (emptyN n) acc e.1 e.2, Shaped n kc.2 := by
              intro kc hkc
              rcases mem_insertChild _ _ _ _ _ _ hkc with h | ⟨x, hx, e'⟩
              · exact h2 kc h
              · rw [e']
                rcases hx with rfl | ⟨k', hk'⟩
                · exact (ih _ _ (shaped_emptyN n) he).1
                · exact (ih _ _ (h2 _ hk') he).1
            obtain ⟨r1, r2, r3⟩ := iht _ (fun kc hkc => hl kc (by simp [hkc])) h1' h2'
            refine ⟨r1, r2, fun d π k => ?_⟩
            rw [List.foldl_cons, r3 d π k, List.map_cons, List.sum_cons, ← add_assoc]
            congr 1
            rw [valAt_node_cons, valAt_node_cons, childAt_insertChild]
            by_cases hd : d = e.1
            · subst hd
              simp only [if_true]
              cases hc : childAt acc e.1 with
              | none =>
                simp only [Option.getD_none]
                rw [(ih _ _ (shaped_emptyN n) he).2]
                simp [valAt, leafAt_emptyN]
              | some x =>
                simp only [Option.getD_some]
                have hx : Shaped n x := by
                  unfold childAt at hc
                  obtain ⟨kc, hkc, rfl⟩ := Option.map_eq_some_iff.1 hc
                  exact h2 kc (List.mem_of_find?_eq_some hkc)
                rw [(ih _ _ hx he).2]
            · have hd' : ¬ e.1 = d := fun e' => hd e'.symm
              simp [hd, hd']
        obtain ⟨k1, k2, k3⟩ := key bs as hbc hak hac
        refine ⟨⟨k1, k2⟩, fun π k => ?_⟩
        cases π with
        | nil => simp [mergeN, valAt_node_nil]
        | cons d π =>
          simp only [mergeN]
          rw [k3 d π k, sum_children_eq n bs hbk d π k]

/-! ### depth 1 (`List (district × votes)`) read district-wise -/

/-- the votes filed under district `d` (`{}` when there is none) -/
def distLeaf {δ : Type} [DecidableEq δ] (p : List (δ × Dict κ)) (d : δ) : Dict κ :=
  match p.find? (fun dv => dv.1 = d) with
  | some dv => dv.2
  | none => []

theorem nsum_eq_distLeaf {δ : Type} [DecidableEq δ] (p : List (δ × Dict κ)) (hp : (dkeys p).Nodup) (d : δ)
    (f : Dict κ → Rat) (hf : f [] = 0) : nsum p d f = f (distLeaf p d) := by
  unfold nsum distLeaf
  induction p with
  | nil => simp [hf]
  | cons a t ih =>
    simp only [dkeys, List.map_cons, List.nodup_cons] at hp
    simp only [List.map_cons, List.sum_cons, List.find?_cons]
    by_cases h : a.1 = d
    · have hz : (t.map (fun dv => if dv.1 = d then f dv.2 else 0)).sum = 0 := by
        apply List.sum_eq_zero
        intro x hx
        obtain ⟨dv, hdv, rfl⟩ := List.mem_map.1 hx
        have : dv.1 ≠ d := by
          intro e; apply hp.1; rw [h, ← e]; exact List.mem_map.2 ⟨dv, hdv, rfl⟩
        simp [this]
      simp [h, hz]
    · simp only [h, if_false, zero_add, decide_false]
      exact ih hp.2

theorem distLeaf_map {δ : Type} [DecidableEq δ] (g : Dict κ → Dict κ) (hg : g [] = []) (p : List (δ × Dict κ)) (d : δ) :
    distLeaf (p.map (fun dv => (dv.1, g dv.2))) d = g (distLeaf p d) := by
  unfold distLeaf
  rw [List.find?_map]
  have : ((fun dv : δ × Dict κ => decide (dv.1 = d)) ∘ fun dv : δ × Dict κ => (dv.1, g dv.2))
      = fun dv : δ × Dict κ => decide (dv.1 = d) := rfl
  rw [this]
  cases List.find? (fun dv : δ × Dict κ => decide (dv.1 = d)) p <;> simp [hg]

end VL.Convert
