/-
  C10, approval family: candidate names do not matter.  For every injective renaming `σ` of the candidates the SPAV
  outcome of the renamed profile is the renamed outcome — as an EQUALITY, also when `σ` is not monotone (the iteration
  order of the candidate set changes, but each round is decided by a strict maximum, which no order can change).
-/
import VotelibProofs.Lemmas.PermApproval
namespace VL.Perm
open VL VL.Appr VL.C10

/-- the profile with every candidate renamed -/
def renAppr (σ : Cand → Cand) (p : Profile) : Profile := p.map (fun bw => (bw.1.map σ, bw.2))

section
variable {σ : Cand → Cand} (hσ : Function.Injective σ)
include hσ

theorem appr_contains_ren (l : List Cand) (c : Cand) : (l.map σ).contains (σ c) = l.contains c := by
  have : σ c ∈ l.map σ ↔ c ∈ l := List.mem_map_of_injective hσ
  rw [List.contains_eq_mem, List.contains_eq_mem]
  by_cases h : c ∈ l
  · have h' : σ c ∈ l.map σ := this.mpr h
    simp only [h, h']
  · have h' : ¬ σ c ∈ l.map σ := fun e => h (this.mp e)
    simp only [h, h']

theorem interLen_ren (b e : List Cand) : interLen (b.map σ) (e.map σ) = interLen b e := by
  unfold interLen
  rw [List.filter_map, List.length_map]
  congr 1
  apply List.filter_congr
  intro c _
  exact appr_contains_ren hσ e c

theorem reweighted_ren (p : Profile) (e : List Cand) (c : Cand) :
    reweighted (renAppr σ p) (e.map σ) (σ c) = reweighted p e c := by
  unfold reweighted renAppr
  rw [List.map_map]
  congr 1
  apply List.map_congr_left
  intro bw _
  simp only [Function.comp_def, appr_contains_ren hσ, interLen_ren hσ]

theorem satH_ren (p : Profile) (a : List Cand) : satH (renAppr σ p) (a.map σ) = satH p a := by
  unfold satH renAppr
  rw [List.map_map]
  congr 1
  apply List.map_congr_left
  intro bw _
  simp only [Function.comp_def, interLen_ren hσ]

theorem appr_wf_ren {p : Profile} (h : WF p) : WF (renAppr σ p) := by
  intro bw hbw
  obtain ⟨x, hx, rfl⟩ := List.mem_map.mp hbw
  exact (h x hx).map hσ

omit hσ in
theorem mem_allCands_ren (p : Profile) (x : Cand) : x ∈ allCands (renAppr σ p) ↔ x ∈ (allCands p).map σ := by
  rw [mem_allCands, List.mem_map]
  unfold renAppr
  constructor
  · rintro ⟨bw, hbw, hx⟩
    obtain ⟨bw0, h0, rfl⟩ := List.mem_map.mp hbw
    obtain ⟨c, hc, rfl⟩ := List.mem_map.mp hx
    exact ⟨c, mem_allCands.mpr ⟨bw0, h0, hc⟩, rfl⟩
  · rintro ⟨c, hc, rfl⟩
    obtain ⟨bw0, h0, hc0⟩ := mem_allCands.mp hc
    exact ⟨_, List.mem_map.mpr ⟨bw0, h0, rfl⟩, List.mem_map.mpr ⟨c, hc0, rfl⟩⟩

theorem mem_standing_ren (p : Profile) (e : List Cand) (x : Cand) :
    x ∈ standing (renAppr σ p) (e.map σ) ↔ ∃ c ∈ standing p e, σ c = x := by
  rw [mem_standing, mem_allCands_ren, List.mem_map]
  constructor
  · rintro ⟨⟨c, hc, rfl⟩, hne⟩
    exact ⟨c, mem_standing.mpr ⟨hc, fun h => hne (List.mem_map.mpr ⟨c, h, rfl⟩)⟩, rfl⟩
  · rintro ⟨c, hc, rfl⟩
    obtain ⟨h1, h2⟩ := mem_standing.mp hc
    exact ⟨⟨c, h1, rfl⟩, fun h => h2 ((List.mem_map_of_injective hσ).mp h)⟩

/-- the defining recursion of SPAV commutes with the renaming, from every state -/
theorem spavSpecGo_ren (p : Profile) : ∀ (k : Nat) (e : List Cand),
    spavSpecGo (renAppr σ p) k (e.map σ) = (spavSpecGo p k e).map (List.map σ) := by
  intro k
  induction k with
  | zero => intro e; rfl
  | succ k ih =>
    intro e
    unfold spavSpecGo
    simp only
    change (match standing (renAppr σ p) (e.map σ) with
      | [] => Except.ok (e.map σ)
      | _ => match (standing (renAppr σ p) (e.map σ)).filter (fun c => (standing (renAppr σ p) (e.map σ)).all
            (fun d => decide (reweighted (renAppr σ p) (e.map σ) d ≤ reweighted (renAppr σ p) (e.map σ) c))) with
        | [c] => spavSpecGo (renAppr σ p) k (e.map σ ++ [c])
        | _ => Except.error Err.notImplemented) =
      Except.map (List.map σ) (match standing p e with
      | [] => Except.ok e
      | _ => match (standing p e).filter (fun c => (standing p e).all
            (fun d => decide (reweighted p e d ≤ reweighted p e c))) with
        | [c] => spavSpecGo p k (e ++ [c])
        | _ => Except.error Err.notImplemented)
    have hmem := mem_standing_ren hσ p e
    have hA := fun (c : Cand) => argmax_singleton_iff (standing_nodup p e) (fun d => reweighted p e d) (a := c)
    have hB := fun (c : Cand) => argmax_singleton_iff (standing_nodup (renAppr σ p) (e.map σ))
      (fun d => reweighted (renAppr σ p) (e.map σ) d) (a := c)
    -- a strict winner on one side is a strict winner on the other
    have fwd : ∀ c, (standing p e).filter (fun c => (standing p e).all
          (fun d => decide (reweighted p e d ≤ reweighted p e c))) = [c] →
        (standing (renAppr σ p) (e.map σ)).filter (fun c => (standing (renAppr σ p) (e.map σ)).all
          (fun d => decide (reweighted (renAppr σ p) (e.map σ) d ≤ reweighted (renAppr σ p) (e.map σ) c))) = [σ c] := by
      intro c hc
      obtain ⟨h1, h2⟩ := (hA c).mp hc
      apply (hB (σ c)).mpr
      refine ⟨(hmem _).mpr ⟨c, h1, rfl⟩, ?_⟩
      intro b hb hne
      obtain ⟨d, hd, rfl⟩ := (hmem b).mp hb
      rw [reweighted_ren hσ, reweighted_ren hσ]
      exact h2 d hd (fun h => hne (by rw [h]))
    have bwd : ∀ c', (standing (renAppr σ p) (e.map σ)).filter (fun c => (standing (renAppr σ p) (e.map σ)).all
          (fun d => decide (reweighted (renAppr σ p) (e.map σ) d ≤ reweighted (renAppr σ p) (e.map σ) c))) = [c'] →
        ∃ c, σ c = c' ∧ (standing p e).filter (fun c => (standing p e).all
          (fun d => decide (reweighted p e d ≤ reweighted p e c))) = [c] := by
      intro c' hc'
      obtain ⟨h1, h2⟩ := (hB c').mp hc'
      obtain ⟨c, hc, rfl⟩ := (hmem c').mp h1
      refine ⟨c, rfl, (hA c).mpr ⟨hc, ?_⟩⟩
      intro d hd hne
      have := h2 (σ d) ((hmem _).mpr ⟨d, hd, rfl⟩) (fun h => hne (hσ h))
      rw [reweighted_ren hσ, reweighted_ren hσ] at this
      exact this
    cases hs : standing p e with
    | nil =>
      have : standing (renAppr σ p) (e.map σ) = [] := by
        apply List.eq_nil_iff_forall_not_mem.mpr
        intro x hx
        obtain ⟨c, hc, _⟩ := (hmem x).mp hx
        rw [hs] at hc; cases hc
      rw [this]; rfl
    | cons y ys =>
      have hne' : standing (renAppr σ p) (e.map σ) ≠ [] := by
        intro h
        have : σ y ∈ standing (renAppr σ p) (e.map σ) := (hmem _).mpr ⟨y, by rw [hs]; exact List.mem_cons_self, rfl⟩
        rw [h] at this; cases this
      cases hs' : standing (renAppr σ p) (e.map σ) with
      | nil => exact absurd hs' hne'
      | cons y' ys' =>
        simp only
        rw [← hs, ← hs']
        rcases hf : (standing p e).filter (fun c => (standing p e).all
            (fun d => decide (reweighted p e d ≤ reweighted p e c))) with _ | ⟨c, _ | ⟨b, r⟩⟩
        · rcases hf' : (standing (renAppr σ p) (e.map σ)).filter (fun c => (standing (renAppr σ p) (e.map σ)).all
            (fun d => decide (reweighted (renAppr σ p) (e.map σ) d ≤ reweighted (renAppr σ p) (e.map σ) c)))
            with _ | ⟨c', _ | ⟨b', r'⟩⟩
          · rfl
          · obtain ⟨c, _, hc⟩ := bwd c' hf'
            rw [hf] at hc; cases hc
          · rfl
        · rw [fwd c hf]
          simp only
          have : e.map σ ++ [σ c] = (e ++ [c]).map σ := by simp
          rw [this, ih]
        · rcases hf' : (standing (renAppr σ p) (e.map σ)).filter (fun c => (standing (renAppr σ p) (e.map σ)).all
            (fun d => decide (reweighted (renAppr σ p) (e.map σ) d ≤ reweighted (renAppr σ p) (e.map σ) c)))
            with _ | ⟨c', _ | ⟨b', r'⟩⟩
          · rfl
          · obtain ⟨c, _, hc⟩ := bwd c' hf'
            rw [hf] at hc; cases hc
          · rfl

/-- **SPAV: candidate names do not matter.**  For every injective renaming `σ` (monotone or not) the outcome on the renamed
    profile is the renamed outcome: the same refusal, or the elected list renamed, in the same order. -/
theorem spav_rename (p : Profile) (hwf : WF p) (n : Nat) :
    spav (renAppr σ p) n = (spav p n).map (List.map σ) := by
  have e₁ : spav (renAppr σ p) n = spavSpecGo (renAppr σ p) n [] := spavGo_eq_spec (appr_wf_ren hσ hwf) n []
  have e₂ : spav p n = spavSpecGo p n [] := spavGo_eq_spec hwf n []
  rw [e₁, e₂]
  exact spavSpecGo_ren hσ p n []

end

/-! ### PAV -/

theorem pavSpec_some_iff_max (votes : Profile) (n : Nat) (a : List Cand) :
    pavSpec votes n = some a ↔ maximisers votes (allCands votes) n = [a] := by
  unfold pavSpec
  rcases hm : maximisers votes (allCands votes) n with _ | ⟨x, _ | ⟨y, t⟩⟩ <;> simp

/-- sublists of a duplicate-free ascending list with the same members are equal -/
theorem appr_sublist_ext {C a b : List Cand} (hC : C.Pairwise (· < ·)) (ha : a.Sublist C) (hb : b.Sublist C)
    (h : ∀ x, x ∈ a ↔ x ∈ b) : a = b :=
  appr_sorted_ext (hC.sublist ha) (hC.sublist hb) h

section
variable {σ : Cand → Cand} (hσ : Function.Injective σ)
include hσ

/-- the committee of the renamed election with the members `σ b` -/
def apprPush (σ : Cand → Cand) (p : Profile) (b : List Cand) : List Cand :=
  (allCands (renAppr σ p)).filter (fun x => (b.map σ).contains x)

/-- the committee of the original election whose members are renamed into `b'` -/
def apprPull (σ : Cand → Cand) (p : Profile) (b' : List Cand) : List Cand :=
  (allCands p).filter (fun c => b'.contains (σ c))

omit hσ in
theorem apprPush_sublist (p : Profile) (b : List Cand) : (apprPush σ p b).Sublist (allCands (renAppr σ p)) := List.filter_sublist
omit hσ in
theorem apprPull_sublist (p : Profile) (b' : List Cand) : (apprPull σ p b').Sublist (allCands p) := List.filter_sublist

omit hσ in
theorem mem_apprPush {p : Profile} {b : List Cand} (hb : b.Sublist (allCands p)) (x : Cand) : x ∈ apprPush σ p b ↔ x ∈ b.map σ := by
  unfold apprPush
  rw [List.mem_filter, mem_allCands_ren]
  simp only [List.contains_eq_mem, decide_eq_true_eq]
  constructor
  · exact fun h => h.2
  · intro h
    refine ⟨?_, h⟩
    obtain ⟨c, hc, rfl⟩ := List.mem_map.mp h
    exact List.mem_map.mpr ⟨c, hb.subset hc, rfl⟩

omit hσ in
theorem mem_apprPull_map {p : Profile} {b' : List Cand} (hb : b'.Sublist (allCands (renAppr σ p))) (x : Cand) :
    x ∈ (apprPull σ p b').map σ ↔ x ∈ b' := by
  unfold apprPull
  rw [List.mem_map]
  constructor
  · rintro ⟨c, hc, rfl⟩
    have := (List.mem_filter.mp hc).2
    simpa using this
  · intro h
    obtain ⟨c, hc, rfl⟩ := List.mem_map.mp ((mem_allCands_ren p x).mp (hb.subset h))
    exact ⟨c, List.mem_filter.mpr ⟨hc, by simpa using h⟩, rfl⟩

theorem apprPush_perm {p : Profile} {b : List Cand} (hb : b.Sublist (allCands p)) : (apprPush σ p b).Perm (b.map σ) := by
  apply (List.perm_ext_iff_of_nodup ((allCands_nodup _).sublist (apprPush_sublist p b))
    ((hb.nodup (allCands_nodup p)).map hσ)).mpr
  exact mem_apprPush hb

theorem apprPull_map_perm {p : Profile} {b' : List Cand} (hb : b'.Sublist (allCands (renAppr σ p))) :
    ((apprPull σ p b').map σ).Perm b' := by
  apply (List.perm_ext_iff_of_nodup ((((allCands_nodup p).sublist (apprPull_sublist p b'))).map hσ)
    (hb.nodup (allCands_nodup _))).mpr
  exact mem_apprPull_map hb

theorem satH_apprPush {p : Profile} {b : List Cand} (hb : b.Sublist (allCands p)) :
    satH (renAppr σ p) (apprPush σ p b) = satH p b := by
  rw [satH_congr (a' := b.map σ) (mem_apprPush hb), satH_ren hσ]

theorem satH_apprPull {p : Profile} {b' : List Cand} (hb : b'.Sublist (allCands (renAppr σ p))) :
    satH p (apprPull σ p b') = satH (renAppr σ p) b' := by
  rw [← satH_ren hσ, satH_congr (mem_apprPull_map hb)]

/-- the unique maximiser of the original election is renamed into the unique maximiser of the renamed one -/
theorem pavSpec_ren_some (p : Profile) (n : Nat) (a : List Cand) (h : pavSpec p n = some a) :
    pavSpec (renAppr σ p) n = some (apprPush σ p a) := by
  obtain ⟨h1, h2⟩ := (maximisers_singleton_iff (allCands_nodup p)).mp ((pavSpec_some_iff_max p n a).mp h)
  have ha := mem_combos.mp h1
  apply (pavSpec_some_iff_max _ n _).mpr
  apply (maximisers_singleton_iff (allCands_nodup _)).mpr
  refine ⟨mem_combos.mpr ⟨apprPush_sublist p a, by rw [(apprPush_perm hσ ha.1).length_eq, List.length_map]; exact ha.2⟩, ?_⟩
  intro b' hb' hne
  have hb := mem_combos.mp hb'
  have hlen : (apprPull σ p b').length = n := by
    have := (apprPull_map_perm hσ hb.1).length_eq
    rw [List.length_map] at this
    rw [this]; exact hb.2
  have hne' : apprPull σ p b' ≠ a := by
    intro e
    apply hne
    apply appr_sublist_ext (sortDedup_sorted _) hb.1 (apprPush_sublist p a)
    intro x
    rw [mem_apprPush ha.1, ← e, mem_apprPull_map hb.1]
  have := h2 (apprPull σ p b') (mem_combos.mpr ⟨apprPull_sublist p b', hlen⟩) hne'
  rw [satH_apprPull hσ hb.1] at this
  rw [satH_apprPush hσ ha.1]
  exact this

theorem pavSpec_ren_some' (p : Profile) (n : Nat) (a' : List Cand) (h : pavSpec (renAppr σ p) n = some a') :
    pavSpec p n = some (apprPull σ p a') := by
  obtain ⟨h1, h2⟩ := (maximisers_singleton_iff (allCands_nodup _)).mp ((pavSpec_some_iff_max _ n a').mp h)
  have ha := mem_combos.mp h1
  apply (pavSpec_some_iff_max _ n _).mpr
  apply (maximisers_singleton_iff (allCands_nodup _)).mpr
  have hlen : (apprPull σ p a').length = n := by
    have := (apprPull_map_perm hσ ha.1).length_eq
    rw [List.length_map] at this
    rw [this]; exact ha.2
  refine ⟨mem_combos.mpr ⟨apprPull_sublist p a', hlen⟩, ?_⟩
  intro b hb' hne
  have hb := mem_combos.mp hb'
  have hne' : apprPush σ p b ≠ a' := by
    intro e
    apply hne
    apply appr_sublist_ext (sortDedup_sorted _) hb.1 (apprPull_sublist p a')
    intro x
    rw [← List.mem_map_of_injective hσ (l := b), ← mem_apprPush hb.1, e, ← mem_apprPull_map ha.1,
      List.mem_map_of_injective hσ]
  have := h2 (apprPush σ p b)
    (mem_combos.mpr ⟨apprPush_sublist p b, by rw [(apprPush_perm hσ hb.1).length_eq, List.length_map]; exact hb.2⟩) hne'
  rw [satH_apprPush hσ hb.1] at this
  rw [satH_apprPull hσ ha.1]
  exact this

theorem pavSpec_ren (p : Profile) (n : Nat) : pavSpec (renAppr σ p) n = (pavSpec p n).map (apprPush σ p) := by
  cases h : pavSpec p n with
  | some a => rw [pavSpec_ren_some hσ p n a h]; rfl
  | none =>
    cases h' : pavSpec (renAppr σ p) n with
    | none => rfl
    | some a' => rw [pavSpec_ren_some' hσ p n a' h'] at h; cases h

/-- the reported order of the renamed committee: the renamed order up to the order among equal sort keys -/
theorem pavOrder_ren (p : Profile) {a : List Cand} (ha : a.Sublist (allCands p)) :
    SlotsEquiv (pavOrder (renAppr σ p) (apprPush σ p a)) ((pavOrder p a).map (renSlot σ)) := by
  have hperm := apprPush_perm hσ ha
  have hnd : a.Nodup := ha.nodup (allCands_nodup p)
  unfold pavOrder
  rw [← getNBest_rename, hperm.length_eq, List.length_map]
  apply getNBest_perm
  have e : renVotes σ (a.map (fun c => (c, -(satH p (a.filter (· != c)))))) =
      (a.map σ).map (fun c' => (c', -(satH (renAppr σ p) ((apprPush σ p a).filter (· != c'))))) := by
    unfold renVotes
    rw [List.map_map, List.map_map]
    apply List.map_congr_left
    intro c _
    simp only [Function.comp_def]
    congr 2
    rw [← satH_ren hσ]
    apply satH_congr
    intro x
    simp only [List.mem_map, List.mem_filter, mem_apprPush ha, bne_iff_ne, ne_eq]
    constructor
    · rintro ⟨d, ⟨hd, hne⟩, rfl⟩
      exact ⟨⟨d, hd, rfl⟩, fun h => hne (hσ h)⟩
    · rintro ⟨⟨d, hd, rfl⟩, hne⟩
      exact ⟨d, ⟨hd, fun h => hne (by rw [h])⟩, rfl⟩
  rw [e]
  exact hperm.map _

/-- **PAV: candidate names do not matter.**  For every injective renaming `σ` (monotone or not): the same refusal, or
    the renamed committee — in the renamed reported order up to the order among members with equal sort keys. -/
theorem pav_rename (p : Profile) (hwf : WF p) (n : Nat) :
    ExceptEquiv (fun r' r => SlotsEquiv r' (r.map (renSlot σ))) (pav (renAppr σ p) n) (pav p n) := by
  unfold pav
  rw [pavStep_eq_spec freshCoefs freshCoefs_ok _ (appr_wf_ren hσ hwf) n, pavStep_eq_spec freshCoefs freshCoefs_ok p hwf n,
    pavSpec_ren hσ]
  cases h : pavSpec p n with
  | none => exact rfl
  | some a =>
    have ha := (mem_combos.mp ((maximisers_singleton_iff (allCands_nodup p)).mp ((pavSpec_some_iff_max p n a).mp h)).1).1
    exact pavOrder_ren hσ p ha

end

/-! ### renamed ballots re-listed (e.g. re-sorted by the new ids) -/

/-- **SPAV: candidate names do not matter**, the renamed ballots given in any order, each listing its candidates in any
    order: the same refusal, or the elected list renamed, in the same order -/
theorem spav_rename_same {σ : Cand → Cand} (hσ : Function.Injective σ) (p p' : Profile) (hwf : WF p) (hwf' : WF p')
    (h : ApprSame p' (renAppr σ p)) (n : Nat) : spav p' n = (spav p n).map (List.map σ) := by
  rw [spav_same h hwf' (appr_wf_ren hσ hwf) n, spav_rename hσ p hwf n]

/-- **PAV: candidate names do not matter**, the renamed ballots given in any order, each listing its candidates in any
    order: the same refusal, or the renamed committee up to `SlotsEquiv` -/
theorem pav_rename_same {σ : Cand → Cand} (hσ : Function.Injective σ) (p p' : Profile) (hwf : WF p) (hwf' : WF p')
    (h : ApprSame p' (renAppr σ p)) (n : Nat) :
    ExceptEquiv (fun r' r => SlotsEquiv r' (r.map (renSlot σ))) (pav p' n) (pav p n) := by
  rw [pav_same h hwf' (appr_wf_ren hσ hwf) n]
  exact pav_rename hσ p hwf n

example : ApprSame [([3, 7], 5), ([5, 7], 4), ([1], 3)]
    (renAppr (fun c => if c = 0 then 7 else if c = 1 then 3 else if c = 2 then 5 else if c = 3 then 1 else c + 10)
      [([0, 1], 5), ([0, 2], 4), ([3], 3)]) := by decide +kernel

/-- the renaming of the examples below is injective and not monotone -/
example : Function.Injective
    (fun c : Nat => if c = 0 then 7 else if c = 1 then 3 else if c = 2 then 5 else if c = 3 then 1 else c + 10) := by
  intro a b h
  simp only at h
  split_ifs at h <;> omega

/-- non-vacuity: a renaming that is not monotone (0 ↦ 7, 1 ↦ 3, 2 ↦ 5, 3 ↦ 1) -/
example : spav (renAppr (fun c => if c = 0 then 7 else if c = 1 then 3 else if c = 2 then 5 else if c = 3 then 1 else c + 10)
    [([0, 1], 5), ([0, 2], 4), ([3], 3)]) 3 = .ok [7, 1, 3] := by decide +kernel

example : pav (renAppr (fun c => if c = 0 then 7 else if c = 1 then 3 else if c = 2 then 5 else c + 10)
    [([0, 1], 3), ([2], 2), ([0], 1)]) 2 = .ok [Slot.cand 7, Slot.cand 5] := by decide +kernel

end VL.Perm
