/-
  Characterisation of `getNBest` (model of `core.get_n_best`) by level sets.
-/
import VotelibProofs.Lemmas.Sort
namespace VL

/-- number of entries strictly above `t` -/
def cntGt (votes : Votes) (t : Rat) : Nat := (votes.filter (fun p => decide (t < p.2))).length
/-- number of entries at least `t` -/
def cntGe (votes : Votes) (t : Rat) : Nat := (votes.filter (fun p => decide (t ≤ p.2))).length
/-- the candidates whose value is exactly `t`, in insertion order -/
def level (votes : Votes) (t : Rat) : List Cand := (votes.filter (fun p => p.2 = t)).map (·.1)
/-- the entries strictly above `t`, by non-increasing value (stable) -/
def aboveSorted (votes : Votes) (t : Rat) : Votes := (sortDesc votes).filter (fun p => decide (t < p.2))

/-- `t` is the `n`-th highest total of `votes` (order-free definition) -/
def IsNth (votes : Votes) (n : Nat) (t : Rat) : Prop :=
  (∃ p ∈ votes, p.2 = t) ∧ cntGt votes t < n ∧ n ≤ cntGe votes t

theorem nth_unique {votes : Votes} {n : Nat} {t t' : Rat}
    (h : IsNth votes n t) (h' : IsNth votes n t') : t = t' := by
  by_contra hne
  rcases lt_or_gt_of_ne hne with hlt | hgt
  · have : cntGe votes t' ≤ cntGt votes t := by
      unfold cntGe cntGt
      apply List.Sublist.length_le
      apply List.monotone_filter_right
      intro p hp
      simp only [decide_eq_true_eq] at hp ⊢
      exact lt_of_lt_of_le hlt hp
    have h1 := h.2.1; have h2 := h'.2.2; omega
  · have : cntGe votes t ≤ cntGt votes t' := by
      unfold cntGe cntGt
      apply List.Sublist.length_le
      apply List.monotone_filter_right
      intro p hp
      simp only [decide_eq_true_eq] at hp ⊢
      exact lt_of_lt_of_le hgt hp
    have h1 := h'.2.1; have h2 := h.2.2; omega

theorem cntGt_sort (votes : Votes) (t : Rat) : cntGt (sortDesc votes) t = cntGt votes t :=
  sortDesc_filter_length votes _
theorem cntGe_sort (votes : Votes) (t : Rat) : cntGe (sortDesc votes) t = cntGe votes t :=
  sortDesc_filter_length votes _

/-- in a non-increasing list, nothing from position `k` on exceeds the entry at `k` -/
theorem desc_drop_le {s : Votes} (h : Desc s) {k : Nat} (hk : k < s.length) :
    ∀ b ∈ s.drop k, b.2 ≤ (s[k]).2 := by
  intro b hb
  rw [List.drop_eq_getElem_cons hk] at hb
  have hd : Desc (s.drop k) := List.Pairwise.sublist (List.drop_sublist k s) h
  rw [List.drop_eq_getElem_cons hk] at hd
  rcases List.mem_cons.mp hb with rfl | hb'
  · exact le_refl _
  · exact (List.pairwise_cons.mp hd).1 b hb'

theorem desc_take_ge {s : Votes} (h : Desc s) {k : Nat} (hk : k < s.length) :
    ∀ a ∈ s.take (k+1), (s[k]).2 ≤ a.2 := by
  intro a ha
  rw [List.take_succ_eq_append_getElem hk] at ha
  rcases List.mem_append.mp ha with ha' | ha'
  · have hmem : s[k] ∈ s.drop k := by
      rw [List.drop_eq_getElem_cons hk]; exact List.mem_cons_self
    exact desc_take_drop h k a ha' _ hmem
  · simp at ha'; subst ha'; exact le_refl _

theorem desc_cntGt_le {s : Votes} (h : Desc s) {k : Nat} (hk : k < s.length) :
    cntGt s (s[k]).2 ≤ k := by
  have hd := desc_drop_le h hk
  generalize (s[k]).2 = t at hd ⊢
  unfold cntGt
  have hsplit : s.filter (fun p => decide (t < p.2)) =
      (s.take k).filter (fun p => decide (t < p.2)) ++ (s.drop k).filter (fun p => decide (t < p.2)) := by
    rw [← List.filter_append, List.take_append_drop]
  have hnil : (s.drop k).filter (fun p => decide (t < p.2)) = [] := by
    rw [List.filter_eq_nil_iff]
    intro b hb
    simp only [decide_eq_true_eq, not_lt]
    exact hd b hb
  rw [hsplit, hnil, List.append_nil]
  exact le_trans (List.length_filter_le _ _) (by simp [List.length_take])

theorem desc_cntGe_ge {s : Votes} (h : Desc s) {k : Nat} (hk : k < s.length) :
    k + 1 ≤ cntGe s (s[k]).2 := by
  have hd := desc_take_ge h hk
  generalize (s[k]).2 = t at hd ⊢
  unfold cntGe
  have hsub : List.Sublist ((s.take (k+1)).filter (fun p => decide (t ≤ p.2)))
      (s.filter (fun p => decide (t ≤ p.2))) := (List.take_sublist _ _).filter _
  have hall : (s.take (k+1)).filter (fun p => decide (t ≤ p.2)) = s.take (k+1) := by
    rw [List.filter_eq_self]
    intro a ha
    simp only [decide_eq_true_eq]
    exact hd a ha
  rw [hall] at hsub
  have := hsub.length_le
  simp [List.length_take] at this
  omega

/-- the entry at position `n-1` of the sorted list is the `n`-th highest total -/
theorem isNth_sorted (votes : Votes) (n : Nat) (h1 : 1 ≤ n) (hn : n - 1 < (sortDesc votes).length) :
    IsNth votes n ((sortDesc votes)[n-1]).2 := by
  refine ⟨⟨(sortDesc votes)[n-1], mem_sortDesc.mp (List.getElem_mem _), rfl⟩, ?_, ?_⟩
  · rw [← cntGt_sort]
    have := desc_cntGt_le (sortDesc_desc votes) hn
    omega
  · rw [← cntGe_sort]
    have := desc_cntGe_ge (sortDesc_desc votes) hn
    omega

theorem nth_exists (votes : Votes) (n : Nat) (h1 : 1 ≤ n) (hn : n ≤ votes.length) :
    ∃ t, IsNth votes n t :=
  ⟨_, isNth_sorted votes n h1 (by rw [sortDesc_length]; omega)⟩

/-- a non-increasing list: entries ≥ t = entries > t followed by entries = t -/
theorem desc_filter_ge_split {s : Votes} (h : Desc s) (t : Rat) :
    s.filter (fun p => decide (t ≤ p.2)) =
      s.filter (fun p => decide (t < p.2)) ++ s.filter (fun p => decide (p.2 = t)) := by
  induction s with
  | nil => simp
  | cons x xs ih =>
    have hx := List.pairwise_cons.mp h
    have ih' := ih hx.2
    rcases lt_trichotomy x.2 t with hlt | heq | hgt
    · have h1 : ¬ t ≤ x.2 := not_le.mpr hlt
      have h2 : ¬ t < x.2 := fun hh => h1 (le_of_lt hh)
      have h3 : ¬ x.2 = t := ne_of_lt hlt
      simp [List.filter_cons, h1, h2, h3, ih']
    · have hnil : xs.filter (fun p => decide (t < p.2)) = [] := by
        rw [List.filter_eq_nil_iff]
        intro p hp
        have := hx.1 p hp
        simp only [decide_eq_true_eq, not_lt]
        rw [← heq]; exact this
      have h1 : t ≤ x.2 := le_of_eq heq.symm
      have h2 : ¬ t < x.2 := by rw [heq]; exact lt_irrefl _
      rw [List.filter_cons, List.filter_cons, List.filter_cons]
      simp only [h1, h2, heq, decide_true, decide_false, if_true]
      rw [ih', hnil]
      simp
    · have h1 : t ≤ x.2 := le_of_lt hgt
      have h3 : ¬ x.2 = t := ne_of_gt hgt
      simp [List.filter_cons, h1, hgt, h3, ih']

end VL

namespace VL

/-- `getNBest` when fewer candidates than seats: everybody, sorted -/
theorem getNBest_all (votes : Votes) (n : Nat) (h : votes.length ≤ n) :
    getNBest votes n = (sortDesc votes).map (fun p => Slot.cand p.1) := by
  unfold getNBest
  simp only
  have : ¬ (sortDesc votes).length > n := by rw [sortDesc_length]; omega
  rw [if_neg this]

/-- explicit form of `getNBest` in terms of the sorted list and its entry at `n-1` -/
theorem getNBest_explicit (votes : Votes) (n : Nat) (h1 : 1 ≤ n) (hlen : n < votes.length) :
    let s := sortDesc votes
    ∃ (hn1 : n - 1 < s.length) (hn : n < s.length),
      getNBest votes n =
        if (s[n]).2 = (s[n-1]).2 then
          (s.filter (fun p => decide ((s[n-1]).2 < p.2))).map (fun p => Slot.cand p.1)
            ++ List.replicate (n - cntGt s (s[n-1]).2) (Slot.tie ((s.filter (fun p => p.2 = (s[n-1]).2)).map (·.1)))
        else (s.take n).map (fun p => Slot.cand p.1) := by
  intro s
  have hn : n < s.length := by simp only [s]; rw [sortDesc_length]; exact hlen
  have hn1 : n - 1 < s.length := by omega
  refine ⟨hn1, hn, ?_⟩
  unfold getNBest
  simp only
  rw [if_pos (show (sortDesc votes).length > n from hn)]
  have e1 : (sortDesc votes)[n-1]? = some (s[n-1]) := List.getElem?_eq_getElem hn1
  have e2 : (sortDesc votes)[n]? = some (s[n]) := List.getElem?_eq_getElem hn
  rw [e1, e2]
  simp only
  by_cases heq : (s[n]).2 = (s[n-1]).2
  · rw [if_pos heq, if_pos heq]
    have htw := desc_takeWhile_ne (sortDesc_desc votes) (t := (s[n-1]).2) ⟨s[n-1], List.getElem_mem _, rfl⟩
    have hlenEq : (List.takeWhile (fun p => decide (p.2 ≠ (s[n-1]).2)) (sortDesc votes)).length
        = cntGt s (s[n-1]).2 := by rw [htw]; rfl
    have htake : List.take (cntGt s (s[n-1]).2) (sortDesc votes)
        = s.filter (fun p => decide ((s[n-1]).2 < p.2)) := by
      rw [← hlenEq, ← htw]
      exact (List.prefix_iff_eq_take.mp (List.takeWhile_prefix _)).symm
    rw [hlenEq, htake]
  · rw [if_neg heq, if_neg heq]

end VL
