/-
  Unfolding lemmas for the models of threshold.py (helpers of C16): the boundary comparison in Prop form,
  `sum(votes.values())`, what the selector tree runs at its leaves, what PropertyBracketer applies to a bracket.
-/
import VotelibProofs.Lemmas.Sort
import VotelibModel.Threshold
import Mathlib.Tactic.Ring
namespace VL

/-! ## the boundary rule -/

/-- the comparison used by every threshold: strictly over, or exactly on it when equality is accepted -/
theorem passes_iff (eq : Bool) (t v : Rat) : passes eq t v = true ↔ (t < v ∨ (eq = true ∧ v = t)) := by
  simp [passes]

/-- `sum(votes.values())` -/
theorem sumVals_eq_sum (votes : Votes) : sumVals votes = (votes.map (·.2)).sum := by
  have h : ∀ (l : Votes) (a : Rat), l.foldl (fun acc p => acc + p.2) a = a + (l.map (·.2)).sum := by
    intro l
    induction l with
    | nil => intro a; simp
    | cons x xs ih => intro a; simp only [List.foldl_cons, List.map_cons, List.sum_cons, ih]; ring
  simpa [sumVals] using h votes 0


/-- what `PropertyBracketer` applies to a candidate with property value `v`: the selector registered for `v`
    (the default when there is none, or when the candidate has no such property), and "everybody passes" when
    that selector is `None` -/
theorem property_variant_none (evs : List (Nat × Option Seatless)) (dflt : Option Seatless) (votes : Votes) :
    propertyVariant evs dflt votes none = (match dflt with | some e => e votes | none => .ok (keys votes)) := rfl

theorem property_variant_some (evs : List (Nat × Option Seatless)) (dflt : Option Seatless) (votes : Votes)
    (k : Nat) :
    propertyVariant evs dflt votes (some k) =
      (match dictGet evs k dflt with | some e => e votes | none => .ok (keys votes)) := rfl


theorem sel_eval_abs (a : Attrs) (f : Nat) (t : Rat) (eq : Bool) (votes : Votes) :
    Sel.eval a (f+1) (.abs t eq) votes none = .ok (absoluteThreshold t eq votes) := rfl

theorem sel_eval_rel (a : Attrs) (f : Nat) (t : Rat) (eq : Bool) (votes : Votes) :
    Sel.eval a (f+1) (.rel t eq) votes none = relativeThreshold t eq votes := rfl

theorem sel_eval_prev (a : Attrs) (f : Nat) (inner : Sel) (votes pg : Votes) :
    Sel.eval a (f+1) (.prevGain inner) votes (some pg) = Sel.eval a f inner pg none := rfl


end VL
