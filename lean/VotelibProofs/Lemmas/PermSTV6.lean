/-
  C10 — ballot-order independence of the transferable vote (Gregory engine), part 6:
  when is the elected LIST (not only the set) independent of the ballot order?

  The newly elected of one count are listed by non-increasing total (stable sort of the allocation totals).
  If in every count of the run the candidates elected together hold pairwise different totals
  (`tieFreeRun`, a decidable condition on the run of the first profile), the seats dict is built in the same
  order in both runs, so the results are EQUAL.
-/
import VotelibProofs.Lemmas.PermSTV5
namespace VL.Perm.Stv
open VL VL.STV VL.C10

/-- the keys of the totals in the stable descending order are sorted by the total they hold -/
theorem sortedKeys_pairwise {a : Alloc} (hk : KeysNodup a) :
    ((sortDesc (totalsInPlay a)).map (·.1)).Pairwise (fun c d => totalOf a d ≤ totalOf a c) := by
  rw [List.pairwise_map]
  have hd : (sortDesc (totalsInPlay a)).Pairwise (fun x y => y.2 ≤ x.2) := sortDesc_desc _
  refine hd.imp_of_mem ?_
  intro x y hx hy h
  unfold totalOf
  rw [← totalsInPlay_total hk (mem_sortDesc.mp hx), ← totalsInPlay_total hk (mem_sortDesc.mp hy)]
  exact h

/-- the newly elected of a count are listed in the stable descending order of the totals -/
theorem nextCount_elected_sublist {E : Engine} {cfg : Cfg} {a : Alloc} {n : Nat} {total : Rat} {prev maxS : Seats}
    {ds ds' : List Draw} {out : CountOut} (h : nextCount E cfg a n total prev maxS ds = .ok (out, ds')) :
    List.Sublist (out.elected.map (·.1)) ((sortDesc (totalsInPlay a)).map (·.1)) := by
  obtain ⟨_, hc⟩ := nextCount_cases h
  cases hc with
  | shortcut hs he =>
    obtain ⟨_, _, _, _, hel, _⟩ := electAll_spec he
    rw [hel, List.map_map]
    have : ((fun p : Cand × Nat => p.1) ∘ fun p : Cand × Option Int => (p.1, (p.2.getD 0).toNat)) = (·.1) := rfl
    rw [this, availSeats_keys]
  | election qv hq hpos el hel hne hout =>
    obtain ⟨_, _, _, _, he, _, _⟩ := afterElection_inv hout
    rw [he]
    exact (electByQuota_spec hpos hel).2
  | elimination hnoq hout =>
    obtain ⟨_, _, _, _, he, _⟩ := afterElimination_inv hout
    rw [he]
    exact List.nil_sublist _

/-- the candidates elected together in this count hold pairwise different totals -/
def electedTieFree (a : Alloc) (out : CountOut) : Bool :=
  decide ((out.elected.map (fun ck => totalOf a ck.1)).Nodup)

/-- related outputs of one count whose newly elected hold pairwise different totals list them in the same order -/
theorem elected_eq_of_tieFree {cfg : Cfg} {a₁ a₂ : Alloc} (h : AllocRel a₁ a₂) {n : Nat} {total : Rat}
    {p₁ p₂ m₁ m₂ : Seats} {ds d₁ d₂ : List Draw} {o₁ o₂ : CountOut}
    (h₁ : nextCount gregory cfg a₁ n total p₁ m₁ ds = .ok (o₁, d₁))
    (h₂ : nextCount gregory cfg a₂ n total p₂ m₂ ds = .ok (o₂, d₂))
    (ho : OutRel o₁ o₂) (hf : electedTieFree a₁ o₁ = true) : o₁.elected = o₂.elected := by
  have htot : ∀ c, totalOf a₂ c = totalOf a₁ c := fun c => (h.total (some c)).symm
  have s₁ : o₁.elected.Pairwise (fun x y => totalOf a₁ y.1 ≤ totalOf a₁ x.1) :=
    List.pairwise_map.mp ((sortedKeys_pairwise h.nd₁).sublist (nextCount_elected_sublist h₁))
  have s₂ : o₂.elected.Pairwise (fun x y => totalOf a₁ y.1 ≤ totalOf a₁ x.1) := by
    have := List.pairwise_map.mp ((sortedKeys_pairwise (a := a₂) h.nd₂).sublist (nextCount_elected_sublist h₂))
    simpa only [htot] using this
  have hp := DRel.perm ho.elected
  have hnd : (o₁.elected.map (fun ck => totalOf a₁ ck.1)).Nodup := by
    simpa [electedTieFree] using hf
  refine List.Perm.eq_of_pairwise ?_ s₁ s₂ hp
  intro x y hx hy hxy hyx
  exact List.inj_on_of_nodup_map hnd hx (hp.mem_iff.mpr hy) (le_antisymm hyx hxy)

/-- in every executed count of the run (at most `k` counts from `st`) the candidates elected together hold
    pairwise different totals -/
def tieFreeRun (cfg : Cfg) (inp : Input) : Nat → St → Bool
  | 0, _ => true
  | k + 1, st =>
    match countStep gregory cfg inp st with
    | .ok (some st') =>
      (match nextCount gregory cfg st.alloc inp.nSeats (totalVotes inp.votes) st.seats inp.maxS st.draws with
        | .ok (out, _) => electedTieFree st.alloc out
        | .error _ => true) && tieFreeRun cfg inp k st'
    | _ => true

/-- the loop under the tie-freeness of the first run: related states with EQUAL seats dicts -/
theorem runCounts_perm_eq (cfg : Cfg) {i₁ i₂ : Input} (hi : InpRel i₁ i₂) (k : Nat) {s₁ s₂ : St} (hs : StRel s₁ s₂)
    (hse : s₁.seats = s₂.seats) (hf : tieFreeRun cfg i₁ k s₁ = true) :
    ExceptEquiv (fun t₁ t₂ => StRel t₁ t₂ ∧ t₁.seats = t₂.seats)
      (runCounts gregory cfg i₁ k s₁) (runCounts gregory cfg i₂ k s₂) := by
  induction k generalizing s₁ s₂ with
  | zero => exact ⟨hs, hse⟩
  | succ k ih =>
    unfold runCounts
    unfold tieFreeRun at hf
    rcases exceptEquiv_elim (countStep_perm cfg hi hs) with ⟨e, h1, h2⟩ | ⟨r₁, r₂, h1, h2, hr⟩
    · rw [h1, h2]; exact rfl
    · rw [h1, h2]
      rcases hr.elim with ⟨e₁, e₂⟩ | ⟨t₁, t₂, e₁, e₂, ht⟩
      · rw [e₁, e₂]; exact ⟨hs, hse⟩
      · rw [e₁, e₂]
        simp only
        rw [h1, e₁] at hf
        simp only [Bool.and_eq_true] at hf
        refine ih ht ?_ hf.2
        -- the seats of the successor states
        have c1 := h1
        have c2 := h2
        rw [e₁] at c1
        rw [e₂] at c2
        unfold countStep at c1 c2
        split at c1
        · cases c1
        · split at c2
          · cases c2
          · split at c1
            · cases c1
            · rename_i o₁ d₁ hn1
              split at c2
              · cases c2
              · rename_i o₂ d₂ hn2
                split at c1
                · cases c1
                · split at c2
                  · cases c2
                  · injection c1 with c1; injection c1 with c1
                    injection c2 with c2; injection c2 with c2
                    have hnr := nextCount_perm cfg hs.alloc i₁.nSeats (totalVotes i₁.votes) hs.seats hi.maxS s₁.draws
                    rw [← hi.nSeats, ← totalVotes_perm hi.votes, ← hs.draws] at hn2
                    rw [hn1, hn2] at hnr
                    have ho : OutRel o₁ o₂ := hnr.1
                    have hfe := hf.1
                    rw [hn1] at hfe
                    have hel := elected_eq_of_tieFree hs.alloc hn1 hn2 ho hfe
                    rw [← c1, ← c2]
                    unfold advance
                    simp only
                    rw [hse, hel]

end VL.Perm.Stv

namespace VL.Perm
open VL VL.STV VL.C10 VL.Perm.Stv

/-- `tieFreeRun` for a whole `evaluate` run of the selector on `p` -/
def stvTieFree (cfg : Cfg) (p : Profile) (n : Nat) (ds : List Draw) : Bool :=
  match initState gregory (selectorInput p n) ds with
  | .ok st0 => tieFreeRun cfg (selectorInput p n) (evalFuel (selectorInput p n)) st0
  | .error _ => true

/-- **Ballot-order independence with equality.**  If in the run on `p₁` no two candidates elected in the same count
    hold equal totals (`stvTieFree`, decidable by running the model), the selector returns EXACTLY the same result
    (the same exception or the same list in the same order) for every other insertion order of the ballots. -/
theorem stv_perm_eq (cfg : Cfg) {p₁ p₂ : Profile} (hp : p₁.Perm p₂) (hn : (p₁.map (·.1)).Nodup) (n : Nat)
    (ds : List Draw) (hf : stvTieFree cfg p₁ n ds = true) :
    selectorEvaluate gregory cfg p₁ n ds = selectorEvaluate gregory cfg p₂ n ds := by
  have hi := stv_selector_inpRel hp hn n
  unfold selectorEvaluate distributorEvaluate
  unfold stvTieFree at hf
  obtain ⟨s₁, s₂, h1, h2, hs⟩ := initState_perm hi ds
  rw [h1] at hf
  simp only at hf
  rw [h1, h2, ← evalFuel_perm hi]
  simp only [bind, Except.bind]
  have hse : s₁.seats = s₂.seats := by
    unfold initState at h1 h2
    split at h1
    · cases h1
    · split at h2
      · cases h2
      · injection h1 with h1; injection h2 with h2
        rw [← h1, ← h2]; rfl
  rcases exceptEquiv_elim (runCounts_perm_eq cfg hi (evalFuel (selectorInput p₁ n)) hs hse hf) with
    ⟨e, g1, g2⟩ | ⟨t₁, t₂, g1, g2, ht, hte⟩
  · rw [g1, g2]
  · rw [g1, g2]
    simp only
    have hfin : finished (selectorInput p₁ n) t₁ = finished (selectorInput p₂ n) t₂ := by
      unfold finished
      rw [hte]; rfl
    rw [hfin, hte]

/-- the hypothesis of `stv_perm_eq` on a concrete profile with a transfer of a surplus and an elimination -/
example : stvTieFree stvDemoCfg [([.one 0, .one 1], 5), ([.one 1], 2), ([.one 2, .one 1], 1), ([.one 3], 3)] 2 [] = true ∧
    selectorEvaluate gregory stvDemoCfg [([.one 0, .one 1], 5), ([.one 1], 2), ([.one 2, .one 1], 1), ([.one 3], 3)] 2 []
      = .ok [0, 1] := by
  decide +kernel

end VL.Perm
