/-
  C17 helper lemmas: satisfaction approval (`ApprovalToSimpleVotes(split=True)`) as an instance of `Additive`:
  every ballot gives `weight / len(ballot)` to each candidate it approves.
-/
import VotelibProofs.Lemmas.MonoRules
namespace VL.Mono
open VL VL.Convert

/-- what one approval ballot contributes under `split=True` -/
def approvalSplitItems (bw : Approval × Rat) : List (Cand × Rat) :=
  bw.1.map (fun c => (c, bw.2 / (bw.1.length : Rat)))

theorem approvalSplit_additive :
    Additive approvalSplitItems (fun b k => cnt b k / (b.length : Rat)) (fun b => b) := by
  refine ⟨fun bw k => ?_, fun bw k => by simp [approvalSplitItems, dkeys, List.map_map, Function.comp_def]⟩
  obtain ⟨b, v⟩ := bw
  have h := approval_additive.val (b, v / (b.length : Rat)) k
  simp only [approvalItems] at h
  simp only [approvalSplitItems]
  rw [h]; ring

/-- a successful evaluation means that no ballot is empty -/
theorem nonempty_of_evalApprovalSplit_ok {p : AProfile} {r : List Slot} (h : evalApprovalSplit p = .ok r) :
    ∀ bw ∈ p, bw.1 ≠ [] := by
  intro bw hbw he
  unfold evalApprovalSplit at h
  rw [approvalToSimple_eq_error p ⟨bw, hbw, he⟩] at h
  simp at h

theorem evalApprovalSplit_eq (p : AProfile) (hne : ∀ bw ∈ p, bw.1 ≠ []) :
    evalApprovalSplit p = .ok (getNBest (accum approvalSplitItems p []) 1) := by
  unfold evalApprovalSplit
  rw [approvalToSimple_eq_ok true p (fun _ => hne)]
  simp only [Except.ok.injEq]
  congr 1
  unfold accum
  congr 1
  funext agg bw
  simp [approvalStep, approvalSplitItems, List.foldl_map]

theorem length_approve (w : Cand) (b : Approval) (hw : w ∉ b) : (approve w b).length = b.length + 1 := by
  induction b with
  | nil => simp [approve]
  | cons c cs ih =>
    have hwc : w ≠ c := fun h => hw (by simp [h])
    have hwcs : w ∉ cs := fun h => hw (by simp [h])
    by_cases h1 : w < c
    · simp [approve, if_pos h1]
    · simp [approve, if_neg h1, if_neg hwc, ih hwcs]

theorem approve_ne_nil (w : Cand) (b : Approval) : approve w b ≠ [] := by
  cases b with
  | nil => simp [approve]
  | cons c cs => simp only [approve]; split <;> [simp; (split <;> simp)]

/-- the ballots of the profile after one unit of `b` became `b'` -/
theorem mem_replaceUnit_fst {κ : Type} [DecidableEq κ] {p : Dict κ} {b b' : κ} {bw : κ × Rat}
    (h : bw ∈ replaceUnit p b b') : bw.1 ∈ dkeys p ∨ bw.1 = b' := by
  have : bw.1 ∈ dkeys (replaceUnit p b b') := by
    simp only [dkeys, List.mem_map]; exact ⟨bw, h, rfl⟩
  exact mem_dkeys_replaceUnit this

end VL.Mono
