/-
  C10, family 1: the vote thresholds (threshold.py) and `QuotaSelector` (approval.py) do not depend on the insertion
  order of the votes dictionary and commute with renamings.
-/
import VotelibProofs.Lemmas.PermBase
import VotelibModel.Threshold
import VotelibModel.Simple
namespace VL.Perm
open VL VL.C10

/-! ### AbsoluteThreshold -/

theorem absThreshold_perm (t : Rat) (eq : Bool) {v₁ v₂ : Votes} (h : v₁.Perm v₂) :
    (absoluteThreshold t eq v₁).Perm (absoluteThreshold t eq v₂) := by
  unfold absoluteThreshold
  exact ((sortDesc_perm_of_perm h).filter _).map _

theorem absThreshold_ren (t : Rat) (eq : Bool) (σ : Cand → Cand) (v : Votes) :
    absoluteThreshold t eq (renVotes σ v) = (absoluteThreshold t eq v).map σ := by
  unfold absoluteThreshold
  rw [sortDesc_ren]
  unfold renVotes
  rw [List.filter_map, List.map_map, List.map_map]
  rfl

/-- membership is decided by the candidate's own total alone -/
theorem mem_absThreshold (t : Rat) (eq : Bool) (v : Votes) (c : Cand) :
    c ∈ absoluteThreshold t eq v ↔ ∃ x, (c, x) ∈ v ∧ Gen.Threshold.abs_threshold_passes t eq x = true := by
  unfold absoluteThreshold
  simp only [List.mem_map, List.mem_filter, mem_sortDesc]
  constructor
  · rintro ⟨p, ⟨hp, hpass⟩, rfl⟩; exact ⟨p.2, hp, hpass⟩
  · rintro ⟨x, hx, hpass⟩; exact ⟨(c, x), ⟨hx, hpass⟩, rfl⟩

/-! ### RelativeThreshold -/

theorem relThreshold_perm (t : Rat) (eq : Bool) {v₁ v₂ : Votes} (h : v₁.Perm v₂) :
    ExceptEquiv List.Perm (relativeThreshold t eq v₁) (relativeThreshold t eq v₂) := by
  unfold relativeThreshold
  simp only
  rw [sumVals_perm h]
  have hemp : v₁.isEmpty = v₂.isEmpty := by
    cases v₁ <;> cases v₂ <;> simp_all
  rw [hemp]
  split
  · exact List.Perm.refl _
  · split
    · exact rfl
    · exact ((sortDesc_perm_of_perm h).filter _).map _

theorem relThreshold_ren (t : Rat) (eq : Bool) (σ : Cand → Cand) (v : Votes) :
    relativeThreshold t eq (renVotes σ v) = (relativeThreshold t eq v).map (List.map σ) := by
  unfold relativeThreshold
  simp only
  rw [sumVals_ren, sortDesc_ren]
  have hemp : (renVotes σ v).isEmpty = v.isEmpty := by cases v <;> rfl
  rw [hemp]
  split
  · rfl
  · split
    · rfl
    · unfold renVotes
      rw [List.filter_map, List.map_map]
      simp only [Except.map, List.map_map]
      rfl

theorem mem_relThreshold (t : Rat) (eq : Bool) (v : Votes) (r : List Cand) (hr : relativeThreshold t eq v = .ok r) (c : Cand) :
    c ∈ r ↔ ∃ x, (c, x) ∈ v ∧ Gen.Threshold.rel_threshold_passes t eq (sumVals v) x = true := by
  unfold relativeThreshold at hr
  simp only at hr
  split at hr
  · rename_i hemp
    cases hr
    have : v = [] := by simpa using hemp
    subst this; simp
  · split at hr
    · cases hr
    · cases hr
      simp only [List.mem_map, List.mem_filter, mem_sortDesc]
      constructor
      · rintro ⟨p, ⟨hp, hpass⟩, rfl⟩; exact ⟨p.2, hp, hpass⟩
      · rintro ⟨x, hx, hpass⟩; exact ⟨(c, x), ⟨hx, hpass⟩, rfl⟩

/-! ### QuotaSelector -/

theorem quotaSelector_perm (quota : Rat → Nat → Rat) (ae : Bool) (om : OnMore) {v₁ v₂ : Votes} (h : v₁.Perm v₂)
    (n : Nat) :
    ExceptEquiv SlotsEquiv (quotaSelector quota ae om v₁ n) (quotaSelector quota ae om v₂ n) := by
  unfold quotaSelector
  simp only
  rw [sumVals_perm h]
  have hover := h.filter (fun p => decide (p.2 > quota (sumVals v₂) n) || (ae && decide (p.2 = quota (sumVals v₂) n)))
  rw [hover.length_eq]
  split
  · cases om
    · exact rfl
    · exact getNBest_perm _ _ hover n
    · exact rfl
  · exact getNBest_perm _ _ hover n

theorem quotaSelector_ren (quota : Rat → Nat → Rat) (ae : Bool) (om : OnMore) (σ : Cand → Cand) (v : Votes) (n : Nat) :
    quotaSelector quota ae om (renVotes σ v) n = (quotaSelector quota ae om v n).map (List.map (renSlot σ)) := by
  unfold quotaSelector
  simp only
  rw [sumVals_ren]
  have hf : (renVotes σ v).filter (fun p => decide (p.2 > quota (sumVals v) n) || (ae && decide (p.2 = quota (sumVals v) n)))
      = renVotes σ (v.filter (fun p => decide (p.2 > quota (sumVals v) n) || (ae && decide (p.2 = quota (sumVals v) n)))) := by
    unfold renVotes; rw [List.filter_map]; rfl
  rw [hf]
  have hl : ∀ l : Votes, (renVotes σ l).length = l.length := fun l => by unfold renVotes; simp
  rw [hl]
  split
  · cases om <;> simp only [Except.map, getNBest_rename]
  · simp only [Except.map, getNBest_rename]

end VL.Perm
