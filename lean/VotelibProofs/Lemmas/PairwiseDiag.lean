/-
  Pairwise dictionaries WITH self-pairs (matrix diagonal entries such as `('Z','Z'): 0`).

  `WF` of Lemmas/Pairwise.lean excludes self-pairs; the only place that needs this is `exists_other`
  (a candidate has another candidate next to it), used for the completeness half of the Condorcet winner.
  Here the same facts are proved for `WFd` (distinct keys, non-negative counts, self-pairs ALLOWED): a self-pair
  names a candidate (`candidates`), is never a pairwise win (its count is compared with itself), and so the
  candidate it names is zero against zero with everybody unless other entries say otherwise.
  The proofs are those of Pairwise / SmithModel / CondorcetWinner with the weaker hypothesis.
-/
import VotelibProofs.Lemmas.CondorcetWinner
import VotelibProofs.Lemmas.SmithModel
namespace VL.Condorcet.Diag
open VL VL.Condorcet Relation

/-- a pairwise dictionary that may contain self-pairs: keys are distinct (it is a `dict`), counts are non-negative -/
def WFd (v : Pairwise) : Prop := (v.map (·.1)).Nodup ∧ (∀ e ∈ v, 0 ≤ e.2)

instance (v : Pairwise) : Decidable (WFd v) := by unfold WFd; infer_instance

theorem wfd_of_wf {v : Pairwise} (h : WF v) : WFd v := ⟨h.1, h.2.2⟩


theorem pget_nonneg {v : Pairwise} (hwf : WFd v) (p : Pair) : 0 ≤ pget v p := by
  rcases pget_mem_or_zero v p with h | ⟨_, h⟩
  · exact hwf.2 _ h
  · rw [h]

theorem mem_pairwiseWins {v : Pairwise} (hwf : WFd v) {x y : Cand} :
    (x, y) ∈ pairwiseWins v false ↔ Beats v x y := by
  simp only [pairwiseWins, Bool.false_and, Bool.or_false, List.mem_map, List.mem_filter, decide_eq_true_eq]
  constructor
  · rintro ⟨e, ⟨he, hlt⟩, hp⟩
    obtain ⟨p, c⟩ := e
    simp only at hp
    subst hp
    have := pget_of_mem hwf.1 he
    simp only [Beats, this]
    exact hlt
  · intro hb
    have hpos : 0 < pget v (x, y) := lt_of_le_of_lt (pget_nonneg hwf _) hb
    exact ⟨((x, y), pget v (x, y)), ⟨pget_pos_mem hpos, hb⟩, rfl⟩

theorem nodup_pairwiseWins {v : Pairwise} (hwf : WFd v) (t : Bool) : (pairwiseWins v t).Nodup := by
  unfold pairwiseWins
  exact (hwf.1.sublist (List.Sublist.map _ List.filter_sublist))

theorem beats_mem {v : Pairwise} (hwf : WFd v) {x y : Cand} (h : Beats v x y) :
    x ∈ candidates v ∧ y ∈ candidates v := by
  have hpos : 0 < pget v (x, y) := lt_of_le_of_lt (pget_nonneg hwf _) h
  have := pget_pos_mem hpos
  exact ⟨fst_mem_candidates this, snd_mem_candidates this⟩

theorem reach0_smith {v : Pairwise} (hwf : WFd v) (x y : Cand) :
    (x, y) ∈ reach0 (candidates v) (pairwiseWins v false) true ↔ Graph.NB (candidates v) (Beats v) x y := by
  rw [mem_reach0, Graph.NB, mem_pairwiseWins hwf, mem_pairwiseWins hwf]
  constructor
  · rintro ⟨h1, h2, h3, h | ⟨_, h⟩⟩
    · exact ⟨h1, h2, h3, h.asymm⟩
    · exact ⟨h1, h2, h3, h⟩
  · rintro ⟨h1, h2, h3, h⟩
    exact ⟨h1, h2, h3, Or.inr ⟨rfl, h⟩⟩

theorem reach0_schwartz {v : Pairwise} (hwf : WFd v) (x y : Cand) :
    (x, y) ∈ reach0 (candidates v) (pairwiseWins v false) false ↔ Graph.BB (candidates v) (Beats v) x y := by
  rw [mem_reach0, Graph.BB, mem_pairwiseWins hwf]
  constructor
  · rintro ⟨h1, h2, h3, h | ⟨h, _⟩⟩
    · exact ⟨h1, h2, h3, h⟩
    · exact absurd h (by simp)
  · rintro ⟨h1, h2, h3, h⟩
    exact ⟨h1, h2, h3, Or.inl h⟩

theorem mem_smithSet {v : Pairwise} (hwf : WFd v) (c : Cand) :
    c ∈ smithSet v ↔ Graph.SmithReach (candidates v) (Beats v) c := by
  unfold smithSet smithSchwartz
  simp only [if_true, List.mem_filter, (ordering_perm v _).mem_iff, List.all_eq_true, Bool.or_eq_true,
    beq_iff_eq, contains_pair, mem_closure_reach0]
  have hrel : (fun x y => (x, y) ∈ reach0 (candidates v) (pairwiseWins v false) true) =
      Graph.NB (candidates v) (Beats v) := by
    funext x y; exact propext (reach0_smith hwf x y)
  rw [hrel, Graph.SmithReach]
  constructor
  · rintro ⟨hc, h⟩
    refine ⟨hc, fun o ho hoc => ?_⟩
    rcases h o ho with h1 | h1
    · exact absurd h1 hoc
    · exact h1.2
  · rintro ⟨hc, h⟩
    refine ⟨hc, fun o ho => ?_⟩
    by_cases hoc : o = c
    · exact Or.inl hoc
    · exact Or.inr ⟨fun e => hoc e.symm, h o ho hoc⟩

theorem mem_schwartzSet {v : Pairwise} (hwf : WFd v) (c : Cand) :
    c ∈ schwartzSet v ↔ Graph.SchwartzReach (candidates v) (Beats v) c := by
  unfold schwartzSet smithSchwartz
  simp only [Bool.false_eq_true, if_false, List.mem_filter, (ordering_perm v _).mem_iff, List.all_eq_true,
    Bool.or_eq_true, Bool.not_eq_true', contains_pair, mem_closure_reach0]
  have hrel : (fun x y => (x, y) ∈ reach0 (candidates v) (pairwiseWins v false) false) =
      Graph.BB (candidates v) (Beats v) := by
    funext x y; exact propext (reach0_schwartz hwf x y)
  rw [hrel, Graph.SchwartzReach]
  constructor
  · rintro ⟨hc, h⟩
    refine ⟨hc, fun o ho hoc hreach => ?_⟩
    rcases h o ho with h1 | h1
    · have : (o, c) ∈ closure (candidates v) (reach0 (candidates v) (pairwiseWins v false) false) := by
        rw [mem_closure_reach0, hrel]; exact ⟨hoc, hreach⟩
      rw [← contains_pair, h1] at this
      exact absurd this Bool.false_ne_true
    · exact h1.2
  · rintro ⟨hc, h⟩
    refine ⟨hc, fun o ho => ?_⟩
    by_cases hoc : o = c
    · left
      subst hoc
      cases hcon : (closure (candidates v) (reach0 (candidates v) (pairwiseWins v false) false)).contains (o, o) with
      | false => rfl
      | true =>
        have := contains_pair.1 hcon
        rw [mem_closure_reach0] at this
        exact absurd rfl this.1
    · cases hcon : (closure (candidates v) (reach0 (candidates v) (pairwiseWins v false) false)).contains (o, c) with
      | false => exact Or.inl rfl
      | true =>
        right
        have := contains_pair.1 hcon
        rw [mem_closure_reach0, hrel] at this
        exact ⟨fun e => hoc e.symm, h o ho hoc this.2⟩

/-- the losers of `c`'s wins are exactly the candidates `c` beats -/
theorem winsBy_eq_filter {v : Pairwise} (hwf : WFd v) (c : Cand) :
    winsBy (pairwiseWins v false) c = ((candidates v).filter (fun o => decide (Beats v c o))).length := by
  have h1 : winsBy (pairwiseWins v false) c =
      (((pairwiseWins v false).filter (fun w => w.1 = c)).map (·.2)).length := by simp [winsBy]
  rw [h1]
  apply List.Perm.length_eq
  rw [List.perm_ext_iff_of_nodup]
  · intro o
    simp only [List.mem_map, List.mem_filter, decide_eq_true_eq]
    constructor
    · rintro ⟨⟨a, b⟩, ⟨hw, ha⟩, hb⟩
      simp only at ha hb
      subst ha; subst hb
      have := (mem_pairwiseWins hwf).1 hw
      exact ⟨(beats_mem hwf this).2, this⟩
    · rintro ⟨_, hb⟩
      exact ⟨(c, o), ⟨(mem_pairwiseWins hwf).2 hb, rfl⟩, rfl⟩
  · apply List.Nodup.map_on
    · rintro ⟨a, b⟩ ha ⟨a', b'⟩ ha' hbb
      simp only [List.mem_filter, decide_eq_true_eq] at ha ha'
      simp only at hbb
      rw [Prod.mk.injEq]
      exact ⟨ha.2.trans ha'.2.symm, hbb⟩
    · exact (nodup_pairwiseWins hwf false).filter _
  · exact (nodup_candidates v).filter _

/-- a Condorcet winner who has another candidate next to him has `candidates - 1 ≠ 0` wins -/
theorem count_of_isCW {v : Pairwise} (hwf : WFd v) {c : Cand} (h : IsCW v c) (hoth : ∃ o ∈ candidates v, o ≠ c) :
    winsBy (pairwiseWins v false) c ≠ 0 ∧ winsBy (pairwiseWins v false) c + 1 = (candidates v).length := by
  rw [winsBy_eq_filter hwf]
  have hc := h.1
  have := (filter_length_eq_pred (nodup_candidates v) hc (fun o => decide (Beats v c o))
    (by simp [Beats])).2 (fun o ho hne => by simpa using h.2 o ho hne)
  refine ⟨?_, this⟩
  obtain ⟨o, ho, hne⟩ := hoth
  have hb := h.2 o ho hne
  intro h0
  have : o ∈ (candidates v).filter (fun o => decide (Beats v c o)) := by
    simp [List.mem_filter, ho, hb]
  rw [List.length_eq_zero_iff.1 h0] at this
  simp at this

/-- `candidates - 1 ≠ 0` wins make a Condorcet winner (self-pairs or not) -/
theorem isCW_of_count {v : Pairwise} (hwf : WFd v) {c : Cand} (h0 : winsBy (pairwiseWins v false) c ≠ 0)
    (h1 : winsBy (pairwiseWins v false) c + 1 = (candidates v).length) : IsCW v c := by
  rw [winsBy_eq_filter hwf] at h0 h1
  have hc : c ∈ candidates v := by
    obtain ⟨o, ho⟩ := List.exists_mem_of_length_pos (Nat.pos_of_ne_zero h0)
    simp only [List.mem_filter, decide_eq_true_eq] at ho
    exact (beats_mem hwf ho.2).1
  refine ⟨hc, fun o ho hne => ?_⟩
  have := (filter_length_eq_pred (nodup_candidates v) hc (fun o => decide (Beats v c o))
    (by simp [Beats])).1 h1 o ho hne
  simpa using this

theorem condorcetWinner_find {v : Pairwise} (hwf : WFd v) (p : Cand × Rat) (hp : p ∈ beatCounts v)
    (hval : p.2 = ((candidates v).length : Rat) - 1) : IsCW v p.1 := by
  obtain ⟨c, x⟩ := p
  have hl := (mem_iff_lookup (nodup_keys_beatCounts v)).1 hp
  rw [lookup_beatCounts] at hl
  simp only at hval
  by_cases h0 : winsBy (pairwiseWins v false) c = 0
  · simp [h0] at hl
  · simp only [h0, if_false, Option.some.injEq] at hl
    refine isCW_of_count hwf h0 ?_
    have : ((winsBy (pairwiseWins v false) c + 1 : Nat) : Rat) = ((candidates v).length : Rat) := by
      push_cast; rw [hl, hval]; ring
    exact_mod_cast this

theorem cw_sound {v : Pairwise} (hwf : WFd v) {c : Cand} (h : condorcetWinner v = [c]) : IsCW v c := by
  unfold condorcetWinner at h
  simp only at h
  cases hf : (beatCounts v).find? (fun p => p.2 = ((candidates v).length : Rat) - 1) with
  | none => rw [hf] at h; simp at h
  | some p =>
    rw [hf] at h
    simp only [List.cons.injEq, and_true] at h
    subst h
    have h2 := List.find?_some hf
    simp only [decide_eq_true_eq] at h2
    exact condorcetWinner_find hwf p (List.mem_of_find?_eq_some hf) h2

theorem cw_complete {v : Pairwise} (hwf : WFd v) {c : Cand} (h : IsCW v c) (hoth : ∃ o ∈ candidates v, o ≠ c) :
    condorcetWinner v = [c] := by
  have hcnt := count_of_isCW hwf h hoth
  have hl : lookup (beatCounts v) c = some (((candidates v).length : Rat) - 1) := by
    rw [lookup_beatCounts]
    simp only [hcnt.1, if_false, Option.some.injEq]
    rw [← hcnt.2]
    push_cast
    ring
  have hmem := (mem_iff_lookup (nodup_keys_beatCounts v)).2 hl
  unfold condorcetWinner
  simp only
  cases hf : (beatCounts v).find? (fun p => p.2 = ((candidates v).length : Rat) - 1) with
  | none =>
    rw [List.find?_eq_none] at hf
    exact absurd (by simp) (hf _ hmem)
  | some p =>
    have h2 := List.find?_some hf
    simp only [decide_eq_true_eq] at h2
    have hcw := condorcetWinner_find hwf p (List.mem_of_find?_eq_some hf) h2
    simp only [List.cons.injEq, and_true]
    exact hcw.unique h

/-- with one candidate (only expressible as a self-pair dictionary) `CondorcetWinner` returns nothing: `beat_counts` is empty -/
theorem cw_nil_of_no_wins {v : Pairwise} (h : pairwiseWins v false = []) : condorcetWinner v = [] := by
  simp [condorcetWinner, beatCounts, h]

/-- two or more candidates: every candidate has another one next to him -/
theorem exists_other_of_two {v : Pairwise} (h2 : 2 ≤ (candidates v).length) (c : Cand) : ∃ o ∈ candidates v, o ≠ c := by
  match hl : candidates v, h2 with
  | a :: b :: _, _ =>
    have hnd := nodup_candidates v
    rw [hl] at hnd
    by_cases ha : a = c
    · refine ⟨b, by simp, ?_⟩
      rintro rfl
      simp only [List.nodup_cons, List.mem_cons] at hnd
      exact hnd.1 (Or.inl ha)
    · exact ⟨a, by simp, ha⟩

end VL.Condorcet.Diag
