/-
  C10, score family, STAR — part 4: the order in which a ballot lists its `(candidate, grade)` pairs does not matter
  either (a score ballot is a `frozenset`).  `p₂` holds, position by position, the ballots of `p₁` re-listed.
-/
import VotelibProofs.Lemmas.RenameStar
namespace VL.Perm.Star
open VL VL.Score VL.C10 VL.Appr

/-- position by position the same ballot up to the order of its pairs, with the same count -/
def Relisted (p₁ p₂ : SProfile) : Prop :=
  List.Forall₂ (fun a b : SBallot × Int => a.1.Perm b.1 ∧ a.2 = b.2) p₁ p₂

theorem filled_perm (unscored : Option Rat) (allC : List Cand) {b b' : SBallot} (h : b.Perm b') :
    (filled unscored allC b).Perm (filled unscored allC b') := by
  unfold filled
  cases unscored with
  | none => exact h
  | some u =>
    simp only
    have : allC.filter (fun c => !((b.map (·.1)).contains c)) = allC.filter (fun c => !((b'.map (·.1)).contains c)) := by
      apply List.filter_congr
      intro c _
      rw [List.contains_eq_mem, List.contains_eq_mem, decide_eq_decide.mpr (h.map _).mem_iff]
    rw [this]
    exact h.append_right _

theorem convertOne_perm (unscored : Option Rat) (allC : List Cand) {b b' : SBallot} (h : b.Perm b') :
    List.Forall₂ List.Perm (convertOne unscored allC b) (convertOne unscored allC b') := by
  have hf := filled_perm unscored allC h
  rw [convertOne_eq, convertOne_eq, gradesDesc_perm hf, List.forall₂_map_left_iff, List.forall₂_map_right_iff,
    List.forall₂_same]
  intro g _
  exact (hf.filter _).map _

theorem ballotIncs_perm (unscored : Option Rat) (allC : List Cand) {bn bn' : SBallot × Int}
    (h : bn.1.Perm bn'.1 ∧ bn.2 = bn'.2) : (ballotIncs unscored allC bn).Perm (ballotIncs unscored allC bn') := by
  unfold ballotIncs
  simp only
  have hR := convertOne_perm unscored allC h.1
  have hfl := flatten_perm_of_forall₂ hR
  have hU : allC.filter (fun c => !((convertOne unscored allC bn.1).flatten.contains c)) =
      allC.filter (fun c => !((convertOne unscored allC bn'.1).flatten.contains c)) := by
    apply List.filter_congr
    intro c _
    rw [List.contains_eq_mem, List.contains_eq_mem, decide_eq_decide.mpr hfl.mem_iff]
  rw [hU, h.2]
  exact (rankPairs_perm (List.Perm.refl _) hR).map _

theorem allCp_relisted {p₁ p₂ : SProfile} (h : Relisted p₁ p₂) : allCp p₁ = allCp p₂ := by
  apply sortDedup_congr
  intro x
  induction h with
  | nil => exact Iff.rfl
  | cons hab _ ih =>
    simp only [List.flatMap_cons, List.mem_append, ih, (hab.1.map _).mem_iff]

theorem pcIncs_relisted (unscored : Option Rat) {p₁ p₂ : SProfile} (h : Relisted p₁ p₂) :
    (pcIncs unscored p₁).Perm (pcIncs unscored p₂) := by
  unfold pcIncs
  rw [allCp_relisted h]
  generalize allCp p₂ = allC
  induction h with
  | nil => exact List.Perm.refl _
  | cons hab _ ih =>
    simp only [List.flatMap_cons]
    exact (ballotIncs_perm unscored allC hab).append ih

theorem getPair_pairCounts_relisted (unscored : Option Rat) {p₁ p₂ : SProfile} (h : Relisted p₁ p₂) :
    getPair (pairCounts unscored p₁) = getPair (pairCounts unscored p₂) := by
  funext x y
  rw [getPair_pairCounts, getPair_pairCounts]
  exact (((pcIncs_relisted unscored h).filter _).map _).sum_eq

/-- STAR sees the profile only through the score sums (up to insertion order) and the pairwise counts (as a map) -/
theorem star_core (ac : Nat) (af : Rat) (cfg : Cfg) {p₁ p₂ : SProfile} (n : Nat)
    (hc : ExceptEquiv List.Perm (convert { cfg with fn := .sum } p₁) (convert { cfg with fn := .sum } p₂))
    (hpc : getPair (pairCounts (starUnscored cfg) p₁) = getPair (pairCounts (starUnscored cfg) p₂)) :
    ExceptEquiv SlotsEquiv (Score.star ac af cfg p₁ n) (Score.star ac af cfg p₂ n) := by
  unfold Score.star starRunoff
  cases h1 : convert { cfg with fn := .sum } p₁ with
  | error e =>
    cases h2 : convert { cfg with fn := .sum } p₂ with
    | error e' => rw [h1, h2] at hc; exact hc
    | ok y => rw [h1, h2] at hc; exact hc.elim
  | ok x =>
    cases h2 : convert { cfg with fn := .sum } p₂ with
    | error e' => rw [h1, h2] at hc; exact hc.elim
    | ok y =>
      rw [h1, h2] at hc
      have hsel := getNBest_perm x y hc (starSize ac af n)
      have hms := starMembers_perm hsel
      have hnd := (starMembers_spec (getNBest x (starSize ac af n))).2
      have hpairs := memberPairs_perm hpc hnd hms
      simp only [bind, Except.bind, pure, Except.pure]
      rw [← hms.length_eq]
      split
      · rename_i hle
        rw [← perm_short_eq hms hle]
        exact slotsEquiv_refl _ ⟨(starMembers (getNBest x (starSize ac af n))).take n, [], 0, by simp [List.map_take]⟩
      · exact star_schulze_perm hpairs (memberPairs_keys_nodup _ hnd) n

end VL.Perm.Star

namespace VL.Perm
open VL VL.Score VL.C10

/-- **`STAR.evaluate`: the listing order inside the ballots does not matter** (position by position the same ballot
    with its `(candidate, grade)` pairs in another order): the same exception, or `SlotsEquiv` selections -/
theorem star_relisted (ac : Nat) (af : Rat) (cfg : Cfg) {p₁ p₂ : SProfile} (h : Star.Relisted p₁ p₂) (n : Nat) :
    ExceptEquiv SlotsEquiv (Score.star ac af cfg p₁ n) (Score.star ac af cfg p₂ n) :=
  Star.star_core ac af cfg n (convert_same _ (sameBallots_of_forall₂ h)) (Star.getPair_pairCounts_relisted _ h)

/-- **`STAR.evaluate`: independence of the ballot order and of the listing order inside the ballots** -/
theorem star_perm_relisted (ac : Nat) (af : Rat) (cfg : Cfg) {p₁ p' p₂ : SProfile} (h₁ : p₁.Perm p')
    (h₂ : Star.Relisted p' p₂) (n : Nat) :
    ExceptEquiv SlotsEquiv (Score.star ac af cfg p₁ n) (Score.star ac af cfg p₂ n) :=
  Star.star_core ac af cfg n
    (convert_same _ ((sameBallots_of_perm h₁).trans (sameBallots_of_forall₂ h₂)))
    ((Star.getPair_pairCounts_perm _ h₁).trans (Star.getPair_pairCounts_relisted _ h₂))

/-- **STAR: candidate names do not matter**, the renamed ballots presented in any order and each re-listed in any order
    (e.g. re-sorted by the new ids) -/
theorem star_rename_relisted {σ : Cand → Cand} (hσ : Function.Injective σ) (ac : Nat) (af : Rat) (cfg : Cfg)
    (p p' q : SProfile) (hnn : ∀ bn ∈ p, 0 ≤ bn.2) (h₁ : p'.Perm q) (h₂ : Star.Relisted q (renScore σ p)) (n : Nat) :
    ExceptEquiv (fun r' r => SlotsEquiv r' (r.map (renSlot σ)))
      (Score.star ac af cfg p' n) (Score.star ac af cfg p n) := by
  have h1 := star_perm_relisted ac af cfg h₁ h₂ n
  have h2 := star_rename hσ ac af cfg p hnn n
  cases hx : Score.star ac af cfg p' n with
  | error e1 =>
    cases hy : Score.star ac af cfg (renScore σ p) n with
    | error e2 =>
      cases hz : Score.star ac af cfg p n with
      | error e3 => rw [hx, hy] at h1; rw [hy, hz] at h2; exact Eq.trans h1 h2
      | ok c => rw [hy, hz] at h2; exact h2.elim
    | ok b => rw [hx, hy] at h1; exact h1.elim
  | ok a =>
    cases hy : Score.star ac af cfg (renScore σ p) n with
    | error e2 => rw [hx, hy] at h1; exact h1.elim
    | ok b =>
      cases hz : Score.star ac af cfg p n with
      | error e3 => rw [hy, hz] at h2; exact h2.elim
      | ok c => rw [hx, hy] at h1; rw [hy, hz] at h2; exact slotsEquiv_trans h1 h2

instance (p₁ p₂ : SProfile) : Decidable (Star.Relisted p₁ p₂) := by unfold Star.Relisted; infer_instance

example : Star.Relisted [([(0, (5 : Rat)), (1, 0), (2, 0)], (2 : Int)), ([(0, 1), (1, 2), (2, 0)], 3)]
    [([(2, 0), (0, 5), (1, 0)], 2), ([(1, 2), (2, 0), (0, 1)], 3)] := by decide +kernel

end VL.Perm
