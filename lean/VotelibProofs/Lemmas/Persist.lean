/-
  Helper lemmas about the dict codec model (VotelibModel.Persist) for C19.
-/
import VotelibModel.Persist
import Mathlib.Data.List.Nodup
import Mathlib.Algebra.Ring.Rat
namespace VL.Persist
open VL

/-! ### shapes of serialised values -/

theorem serialize_str_inv (v : PVal) (s : String) (h : serialize v = .ok (.str s)) : v = .atom (.str s) := by
  cases v with
  | atom a => cases a <;> simp_all [serialize, atomJ, pure, Except.pure]
  | frac r => simp [serialize, pure, Except.pure] at h
  | dec r => simp [serialize, pure, Except.pure] at h
  | list l => cases hl : serL l <;> simp [serialize, hl, pure, Except.pure, bind, Except.bind] at h
  | tuple l => cases hl : serL l <;> simp [serialize, hl, pure, Except.pure, bind, Except.bind] at h
  | fset l => cases hl : serL l <;> simp [serialize, hl, pure, Except.pure, bind, Except.bind] at h
  | set l => cases hl : serL l <;> simp [serialize, hl, pure, Except.pure, bind, Except.bind] at h
  | dict d =>
    cases hk : plainKeys d <;> cases hv : serV d <;> cases hkk : serK d <;>
      simp [serialize, hk, hv, hkk, pure, Except.pure, bind, Except.bind] at h
  | obj c ps => cases hl : serF ps <;> simp [serialize, hl, pure, Except.pure, bind, Except.bind] at h
  | callable n b => cases b <;> simp [serialize, pure, Except.pure, throw, throwThe, MonadExceptOf.throw] at h
  | ncallable t => simp [serialize, throw, throwThe, MonadExceptOf.throw] at h
  | foreign t => simp [serialize, throw, throwThe, MonadExceptOf.throw] at h


/-! ### Except plumbing -/
@[simp] theorem ok_bind {α β} (a : α) (f : α → Except Err β) : (Except.ok a >>= f) = f a := rfl
@[simp] theorem err_bind {α β} (e : Err) (f : α → Except Err β) : ((Except.error e : Except Err α) >>= f) = Except.error e := rfl
@[simp] theorem pure_eq {α} (a : α) : (pure a : Except Err α) = Except.ok a := rfl
@[simp] theorem throw_eq {α} (e : Err) : (throw e : Except Err α) = Except.error e := rfl

/-! ### dedup / zipDict on duplicate-free input -/
theorem dedup_nodup : ∀ (l acc : List PVal), (acc ++ l).Nodup → dedup l acc = acc ++ l
  | [], acc, _ => by simp [dedup]
  | v :: t, acc, h => by
      have hv : v ∉ acc := by
        intro hm
        have := List.nodup_append.1 h
        exact this.2.2 v hm v (List.mem_cons_self) rfl
      simp only [dedup, hv, if_false]
      have h' : ((acc ++ [v]) ++ t).Nodup := by simpa [List.append_assoc] using h
      rw [dedup_nodup t (acc ++ [v]) h']
      simp

theorem dictSet_fresh : ∀ (d : List (PVal × PVal)) (k v : PVal), k ∉ d.map (·.1) → dictSet d k v = d ++ [(k, v)]
  | [], k, v, _ => by simp [dictSet]
  | (k', v') :: t, k, v, h => by
      have hne : k' ≠ k := by
        intro e; apply h; simp [e]
      have ht : k ∉ t.map (·.1) := by
        intro hm; apply h; simp [hm]
      simp [dictSet, hne, dictSet_fresh t k v ht]

theorem zipDict_nodup : ∀ (ks vs : List PVal) (acc : List (PVal × PVal)), ks.length = vs.length →
    (acc.map (·.1) ++ ks).Nodup → zipDict ks vs acc = acc ++ ks.zip vs
  | [], [], acc, _, _ => by simp [zipDict]
  | [], _ :: _, _, h, _ => by simp at h
  | _ :: _, [], _, h, _ => by simp at h
  | k :: ks, v :: vs, acc, hl, hn => by
      have hk : k ∉ acc.map (·.1) := by
        intro hm
        have := List.nodup_append.1 hn
        exact this.2.2 k hm k (List.mem_cons_self) rfl
      simp only [zipDict]
      rw [dictSet_fresh acc k v hk]
      have hn' : ((acc ++ [(k, v)]).map (·.1) ++ ks).Nodup := by
        simpa [List.append_assoc] using hn
      rw [zipDict_nodup ks vs _ (by simpa using hl) hn']
      simp


/-! ### the per-field result list -/
theorem deserR_keys (env : Env) : ∀ fs : List (String × J), (deserR env fs).map (·.1) = fs.map (·.1)
  | [] => by simp [deserR]
  | (k, j) :: t => by simp [deserR, deserR_keys env t]

theorem deserR_lookup (env : Env) : ∀ (fs : List (String × J)) (k : String),
    (deserR env fs).lookup k = (fs.lookup k).map (deserialize env)
  | [], k => by simp [deserR]
  | (k', j) :: t, k => by
      simp only [deserR, List.lookup]
      cases h : (k == k') <;> simp [deserR_lookup env t k]

theorem seqFields_ok : ∀ (ps : List (String × PVal)),
    seqFields (ps.map (fun p => (p.1, (Except.ok p.2 : Res)))) = .ok ps
  | [] => by simp [seqFields]
  | (k, v) :: t => by simp [seqFields, seqFields_ok t]

/-- str-keyed mapping: what `strKeys` returns -/
theorem strKeys_spec : ∀ (d : List (PVal × PVal)) (ks : List String), strKeys d = some ks →
    d.map (·.1) = ks.map (fun k => PVal.atom (.str k))
  | [], ks, h => by simp [strKeys] at h; subst h; simp
  | (k, v) :: t, ks, h => by
      cases k with
      | atom a =>
        cases a with
        | str s =>
          simp only [strKeys, Option.map_eq_some_iff] at h
          obtain ⟨ks', h1, h2⟩ := h
          subst h2
          simp [strKeys_spec t ks' h1]
        | none => simp [strKeys] at h
        | bool _ => simp [strKeys] at h
        | int _ => simp [strKeys] at h
        | float _ => simp [strKeys] at h
      | _ => simp [strKeys] at h

theorem serV_length : ∀ (d : List (PVal × PVal)) (vs : List J), serV d = .ok vs → vs.length = d.length
  | [], vs, h => by simp [serV] at h; subst h; rfl
  | (k, v) :: t, vs, h => by
      simp only [serV] at h
      cases hv : serialize v with
      | error e => simp [hv] at h
      | ok j =>
        cases ht : serV t with
        | error e => simp [hv, ht] at h
        | ok js =>
          simp [hv, ht] at h
          subst h
          simp [serV_length t js ht]


theorem deserL_cons_ok (env : Env) (j : J) (t : List J) (ws : List PVal) (h : deserL env (j :: t) = .ok ws) :
    ∃ w ws', ws = w :: ws' ∧ deserialize env j = .ok w ∧ deserL env t = .ok ws' := by
  simp only [deserL] at h
  cases hj : deserialize env j with
  | error e => simp [hj] at h
  | ok w =>
    cases ht : deserL env t with
    | error e => simp [hj, ht] at h
    | ok ws' =>
      simp [hj, ht] at h
      exact ⟨w, ws', h.symm, rfl, rfl⟩

theorem seqFields_zip (env : Env) : ∀ (ks : List String) (vs : List J) (ws : List PVal),
    ks.length = vs.length → deserL env vs = .ok ws → seqFields (deserR env (ks.zip vs)) = .ok (ks.zip ws)
  | [], [], ws, _, h => by simp [deserL] at h; subst h; simp [deserR, seqFields]
  | [], _ :: _, _, hl, _ => by simp at hl
  | _ :: _, [], _, hl, _ => by simp at hl
  | k :: ks, j :: vs, ws, hl, h => by
      obtain ⟨w, ws', rfl, hj, ht⟩ := deserL_cons_ok env j vs ws h
      simp [deserR, seqFields, hj, seqFields_zip env ks vs ws' (by simpa using hl) ht]

theorem lookup_zip_none {β} : ∀ (ks : List String) (vs : List β) (k : String), k ∉ ks → (ks.zip vs).lookup k = none
  | [], _, _, _ => by simp
  | _ :: _, [], _, _ => by simp
  | k0 :: ks, v :: vs, k, h => by
      have hne : (k == k0) = false := by
        have : k ≠ k0 := fun e => h (by simp [e])
        simpa using this
      simp only [List.zip_cons_cons, List.lookup, hne]
      exact lookup_zip_none ks vs k (fun hm => h (List.mem_cons_of_mem _ hm))

theorem plainKeys_spec (d : List (PVal × PVal)) (ks : List String) (h : plainKeys d = some ks) :
    strKeys d = some ks ∧ ∀ k ∈ reservedKeys, k ∉ ks := by
  unfold plainKeys at h
  cases hs : strKeys d with
  | none => simp [hs] at h
  | some ks' =>
    simp only [hs] at h
    split at h
    · simp at h
    · rename_i hany
      simp at h
      subst h
      refine ⟨rfl, ?_⟩
      intro k hk hmem
      apply hany
      simp only [List.any_eq_true]
      exact ⟨k, hmem, by simpa using hk⟩

theorem sdict_rebuild : ∀ (d : List (PVal × PVal)) (ks : List String), strKeys d = some ks →
    (ks.zip (d.map (·.2))).map (fun p => (PVal.atom (.str p.1), p.2)) = d
  | [], ks, h => by simp [strKeys] at h; subst h; simp
  | (k, v) :: t, ks, h => by
      cases k with
      | atom a =>
        cases a with
        | str s =>
          simp only [strKeys, Option.map_eq_some_iff] at h
          obtain ⟨ks', h1, rfl⟩ := h
          simp [sdict_rebuild t ks' h1]
        | none => simp [strKeys] at h
        | bool _ => simp [strKeys] at h
        | int _ => simp [strKeys] at h
        | float _ => simp [strKeys] at h
      | _ => simp [strKeys] at h


theorem strKeys_length (d : List (PVal × PVal)) (ks : List String) (h : strKeys d = some ks) : ks.length = d.length := by
  have := congrArg List.length (strKeys_spec d ks h)
  simpa using this.symm

theorem hasIdent_false_of_plain (d : List (PVal × PVal)) (ks : List String) (vs : List J)
    (hk : plainKeys d = some ks) (k : String) (hmem : k ∈ reservedKeys) : hasIdent (ks.zip vs) k = false := by
  unfold hasIdent
  rw [lookup_zip_none ks vs k ((plainKeys_spec d ks hk).2 k hmem)]

/-- the value reloads to itself -/
def RT (env : Env) (v : PVal) : Prop := ∃ j, serialize v = .ok j ∧ deserialize env j = .ok v

theorem ident_Fraction : isScopedIdent "Fraction" = true := by decide +kernel
theorem ident_Decimal : isScopedIdent "Decimal" = true := by decide +kernel
theorem ident_tuple : isScopedIdent "tuple" = true := by decide +kernel
theorem ident_frozenset : isScopedIdent "frozenset" = true := by decide +kernel
theorem ident_dict : isScopedIdent "dict" = true := by decide +kernel
theorem ident_set : isScopedIdent "set" = true := by decide +kernel

theorem rt_atom (env : Env) (a : Atom) : RT env (.atom a) := by
  cases a <;> exact ⟨_, rfl, rfl⟩

theorem rt_frac (env : Env) (r : Rat) : RT env (.frac r) := by
  refine ⟨_, rfl, ?_⟩
  have hden : r.den ≠ 0 := r.den_nz
  simp [deserialize, deserDict, deserTyped, hasIdent, identAt, List.lookup, ident_Fraction, hden, Rat.num_div_den]

theorem rt_dec (env : Env) (s : String) : RT env (.dec s) := by
  refine ⟨_, rfl, ?_⟩
  simp [deserialize, deserDict, deserTyped, hasIdent, identAt, List.lookup, ident_Decimal]


theorem hashableL_take (l : List PVal) (n : Nat) (h : hashableL l = true) : hashableL (l.take n) = true := by
  induction l generalizing n with
  | nil => simp [hashableL]
  | cons a t ih =>
    cases n with
    | zero => simp [hashableL]
    | succ m =>
      simp only [hashableL, Bool.and_eq_true] at h
      simp [hashableL, h.1, ih m h.2]

theorem deserL_length (env : Env) : ∀ (js : List J) (ws : List PVal), deserL env js = .ok ws → ws.length = js.length
  | [], ws, h => by simp [deserL] at h; subst h; rfl
  | j :: t, ws, h => by
      obtain ⟨w, ws', rfl, _, ht⟩ := deserL_cons_ok env j t ws h
      simp [deserL_length env t ws' ht]

theorem zip_fst_snd {α β} : ∀ d : List (α × β), (d.map (·.1)).zip (d.map (·.2)) = d
  | [] => rfl
  | a :: t => by simp [zip_fst_snd t]

theorem typed_list_rt (env : Env) (tn : String) (js : List J) (l : List PVal) (h : deserL env js = .ok l) :
    deserR env [("type", J.str tn), ("value", J.list js)]
      = [("type", .ok (.atom (.str tn))), ("value", .ok (.list l))] := by
  simp [deserR, deserialize, h]

mutual
theorem rt_val (env : Env) : ∀ v : PVal, Representable env v = true → RT env v
  | .atom a, _ => rt_atom env a
  | .frac r, _ => rt_frac env r
  | .dec s, _ => rt_dec env s
  | .list l, h => by
      simp only [Representable] at h
      obtain ⟨js, h1, h2⟩ := rt_list env l h
      exact ⟨.list js, by simp [serialize, h1], by simp [deserialize, h2]⟩
  | .tuple l, h => by
      simp only [Representable] at h
      obtain ⟨js, h1, h2⟩ := rt_list env l h
      refine ⟨_, by simp [serialize, h1]; rfl, ?_⟩
      simp only [deserialize, typed_list_rt env "tuple" js l h2]
      simp [deserDict, deserTyped, hasIdent, identAt, List.lookup, ident_tuple, asList]
  | .fset l, h => by
      simp only [Representable, Bool.and_eq_true, decide_eq_true_eq] at h
      obtain ⟨⟨hr, hh⟩, hn⟩ := h
      obtain ⟨js, h1, h2⟩ := rt_list env l hr
      refine ⟨_, by simp [serialize, h1]; rfl, ?_⟩
      simp only [deserialize, typed_list_rt env "frozenset" js l h2]
      have hd : dedup l [] = l := by simpa using dedup_nodup l [] (by simpa using hn)
      simp [deserDict, deserTyped, hasIdent, identAt, List.lookup, ident_frozenset, asList, hh, hd]
  | .set l, h => by
      simp only [Representable, Bool.and_eq_true, decide_eq_true_eq] at h
      obtain ⟨⟨hr, hh⟩, hn⟩ := h
      obtain ⟨js, h1, h2⟩ := rt_list env l hr
      refine ⟨_, by simp [serialize, h1]; rfl, ?_⟩
      simp only [deserialize, typed_list_rt env "set" js l h2]
      have hd : dedup l [] = l := by simpa using dedup_nodup l [] (by simpa using hn)
      simp [deserDict, deserTyped, hasIdent, identAt, List.lookup, ident_set, asList, hh, hd]
  | .callable n b, h => by
      simp only [Representable, Bool.and_eq_true, decide_eq_true_eq] at h
      obtain ⟨⟨hb, hi⟩, hm⟩ := h
      subst hb
      refine ⟨_, by simp [serialize]; rfl, ?_⟩
      simp [deserialize, deserDict, hasIdent, identAt, List.lookup, hi, hm]
  | .ncallable t, h => by simp [Representable] at h
  | .foreign t, h => by simp [Representable] at h
  | .dict d, h => by
      simp only [Representable, Bool.and_eq_true, decide_eq_true_eq] at h
      obtain ⟨⟨hr, hh⟩, hn⟩ := h
      obtain ⟨vj, hv1, hv2⟩ := rt_vals env d hr
      cases hk : plainKeys d with
      | some ks =>
        have hsk := (plainKeys_spec d ks hk).1
        have hlen : ks.length = vj.length := by
          rw [strKeys_length d ks hsk, serV_length d vj hv1]
        refine ⟨.dict (ks.zip vj), by simp [serialize, hk, hv1], ?_⟩
        simp only [deserialize, deserDict]
        rw [hasIdent_false_of_plain d ks vj hk "type" (by simp [reservedKeys]),
          hasIdent_false_of_plain d ks vj hk "class" (by simp [reservedKeys]),
          hasIdent_false_of_plain d ks vj hk "callable" (by simp [reservedKeys])]
        simp [seqFields_zip env ks vj _ hlen hv2, sdict_rebuild d ks hsk]
      | none =>
        obtain ⟨kj, hk1, hk2⟩ := rt_keys env d hr
        refine ⟨_, by simp [serialize, hk, hk1, hv1]; rfl, ?_⟩
        have hR : deserR env [("type", J.str "dict"), ("keys", J.list kj), ("values", J.list vj)]
            = [("type", .ok (.atom (.str "dict"))), ("keys", .ok (.list (d.map (·.1)))), ("values", .ok (.list (d.map (·.2))))] := by
          simp [deserR, deserialize, hk2, hv2]
        simp only [deserialize, hR]
        have hz : zipDict (d.map (·.1)) (d.map (·.2)) [] = d := by
          rw [zipDict_nodup (d.map (·.1)) (d.map (·.2)) [] (by simp) (by simpa using hn), zip_fst_snd]
          rfl
        simp [deserDict, deserTyped, hasIdent, identAt, List.lookup, ident_dict, asList,
          hashableL_take _ _ hh, hz]
  | .obj cls ps, h => by
      simp only [Representable, Bool.and_eq_true, decide_eq_true_eq, Bool.not_eq_true'] at h
      obtain ⟨⟨⟨⟨⟨hi, hm⟩, hr⟩, hn⟩, hc⟩, hres⟩ := h
      obtain ⟨fs, h1, hkeys, hR, hlk⟩ := rt_fields env ps hr
      refine ⟨_, by simp [serialize, h1]; rfl, ?_⟩
      have htype : hasIdent (("class", J.str cls) :: fs) "type" = false := by
        unfold hasIdent
        have hne : ("type" == "class") = false := by decide
        simp only [List.lookup, hne]
        cases hl : fs.lookup "type" with
        | none => rfl
        | some j =>
          cases j with
          | str s =>
            have h2 := hlk "type" s hl
            simp only [reservedHitF, h2] at hres
            simpa using hres
          | _ => rfl
      have hclass : hasIdent (("class", J.str cls) :: fs) "class" = true := by
        simp [hasIdent, List.lookup, hi]
      have hfilter : (ps.map (fun p => (p.1, (Except.ok p.2 : Res)))).filter (fun p => !decide (p.1 = "class"))
          = ps.map (fun p => (p.1, (Except.ok p.2 : Res))) := by
        rw [List.filter_eq_self]
        intro a ha
        simp only [List.mem_map] at ha
        obtain ⟨p, hp, rfl⟩ := ha
        simp only [Bool.not_eq_eq_eq_not, Bool.not_true, decide_eq_false_iff_not]
        intro e
        have : "class" ∈ ps.map (·.1) := by rw [← e]; exact List.mem_map_of_mem hp
        simp [this] at hc
      simp only [deserialize, deserDict, htype, hclass, deserR, hR]
      simp [deserClass, identAt, List.lookup, hm, hfilter, seqFields_ok]
theorem rt_list (env : Env) : ∀ l : List PVal, reprL env l = true →
    ∃ js, serL l = .ok js ∧ deserL env js = .ok l
  | [], _ => ⟨[], rfl, rfl⟩
  | v :: t, h => by
      simp only [reprL, Bool.and_eq_true] at h
      obtain ⟨j, h1, h2⟩ := rt_val env v h.1
      obtain ⟨js, h3, h4⟩ := rt_list env t h.2
      exact ⟨j :: js, by simp [serL, h1, h3], by simp [deserL, h2, h4]⟩
theorem rt_keys (env : Env) : ∀ d : List (PVal × PVal), reprD env d = true →
    ∃ js, serK d = .ok js ∧ deserL env js = .ok (d.map (·.1))
  | [], _ => ⟨[], rfl, rfl⟩
  | (k, v) :: t, h => by
      simp only [reprD, Bool.and_eq_true] at h
      obtain ⟨j, h1, h2⟩ := rt_val env k h.1.1
      obtain ⟨js, h3, h4⟩ := rt_keys env t h.2
      exact ⟨j :: js, by simp [serK, h1, h3], by simp [deserL, h2, h4]⟩
theorem rt_vals (env : Env) : ∀ d : List (PVal × PVal), reprD env d = true →
    ∃ js, serV d = .ok js ∧ deserL env js = .ok (d.map (·.2))
  | [], _ => ⟨[], rfl, rfl⟩
  | (k, v) :: t, h => by
      simp only [reprD, Bool.and_eq_true] at h
      obtain ⟨j, h1, h2⟩ := rt_val env v h.1.2
      obtain ⟨js, h3, h4⟩ := rt_vals env t h.2
      exact ⟨j :: js, by simp [serV, h1, h3], by simp [deserL, h2, h4]⟩
theorem rt_fields (env : Env) : ∀ ps : List (String × PVal), reprF env ps = true →
    ∃ fs, serF ps = .ok fs ∧ fs.map (·.1) = ps.map (·.1)
      ∧ deserR env fs = ps.map (fun p => (p.1, (Except.ok p.2 : Res)))
      ∧ (∀ k s, fs.lookup k = some (.str s) → ps.lookup k = some (.atom (.str s)))
  | [], _ => ⟨[], rfl, rfl, rfl, by simp⟩
  | (k, v) :: t, h => by
      simp only [reprF, Bool.and_eq_true] at h
      obtain ⟨j, h1, h2⟩ := rt_val env v h.1
      obtain ⟨fs, h3, h4, h5, h6⟩ := rt_fields env t h.2
      refine ⟨(k, j) :: fs, by simp [serF, h1, h3], by simp [h4], by simp [deserR, h2, h5], ?_⟩
      intro k' s hl
      simp only [List.lookup] at hl ⊢
      cases hkk : (k' == k) with
      | true =>
        rw [hkk] at hl
        simp at hl
        subst hl
        have := serialize_str_inv v s h1
        subst this
        rfl
      | false =>
        rw [hkk] at hl
        exact h6 k' s hl
end


/-! ### what `serialize_value` refuses -/
mutual
theorem ser_ok (v : PVal) : Serializable v = true → ∃ j, serialize v = .ok j :=
  match v with
  | .atom a => fun _ => ⟨_, rfl⟩
  | .frac r => fun _ => ⟨_, rfl⟩
  | .dec s => fun _ => ⟨_, rfl⟩
  | .list l => fun h => by
      obtain ⟨js, hj⟩ := serL_ok l (by simpa [Serializable] using h)
      exact ⟨_, by simp [serialize, hj]; rfl⟩
  | .tuple l => fun h => by
      obtain ⟨js, hj⟩ := serL_ok l (by simpa [Serializable] using h)
      exact ⟨_, by simp [serialize, hj]; rfl⟩
  | .fset l => fun h => by
      obtain ⟨js, hj⟩ := serL_ok l (by simpa [Serializable] using h)
      exact ⟨_, by simp [serialize, hj]; rfl⟩
  | .set l => fun h => by
      obtain ⟨js, hj⟩ := serL_ok l (by simpa [Serializable] using h)
      exact ⟨_, by simp [serialize, hj]; rfl⟩
  | .dict d => fun h => by
      have h' : serzD d = true := by simpa [Serializable] using h
      obtain ⟨kj, hk⟩ := serK_ok d h'
      obtain ⟨vj, hv⟩ := serV_ok d h'
      cases hs : plainKeys d with
      | some ks => exact ⟨_, by simp [serialize, hs, hv]; rfl⟩
      | none => exact ⟨_, by simp [serialize, hs, hk, hv]; rfl⟩
  | .obj c ps => fun h => by
      obtain ⟨fs, hf⟩ := serF_ok ps (by simpa [Serializable] using h)
      exact ⟨_, by simp [serialize, hf]; rfl⟩
  | .callable n b => fun h => by
      have : b = true := by simpa [Serializable] using h
      subst this
      exact ⟨_, by simp [serialize]; rfl⟩
  | .ncallable t => fun h => by simp [Serializable] at h
  | .foreign t => fun h => by simp [Serializable] at h
theorem serL_ok (l : List PVal) : serzL l = true → ∃ js, serL l = .ok js :=
  match l with
  | [] => fun _ => ⟨[], rfl⟩
  | v :: t => fun h => by
      simp only [serzL, Bool.and_eq_true] at h
      obtain ⟨j, h1⟩ := ser_ok v h.1
      obtain ⟨js, h2⟩ := serL_ok t h.2
      exact ⟨j :: js, by simp [serL, h1, h2]⟩
theorem serK_ok (d : List (PVal × PVal)) : serzD d = true → ∃ js, serK d = .ok js :=
  match d with
  | [] => fun _ => ⟨[], rfl⟩
  | (k, v) :: t => fun h => by
      simp only [serzD, Bool.and_eq_true] at h
      obtain ⟨j, h1⟩ := ser_ok k h.1.1
      obtain ⟨js, h2⟩ := serK_ok t h.2
      exact ⟨j :: js, by simp [serK, h1, h2]⟩
theorem serV_ok (d : List (PVal × PVal)) : serzD d = true → ∃ js, serV d = .ok js :=
  match d with
  | [] => fun _ => ⟨[], rfl⟩
  | (k, v) :: t => fun h => by
      simp only [serzD, Bool.and_eq_true] at h
      obtain ⟨j, h1⟩ := ser_ok v h.1.2
      obtain ⟨js, h2⟩ := serV_ok t h.2
      exact ⟨j :: js, by simp [serV, h1, h2]⟩
theorem serF_ok (ps : List (String × PVal)) : serzF ps = true → ∃ fs, serF ps = .ok fs :=
  match ps with
  | [] => fun _ => ⟨[], rfl⟩
  | (k, v) :: t => fun h => by
      simp only [serzF, Bool.and_eq_true] at h
      obtain ⟨j, h1⟩ := ser_ok v h.1
      obtain ⟨js, h2⟩ := serF_ok t h.2
      exact ⟨(k, j) :: js, by simp [serF, h1, h2]⟩
end

/-- the only errors `serialize_value` raises -/
def SaveErr (e : Err) : Prop := e = Err.valueError ∨ e = Err.other "AttributeError"

mutual
theorem ser_err (v : PVal) : Serializable v = false → ∃ e, serialize v = .error e ∧ SaveErr e :=
  match v with
  | .atom a => fun h => by simp [Serializable] at h
  | .frac r => fun h => by simp [Serializable] at h
  | .dec s => fun h => by simp [Serializable] at h
  | .list l => fun h => by
      obtain ⟨e, he, hs⟩ := serL_err l (by simpa [Serializable] using h)
      exact ⟨e, by simp [serialize, he], hs⟩
  | .tuple l => fun h => by
      obtain ⟨e, he, hs⟩ := serL_err l (by simpa [Serializable] using h)
      exact ⟨e, by simp [serialize, he], hs⟩
  | .fset l => fun h => by
      obtain ⟨e, he, hs⟩ := serL_err l (by simpa [Serializable] using h)
      exact ⟨e, by simp [serialize, he], hs⟩
  | .set l => fun h => by
      obtain ⟨e, he, hs⟩ := serL_err l (by simpa [Serializable] using h)
      exact ⟨e, by simp [serialize, he], hs⟩
  | .dict d => fun h => by
      have h' : serzD d = false := by simpa [Serializable] using h
      cases hs : plainKeys d with
      | some ks =>
        obtain ⟨e, he, hse⟩ := serV_err_of_str d ks (plainKeys_spec d ks hs).1 h'
        exact ⟨e, by simp [serialize, hs, he], hse⟩
      | none =>
        cases hk : serK d with
        | error e =>
          have := serK_err_inv d e hk
          exact ⟨e, by simp [serialize, hs, hk], this⟩
        | ok kj =>
          obtain ⟨e, he, hse⟩ := serV_err_of_keys d kj hk h'
          exact ⟨e, by simp [serialize, hs, hk, he], hse⟩
  | .obj c ps => fun h => by
      obtain ⟨e, he, hs⟩ := serF_err ps (by simpa [Serializable] using h)
      exact ⟨e, by simp [serialize, he], hs⟩
  | .callable n b => fun h => by
      have : b = false := by simpa [Serializable] using h
      subst this
      exact ⟨_, by simp [serialize], Or.inl rfl⟩
  | .ncallable t => fun _ => ⟨_, by simp [serialize], Or.inr rfl⟩
  | .foreign t => fun _ => ⟨_, by simp [serialize], Or.inl rfl⟩
theorem serL_err (l : List PVal) : serzL l = false → ∃ e, serL l = .error e ∧ SaveErr e :=
  match l with
  | [] => fun h => by simp [serzL] at h
  | v :: t => fun h => by
      cases hv : Serializable v with
      | false =>
        obtain ⟨e, he, hs⟩ := ser_err v hv
        exact ⟨e, by simp [serL, he], hs⟩
      | true =>
        obtain ⟨j, hj⟩ := ser_ok v hv
        have ht : serzL t = false := by simpa [serzL, hv] using h
        obtain ⟨e, he, hs⟩ := serL_err t ht
        exact ⟨e, by simp [serL, hj, he], hs⟩
theorem serF_err (ps : List (String × PVal)) : serzF ps = false → ∃ e, serF ps = .error e ∧ SaveErr e :=
  match ps with
  | [] => fun h => by simp [serzF] at h
  | (k, v) :: t => fun h => by
      cases hv : Serializable v with
      | false =>
        obtain ⟨e, he, hs⟩ := ser_err v hv
        exact ⟨e, by simp [serF, he], hs⟩
      | true =>
        obtain ⟨j, hj⟩ := ser_ok v hv
        have ht : serzF t = false := by simpa [serzF, hv] using h
        obtain ⟨e, he, hs⟩ := serF_err t ht
        exact ⟨e, by simp [serF, hj, he], hs⟩
/-- any error of the key pass is a save error -/
theorem serK_err_inv (d : List (PVal × PVal)) (e : Err) : serK d = .error e → SaveErr e :=
  match d with
  | [] => fun h => by simp [serK] at h
  | (k, v) :: t => fun h => by
      cases hk : Serializable k with
      | false =>
        obtain ⟨e', he, hs⟩ := ser_err k hk
        simp [serK, he] at h
        subst h
        exact hs
      | true =>
        obtain ⟨j, hj⟩ := ser_ok k hk
        cases ht : serK t with
        | error e' =>
          simp [serK, hj, ht] at h
          subst h
          exact serK_err_inv t e' ht
        | ok js => simp [serK, hj, ht] at h
/-- all keys are strings (hence serialisable): the failure is in a value -/
theorem serV_err_of_str (d : List (PVal × PVal)) (ks : List String) : strKeys d = some ks → serzD d = false →
    ∃ e, serV d = .error e ∧ SaveErr e :=
  match d with
  | [] => fun _ h => by simp [serzD] at h
  | (k, v) :: t => fun hk h => by
      have hks : Serializable k = true := by
        cases k with
        | atom a => simp [Serializable]
        | _ => simp [strKeys] at hk
      have hkt : ∃ ks', strKeys t = some ks' := by
        cases k with
        | atom a =>
          cases a with
          | str s =>
            simp only [strKeys, Option.map_eq_some_iff] at hk
            obtain ⟨ks', h1, _⟩ := hk
            exact ⟨ks', h1⟩
          | none => simp [strKeys] at hk
          | bool _ => simp [strKeys] at hk
          | int _ => simp [strKeys] at hk
          | float _ => simp [strKeys] at hk
        | _ => simp [strKeys] at hk
      obtain ⟨ks', hkt'⟩ := hkt
      cases hv : Serializable v with
      | false =>
        obtain ⟨e, he, hs⟩ := ser_err v hv
        exact ⟨e, by simp [serV, he], hs⟩
      | true =>
        obtain ⟨j, hj⟩ := ser_ok v hv
        have ht : serzD t = false := by simpa [serzD, hks, hv] using h
        obtain ⟨e, he, hs⟩ := serV_err_of_str t ks' hkt' ht
        exact ⟨e, by simp [serV, hj, he], hs⟩
/-- the key pass succeeded: the failure is in a value -/
theorem serV_err_of_keys (d : List (PVal × PVal)) (kj : List J) : serK d = .ok kj → serzD d = false →
    ∃ e, serV d = .error e ∧ SaveErr e :=
  match d with
  | [] => fun _ h => by simp [serzD] at h
  | (k, v) :: t => fun hk h => by
      have hks : Serializable k = true := by
        cases hk' : Serializable k with
        | true => rfl
        | false =>
          obtain ⟨e, he, _⟩ := ser_err k hk'
          simp [serK, he] at hk
      obtain ⟨j0, hj0⟩ := ser_ok k hks
      have hkt : ∃ kj', serK t = .ok kj' := by
        cases ht : serK t with
        | error e => simp [serK, hj0, ht] at hk
        | ok kj' => exact ⟨kj', rfl⟩
      obtain ⟨kj', hkt'⟩ := hkt
      cases hv : Serializable v with
      | false =>
        obtain ⟨e, he, hs⟩ := ser_err v hv
        exact ⟨e, by simp [serV, he], hs⟩
      | true =>
        obtain ⟨j, hj⟩ := ser_ok v hv
        have ht : serzD t = false := by simpa [serzD, hks, hv] using h
        obtain ⟨e, he, hs⟩ := serV_err_of_keys t kj' hkt' ht
        exact ⟨e, by simp [serV, hj, he], hs⟩
end


/-! ### representation invariants + nothing refused = representable -/
mutual
theorem wf_ser_repr (env : Env) : ∀ v : PVal, WFval env v = true → Serializable v = true → Representable env v = true
  | .atom _, _, _ | .frac _, _, _ | .dec _, _, _ => by simp [Representable]
  | .list l, hw, hs => by
      simp only [WFval] at hw; simp only [Serializable] at hs
      simpa [Representable] using wf_ser_reprL env l hw hs
  | .tuple l, hw, hs => by
      simp only [WFval] at hw; simp only [Serializable] at hs
      simpa [Representable] using wf_ser_reprL env l hw hs
  | .fset l, hw, hs => by
      simp only [WFval, Bool.and_eq_true] at hw; simp only [Serializable] at hs
      simp only [Representable, Bool.and_eq_true]
      exact ⟨⟨wf_ser_reprL env l hw.1.1 hs, hw.1.2⟩, hw.2⟩
  | .set l, hw, hs => by
      simp only [WFval, Bool.and_eq_true] at hw; simp only [Serializable] at hs
      simp only [Representable, Bool.and_eq_true]
      exact ⟨⟨wf_ser_reprL env l hw.1.1 hs, hw.1.2⟩, hw.2⟩
  | .dict d, hw, hs => by
      simp only [WFval, Bool.and_eq_true] at hw; simp only [Serializable] at hs
      simp only [Representable, Bool.and_eq_true]
      exact ⟨⟨wf_ser_reprD env d hw.1.1 hs, hw.1.2⟩, hw.2⟩
  | .obj cls ps, hw, hs => by
      simp only [WFval, Bool.and_eq_true] at hw; simp only [Serializable] at hs
      simp only [Representable, Bool.and_eq_true]
      obtain ⟨⟨⟨⟨⟨h1, h2⟩, h3⟩, h4⟩, h5⟩, h6⟩ := hw
      exact ⟨⟨⟨⟨⟨h1, h2⟩, wf_ser_reprF env ps h3 hs⟩, h4⟩, h5⟩, h6⟩
  | .callable n b, hw, hs => by
      simp only [Serializable] at hs
      subst hs
      simpa [WFval, Representable] using hw
  | .ncallable _, _, hs => by simp [Serializable] at hs
  | .foreign _, _, hs => by simp [Serializable] at hs
theorem wf_ser_reprL (env : Env) : ∀ l : List PVal, wfvL env l = true → serzL l = true → reprL env l = true
  | [], _, _ => rfl
  | v :: t, hw, hs => by
      simp only [wfvL, Bool.and_eq_true] at hw; simp only [serzL, Bool.and_eq_true] at hs
      simp only [reprL, Bool.and_eq_true]
      exact ⟨wf_ser_repr env v hw.1 hs.1, wf_ser_reprL env t hw.2 hs.2⟩
theorem wf_ser_reprD (env : Env) : ∀ d : List (PVal × PVal), wfvD env d = true → serzD d = true → reprD env d = true
  | [], _, _ => rfl
  | (k, v) :: t, hw, hs => by
      simp only [wfvD, Bool.and_eq_true] at hw; simp only [serzD, Bool.and_eq_true] at hs
      simp only [reprD, Bool.and_eq_true]
      exact ⟨⟨wf_ser_repr env k hw.1.1 hs.1.1, wf_ser_repr env v hw.1.2 hs.1.2⟩, wf_ser_reprD env t hw.2 hs.2⟩
theorem wf_ser_reprF (env : Env) : ∀ ps : List (String × PVal), wfvF env ps = true → serzF ps = true → reprF env ps = true
  | [], _, _ => rfl
  | (_, v) :: t, hw, hs => by
      simp only [wfvF, Bool.and_eq_true] at hw; simp only [serzF, Bool.and_eq_true] at hs
      simp only [reprF, Bool.and_eq_true]
      exact ⟨wf_ser_repr env v hw.1 hs.1, wf_ser_reprF env t hw.2 hs.2⟩
end

end VL.Persist
