/-
  C10 — ballot-order independence of the transferable vote (Gregory engine), part 3:
  the decisions of one count (election by quota, overcount correction, elimination, the elect-all shortcut)
  read the allocation only through the totals per candidate and the seats dicts only as maps; on related
  inputs they refuse with the same exception or return related results.
-/
import VotelibProofs.Lemmas.PermSTV2
namespace VL.Perm.Stv
open VL VL.STV VL.C10

/-! ### seats dicts -/

theorem DRel.getO_eq {κ α : Type} [DecidableEq κ] {l₁ l₂ : List (κ × α)} (h : DRel Eq l₁ l₂) (k : κ) :
    getO l₁ k = getO l₂ k := by
  rcases (h.rel k).elim with ⟨e₁, e₂⟩ | ⟨a, b, e₁, e₂, hab⟩
  · rw [e₁, e₂]
  · rw [e₁, e₂, hab]

theorem seatsRel_symm : ∀ a b : Seats, SeatsRel a b → SeatsRel b a := fun _ _ h => DRel.symm eq_symm' h
theorem seatsRel_trans : ∀ a b c : Seats, SeatsRel a b → SeatsRel b c → SeatsRel a c :=
  fun _ _ _ h h' => DRel.trans eq_trans' h h'

theorem seatsGet_eq (s : Seats) (c : Cand) : seatsGet s c = (getO s c).getD 0 := by
  unfold seatsGet getO
  cases s.find? (fun p => p.1 = c) <;> rfl

theorem maxGet_eq (s : Seats) (c : Cand) : maxGet s c = getO s c := by
  unfold maxGet getO
  cases s.find? (fun p => p.1 = c) <;> rfl

theorem SeatsRel.seatsGet {s₁ s₂ : Seats} (h : SeatsRel s₁ s₂) (c : Cand) : seatsGet s₁ c = seatsGet s₂ c := by
  rw [seatsGet_eq, seatsGet_eq, DRel.getO_eq h]

theorem SeatsRel.maxGet {s₁ s₂ : Seats} (h : SeatsRel s₁ s₂) (c : Cand) : maxGet s₁ c = maxGet s₂ c := by
  rw [maxGet_eq, maxGet_eq, DRel.getO_eq h]

theorem SeatsRel.sum {s₁ s₂ : Seats} (h : SeatsRel s₁ s₂) : sumSeats s₁ = sumSeats s₂ := by
  unfold sumSeats
  exact ((DRel.perm h).map _).sum_eq

theorem seatsAdd1_rel (x : Cand × Nat) (s s' : Seats) (h : SeatsRel s s') :
    SeatsRel (seatsAdd1 s x.1 x.2) (seatsAdd1 s' x.1 x.2) := by
  rw [seatsAdd1_eq_upd, seatsAdd1_eq_upd]
  exact DRel.upd h _ (fun v v' e => by rw [e]) rfl

theorem seatsAdd1_comm (x y : Cand × Nat) (s : Seats) (h : SeatsRel s s) :
    SeatsRel (seatsAdd1 (seatsAdd1 s x.1 x.2) y.1 y.2) (seatsAdd1 (seatsAdd1 s y.1 y.2) x.1 x.2) := by
  simp only [seatsAdd1_eq_upd]
  exact upd_comm h _ _ (fun v v' e => by rw [e]) (fun v v' e => by rw [e]) rfl
    (fun v _ => Nat.add_right_comm v x.2 y.2)

/-- `add_dict_to_dict` on related dicts with the additions in any order -/
theorem seatsAdd_rel {s₁ s₂ : Seats} (h : SeatsRel s₁ s₂) {add₁ add₂ : Seats} (ha : add₁.Perm add₂) :
    SeatsRel (seatsAdd s₁ add₁) (seatsAdd s₂ add₂) := by
  unfold seatsAdd
  exact foldl_perm_rel SeatsRel seatsRel_symm seatsRel_trans (fun acc p => seatsAdd1 acc p.1 p.2)
    (fun _ _ => True) (fun _ _ _ => trivial) seatsAdd1_rel (fun x y s _ hs => seatsAdd1_comm x y s hs) ha
    (List.pairwise_of_forall (fun _ _ => trivial)) _ _ h

/-! ### results of `get_n_best` up to `SlotsEquiv` -/

theorem hasTie_cands (e : List Cand) : hasTie (e.map Slot.cand) = false := by
  induction e with
  | nil => rfl
  | cons x xs ih =>
    unfold hasTie at ih ⊢
    rw [List.map_cons, List.any_cons, ih]; rfl

theorem hasTie_replicate_tie (m : Nat) (T : List Cand) : hasTie (List.replicate m (Slot.tie T)) = decide (m ≠ 0) := by
  cases m with
  | zero => rfl
  | succ k =>
    unfold hasTie
    rw [List.replicate_succ, List.any_cons]
    simp

theorem hasTie_append_replicate (e : List Cand) (m : Nat) (T : List Cand) :
    hasTie (e.map Slot.cand ++ List.replicate m (Slot.tie T)) = decide (m ≠ 0) := by
  have : ∀ l l' : List Slot, hasTie (l ++ l') = (hasTie l || hasTie l') := by
    intro l l'; unfold hasTie; rw [List.any_append]
  rw [this, hasTie_cands, hasTie_replicate_tie, Bool.false_or]

theorem slotCands_cands (e : List Cand) : slotCands (e.map Slot.cand) = e := by
  induction e with
  | nil => rfl
  | cons x xs ih =>
    unfold slotCands at ih ⊢
    rw [List.map_cons, List.filterMap_cons, ih]

theorem slotCands_replicate_tie (m : Nat) (T : List Cand) : slotCands (List.replicate m (Slot.tie T)) = [] := by
  induction m with
  | zero => rfl
  | succ k ih =>
    unfold slotCands at ih ⊢
    rw [List.replicate_succ, List.filterMap_cons, ih]

theorem slotCands_append_replicate (e : List Cand) (m : Nat) (T : List Cand) :
    slotCands (e.map Slot.cand ++ List.replicate m (Slot.tie T)) = e := by
  have : ∀ l l' : List Slot, slotCands (l ++ l') = slotCands l ++ slotCands l' := by
    intro l l'; unfold slotCands; rw [List.filterMap_append]
  rw [this, slotCands_cands, slotCands_replicate_tie, List.append_nil]

theorem hasTie_equiv {r₁ r₂ : List Slot} (h : SlotsEquiv r₁ r₂) : hasTie r₁ = hasTie r₂ := by
  obtain ⟨e₁, e₂, T₁, T₂, m, h1, h2, _, _⟩ := h
  rw [h1, h2, hasTie_append_replicate, hasTie_append_replicate]

theorem slotCands_equiv {r₁ r₂ : List Slot} (h : SlotsEquiv r₁ r₂) : (slotCands r₁).Perm (slotCands r₂) := by
  obtain ⟨e₁, e₂, T₁, T₂, m, h1, h2, he, _⟩ := h
  rw [h1, h2, slotCands_append_replicate, slotCands_append_replicate]
  exact he

/-! ### election by quota -/

theorem capOf_rel {m₁ m₂ : Seats} (h : SeatsRel m₁ m₂) (c : Cand) (m : Int) : capOf m₁ c m = capOf m₂ c m := by
  unfold capOf
  rw [h.maxGet]

theorem quotaEntry_rel (eq : Bool) (q : Rat) {p₁ p₂ m₁ m₂ : Seats} (hp : SeatsRel p₁ p₂) (hm : SeatsRel m₁ m₂) :
    quotaEntry eq q p₁ m₁ = quotaEntry eq q p₂ m₂ := by
  funext ct
  unfold quotaEntry
  simp only [capOf_rel hm, hp.seatsGet]

theorem quotaMultiples_perm (eq : Bool) (q : Rat) {p₁ p₂ m₁ m₂ : Seats} (hp : SeatsRel p₁ p₂) (hm : SeatsRel m₁ m₂)
    {tp₁ tp₂ : Votes} (ht : tp₁.Perm tp₂) :
    (quotaMultiples eq q p₁ m₁ tp₁).Perm (quotaMultiples eq q p₂ m₂ tp₂) := by
  unfold quotaMultiples
  rw [quotaEntry_rel eq q hp hm]
  exact (sortDesc_perm_of_perm ht).filterMap _

theorem correctOvercount_perm {aw₁ aw₂ : List (Cand × Nat × Rat)} (h : aw₁.Perm aw₂) (n : Nat) :
    ExceptEquiv List.Perm (correctOvercount aw₁ n) (correctOvercount aw₂ n) := by
  unfold correctOvercount
  have hs := getNBest_perm _ _ (h.map (fun x => (x.1, x.2.2))) n
  simp only
  rw [hasTie_equiv hs]
  split
  · exact rfl
  · have hmem : ∀ c, c ∈ slotCands (getNBest (aw₁.map (fun x => (x.1, x.2.2))) n) ↔
        c ∈ slotCands (getNBest (aw₂.map (fun x => (x.1, x.2.2))) n) := fun c => (slotCands_equiv hs).mem_iff
    have hf : (fun x : Cand × Nat × Rat =>
          if x.1 ∈ slotCands (getNBest (aw₁.map (fun x => (x.1, x.2.2))) n) then some (x.1, x.2.1)
          else if x.2.1 > 1 then some (x.1, x.2.1 - 1) else none) =
        (fun x : Cand × Nat × Rat =>
          if x.1 ∈ slotCands (getNBest (aw₂.map (fun x => (x.1, x.2.2))) n) then some (x.1, x.2.1)
          else if x.2.1 > 1 then some (x.1, x.2.1 - 1) else none) := by
      funext x
      simp only [hmem x.1]
    show List.Perm _ _
    rw [hf]
    exact h.filterMap _

theorem electByQuota_perm (eq : Bool) (q : Rat) (n : Nat) {p₁ p₂ m₁ m₂ : Seats} (hp : SeatsRel p₁ p₂)
    (hm : SeatsRel m₁ m₂) {tp₁ tp₂ : Votes} (ht : tp₁.Perm tp₂) :
    ExceptEquiv List.Perm (electByQuota eq q n p₁ m₁ tp₁) (electByQuota eq q n p₂ m₂ tp₂) := by
  unfold electByQuota
  have hq := quotaMultiples_perm eq q hp hm ht
  simp only
  rw [((hq.map (·.2.1)).sum_eq)]
  split
  · exact correctOvercount_perm hq n
  · exact hq.map _

/-- keys of an `electByQuota` result are distinct when the totals' keys are -/
theorem electByQuota_keys_nodup {eq : Bool} {q : Rat} {n : Nat} {prev maxS : Seats} {tp : Votes} {el : Seats}
    (hn : (tp.map (·.1)).Nodup) (h : electByQuota eq q n prev maxS tp = .ok el) : (el.map (·.1)).Nodup := by
  have hqm : ((quotaMultiples eq q prev maxS tp).map (·.1)).Nodup :=
    List.Nodup.sublist (quotaMultiples_keys_sublist eq q prev maxS tp) (keys_nodup_of_sortDesc hn)
  unfold electByQuota at h
  simp only at h
  split at h
  · exact List.Nodup.sublist (correctOvercount_spec h).2 hqm
  · injection h with h
    rw [← h, List.map_map]
    exact hqm

/-! ### elimination -/

theorem selectRetained_perm (step : Option Int) {tp₁ tp₂ : Votes} (ht : tp₁.Perm tp₂) :
    ExceptEquiv List.Perm (selectRetained step tp₁) (selectRetained step tp₂) := by
  unfold selectRetained
  cases step with
  | none => exact rfl
  | some st =>
    simp only
    rw [← ht.length_eq]
    have hs := getNBest_perm _ _ ht (retainedCount st tp₁.length)
    rw [hasTie_equiv hs]
    split
    · exact rfl
    · exact slotCands_equiv hs

end VL.Perm.Stv
