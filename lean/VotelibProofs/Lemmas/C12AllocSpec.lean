/-
  C12, allocated score: the code-shaped loop equals the round-by-round definition wherever the definition is defined
  (every round tie-free, no ballot running out).
-/
import VotelibProofs.Lemmas.C12Alloc
import VotelibProofs.Lemmas.C12Spav
namespace VL.Score
open VL VL.Appr

set_option linter.unusedSimpArgs false

/-! ### the highest grade -/

theorem listMax?_spec {l : List Rat} {m : Rat} (h : listMax? l = some m) : m ∈ l ∧ ∀ x ∈ l, x ≤ m := by
  cases l with
  | nil => cases h
  | cons y ys =>
    simp only [listMax?] at h
    injection h with h
    subst h
    have key : ∀ (zs : List Rat) (a : Rat),
        (a ≤ zs.foldl (fun m y => if m < y then y else m) a) ∧
        (∀ z ∈ zs, z ≤ zs.foldl (fun m y => if m < y then y else m) a) ∧
        (zs.foldl (fun m y => if m < y then y else m) a = a ∨ zs.foldl (fun m y => if m < y then y else m) a ∈ zs) := by
      intro zs
      induction zs with
      | nil => intro a; simp
      | cons z zs' ih =>
        intro a
        simp only [List.foldl_cons]
        by_cases hz : a < z
        · rw [if_pos hz]
          obtain ⟨i1, i2, i3⟩ := ih z
          refine ⟨le_trans (le_of_lt hz) i1, ?_, ?_⟩
          · intro w hw
            rcases List.mem_cons.mp hw with rfl | hw
            · exact i1
            · exact i2 w hw
          · rcases i3 with i3 | i3
            · right; rw [i3]; exact List.mem_cons_self
            · right; exact List.mem_cons_of_mem _ i3
        · rw [if_neg hz]
          obtain ⟨i1, i2, i3⟩ := ih a
          refine ⟨i1, ?_, ?_⟩
          · intro w hw
            rcases List.mem_cons.mp hw with rfl | hw
            · exact le_trans (not_lt.mp hz) i1
            · exact i2 w hw
          · rcases i3 with i3 | i3
            · exact Or.inl i3
            · exact Or.inr (List.mem_cons_of_mem _ i3)
    obtain ⟨k1, k2, k3⟩ := key ys y
    refine ⟨?_, ?_⟩
    · rcases k3 with k3 | k3
      · rw [k3]; exact List.mem_cons_self
      · exact List.mem_cons_of_mem _ k3
    · intro x hx
      rcases List.mem_cons.mp hx with rfl | hx
      · exact k1
      · exact k2 x hx

theorem maxGrade?_of_group {cv : WProfile} {c : Cand} {m : Rat} (hne : gradeGroup cv c m ≠ [])
    (hmax : ∀ bw ∈ cv, ∀ s, ballotScore bw.1 c = some s → s ≤ m) : maxGrade? cv c = some m := by
  unfold maxGrade?
  have hm : m ∈ cv.filterMap (fun bw => ballotScore bw.1 c) := by
    unfold gradeGroup at hne
    have hne' : cv.filter (fun bw => ballotScore bw.1 c = some m) ≠ [] := fun h => hne (by rw [h]; rfl)
    obtain ⟨bw, hbw⟩ := List.exists_mem_of_ne_nil _ hne'
    have := List.mem_filter.mp hbw
    exact List.mem_filterMap.mpr ⟨bw, this.1, by simpa using this.2⟩
  cases hl : listMax? (cv.filterMap (fun bw => ballotScore bw.1 c)) with
  | none =>
    cases hc : cv.filterMap (fun bw => ballotScore bw.1 c) with
    | nil => rw [hc] at hm; cases hm
    | cons _ _ => rw [hc] at hl; simp [listMax?] at hl
  | some m' =>
    obtain ⟨h1, h2⟩ := listMax?_spec hl
    obtain ⟨bw, hbw, hs⟩ := List.mem_filterMap.mp h1
    have := hmax bw hbw m' hs
    rw [le_antisymm this (h2 m hm)]

theorem maxGrade?_none {cv : WProfile} {c : Cand} (h : ∀ bw ∈ cv, ballotScore bw.1 c = none) : maxGrade? cv c = none := by
  unfold maxGrade?
  have : cv.filterMap (fun bw => ballotScore bw.1 c) = [] := by
    rw [List.filterMap_eq_nil_iff]
    intro bw hbw; exact h bw hbw
  rw [this]; rfl

/-! ### spending equals its definition -/

theorem spendSpec_fractionOut : ∀ (fuel : Nat) (cv : WProfile) (c : Cand) (q : Rat) (cv' : WProfile),
    WFW cv → spendSpec fuel cv c q = some cv' → fractionOut fuel cv c q = .ok cv' := by
  intro fuel
  induction fuel with
  | zero => intro cv c q cv' _ h; simp [spendSpec] at h
  | succ fuel ih =>
    intro cv c q cv' hwf h
    unfold spendSpec at h
    unfold fractionOut
    by_cases hq : q ≤ 0
    · rw [if_pos hq] at h
      injection h with h; subst h
      rw [if_neg (not_lt.mpr hq)]; rfl
    · rw [if_neg hq] at h
      rw [if_pos (not_le.mp hq)]
      have hro : True := trivial
      cases hro with
      | intro =>
        obtain ⟨best, hb⟩ := findBestVotes_ok cv c
        rw [hb]
        simp only [bind, Except.bind]
        rcases findBestVotes_spec hb with ⟨hnil, hnone⟩ | ⟨m, hbest, hne, hmax⟩
        · rw [maxGrade?_none hnone] at h
          injection h with h; subst h
          subst hnil
          simp [pure, Except.pure]
        · rw [maxGrade?_of_group (hbest ▸ hne) hmax] at h
          simp only at h
          have hcur : (best.map (weightOf cv)).sum = groupW cv c m := by rw [hbest]; exact group_cur hwf.1 c m
          have hgw : gradeWeight cv c m = groupW cv c m := rfl
          have hgpos : 0 < groupW cv c m := groupW_pos hwf.2 (hbest ▸ hne)
          have hcont : ∀ bw ∈ cv, best.contains bw.1 = decide (ballotScore bw.1 c = some m) := by
            intro bw hbw; rw [hbest]; exact mem_gradeGroup hbw
          rw [hcur, if_neg (ne_of_gt hgpos)]
          rw [hgw] at h
          by_cases hgt : groupW cv c m > q
          · rw [if_pos hgt] at h
            rw [if_pos hgt]
            injection h with h; subst h
            simp only [pure, Except.pure]
            congr 1
            apply List.map_congr_left
            intro bw hbw
            rw [hcont bw hbw]
            simp
          · rw [if_neg hgt] at h
            rw [if_neg hgt]
            have hfilt : cv.filter (fun bw => !(best.contains bw.1)) =
                cv.filter (fun bw => !decide (ballotScore bw.1 c = some m)) := by
              apply List.filter_congr
              intro bw hbw
              rw [hcont bw hbw]
            rw [hfilt]
            apply ih _ _ _ _ _ h
            exact ⟨((List.filter_sublist).map _).nodup hwf.1, fun bw hbw => hwf.2 bw (List.mem_filter.mp hbw).1⟩

/-- spending never invents ballots -/
theorem spendSpec_ballots : ∀ (fuel : Nat) (cv : WProfile) (c : Cand) (q : Rat) (cv' : WProfile),
    spendSpec fuel cv c q = some cv' → ∀ bw' ∈ cv', ∃ bw ∈ cv, bw'.1 = bw.1 := by
  intro fuel
  induction fuel with
  | zero => intro cv c q cv' h; simp [spendSpec] at h
  | succ fuel ih =>
    intro cv c q cv' h
    unfold spendSpec at h
    split at h
    · injection h with h; subst h; exact fun bw hbw => ⟨bw, hbw, rfl⟩
    · split at h
      · injection h with h; subst h; exact fun bw hbw => ⟨bw, hbw, rfl⟩
      · simp only at h
        split at h
        · injection h with h; subst h
          intro bw' hbw'
          obtain ⟨bw, hbw, rfl⟩ := List.mem_map.mp hbw'
          refine ⟨bw, hbw, ?_⟩
          split <;> rfl
        · intro bw' hbw'
          obtain ⟨bw, hbw, he⟩ := ih _ _ _ _ h bw' hbw'
          exact ⟨bw, (List.mem_filter.mp hbw).1, he⟩

end VL.Score

namespace VL.Score
open VL VL.Appr

set_option linter.unusedSimpArgs false

/-! ### merging ballots -/

theorem addWeight_entries (d : WProfile) (b : SBallot) (w : Rat) :
    ∀ p ∈ addWeight d b w, p ∈ d ∨ (p.1 = b ∧ ((∃ v, (b, v) ∈ d ∧ p.2 = v + w) ∨ p.2 = 0 + w)) := by
  induction d with
  | nil => intro p hp; simp [addWeight] at hp; subst hp; exact Or.inr ⟨rfl, Or.inr (by simp)⟩
  | cons kv rest ih =>
    obtain ⟨k, v⟩ := kv
    intro p hp
    unfold addWeight at hp
    by_cases hk : k = b
    · rw [if_pos hk] at hp
      rcases List.mem_cons.mp hp with rfl | hp
      · exact Or.inr ⟨hk, Or.inl ⟨v, by rw [← hk]; exact List.mem_cons_self, rfl⟩⟩
      · exact Or.inl (List.mem_cons_of_mem _ hp)
    · rw [if_neg hk] at hp
      rcases List.mem_cons.mp hp with rfl | hp
      · exact Or.inl List.mem_cons_self
      · rcases ih p hp with h | ⟨h1, h2⟩
        · exact Or.inl (List.mem_cons_of_mem _ h)
        · refine Or.inr ⟨h1, ?_⟩
          rcases h2 with ⟨v', hv', he⟩ | h2
          · exact Or.inl ⟨v', List.mem_cons_of_mem _ hv', he⟩
          · exact Or.inr h2

theorem addWeight_keys (d : WProfile) (b : SBallot) (w : Rat) :
    (addWeight d b w).map (·.1) = if b ∈ d.map (·.1) then d.map (·.1) else d.map (·.1) ++ [b] := by
  induction d with
  | nil => simp [addWeight]
  | cons kv rest ih =>
    obtain ⟨k, v⟩ := kv
    unfold addWeight
    by_cases hk : k = b
    · subst hk; simp
    · rw [if_neg hk]
      have hbk : ¬ b = k := fun h => hk h.symm
      simp only [List.map_cons, List.mem_cons, hbk, false_or] at ih ⊢
      rw [ih]
      split <;> rename_i h <;> simp [h]

theorem addWeight_wfw {d : WProfile} (h : WFW d) (b : SBallot) {w : Rat} (hw : 0 < w) : WFW (addWeight d b w) := by
  refine ⟨?_, ?_⟩
  · rw [addWeight_keys]
    split
    · exact h.1
    · rename_i hb
      rw [List.nodup_append]
      refine ⟨h.1, by simp, ?_⟩
      intro a ha x hx
      simp at hx; subst hx
      intro hab; subst hab; exact hb ha
  · intro p hp
    rcases addWeight_entries d b w p hp with h1 | ⟨_, ⟨v, hv, he⟩ | he⟩
    · exact h.2 p h1
    · rw [he]; have := h.2 _ hv; simp only at this; linarith
    · rw [he]; linarith

theorem merge_spec (g : SBallot → SBallot) (cv : WProfile) (hpos : ∀ bw ∈ cv, 0 < bw.2) : ∀ (d : WProfile), WFW d →
    WFW (cv.foldl (fun d bw => addWeight d (g bw.1) bw.2) d) ∧
    ∀ p ∈ cv.foldl (fun d bw => addWeight d (g bw.1) bw.2) d, p.1 ∈ d.map (·.1) ∨ ∃ bw ∈ cv, p.1 = g bw.1 := by
  induction cv with
  | nil => intro d h; exact ⟨h, fun p hp => Or.inl (List.mem_map.mpr ⟨p, hp, rfl⟩)⟩
  | cons x xs ih =>
    intro d h
    have hx := hpos x List.mem_cons_self
    obtain ⟨i1, i2⟩ := ih (fun bw hbw => hpos bw (List.mem_cons_of_mem _ hbw)) (addWeight d (g x.1) x.2) (addWeight_wfw h _ hx)
    refine ⟨i1, ?_⟩
    intro p hp
    rcases i2 p hp with h1 | ⟨bw, hbw, he⟩
    · rw [addWeight_keys] at h1
      split at h1
      · exact Or.inl h1
      · rcases List.mem_append.mp h1 with h1 | h1
        · exact Or.inl h1
        · simp at h1; exact Or.inr ⟨x, List.mem_cons_self, h1⟩
    · exact Or.inr ⟨bw, List.mem_cons_of_mem _ hbw, he⟩

/-- every candidate of every ballot is graded once -/
def BallotsWF (cv : WProfile) : Prop := ∀ bw ∈ cv, (bw.1.map (·.1)).Nodup

theorem removeCand_spec {cv : WProfile} (hpos : ∀ bw ∈ cv, 0 < bw.2) (c : Cand) :
    WFW (removeCand cv c) ∧ ∀ p ∈ removeCand cv c, ∃ bw ∈ cv, p.1 = bw.1.filter (fun x => x.1 ≠ c) := by
  obtain ⟨h1, h2⟩ := merge_spec (fun b => b.filter (fun x => x.1 ≠ c)) cv hpos [] ⟨by simp, by simp⟩
  refine ⟨h1, ?_⟩
  intro p hp
  rcases h2 p hp with h | h
  · simp at h
  · exact h

/-! ### the score table of a round -/

theorem mem_gradedCands {cv : WProfile} {c : Cand} : c ∈ gradedCands cv ↔ ∃ bw ∈ cv, c ∈ bw.1.map (·.1) := by
  unfold gradedCands
  rw [mem_sortDedup, List.mem_flatMap]

theorem ballotScore_none_iff {b : SBallot} {c : Cand} : ballotScore b c = none ↔ c ∉ b.map (·.1) := by
  unfold ballotScore
  constructor
  · intro h hc
    obtain ⟨p, hp, hpc⟩ := List.mem_map.mp hc
    cases hf : b.find? (fun p => decide (p.1 = c)) with
    | none =>
      rw [List.find?_eq_none] at hf
      exact hf p hp (by simpa using hpc)
    | some q => rw [hf] at h; cases h
  · intro h
    have : b.find? (fun p => decide (p.1 = c)) = none := by
      rw [List.find?_eq_none]
      intro p hp
      simp only [decide_eq_true_eq]
      intro hpc
      exact h (List.mem_map.mpr ⟨p, hp, hpc⟩)
    rw [this]

/-- the (candidate, grade·weight) pairs `_sum_scores` adds, in order -/
def scorePairs (cv : WProfile) : List (Cand × Rat) :=
  cv.flatMap (fun bw => bw.1.map (fun cs => (cs.1, cs.2 * bw.2)))

theorem sumScores_eq_accum (cv : WProfile) : sumScores cv = accum [] (scorePairs cv) := by
  unfold sumScores accum scorePairs
  rw [List.foldl_flatMap]
  congr 1
  funext d bw
  rw [List.foldl_map]

theorem ballot_score_sum {b : SBallot} (hb : (b.map (·.1)).Nodup) (w : Rat) (c : Cand) :
    (((b.map (fun cs => (cs.1, cs.2 * w))).filter (fun p => p.1 = c)).map (·.2)).sum =
      match ballotScore b c with
      | some g => g * w
      | none => 0 := by
  induction b with
  | nil => simp [ballotScore]
  | cons y ys ih =>
    have hy := List.nodup_cons.mp hb
    by_cases h : y.1 = c
    · have hnot : c ∉ ys.map (·.1) := by rw [← h]; exact hy.1
      have hn := ballotScore_none_iff.mpr hnot
      have := ih hy.2
      rw [hn] at this
      simp only at this
      have hs : ballotScore (y :: ys) c = some y.2 := by simp [ballotScore, List.find?_cons, h]
      rw [hs]
      simp [List.filter_cons, h, this]
    · have hs : ballotScore (y :: ys) c = ballotScore ys c := by simp [ballotScore, List.find?_cons, h]
      rw [hs]
      have := ih hy.2
      simp only [List.map_cons, List.filter_cons, h, decide_false, Bool.false_eq_true, if_false]
      exact this

theorem scorePairs_sum {cv : WProfile} (hwf : BallotsWF cv) (c : Cand) :
    (((scorePairs cv).filter (fun p => p.1 = c)).map (·.2)).sum = scoreSum cv c := by
  unfold scorePairs scoreSum
  induction cv with
  | nil => simp
  | cons bw rest ih =>
    have hwf' : BallotsWF rest := fun x hx => hwf x (List.mem_cons_of_mem _ hx)
    rw [List.flatMap_cons, List.filter_append, List.map_append, List.sum_append, ih hwf',
      ballot_score_sum (hwf bw List.mem_cons_self)]
    simp only [List.map_cons, List.sum_cons]
    congr 1

theorem sumScores_getD {cv : WProfile} (hwf : BallotsWF cv) (c : Cand) : getD (sumScores cv) c 0 = scoreSum cv c := by
  rw [sumScores_eq_accum, getD_accum, scorePairs_sum hwf]
  simp [getD, lookup]

theorem sumScores_mem_keys (cv : WProfile) (c : Cand) : c ∈ keys (sumScores cv) ↔ c ∈ gradedCands cv := by
  rw [sumScores_eq_accum, mem_keys_accum, mem_gradedCands]
  unfold scorePairs
  simp only [keys, List.map_nil, List.not_mem_nil, false_or, List.mem_flatMap, List.mem_map]
  constructor
  · rintro ⟨p, ⟨bw, hbw, cs, hcs, rfl⟩, rfl⟩
    exact ⟨bw, hbw, cs, hcs, rfl⟩
  · rintro ⟨bw, hbw, cs, hcs, rfl⟩
    exact ⟨_, ⟨bw, hbw, cs, hcs, rfl⟩, rfl⟩

theorem sumScores_nodup (cv : WProfile) : (keys (sumScores cv)).Nodup := by
  rw [sumScores_eq_accum]
  exact nodup_keys_accum _ _ (by simp [keys])

end VL.Score

namespace VL.Score
open VL VL.Appr

set_option linter.unusedSimpArgs false

/-- the distributor's `elected` dict when every winner won one seat -/
def electedOfList (el : List Cand) : Elected := el.map (fun c => (Key.cand c, 1))

theorem bump_new : ∀ {e : Elected} {k : Key}, k ∉ e.map (·.1) → ∀ n, bump e k n = e ++ [(k, 0 + n)] := by
  intro e
  induction e with
  | nil => intro k _ n; rfl
  | cons p rest ih =>
    intro k hk n
    obtain ⟨k', v⟩ := p
    have hne : ¬ k' = k := fun h => hk (by simp [h])
    have hrest : k ∉ rest.map (·.1) := fun h => hk (by simp [h])
    simp only [bump, hne, if_false, List.cons_append]
    rw [ih hrest]

theorem electedOf_new {e : Elected} {c : Cand} (h : Key.cand c ∉ e.map (·.1)) (n : Nat) :
    electedOf (e ++ [(Key.cand c, n)]) c = n := by
  unfold electedOf
  induction e with
  | nil => simp
  | cons p rest ih =>
    have hne : ¬ p.1 = Key.cand c := fun h' => h (by simp [h'])
    have hrest : Key.cand c ∉ rest.map (·.1) := fun h' => h (by simp [h'])
    simp only [List.cons_append, List.find?_cons, hne, decide_false]
    exact ih hrest

theorem removeCand_eq (cv : WProfile) (c : Cand) :
    cv.foldl (fun d bw => addWeight d (bw.1.filter (fun p => p.1 ≠ c)) bw.2) [] = removeCand cv c := rfl

/-- **The allocated-score loop equals its definition** wherever the definition is defined, from any state -/
theorem allocLoop_eq_spec (q : Rat) (hq : 0 ≤ q) : ∀ (rem fuel : Nat) (cv : WProfile) (el ws : List Cand),
    rem ≤ fuel → WFW cv → BallotsWF cv → (∀ c ∈ el, c ∉ gradedCands cv) →
    allocSpecGo q rem cv el = some ws →
    allocLoop q fuel cv (electedOfList el) rem = .ok (electedOfList ws) := by
  intro rem
  induction rem with
  | zero =>
    intro fuel cv el ws _ _ _ _ h
    simp only [allocSpecGo] at h
    injection h with h; subst h
    cases fuel <;> simp [allocLoop]
  | succ rem ih =>
    intro fuel cv el ws hfuel hwf hbwf hel h
    cases fuel with
    | zero => omega
    | succ fuel =>
      unfold allocSpecGo at h
      simp only at h
      have hro : True := trivial
      cases hro with
      | intro =>
        -- the round table
        have hnd := sumScores_nodup cv
        have hval : ∀ p ∈ sumScores cv, p.2 = scoreSum cv p.1 := by
          intro p hp
          rw [← sumScores_getD hbwf, getD_of_mem hnd hp]
        have hgnd : (gradedCands cv).Nodup := sortDedup_nodup _
        have tr := table_round hnd hgnd (sumScores_mem_keys cv) (scoreSum cv) hval
        simp only at tr
        -- the spec's winner
        rcases hf : (gradedCands cv).filter (fun c => (gradedCands cv).all
            (fun d => decide (scoreSum cv d ≤ scoreSum cv c))) with _ | ⟨c, _ | ⟨b, r⟩⟩
        · rw [hf] at h; cases h
        · rw [hf] at h
          simp only at h
          have hbest : getNBest (sumScores cv) 1 = [Slot.cand c] := by
            rcases tr with ⟨h1, _⟩ | ⟨c', _, h2, h3⟩ | ⟨_, h2, _⟩
            · rw [h1] at hf; simp at hf
            · rw [hf] at h2; injection h2 with h2; subst h2; exact h3
            · exact absurd hf (h2 c)
          have hcg : c ∈ gradedCands cv := by
            have : c ∈ (gradedCands cv).filter (fun c => (gradedCands cv).all
                (fun d => decide (scoreSum cv d ≤ scoreSum cv c))) := by rw [hf]; simp
            exact (List.mem_filter.mp this).1
          have hcel : c ∉ el := fun hc => hel c hc hcg
          have hkey : Key.cand c ∉ (electedOfList el).map (·.1) := by
            intro hk
            simp only [electedOfList, List.map_map, List.mem_map, Function.comp] at hk
            obtain ⟨x, hx, he⟩ := hk
            injection he with he
            exact hcel (he ▸ hx)
          cases hs : spendSpec (cv.length + 1) cv c q with
          | none => rw [hs] at h; cases h
          | some cv1 =>
            rw [hs] at h
            simp only at h
            have hfo := spendSpec_fractionOut _ cv c q cv1 hwf hs
            obtain ⟨_, hwf1, _⟩ := fractionOut_spends _ cv c q cv1 hfo (by omega) hq hwf
            obtain ⟨hwf2, hball2⟩ := removeCand_spec hwf1.2 c
            have hsub1 := spendSpec_ballots _ cv c q cv1 hs
            -- invariants for the next round
            have hbwf2 : BallotsWF (removeCand cv1 c) := by
              intro p hp
              obtain ⟨bw1, hbw1, he⟩ := hball2 p hp
              obtain ⟨bw, hbw, he1⟩ := hsub1 bw1 hbw1
              rw [he, he1]
              exact ((List.filter_sublist).map _).nodup (hbwf bw hbw)
            have hel2 : ∀ x ∈ el ++ [c], x ∉ gradedCands (removeCand cv1 c) := by
              intro x hx hg
              obtain ⟨p, hp, hxp⟩ := mem_gradedCands.mp hg
              obtain ⟨bw1, hbw1, he⟩ := hball2 p hp
              obtain ⟨bw, hbw, he1⟩ := hsub1 bw1 hbw1
              rw [he, he1] at hxp
              obtain ⟨y, hy, hyx⟩ := List.mem_map.mp hxp
              have hy' := List.mem_filter.mp hy
              rcases List.mem_append.mp hx with hx | hx
              · exact hel x hx (mem_gradedCands.mpr ⟨bw, hbw, List.mem_map.mpr ⟨y, hy'.1, hyx⟩⟩)
              · simp at hx; subst hx
                have := hy'.2
                simp only [ne_eq, decide_not, Bool.not_eq_true', decide_eq_false_iff_not] at this
                exact this hyx
            have hrec := ih fuel (removeCand cv1 c) (el ++ [c]) ws (by omega) hwf2 hbwf2 hel2 h
            -- the code
            unfold allocLoop
            rw [if_neg (by omega), hbest]
            simp only
            rw [bump_new hkey 1]
            have he1 : electedOfList el ++ [(Key.cand c, 0 + 1)] = electedOfList (el ++ [c]) := by
              simp [electedOfList]
            have heo : electedOf (electedOfList el ++ [(Key.cand c, 0 + 1)]) c = 1 := by
              rw [electedOf_new hkey]
            rw [heo]
            unfold subtractVotes
            rw [hfo]
            simp only [bind, Except.bind, if_true, pure, Except.pure]
            rw [removeCand_eq, he1]
            have : rem + 1 - 1 = rem := by omega
            rw [this]
            exact hrec
        · rw [hf] at h; cases h

end VL.Score
