/-
  C13 helper lemmas: dict comprehensions, inverters, constituency totals, subsetters, score converters.
-/
import VotelibProofs.Lemmas.ConvertImages
import VotelibProofs.Lemmas.ConvertCondorcet
import Mathlib.Data.Rat.Floor
import Mathlib.Algebra.Order.Floor.Ring
namespace VL.Convert
open VL

/-! ### dict comprehensions -/

section
variable {κ ν : Type} [DecidableEq κ]

theorem setTo_of_not_mem {d : List (κ × ν)} {k : κ} (h : k ∉ dkeys d) (v : ν) : setTo d k v = d ++ [(k, v)] := by
  induction d with
  | nil => rfl
  | cons e t ih =>
    obtain ⟨k', v'⟩ := e
    simp only [dkeys, List.map_cons, List.mem_cons, not_or] at h
    unfold setTo
    rw [if_neg (fun e => h.1 e.symm)]
    simp only [List.cons_append, List.cons.injEq, true_and]
    exact ih h.2

theorem foldl_setTo_of_nodup (l acc : List (κ × ν)) (h : (dkeys (acc ++ l)).Nodup) :
    l.foldl (fun d kv => setTo d kv.1 kv.2) acc = acc ++ l := by
  induction l generalizing acc with
  | nil => simp
  | cons e t ih =>
    rw [List.foldl_cons]
    have hk : e.1 ∉ dkeys acc := by
      simp only [dkeys, List.map_append, List.map_cons] at h
      rw [List.nodup_append] at h
      intro hm
      exact h.2.2 e.1 hm e.1 (by simp) rfl
    rw [setTo_of_not_mem hk]
    have : acc ++ [(e.1, e.2)] ++ t = acc ++ e :: t := by simp
    rw [ih (acc ++ [(e.1, e.2)]) (by rw [this]; exact h), this]

/-- a comprehension over distinct keys is just the list of its items -/
theorem dictOf_of_nodup {l : List (κ × ν)} (h : (dkeys l).Nodup) : dictOf l = l := by
  unfold dictOf
  rw [foldl_setTo_of_nodup l [] (by simpa using h)]; simp
end

section
variable {κ : Type} [DecidableEq κ]

theorem toFun_eq_wsum (p : Dict κ) (k : κ) : toFun p k = wsum p (fun b => if b = k then 1 else 0) := by
  unfold toFun wsum
  congr 1
  apply List.map_congr_left
  intro e _
  by_cases h : e.1 = k <;> simp [h]

omit [DecidableEq κ] in
theorem total_eq_sum (d : Dict κ) : sumValues d = total d := by
  unfold sumValues total
  have : ∀ (acc : Rat), d.foldl (fun acc kv => acc + kv.2) acc = acc + (d.map (·.2)).sum := by
    induction d with
    | nil => intro acc; simp
    | cons e t ih => intro acc; rw [List.foldl_cons, ih]; simp; ring
  rw [this]; simp

theorem toFun_map_neg (p : Dict κ) (k : κ) : toFun (p.map (fun cw => (cw.1, -cw.2))) k = - toFun p k := by
  induction p with
  | nil => simp
  | cons e t ih =>
    rw [List.map_cons, toFun_cons, toFun_cons, ih]
    by_cases h : e.1 = k <;> simp [h]; ring

theorem invertedSimple_eq {p : Dict κ} (h : (dkeys p).Nodup) :
    invertedSimple p = p.map (fun cw => (cw.1, -cw.2)) := by
  unfold invertedSimple
  apply dictOf_of_nodup
  have : dkeys (p.map (fun cw => (cw.1, -cw.2))) = dkeys p := by
    unfold dkeys; rw [List.map_map]; rfl
  rw [this]; exact h
end

/-! ### VoteTotals / ConstituencyTotals -/

section
variable {δ κ : Type} [DecidableEq κ]

theorem toFun_addDictToDict (d1 d2 : Dict κ) (k : κ) : toFun (addDictToDict d1 d2) k = toFun d1 k + toFun d2 k :=
  toFun_foldl_addTo d2 d1 k

theorem total_addDictToDict (d1 d2 : Dict κ) : total (addDictToDict d1 d2) = total d1 + total d2 :=
  total_foldl_addTo d2 d1

theorem nodup_addDictToDict {d1 : Dict κ} (h : (dkeys d1).Nodup) (d2 : Dict κ) : (dkeys (addDictToDict d1 d2)).Nodup :=
  nodup_foldl_addTo d2 h

theorem toFun_voteTotals (p : List (δ × Dict κ)) (k : κ) :
    toFun (voteTotals p) k = (p.map (fun dv => toFun dv.2 k)).sum := by
  unfold voteTotals
  have : ∀ acc : Dict κ, toFun (p.foldl (fun all dv => addDictToDict all dv.2) acc) k
      = toFun acc k + (p.map (fun dv => toFun dv.2 k)).sum := by
    induction p with
    | nil => intro acc; simp
    | cons e t ih => intro acc; rw [List.foldl_cons, ih, toFun_addDictToDict]; simp; ring
  rw [this]; simp

theorem total_voteTotals (p : List (δ × Dict κ)) :
    total (voteTotals p) = (p.map (fun dv => total dv.2)).sum := by
  unfold voteTotals
  have : ∀ acc : Dict κ, total (p.foldl (fun all dv => addDictToDict all dv.2) acc)
      = total acc + (p.map (fun dv => total dv.2)).sum := by
    induction p with
    | nil => intro acc; simp
    | cons e t ih => intro acc; rw [List.foldl_cons, ih, total_addDictToDict]; simp; ring
  rw [this]; simp [total]

theorem nodup_voteTotals (p : List (δ × Dict κ)) : (dkeys (voteTotals p)).Nodup := by
  unfold voteTotals
  have : ∀ acc : Dict κ, (dkeys acc).Nodup →
      (dkeys (p.foldl (fun all dv => addDictToDict all dv.2) acc)).Nodup := by
    induction p with
    | nil => intro acc h; exact h
    | cons e t ih => intro acc h; exact ih _ (nodup_addDictToDict h _)
  exact this [] (by simp [dkeys])
end

/-! ### nested dicts (district -> votes) and their merged normal form -/

section
variable {δ κ : Type} [DecidableEq δ] [DecidableEq κ]

/-- `Σ f(votes of district d)` over the entries filed under district `d` -/
def nsum (p : List (δ × Dict κ)) (d : δ) (f : Dict κ → Rat) : Rat :=
  (p.map (fun dv => if dv.1 = d then f dv.2 else 0)).sum

/-- `Σ f(votes)` over all entries -/
def nsumAll (p : List (δ × Dict κ)) (f : Dict κ → Rat) : Rat := (p.map (fun dv => f dv.2)).sum

omit [DecidableEq κ] in
theorem nsum_append (p q : List (δ × Dict κ)) (d : δ) (f : Dict κ → Rat) : nsum (p ++ q) d f = nsum p d f + nsum q d f := by
  simp [nsum]

omit [DecidableEq δ] [DecidableEq κ] in
theorem nsumAll_append (p q : List (δ × Dict κ)) (f : Dict κ → Rat) : nsumAll (p ++ q) f = nsumAll p f + nsumAll q f := by
  simp [nsumAll]

/-- `f` is additive over `add_dict_to_dict` -/
def DictAdditive (f : Dict κ → Rat) : Prop := f [] = 0 ∧ ∀ a b, f (addDictToDict a b) = f a + f b

theorem nsum_addNested {f : Dict κ → Rat} (hf : DictAdditive f) (acc : List (δ × Dict κ)) (d0 : δ) (dv : Dict κ) (d : δ) :
    nsum (addNested acc d0 dv) d f = nsum acc d f + if d0 = d then f dv else 0 := by
  induction acc with
  | nil =>
    simp only [addNested, nsum, List.map_cons, List.map_nil, List.sum_cons, List.sum_nil]
    rw [hf.2, hf.1]; simp
  | cons e t ih =>
    obtain ⟨d', dv'⟩ := e
    unfold addNested
    by_cases h : d' = d0
    · subst h
      rw [if_pos rfl]
      simp only [nsum, List.map_cons, List.sum_cons]
      by_cases hd : d' = d
      · simp [hd, hf.2]; ring
      · simp [hd]
    · rw [if_neg h]
      have : nsum ((d', dv') :: addNested t d0 dv) d f
          = (if d' = d then f dv' else 0) + nsum (addNested t d0 dv) d f := by simp [nsum]
      rw [this, ih]; simp [nsum]; ring

theorem nsumAll_addNested {f : Dict κ → Rat} (hf : DictAdditive f) (acc : List (δ × Dict κ)) (d0 : δ) (dv : Dict κ) :
    nsumAll (addNested acc d0 dv) f = nsumAll acc f + f dv := by
  induction acc with
  | nil =>
    simp only [addNested, nsumAll, List.map_cons, List.map_nil, List.sum_cons, List.sum_nil]
    rw [hf.2, hf.1]; simp
  | cons e t ih =>
    obtain ⟨d', dv'⟩ := e
    unfold addNested
    by_cases h : d' = d0
    · rw [if_pos h]; simp [nsumAll, hf.2]; ring
    · rw [if_neg h]
      have : nsumAll ((d', dv') :: addNested t d0 dv) f = f dv' + nsumAll (addNested t d0 dv) f := by simp [nsumAll]
      rw [this, ih]; simp [nsumAll]; ring

theorem nsum_mergeNested {f : Dict κ → Rat} (hf : DictAdditive f) (p : List (δ × Dict κ)) (d : δ) :
    nsum (mergeNested p) d f = nsum p d f := by
  unfold mergeNested
  have : ∀ acc, nsum (p.foldl (fun acc dv => addNested acc dv.1 dv.2) acc) d f = nsum acc d f + nsum p d f := by
    induction p with
    | nil => intro acc; simp [nsum]
    | cons e t ih => intro acc; rw [List.foldl_cons, ih, nsum_addNested hf]; simp [nsum]; ring
  rw [this]; simp [nsum]

theorem nsumAll_mergeNested {f : Dict κ → Rat} (hf : DictAdditive f) (p : List (δ × Dict κ)) :
    nsumAll (mergeNested p) f = nsumAll p f := by
  unfold mergeNested
  have : ∀ acc, nsumAll (p.foldl (fun acc dv => addNested acc dv.1 dv.2) acc) f = nsumAll acc f + nsumAll p f := by
    induction p with
    | nil => intro acc; simp [nsumAll]
    | cons e t ih => intro acc; rw [List.foldl_cons, ih, nsumAll_addNested hf]; simp [nsumAll]; ring
  rw [this]; simp [nsumAll]

theorem dkeys_addNested (acc : List (δ × Dict κ)) (d0 : δ) (dv : Dict κ) :
    dkeys (addNested acc d0 dv) = if d0 ∈ dkeys acc then dkeys acc else dkeys acc ++ [d0] := by
  induction acc with
  | nil => simp [addNested, dkeys]
  | cons e t ih =>
    obtain ⟨d', dv'⟩ := e
    unfold addNested
    by_cases h : d' = d0
    · subst h; simp [dkeys]
    · rw [if_neg h]
      have h' : ¬ d0 = d' := fun e => h e.symm
      simp only [dkeys, List.map_cons, List.mem_cons, h', false_or] at ih ⊢
      rw [ih]; split <;> rename_i hh <;> simp [hh]

theorem nodup_mergeNested (p : List (δ × Dict κ)) : (dkeys (mergeNested p)).Nodup := by
  unfold mergeNested
  have : ∀ acc : List (δ × Dict κ), (dkeys acc).Nodup →
      (dkeys (p.foldl (fun acc dv => addNested acc dv.1 dv.2) acc)).Nodup := by
    induction p with
    | nil => intro acc h; exact h
    | cons e t ih =>
      intro acc h
      apply ih
      rw [dkeys_addNested]
      split
      · exact h
      · rename_i hk
        rw [List.nodup_append]
        exact ⟨h, by simp, by intro a ha b hb; simp at hb; subst hb; intro e'; subst e'; exact hk ha⟩
  exact this [] (by simp [dkeys])

theorem toFun_dictAdditive (k : κ) : DictAdditive (fun d : Dict κ => toFun d k) :=
  ⟨rfl, fun a b => toFun_addDictToDict a b k⟩

theorem total_dictAdditive : DictAdditive (fun d : Dict κ => total d) :=
  ⟨by simp [total], fun a b => total_addDictToDict a b⟩

omit [DecidableEq κ] in
theorem toFun_constituencyTotals {p : List (δ × Dict κ)} (h : (dkeys p).Nodup) (d : δ) :
    toFun (constituencyTotals p) d = nsum p d total := by
  unfold constituencyTotals
  rw [dictOf_of_nodup (by
    have : dkeys (p.map (fun dv => (dv.1, sumValues dv.2))) = dkeys p := by
      unfold dkeys; rw [List.map_map]; rfl
    rw [this]; exact h)]
  unfold toFun nsum
  rw [List.map_map]
  congr 1
  apply List.map_congr_left
  intro e _
  simp [total_eq_sum]
end

/-! ### InvertedApprovalVotes -/

/-- the candidates of the universe a ballot does not approve -/
def complIn (U : List Cand) (b : Approval) : Approval := canonSet (U.filter (fun c => c ∉ b))

theorem mem_complIn (U : List Cand) (b : Approval) (c : Cand) : c ∈ complIn U b ↔ c ∈ U ∧ c ∉ b := by
  unfold complIn; rw [mem_canonSet]; simp

/-- over a universe containing both ballots, different canonical ballots have different complements -/
theorem complIn_injective {U : List Cand} {b b' : Approval} (hb : b.Pairwise (· < ·)) (hb' : b'.Pairwise (· < ·))
    (hs : ∀ c ∈ b, c ∈ U) (hs' : ∀ c ∈ b', c ∈ U) (h : complIn U b = complIn U b') : b = b' := by
  apply hb.eq_of_mem_iff hb'
  intro c
  have := mem_complIn U b c
  rw [h, mem_complIn] at this
  constructor
  · intro hc; by_contra hn; exact (this.1 ⟨hs c hc, hn⟩).2 hc
  · intro hc; by_contra hn; exact (this.2 ⟨hs' c hc, hn⟩).2 hc

/-- a well-formed approval profile over `U`: a dict of canonical frozensets of candidates of `U` -/
def AWF (U : List Cand) (p : AProfile) : Prop :=
  (dkeys p).Nodup ∧ ∀ bw ∈ p, bw.1.Pairwise (· < ·) ∧ ∀ c ∈ bw.1, c ∈ U

theorem invertedApprovalU_eq {U : List Cand} {p : AProfile} (h : AWF U p) :
    invertedApprovalU U p = p.map (fun bw => (complIn U bw.1, bw.2)) := by
  unfold invertedApprovalU
  apply dictOf_of_nodup
  have : dkeys (p.map (fun bw => (canonSet (U.filter (fun c => c ∉ bw.1)), bw.2))) = (dkeys p).map (complIn U) := by
    unfold dkeys; rw [List.map_map, List.map_map]; rfl
  rw [this]
  apply List.Nodup.map_on _ h.1
  intro b hb b' hb' e
  obtain ⟨bw, hbw, rfl⟩ := List.mem_map.1 hb
  obtain ⟨bw', hbw', rfl⟩ := List.mem_map.1 hb'
  exact complIn_injective (h.2 bw hbw).1 (h.2 bw' hbw').1 (h.2 bw hbw).2 (h.2 bw' hbw').2 e

theorem toFun_map_key {β κ : Type} [DecidableEq κ] (f : β → κ) (p : Dict β) (k : κ) :
    toFun (p.map (fun bw => (f bw.1, bw.2))) k = wsum p (fun b => if f b = k then 1 else 0) := by
  unfold toFun wsum
  rw [List.map_map]
  congr 1
  apply List.map_congr_left
  intro e _
  simp only [Function.comp]
  by_cases h : f e.1 = k <;> simp [h]

theorem total_map_key {β κ : Type} (f : β → κ) (p : Dict β) :
    total (p.map (fun bw => (f bw.1, bw.2))) = total p := by
  unfold total; rw [List.map_map]; rfl

/-! ### score ballots -/

theorem mem_approvedAt (thr : Rat) (v : ScoreBallot) (c : Cand) :
    c ∈ approvedAt thr v ↔ ∃ s, (c, s) ∈ v ∧ thr ≤ s := by
  unfold approvedAt
  rw [mem_canonSet]
  simp only [List.mem_map, List.mem_filter, decide_eq_true_eq]
  constructor
  · rintro ⟨⟨c', s⟩, ⟨hm, hs⟩, rfl⟩; exact ⟨s, hm, hs⟩
  · rintro ⟨s, hm, hs⟩; exact ⟨(c, s), ⟨hm, hs⟩, rfl⟩

/-! ### RankedSubsetter -/

/-- what `RankedSubsetter.subset` does to one place -/
def subItem (subset : List Cand) (rank : RankItem) : Option RankItem :=
  match rank with
  | .shared cs =>
    match cs.filter (fun c => c ∈ subset) with
    | [] => none
    | [c] => some (.one c)
    | sub => some (.shared sub)
  | .one c => if c ∈ subset then some (.one c) else none

theorem subsetRankedOne_eq (subset : List Cand) (b : Ballot) :
    subsetRankedOne subset b = b.filterMap (subItem subset) := rfl

theorem subItem_cands (S : List Cand) (it : RankItem) :
    (match subItem S it with
      | none => []
      | some it' => it'.cands) = it.cands.filter (fun c => c ∈ S) := by
  cases it with
  | one c =>
    unfold subItem
    by_cases h : c ∈ S <;> simp [h, RankItem.cands]
  | shared cs =>
    unfold subItem
    simp only [RankItem.cands]
    generalize cs.filter (fun c => c ∈ S) = l
    match l with
    | [] => rfl
    | [c] => rfl
    | _ :: _ :: _ => rfl

theorem subItem_nonempty (S : List Cand) (it it' : RankItem) (h : subItem S it = some it') : it'.cands ≠ [] := by
  cases it with
  | one c =>
    simp only [subItem] at h
    split at h
    · cases h; simp [RankItem.cands]
    · cases h
  | shared cs =>
    simp only [subItem] at h
    split at h
    · cases h
    · cases h; simp [RankItem.cands]
    · rename_i hne1 hne2
      cases h
      simp only [RankItem.cands]
      intro e; exact hne1 e

/-- the sub-ranking names exactly the subset's candidates of the ballot, in the ballot's order -/
theorem ballotCands_subsetRankedOne (S : List Cand) (b : Ballot) :
    ballotCands (subsetRankedOne S b) = (ballotCands b).filter (fun c => c ∈ S) := by
  rw [subsetRankedOne_eq]
  induction b with
  | nil => rfl
  | cons it rest ih =>
    rw [ballotCands_cons, List.filter_append, ← ih, ← subItem_cands S it, List.filterMap_cons]
    cases subItem S it with
    | none => rfl
    | some it' => rw [ballotCands_cons]

/-- the sub-ranking keeps exactly the order relations between the subset's candidates -/
theorem above_subsetRankedOne (S : List Cand) (b : Ballot) (x y : Cand) :
    Above (subsetRankedOne S b) x y ↔ Above b x y ∧ x ∈ S ∧ y ∈ S := by
  induction b with
  | nil => simp [subsetRankedOne, Above]
  | cons it rest ih =>
    have hc := subItem_cands S it
    have hrest := ballotCands_subsetRankedOne S rest
    rw [subsetRankedOne_eq] at ih hrest ⊢
    rw [List.filterMap_cons]
    cases hsi : subItem S it with
    | none =>
      simp only [hsi] at hc
      simp only [Above]
      rw [ih]
      have hx : ¬ (x ∈ it.cands ∧ x ∈ S) := by
        intro ⟨h1, h2⟩
        have : x ∈ it.cands.filter (fun c => c ∈ S) := by simp [h1, h2]
        rw [← hc] at this; simp at this
      tauto
    | some it' =>
      simp only [hsi] at hc
      simp only [Above]
      rw [ih, hrest, hc]
      simp only [List.mem_filter, decide_eq_true_eq]
      tauto

/-- no place of the sub-ranking is empty, and a one-candidate place is the bare candidate -/
theorem subsetRankedOne_items (S : List Cand) (b : Ballot) :
    ∀ it ∈ subsetRankedOne S b, it.cands ≠ [] := by
  intro it hit
  rw [subsetRankedOne_eq, List.mem_filterMap] at hit
  obtain ⟨it0, _, h⟩ := hit
  exact subItem_nonempty S it0 it h

/-! ### RoundedVotes -/

theorem roundedVotes_eq {κ : Type} [DecidableEq κ] (k : Nat) {p : Dict κ} (h : (dkeys p).Nodup) :
    roundedVotes k p = p.map (fun kv => (kv.1, roundHalfUp k kv.2)) := by
  unfold roundedVotes
  apply dictOf_of_nodup
  have : dkeys (p.map (fun kv => (kv.1, roundHalfUp k kv.2))) = dkeys p := by
    unfold dkeys; rw [List.map_map]; rfl
  rw [this]; exact h

/-- the rounded value lies on the grid `10^-decimals` and within half a grid step of the exact value;
    exact ties go away from zero -/
theorem roundHalfUp_spec (d : Nat) (x : Rat) :
    ∃ z : Int, roundHalfUp d x = (z : Rat) / ((10 ^ d : Nat) : Rat) ∧
      |x * ((10 ^ d : Nat) : Rat) - (z : Rat)| ≤ 1 / 2 ∧
      (|x * ((10 ^ d : Nat) : Rat) - (z : Rat)| = 1 / 2 → |x * ((10 ^ d : Nat) : Rat)| < |(z : Rat)|) := by
  unfold roundHalfUp
  simp only
  set s := x * ((10 ^ d : Nat) : Rat) with hs
  by_cases h0 : 0 ≤ s
  · rw [if_pos h0]
    refine ⟨(s + 1 / 2).floor, rfl, ?_, ?_⟩
    · have h1 := Int.floor_le (s + 1 / 2)
      have h2 := Int.lt_floor_add_one (s + 1 / 2)
      have e : Int.floor (s + 1 / 2) = (s + 1 / 2).floor := rfl
      rw [e] at h1 h2
      rw [abs_le]; constructor <;> linarith
    · intro ht
      have h1 := Int.floor_le (s + 1 / 2)
      have h2 := Int.lt_floor_add_one (s + 1 / 2)
      have e : Int.floor (s + 1 / 2) = (s + 1 / 2).floor := rfl
      rw [e] at h1 h2
      have hz : s < ((s + 1 / 2).floor : Rat) := by
        rcases abs_eq (by norm_num : (0 : Rat) ≤ 1 / 2) |>.1 ht with h | h <;> linarith
      rw [abs_of_nonneg h0, abs_of_nonneg (by linarith)]
      exact hz
  · rw [if_neg h0]
    push Not at h0
    refine ⟨-((-s + 1 / 2).floor), by push_cast; ring, ?_, ?_⟩
    · have h1 := Int.floor_le (-s + 1 / 2)
      have h2 := Int.lt_floor_add_one (-s + 1 / 2)
      have e : Int.floor (-s + 1 / 2) = (-s + 1 / 2).floor := rfl
      rw [e] at h1 h2
      push_cast
      rw [abs_le]; constructor <;> linarith
    · intro ht
      have h1 := Int.floor_le (-s + 1 / 2)
      have h2 := Int.lt_floor_add_one (-s + 1 / 2)
      have e : Int.floor (-s + 1 / 2) = (-s + 1 / 2).floor := rfl
      rw [e] at h1 h2
      push_cast at ht ⊢
      have hz : -s < ((-s + 1 / 2).floor : Rat) := by
        rcases abs_eq (by norm_num : (0 : Rat) ≤ 1 / 2) |>.1 ht with h | h <;> linarith
      rw [abs_of_neg h0, abs_neg, abs_of_nonneg (by linarith)]
      exact hz

theorem roundedVotesWith_eq {κ : Type} [DecidableEq κ] (mode : RoundMode) (k : Nat) {p : Dict κ} (h : (dkeys p).Nodup) :
    roundedVotesWith mode k p = p.map (fun kv => (kv.1, roundWith mode k kv.2)) := by
  unfold roundedVotesWith
  apply dictOf_of_nodup
  have : dkeys (p.map (fun kv => (kv.1, roundWith mode k kv.2))) = dkeys p := by
    unfold dkeys; rw [List.map_map]; rfl
  rw [this]; exact h

theorem floor_near (s : Rat) : |s - ((s.floor : Int) : Rat)| < 1 := by
  have h1 := Rat.floor_le s
  have h2 := Rat.lt_floor_add_one s
  push_cast at h2
  rw [abs_lt]; constructor <;> linarith

theorem ceil_near (s : Rat) : |s - ((s.ceil : Int) : Rat)| < 1 := by
  have h1 := Rat.le_ceil (x := s)
  have h2 := Rat.ceil_lt (x := s)
  rw [abs_lt]; constructor <;> linarith

/-- whatever the mode, the result is one of the two neighbouring grid points -/
theorem roundInt_near (mode : RoundMode) (s : Rat) : |s - ((roundInt mode s : Int) : Rat)| < 1 := by
  cases mode <;> simp only [roundInt]
  · -- halfUp
    split
    · have h1 := Rat.floor_le (s + 1 / 2)
      have h2 := Rat.lt_floor_add_one (s + 1 / 2)
      push_cast at h2
      rw [abs_lt]; constructor <;> linarith
    · have h1 := Rat.floor_le (-s + 1 / 2)
      have h2 := Rat.lt_floor_add_one (-s + 1 / 2)
      push_cast at h2 ⊢
      rw [abs_lt]; constructor <;> linarith
  · split
    · exact floor_near s
    · split
      · exact ceil_near s
      · split
        · exact floor_near s
        · exact ceil_near s
  · split
    · exact floor_near s
    · split
      · exact ceil_near s
      · split
        · exact floor_near s
        · exact ceil_near s
  · split
    · exact floor_near s
    · exact ceil_near s
  · split
    · exact ceil_near s
    · exact floor_near s
  · exact ceil_near s
  · exact floor_near s
  · split
    · split
      · exact ceil_near s
      · exact floor_near s
    · split
      · exact floor_near s
      · exact ceil_near s

theorem roundWith_halfUp (d : Nat) (x : Rat) : roundWith .halfUp d x = roundHalfUp d x := rfl

/-! ### IndividualToPartyVotes -/

/-- the party key of a candidate where the mapper does not raise; `none` = ignored -/
def mapKey (aff : Cand → Option Nat) (ind : Independents) (c : Cand) : Option PKey :=
  match mapParty aff ind c with
  | .ok r => r
  | .error _ => none

theorem mapParty_ok (aff : Cand → Option Nat) (ind : Independents) (c : Cand)
    (h : ind = .error → (aff c).isSome) : mapParty aff ind c = .ok (mapKey aff ind c) := by
  unfold mapKey mapParty
  cases ha : aff c with
  | some party => rfl
  | none =>
    cases ind with
    | error => simp [ha] at h
    | keep => rfl
    | aggregate => rfl
    | ignore => rfl

theorem individualToParty_eq_ok (aff : Cand → Option Nat) (ind : Independents) (p : Dict Cand)
    (h : ind = .error → ∀ cw ∈ p, (aff cw.1).isSome) :
    individualToParty aff ind p = .ok (accumOne (mapKey aff ind) p) := by
  unfold individualToParty accumOne
  apply foldlM_ok_of_step
  intro s cw hcw
  rw [mapParty_ok aff ind cw.1 (fun he => h he cw hcw)]
  cases mapKey aff ind cw.1 <;> rfl

theorem individualToParty_eq_error (aff : Cand → Option Nat) (p : Dict Cand)
    (h : ∃ cw ∈ p, aff cw.1 = none) : individualToParty aff .error p = .error .candidateError := by
  unfold individualToParty
  apply foldlM_error_of_step
  · intro s cw _
    cases ha : aff cw.1 with
    | some party => left; exact ⟨addTo s (.party party) cw.2, by simp [mapParty, ha]⟩
    | none => right; simp [mapParty, ha]
  · obtain ⟨cw, hcw, ha⟩ := h
    exact ⟨cw, hcw, fun s => by simp [mapParty, ha]⟩

/-! ### GroupVotesByParty -/

/-- a nested party dict as the list of its (party, candidate, votes) entries -/
def flatGroups (G : List (PKey × Dict Cand)) : List (PKey × Cand × Rat) :=
  G.flatMap (fun pd => pd.2.map (fun cv => (pd.1, cv.1, cv.2)))

/-- the entry a candidate contributes (none when the mapper ignores it) -/
def partyEntry (aff : Cand → Option Nat) (ind : Independents) (cw : Cand × Rat) : Option (PKey × Cand × Rat) :=
  (mapKey aff ind cw.1).map (fun party => (party, cw.1, cw.2))

/-- pure step of `groupByParty` -/
def groupStep (aff : Cand → Option Nat) (ind : Independents) (agg : List (PKey × Dict Cand)) (cw : Cand × Rat) :
    List (PKey × Dict Cand) :=
  match mapKey aff ind cw.1 with
  | some party => setNested agg party cw.1 cw.2
  | none => agg

theorem groupByParty_eq_ok (aff : Cand → Option Nat) (ind : Independents) (p : Dict Cand)
    (h : ind = .error → ∀ cw ∈ p, (aff cw.1).isSome) :
    groupByParty aff ind p = .ok (p.foldl (groupStep aff ind) []) := by
  unfold groupByParty
  apply foldlM_ok_of_step
  intro s cw hcw
  rw [mapParty_ok aff ind cw.1 (fun he => h he cw hcw)]
  unfold groupStep
  cases mapKey aff ind cw.1 <;> rfl

theorem flatGroups_setNested (G : List (PKey × Dict Cand)) (party : PKey) (c : Cand) (v : Rat)
    (hc : c ∉ (flatGroups G).map (·.2.1)) :
    (flatGroups (setNested G party c v)).Perm ((party, c, v) :: flatGroups G) := by
  induction G with
  | nil => simp [setNested, flatGroups]
  | cons e t ih =>
    obtain ⟨k', d⟩ := e
    have hsplit : flatGroups ((k', d) :: t) = d.map (fun cv => (k', cv.1, cv.2)) ++ flatGroups t := by
      simp [flatGroups]
    rw [hsplit, List.map_append, List.mem_append, not_or] at hc
    unfold setNested
    by_cases hk : k' = party
    · subst hk
      rw [if_pos rfl]
      have hd : c ∉ dkeys d := by
        intro hm
        apply hc.1
        obtain ⟨cv, hcv, rfl⟩ := List.mem_map.1 hm
        exact List.mem_map.2 ⟨(k', cv.1, cv.2), List.mem_map.2 ⟨cv, hcv, rfl⟩, rfl⟩
      rw [setTo_of_not_mem hd, hsplit]
      have : flatGroups ((k', d ++ [(c, v)]) :: t)
          = d.map (fun cv => (k', cv.1, cv.2)) ++ (k', c, v) :: flatGroups t := by
        simp [flatGroups]
      rw [this]
      exact List.perm_middle
    · rw [if_neg hk, hsplit]
      have : flatGroups ((k', d) :: setNested t party c v)
          = d.map (fun cv => (k', cv.1, cv.2)) ++ flatGroups (setNested t party c v) := by
        simp [flatGroups]
      rw [this]
      exact ((ih hc.2).append_left _).trans List.perm_middle

theorem dkeys_setNested (G : List (PKey × Dict Cand)) (party : PKey) (c : Cand) (v : Rat) :
    dkeys (setNested G party c v) = if party ∈ dkeys G then dkeys G else dkeys G ++ [party] := by
  induction G with
  | nil => simp [setNested, dkeys]
  | cons e t ih =>
    obtain ⟨k', d⟩ := e
    unfold setNested
    by_cases h : k' = party
    · subst h; simp [dkeys]
    · rw [if_neg h]
      have h' : ¬ party = k' := fun e => h e.symm
      simp only [dkeys, List.map_cons, List.mem_cons, h', false_or] at ih ⊢
      rw [ih]; split <;> rename_i hh <;> simp [hh]

/-- grouping a dict of candidates: the groups hold exactly the kept candidates, each once, under its party -/
theorem flatGroups_foldl (aff : Cand → Option Nat) (ind : Independents) (q : Dict Cand) (acc : List (PKey × Dict Cand))
    (hq : (dkeys q).Nodup) (hdis : ∀ c ∈ dkeys q, c ∉ (flatGroups acc).map (·.2.1)) :
    (flatGroups (q.foldl (groupStep aff ind) acc)).Perm (flatGroups acc ++ q.filterMap (partyEntry aff ind)) := by
  induction q generalizing acc with
  | nil => simp
  | cons cw t ih =>
    simp only [dkeys, List.map_cons, List.nodup_cons] at hq
    rw [List.foldl_cons]
    have hc : cw.1 ∉ (flatGroups acc).map (·.2.1) := hdis cw.1 (by simp [dkeys])
    unfold groupStep partyEntry
    cases hk : mapKey aff ind cw.1 with
    | none =>
      simp only [List.filterMap_cons, hk, Option.map_none]
      exact ih acc hq.2 (fun c hcm => hdis c (by simp only [dkeys, List.map_cons, List.mem_cons]; exact Or.inr hcm))
    | some party =>
      simp only [List.filterMap_cons, hk, Option.map_some]
      have hperm := flatGroups_setNested acc party cw.1 cw.2 hc
      have hdis' : ∀ c ∈ dkeys t, c ∉ (flatGroups (setNested acc party cw.1 cw.2)).map (·.2.1) := by
        intro c hcm hm
        have := (hperm.map (·.2.1)).mem_iff.1 hm
        simp only [List.map_cons, List.mem_cons] at this
        rcases this with rfl | h
        · exact hq.1 hcm
        · exact hdis c (by simp only [dkeys, List.map_cons, List.mem_cons]; exact Or.inr hcm) h
      refine (ih _ hq.2 hdis').trans ?_
      have := hperm.append_right (t.filterMap (fun cw => (mapKey aff ind cw.1).map (fun party => (party, cw.1, cw.2))))
      exact this.trans (List.perm_middle.symm)

theorem nodup_dkeys_groupFold (aff : Cand → Option Nat) (ind : Independents) (q : Dict Cand)
    (acc : List (PKey × Dict Cand)) (h : (dkeys acc).Nodup) : (dkeys (q.foldl (groupStep aff ind) acc)).Nodup := by
  induction q generalizing acc with
  | nil => exact h
  | cons cw t ih =>
    rw [List.foldl_cons]
    apply ih
    unfold groupStep
    cases mapKey aff ind cw.1 with
    | none => exact h
    | some party =>
      simp only
      rw [dkeys_setNested]
      split
      · exact h
      · rename_i hk
        rw [List.nodup_append]
        exact ⟨h, by simp, by intro a ha b hb; simp at hb; subst hb; intro e'; subst e'; exact hk ha⟩

end VL.Convert
