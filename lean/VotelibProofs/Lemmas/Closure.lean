/-
  The transitive-closure loop of `_smith_schwartz_set` (condorcet.py L88-93) computes reachability.
  `closure cands r0` = pairs `(u, l)`, `u ≠ l`, joined by a chain of `r0`-steps — for every irreflexive
  `r0` over `cands` (Floyd-Warshall-style invariant: transitivity through the processed `mid`s).
-/
import VotelibModel.Condorcet
import Mathlib.Logic.Relation
import Mathlib.Tactic.Tauto
namespace VL.Condorcet

theorem contains_pair {r : List Pair} {p : Pair} : r.contains p = true ↔ p ∈ r := List.contains_iff_mem

/-- innermost loop: adds exactly the pairs `(upper, b)`, `b` one of the `lowers`, `mid → b` known -/
theorem mem_closeLower {mid upper : Cand} (hne : upper ≠ mid) (ls : List Cand) (r : List Pair) (a b : Cand) :
    (a, b) ∈ closeLower mid upper r ls ↔
      (a, b) ∈ r ∨ (a = upper ∧ b ∈ ls ∧ upper ≠ b ∧ (mid, b) ∈ r) := by
  induction ls generalizing r with
  | nil => simp [closeLower]
  | cons x xs ih =>
    have hstep : closeLower mid upper r (x :: xs) =
        closeLower mid upper (if (upper != x && r.contains (mid, x)) = true then (upper, x) :: r else r) xs := by
      simp [closeLower, List.foldl_cons]
    rw [hstep, ih]
    by_cases hc : (upper != x && r.contains (mid, x)) = true
    · rw [if_pos hc]
      simp only [Bool.and_eq_true, bne_iff_ne, ne_eq, contains_pair] at hc
      have hmid : ∀ y, (mid, y) ∈ (upper, x) :: r ↔ (mid, y) ∈ r := by
        intro y
        simp only [List.mem_cons, Prod.mk.injEq]
        constructor
        · rintro (⟨h1, _⟩ | h)
          · exact absurd h1.symm hne
          · exact h
        · exact fun h => Or.inr h
      simp only [hmid, List.mem_cons, Prod.mk.injEq]
      constructor
      · rintro ((⟨rfl, rfl⟩ | h) | ⟨rfl, hb, h1, h2⟩)
        · exact Or.inr ⟨rfl, Or.inl rfl, hc.1, hc.2⟩
        · exact Or.inl h
        · exact Or.inr ⟨rfl, Or.inr hb, h1, h2⟩
      · rintro (h | ⟨rfl, (rfl | hb), h1, h2⟩)
        · exact Or.inl (Or.inr h)
        · exact Or.inl (Or.inl ⟨rfl, rfl⟩)
        · exact Or.inr ⟨rfl, hb, h1, h2⟩
    · rw [if_neg hc]
      simp only [Bool.and_eq_true, bne_iff_ne, ne_eq, contains_pair, not_and] at hc
      simp only [List.mem_cons]
      constructor
      · rintro (h | ⟨rfl, hb, h1, h2⟩)
        · exact Or.inl h
        · exact Or.inr ⟨rfl, Or.inr hb, h1, h2⟩
      · rintro (h | ⟨rfl, (rfl | hb), h1, h2⟩)
        · exact Or.inl h
        · exact absurd h2 (hc h1)
        · exact Or.inr ⟨rfl, hb, h1, h2⟩

def Irrefl (r : List Pair) : Prop := ∀ p ∈ r, p.1 ≠ p.2

/-- the loop over `upper` for one `mid`, started on the uppers `us`: adds exactly the pairs `(a, b)`,
    `a ∈ us`, `b ∈ cands`, `a ≠ b`, with `a → mid` and `mid → b` known before -/
theorem mem_closeUpper_aux {mid : Cand} (cands : List Cand) (us : List Cand) (r : List Pair) (hr : Irrefl r)
    (a b : Cand) :
    (a, b) ∈ us.foldl (fun r upper => if r.contains (upper, mid) then closeLower mid upper r cands else r) r ↔
      (a, b) ∈ r ∨ (a ∈ us ∧ b ∈ cands ∧ a ≠ b ∧ (a, mid) ∈ r ∧ (mid, b) ∈ r) := by
  induction us generalizing r with
  | nil => simp
  | cons x xs ih =>
    rw [List.foldl_cons]
    by_cases hc : r.contains (x, mid) = true
    · rw [if_pos hc]
      have hxm : (x, mid) ∈ r := contains_pair.1 hc
      have hne : x ≠ mid := hr _ hxm
      have hmem : ∀ a b, (a, b) ∈ closeLower mid x r cands ↔
          (a, b) ∈ r ∨ (a = x ∧ b ∈ cands ∧ x ≠ b ∧ (mid, b) ∈ r) := mem_closeLower hne cands r
      have hr1 : Irrefl (closeLower mid x r cands) := by
        rintro ⟨p1, p2⟩ hp
        rcases (hmem p1 p2).1 hp with h | ⟨rfl, _, h1, _⟩
        · exact hr _ h
        · exact h1
      have hcol : ∀ y, (y, mid) ∈ closeLower mid x r cands ↔ (y, mid) ∈ r := by
        intro y
        rw [hmem]
        constructor
        · rintro (h | ⟨_, _, _, h2⟩)
          · exact h
          · exact absurd rfl (hr _ h2)
        · exact fun h => Or.inl h
      have hrow : ∀ y, (mid, y) ∈ closeLower mid x r cands ↔ (mid, y) ∈ r := by
        intro y
        rw [hmem]
        constructor
        · rintro (h | ⟨h1, _, _, _⟩)
          · exact h
          · exact absurd h1.symm hne
        · exact fun h => Or.inl h
      rw [ih _ hr1, hcol, hrow, hmem]
      simp only [List.mem_cons]
      constructor
      · rintro ((h | ⟨rfl, hb, h1, h2⟩) | ⟨ha, hb, h1, h2, h3⟩)
        · exact Or.inl h
        · exact Or.inr ⟨Or.inl rfl, hb, h1, hxm, h2⟩
        · exact Or.inr ⟨Or.inr ha, hb, h1, h2, h3⟩
      · rintro (h | ⟨(rfl | ha), hb, h1, h2, h3⟩)
        · exact Or.inl (Or.inl h)
        · exact Or.inl (Or.inr ⟨rfl, hb, h1, h3⟩)
        · exact Or.inr ⟨ha, hb, h1, h2, h3⟩
    · rw [if_neg hc, ih _ hr]
      have hxm : (x, mid) ∉ r := fun h => hc (contains_pair.2 h)
      simp only [List.mem_cons]
      constructor
      · rintro (h | ⟨ha, hb, h1, h2, h3⟩)
        · exact Or.inl h
        · exact Or.inr ⟨Or.inr ha, hb, h1, h2, h3⟩
      · rintro (h | ⟨(rfl | ha), hb, h1, h2, h3⟩)
        · exact Or.inl h
        · exact absurd h2 hxm
        · exact Or.inr ⟨ha, hb, h1, h2, h3⟩

/-- one `mid` step, exactly -/
theorem mem_closeUpper {mid : Cand} (cands : List Cand) (r : List Pair) (hr : Irrefl r) (a b : Cand) :
    (a, b) ∈ closeUpper mid cands r ↔
      (a, b) ∈ r ∨ (a ∈ cands ∧ b ∈ cands ∧ a ≠ b ∧ (a, mid) ∈ r ∧ (mid, b) ∈ r) :=
  mem_closeUpper_aux cands cands r hr a b

/-- the invariant of the outer loop after the mids `P` have been processed -/
structure ClosureInv (cands : List Cand) (r0 r : List Pair) (P : List Cand) : Prop where
  irrefl : Irrefl r
  sound : ∀ a b, (a, b) ∈ r → Relation.TransGen (fun x y => (x, y) ∈ r0) a b
  base : ∀ p ∈ r0, p ∈ r
  inCands : ∀ a b, (a, b) ∈ r → a ∈ cands ∧ b ∈ cands
  trans : ∀ k ∈ P, ∀ a b, a ≠ b → (a, k) ∈ r → (k, b) ∈ r → (a, b) ∈ r

theorem closureInv_step {cands : List Cand} {r0 r : List Pair} {P : List Cand} (mid : Cand)
    (h : ClosureInv cands r0 r P) : ClosureInv cands r0 (closeUpper mid cands r) (mid :: P) := by
  have hm := mem_closeUpper (mid := mid) cands r h.irrefl
  refine ⟨?_, ?_, ?_, ?_, ?_⟩
  · rintro ⟨a, b⟩ hp
    rcases (hm a b).1 hp with h1 | ⟨_, _, h1, _, _⟩
    · exact h.irrefl _ h1
    · exact h1
  · intro a b hp
    rcases (hm a b).1 hp with h1 | ⟨_, _, _, h1, h2⟩
    · exact h.sound a b h1
    · exact Relation.TransGen.trans (h.sound _ _ h1) (h.sound _ _ h2)
  · rintro ⟨a, b⟩ hp
    exact (hm a b).2 (Or.inl (h.base _ hp))
  · intro a b hp
    rcases (hm a b).1 hp with h1 | ⟨h1, h2, _⟩
    · exact h.inCands a b h1
    · exact ⟨h1, h2⟩
  · intro k hk a b hab hak hkb
    rw [hm] at hak hkb ⊢
    have hirr : ∀ x, (x, x) ∉ r := fun x hx => h.irrefl _ hx rfl
    rcases List.mem_cons.1 hk with rfl | hkP
    · -- k = mid
      have h1 : (a, k) ∈ r := by
        rcases hak with h1 | ⟨_, _, _, _, h2⟩
        · exact h1
        · exact absurd h2 (hirr k)
      have h2 : (k, b) ∈ r := by
        rcases hkb with h2 | ⟨_, _, _, h2, _⟩
        · exact h2
        · exact absurd h2 (hirr k)
      exact Or.inr ⟨(h.inCands _ _ h1).1, (h.inCands _ _ h2).2, hab, h1, h2⟩
    · rcases hak with h1 | ⟨ha, _, _, h1, h1'⟩
      · rcases hkb with h2 | ⟨_, hb, _, h2, h2'⟩
        · exact Or.inl (h.trans k hkP a b hab h1 h2)
        · -- a → k, k → mid, mid → b
          by_cases ham : a = mid
          · subst ham; exact Or.inl h2'
          · exact Or.inr ⟨(h.inCands _ _ h1).1, hb, hab, h.trans k hkP a mid ham h1 h2, h2'⟩
      · rcases hkb with h2 | ⟨_, hb, _, h2, h2'⟩
        · -- a → mid, mid → k, k → b
          by_cases hbm : mid = b
          · subst hbm; exact Or.inl h1
          · exact Or.inr ⟨ha, (h.inCands _ _ h2).2, hab, h1, h.trans k hkP mid b hbm h1' h2⟩
        · exact Or.inr ⟨ha, hb, hab, h1, h2'⟩

theorem closureInv_fold {cands : List Cand} {r0 : List Pair} (mids : List Cand) (r : List Pair) (P : List Cand)
    (h : ClosureInv cands r0 r P) :
    ∃ P', (∀ k, k ∈ P' ↔ k ∈ mids ∨ k ∈ P) ∧
      ClosureInv cands r0 (mids.foldl (fun r mid => closeUpper mid cands r) r) P' := by
  induction mids generalizing r P with
  | nil => exact ⟨P, by simp, h⟩
  | cons m ms ih =>
    obtain ⟨P', hP', hinv⟩ := ih (closeUpper m cands r) (m :: P) (closureInv_step m h)
    refine ⟨P', ?_, hinv⟩
    intro k
    rw [hP']
    simp only [List.mem_cons]
    tauto

/-- **The closure loop computes reachability.**  For an irreflexive start relation over `cands`, the
    result of the loop L88-93 holds exactly the pairs of distinct candidates joined by a chain. -/
theorem mem_closure {cands : List Cand} {r0 : List Pair}
    (hirr : ∀ p ∈ r0, p.1 ≠ p.2) (hin : ∀ p ∈ r0, p.1 ∈ cands ∧ p.2 ∈ cands) (a b : Cand) :
    (a, b) ∈ closure cands r0 ↔ a ≠ b ∧ Relation.TransGen (fun x y => (x, y) ∈ r0) a b := by
  have h0 : ClosureInv cands r0 r0 [] :=
    ⟨hirr, fun a b h => Relation.TransGen.single h, fun p h => h, fun a b h => hin _ h, by simp⟩
  obtain ⟨P, hP, hinv⟩ := closureInv_fold cands r0 [] h0
  change (a, b) ∈ cands.foldl (fun r mid => closeUpper mid cands r) r0 ↔ _
  constructor
  · intro h
    exact ⟨hinv.irrefl _ h, hinv.sound a b h⟩
  · rintro ⟨hab, ht⟩
    induction ht with
    | single h => exact hinv.base _ h
    | @tail m c hbm hmc ih =>
      by_cases ham : a = m
      · subst ham; exact hinv.base _ hmc
      · have h1 := ih ham
        have hm : m ∈ P := (hP m).2 (Or.inl (hin _ hmc).1)
        exact hinv.trans m hm a c hab h1 (hinv.base _ hmc)

end VL.Condorcet
