/-
  C11: RelativeThreshold is scale invariant (shares are ratios of two vote quantities).
-/
import VotelibProofs.Lemmas.ScaleBasic
import VotelibModel.Threshold
namespace VL.Scale
open VL

theorem rel_threshold_passes_scale (k : Rat) (hk : 0 < k) (t : Rat) (eq : Bool) (total v : Rat) :
    Gen.Threshold.rel_threshold_passes t eq (k * total) (k * v) = Gen.Threshold.rel_threshold_passes t eq total v := by
  unfold Gen.Threshold.rel_threshold_passes
  have h : k * v / (k * total) = v / total := mul_div_mul_left v total (ne_of_gt hk)
  rw [h]

theorem relativeThreshold_scale (t : Rat) (eq : Bool) (k : Rat) (hk : 0 < k) (votes : Votes) :
    relativeThreshold t eq (scaleVotes k votes) = relativeThreshold t eq votes := by
  unfold relativeThreshold
  simp only [scaleVotes_isEmpty, sumVals_scale, sortDesc_scale k hk, mul_eq_zero, ne_of_gt hk, false_or]
  rw [filter_scale_keys k _ (fun p => Gen.Threshold.rel_threshold_passes t eq (sumVals votes) p.2)]
  intro p _
  exact rel_threshold_passes_scale k hk t eq (sumVals votes) p.2

end VL.Scale
