/-
  C10: the symmetric-candidates corollary.  If a renaming σ maps the election onto a reordering of itself (σ is a symmetry of
  the election — e.g. the transposition of two candidates in perfectly symmetric positions), then order independence plus
  renaming equivariance make the outcome σ-invariant: `c` is elected iff `σ c` is, `c` is in the reported tie iff `σ c` is,
  `c` and `σ c` hold the same number of seats.
-/
import VotelibProofs.Lemmas.PermRules
import VotelibProofs.Lemmas.RenameQuota
import VotelibProofs.Lemmas.HAPerm
namespace VL.Perm
open VL VL.C10

/-- individually elected -/
def Elected (c : Cand) (r : List Slot) : Prop := Slot.cand c ∈ r
/-- member of a tie reported in the result -/
def InTie (c : Cand) (r : List Slot) : Prop := ∃ T, Slot.tie T ∈ r ∧ c ∈ T

theorem elected_equiv {r₁ r₂ : List Slot} (h : SlotsEquiv r₁ r₂) (c : Cand) : Elected c r₁ ↔ Elected c r₂ := by
  obtain ⟨e₁, e₂, T₁, T₂, m, h1, h2, he, _⟩ := h
  subst h1 h2
  unfold Elected
  simp only [List.mem_append, List.mem_map, List.mem_replicate, Slot.cand.injEq, exists_eq_right, reduceCtorEq, and_false, or_false]
  exact he.mem_iff

theorem inTie_equiv {r₁ r₂ : List Slot} (h : SlotsEquiv r₁ r₂) (c : Cand) : InTie c r₁ ↔ InTie c r₂ := by
  obtain ⟨e₁, e₂, T₁, T₂, m, h1, h2, _, hT⟩ := h
  subst h1 h2
  unfold InTie
  simp only [List.mem_append, List.mem_map, List.mem_replicate, reduceCtorEq, and_false, exists_false, false_or, Slot.tie.injEq]
  constructor
  · rintro ⟨T, ⟨hm, rfl⟩, hc⟩; exact ⟨T₂, ⟨hm, rfl⟩, hT.mem_iff.mp hc⟩
  · rintro ⟨T, ⟨hm, rfl⟩, hc⟩; exact ⟨T₁, ⟨hm, rfl⟩, hT.mem_iff.mpr hc⟩

theorem elected_ren (σ : Cand → Cand) (hσ : Function.Injective σ) (r : List Slot) (c : Cand) :
    Elected (σ c) (r.map (renSlot σ)) ↔ Elected c r := by
  unfold Elected
  rw [List.mem_map]
  constructor
  · rintro ⟨s, hs, he⟩
    cases s with
    | cand d => simp only [renSlot, Slot.cand.injEq] at he; rw [← hσ he]; exact hs
    | tie T => simp [renSlot] at he
  · intro h; exact ⟨Slot.cand c, h, rfl⟩

theorem inTie_ren (σ : Cand → Cand) (hσ : Function.Injective σ) (r : List Slot) (c : Cand) :
    InTie (σ c) (r.map (renSlot σ)) ↔ InTie c r := by
  unfold InTie
  constructor
  · rintro ⟨T, hT, hc⟩
    obtain ⟨s, hs, he⟩ := List.mem_map.1 hT
    cases s with
    | cand d => simp [renSlot] at he
    | tie T' =>
      simp only [renSlot, Slot.tie.injEq] at he
      subst he
      obtain ⟨c', hc', e⟩ := List.mem_map.1 hc
      rw [← hσ e]; exact ⟨T', hs, hc'⟩
  · rintro ⟨T, hT, hc⟩
    exact ⟨T.map σ, List.mem_map.2 ⟨Slot.tie T, hT, rfl⟩, List.mem_map.2 ⟨c, hc, rfl⟩⟩

/-- the generic step: an outcome that is equivalent to the outcome of the renamed election, which in turn is the renamed
    outcome, treats `c` and `σ c` alike -/
theorem symmetric_of_chain (σ : Cand → Cand) (hσ : Function.Injective σ) {r r' : List Slot}
    (h1 : SlotsEquiv r' r) (h2 : SlotsEquiv r' (r.map (renSlot σ))) (c : Cand) :
    (Elected (σ c) r ↔ Elected c r) ∧ (InTie (σ c) r ↔ InTie c r) :=
  ⟨by rw [← elected_equiv h1, elected_equiv h2, elected_ren σ hσ], by rw [← inTie_equiv h1, inTie_equiv h2, inTie_ren σ hσ]⟩

/-! ### positional rules and approval voting -/

/-- **Symmetric candidates under a positional rule**: if renaming by σ only reorders the ballots, `c` and `σ c` are both
    elected or both not, and both in the reported tie or both not -/
theorem positionalRule_symmetric (σ : Cand → Cand) (hσ : Function.Injective σ) (sc : Convert.Scorer) (p : Convert.RProfile)
    (hwf : RankedWF p) (hs : C13.ScorerOK sc (Convert.allRankedCandidates p).length p)
    (hsym : (renRProfile σ p).Perm p) (n : Nat) (r : List Slot) (hr : PreConv.positionalRule sc p n = .ok r) (c : Cand) :
    (Elected (σ c) r ↔ Elected c r) ∧ (InTie (σ c) r ↔ InTie c r) := by
  have hs' : C13.ScorerOK sc (Convert.allRankedCandidates (renRProfile σ p)).length (renRProfile σ p) := by
    rw [(allRankedCandidates_perm hsym).length_eq]
    intro bw hbw; exact hs bw (hsym.mem_iff.mp hbw)
  have h1 := positionalRule_perm sc hsym hs' n
  have h2 := positionalRule_ren σ hσ sc p hwf hs n
  rw [hr] at h1 h2
  cases hr' : PreConv.positionalRule sc (renRProfile σ p) n with
  | error e => rw [hr'] at h1; exact h1.elim
  | ok r' =>
    rw [hr'] at h1 h2
    exact symmetric_of_chain σ hσ h1 h2 c

/-- **Symmetric candidates under approval voting (AV, SAV)** -/
theorem approvalRule_symmetric (σ : Cand → Cand) (hσ : Function.Injective σ) (split : Bool) (p : Convert.AProfile)
    (hwf : ∀ bw ∈ p, bw.1.Nodup) (hsym : (renAProfile σ p).Perm p) (n : Nat) (r : List Slot)
    (hr : PreConv.approvalRule split p n = .ok r) (c : Cand) :
    (Elected (σ c) r ↔ Elected c r) ∧ (InTie (σ c) r ↔ InTie c r) := by
  have h1 := approvalRule_perm split hsym n
  have h2 := approvalRule_ren σ hσ split p hwf n
  rw [hr] at h1 h2
  cases hr' : PreConv.approvalRule split (renAProfile σ p) n with
  | error e => rw [hr'] at h1; exact h1.elim
  | ok r' =>
    rw [hr'] at h1 h2
    exact symmetric_of_chain σ hσ h1 h2 c

/-! ### largest remainder -/

/-- **Symmetric parties under LargestRemainder** hold the same number of seats (no previous gains, no caps) -/
theorem largestRemainder_symmetric (σ : Cand → Cand) (hσ : Function.Injective σ) (cfg : QD.Cfg) (hpol : cfg.onOver ≠ .subtract)
    (v : Votes) (hnd : (v.map (·.1)).Nodup) (hsym : (renVotes σ v).Perm v) (n : Nat) (r : QD.Sel)
    (hr : QD.largestRemainder cfg v n [] [] = .ok r) (c : Cand) :
    look r (.cand (σ c)) = look r (.cand c) := by
  have hnd' := keys_nodup_ren σ hσ v hnd
  have h1 := largestRemainder_perm cfg hpol hsym hnd' n [] [] List.nodup_nil
  have h2 := largestRemainder_ren σ hσ cfg hpol v hnd n [] [] List.nodup_nil
  have hnil : renI σ [] = [] := rfl
  rw [hnil] at h2
  rw [h2, hr] at h1
  have h1' : DistEquiv (renSel σ r) r := h1
  rw [← h1' (.cand (σ c))]
  have := look_renSel σ r (.cand c) (fun k' _ e => by
    cases k' with
    | cand d => simp only [renKey, Key.cand.injEq] at e; rw [hσ e]
    | tie T => simp [renKey, QD.mkTie] at e)
  simpa [renKey] using this

/-! ### highest averages -/

/-- **Symmetric parties under a highest-averages method** hold the same number of seats (no previous gains, no caps) -/
theorem ha_symmetric (σ : Cand → Cand) (hσ : Function.Injective σ) (cfg : HACfg) (hprev : cfg.prev = []) (hcaps : cfg.caps = [])
    (hn : (keys cfg.votes).Nodup) (hsym : cfg.votes.Perm (renVotes σ cfg.votes)) (c : Cand) :
    haSeats cfg (σ c) = haSeats cfg c := by
  have hren : cfg.rename σ = cfg.reorder (renVotes σ cfg.votes) := by
    unfold HACfg.rename HACfg.reorder
    rw [hprev, hcaps]; rfl
  rw [← haSeats_ren cfg σ hσ c, hren, haSeats_perm cfg _ hsym hn]

end VL.Perm
