/-
  Continuing a Hare largest-remainder distribution from a sub-allocation (model `lrHareEval`): generic facts about
  `getNBest`, then the exchange argument.  Imports b02's Lemmas/QuotaDist read-only for the getNBest helpers.
-/
import VotelibProofs.Lemmas.OverhangLR
import VotelibProofs.Lemmas.QuotaDist
namespace VL.OH
open VL

/-! ### facts about `getNBest` (beyond Props/C09 and Lemmas/QuotaDist) -/

def isTieSlot : Slot → Bool
  | .tie _ => true
  | .cand _ => false

theorem cntGe_eq_cntGt_add_level (votes : Votes) (t : Rat) :
    cntGe votes t = cntGt votes t + (level votes t).length := by
  unfold cntGe cntGt level
  rw [List.length_map]
  induction votes with
  | nil => rfl
  | cons x xs ih =>
    rcases lt_trichotomy t x.2 with h | h | h
    · have h1 : t ≤ x.2 := le_of_lt h
      have h2 : ¬ x.2 = t := fun e => absurd h (by rw [e]; exact lt_irrefl _)
      rw [List.filter_cons_of_pos (by simpa using h1), List.filter_cons_of_pos (by simpa using h),
        List.filter_cons_of_neg (by simpa using h2)]
      simp only [List.length_cons]
      omega
    · have h1 : t ≤ x.2 := le_of_eq h
      have h2 : ¬ t < x.2 := by rw [h]; exact lt_irrefl _
      have h3 : x.2 = t := h.symm
      rw [List.filter_cons_of_pos (by simpa using h1), List.filter_cons_of_neg (by simpa using h2),
        List.filter_cons_of_pos (by simpa using h3)]
      simp only [List.length_cons]
      omega
    · have h1 : ¬ t ≤ x.2 := not_le.mpr h
      have h2 : ¬ t < x.2 := fun e => absurd (lt_trans e h) (lt_irrefl _)
      have h3 : ¬ x.2 = t := fun e => absurd h (by rw [e]; exact lt_irrefl _)
      rw [List.filter_cons_of_neg (by simpa using h1), List.filter_cons_of_neg (by simpa using h2),
        List.filter_cons_of_neg (by simpa using h3)]
      exact ih

/-- without a `Tie` among the places, whoever is elected has strictly more than whoever is not -/
theorem elected_gt_unelected_of_no_tie (votes : Votes) (hnd : (votes.map (·.1)).Nodup) (n : Nat)
    (hnt : ∀ s ∈ getNBest votes n, isTieSlot s = false)
    (p p' : Cand × Rat) (hp : p ∈ votes) (hp' : p' ∈ votes)
    (he : Slot.cand p.1 ∈ getNBest votes n) (hne : Slot.cand p'.1 ∉ getNBest votes n) : p'.2 < p.2 := by
  rcases Nat.eq_zero_or_pos n with rfl | hpos
  · rw [QD.getNBest_zero] at he; cases he
  · rcases Nat.lt_or_ge n votes.length with hlt | hge
    · obtain ⟨t, ht⟩ := nth_exists votes n hpos (le_of_lt hlt)
      rcases Nat.lt_or_ge n (cntGe votes t) with hno | hfit
      · exfalso
        have hmem : Slot.tie (level votes t) ∈ getNBest votes n := by
          rw [C09.getNBest_tie votes n hpos hlt t ht hno]
          apply List.mem_append_right
          rw [List.mem_replicate]
          exact ⟨by have := ht.2.1; omega, rfl⟩
        have := hnt _ hmem
        simp [isTieSlot] at this
      · have h1 : ¬ p.2 < t := fun hlt' => (C09.below_never_elected votes hnd n hpos hlt t ht p hp hlt').1 he
        have h2 : ¬ t < p'.2 := fun hgt => hne (C09.strictly_above_elected votes n hpos (le_of_lt hlt) t ht p' hp' hgt)
        have h3 : ¬ p'.2 = t := fun heq => hne (C09.level_all_elected votes n hpos hlt t ht hfit p' hp' heq)
        rcases lt_trichotomy p'.2 t with h | h | h
        · exact lt_of_lt_of_le h (not_lt.mp h1)
        · exact absurd h h3
        · exact absurd h h2
    · exfalso
      apply hne
      rw [getNBest_all votes n hge]
      exact List.mem_map.mpr ⟨p', mem_sortDesc.mpr hp', rfl⟩

/-- the shape of a result with a `Tie`: the level set of the cut value does not fit; everybody strictly above is
    elected individually, nobody at or below is; all `Tie` places carry the same object -/
theorem tie_case (votes : Votes) (hnd : (votes.map (·.1)).Nodup) (n : Nat) (T : List Cand)
    (h : Slot.tie T ∈ getNBest votes n) :
    ∃ t, T = level votes t ∧ (getNBest votes n).count (Slot.tie T) < T.length ∧
      (getNBest votes n).countP isTieSlot = (getNBest votes n).count (Slot.tie T) ∧
      (∀ p ∈ votes, t < p.2 → Slot.cand p.1 ∈ getNBest votes n) ∧
      (∀ p ∈ votes, p.2 ≤ t → Slot.cand p.1 ∉ getNBest votes n) := by
  obtain ⟨t, ht, hno, hT, hcount⟩ := QD.tie_mem_getNBest votes n T h
  have hpos : 1 ≤ n := by
    rcases Nat.eq_zero_or_pos n with rfl | hp
    · rw [QD.getNBest_zero] at h; cases h
    · exact hp
  have hlt : n < votes.length := by
    have : cntGe votes t ≤ votes.length := by unfold cntGe; exact List.length_filter_le _ _
    omega
  refine ⟨t, hT, ?_, ?_, ?_, ?_⟩
  · rw [hcount, hT]
    have := cntGe_eq_cntGt_add_level votes t
    have := ht.2.1
    omega
  · rw [C09.getNBest_tie votes n hpos hlt t ht hno, hT]
    rw [List.countP_append, List.count_append]
    have h1 : ((aboveSorted votes t).map (fun p => Slot.cand p.1)).countP isTieSlot = 0 := by
      rw [List.countP_eq_zero]
      intro s hs
      obtain ⟨x, _, rfl⟩ := List.mem_map.mp hs
      simp [isTieSlot]
    have h2 : ((aboveSorted votes t).map (fun p => Slot.cand p.1)).count (Slot.tie (level votes t)) = 0 := by
      rw [List.count_eq_zero]; intro hm
      obtain ⟨x, _, hx⟩ := List.mem_map.mp hm; cases hx
    rw [h1, h2, List.count_replicate_self, List.countP_replicate]
    simp [isTieSlot]
  · intro p hp hgt
    exact C09.strictly_above_elected votes n hpos (le_of_lt hlt) t ht p hp hgt
  · intro p hp hle
    exact C09.not_above_not_elected_in_tie votes hnd n hpos hlt t ht hno p hp hle

/-- places = individual winners (one per party at most) + `Tie` places -/
theorem slot_count (votes : Votes) (hnd : (votes.map (·.1)).Nodup) (best : List Slot)
    (hk : ∀ c, Slot.cand c ∈ best → c ∈ votes.map (·.1)) :
    best.length = (votes.map (fun p => best.count (Slot.cand p.1))).sum + best.countP isTieSlot := by
  have hone : ∀ (l : Votes), (l.map (·.1)).Nodup → ∀ c, c ∈ l.map (·.1) →
      (l.map (fun p => if c = p.1 then 1 else 0)).sum = 1 := by
    intro l
    induction l with
    | nil => intro _ c hc; simp at hc
    | cons x xs ih =>
      intro hl c hc
      rw [List.map_cons, List.nodup_cons] at hl
      simp only [List.map_cons, List.sum_cons]
      by_cases hx : c = x.1
      · subst hx
        have : (xs.map (fun p => if x.1 = p.1 then 1 else 0)).sum = 0 := by
          rw [List.sum_eq_zero_iff]
          intro v hv
          obtain ⟨p, hp, rfl⟩ := List.mem_map.mp hv
          have : ¬ x.1 = p.1 := fun e => hl.1 (e ▸ List.mem_map.mpr ⟨p, hp, rfl⟩)
          rw [if_neg this]
        rw [this, if_pos rfl]
      · have hc' : c ∈ xs.map (·.1) := by
          simp only [List.map_cons, List.mem_cons] at hc
          rcases hc with h | h
          · exact absurd h hx
          · exact h
        rw [ih hl.2 c hc', if_neg hx]
  induction best with
  | nil => simp
  | cons s rest ih =>
    have ih' := ih (fun c hc => hk c (List.mem_cons_of_mem _ hc))
    simp only [List.length_cons, List.count_cons, List.countP_cons]
    have hsplit : (votes.map (fun p => List.count (Slot.cand p.1) rest + if s == Slot.cand p.1 then 1 else 0)).sum
        = (votes.map (fun p => List.count (Slot.cand p.1) rest)).sum
          + (votes.map (fun p => if s == Slot.cand p.1 then 1 else 0)).sum := List.sum_map_add
    rw [hsplit]
    cases s with
    | tie T =>
      have : (votes.map (fun p => if Slot.tie T == Slot.cand p.1 then 1 else 0)).sum = 0 := by
        rw [List.sum_eq_zero_iff]
        intro v hv
        obtain ⟨p, _, rfl⟩ := List.mem_map.mp hv
        simp
      rw [this]
      simp only [isTieSlot, if_true]
      omega
    | cand c =>
      have hc := hk c List.mem_cons_self
      have h1 := hone votes hnd c hc
      have : (votes.map (fun p => if Slot.cand c == Slot.cand p.1 then 1 else 0)).sum = 1 := by
        have e : votes.map (fun p => if Slot.cand c == Slot.cand p.1 then 1 else 0)
            = votes.map (fun p => if c = p.1 then 1 else 0) := by
          apply List.map_congr_left
          intro p _
          by_cases hcp : c = p.1
          · rw [if_pos hcp, if_pos (by rw [hcp]; exact beq_self_eq_true _)]
          · rw [if_neg hcp, if_neg (by simpa using hcp)]
        rw [e, h1]
      rw [this]
      simp only [isTieSlot]
      simp only [Bool.false_eq_true, if_false]
      omega

/-! ### the pieces of `lrHareEval` -/

def lrQ (votes : Votes) (N : Nat) : Rat := sumVals votes / (N : Rat)
def lrQe (votes : Votes) (N : Nat) (prev : Seats) : Seats := votes.filterMap (hareAdd (lrQ votes N) prev)
/-- `gained_prerem.get(c, 0)` -/
def lrGained (votes : Votes) (N : Nat) (prev : Seats) (c : Cand) : Nat :=
  natLookup (lrQe votes N prev) c 0 + natLookup prev c 0
def lrRems (votes : Votes) (N : Nat) (prev : Seats) : Votes :=
  votes.map (fun p => (p.1, p.2 / lrQ votes N - (lrGained votes N prev p.1 : Nat)))
def lrNRem (votes : Votes) (N : Nat) (prev : Seats) : Nat := N - (sumSeats (lrQe votes N prev) + sumSeats prev)
def lrBest (votes : Votes) (N : Nat) (prev : Seats) : List Slot := getNBest (lrRems votes N prev) (lrNRem votes N prev)

theorem lrHare_result (votes : Votes) (N : Nat) (prev : Seats) (r : Dist) (h : lrHareEval votes N prev [] = .ok r) :
    r = (lrBest votes N prev).foldl incSlot (seatsToDist (lrQe votes N prev)) ∧ N ≠ 0 ∧
      sumSeats (lrQe votes N prev) + sumSeats prev ≤ N ∧
      (∀ p ∈ votes, (lrQ votes N < p.2 ∨ p.2 = lrQ votes N) → lrQ votes N ≠ 0) := by
  unfold lrHareEval at h
  simp only [ne_eq, not_true_eq_false, ↓reduceIte, bind, Except.bind] at h
  cases hqe : hareQuotaSeats votes N prev with
  | error e => rw [hqe] at h; simp at h
  | ok qe =>
    rw [hqe] at h
    simp only at h
    obtain ⟨hn0, _, hqe⟩ := hareQuotaSeats_ok votes N prev qe hqe
    by_cases hn0' : N = 0
    · exact absurd hn0' hn0
    · obtain ⟨hqeq, hqne⟩ := hareQuota_foldl (sumVals votes / (N : Rat)) prev votes [] qe hqe
      rw [List.nil_append] at hqeq
      by_cases hover : N < sumSeats qe + sumSeats prev
      · rw [if_pos hover] at h; simp at h
      · rw [if_neg hover] at h
        simp only [pure, Except.pure, Except.ok.injEq] at h
        subst hqeq
        refine ⟨?_, hn0, by unfold lrQe lrQ; omega, hqne⟩
        rw [← h]
        unfold lrBest lrNRem lrRems lrGained lrQe lrQ
        by_cases hrem : N - (sumSeats (votes.filterMap (hareAdd (sumVals votes / (N : Rat)) prev)) + sumSeats prev) = 0
        · rw [if_pos hrem, hrem, QD.getNBest_zero]
        · rw [if_neg hrem]

theorem distGet_incSlot_cand (acc : Dist) (s : Slot) (c : Cand) :
    distGet (incSlot acc s) (.cand c) = distGet acc (.cand c) + (if s = Slot.cand c then 1 else 0) := by
  cases s with
  | cand c' =>
    simp only [incSlot]
    rw [distGet_setK]
    by_cases h : c' = c
    · subst h; simp
    · have : ¬ Key.cand c' = Key.cand c := fun e => h (by injection e)
      have h2 : ¬ Slot.cand c' = Slot.cand c := fun e => h (by injection e)
      rw [if_neg this, if_neg h2]; rfl
  | tie cs =>
    simp only [incSlot]
    rw [distGet_setK]
    have : ¬ Key.tie (sortNat cs) = Key.cand c := fun e => by cases e
    have h2 : ¬ Slot.tie cs = Slot.cand c := fun e => by cases e
    rw [if_neg this, if_neg h2]; rfl

theorem distGet_foldl_incSlot_cand (best : List Slot) (qd : Dist) (c : Cand) :
    distGet (best.foldl incSlot qd) (.cand c) = distGet qd (.cand c) + best.count (Slot.cand c) := by
  induction best generalizing qd with
  | nil => simp
  | cons x xs ih =>
    rw [List.foldl_cons, ih, distGet_incSlot_cand, List.count_cons]
    by_cases h : x = Slot.cand c
    · rw [if_pos h, if_pos (by rw [h]; exact beq_self_eq_true _)]; omega
    · rw [if_neg h, if_neg (by simpa using h)]; omega

/-- seats held before the remainder stage: the larger of the whole quotas and the previous gains -/
theorem hareContrib_add_prev (q : Rat) (hq : 0 < q) (prev : Seats) (p : Cand × Rat) (hp : 0 ≤ p.2) :
    ((hareContrib q prev p + natLookup prev p.1 0 : Nat) : Int) = max ⌊p.2 / q⌋ ((natLookup prev p.1 0 : Nat) : Int) := by
  have hdiv : 0 ≤ p.2 / q := div_nonneg hp (le_of_lt hq)
  have hfl : 0 ≤ ⌊p.2 / q⌋ := Int.floor_nonneg.mpr hdiv
  unfold hareContrib hareAdd
  by_cases hful : q < p.2 ∨ p.2 = q
  · rw [if_pos hful]
    simp only
    rw [pyInt_nonneg_eq_floor _ hdiv]
    by_cases hadd : 0 < ⌊p.2 / q⌋ - ((natLookup prev p.1 0 : Nat) : Int)
    · rw [if_pos hadd]; simp only; push_cast; omega
    · rw [if_neg hadd]; simp only; push_cast; omega
  · rw [if_neg hful]
    simp only
    have hlt : p.2 / q < 1 := by
      rw [div_lt_one hq]
      rcases lt_trichotomy p.2 q with h | h | h
      · exact h
      · exact absurd (Or.inr h) hful
      · exact absurd (Or.inl h) hful
    have : ⌊p.2 / q⌋ < 1 := by rw [Int.floor_lt]; exact_mod_cast hlt
    push_cast
    omega

theorem sum_lt_of_le_of_lt' {α : Type} (L : List α) (f g : α → Nat) (hle : ∀ c ∈ L, f c ≤ g c) (c : α) (hc : c ∈ L)
    (hlt : f c < g c) : (L.map f).sum < (L.map g).sum := by
  induction L with
  | nil => simp at hc
  | cons x xs ih =>
    simp only [List.map_cons, List.sum_cons]
    have hx := hle x List.mem_cons_self
    have hrest : (xs.map f).sum ≤ (xs.map g).sum := List.sum_le_sum (fun i hi => hle i (List.mem_cons_of_mem _ hi))
    rcases List.mem_cons.mp hc with rfl | hc'
    · omega
    · have := ih (fun i hi => hle i (List.mem_cons_of_mem _ hi)) hc'
      omega

theorem filter_length_le_sum {α : Type} (L : List α) (P : α → Bool) (h : α → Nat)
    (hP : ∀ x ∈ L, P x = true → 1 ≤ h x) : (L.filter P).length ≤ (L.map h).sum := by
  induction L with
  | nil => simp
  | cons x xs ih =>
    have ih' := ih (fun y hy => hP y (List.mem_cons_of_mem _ hy))
    simp only [List.map_cons, List.sum_cons]
    by_cases hx : P x = true
    · rw [List.filter_cons_of_pos hx, List.length_cons]
      have := hP x List.mem_cons_self hx
      omega
    · rw [List.filter_cons_of_neg hx]
      omega

theorem lrRems_keys (votes : Votes) (N : Nat) (prev : Seats) : (lrRems votes N prev).map (·.1) = votes.map (·.1) := by
  unfold lrRems; rw [List.map_map]; rfl

theorem lrGained_eq (votes : Votes) (hn : (keys votes).Nodup) (N : Nat) (prev : Seats) (p : Cand × Rat) (hp : p ∈ votes) :
    lrGained votes N prev p.1 = hareContrib (lrQ votes N) prev p + natLookup prev p.1 0 := by
  unfold lrGained lrQe
  rw [natLookup_filterMap_hareAdd _ _ _ hn p hp]

/-- what a party receives: whole quotas beyond the previous gains, plus a remainder seat if it wins one -/
theorem lrHare_get (votes : Votes) (hn : (keys votes).Nodup) (N : Nat) (prev : Seats) (r : Dist)
    (h : lrHareEval votes N prev [] = .ok r) (p : Cand × Rat) (hp : p ∈ votes) :
    distGet r (.cand p.1) = hareContrib (lrQ votes N) prev p + (lrBest votes N prev).count (Slot.cand p.1) := by
  obtain ⟨hr, _, _, _⟩ := lrHare_result votes N prev r h
  rw [hr, distGet_foldl_incSlot_cand, distGet_seatsToDist]
  unfold lrQe
  rw [natLookup_filterMap_hareAdd _ _ _ hn p hp]

theorem lrBest_length (votes : Votes) (hne : votes ≠ []) (hv : ∀ p ∈ votes, 0 ≤ p.2) (hn : (keys votes).Nodup)
    (N : Nat) (prev : Seats) (r : Dist) (h : lrHareEval votes N prev [] = .ok r) :
    sumSeats (lrQe votes N prev) + sumSeats prev + (lrBest votes N prev).length = N := by
  have hf := lrHare_fills votes hne hv hn N prev r h
  obtain ⟨hr, _, _, _⟩ := lrHare_result votes N prev r h
  rw [hr, sumDist_foldl_slots, sumDist_seatsToDist] at hf
  omega

theorem lrQ_pos (votes : Votes) (hne : votes ≠ []) (hv : ∀ p ∈ votes, 0 ≤ p.2) (N : Nat) (prev : Seats) (r : Dist)
    (h : lrHareEval votes N prev [] = .ok r) : 0 < lrQ votes N := by
  obtain ⟨_, hN, _, hqne⟩ := lrHare_result votes N prev r h
  have hTnn : 0 ≤ sumVals votes := by
    rw [sumVals_eq]
    apply List.sum_nonneg
    intro x hx
    obtain ⟨p, hp, rfl⟩ := List.mem_map.mp hx
    exact hv p hp
  have hnpos : (0 : Rat) < N := by exact_mod_cast Nat.pos_of_ne_zero hN
  have hq0 : 0 ≤ lrQ votes N := div_nonneg hTnn (le_of_lt hnpos)
  rcases lt_or_eq_of_le hq0 with hlt | heq
  · exact hlt
  · exfalso
    obtain ⟨p0, hp0⟩ := List.exists_mem_of_ne_nil _ hne
    have hp0nn := hv p0 hp0
    have : lrQ votes N < p0.2 ∨ p0.2 = lrQ votes N := by
      rw [← heq]
      rcases lt_or_eq_of_le hp0nn with h1 | h1
      · exact Or.inl h1
      · exact Or.inr h1.symm
    exact hqne p0 hp0 this heq.symm

/-! ### the exchange argument -/

/-- whole Hare quotas of a party -/
def lrF (votes : Votes) (N : Nat) (p : Cand × Rat) : Int := ⌊p.2 / lrQ votes N⌋
/-- seats held before the remainder stage -/
def lrG (votes : Votes) (N : Nat) (prev : Seats) (p : Cand × Rat) : Nat :=
  hareContrib (lrQ votes N) prev p + natLookup prev p.1 0
/-- 1 if the party wins a remainder seat individually -/
def lrW (votes : Votes) (N : Nat) (prev : Seats) (p : Cand × Rat) : Nat :=
  (lrBest votes N prev).count (Slot.cand p.1)
/-- total after the continued run / after the from-scratch run -/
def lrA (prev : Seats) (rP : Dist) (p : Cand × Rat) : Nat := natLookup prev p.1 0 + distGet rP (.cand p.1)
def lrTot (r0 : Dist) (p : Cand × Rat) : Nat := distGet r0 (.cand p.1)

theorem lrW_def (votes : Votes) (N : Nat) (prev : Seats) (p : Cand × Rat) :
    lrW votes N prev p = (lrBest votes N prev).count (Slot.cand p.1) := rfl
theorem lrG_def (votes : Votes) (N : Nat) (prev : Seats) (p : Cand × Rat) :
    lrG votes N prev p = hareContrib (lrQ votes N) prev p + natLookup prev p.1 0 := rfl
theorem lrA_def (prev : Seats) (rP : Dist) (p : Cand × Rat) :
    lrA prev rP p = natLookup prev p.1 0 + distGet rP (.cand p.1) := rfl
theorem lrTot_def (r0 : Dist) (p : Cand × Rat) : lrTot r0 p = distGet r0 (.cand p.1) := rfl

/-- **Continuation from a sub-allocation, Hare largest remainder.** -/
theorem lr_continue (votes : Votes) (hne : votes ≠ []) (hv : ∀ p ∈ votes, 0 ≤ p.2) (hn : (keys votes).Nodup)
    (N : Nat) (prev : Seats) (hpn : (prev.map (·.1)).Nodup) (hpk : ∀ p ∈ prev, p.1 ∈ keys votes)
    (rP r0 : Dist) (hP : lrHareEval votes N prev [] = .ok rP) (h0 : lrHareEval votes N [] [] = .ok r0)
    (hnt0 : ∀ s ∈ lrBest votes N [], isTieSlot s = false)
    (hle : ∀ p ∈ votes, natLookup prev p.1 0 ≤ distGet r0 (.cand p.1)) :
    (∀ p ∈ votes, natLookup prev p.1 0 + distGet rP (.cand p.1) = distGet r0 (.cand p.1)) ∧
    (∀ s ∈ lrBest votes N prev, isTieSlot s = false) := by
  have hq : 0 < lrQ votes N := lrQ_pos votes hne hv N prev rP hP
  have hkn : (votes.map (·.1)).Nodup := hn
  have hF0 : ∀ p ∈ votes, 0 ≤ lrF votes N p := fun p hp => Int.floor_nonneg.mpr (div_nonneg (hv p hp) (le_of_lt hq))
  have hFle : ∀ p : Cand × Rat, ((lrF votes N p : Int) : Rat) ≤ p.2 / (lrQ votes N) := fun p => Int.floor_le _
  have hFlt : ∀ p : Cand × Rat, p.2 / (lrQ votes N) < ((lrF votes N p : Int) : Rat) + 1 := fun p => Int.lt_floor_add_one _
  have hG : ∀ p ∈ votes, ((lrG votes N prev p : Nat) : Int) = max (lrF votes N p) ((natLookup prev p.1 0 : Nat) : Int) :=
    fun p hp => hareContrib_add_prev (lrQ votes N) hq prev p (hv p hp)
  have hC0 : ∀ p ∈ votes, ((lrG votes N [] p : Nat) : Int) = lrF votes N p := by
    intro p hp
    have := hareContrib_add_prev (lrQ votes N) hq [] p (hv p hp)
    have h0' : natLookup ([] : Seats) p.1 0 = 0 := rfl
    rw [h0'] at this
    have hf := hF0 p hp
    simp only [Nat.add_zero] at this
    show ((hareContrib (lrQ votes N) [] p : Nat) : Int) = lrF votes N p
    rw [this]
    show max (lrF votes N p) ((0 : Nat) : Int) = lrF votes N p
    simp only [Nat.cast_zero]
    exact max_eq_left hf
  have ha : ∀ p ∈ votes, lrA prev rP p = lrG votes N prev p + lrW votes N prev p := by
    intro p hp
    rw [lrA_def, lrG_def, lrW_def, lrHare_get votes hn N prev rP hP p hp]
    omega
  have hf : ∀ p ∈ votes, lrTot r0 p = lrG votes N [] p + lrW votes N [] p := fun p hp => lrHare_get votes hn N [] r0 h0 p hp
  have hwP : ∀ p : Cand × Rat, lrW votes N prev p ≤ 1 := fun p =>
    QD.count_cand_getNBest_le_one _ (by rw [lrRems_keys]; exact hkn) _ _
  have hw0 : ∀ p : Cand × Rat, lrW votes N [] p ≤ 1 := fun p =>
    QD.count_cand_getNBest_le_one _ (by rw [lrRems_keys]; exact hkn) _ _
  -- entries of the remainder lists
  have hremP : ∀ p ∈ votes, (p.1, p.2 / (lrQ votes N) - ((lrG votes N prev p : Nat) : Rat)) ∈ lrRems votes N prev := by
    intro p hp
    unfold lrRems
    refine List.mem_map.mpr ⟨p, hp, ?_⟩
    rw [lrGained_eq votes hn N prev p hp]
    rfl
  have hrem0 : ∀ p ∈ votes, (p.1, p.2 / (lrQ votes N) - ((lrG votes N [] p : Nat) : Rat)) ∈ lrRems votes N [] := by
    intro p hp
    unfold lrRems
    refine List.mem_map.mpr ⟨p, hp, ?_⟩
    rw [lrGained_eq votes hn N [] p hp]
    rfl
  have helP : ∀ p : Cand × Rat, lrW votes N prev p = 1 ↔ Slot.cand p.1 ∈ lrBest votes N prev := by
    intro p
    constructor
    · intro h1
      have h2 : 0 < lrW votes N prev p := by omega
      exact List.count_pos_iff.mp h2
    · intro hm
      have h1 : 0 < lrW votes N prev p := List.count_pos_iff.mpr hm
      have := hwP p; omega
  have hel0 : ∀ p : Cand × Rat, lrW votes N [] p = 1 ↔ Slot.cand p.1 ∈ lrBest votes N [] := by
    intro p
    constructor
    · intro h1
      have h2 : 0 < lrW votes N [] p := by omega
      exact List.count_pos_iff.mp h2
    · intro hm
      have h1 : 0 < lrW votes N [] p := List.count_pos_iff.mpr hm
      have := hw0 p; omega
  -- sums
  have hsumprev : sumSeats prev = (votes.map (fun p => natLookup prev p.1 0)).sum := by
    rw [sumSeats_eq_lookup prev hpn]
    have := sum_eq_of_support (keys votes) (prev.map (·.1)) hn hpn
      (fun c hc => by obtain ⟨p, hp, rfl⟩ := List.mem_map.mp hc; exact hpk p hp)
      (fun c => natLookup prev c 0) (fun c _ hc => natLookup_zero_of_not_mem prev c hc)
    rw [← this]
    unfold keys
    rw [List.map_map]
    rfl
  have hsumG : (votes.map (lrG votes N prev)).sum = sumSeats (lrQe votes N prev) + sumSeats prev := by
    have : (votes.map (lrG votes N prev)).sum = (votes.map (hareContrib (lrQ votes N) prev)).sum + (votes.map (fun p => natLookup prev p.1 0)).sum := List.sum_map_add
    rw [this, hsumprev]
    unfold lrQe
    rw [sumSeats_filterMap_hareAdd]
  have hsumC0 : (votes.map (lrG votes N [])).sum = sumSeats (lrQe votes N []) := by
    unfold lrQe
    rw [sumSeats_filterMap_hareAdd]
    apply congrArg
    apply List.map_congr_left
    intro p _
    rfl
  have hlenP := lrBest_length votes hne hv hn N prev rP hP
  have hlen0 := lrBest_length votes hne hv hn N [] r0 h0
  have hslotP := slot_count votes hkn (lrBest votes N prev) (fun c hc => by
    obtain ⟨e, he, hec⟩ := QD.cand_mem_getNBest _ _ _ hc
    rw [← hec, ← lrRems_keys votes N prev]
    exact List.mem_map.mpr ⟨e, he, rfl⟩)
  have hslot0 := slot_count votes hkn (lrBest votes N []) (fun c hc => by
    obtain ⟨e, he, hec⟩ := QD.cand_mem_getNBest _ _ _ hc
    rw [← hec, ← lrRems_keys votes N []]
    exact List.mem_map.mpr ⟨e, he, rfl⟩)
  have htie0 : (lrBest votes N []).countP isTieSlot = 0 := by
    rw [List.countP_eq_zero]
    intro s hs
    rw [hnt0 s hs]; exact Bool.false_ne_true
  have hsuma : (votes.map (lrA prev rP)).sum + (lrBest votes N prev).countP isTieSlot = N := by
    have e : (votes.map (lrA prev rP)).sum = (votes.map (lrG votes N prev)).sum + (votes.map (lrW votes N prev)).sum := by
      rw [← List.sum_map_add]
      apply congrArg
      apply List.map_congr_left
      intro p hp; exact ha p hp
    rw [e, hsumG]
    show _ + (votes.map (fun p => (lrBest votes N prev).count (Slot.cand p.1))).sum + _ = N
    omega
  have hsumf : (votes.map (lrTot r0)).sum = N := by
    have e : (votes.map (lrTot r0)).sum = (votes.map (lrG votes N [])).sum + (votes.map (lrW votes N [])).sum := by
      rw [← List.sum_map_add]
      apply congrArg
      apply List.map_congr_left
      intro p hp; exact hf p hp
    rw [e, hsumC0]
    have hs0 : sumSeats ([] : Seats) = 0 := rfl
    rw [hs0] at hlen0
    show _ + (votes.map (fun p => (lrBest votes N []).count (Slot.cand p.1))).sum = N
    omega
  -- a party short of its from-scratch total sits on its whole quotas, lost in P and won in 0
  have hshort : ∀ p ∈ votes, lrA prev rP p < lrTot r0 p → ((lrG votes N prev p : Nat) : Int) = lrF votes N p ∧ lrW votes N prev p = 0 ∧ lrW votes N [] p = 1 := by
    intro p hp hlt
    have h1 := ha p hp
    have h2 := hf p hp
    have h3 := hG p hp
    have h4 := hC0 p hp
    have h5 := hw0 p
    have h6 : lrF votes N p ≤ ((lrG votes N prev p : Nat) : Int) := by rw [h3]; exact le_max_left _ _
    refine ⟨?_, ?_, ?_⟩ <;> omega
  -- Claim A
  have hA : ∀ p ∈ votes, lrA prev rP p ≤ lrTot r0 p := by
    intro p hp
    by_contra hgt
    have hgt' : lrTot r0 p < lrA prev rP p := Nat.lt_of_not_ge hgt
    have hex : ∃ p' ∈ votes, lrA prev rP p' < lrTot r0 p' := by
      by_contra hno
      have hall : ∀ p' ∈ votes, lrTot r0 p' ≤ lrA prev rP p' := fun p' hp' => Nat.le_of_not_gt (fun h => hno ⟨p', hp', h⟩)
      have := sum_lt_of_le_of_lt' votes (lrTot r0) (lrA prev rP) hall p hp hgt'
      omega
    obtain ⟨p', hp', hlt'⟩ := hex
    obtain ⟨hG', hwP', hw0'⟩ := hshort p' hp' hlt'
    have h1 := ha p hp
    have h2 := hf p hp
    have h3 := hG p hp
    have h4 := hC0 p hp
    have h5 := hwP p
    have hnel' : Slot.cand p'.1 ∉ lrBest votes N prev := fun hm => by
      have := (helP p').mpr hm; omega
    have hel0' : Slot.cand p'.1 ∈ lrBest votes N [] := (hel0 p').mp hw0'
    have hGR' : ((lrG votes N prev p' : Nat) : Rat) = ((lrF votes N p' : Int) : Rat) := by exact_mod_cast hG'
    have hCR' : ((lrG votes N [] p' : Nat) : Rat) = ((lrF votes N p' : Int) : Rat) := by exact_mod_cast hC0 p' hp'
    have hCR : ((lrG votes N [] p : Nat) : Rat) = ((lrF votes N p : Int) : Rat) := by exact_mod_cast h4
    by_cases hcase : ((lrG votes N prev p : Nat) : Int) = lrF votes N p
    · -- p wins in P and loses in 0
      have hwp : lrW votes N prev p = 1 := by omega
      have hw0p : lrW votes N [] p = 0 := by omega
      have help : Slot.cand p.1 ∈ lrBest votes N prev := (helP p).mp hwp
      have hnel0 : Slot.cand p.1 ∉ lrBest votes N [] := fun hm => by
        have := (hel0 p).mpr hm; omega
      have hGR : ((lrG votes N prev p : Nat) : Rat) = ((lrF votes N p : Int) : Rat) := by exact_mod_cast hcase
      have e1 := QD.elected_ge_unelected _ (by rw [lrRems_keys]; exact hkn) _ _ _
        (hremP p hp) (hremP p' hp') help hnel'
      have e2 := elected_gt_unelected_of_no_tie _ (by rw [lrRems_keys]; exact hkn) _ hnt0 _ _
        (hrem0 p' hp') (hrem0 p hp) hel0' hnel0
      simp only at e1 e2
      rw [hGR, hGR'] at e1
      rw [hCR, hCR'] at e2
      linarith
    · -- previous gains above the whole quotas: p cannot win a remainder seat in P
      have hmax : ((lrG votes N prev p : Nat) : Int) = ((natLookup prev p.1 0 : Nat) : Int) := by
        rw [h3]
        rcases le_total (lrF votes N p) ((natLookup prev p.1 0 : Nat) : Int) with hle' | hle'
        · exact max_eq_right hle'
        · exfalso; apply hcase; rw [h3]; exact max_eq_left hle'
      have hlep := hle p hp
      have hgtF : lrF votes N p < ((lrG votes N prev p : Nat) : Int) := by
        have : lrF votes N p ≤ ((lrG votes N prev p : Nat) : Int) := by rw [h3]; exact le_max_left _ _
        omega
      have h6 := hw0 p
      have hpvle : ((natLookup prev p.1 0 : Nat) : Int) ≤ ((lrTot r0 p : Nat) : Int) := by exact_mod_cast hlep
      have hGval : ((lrG votes N prev p : Nat) : Int) = lrF votes N p + 1 := by omega
      have hwp : lrW votes N prev p = 1 := by omega
      have help : Slot.cand p.1 ∈ lrBest votes N prev := (helP p).mp hwp
      have hGR : ((lrG votes N prev p : Nat) : Rat) = ((lrF votes N p : Int) : Rat) + 1 := by exact_mod_cast hGval
      have e1 := QD.elected_ge_unelected _ (by rw [lrRems_keys]; exact hkn) _ _ _
        (hremP p hp) (hremP p' hp') help hnel'
      simp only at e1
      rw [hGR, hGR'] at e1
      have := hFlt p
      have := hFle p'
      linarith
  -- no tie in the continued run
  have hntP : ∀ s ∈ lrBest votes N prev, isTieSlot s = false := by
    intro s hs
    cases s with
    | cand c => rfl
    | tie T =>
      exfalso
      obtain ⟨t, hT, hcnt', hcp', habove, hbelow⟩ := tie_case _ (by rw [lrRems_keys]; exact hkn) _ T hs
      have hcnt : (lrBest votes N prev).count (Slot.tie T) < T.length := hcnt'
      have hcp : (lrBest votes N prev).countP isTieSlot = (lrBest votes N prev).count (Slot.tie T) := hcp'
      have hcpos : 0 < (lrBest votes N prev).count (Slot.tie T) := List.count_pos_iff.mpr hs
      -- total shortfall = number of tie places
      have hdef : (votes.map (fun p => lrTot r0 p - lrA prev rP p)).sum = (lrBest votes N prev).countP isTieSlot := by
        have : (votes.map (fun p => lrTot r0 p - lrA prev rP p)).sum + (votes.map (lrA prev rP)).sum = (votes.map (lrTot r0)).sum := by
          rw [← List.sum_map_add]
          apply congrArg
          apply List.map_congr_left
          intro p hp
          have := hA p hp
          omega
        omega
      -- somebody is short
      have hex : ∃ p' ∈ votes, lrA prev rP p' < lrTot r0 p' := by
        by_contra hno
        have hall : ∀ p' ∈ votes, lrTot r0 p' ≤ lrA prev rP p' := fun p' hp' => Nat.le_of_not_gt (fun h => hno ⟨p', hp', h⟩)
        have : (votes.map (lrTot r0)).sum ≤ (votes.map (lrA prev rP)).sum := List.sum_le_sum hall
        omega
      obtain ⟨p', hp', hlt'⟩ := hex
      obtain ⟨hG', hwP', hw0'⟩ := hshort p' hp' hlt'
      have hnel' : Slot.cand p'.1 ∉ lrBest votes N prev := fun hm => by
        have := (helP p').mpr hm; omega
      have hel0' : Slot.cand p'.1 ∈ lrBest votes N [] := (hel0 p').mp hw0'
      have hGR' : ((lrG votes N prev p' : Nat) : Rat) = ((lrF votes N p' : Int) : Rat) := by exact_mod_cast hG'
      have hCR' : ((lrG votes N [] p' : Nat) : Rat) = ((lrF votes N p' : Int) : Rat) := by exact_mod_cast hC0 p' hp'
      have hp't : p'.2 / (lrQ votes N) - ((lrF votes N p' : Int) : Rat) ≤ t := by
        by_contra hgt
        have := habove (p'.1, p'.2 / (lrQ votes N) - ((lrG votes N prev p' : Nat) : Rat)) (hremP p' hp')
          (by show t < p'.2 / (lrQ votes N) - ((lrG votes N prev p' : Nat) : Rat); rw [hGR']; exact lt_of_not_ge hgt)
        exact hnel' this
      -- every member of the tie is short
      have hmem : ∀ p ∈ votes, p.2 / (lrQ votes N) - ((lrG votes N prev p : Nat) : Rat) = t → 1 ≤ lrTot r0 p - lrA prev rP p := by
        intro p hp hpt
        have hnelp : Slot.cand p.1 ∉ lrBest votes N prev :=
          hbelow (p.1, p.2 / (lrQ votes N) - ((lrG votes N prev p : Nat) : Rat)) (hremP p hp) (le_of_eq hpt)
        have hwp : lrW votes N prev p = 0 := by
          have := hwP p
          by_contra hne0
          exact hnelp ((helP p).mp (by omega))
        by_contra hnot
        have hap : lrA prev rP p = lrTot r0 p := by have := hA p hp; omega
        have h1 := ha p hp
        have h2 := hf p hp
        have h3 := hG p hp
        have h4 := hC0 p hp
        have h6 := hw0 p
        have hCR : ((lrG votes N [] p : Nat) : Rat) = ((lrF votes N p : Int) : Rat) := by exact_mod_cast h4
        by_cases hcase : ((lrG votes N prev p : Nat) : Int) = lrF votes N p
        · have hw0p : lrW votes N [] p = 0 := by omega
          have hnel0 : Slot.cand p.1 ∉ lrBest votes N [] := fun hm => by
            have := (hel0 p).mpr hm; omega
          have hGR : ((lrG votes N prev p : Nat) : Rat) = ((lrF votes N p : Int) : Rat) := by exact_mod_cast hcase
          have e2 := elected_gt_unelected_of_no_tie _ (by rw [lrRems_keys]; exact hkn) _ hnt0 _ _
            (hrem0 p' hp') (hrem0 p hp) hel0' hnel0
          simp only at e2
          rw [hCR, hCR'] at e2
          rw [hGR] at hpt
          linarith
        · have hgtF : lrF votes N p < ((lrG votes N prev p : Nat) : Int) := by
            have : lrF votes N p ≤ ((lrG votes N prev p : Nat) : Int) := by rw [h3]; exact le_max_left _ _
            omega
          have hGval : ((lrG votes N prev p : Nat) : Int) = lrF votes N p + 1 := by omega
          have hGR : ((lrG votes N prev p : Nat) : Rat) = ((lrF votes N p : Int) : Rat) + 1 := by exact_mod_cast hGval
          rw [hGR] at hpt
          have := hFlt p
          have := hFle p'
          linarith
      have hTlen : T.length ≤ (votes.map (fun p => lrTot r0 p - lrA prev rP p)).sum := by
        rw [hT]
        unfold level lrRems
        rw [List.length_map, List.filter_map, List.length_map]
        apply filter_length_le_sum
        intro p hp hPp
        simp only [Function.comp, decide_eq_true_eq] at hPp
        apply hmem p hp
        rw [← hPp, lrGained_eq votes hn N prev p hp]
        rfl
      omega
  refine ⟨fun p hp => ?_, hntP⟩
  have htieP : (lrBest votes N prev).countP isTieSlot = 0 := by
    rw [List.countP_eq_zero]
    intro s hs
    rw [hntP s hs]; exact Bool.false_ne_true
  by_contra hne'
  have hlt : lrA prev rP p < lrTot r0 p := lt_of_le_of_ne (hA p hp) hne'
  have := sum_lt_of_le_of_lt' votes (lrA prev rP) (lrTot r0) hA p hp hlt
  omega

theorem tie_key_of_tie_slot (best : List Slot) (qd : Dist) (T : List Cand) (h : Slot.tie T ∈ best) :
    0 < distGet (best.foldl incSlot qd) (.tie (sortNat T)) := by
  induction best generalizing qd with
  | nil => simp at h
  | cons x xs ih =>
    rw [List.foldl_cons]
    rcases List.mem_cons.mp h with rfl | h'
    · refine Nat.lt_of_lt_of_le ?_ (distGet_foldl_incSlot_ge xs _ _)
      simp only [incSlot]
      rw [distGet_setK, if_pos rfl]
      omega
    · exact ih _ h'


end VL.OH
