/-
  C10, Condorcet family: second-order Copeland (`Copeland(second_order=True)`, model `copeland true`) does not depend on
  the insertion order of the pairwise dictionary.  The tied candidates form a Python `set` (the model iterates it in
  ascending id order, a canonical order), the second-order score of a tied candidate is a sum over the wins (order
  insensitive), so the second-order table is literally the same for both orders; the untied prefix may be permuted.
-/
import VotelibProofs.Lemmas.PermCondorcet
import VotelibProofs.Lemmas.CopelandSmith
namespace VL.Perm
open VL VL.Condorcet VL.C10

/-! ### the `tied` set -/

theorem sorted_insertSorted' {c : Cand} {l : List Cand} (h : l.Pairwise (· < ·)) :
    (insertSorted c l).Pairwise (· < ·) := by
  induction l with
  | nil => simp [insertSorted]
  | cons y ys ih =>
    unfold insertSorted
    have hy := List.pairwise_cons.mp h
    split
    · rename_i hlt
      refine List.pairwise_cons.mpr ⟨?_, h⟩
      intro z hz
      rcases List.mem_cons.mp hz with rfl | hz
      · exact hlt
      · exact Nat.lt_trans hlt (hy.1 z hz)
    · split
      · exact h
      · rename_i h1 h2
        refine List.pairwise_cons.mpr ⟨?_, ih hy.2⟩
        intro z hz
        rcases mem_insertSorted.mp hz with rfl | hz
        · exact Nat.lt_of_le_of_ne (Nat.le_of_not_lt h1) (fun e => h2 e.symm)
        · exact hy.1 z hz

theorem foldl_insertSorted_spec' (cs : List Cand) : ∀ acc : List Cand, acc.Pairwise (· < ·) →
    (cs.foldl (fun a c => insertSorted c a) acc).Pairwise (· < ·) ∧
      ∀ x, x ∈ cs.foldl (fun a c => insertSorted c a) acc ↔ x ∈ cs ∨ x ∈ acc := by
  induction cs with
  | nil => intro acc h; exact ⟨h, by simp⟩
  | cons c cs ih =>
    intro acc h
    simp only [List.foldl_cons]
    obtain ⟨h1, h2⟩ := ih (insertSorted c acc) (sorted_insertSorted' h)
    refine ⟨h1, fun x => ?_⟩
    rw [h2, mem_insertSorted, List.mem_cons]; tauto

/-- the `tied` set as the model builds it: ascending, and exactly the members of the tie objects -/
theorem tiedFold_spec (best : List Slot) : ∀ acc : List Cand, acc.Pairwise (· < ·) →
    (best.foldl (fun acc s => match s with
      | .tie cs => cs.foldl (fun a c => insertSorted c a) acc
      | .cand _ => acc) acc).Pairwise (· < ·) ∧
    ∀ x, x ∈ best.foldl (fun acc s => match s with
      | .tie cs => cs.foldl (fun a c => insertSorted c a) acc
      | .cand _ => acc) acc ↔ x ∈ acc ∨ ∃ T, Slot.tie T ∈ best ∧ x ∈ T := by
  induction best with
  | nil => intro acc h; exact ⟨h, by simp⟩
  | cons s ss ih =>
    intro acc h
    rw [List.foldl_cons]
    cases s with
    | cand c =>
      obtain ⟨h1, h2⟩ := ih acc h
      refine ⟨h1, fun x => ?_⟩
      rw [h2]
      simp only [List.mem_cons, reduceCtorEq, false_or]
    | tie cs =>
      obtain ⟨s1, s2⟩ := foldl_insertSorted_spec' cs acc h
      obtain ⟨h1, h2⟩ := ih _ s1
      refine ⟨h1, fun x => ?_⟩
      rw [h2, s2]
      simp only [List.mem_cons, Slot.tie.injEq]
      constructor
      · rintro ((hx | hx) | ⟨T, hT, hx⟩)
        · exact Or.inr ⟨cs, Or.inl rfl, hx⟩
        · exact Or.inl hx
        · exact Or.inr ⟨T, Or.inr hT, hx⟩
      · rintro (hx | ⟨T, (rfl | hT), hx⟩)
        · exact Or.inl (Or.inr hx)
        · exact Or.inl (Or.inl hx)
        · exact Or.inr ⟨T, hT, hx⟩

theorem tiedOf_sorted (best : List Slot) : (tiedOf best).Pairwise (· < ·) :=
  (tiedFold_spec best [] List.Pairwise.nil).1

theorem mem_tiedOf (best : List Slot) (x : Cand) : x ∈ tiedOf best ↔ ∃ T, Slot.tie T ∈ best ∧ x ∈ T := by
  have h := (tiedFold_spec best [] List.Pairwise.nil).2 x
  simp only [List.not_mem_nil, false_or] at h
  exact h

theorem sorted_ext {l₁ l₂ : List Cand} (h1 : l₁.Pairwise (· < ·)) (h2 : l₂.Pairwise (· < ·))
    (h : ∀ x, x ∈ l₁ ↔ x ∈ l₂) : l₁ = l₂ := by
  have n1 : l₁.Nodup := h1.imp (fun hab => Nat.ne_of_lt hab)
  have n2 : l₂.Nodup := h2.imp (fun hab => Nat.ne_of_lt hab)
  exact List.Perm.eq_of_pairwise' (r := (· ≤ ·)) (h1.imp (fun hab => Nat.le_of_lt hab))
    (h2.imp (fun hab => Nat.le_of_lt hab)) ((List.perm_ext_iff_of_nodup n1 n2).mpr h)

/-- the `tied` set of two equivalent selections -/
theorem tiedOf_equiv {r₁ r₂ : List Slot} (h : SlotsEquiv r₁ r₂) : tiedOf r₁ = tiedOf r₂ := by
  obtain ⟨e₁, e₂, T₁, T₂, m, rfl, rfl, _, hT⟩ := h
  apply sorted_ext (tiedOf_sorted _) (tiedOf_sorted _)
  intro x
  rw [mem_tiedOf, mem_tiedOf]
  have key : ∀ (e T : List Cand), (∃ T', Slot.tie T' ∈ e.map Slot.cand ++ List.replicate m (Slot.tie T) ∧ x ∈ T') ↔
      (0 < m ∧ x ∈ T) := by
    intro e T
    constructor
    · rintro ⟨T', hT', hx⟩
      rcases List.mem_append.1 hT' with h1 | h1
      · obtain ⟨_, _, he⟩ := List.mem_map.1 h1; cases he
      · obtain ⟨hm, he⟩ := List.mem_replicate.1 h1
        injection he with he
        subst he
        exact ⟨Nat.pos_of_ne_zero hm, hx⟩
    · rintro ⟨hm, hx⟩
      exact ⟨T, List.mem_append_right _ (List.mem_replicate.2 ⟨Nat.ne_of_gt hm, rfl⟩), hx⟩
  rw [key, key, hT.mem_iff]

/-! ### the second-order score table -/

/-- `second_order_scores` (condorcet.py L249-254) -/
def sosOf (tied : List Cand) (scores : Votes) (wins : List Pair) : Votes :=
  wins.foldl (fun d w => if tied.contains w.1 then incr d w.1 (getD scores w.2 0) else d) (tied.map (fun c => (c, 0)))

theorem breakSecondOrder_eq (best : List Slot) (scores : Votes) (wins : List Pair) :
    breakSecondOrder best scores wins = best.filter (fun s => !isTie s) ++
      getNBest (sosOf (tiedOf best) scores wins) (best.length - (best.filter (fun s => !isTie s)).length) := rfl

theorem getD_sosFold (tied : List Cand) (scores : Votes) (wins : List Pair) (c : Cand) : ∀ d : Votes,
    getD (wins.foldl (fun d w => if tied.contains w.1 then incr d w.1 (getD scores w.2 0) else d) d) c 0 =
      getD d c 0 + ((wins.filter (fun w => tied.contains w.1 && decide (w.1 = c))).map
        (fun w => getD scores w.2 0)).sum := by
  induction wins with
  | nil => intro d; simp
  | cons w ws ih =>
    intro d
    rw [List.foldl_cons, ih]
    by_cases ht : tied.contains w.1 = true
    · rw [if_pos ht, getD_incr]
      by_cases hc : w.1 = c
      · subst hc
        simp only [List.filter_cons, ht, decide_true, Bool.and_self, if_true, List.map_cons, List.sum_cons]
        ring
      · have hc' : ¬ c = w.1 := fun e => hc e.symm
        simp only [List.filter_cons, ht, hc, hc', decide_false, Bool.and_false, Bool.false_eq_true, if_false, add_zero]
    · rw [if_neg ht]
      simp only [List.filter_cons, ht, Bool.false_and, Bool.false_eq_true, if_false]

/-- the second-order table is literally the same when the wins are permuted and the scores agree as a map -/
theorem sosOf_congr (tied : List Cand) {s₁ s₂ : Votes} {w₁ w₂ : List Pair} (hs : ∀ c, getD s₁ c 0 = getD s₂ c 0)
    (hw : w₁.Perm w₂) (hnd : tied.Nodup) : sosOf tied s₁ w₁ = sosOf tied s₂ w₂ := by
  have k1 : keys (sosOf tied s₁ w₁) = tied :=
    keys_sosFold tied s₁ w₁ _ (by simp [keys, List.map_map, Function.comp_def])
  have k2 : keys (sosOf tied s₂ w₂) = tied :=
    keys_sosFold tied s₂ w₂ _ (by simp [keys, List.map_map, Function.comp_def])
  rw [votes_eq_map_getD (d := sosOf tied s₁ w₁) (by rw [k1]; exact hnd),
    votes_eq_map_getD (d := sosOf tied s₂ w₂) (by rw [k2]; exact hnd), k1, k2]
  apply List.map_congr_left
  intro c _
  congr 1
  unfold sosOf
  rw [getD_sosFold, getD_sosFold]
  congr 1
  have : (fun w : Pair => getD s₁ w.2 0) = (fun w : Pair => getD s₂ w.2 0) := funext (fun w => hs w.2)
  rw [this]
  exact ((hw.filter _).map _).sum_eq

/-! ### Copeland with second-order tie breaking -/

theorem getD_perm {d₁ d₂ : Votes} (h : d₁.Perm d₂) (hn : (keys d₁).Nodup) (c : Cand) (x : Rat) :
    getD d₁ c x = getD d₂ c x := by
  unfold getD lookup
  rw [find?_perm_of_nodup_keys (fun p : Cand × Rat => p.1) h hn c]

theorem filter_not_isTie' (A L : List Cand) (k : Nat) :
    (A.map Slot.cand ++ List.replicate k (Slot.tie L)).filter (fun s => !isTie s) = A.map Slot.cand := by
  rw [List.filter_append]
  have h1 : (A.map Slot.cand).filter (fun s => !isTie s) = A.map Slot.cand := by
    apply List.filter_eq_self.mpr
    intro s hs; obtain ⟨_, _, rfl⟩ := List.mem_map.mp hs; rfl
  have h2 : (List.replicate k (Slot.tie L)).filter (fun s => !isTie s) = [] := by
    apply List.filter_eq_nil_iff.mpr
    intro s hs; rw [(List.mem_replicate.mp hs).2]; simp [isTie]
  rw [h1, h2, List.append_nil]

theorem any_isTie' (A L : List Cand) (k : Nat) :
    (A.map Slot.cand ++ List.replicate k (Slot.tie L)).any isTie = decide (0 < k) := by
  rw [List.any_append]
  have h1 : (A.map Slot.cand).any isTie = false := by
    rw [List.any_eq_false]; intro s hs; obtain ⟨_, _, rfl⟩ := List.mem_map.mp hs; simp [isTie]
  rw [h1, Bool.false_or]
  cases k with
  | zero => simp
  | succ j => simp [List.replicate_succ, isTie]

/-- `break_second_order` on equivalent selections, permuted wins and the same score map -/
theorem breakSecondOrder_equiv {r₁ r₂ : List Slot} (h : SlotsEquiv r₁ r₂) {s₁ s₂ : Votes} {w₁ w₂ : List Pair}
    (hs : ∀ c, getD s₁ c 0 = getD s₂ c 0) (hw : w₁.Perm w₂) :
    SlotsEquiv (breakSecondOrder r₁ s₁ w₁) (breakSecondOrder r₂ s₂ w₂) := by
  have htied := tiedOf_equiv h
  have hnd : (tiedOf r₂).Nodup := (tiedOf_sorted r₂).imp (fun hab => Nat.ne_of_lt hab)
  rw [breakSecondOrder_eq, breakSecondOrder_eq, htied, sosOf_congr (tiedOf r₂) hs hw hnd]
  obtain ⟨e₁, e₂, T₁, T₂, m, rfl, rfl, he, _⟩ := h
  simp only [filter_not_isTie', List.length_append, List.length_map, List.length_replicate, Nat.add_sub_cancel_left]
  obtain ⟨a, a', T, T', k, h1, h2, ha, hT⟩ :=
    getNBest_perm (sosOf (tiedOf (e₂.map Slot.cand ++ List.replicate m (Slot.tie T₂))) s₂ w₂) _ (List.Perm.refl _) m
  refine ⟨e₁ ++ a, e₂ ++ a, T, T, k, ?_, ?_, he.append_right _, List.Perm.refl _⟩
  · rw [h1, List.map_append, List.append_assoc]
  · rw [h1, List.map_append, List.append_assoc]

/-- **Copeland (first and second order): ballot-order independence** -/
theorem copeland_perm {v₁ v₂ : Pairwise} (h : v₁.Perm v₂) (hn : (v₁.map (·.1)).Nodup) (so : Bool) (n : Nat) :
    SlotsEquiv (copeland so v₁ n) (copeland so v₂ n) := by
  have hbest := getNBest_perm _ _ (copelandTable_perm h hn) n
  have hany : (getNBest (seededScores v₁ (copelandScoresRaw (pairwiseWins v₁ false))) n).any isTie =
      (getNBest (seededScores v₂ (copelandScoresRaw (pairwiseWins v₂ false))) n).any isTie := by
    obtain ⟨e₁, e₂, T₁, T₂, m, h1, h2, _, _⟩ := hbest
    rw [h1, h2, any_isTie', any_isTie']
  unfold copeland
  simp only
  rw [hany]
  split
  · apply breakSecondOrder_equiv hbest
    · intro c
      exact getD_perm (copelandTable_perm h hn) (by rw [keys_seededScores]; exact nodup_candidates _) c 0
    · exact pairwiseWins_perm h hn false
  · exact hbest

example : ([((0, 1), (3 : Rat)), ((1, 0), 2), ((1, 2), 4), ((2, 1), 1)] : Pairwise).Perm
      [((1, 2), (4 : Rat)), ((0, 1), 3), ((2, 1), 1), ((1, 0), 2)] ∧
    (([((0, 1), (3 : Rat)), ((1, 0), 2), ((1, 2), 4), ((2, 1), 1)] : Pairwise).map (·.1)).Nodup := by
  decide +kernel

end VL.Perm
