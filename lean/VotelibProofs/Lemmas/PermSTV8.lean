/-
  C10 — candidate-name independence of the transferable vote (Gregory engine), part 2:
  one count, the loop and the end theorem commute with every injective renaming of the candidates.
-/
import VotelibProofs.Lemmas.PermSTV7
namespace VL.Perm.Stv
open VL VL.STV VL.C10

variable {σ : Cand → Cand}

def renTriple (σ : Cand → Cand) (x : Cand × Nat × Rat) : Cand × Nat × Rat := (σ x.1, x.2)

def renOut (σ : Cand → Cand) (o : CountOut) : CountOut :=
  { alloc := renAlloc σ o.alloc, elected := renSeats σ o.elected, eliminated := o.eliminated.map σ,
    shortcut := o.shortcut }

def renOD (σ : Cand → Cand) (r : CountOut × List Draw) : CountOut × List Draw := (renOut σ r.1, r.2)

def renSt (σ : Cand → Cand) (st : St) : St :=
  { alloc := renAlloc σ st.alloc, shown := renAlloc σ st.shown, seats := renSeats σ st.seats,
    byQuota := st.byQuota, final := st.final, draws := st.draws }

def renInput (σ : Cand → Cand) (inp : Input) : Input :=
  { votes := renPile σ inp.votes, nSeats := inp.nSeats, prev := renSeats σ inp.prev, maxS := renSeats σ inp.maxS }

/-! ### election by quota -/

theorem capOf_ren (hσ : Function.Injective σ) (m : Seats) (c : Cand) (k : Int) :
    capOf (renSeats σ m) (σ c) k = capOf m c k := by
  unfold capOf
  rw [maxGet_ren hσ]

theorem quotaEntry_ren (hσ : Function.Injective σ) (eq : Bool) (q : Rat) (p m : Seats) (ct : Cand × Rat) :
    quotaEntry eq q (renSeats σ p) (renSeats σ m) (σ ct.1, ct.2) = (quotaEntry eq q p m ct).map (renTriple σ) := by
  unfold quotaEntry
  simp only [capOf_ren hσ, seatsGet_ren hσ]
  split
  · split <;> rfl
  · rfl

theorem quotaMultiples_ren (hσ : Function.Injective σ) (eq : Bool) (q : Rat) (p m : Seats) (tp : Votes) :
    quotaMultiples eq q (renSeats σ p) (renSeats σ m) (renVotes σ tp) =
      (quotaMultiples eq q p m tp).map (renTriple σ) := by
  unfold quotaMultiples
  rw [sortDesc_ren]
  unfold renVotes
  rw [List.filterMap_map, List.map_filterMap]
  congr 1
  funext ct
  exact quotaEntry_ren hσ eq q p m ct

theorem hasTie_renSlot (σ : Cand → Cand) (l : List Slot) : hasTie (l.map (renSlot σ)) = hasTie l := by
  induction l with
  | nil => rfl
  | cons s rest ih =>
    unfold hasTie at ih ⊢
    rw [List.map_cons, List.any_cons, List.any_cons, ih]
    cases s <;> rfl

theorem slotCands_renSlot (σ : Cand → Cand) (l : List Slot) : slotCands (l.map (renSlot σ)) = (slotCands l).map σ := by
  induction l with
  | nil => rfl
  | cons s rest ih =>
    unfold slotCands at ih ⊢
    cases s with
    | cand c => simp only [List.map_cons, renSlot, List.filterMap_cons, ih]
    | tie T => simp only [List.map_cons, renSlot, List.filterMap_cons, ih]

theorem correctOvercount_ren (hσ : Function.Injective σ) (aw : List (Cand × Nat × Rat)) (n : Nat) :
    correctOvercount (aw.map (renTriple σ)) n = (correctOvercount aw n).map (renSeats σ) := by
  unfold correctOvercount
  have hv : (aw.map (renTriple σ)).map (fun x => (x.1, x.2.2)) = renVotes σ (aw.map (fun x => (x.1, x.2.2))) := by
    unfold renVotes; rw [List.map_map, List.map_map]; rfl
  simp only
  rw [hv, getNBest_rename, hasTie_renSlot, slotCands_renSlot]
  split
  · rfl
  · simp only [Except.map, renSeats, mapKV]
    rw [List.filterMap_map, List.map_filterMap]
    congr 2
    funext x
    by_cases h1 : x.1 ∈ slotCands (getNBest (aw.map (fun x => (x.1, x.2.2))) n)
    · simp [renTriple, hσ.eq_iff, h1]
    · by_cases h2 : x.2.1 > 1 <;> simp [renTriple, hσ.eq_iff, h1, h2]

theorem electByQuota_ren (hσ : Function.Injective σ) (eq : Bool) (q : Rat) (n : Nat) (p m : Seats) (tp : Votes) :
    electByQuota eq q n (renSeats σ p) (renSeats σ m) (renVotes σ tp) =
      (electByQuota eq q n p m tp).map (renSeats σ) := by
  unfold electByQuota
  simp only
  rw [quotaMultiples_ren hσ]
  have hs : ((quotaMultiples eq q p m tp).map (renTriple σ)).map (·.2.1) = (quotaMultiples eq q p m tp).map (·.2.1) := by
    rw [List.map_map]; rfl
  rw [hs]
  split
  · exact correctOvercount_ren hσ _ n
  · simp only [Except.map, renSeats, mapKV, List.map_map]
    rfl

/-! ### elimination -/

theorem selectRetained_ren (σ : Cand → Cand) (step : Option Int) (tp : Votes) :
    selectRetained step (renVotes σ tp) = (selectRetained step tp).map (List.map σ) := by
  unfold selectRetained
  cases step with
  | none => rfl
  | some st =>
    simp only
    rw [getNBest_rename, hasTie_renSlot, slotCands_renSlot]
    have : (renVotes σ tp).length = tp.length := by unfold renVotes; rw [List.length_map]
    rw [this]
    split <;> rfl

/-! ### the shortcut -/

theorem keys_renVotes (σ : Cand → Cand) (v : Votes) : (renVotes σ v).map (·.1) = (v.map (·.1)).map σ := by
  unfold renVotes; rw [List.map_map, List.map_map]; rfl

theorem availSeats_ren (hσ : Function.Injective σ) (a : Alloc) (p m : Seats) :
    availSeats (renAlloc σ a) (renSeats σ p) (renSeats σ m) = (availSeats a p m).map (fun x => (σ x.1, x.2)) := by
  unfold availSeats
  rw [totalsInPlay_ren, sortDesc_ren, keys_renVotes]
  simp only [List.map_map]
  apply List.map_congr_left
  intro c _
  simp only [Function.comp, maxGet_ren hσ, seatsGet_ren hσ]

theorem totAvail_ren (σ : Cand → Cand) (l : List (Cand × Option Int)) :
    totAvail (l.map (fun x => (σ x.1, x.2))) = totAvail l := by
  unfold totAvail
  rw [List.foldl_map]
  rfl

theorem shortcutCond_ren (hσ : Function.Injective σ) (cfg : Cfg) (a : Alloc) (n : Nat) (p m : Seats) :
    shortcutCond cfg (renAlloc σ a) n (renSeats σ p) (renSeats σ m) = shortcutCond cfg a n p m := by
  unfold shortcutCond
  rw [availSeats_ren hσ, totAvail_ren, sumSeats_ren]

theorem electAll_ren (hσ : Function.Injective σ) (a : Alloc) (p m : Seats) (ds : List Draw) :
    electAll (renAlloc σ a) (renSeats σ p) (renSeats σ m) ds = (electAll a p m ds).map (renOD σ) := by
  unfold electAll
  simp only
  rw [availSeats_ren hσ]
  simp only [List.any_map, Function.comp_def]
  split
  · rfl
  · simp only [Except.map, renOD, renOut, renSeats, mapKV, List.map_map, renAlloc, List.map_nil]
    rfl

/-! ### one count -/

theorem fullyElected_ren (hσ : Function.Injective σ) (el p m : Seats) :
    fullyElected (renSeats σ el) (renSeats σ p) (renSeats σ m) = (fullyElected el p m).map σ := by
  unfold fullyElected
  rw [seatsAdd_ren hσ]
  show ((mapKV σ id el).filter _).map _ = _
  unfold mapKV
  rw [List.filter_map, List.map_map, List.map_map]
  congr 1
  apply List.filter_congr
  intro ck _
  simp only [Function.comp, maxGet_ren hσ, seatsGet_ren hσ]

theorem afterElection_ren (hσ : Function.Injective σ) (a : Alloc) (el : Seats) (qv : Rat) (p m : Seats) (ds : List Draw) :
    afterElection gregory (renAlloc σ a) (renSeats σ el) qv (renSeats σ p) (renSeats σ m) ds =
      (afterElection gregory a el qv p m ds).map (renOD σ) := by
  unfold afterElection
  have hl : (renSeats σ el).map (fun ck => (ck.1, (ck.2 : Rat) * qv)) =
      renVotes σ (el.map (fun ck => (ck.1, (ck.2 : Rat) * qv))) := by
    unfold renSeats mapKV renVotes; rw [List.map_map, List.map_map]; rfl
  rw [hl, subtract_ren hσ, fullyElected_ren hσ]
  cases subtract gregory (el.map (fun ck => (ck.1, (ck.2 : Rat) * qv))) a ds with
  | error e => rfl
  | ok r =>
    obtain ⟨a1, ds1⟩ := r
    simp only [Except.map, renAD]
    rw [transferIf_ren hσ]
    cases transferIf gregory a1 (fullyElected el p m) ds1 with
    | error e => rfl
    | ok r2 => rfl

theorem afterElimination_ren (hσ : Function.Injective σ) (a : Alloc) (step : Option Int) (ds : List Draw) :
    afterElimination gregory (renAlloc σ a) step ds = (afterElimination gregory a step ds).map (renOD σ) := by
  unfold afterElimination
  simp only
  rw [totalsInPlay_ren, selectRetained_ren]
  cases selectRetained step (totalsInPlay a) with
  | error e => rfl
  | ok retained =>
    simp only [Except.map]
    rw [keys_renVotes, filter_not_mem_ren hσ, transferIf_ren hσ]
    cases transferIf gregory a (((totalsInPlay a).map (·.1)).filter (fun c => decide (c ∉ retained))) ds with
    | error e => rfl
    | ok r2 => rfl

theorem seats_eq_nil_ren (σ : Cand → Cand) (s : Seats) : renSeats σ s = [] ↔ s = [] := by
  unfold renSeats mapKV; exact List.map_eq_nil_iff

theorem countProper_ren (hσ : Function.Injective σ) (cfg : Cfg) (a : Alloc) (n : Nat) (total : Rat) (p m : Seats)
    (ds : List Draw) :
    countProper gregory cfg (renAlloc σ a) n total (renSeats σ p) (renSeats σ m) ds =
      (countProper gregory cfg a n total p m ds).map (renOD σ) := by
  unfold countProper
  cases computeQuota cfg total n with
  | none => exact afterElimination_ren hσ a cfg.step ds
  | some qv =>
    simp only
    split
    · rfl
    · rw [totalsInPlay_ren, sumSeats_ren, electByQuota_ren hσ]
      cases electByQuota cfg.acceptEqual qv (n - sumSeats p) p m (totalsInPlay a) with
      | error e => rfl
      | ok el =>
        simp only [Except.map, seats_eq_nil_ren]
        split
        · exact afterElimination_ren hσ a cfg.step ds
        · exact afterElection_ren hσ a el qv p m ds

theorem nextCount_ren (hσ : Function.Injective σ) (cfg : Cfg) (a : Alloc) (n : Nat) (total : Rat) (p m : Seats)
    (ds : List Draw) :
    nextCount gregory cfg (renAlloc σ a) n total (renSeats σ p) (renSeats σ m) ds =
      (nextCount gregory cfg a n total p m ds).map (renOD σ) := by
  unfold nextCount
  rw [sumSeats_ren, shortcutCond_ren hσ]
  split
  · rfl
  · split
    · exact electAll_ren hσ a p m ds
    · exact countProper_ren hσ cfg a n total p m ds

/-! ### the loop -/

theorem totalVotes_ren (σ : Cand → Cand) (v : Profile) : totalVotes (renPile σ v) = totalVotes v := by
  unfold totalVotes renPile mapKV
  rw [List.map_map]; rfl

theorem alloc_eq_nil_ren (σ : Cand → Cand) (a : Alloc) : renAlloc σ a = [] ↔ a = [] := by
  unfold renAlloc mapKV; exact List.map_eq_nil_iff

theorem noProgress_ren (σ : Cand → Cand) (st : St) (out : CountOut) :
    noProgress (renSt σ st) (renOut σ out) = noProgress st out := by
  unfold noProgress renSt renOut
  simp only [seats_eq_nil_ren, alloc_eq_nil_ren, List.map_eq_nil_iff]

theorem advance_ren (hσ : Function.Injective σ) (st : St) (out : CountOut) (ds : List Draw) :
    advance (renSt σ st) (renOut σ out) ds = renSt σ (advance st out ds) := by
  unfold advance renSt renOut
  simp only [seatsAdd_ren hσ, sumSeats_ren]

theorem countStep_ren (hσ : Function.Injective σ) (cfg : Cfg) (inp : Input) (st : St) :
    countStep gregory cfg (renInput σ inp) (renSt σ st) =
      (countStep gregory cfg inp st).map (Option.map (renSt σ)) := by
  unfold countStep
  have h1 : (renSt σ st).seats = renSeats σ st.seats := rfl
  have h2 : (renInput σ inp).nSeats = inp.nSeats := rfl
  have h3 : (renInput σ inp).votes = renPile σ inp.votes := rfl
  have h4 : (renSt σ st).alloc = renAlloc σ st.alloc := rfl
  have h5 : (renInput σ inp).maxS = renSeats σ inp.maxS := rfl
  have h6 : (renSt σ st).draws = st.draws := rfl
  rw [h1, h2, h3, h4, h5, h6, sumSeats_ren, totalVotes_ren, nextCount_ren hσ]
  split
  · rfl
  · cases nextCount gregory cfg st.alloc inp.nSeats (totalVotes inp.votes) st.seats inp.maxS st.draws with
    | error e => rfl
    | ok r =>
      obtain ⟨out, ds'⟩ := r
      simp only [Except.map, renOD]
      rw [noProgress_ren]
      split
      · rfl
      · rw [advance_ren hσ]; rfl

theorem runCounts_ren (hσ : Function.Injective σ) (cfg : Cfg) (inp : Input) (k : Nat) (st : St) :
    runCounts gregory cfg (renInput σ inp) k (renSt σ st) = (runCounts gregory cfg inp k st).map (renSt σ) := by
  induction k generalizing st with
  | zero => rfl
  | succ k ih =>
    unfold runCounts
    rw [countStep_ren hσ]
    cases countStep gregory cfg inp st with
    | error e => rfl
    | ok r =>
      cases r with
      | none => rfl
      | some st' => exact ih st'

theorem initState_ren (hσ : Function.Injective σ) (inp : Input) (ds : List Draw) :
    initState gregory (renInput σ inp) ds = (initState gregory inp ds).map (renSt σ) := by
  unfold initState
  have h3 : (renInput σ inp).votes = renPile σ inp.votes := rfl
  rw [h3, initialAllocation_ren hσ]
  cases initialAllocation gregory inp.votes ds with
  | error e => rfl
  | ok r => rfl

theorem evalFuel_ren (hσ : Function.Injective σ) (inp : Input) : evalFuel (renInput σ inp) = evalFuel inp := by
  unfold evalFuel
  have h3 : (renInput σ inp).votes = renPile σ inp.votes := rfl
  rw [h3, allRanked_ren hσ, List.length_map]
  rfl

theorem distributorEvaluate_ren (hσ : Function.Injective σ) (cfg : Cfg) (inp : Input) (ds : List Draw) :
    distributorEvaluate gregory cfg (renInput σ inp) ds = (distributorEvaluate gregory cfg inp ds).map (renSeats σ) := by
  unfold distributorEvaluate
  rw [initState_ren hσ, evalFuel_ren hσ]
  cases initState gregory inp ds with
  | error e => rfl
  | ok st0 =>
    simp only [Except.map, bind, Except.bind]
    rw [runCounts_ren hσ]
    cases runCounts gregory cfg inp (evalFuel inp) st0 with
    | error e => rfl
    | ok st =>
      simp only [Except.map]
      have : finished (renInput σ inp) (renSt σ st) = finished inp st := by
        unfold finished
        show decide (sumSeats (renSeats σ st.seats) = inp.nSeats) = _
        rw [sumSeats_ren]
      rw [this]
      split <;> rfl

theorem selectorInput_ren (hσ : Function.Injective σ) (v : Profile) (n : Nat) :
    selectorInput (renPile σ v) n = renInput σ (selectorInput v n) := by
  unfold selectorInput renInput renSeats mapKV
  simp only [allRanked_ren hσ, List.map_map, List.map_nil]
  rfl

theorem distributionToSelection_ren (σ : Cand → Cand) (s : Seats) :
    distributionToSelection (renSeats σ s) = (distributionToSelection s).map σ := by
  unfold distributionToSelection
  have : (renSeats σ s).map (fun p => (p.1, (p.2 : Rat))) = renVotes σ (s.map (fun p => (p.1, (p.2 : Rat)))) := by
    unfold renSeats mapKV renVotes; rw [List.map_map, List.map_map]; rfl
  rw [this, sortDesc_ren, keys_renVotes]

end VL.Perm.Stv

namespace VL.Perm
open VL VL.STV VL.C10 VL.Perm.Stv

/-- **Candidate-name independence, distributor form**: renaming the candidates by an injective map in the ballots
    and in the `prev_gains` / `max_seats` dicts renames the keys of the result (same exception otherwise). -/
theorem stv_distributor_rename {σ : Cand → Cand} (hσ : Function.Injective σ) (cfg : Cfg) (inp : Input) (ds : List Draw) :
    distributorEvaluate gregory cfg (renInput σ inp) ds = (distributorEvaluate gregory cfg inp ds).map (renSeats σ) :=
  distributorEvaluate_ren hσ cfg inp ds

/-- **Candidate-name independence, selector form** (`TransferableVoteSelector.evaluate`, Gregory transferer): for every
    injective renaming `σ` of the candidates, the run on the renamed ballots (`renPile σ p`: every candidate on every
    ballot replaced by its image, same weights, same insertion order) raises the same exception or elects exactly the
    renamed list, in the same order. -/
theorem stv_rename {σ : Cand → Cand} (hσ : Function.Injective σ) (cfg : Cfg) (p : Profile) (n : Nat) (ds : List Draw) :
    selectorEvaluate gregory cfg (renPile σ p) n ds = (selectorEvaluate gregory cfg p n ds).map (List.map σ) := by
  unfold selectorEvaluate
  rw [selectorInput_ren hσ, distributorEvaluate_ren hσ]
  cases distributorEvaluate gregory cfg (selectorInput p n) ds with
  | error e => rfl
  | ok s =>
    simp only [Except.map, bind, Except.bind, pure, Except.pure]
    rw [distributionToSelection_ren]

/-- a concrete renaming instance: swapping the names 0 and 1 in `stvDemo₁` swaps them in the result -/
example : renPile (fun c => if c = 0 then 1 else if c = 1 then 0 else c) stvDemo₁ =
      [([.one 1], 2), ([.one 0], 2), ([.one 2, .one 1], 1)] ∧
    selectorEvaluate gregory stvDemoCfg (renPile (fun c => if c = 0 then 1 else if c = 1 then 0 else c) stvDemo₁) 2 []
      = .ok [1, 0] := by decide +kernel

end VL.Perm
