/-
  C05 helper: the score dictionary `Schulze.evaluate` hands to `get_n_best` is, candidate by candidate and in the
  order of the candidates, the number of candidates whose strongest path from `c` is stronger than the one back.
-/
import VotelibProofs.Lemmas.Schulze
namespace VL.Condorcet
open VL

/-- the strongest-path dictionary keeps distinct keys and holds no negative strength -/
theorem widestPaths_nodup_nonneg {v : Pairwise} (hwf : WF v) :
    (pkeys (widestPaths v)).Nodup ∧ ∀ q, 0 ≤ pget (widestPaths v) q := by
  apply widestPaths_preserves v (fun p => (pkeys p).Nodup ∧ ∀ q, 0 ≤ pget p q)
  · refine ⟨hwf.1.sublist (List.Sublist.map _ List.filter_sublist), ?_⟩
    intro q
    rcases pget_mem_or_zero (v.filter (fun e => decide (pget v (e.1.2, e.1.1) < e.2))) q with h | ⟨_, h⟩
    · exact hwf.2.2 _ (List.mem_filter.1 h).1
    · rw [h]
  · rintro p c1 c2 ca _ _ _ _ _ ⟨hnd, hnn⟩
    refine ⟨nodup_pkeys_pset hnd _ _, ?_⟩
    intro q
    rw [pget_pset]
    split
    · exact le_trans (hnn _) (rmax_ge_left _ _)
    · exact hnn q

/-- a dictionary with distinct keys is its key list paired with the looked-up values -/
theorem dict_eq_keys_map {d : Votes} (hk : (keys d).Nodup) : d = (keys d).map (fun c => (c, getD d c 0)) := by
  have h1 : d.map (fun p => (p.1, getD d p.1 0)) = d := by
    conv_rhs => rw [← List.map_id d]
    apply List.map_congr_left
    intro p hp
    rw [← mem_getD_of_key hk hp]
    rfl
  conv_lhs => rw [← h1]
  simp [keys, List.map_map, Function.comp_def]

/-- the number of candidates that `c` reaches by a strictly stronger path than the one leading back -/
def schulzeWins (v : Pairwise) (c : Cand) : Nat :=
  ((candidates v).filter (fun x =>
    decide (pget (widestPaths v) (x, c) < pget (widestPaths v) (c, x)))).length

/-- **Schulze ranks by the number of strongest-path wins**: what `Schulze.evaluate` hands to `get_n_best` is, in the order
    of the candidates, each candidate with the number of candidates it beats in the strongest-path relation -/
theorem schulze_by_path_wins {v : Pairwise} (hwf : WF v) (n : Nat) :
    schulze v n = getNBest ((candidates v).map (fun c => (c, (schulzeWins v c : Rat)))) n := by
  obtain ⟨hnd, hnn⟩ := widestPaths_nodup_nonneg hwf
  have hkin := widestPaths_keys_in v
  have hwnd := nodup_pairwiseWins_of_nodup hnd false
  unfold schulze
  simp only
  set scores := (pairwiseWins (widestPaths v) false).foldl (fun d w => incr (incr d w.1 1) w.2 0)
    ((candidates v).map (fun c => (c, (0 : Rat)))) with hscores
  have hkeys : keys scores = candidates v := keys_schulzeScores v
  have hknd : (keys scores).Nodup := by rw [hkeys]; exact nodup_candidates v
  have hval : ∀ c, getD scores c 0 = (winsBy (pairwiseWins (widestPaths v) false) c : Rat) := by
    intro c
    rw [hscores, getD_schulzeFold, getD_zeroDict]; ring
  have hcount : ∀ c, winsBy (pairwiseWins (widestPaths v) false) c = schulzeWins v c := by
    intro c
    apply Nat.le_antisymm
    · apply winsBy_le_filter hwnd
      intro x hx
      refine ⟨(hkin _ (mem_pairwiseWins_key hx)).2, ?_⟩
      rw [mem_pairwiseWins_of_nodup hnd] at hx
      simpa using hx.2
    · apply winsBy_ge_filter (nodup_candidates v)
      intro x _ hq
      have hlt : pget (widestPaths v) (x, c) < pget (widestPaths v) (c, x) := by simpa using hq
      rw [mem_pairwiseWins_of_nodup hnd]
      have hpos : 0 < pget (widestPaths v) (c, x) := lt_of_le_of_lt (hnn _) hlt
      exact ⟨List.mem_map.2 ⟨_, pget_pos_mem hpos, rfl⟩, hlt⟩
  congr 1
  rw [dict_eq_keys_map hknd, hkeys]
  apply List.map_congr_left
  intro c _
  rw [hval, hcount]

end VL.Condorcet
