/-
  C17 helper lemmas: replacing one unit of weight in a profile; positional rules under `lift` / a new ballot.
-/
import VotelibProofs.Lemmas.MonoLift
import VotelibProofs.Lemmas.MonoNBest
namespace VL.Mono
open VL VL.Convert

section dict
variable {κ : Type} [DecidableEq κ]

theorem wsum_decr (p : Dict κ) (b : κ) (f : κ → Rat) (hb : b ∈ dkeys p) : wsum (decr p b) f = wsum p f - f b := by
  induction p with
  | nil => simp [dkeys] at hb
  | cons e t ih =>
    obtain ⟨k, v⟩ := e
    simp only [decr]
    by_cases hk : k = b
    · subst hk
      rw [if_pos rfl]
      by_cases hv : v = 1
      · rw [if_pos hv, wsum_cons, hv]; simp
      · rw [if_neg hv, wsum_cons, wsum_cons]; simp only; ring
    · rw [if_neg hk, wsum_cons, wsum_cons]
      have : b ∈ dkeys t := by
        simp only [dkeys, List.map_cons, List.mem_cons] at hb
        rcases hb with h | h
        · exact absurd h.symm hk
        · exact h
      rw [ih this]; ring

theorem wsum_replaceUnit (p : Dict κ) (b b' : κ) (f : κ → Rat) (hb : b ∈ dkeys p) :
    wsum (replaceUnit p b b') f = wsum p f - f b + f b' := by
  unfold replaceUnit
  rw [wsum_addTo, wsum_decr p b f hb]; ring

theorem mem_dkeys_decr {p : Dict κ} {b x : κ} (h : x ∈ dkeys (decr p b)) : x ∈ dkeys p := by
  induction p with
  | nil => simpa [decr] using h
  | cons e t ih =>
    obtain ⟨k, v⟩ := e
    simp only [decr] at h
    simp only [dkeys, List.map_cons, List.mem_cons] at ih ⊢
    by_cases hk : k = b
    · rw [if_pos hk] at h
      by_cases hv : v = 1
      · rw [if_pos hv] at h; exact Or.inr h
      · rw [if_neg hv] at h
        simp only [dkeys, List.map_cons, List.mem_cons] at h
        exact h
    · rw [if_neg hk] at h
      simp only [dkeys, List.map_cons, List.mem_cons] at h
      rcases h with h | h
      · exact Or.inl h
      · exact Or.inr (ih h)

theorem mem_dkeys_decr_of_ne {p : Dict κ} {b x : κ} (h : x ∈ dkeys p) (hx : x ≠ b) : x ∈ dkeys (decr p b) := by
  induction p with
  | nil => simp [dkeys] at h
  | cons e t ih =>
    obtain ⟨k, v⟩ := e
    simp only [dkeys, List.map_cons, List.mem_cons] at h ih
    simp only [decr]
    by_cases hk : k = b
    · rw [if_pos hk]
      have hxt : x ∈ List.map (fun x => x.1) t := by
        rcases h with h | h
        · exact absurd (h.trans hk) hx
        · exact h
      by_cases hv : v = 1
      · rw [if_pos hv]; exact hxt
      · rw [if_neg hv]; simp only [dkeys, List.map_cons, List.mem_cons]; exact Or.inr hxt
    · rw [if_neg hk]
      simp only [dkeys, List.map_cons, List.mem_cons]
      rcases h with h | h
      · exact Or.inl h
      · exact Or.inr (ih h)

theorem mem_dkeys_replaceUnit {p : Dict κ} {b b' x : κ} :
    x ∈ dkeys (replaceUnit p b b') → x ∈ dkeys p ∨ x = b' := by
  unfold replaceUnit
  rw [mem_dkeys_addTo]
  rintro (h | h)
  · exact Or.inl (mem_dkeys_decr h)
  · exact Or.inr h

theorem mem_dkeys_replaceUnit_of_mem {p : Dict κ} {b b' x : κ} (h : x ∈ dkeys p) :
    x = b ∨ x ∈ dkeys (replaceUnit p b b') := by
  by_cases hx : x = b
  · exact Or.inl hx
  · right
    unfold replaceUnit
    rw [mem_dkeys_addTo]
    exact Or.inl (mem_dkeys_decr_of_ne h hx)

theorem new_mem_dkeys_replaceUnit (p : Dict κ) (b b' : κ) : b' ∈ dkeys (replaceUnit p b b') := by
  unfold replaceUnit
  rw [mem_dkeys_addTo]; exact Or.inr rfl

end dict

/-! ### candidates of a profile -/

theorem mem_arc (p : RProfile) (c : Cand) : c ∈ allRankedCandidates p ↔ ∃ b ∈ dkeys p, c ∈ ballotCands b := by
  rw [mem_allRankedCandidates]
  constructor
  · rintro ⟨bw, hbw, hc⟩; exact ⟨bw.1, List.mem_map.mpr ⟨bw, hbw, rfl⟩, hc⟩
  · rintro ⟨b, hb, hc⟩
    obtain ⟨bw, hbw, rfl⟩ := List.mem_map.mp hb
    exact ⟨bw, hbw, hc⟩

/-- replacing a unit of ballot `b` by a ballot with the same candidates (plus `w`, who stands already) does not
    change the candidates of the election -/
theorem arc_replaceUnit (p : RProfile) (b b' : Ballot) (w : Cand) (hb : b ∈ dkeys p)
    (hw : w ∈ allRankedCandidates p) (hc : ∀ c, c ∈ ballotCands b' ↔ c = w ∨ c ∈ ballotCands b) (c : Cand) :
    c ∈ allRankedCandidates (replaceUnit p b b') ↔ c ∈ allRankedCandidates p := by
  rw [mem_arc, mem_arc]
  constructor
  · rintro ⟨x, hx, hcx⟩
    rcases mem_dkeys_replaceUnit hx with h | rfl
    · exact ⟨x, h, hcx⟩
    · rcases (hc c).mp hcx with rfl | h
      · exact (mem_arc p c).mp hw
      · exact ⟨b, hb, h⟩
  · rintro ⟨x, hx, hcx⟩
    rcases mem_dkeys_replaceUnit_of_mem (b := b) (b' := b') hx with rfl | h
    · exact ⟨b', new_mem_dkeys_replaceUnit p x b', (hc c).mpr (Or.inr hcx)⟩
    · exact ⟨x, h, hcx⟩

theorem arc_addTo (p : RProfile) (nb : Ballot) (hsub : ∀ c ∈ ballotCands nb, c ∈ allRankedCandidates p) (c : Cand) :
    c ∈ allRankedCandidates (addTo p nb 1) ↔ c ∈ allRankedCandidates p := by
  rw [mem_arc, mem_arc]
  constructor
  · rintro ⟨x, hx, hcx⟩
    rcases (mem_dkeys_addTo p nb 1 x).mp hx with h | rfl
    · exact ⟨x, h, hcx⟩
    · exact (mem_arc p c).mp (hsub c hcx)
  · rintro ⟨x, hx, hcx⟩
    exact ⟨x, (mem_dkeys_addTo p nb 1 x).mpr (Or.inl hx), hcx⟩

theorem length_eq_of_mem_iff {l₁ l₂ : List Cand} (h₁ : l₁.Nodup) (h₂ : l₂.Nodup) (h : ∀ c, c ∈ l₁ ↔ c ∈ l₂) :
    l₁.length = l₂.length :=
  ((List.perm_ext_iff_of_nodup h₁ h₂).mpr h).length_eq

/-! ### well-formed ballots -/

/-- a ranked ballot as the validators accept it: no candidate twice, no empty shared rank -/
def BallotOK (b : Ballot) : Prop := (ballotCands b).Nodup ∧ ∀ it ∈ b, it.cands ≠ []

instance (b : Ballot) : Decidable (BallotOK b) := by unfold BallotOK; infer_instance

theorem length_le_cands {b : Ballot} (h : ∀ it ∈ b, it.cands ≠ []) : b.length ≤ (ballotCands b).length := by
  induction b with
  | nil => simp
  | cons it rest ih =>
    rw [bc_cons, List.length_append, List.length_cons]
    have h1 : 1 ≤ it.cands.length := by
      have := h it (by simp)
      cases hc : it.cands with
      | nil => exact absurd hc this
      | cons _ _ => simp
    have := ih (fun x hx => h x (by simp [hx]))
    omega

theorem BallotOK.length_le {b : Ballot} (h : BallotOK b) {U : List Cand} (hsub : ∀ c ∈ ballotCands b, c ∈ U) :
    b.length ≤ U.length :=
  le_trans (length_le_cands h.2) ((List.subperm_of_subset h.1 hsub).length_le)

theorem stripItem_nonempty {w : Cand} {it it' : RankItem} (h : stripItem w it = some it') (hne : it.cands ≠ []) :
    it'.cands ≠ [] := by
  cases it with
  | one c =>
    simp only [stripItem] at h
    split at h
    · cases h
    · cases h; simp [RankItem.cands]
  | shared cs =>
    simp only [stripItem] at h
    split at h
    · split at h
      · cases h
      · cases h; simp [RankItem.cands]
      · rename_i rest h1 h2
        cases h
        simp only [RankItem.cands]
        intro h0
        rw [h0] at h1
        exact h1 rfl
    · cases h; exact hne

theorem BallotOK.lift {b : Ballot} (h : BallotOK b) (w : Cand) (i : Nat) : BallotOK (lift w i b) := by
  refine ⟨nodup_lift h.1, ?_⟩
  intro it hit
  unfold Mono.lift at hit
  rw [List.mem_append, List.mem_cons] at hit
  have hstrip : ∀ x ∈ strip w b, x.cands ≠ [] := by
    intro x hx
    unfold strip at hx
    obtain ⟨it0, hit0, hs⟩ := List.mem_filterMap.mp hx
    exact stripItem_nonempty hs (h.2 it0 hit0)
  rcases hit with h1 | rfl | h1
  · exact hstrip it (List.mem_of_mem_take h1)
  · simp [RankItem.cands]
  · exact hstrip it (List.mem_of_mem_drop h1)

/-! ### positional rules -/

/-- worth of place `j` on a ballot with `n` places under scorer `sc` when `nCand` candidates stand
    (0 where the scorer refuses) -/
def scorerFn (sc : Scorer) (nCand : Nat) (n j : Nat) : Rat := (scorerList sc nCand n).getD j 0

theorem posImage_eq_bscore (sc : Scorer) (nCand : Nat) (b : Ballot) (k : Cand) :
    posImage sc nCand b k = bscore (scorerFn sc nCand) b k := by
  unfold posImage bscore scorerFn
  rw [posFrom_eq_rankScore]

/-- the scorer accepts every number of places up to the number of candidates -/
def Accepts (sc : Scorer) : Prop := ∀ nCand n, n ≤ nCand → ∃ l, sc.scores nCand n = .ok l

theorem accepts_hsc {sc : Scorer} (ha : Accepts sc) (p : RProfile) (hwf : ∀ b ∈ dkeys p, BallotOK b) :
    ∀ bw ∈ p, ∃ l, sc.scores (allRankedCandidates p).length bw.1.length = .ok l ∧ bw.1.length ≤ l.length := by
  intro bw hbw
  have hb : bw.1 ∈ dkeys p := List.mem_map.mpr ⟨bw, hbw, rfl⟩
  have hlen : bw.1.length ≤ (allRankedCandidates p).length :=
    (hwf _ hb).length_le (fun c hc => (mem_arc p c).mpr ⟨bw.1, hb, hc⟩)
  obtain ⟨l, hl⟩ := ha _ _ hlen
  exact ⟨l, hl, by rw [Scorer.scores_length hl]⟩

/-- what `rankedToPositional` returns on a well-formed profile -/
theorem positional_spec {sc : Scorer} (ha : Accepts sc) (p : RProfile) (hwf : ∀ b ∈ dkeys p, BallotOK b) :
    ∃ d, rankedToPositional sc p = .ok d ∧ (∀ k, k ∈ keys d ↔ k ∈ allRankedCandidates p) ∧ (keys d).Nodup ∧
      ∀ k, toFun d k = wsum p (fun b => bscore (scorerFn sc (allRankedCandidates p).length) b k) := by
  obtain ⟨d, h1, _, h3, h4, h5⟩ := positionalU_ok sc (allRankedCandidates p) p
    (fun bw hbw c hc => (mem_arc p c).mpr ⟨bw.1, List.mem_map.mpr ⟨bw, hbw, rfl⟩, hc⟩) (accepts_hsc ha p hwf)
  refine ⟨d, h1, h3, h4 (nodup_allRankedCandidates p), fun k => ?_⟩
  rw [h5 k]
  apply wsum_congr
  intro bw _
  exact posImage_eq_bscore _ _ _ _

/-- core of the positional monotonicity argument: two well-formed profiles over the same candidates whose
    weighted sums differ by a per-ballot change that favours `w` -/
theorem positional_core {sc : Scorer} (ha : Accepts sc) (p p' : RProfile) (w : Cand)
    (hwf : ∀ b ∈ dkeys p, BallotOK b) (hwf' : ∀ b ∈ dkeys p', BallotOK b)
    (hU : ∀ c, c ∈ allRankedCandidates p' ↔ c ∈ allRankedCandidates p)
    (δ : Cand → Rat)
    (hsum : ∀ k, wsum p' (fun b => bscore (scorerFn sc (allRankedCandidates p).length) b k)
      = wsum p (fun b => bscore (scorerFn sc (allRankedCandidates p).length) b k) + δ k)
    (hδ : ∀ y, y ≠ w → δ y ≤ δ w)
    (h : evalPositional sc p = .ok [Slot.cand w]) : evalPositional sc p' = .ok [Slot.cand w] := by
  obtain ⟨d, hd, hk, hn, hv⟩ := positional_spec ha p hwf
  obtain ⟨d', hd', hk', hn', hv'⟩ := positional_spec ha p' hwf'
  have hlen : (allRankedCandidates p').length = (allRankedCandidates p).length :=
    length_eq_of_mem_iff (nodup_allRankedCandidates p') (nodup_allRankedCandidates p) hU
  unfold evalPositional at h ⊢
  rw [hd] at h
  rw [hd']
  simp only [Except.ok.injEq] at h ⊢
  have hwd : w ∈ keys d := by
    rw [sole_iff d hn, soleMax_iff d hn] at h
    exact h.1
  apply additive_sole d d' hn hn' w (fun c hc => (hk c).mpr ((hU c).mp ((hk' c).mp hc)))
    ((hk' w).mpr ((hU w).mpr ((hk w).mp hwd))) ?_ h
  intro c _ hcw
  rw [hv' c, hv' w, hv c, hv w, hlen, hsum c, hsum w]
  have := hδ c hcw
  linarith

end VL.Mono
