/-
  Helper lemmas for C02: Python number primitives vs. Mathlib floor/ceil, dict operations of the
  QuotaDistributor model, the whole-quota loop without binding caps, the subtract loop, the remainder stage.
-/
import VotelibModel.QuotaDist
import VotelibModel.Gen.Quota
import VotelibProofs.Lemmas.NBest
import Mathlib.Data.Rat.Floor
import Mathlib.Data.Rat.Lemmas
import Mathlib.Algebra.Order.Floor.Ring
import Mathlib.Tactic.Linarith
import Mathlib.Tactic.Ring
import Mathlib.Tactic.FieldSimp
namespace VL

theorem rat_floor_eq (r : Rat) : r.floor = ⌊r⌋ := rfl
theorem rat_ceil_eq (r : Rat) : r.ceil = ⌈r⌉ := by
  rw [Rat.ceil_eq_neg_floor_neg]; rfl

theorem pyInt_nonneg {r : Rat} (h : 0 ≤ r) : Py.pyInt r = ⌊r⌋ := by
  unfold Py.pyInt; rw [if_pos h]; rfl

theorem pyCeil_eq (r : Rat) : Py.pyCeil r = ⌈r⌉ := rat_ceil_eq r

/-- a rational with denominator at most 2 is half an integer -/
theorem half_int_of_den_le_two {x : Rat} (h : x.den ≤ 2) : ∃ m : Int, x = (m : Rat) / 2 := by
  have hpos := x.den_pos
  have hx := Rat.num_div_den x
  rcases (by omega : x.den = 1 ∨ x.den = 2) with h1 | h2
  · refine ⟨2 * x.num, ?_⟩
    rw [h1] at hx
    push_cast
    rw [← hx]; simp
  · refine ⟨x.num, ?_⟩
    rw [h2] at hx
    push_cast at hx
    exact hx.symm

theorem ceil_half_int (m : Int) : ⌈(m : Rat) / 2⌉ = ⌊(m : Rat) / 2 + 1 / 2⌋ := by
  rcases Int.even_or_odd' m with ⟨k, rfl | rfl⟩
  · have e1 : ((2 * k : Int) : Rat) / 2 = (k : Rat) := by push_cast; ring
    rw [e1, Int.ceil_intCast]
    symm; rw [Int.floor_eq_iff]; constructor <;> linarith
  · have e1 : ((2 * k + 1 : Int) : Rat) / 2 = (k : Rat) + 1 / 2 := by push_cast; ring
    rw [e1]
    have : ⌈(k : Rat) + 1 / 2⌉ = k + 1 := by
      rw [Int.ceil_eq_iff]; push_cast; constructor <;> linarith
    rw [this]
    symm; rw [Int.floor_eq_iff]; push_cast; constructor <;> linarith

theorem den_two_of_half {x : Rat} (h : x - (⌊x⌋ : Rat) = 1 / 2) : x.den = 2 := by
  have : x = (1 / 2 : Rat) + ((⌊x⌋ : Int) : Rat) := by linarith
  rw [this, Rat.add_intCast_den]
  decide +kernel

/-- `_round_half_up` rounds to the nearest integer, halves up -/
theorem round_half_up_eq (x : Rat) : Gen.Quota.round_half_up x = ⌊x + 1 / 2⌋ := by
  unfold Gen.Quota.round_half_up
  by_cases hd : x.den ≤ 2
  · have : Py.denLe x 2 = true := by simp [Py.denLe, hd]
    rw [if_pos this, pyCeil_eq]
    obtain ⟨m, rfl⟩ := half_int_of_den_le_two hd
    exact ceil_half_int m
  · have : ¬ (Py.denLe x 2 = true) := by simp [Py.denLe, hd]
    rw [if_neg this]
    have hfl := Int.floor_le x
    have hlt := Int.lt_floor_add_one x
    have key : ∀ f : Int, f = ⌊x⌋ →
        (if x - (f : Rat) < 1 / 2 then f else if (1 : Rat) / 2 < x - (f : Rat) then f + 1
          else if f % 2 = 0 then f else f + 1) = ⌊x + 1 / 2⌋ := by
      intro f hf
      subst hf
      by_cases h1 : x - (⌊x⌋ : Rat) < 1 / 2
      · rw [if_pos h1]; symm; rw [Int.floor_eq_iff]; constructor <;> linarith
      · rw [if_neg h1]
        by_cases h2 : (1 : Rat) / 2 < x - (⌊x⌋ : Rat)
        · rw [if_pos h2]; symm; rw [Int.floor_eq_iff]; push_cast; constructor <;> linarith
        · exfalso
          have : x - (⌊x⌋ : Rat) = 1 / 2 := le_antisymm (not_lt.mp h2) (not_lt.mp h1)
          have := den_two_of_half this
          omega
    exact key x.floor rfl


namespace QD

/-! ### dict operations -/

theorem foldl_add_eq (s : Sel) (a : Int) :
    s.foldl (fun acc p => acc + p.2) a = a + (s.map (·.2)).sum := by
  induction s generalizing a with
  | nil => simp
  | cons x xs ih => simp only [List.foldl_cons, List.map_cons, List.sum_cons]; rw [ih]; ring

theorem sumK_eq (s : Sel) : sumK s = (s.map (·.2)).sum := by
  unfold sumK; rw [foldl_add_eq]; simp

theorem sumK_nil : sumK [] = 0 := rfl

theorem sumK_cons (p : Key × Int) (s : Sel) : sumK (p :: s) = p.2 + sumK s := by
  simp [sumK_eq]

theorem sumK_append (s t : Sel) : sumK (s ++ t) = sumK s + sumK t := by
  simp [sumK_eq]

theorem sumI_eq (m : IMap) : sumI m = (m.map (·.2)).sum := by
  unfold sumI
  have : ∀ a : Int, m.foldl (fun acc p => acc + p.2) a = a + (m.map (·.2)).sum := by
    induction m with
    | nil => simp
    | cons x xs ih => intro a; simp only [List.foldl_cons, List.map_cons, List.sum_cons]; rw [ih]; ring
  rw [this]; simp

/-- keys of a dict are distinct -/
def KNodup (s : Sel) : Prop := (s.map (·.1)).Nodup

theorem getK_nil (k : Key) (d : Int) : getK [] k d = d := rfl

theorem getK_cons (p : Key × Int) (s : Sel) (k : Key) (d : Int) :
    getK (p :: s) k d = if p.1 = k then p.2 else getK s k d := by
  unfold getK
  simp only [List.find?_cons]
  by_cases h : p.1 = k <;> simp [h]

theorem hasK_cons (p : Key × Int) (s : Sel) (k : Key) :
    hasK (p :: s) k = (decide (p.1 = k) || hasK s k) := by
  simp [hasK]

theorem hasK_iff (s : Sel) (k : Key) : hasK s k = true ↔ k ∈ s.map (·.1) := by
  unfold hasK
  simp only [List.any_eq_true, decide_eq_true_eq, List.mem_map]
  constructor
  · rintro ⟨p, hp, rfl⟩; exact ⟨p, hp, rfl⟩
  · rintro ⟨p, hp, rfl⟩; exact ⟨p, hp, rfl⟩

theorem getK_of_not_hasK {s : Sel} {k : Key} (h : hasK s k = false) (d : Int) : getK s k d = d := by
  induction s with
  | nil => rfl
  | cons p ps ih =>
    rw [hasK_cons] at h
    simp only [Bool.or_eq_false_iff, decide_eq_false_iff_not] at h
    rw [getK_cons, if_neg h.1, ih h.2]

theorem setK_of_not_hasK {s : Sel} {k : Key} (h : hasK s k = false) (v : Int) :
    setK s k v = s ++ [(k, v)] := by
  induction s with
  | nil => rfl
  | cons p ps ih =>
    rw [hasK_cons] at h
    simp only [Bool.or_eq_false_iff, decide_eq_false_iff_not] at h
    simp only [setK, if_neg h.1, ih h.2, List.cons_append]

theorem getK_setK_self (s : Sel) (k : Key) (v d : Int) : getK (setK s k v) k d = v := by
  induction s with
  | nil => simp [setK, getK_cons]
  | cons p ps ih =>
    simp only [setK]
    by_cases h : p.1 = k
    · rw [if_pos h, getK_cons]; simp
    · rw [if_neg h, getK_cons, if_neg h, ih]

theorem getK_setK_ne (s : Sel) {k k' : Key} (h : k' ≠ k) (v d : Int) :
    getK (setK s k v) k' d = getK s k' d := by
  induction s with
  | nil => simp [setK, getK_cons, Ne.symm h, getK_nil]
  | cons p ps ih =>
    simp only [setK]
    by_cases hp : p.1 = k
    · rw [if_pos hp, getK_cons, getK_cons]
      have : ¬ k = k' := fun e => h e.symm
      rw [if_neg this, if_neg (by rw [hp]; exact this)]
    · rw [if_neg hp, getK_cons, getK_cons, ih]

theorem keys_setK (s : Sel) (k : Key) (v : Int) :
    (setK s k v).map (·.1) = if hasK s k then s.map (·.1) else s.map (·.1) ++ [k] := by
  induction s with
  | nil => simp [setK, hasK]
  | cons p ps ih =>
    simp only [setK, hasK_cons]
    by_cases hp : p.1 = k
    · simp [hp]
    · simp only [if_neg hp, List.map_cons, ih, hp, decide_false, Bool.false_or]
      split <;> simp

theorem hasK_setK (s : Sel) (k k' : Key) (v : Int) :
    hasK (setK s k v) k' = (hasK s k' || decide (k = k')) := by
  have h1 := hasK_iff (setK s k v) k'
  have h2 := hasK_iff s k'
  rw [keys_setK] at h1
  rw [Bool.eq_iff_iff, h1]
  simp only [Bool.or_eq_true, decide_eq_true_eq, h2]
  by_cases hk : hasK s k = true
  · rw [if_pos hk]
    constructor
    · intro h; exact Or.inl h
    · rintro (h | rfl)
      · exact h
      · exact (hasK_iff s k).mp hk
  · rw [if_neg hk]
    simp only [List.mem_append, List.mem_singleton]
    constructor
    · rintro (h | rfl)
      · exact Or.inl h
      · exact Or.inr rfl
    · rintro (h | rfl)
      · exact Or.inl h
      · exact Or.inr rfl

theorem KNodup_setK {s : Sel} (h : KNodup s) (k : Key) (v : Int) : KNodup (setK s k v) := by
  unfold KNodup at *
  rw [keys_setK]
  by_cases hk : hasK s k = true
  · rw [if_pos hk]; exact h
  · rw [if_neg hk]
    have : k ∉ s.map (·.1) := fun hm => hk ((hasK_iff s k).mpr hm)
    exact List.Nodup.append h (by simp) (by simpa using this)

theorem sumK_setK (s : Sel) (k : Key) (v : Int) : sumK (setK s k v) = sumK s - getK s k 0 + v := by
  induction s with
  | nil => simp [setK, sumK_cons, sumK_nil, getK_nil]
  | cons p ps ih =>
    simp only [setK]
    by_cases hp : p.1 = k
    · rw [if_pos hp, sumK_cons, sumK_cons, getK_cons, if_pos hp]; simp
    · rw [if_neg hp, sumK_cons, sumK_cons, getK_cons, if_neg hp, ih]; ring

theorem keys_delK (s : Sel) (k : Key) : (delK s k).map (·.1) = (s.map (·.1)).filter (fun x => x ≠ k) := by
  unfold delK
  induction s with
  | nil => rfl
  | cons p ps ih =>
    simp only [List.filter_cons, List.map_cons]
    by_cases hp : p.1 = k <;> simp [hp, ih]

theorem KNodup_delK {s : Sel} (h : KNodup s) (k : Key) : KNodup (delK s k) := by
  unfold KNodup at *
  rw [keys_delK]; exact h.filter _

theorem sumK_delK {s : Sel} (h : KNodup s) (k : Key) : sumK (delK s k) = sumK s - getK s k 0 := by
  induction s with
  | nil => simp [delK, sumK_nil, getK_nil]
  | cons p ps ih =>
    have hn : KNodup ps := (List.nodup_cons.mp h).2
    have hnot : p.1 ∉ ps.map (·.1) := (List.nodup_cons.mp h).1
    by_cases hp : p.1 = k
    · have hk : hasK ps k = false := by
        rw [← Bool.not_eq_true]; intro hh; exact hnot (hp ▸ (hasK_iff ps k).mp hh)
      have hd : delK (p :: ps) k = ps := by
        unfold delK
        rw [List.filter_cons]
        simp only [hp, ne_eq, not_true_eq_false, decide_false, Bool.false_eq_true, if_false]
        rw [List.filter_eq_self]
        intro a ha
        simp only [ne_eq, decide_not, Bool.not_eq_eq_eq_not, Bool.not_true, decide_eq_false_iff_not]
        intro e
        have : k ∈ ps.map (·.1) := List.mem_map.mpr ⟨a, ha, e⟩
        exact hnot (hp ▸ this)
      rw [hd, sumK_cons, getK_cons, if_pos hp]; ring
    · have hd : delK (p :: ps) k = p :: delK ps k := by
        unfold delK; rw [List.filter_cons]; simp [hp]
      rw [hd, sumK_cons, sumK_cons, getK_cons, if_neg hp, ih hn]; ring

theorem sumK_decK {s : Sel} (h : KNodup s) (k : Key) : sumK (decK s k) = sumK s - 1 := by
  unfold decK
  split
  · rename_i h1; rw [sumK_delK h, h1]
  · rw [sumK_setK]; ring

theorem KNodup_decK {s : Sel} (h : KNodup s) (k : Key) : KNodup (decK s k) := by
  unfold decK
  split
  · exact KNodup_delK h k
  · exact KNodup_setK h k _

end QD
end VL
